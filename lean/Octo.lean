import Octo.Base.Bytes
