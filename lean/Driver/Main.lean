import Octo.Model.PacketWindow
import Octo.Model.Addr
import Std.Data.HashMap
/-!
  Line-protocol driver: reads `op args… [=> impl-result]` lines on stdin, runs the *model
  definitions the theorems are about* and prints one canonical result per line.
-/
open Octo

namespace Driver

inductive Obj where
  | pw (f : PW.Filter)
  | buf (b : Bytes)

structure St where
  objs : Std.HashMap String Obj := {}

def hexOrDash (b : Bytes) : String := if b.isEmpty then "-" else hex b
def unhexOrDash (s : String) : Option Bytes := if s == "-" then some [] else unhex s

/-- address text form: `d:<hexname|->:port`, `4:<8hex>:port`, `6:<32hex>:port` -/
def parseAddr (s : String) : Option Addr :=
  match s.splitOn ":" with
  | [k, h, p] =>
    match unhexOrDash h, p.toNat? with
    | some hb, some pn =>
      if k == "d" then some (.domain hb pn)
      else if k == "4" then some (.v4 hb pn)
      else if k == "6" then some (.v6 hb pn)
      else none
    | _, _ => none
  | _ => none

def showAddr : Addr → String
  | .domain h p => s!"d:{hexOrDash h}:{p}"
  | .v4 ip p => s!"4:{hexOrDash ip}:{p}"
  | .v6 ip p => s!"6:{hexOrDash ip}:{p}"

/-- strict UTF-8 validity (what `String::from_utf8` accepts) -/
def utf8Ok : Bytes → Bool
  | [] => true
  | b0 :: rest =>
    let n := b0.toNat
    if n < 0x80 then utf8Ok rest
    else if 0xC2 ≤ n ∧ n ≤ 0xDF then
      match rest with
      | b1 :: r => if 0x80 ≤ b1.toNat ∧ b1.toNat ≤ 0xBF then utf8Ok r else false
      | _ => false
    else if 0xE0 ≤ n ∧ n ≤ 0xEF then
      match rest with
      | b1 :: b2 :: r =>
        let lo := if n = 0xE0 then 0xA0 else 0x80
        let hi := if n = 0xED then 0x9F else 0xBF
        if lo ≤ b1.toNat ∧ b1.toNat ≤ hi ∧ 0x80 ≤ b2.toNat ∧ b2.toNat ≤ 0xBF then utf8Ok r else false
      | _ => false
    else if 0xF0 ≤ n ∧ n ≤ 0xF4 then
      match rest with
      | b1 :: b2 :: b3 :: r =>
        let lo := if n = 0xF0 then 0x90 else 0x80
        let hi := if n = 0xF4 then 0x8F else 0xBF
        if lo ≤ b1.toNat ∧ b1.toNat ≤ hi ∧ 0x80 ≤ b2.toNat ∧ b2.toNat ≤ 0xBF ∧ 0x80 ≤ b3.toNat ∧ b3.toNat ≤ 0xBF
        then utf8Ok r else false
      | _ => false
    else false
termination_by b => b.length
decreasing_by all_goals (simp_wf; try omega)

def showRes {α : Type} (f : α → String) : Res α → String
  | .ok a => "ok " ++ f a
  | .more => "more"
  | .err => "err"
  | .panic => "panic"

def step (st : St) (toks : List String) : St × String :=
  match toks with
  | ["pw.new", name] => ({ st with objs := st.objs.insert name (.pw PW.Filter.new) }, "ok")
  | ["pw.val", name, id, limit] =>
    match st.objs.get? name, id.toNat?, limit.toNat? with
    | some (.pw f), some i, some l =>
      let (f', r) := f.validate i l
      ({ st with objs := st.objs.insert name (.pw f') }, if r then "1" else "0")
    | _, _, _ => (st, "bad-op")
  | ["addr.enc", "s5", a] =>
    match parseAddr a with
    | some a => (st, hexOrDash (Socks5Addr.encode a))
    | none => (st, "bad-op")
  | ["addr.len", "s5", a] =>
    match parseAddr a with
    | some a => (st, toString (Socks5Addr.length a))
    | none => (st, "bad-op")
  | ["addr.dec", "s5", h] =>
    match unhexOrDash h with
    | some b => (st, showRes (fun (p : Addr × Bytes) => s!"{showAddr p.1} rest={hexOrDash p.2}") (Socks5Addr.decode b))
    | none => (st, "bad-op")
  | ["addr.trylen", h, at_] =>
    match unhexOrDash h, at_.toNat? with
    | some b, some n => (st, showRes toString (Socks5Addr.tryDecodeAt b n))
    | _, _ => (st, "bad-op")
  | ["addr.enc", "vm", a] =>
    match parseAddr a with
    | some a => (st, showRes hexOrDash (VmessAddr.write a))
    | none => (st, "bad-op")
  | ["addr.dec", "vm", h] =>
    match unhexOrDash h with
    | some b => (st, showRes (fun (p : Addr × Bytes) => s!"{showAddr p.1} rest={hexOrDash p.2}") (VmessAddr.read utf8Ok b))
    | none => (st, "bad-op")
  | ["addr.accept", a] =>
    match parseAddr a with
    | some a => (st, if decide a.Accepted then "1" else "0")
    | none => (st, "bad-op")
  | _ => (st, "bad-op")

partial def loop (h : IO.FS.Stream) (out : IO.FS.Stream) (st : St) : IO Unit := do
  let line ← h.getLine
  if line.isEmpty then return ()
  let line := line.trimAscii.toString
  if line.isEmpty || line.startsWith "#" then
    out.putStrLn ""
    loop h out st
  else
    let lhs := (line.splitOn " => ").head!
    let toks := (lhs.splitOn " ").filter (· ≠ "")
    let (st', r) := step st toks
    out.putStrLn r
    loop h out st'

end Driver

def main : IO Unit := do
  let stdin ← IO.getStdin
  let stdout ← IO.getStdout
  Driver.loop stdin stdout {}
