import Octo.Model.PacketWindow
import Octo.Model.Addr
import Octo.Model.AddrOrd
import Octo.Model.SsConfig
import Octo.Model.Vmess
import Octo.Model.Trojan
import Octo.Model.Socks5
import Octo.Model.SsUdp
import Octo.Model.Config
import Octo.Model.Handshake
import Octo.Spec.Wire
import Octo.Model.System
import Octo.Model.Interleave
import Octo.Crypto.Real
import Std.Data.HashMap
/-!
  Line-protocol driver: reads `op args… [=> impl-result]` lines on stdin, runs the *model
  definitions the theorems are about* and prints one canonical result per line.
-/
open Octo

namespace Driver

def C : Crypto := Crypto.real

/-- replay cache of a context as the driver tracks it: salt and the second it was recorded -/
structure SsCtxObj where
  ctx : Ss.Ctx
  seen : List (Bytes × Nat) := []

structure SsStream where
  ctxName : String
  enc : Ss.Enc := {}
  fr : FrSt Ss.SrvDec

structure VmcStream where
  c : Vmess.Client
  fr : FrSt Unit := { st := () }

structure VmsStream where
  fr : FrSt Vmess.Server

structure TjStream where
  password : Bytes
  client : Bool
  udp : Bool := false
  addr : Option Addr := none
  enc : Trojan.ClientEnc := {}
  fr : FrSt Trojan.SrvSt := { st := .header }

structure SsuObj where
  ctx : Ss.Ctx
  client : Bool
  cc : SsUdp.ClientCodec := { session := {} }
  known : Bool := false        -- the client's random session id has been learned from its first packet

/-- a running client + server pair: configuration, what has hit it so far -/
structure WorldObj where
  protocol : String
  udp : Bool
  link : Bool
  serverUp : Bool := true
  listeners : Listener.State := {}
  openFlows : Nat := 0          -- flows that have not ended (every scripted flow runs to its end)
  udpSinceBase : Bool := false
  users : Nat := 0              -- registered users of the server configuration
  ids : Bool := false           -- the cipher's datagrams carry session and packet ids (2022)
  started : Bool := true        -- the server's start-up succeeded

inductive Obj where
  | ssu (o : SsuObj)
  | pw (f : PW.Filter)
  | ssCtx (c : SsCtxObj)
  | ss (s : SsStream)
  | vmc (s : VmcStream)
  | vms (s : VmsStream)
  | tj (s : TjStream)
  | world (w : WorldObj)

structure St where
  objs : Std.HashMap String Obj := {}
  ws : List String := []        -- objects that sit under `WebSocketFramed` instead of `FramedRead`

def hexOrDash (b : Bytes) : String := if b.isEmpty then "-" else hex b
def unhexOrDash (s : String) : Option Bytes := if s == "-" then some [] else unhex s

/-- address text form: `d:<hexname|->:port`, `4:<8hex>:port`, `6:<32hex>:port` -/
def parseAddr (s : String) : Option Addr :=
  match s.splitOn ":" with
  | [k, h, p] =>
    match unhexOrDash h, p.toNat? with
    | some hb, some pn =>
      if k == "d" then some (.domain hb pn)
      else if k == "4" then some (.v4 hb pn)
      else if k == "6" then some (.v6 hb pn)
      else none
    | _, _ => none
  | _ => none

def showAddr : Addr → String
  | .domain h p => s!"d:{hexOrDash h}:{p}"
  | .v4 ip p => s!"4:{hexOrDash ip}:{p}"
  | .v6 ip p => s!"6:{hexOrDash ip}:{p}"

/-- strict UTF-8 validity (what `String::from_utf8` accepts) -/
def utf8Ok : Bytes → Bool
  | [] => true
  | b0 :: rest =>
    let n := b0.toNat
    if n < 0x80 then utf8Ok rest
    else if 0xC2 ≤ n ∧ n ≤ 0xDF then
      match rest with
      | b1 :: r => if 0x80 ≤ b1.toNat ∧ b1.toNat ≤ 0xBF then utf8Ok r else false
      | _ => false
    else if 0xE0 ≤ n ∧ n ≤ 0xEF then
      match rest with
      | b1 :: b2 :: r =>
        let lo := if n = 0xE0 then 0xA0 else 0x80
        let hi := if n = 0xED then 0x9F else 0xBF
        if lo ≤ b1.toNat ∧ b1.toNat ≤ hi ∧ 0x80 ≤ b2.toNat ∧ b2.toNat ≤ 0xBF then utf8Ok r else false
      | _ => false
    else if 0xF0 ≤ n ∧ n ≤ 0xF4 then
      match rest with
      | b1 :: b2 :: b3 :: r =>
        let lo := if n = 0xF0 then 0x90 else 0x80
        let hi := if n = 0xF4 then 0x8F else 0xBF
        if lo ≤ b1.toNat ∧ b1.toNat ≤ hi ∧ 0x80 ≤ b2.toNat ∧ b2.toNat ≤ 0xBF ∧ 0x80 ≤ b3.toNat ∧ b3.toNat ≤ 0xBF
        then utf8Ok r else false
      | _ => false
    else false
termination_by b => b.length
decreasing_by all_goals (simp_wf; try omega)

def kv (toks : List String) (key : String) : Option String :=
  toks.findSome? fun t => if t.startsWith (key ++ "=") then some ((t.drop (key.length + 1)).toString) else none

def parseUsers (s : String) : List (String × String) :=
  if s == "-" then [] else
  (s.splitOn ";").filterMap fun u =>
    match u.splitOn ":" with
    | n :: rest => if rest.isEmpty then none else some (n, String.intercalate ":" rest)
    | _ => none

def showAddrSlash (a : Addr) : String := (showAddr a).replace ":" "/"

/-- canonical event text; adjacent data is merged so that item granularity does not matter -/
def evTokens : List FrEv → List (String × Bytes) → List (String × Bytes)
  | [], acc => acc.reverse
  | .item i :: r, acc =>
    match i.kind, acc with
    | .data, (h, d) :: acc' =>
      if h.startsWith "d" || h.startsWith "c" then evTokens r ((h, d ++ i.data) :: acc')
      else evTokens r (("d", i.data) :: acc)
    | .data, [] => evTokens r [("d", i.data)]
    | .connect, _ => evTokens r (("c:" ++ (i.addr.map showAddrSlash).getD "-", i.data) :: acc)
    | .udp, _ => evTokens r (("u:" ++ (i.addr.map showAddrSlash).getD "-", i.data) :: acc)
  | .err :: r, acc => evTokens r (("err", []) :: acc)
  | .panic :: r, acc => evTokens r (("panic", []) :: acc)
  | .ended :: r, acc => evTokens r (("end", []) :: acc)
  | .spin :: r, acc => evTokens r (("spin", []) :: acc)

def showEvents (evs : List FrEv) : String :=
  let toks := (evTokens evs []).map fun (h, d) =>
    if h == "err" || h == "panic" || h == "end" || h == "spin" then h else s!"{h}:{hexOrDash d}"
  if toks.isEmpty then "-" else String.intercalate " " toks

def ssCall (ctx : Ss.Ctx) (env : Ss.DecEnv) (s : Ss.SrvDec) (b : Bytes) : Call Ss.SrvDec :=
  match s.dec.sess.mode with
  | .server => Ss.serverCall C ctx env s b
  | .client =>
    let c := Ss.clientCall C ctx env s.dec b
    ⟨{ s with dec := c.st }, c.buf, c.res⟩

/-- recover the randomness (salt, timestamp, padding) the implementation drew for the first
`encode` of a session from its output, so that the model encoder can be compared byte for byte -/
def ssRecover (ctx : Ss.Ctx) (sess : Ss.Sess) (w : Bytes) : Bytes × Ss.EncRand :=
  let n := ctx.kind.n
  let salt := w.take n
  if ¬ ctx.kind.is2022 then (salt, {}) else
  let eihLen := if sess.mode = .client ∧ ctx.kind.supportEih then 16 * ctx.identityKeys.length else 0
  let key := match sess.user with
    | some u => u.key
    | none => ctx.key
  let a := Ss.newAuth C ctx.kind key salt
  let fixedLen := 1 + 8 + (match sess.requestSalt with | some r => r.length | none => 0) + 2 + 16
  let body := w.drop (n + eihLen)
  match a.openB C (body.take fixedLen) with
  | (none, _) => (salt, {})
  | (some f, a) =>
    let ts := rdBE ((f.drop 1).take 8)
    let len := rdBE (f.drop (f.length - 2))
    match a.openB C ((body.drop fixedLen).take (len + 16)) with
    | (none, _) => (salt, { now := ts })
    | (some via, _) =>
      if sess.mode = .client then
        match Socks5Addr.decode via with
        | .ok (_, rest) =>
          let pl := rdBE (rest.take 2)
          (salt, { now := ts, padding := (rest.drop 2).take pl })
        | _ => (salt, { now := ts })
      else (salt, { now := ts })

/-- `Uuid::parse_str` for the hyphenated and simple forms -/
def parseUuid (s : String) : Option Bytes :=
  match unhex (s.replace "-" "") with
  | some b => if b.length = 16 then some b else none
  | none => none

/-- walk the chunks of a VMess body stream with a decoder to recover the random padding bytes the
implementation appended to each chunk -/
def vmRecoverPads : Nat → Vmess.Body → Bytes → List Bytes
  | 0, _, _ => []
  | fuel+1, b, buf =>
    match b.unit C buf with
    | .take b' n _ =>
      match b.st with
      | .body pl len => ((buf.take len).drop (len - pl)) :: vmRecoverPads fuel b' (buf.drop n)
      | _ => vmRecoverPads fuel b' (buf.drop n)
    | _ => []

structure VmClientRecovered where
  rand : Vmess.ClientRand
  pads : List Bytes

def vmRecoverClient (c : Vmess.Client) (w : Bytes) : Option VmClientRecovered :=
  let authId := w.take 16
  let plain := C.aesDec (Vmess.kdf16 C c.key [Vmess.saltAuthId]) authId
  let connNonce := (w.drop 34).take 8
  match Vmess.openHeader C c.key w with
  | .ok (h, n) =>
    let s : Vmess.Session := ⟨(h.drop 1).take 16, (h.drop 17).take 16, h.getD 33 0⟩
    let padLen := (h.getD 35 0).toNat / 16
    let hp := (h.take (h.length - 4)).drop (h.length - 4 - padLen)
    let body := Vmess.Body.new C c.mask c.sec s.reqKey s.reqIv s
    some { rand := { session := s, headerPadding := hp, authTime := rdBE (plain.take 8), authRand := (plain.drop 8).take 4, connNonce := connNonce },
           pads := vmRecoverPads (w.length + 2) body (w.drop n) }
  | _ => none

def vmCall (now : Nat) (sv : Vmess.Server) (b : Bytes) : Call Vmess.Server := Vmess.Server.decode C utf8Ok now sv b
def vmcCall (c : Vmess.Client) (_ : Unit) (b : Bytes) : Call Unit :=
  let r := Vmess.Client.decode C c b
  ⟨(), r.buf, r.res⟩

def ttlLive (now : Nat) (e : Bytes × Nat) : Bool := now ≤ e.2 + Consts.ssSaltTtl

def showRes {α : Type} (f : α → String) : Res α → String
  | .ok a => "ok " ++ f a
  | .more => "more"
  | .err => "err"
  | .panic => "panic"


def e2eSizes (s : String) : List Bytes := (s.splitOn ",").filterMap fun x => x.toNat?.map fun n => List.replicate n 0

def e2eScenario (rest : List String) : Option System.Scenario :=
  match kv rest "up", kv rest "down" with
  | some up, some down =>
    let target := match kv rest "target" with
      | some "refused" => System.TargetKind.refused
      | some "unresolvable" => .unresolvable
      | _ => .up
    some { up := e2eSizes up, down := [ (e2eSizes down).flatten ],
           targetClosesFirst := kv rest "close" == some "target" || kv rest "close" == some "target-idle",
           hold := kv rest "close" == some "target-idle", resetAnswer := kv rest "reset" == some "target-answer",
           preamble := if kv rest "kind" == some "http" then [[80, 79, 83, 84]] else [],
           target := target, cutAfter := (kv rest "cut").bind String.toNat?,
           appEarly := kv rest "close" == some "app-early",
           resetApp := kv rest "reset" == some "app", resetTarget := kv rest "reset" == some "target" }
  | _, _ => none

def e2eUdp (w : WorldObj) : String :=
  if w.udp && w.listeners.serves && w.serverUp then "up=ok down=ok" else "up=diff:0 down=diff"

def e2eFault (kind : String) : Option Listener.Fault :=
  match kind with
  | "server-junk" => some .tcpGarbage
  | "server-junk-reset" => some .tcpReset
  | "server-stall" => some .tcpStall
  | "server-half" => some .tcpStall
  | "server-udp-junk" => some .udpGarbage
  | "server-udp-replay" => some .udpReplay
  | "server-udp-unresolvable" => some .udpTargetUnresolvable
  | "ws-fail" => some .wsFail
  | "tls-fail" => some .tlsFail
  | "tls-stall" => some .tlsStall
  | "accept-emfile" => some .acceptError
  | "local-junk" => some .localGarbage
  | "local-stall" => some .localStall
  | "local-udp-junk" => some .localUdpGarbage
  | "local-udp-oversized" => some .localUdpGarbage        -- the datagram that cannot be sent on is lost, nothing else
  | "server-udp-oversized-reply" => some .udpGarbage      -- the answer that cannot be relayed is lost, nothing else
  | "local-udp-short" => some .localUdpGarbage
  | "quic-stall" => some .tlsStall
  | "quic-junk" => some .udpGarbage
  | "local-udp-unresolvable" => some .udpTargetUnresolvable
  | _ => none

def step (st : St) (toks : List String) : St × String :=
  match toks with
  | ["pw.new", name] => ({ st with objs := st.objs.insert name (.pw PW.Filter.new) }, "ok")
  | ["pw.val", name, id, limit] =>
    match st.objs.get? name, id.toNat?, limit.toNat? with
    | some (.pw f), some i, some l =>
      let (f', r) := f.validate i l
      ({ st with objs := st.objs.insert name (.pw f') }, if r then "1" else "0")
    | _, _, _ => (st, "bad-op")
  | ["addr.enc", "s5", a] =>
    match parseAddr a with
    | some a => (st, hexOrDash (Socks5Addr.encode a))
    | none => (st, "bad-op")
  | ["addr.len", "s5", a] =>
    match parseAddr a with
    | some a => (st, toString (Socks5Addr.length a))
    | none => (st, "bad-op")
  | ["addr.dec", "s5", h] =>
    match unhexOrDash h with
    | some b => (st, showRes (fun (p : Addr × Bytes) => s!"{showAddr p.1} rest={hexOrDash p.2}") (Socks5Addr.decode b))
    | none => (st, "bad-op")
  | ["addr.trylen", h, at_] =>
    match unhexOrDash h, at_.toNat? with
    | some b, some n => (st, showRes toString (Socks5Addr.tryDecodeAt b n))
    | _, _ => (st, "bad-op")
  | ["addr.cmp", a, b] =>
    match parseAddr a, parseAddr b with
    | some a, some b => (st, match Addr.cmp a b with | .lt => "lt" | .eq => "eq" | .gt => "gt")
    | _, _ => (st, "bad-op")
  | ["addr.enc", "vm", a] =>
    match parseAddr a with
    | some a => (st, showRes hexOrDash (VmessAddr.write a))
    | none => (st, "bad-op")
  | ["addr.dec", "vm", h] =>
    match unhexOrDash h with
    | some b => (st, showRes (fun (p : Addr × Bytes) => s!"{showAddr p.1} rest={hexOrDash p.2}") (VmessAddr.read utf8Ok b))
    | none => (st, "bad-op")
  | "craft.ss2022" :: rest =>
    -- Spec-built Shadowsocks-2022 stream; password = base64 keys joined by ':' (iPSKs…, PSK)
    match (kv rest "cipher").bind Spec.cipherOf, kv rest "password", (kv rest "salt").bind unhexOrDash,
        (kv rest "fixed").bind unhexOrDash, (kv rest "var").bind unhexOrDash with
    | some c, some pw, some salt, some fixed, some var_ =>
      let psks := (pw.splitOn ":").filterMap Crypto.Base64.decode
      let chunks := match kv rest "chunks" with
        | some cs => if cs == "-" then [] else (cs.splitOn ";").filterMap unhexOrDash
        | none => []
      match (kv rest "bodypsk").bind Crypto.Base64.decode with
      | none => (st, hexOrDash (Spec.stream2022 C c psks ((kv rest "eih") == some "1") salt fixed var_ chunks))
      | some bp =>
        -- identity headers as for `psks`, body sealed under another key (a user presenting someone else's identity)
        let sub := Spec.sessionSubkey C c bp salt
        (st, hexOrDash (salt ++ Spec.identityHeaders C c salt psks ++ C.sealB c.alg sub (Spec.leNonce 0) [] fixed ++
          C.sealB c.alg sub (Spec.leNonce 1) [] var_ ++ Spec.chunkStream C c.alg sub 2 chunks))
    | _, _, _, _, _ => (st, "bad-op")
  | "craft.sslegacy" :: rest =>
    match (kv rest "cipher").bind Spec.cipherOf, kv rest "password", (kv rest "salt").bind unhexOrDash, kv rest "chunks" with
    | some c, some pw, some salt, some cs =>
      let chunks := if cs == "-" then [] else (cs.splitOn ";").filterMap unhexOrDash
      (st, hexOrDash (Spec.legacyStream C c pw.toUTF8.toList salt chunks))
    | _, _, _, _ => (st, "bad-op")
  | "craft.vm.instr" :: rest =>
    match (kv rest "iv").bind unhexOrDash, (kv rest "key").bind unhexOrDash, (kv rest "v").bind String.toNat?,
        (kv rest "opt").bind String.toNat?, (kv rest "padsec").bind String.toNat?, (kv rest "cmd").bind String.toNat?,
        (kv rest "pta").bind unhexOrDash, (kv rest "padding").bind unhexOrDash with
    | some iv, some key, some v, some opt, some ps, some cmd, some pta, some pad =>
      (st, hexOrDash (Spec.vmessInstruction C iv key v opt ps cmd pta pad))
    | _, _, _, _, _, _, _, _ => (st, "bad-op")
  | "craft.vm.req" :: rest =>
    -- (`cmdkey=`: a request sealed under a raw command key instead of the one derived from a user id)
    let ck? : Option Bytes := match (kv rest "cmdkey").bind unhexOrDash with
      | some k => some k
      | none => ((kv rest "uuid").bind parseUuid).map (Spec.vmessCmdKey C)
    match ck?, (kv rest "time").bind String.toNat?, (kv rest "rand").bind unhexOrDash,
        (kv rest "nonce").bind unhexOrDash, (kv rest "header").bind unhexOrDash with
    | some ck, some t, some r, some n, some h =>
      (st, hexOrDash (Spec.vmessSealedHeader C ck (Spec.vmessAuthId C ck t r) n h))
    | _, _, _, _, _ => (st, "bad-op")
  | "spec.ssu.eih.chain" :: rest =>
    -- separate header ‖ identity headers of a datagram as a client with the key chain `password` must write them: header i is
    -- AES under key i of (BLAKE3(key i+1)[..16] XOR session id ‖ packet id), all of them in clear behind the separate header
    match kv rest "password", (kv rest "wire").bind unhexOrDash with
    | some pw, some w =>
      let psks := (pw.splitOn ":").filterMap Crypto.Base64.decode
      match psks with
      | [] => (st, "bad-op")
      | k0 :: _ =>
        let sidPid := C.aesDec k0 (w.take 16)
        let rec go (i : Nat) : List Bytes → Option Nat
          | a :: b :: rest =>
            let want := C.aesEnc a (xorBytes ((C.blake3Hash b).take 16) sidPid)
            if ((w.drop (16 + 16 * i)).take 16) == want then go (i + 1) (b :: rest) else some (i + 1)
          | _ => none
        (st, match go 0 psks with | none => "ok" | some hop => s!"differs-at-hop-{hop}")
    | _, _ => (st, "bad-op")
  | "e2e.udpfire" :: name :: _ =>
    match st.objs.get? name with
    | some (.world w) => ({ st with objs := st.objs.insert name (.world { w with udpSinceBase := true }) }, if !w.udp then "no-udp" else "done")
    | _ => (st, "bad-op")
  | "spec.eih.chain" :: rest =>
    -- salt ‖ identity headers as a client with the key chain `password` must write them (SIP022 3.1.3)
    match (kv rest "cipher").bind Spec.cipherOf, kv rest "password", (kv rest "wire").bind unhexOrDash with
    | some c, some pw, some w =>
      let psks := (pw.splitOn ":").filterMap Crypto.Base64.decode
      let salt := w.take c.keyLen
      let want := Spec.identityHeaders C c salt psks
      let got := (w.drop c.keyLen).take want.length
      if got == want then (st, "ok")
      else
        let hop := ((List.range (want.length / 16)).find? fun i => (got.drop (16 * i)).take 16 != (want.drop (16 * i)).take 16).getD 0
        (st, s!"differs-at-hop-{hop + 1}")
    | _, _, _ => (st, "bad-op")
  | "craft.vm.chunk" :: rest =>
    match (kv rest "datakey").bind unhexOrDash, (kv rest "dataiv").bind unhexOrDash, (kv rest "lenkey").bind unhexOrDash,
        (kv rest "leniv").bind unhexOrDash, (kv rest "count").bind String.toNat?, (kv rest "payload").bind unhexOrDash with
    | some dk, some di, some lk, some li, some n, some p => (st, hexOrDash (Spec.vmessChunkAuthLen C dk di lk li n p))
    | _, _, _, _, _, _ => (st, "bad-op")
  | "craft.vm.body" :: rest =>
    -- reference body chunks for ANY option mask (plain / SHAKE-masked / authenticated length, with or without global
    -- padding), one chunk per payload (`-` = the empty chunk, the end-of-transmission mark of the reference
    -- implementations); `forge=n`: one more chunk header whose size field says `n`, followed by 80 filler bytes
    match (kv rest "mask").bind String.toNat?, (kv rest "sec").bind String.toNat?, (kv rest "key").bind unhexOrDash,
        (kv rest "iv").bind unhexOrDash, kv rest "payloads" with
    | some mask, some sec, some key, some iv, some ps =>
      let payloads := if ps == "none" then [] else (ps.splitOn ";").filterMap unhexOrDash
      let b0 := Vmess.Body.new C mask (Vmess.Security.ofByte sec) key iv { reqIv := iv, reqKey := key, respHeader := 0 }
      let pad : Bytes := List.replicate 64 (0x55 : UInt8)
      let (w, b) := payloads.foldl (fun (acc : Bytes × Vmess.Body) p =>
        let (x, _, b') := acc.2.encodeChunk C p pad
        (acc.1 ++ x, b')) ([], b0)
      match (kv rest "forge").bind String.toNat? with
      | none => (st, hexOrDash w)
      | some n =>
        let (_, b1) := b.nextPadding C
        let (sz, _) := b1.encodeSize C n
        (st, hexOrDash (w ++ sz ++ List.replicate 80 (0x33 : UInt8)))
    | _, _, _, _, _ => (st, "bad-op")
  | "craft.vm.resp" :: rest =>
    match (kv rest "reqkey").bind unhexOrDash, (kv rest "reqiv").bind unhexOrDash, (kv rest "header").bind unhexOrDash with
    | some rk, some ri, some h => (st, hexOrDash (Spec.vmessResponseHeader C ((C.sha256 rk).take 16) ((C.sha256 ri).take 16) h))
    | _, _, _ => (st, "bad-op")
  | "craft.tj.req" :: rest =>
    match kv rest "password", (kv rest "cmd").bind String.toNat?, (kv rest "target").bind unhexOrDash, (kv rest "payload").bind unhexOrDash with
    | some pw, some cmd, some t, some p => (st, hexOrDash (Spec.trojanRequest C pw.toUTF8.toList cmd t p))
    | _, _, _, _ => (st, "bad-op")
  | "spec.parse.sslegacy" :: rest =>
    match (kv rest "cipher").bind Spec.cipherOf, kv rest "password", (kv rest "wire").bind unhexOrDash with
    | some c, some pw, some w =>
      match Spec.parseLegacy C c pw.toUTF8.toList w with
      | some (salt, cs) => (st, s!"ok salt={hexOrDash salt} chunks={String.intercalate ";" (cs.map hexOrDash)}")
      | none => (st, "reject")
    | _, _, _ => (st, "bad-op")
  | "spec.parse.ss2022" :: rest =>
    match (kv rest "cipher").bind Spec.cipherOf, kv rest "password", (kv rest "wire").bind unhexOrDash,
        (kv rest "eih").bind String.toNat?, (kv rest "fixedlen").bind String.toNat? with
    | some c, some pw, some w, some ne, some fl =>
      let psk := ((pw.splitOn ":").filterMap Crypto.Base64.decode).getLast?.getD []
      match Spec.parse2022 C c psk ne fl w with
      | some (salt, eih, f, v, cs) =>
        (st, s!"ok salt={hexOrDash salt} eih={hexOrDash eih} fixed={hexOrDash f} var={hexOrDash v} chunks={String.intercalate ";" (cs.map hexOrDash)}")
      | none => (st, "reject")
    | _, _, _, _, _ => (st, "bad-op")
  | "spec.parse.vm" :: rest =>
    match (kv rest "uuid").bind parseUuid, (kv rest "wire").bind unhexOrDash, kv rest "cipher" with
    | some u, some w, some ci =>
      let ck := Spec.vmessCmdKey C u
      match Spec.parseVmessRequest C ck w with
      | some (aid, h, body) =>
        let iv := (h.drop 1).take 16
        let key := (h.drop 17).take 16
        let chacha := ci == "chacha20-poly1305"
        let alg : Alg := if chacha then .chacha20 else .aes128gcm
        let ck2 (k : Bytes) : Bytes := if chacha then (C.md5 k ++ C.md5 (C.md5 k)) else k
        let lenKey := ck2 ((Spec.vmessKdf C key [Spec.ascii "auth_len"]).take 16)
        match Spec.parseVmessBody C alg (ck2 key) iv lenKey iv (body.length + 1) 0 body with
        | some cs => (st, s!"ok authid={hexOrDash aid} instr={hexOrDash h} chunks={String.intercalate ";" (cs.map hexOrDash)}")
        | none => (st, s!"ok authid={hexOrDash aid} instr={hexOrDash h} chunks=reject")
      | none => (st, "reject")
    | _, _, _ => (st, "bad-op")
  | "craft.ssu" :: rest =>
    -- a Shadowsocks datagram sealed under the configured key around an arbitrary plaintext `body`
    -- (legacy: everything behind the salt; 2022: everything behind session id ‖ packet id); `rnd` = salt / XChaCha nonce
    match (kv rest "cipher"), (kv rest "password"), (kv rest "sid").bind String.toNat?, (kv rest "pid").bind String.toNat?,
        (kv rest "rnd").bind unhexOrDash, (kv rest "body").bind unhexOrDash with
    | some c, some pw, some sid, some pid, some rnd, some body =>
      match Ss.udpCtxOfConfig C c pw [] with
      | none => (st, "err")
      | some ctx =>
        let k := ctx.kind
        if !k.is2022 then (st, hexOrDash (rnd ++ ((Ss.newAuth C k ctx.key rnd).sealB C body).1))
        else
          let sidPid := be64 sid ++ be64 pid
          match SsUdp.xAlg k with
          | none =>
            match (kv rest "ipsk").bind Crypto.Base64.decode with
            | none => (st, hexOrDash (C.aesEnc ctx.key sidPid ++
                C.sealB k.alg (SsUdp.aesSessionKey C k ctx.key sid) (sidPid.drop 4) [] body))
            | some ipsk =>
              -- a registered user's datagram: header under the server key, identity header naming `password`'s key
              -- (`eihfor`: the identity header names another key's owner than the one the body is sealed under)
              let named := ((kv rest "eihfor").bind Crypto.Base64.decode).getD ctx.key
              (st, hexOrDash (C.aesEnc ipsk sidPid ++ SsUdp.withEih C named sidPid [ipsk] ++
                C.sealB k.alg (SsUdp.aesSessionKey C k ctx.key sid) (sidPid.drop 4) [] body))
          | some xa => (st, hexOrDash (rnd ++ C.sealB xa (ctx.key.take 32) rnd [] (sidPid ++ body)))
    | _, _, _, _, _, _ => (st, "bad-op")
  | ["nonce.cnt", iv, n] =>
    -- `CountingNonceGenerator` after `n` earlier calls, over the 12-byte prefix of `iv`
    match unhexOrDash iv, n.toNat? with
    | some iv, some n => (st, hexOrDash (Nonce.counting iv n 12))
    | _, _ => (st, "bad-op")
  | ["nonce.inc.at", state] =>
    match unhexOrDash state with
    | some b => (st, hexOrDash (Nonce.incStep b))
    | none => (st, "bad-op")
  | ["nonce.inc", n] =>
    -- `IncreasingNonceGenerator`: the nonce handed out by call number `n` (0-based); `Nonce.nth_nonce`: = little-endian `n`
    match n.toNat? with
    | some n => (st, hexOrDash (Nat.repeat Nonce.incStep (n + 1) Nonce.incInit))
    | none => (st, "bad-op")
  | ["craft.sha256", h] =>
    match unhexOrDash h with
    | some b => (st, hexOrDash (C.sha256 b))
    | none => (st, "bad-op")
  | "ssu.client" :: name :: rest =>
    match kv rest "cipher", kv rest "password" with
    | some c, some p =>
      match Ss.udpCtxOfConfig C c p [] with
      | some ctx => ({ st with objs := st.objs.insert name (.ssu { ctx := ctx, client := true }) }, "ok")
      | none => (st, "err")
    | _, _ => (st, "bad-op")
  | "ssu.server" :: name :: rest =>
    match kv rest "cipher", kv rest "password", kv rest "users" with
    | some c, some p, some u =>
      match Ss.udpCtxOfConfig C c p (parseUsers u) with
      | some ctx => ({ st with objs := st.objs.insert name (.ssu { ctx := ctx, client := false }) }, "ok")
      | none => (st, "err")
    | _, _, _ => (st, "bad-op")
  | "ssu.cenc" :: name :: rest =>
    match st.objs.get? name, (kv rest "addr").bind parseAddr, (kv rest "payload").bind unhexOrDash with
    | some (.ssu o), some a, some p =>
      let impl := (kv rest "impl").bind unhexOrDash
      match impl with
      | none =>
        -- the implementation refused: the model must refuse too (id exhausted)
        let (r, _) := SsUdp.ClientCodec.encode C o.ctx o.cc a p {}
        (st, match r with
          | .ok _ => "need-impl-wire"
          | _ => "err")
      | some w =>
        let (s, rnd) := SsUdp.recover C o.ctx .client none w
        -- the first packet tells the random client session id
        let cc := if o.known then o.cc else { o.cc with session := { o.cc.session with clientSessionId := s.clientSessionId } }
        let (r, cc') := SsUdp.ClientCodec.encode C o.ctx cc a p rnd
        let now := ((kv rest "now").bind String.toNat?).getD rnd.now
        let tsOk := ¬ o.ctx.kind.is2022 ∨ (now ≤ rnd.now + 1 ∧ rnd.now ≤ now + 1)
        ({ st with objs := st.objs.insert name (.ssu { o with cc := cc', known := true }) }, match r with
          | .ok mw => (if tsOk then "" else "bad-ts ") ++ hexOrDash mw
          | _ => "err")
    | _, _, _ => (st, "bad-op")
  | "ssu.cdec" :: name :: h :: rest =>
    match st.objs.get? name, unhexOrDash h with
    | some (.ssu o), some b =>
      let now := ((kv rest "now").bind String.toNat?).getD 0
      let (r, cc') := SsUdp.ClientCodec.decode C o.ctx o.cc now b
      ({ st with objs := st.objs.insert name (.ssu { o with cc := cc' }) }, match r with
        | .ok (some (p, a)) => s!"ok {showAddr a} data={hexOrDash p}"
        | .ok none => "none"
        | .panic => "panic"
        | _ => "err")
    | _, _ => (st, "bad-op")
  | "ssu.setid" :: name :: rest =>
    -- test hook of the harness: put the client's packet id counter at a chosen value
    match st.objs.get? name with
    | some (.ssu o) =>
      let s := o.cc.session
      let s := match (kv rest "pid").bind String.toNat? with
        | some pid => { s with packetId := pid }
        | none => s
      let s := match (kv rest "csid").bind String.toNat? with
        | some csid => { s with clientSessionId := csid }
        | none => s
      let known := o.known || ((kv rest "csid").bind String.toNat?).isSome
      ({ st with objs := st.objs.insert name (.ssu { o with cc := { o.cc with session := s }, known := known }) }, "ok")
    | _ => (st, "bad-op")
  | "ssu.sdec" :: name :: h :: rest =>
    match st.objs.get? name, unhexOrDash h with
    | some (.ssu o), some b =>
      let now := ((kv rest "now").bind String.toNat?).getD 0
      (st, match SsUdp.sessionDecode C o.ctx .server now b with
        | .ok (some (p, a, s)) => s!"ok csid={s.clientSessionId} pid={s.packetId} user={(s.user.map (·.name)).getD "-"} {showAddr a} data={hexOrDash p}"
        | .ok none => "none"
        | .panic => "panic"
        | _ => "err")
    | _, _ => (st, "bad-op")
  | "ssu.senc" :: name :: rest =>
    match st.objs.get? name, (kv rest "addr").bind parseAddr, (kv rest "payload").bind unhexOrDash,
        (kv rest "csid").bind String.toNat?, (kv rest "ssid").bind String.toNat?, (kv rest "pid").bind String.toNat? with
    | some (.ssu o), some a, some p, some csid, some ssid, some pid =>
      let user := (kv rest "user").bind fun n => o.ctx.users.find? (·.name == n)
      match (kv rest "impl").bind unhexOrDash with
      | none => (st, "need-impl-wire")
      | some w =>
        let (_, rnd) := SsUdp.recover C o.ctx .server user w
        let now := ((kv rest "now").bind String.toNat?).getD rnd.now
        let tsOk := ¬ o.ctx.kind.is2022 ∨ (now ≤ rnd.now + 1 ∧ rnd.now ≤ now + 1)
        (st, (if tsOk then "" else "bad-ts ") ++ hexOrDash (SsUdp.encode C o.ctx .server ⟨csid, ssid, pid, user⟩ a p rnd))
    | _, _, _, _, _, _ => (st, "bad-op")
  | ["hs.http", m, p] =>
    match unhexOrDash m, unhexOrDash p with
    | some mb, some pb =>
      (st, match Hs.recognizeHttp mb pb with
        | some (.http h port) => s!"ok http {hexOrDash h} {port}"
        | some (.https h port) => s!"ok https {hexOrDash h} {port}"
        | none => "err")
    | _, _ => (st, "bad-op")
  | "e2e.start" :: name :: rest =>
    match kv rest "protocol", kv rest "cipher", kv rest "mode" with
    | some proto, some cipher, some mode =>
      -- `cipher=(none)`: the configuration has no `cipher` key; it deserialises (the field defaults to the unknown kind),
      -- a shadowsocks entry then ends its start-up with "unknown cipher kind", trojan does not use the field
      let noCipher := cipher == "(none)"
      let okCfg := (noCipher || (Config.cipherOf cipher).isSome) && (Consts.protocolNames.any (·.1 == proto)) && (Consts.modeNames.any (·.1 == mode))
      if okCfg then
        -- (`cmode`: the client's mode when it differs — datagrams of vmess / trojan travel inside the tcp transport)
        let udp := match (Consts.modeNames.find? (·.1 == (kv rest "cmode").getD mode)) with
          | some (_, v) => Consts.modeUdp.contains v
          | none => false
        let users := match kv rest "users" with
          | some "-" => 0
          | some u => (u.splitOn ";").length
          | none => 0
        -- (a shadowsocks server whose key or user keys are not acceptable ends its start-up with an error: it never serves)
        let up := if noCipher then proto == "trojan" else proto != "shadowsocks" || (match kv rest "spw", kv rest "users" with
          | some spw, some us => (Ss.ctxOfConfig C cipher spw (parseUsers us)).isSome
          | _, _ => true)
        ({ st with objs := st.objs.insert name (.world { protocol := proto, udp := udp, link := kv rest "link" == some "1" || kv rest "link" == some "chop", users := users, ids := cipher.startsWith "2022", serverUp := up, started := up }) }, "ok")
      else (st, "err")
    | _, _, _ => (st, "bad-op")
  | "e2e.tcp" :: name :: rest =>
    match st.objs.get? name, e2eScenario rest with
    | some (.world w), some sc =>
      let sc := { sc with serverUp := w.serverUp && w.listeners.serves }
      (st, (System.simulate sc).text sc)
    | _, _ => (st, "bad-op")
  | "e2e.par" :: name :: rest =>
    match st.objs.get? name, e2eScenario rest, (kv rest "n").bind String.toNat?, (kv rest "m").bind String.toNat? with
    | some (.world w), some sc, some n, some m =>
      -- every flow's result is what it is alone (C09): n copies of the solo prediction
      let sc := { sc with serverUp := w.serverUp && w.listeners.serves }
      let t := if n == 0 then [] else [s!"tcp:{n}x[{(System.simulate sc).text sc}]"]
      let u := if m == 0 then [] else [s!"udp:{m}x[{e2eUdp w}]"]
      let w := { w with udpSinceBase := w.udpSinceBase || m > 0 }
      ({ st with objs := st.objs.insert name (.world w) }, if (t ++ u).isEmpty then "none" else " ".intercalate (t ++ u))
    | _, _, _, _ => (st, "bad-op")
  | "e2e.udp" :: name :: _ =>
    match st.objs.get? name with
    | some (.world w) => ({ st with objs := st.objs.insert name (.world { w with udpSinceBase := true }) }, e2eUdp w)
    | _ => (st, "bad-op")
  | "e2e.udpm" :: name :: _ =>
    -- several applications × several targets: every datagram reaches its own target once, every answer its own application
    match st.objs.get? name with
    | some (.world w) =>
      ({ st with objs := st.objs.insert name (.world { w with udpSinceBase := true }) },
        if !w.udp then "no-udp" else if w.listeners.serves && w.serverUp then "up=ok down=ok stray=0" else "up=diff down=diff stray=0")
    | _ => (st, "bad-op")
  | "e2e.udpbind" :: name :: rest =>
    -- n associations opened one after the other through a protocol that carries datagrams inside its transport: every
    -- one is answered; the client keeps at most `clientUdpBindings` of them, and an evicted one gives its connection back
    match st.objs.get? name, (kv rest "n").bind String.toNat? with
    | some (.world w), some n =>
      ({ st with objs := st.objs.insert name (.world { w with udpSinceBase := true }) },
        if !w.udp then "no-udp"
        else if w.listeners.serves && w.serverUp then s!"answered={n} links={if w.protocol == "shadowsocks" then 0 else min n Consts.clientUdpBindings}"
        else s!"answered=0 links=0")
    | _, _ => (st, "bad-op")
  | ["e2e.udpowner", name] =>
    -- two users, one session id: the association follows the user of each accepted datagram (reply sealed for its sender)
    match st.objs.get? name with
    | some (.world w) => (st, if w.protocol != "shadowsocks" || !w.udp || w.users < 2 then "n/a" else "a=ok b=ok a=ok")
    | _ => (st, "bad-op")
  | ["e2e.udpreplay", name] =>
    -- a refused duplicate is simply dropped: it does not end the session or disturb the packets that follow (C11, C08)
    match st.objs.get? name with
    | some (.world w) => ({ st with objs := st.objs.insert name (.world { w with udpSinceBase := true }) },
        if w.protocol != "shadowsocks" || !w.udp || !w.ids then "n/a" else if w.listeners.serves && w.serverUp then "ok" else "lost:[1,2,3,4,5]")
    | _ => (st, "bad-op")
  | "e2e.ssid" :: name :: _ =>
    -- fresh randomness per association: no (server session id, packet id) pair on two replies
    match st.objs.get? name with
    | some (.world w) => (st, if w.protocol != "shadowsocks" || !w.udp then "n/a" else "distinct")
    | _ => (st, "bad-op")
  | ["e2e.fault", name, kind, _] =>
    match st.objs.get? name, e2eFault kind with
    | some (.world w), some f =>
      let na := (kind == "server-udp-replay" || kind == "server-udp-unresolvable") && w.protocol != "shadowsocks"
      let touchesUdp := kind.startsWith "server-udp" || kind.startsWith "local-udp"
      ({ st with objs := st.objs.insert name (.world { w with listeners := Listener.step w.listeners f, udpSinceBase := w.udpSinceBase || touchesUdp }) },
       if na then "n/a" else "done")
    | _, _ => (st, "bad-op")
  | "e2e.linkreset" :: name :: _ =>
    -- the link fails right behind an answer: what the client had received reaches the application before its end (C15, C01)
    match st.objs.get? name with
    | some (.world w) => (st, if !w.link then "n/a" else if w.listeners.serves && w.serverUp then "answer=complete" else "handshake-failed")
    | _ => (st, "bad-op")
  | "e2e.udphol" :: name :: _ =>
    -- a binding whose connection stalls in its handshake waits by itself: an established binding is served meanwhile
    match st.objs.get? name with
    | some (.world w) =>
      ({ st with objs := st.objs.insert name (.world { w with listeners := Listener.step w.listeners .bindingStall, udpSinceBase := true }) },
       if !w.udp || w.protocol == "shadowsocks" || !w.link then "n/a" else if w.listeners.serves && w.serverUp then "served" else "lost")
    | _ => (st, "bad-op")
  | "e2e.udplru" :: name :: rest =>
    -- answers keep a binding in use: a flow that only receives outlives any number of short flows
    match st.objs.get? name, (kv rest "n").bind String.toNat? with
    | some (.world w), some n =>
      ({ st with objs := st.objs.insert name (.world { w with udpSinceBase := true }) },
       if !w.udp then "no-udp" else if w.listeners.serves && w.serverUp then s!"stream=alive answered={n}" else "stream=never-started")
    | _, _ => (st, "bad-op")
  | "spec.vm.lenopen" :: rest =>
    -- one size field of a VMess body with authenticated length, opened under KDF(key, "auth_len") and (count ‖ iv[2..12])
    match kv rest "cipher", (kv rest "key").bind unhexOrDash, (kv rest "iv").bind unhexOrDash, (kv rest "count").bind String.toNat?,
        (kv rest "ct").bind unhexOrDash with
    | some ci, some key, some iv, some i, some ct =>
      let chacha := ci == "chacha20-poly1305"
      let alg : Alg := if chacha then .chacha20 else .aes128gcm
      let ck2 (k : Bytes) : Bytes := if chacha then (C.md5 k ++ C.md5 (C.md5 k)) else k
      let lenKey := ck2 ((Spec.vmessKdf C key [Spec.ascii "auth_len"]).take 16)
      match C.openB alg lenKey ((be16 i ++ iv.drop 2).take 12) [] ct with
      | some l => (st, s!"ok len={rdBE l}")
      | none => (st, "reject")
    | _, _, _, _, _ => (st, "bad-op")
  | "e2e.udpflood" :: name :: _ =>
    -- sessions that flood in both directions lose datagrams of their own; the relay goes on for everybody (C08)
    match st.objs.get? name with
    | some (.world w) =>
      ({ st with objs := st.objs.insert name (.world { w with listeners := Listener.step w.listeners .udpFlood, udpSinceBase := true }) },
       if w.protocol != "shadowsocks" || !w.udp then "n/a" else "done")
    | _ => (st, "bad-op")
  | "e2e.resolver" :: name :: _ =>
    -- flows whose names meet a resolver that stays silent wait by themselves: a flow to an address is served meanwhile
    match st.objs.get? name with
    | some (.world w) =>
      ({ st with objs := st.objs.insert name (.world { w with listeners := Listener.step w.listeners .resolverStall }) },
       if w.listeners.serves && w.serverUp then "served" else "failed")
    | _ => (st, "bad-op")
  | ["e2e.server", name, what] =>
    match st.objs.get? name with
    | some (.world w) =>
      if what == "stop" then ({ st with objs := st.objs.insert name (.world { w with serverUp := false }) }, "ok")
      else if what == "start" then ({ st with objs := st.objs.insert name (.world { w with serverUp := true }) }, "ok")
      else (st, "bad-op")
    | _ => (st, "bad-op")
  | ["e2e.fdbase", name] =>
    match st.objs.get? name with
    | some (.world w) => ({ st with objs := st.objs.insert name (.world { w with udpSinceBase := false }) }, "ok")
    | _ => (st, "bad-op")
  | ["e2e.fdcheck", name] =>
    match st.objs.get? name with
    -- every tcp flow so far has ended: each holds `Flow.resources = 0` (C15); udp associations live until their idle timeout
    | some (.world w) => (st, if w.openFlows == 0 && !w.udpSinceBase then "baseline" else "associations-open")
    | _ => (st, "bad-op")
  | ["e2e.alive", name] =>
    match st.objs.get? name with
    | some (.world w) => (st, if !w.started then "ended:[0]" else if w.listeners.serves then "alive" else "ended")
    | _ => (st, "bad-op")
  | ["e2e.stop", name] => ({ st with objs := st.objs.erase name }, "ok")
  | ["ss.rerace", _, _, n] => (st, s!"accepted=0 of={n}")
  | ["ss.race", _, _, n] =>
    -- any interleaving of n concurrent presentations of one request: exactly one is accepted
    match n.toNat? with
    | some n =>
      let sched := (List.range n) ++ (List.range n)
      let w := Interleave.run (Consts.ssSaltTtl * 1000) 1000000 0 [1] ⟨[], List.replicate n .start⟩ sched
      (st, s!"accepted={Interleave.accepted w} of={n}")
    | none => (st, "bad-op")
  | "ssu.par" :: rest =>
    match (kv rest "threads").bind String.toNat?, (kv rest "packets").bind String.toNat? with
    | some t, some k => (st, s!"ok={t * k} bad=0")
    | _, _ => (st, "bad-op")
  | "hs.run" :: kind :: segs :: rest =>
    let segments := (segs.splitOn ";").filterMap unhexOrDash
    let marker := ((kv rest "marker").bind unhexOrDash).getD []
    let zero : Addr := .v4 [0, 0, 0, 0] 0
    let out : Hs.Outcome :=
      -- an empty marker: the application closes right after its last segment (end of stream inside the handshake)
      if kind == "socks5" then
        let split := ((kv rest "split").bind String.toNat?).getD segments.length
        if marker.isEmpty then Hs.socks5AtEof (segments.take split).flatten (segments.drop split).flatten zero
        else Hs.socks5Handshake (segments.take split).flatten (segments.drop split).flatten zero
      else if marker.isEmpty then Hs.httpAtEof segments.flatten else Hs.httpHandshake segments.flatten
    let all := segments.flatten
    (st, match out with
      | .tunnel a consumed reply => s!"ok {showAddr a} reply={hexOrDash reply} rest={hexOrDash (all.drop consumed ++ marker)}"
      | .refused reply => s!"refused reply={hexOrDash reply} rest=-"
      | .wait => "wait reply=- rest=-")
  | ["cfg.cipher", h] =>
    match (unhexOrDash h).bind (fun b => String.fromUTF8? (ByteArray.mk b.toArray)) with
    | some name =>
      match Config.cipherOf name with
      | some ci => (st, s!"ok {ci.variant} 2022={if ci.is2022 then 1 else 0} eih={if ci.eih then 1 else 0}")
      | none => (st, "err")
    | none => (st, "err")
  | ["cfg.mode", h] =>
    match (unhexOrDash h).bind (fun b => String.fromUTF8? (ByteArray.mk b.toArray)) with
    | some name =>
      match Config.listenersOf name with
      | some l => (st, s!"ok tcp={if l.tcp then 1 else 0} udp={if l.udp then 1 else 0} quic={if l.quic then 1 else 0}")
      | none => (st, "err")
    | none => (st, "err")
  | ["cfg.protocol", h] =>
    match (unhexOrDash h).bind (fun b => String.fromUTF8? (ByteArray.mk b.toArray)) with
    | some name =>
      match Config.lookup Consts.protocolNames name with
      | some v => (st, s!"ok {v}")
      | none => (st, "err")
    | none => (st, "err")
  | ["s5.dec", kind, h] =>
    match unhexOrDash h with
    | none => (st, "bad-op")
    | some b =>
      if kind == "ireq" then
        (st, showRes (fun (p : Bytes × Bytes) => s!"methods={hexOrDash p.1} rest={hexOrDash p.2}") (Socks5.decodeInitialRequest b))
      else if kind == "creq" then
        (st, showRes (fun (p : Nat × Addr × Bytes) => s!"cmd={p.1} {showAddr p.2.1} rest={hexOrDash p.2.2}") (Socks5.decodeCommandRequest b))
      else if kind == "iresp" then
        (st, showRes (fun (p : UInt8 × Bytes) => s!"method={p.1.toNat} rest={hexOrDash p.2}") (Socks5.decodeInitialResponse b))
      else if kind == "cresp" then
        (st, showRes (fun (p : Nat × Addr × Bytes) => s!"status={p.1} {showAddr p.2.1} rest={hexOrDash p.2.2}") (Socks5.decodeCommandResponse b))
      else if kind == "udp" then
        let c := Socks5.udpDecode b
        (st, (match c.res with
          | .ok i => s!"ok {(i.addr.map showAddr).getD "-"} data={hexOrDash i.data}"
          | .more => "more"
          | .err => "err"
          | .panic => "panic") ++ s!" rest={hexOrDash c.buf}")
      else (st, "bad-op")
  | "vm.client" :: name :: rest =>
    match (kv rest "uuid").bind parseUuid, kv rest "cipher", kv rest "cmd", (kv rest "addr").bind parseAddr with
    | some u, some ci, some cmd, some a =>
      let sec : Vmess.Security := if ci == "chacha20-poly1305" || ci == "chacha20-ietf-poly1305" then .chacha20 else .aes128gcm
      let c : Vmess.Client := { key := Vmess.cmdKey C u, sec := sec, cmd := if cmd == "udp" then .udp else .tcp, addr := a }
      ({ st with objs := st.objs.insert name (.vmc { c := c }) }, "ok")
    | _, _, _, _ => (st, "err")
  | "vm.server" :: name :: rest =>
    let st := if kv rest "adapter" == some "ws" then { st with ws := name :: st.ws } else st
    match kv rest "users" with
    | some u =>
      let ids := (parseUsers u).map fun (_, p) => parseUuid p
      if ids.all Option.isSome then
        ({ st with objs := st.objs.insert name (.vms { fr := { st := { keys := (ids.filterMap id).map (Vmess.cmdKey C) } } }) }, "ok")
      else (st, "err")
    | none => (st, "bad-op")
  | "tj.client" :: name :: rest =>
    match kv rest "password", kv rest "cmd", (kv rest "addr").bind parseAddr with
    | some p, some cmd, some a =>
      ({ st with objs := st.objs.insert name (.tj { password := p.toUTF8.toList, client := true, udp := cmd == "udp", addr := some a }) }, "ok")
    | _, _, _ => (st, "bad-op")
  | "tj.server" :: name :: rest =>
    let st := if kv rest "adapter" == some "ws" then { st with ws := name :: st.ws } else st
    match kv rest "password" with
    | some p => ({ st with objs := st.objs.insert name (.tj { password := p.toUTF8.toList, client := false }) }, "ok")
    | none => (st, "bad-op")
  | "ss.cctx" :: name :: rest =>
    match kv rest "cipher", kv rest "password" with
    | some c, some p =>
      match Ss.ctxOfConfig C c p [] with
      | some ctx => ({ st with objs := st.objs.insert name (.ssCtx { ctx := { ctx with users := [] } }) }, "ok")
      | none => (st, "err")
    | _, _ => (st, "bad-op")
  | "ss.sctx" :: name :: rest =>
    match kv rest "cipher", kv rest "password", kv rest "users" with
    | some c, some p, some u =>
      match Ss.ctxOfConfig C c p (parseUsers u) with
      | some ctx => ({ st with objs := st.objs.insert name (.ssCtx { ctx := ctx }) }, "ok")
      | none => (st, "err")
    | _, _, _ => (st, "bad-op")
  | "ss.new" :: name :: ctxName :: addr :: extra =>
    let st := if kv extra "adapter" == some "ws" then { st with ws := name :: st.ws } else st
    match st.objs.get? ctxName with
    | some (.ssCtx _) =>
      let a := if addr == "-" then none else parseAddr addr
      let mode : Ss.Mode := if addr == "-" then .server else .client
      let sess : Ss.Sess := { mode := mode, salt := [], address := a }
      let o : SsStream := { ctxName := ctxName, fr := { st := { dec := { sess := sess }, header := true } } }
      ({ st with objs := st.objs.insert name (.ss o) }, "ok")
    | _ => (st, "bad-op")
  | "st.enc" :: name :: payload :: rest =>
    match st.objs.get? name, unhexOrDash payload with
    | some (.tj o), some p =>
      if o.client then
        let a := o.addr.getD (.v4 [0, 0, 0, 0] 0)
        let (w, e) := if o.udp then
            match (kv rest "to").bind parseAddr with
            | some to => Trojan.clientEncodeUdp C o.password a o.enc p to
            | none => ([], o.enc)
          else Trojan.clientEncodeTcp C o.password a o.enc p
        ({ st with objs := st.objs.insert name (.tj { o with enc := e }) }, hexOrDash w)
      else
        match (kv rest "to").bind parseAddr with
        | some from_ => (st, hexOrDash (Trojan.serverEncodeUdp p from_))
        | none => (st, hexOrDash (Trojan.serverEncodeTcp p))
    | some (.vmc o), some p =>
      let implWire := (kv rest "impl").bind unhexOrDash
      match o.c.enc, implWire with
      | none, some w =>
        match vmRecoverClient o.c w with
        | some r =>
          let now := ((kv rest "now").bind String.toNat?).getD r.rand.authTime
          let tsOk := r.rand.authTime ≤ now + Consts.vmessTimestampJitter + 1 ∧ now ≤ r.rand.authTime + Consts.vmessTimestampJitter + 1
          match Vmess.Client.encodeFirst C o.c p r.rand r.pads with
          | .ok (mw, c') => ({ st with objs := st.objs.insert name (.vmc { o with c := c' }) }, (if tsOk then "" else "bad-ts ") ++ hexOrDash mw)
          | .panic => (st, "panic")
          | _ => (st, "err")
        | none =>
          -- nothing to recover from (the implementation refused or panicked): run the model with dummies
          let dummy : Vmess.ClientRand := { session := ⟨zeros 16, zeros 16, 0⟩, headerPadding := [], authTime := 0, authRand := zeros 4, connNonce := zeros 8 }
          match Vmess.Client.encodeFirst C o.c p dummy [] with
          | .ok _ => (st, "unrecoverable")
          | .panic => (st, "panic")
          | _ => (st, "err")
      | none, none => (st, "need-impl-wire")
      | some body, w =>
        let decBody : Vmess.Body := { body with st := .padding }
        let pads := match w with
          | some w => vmRecoverPads (w.length + 2) decBody w
          | none => []
        match Vmess.Client.encodeNext C o.c p pads with
        | .ok (mw, c') => ({ st with objs := st.objs.insert name (.vmc { o with c := c' }) }, hexOrDash mw)
        | _ => (st, "err")
    | some (.vms o), some p =>
      let implWire := (kv rest "impl").bind unhexOrDash
      match o.fr.st.ready with
      | none => (st, "err")
      | some r =>
        let s := r.session
        let (skip, decBody) : Nat × Vmess.Body := match r.enc with
          | some b => (0, { b with st := .padding })
          | none => (38, Vmess.Body.new C r.mask r.sec (s.respKey C) (s.respIv C) s)
        let pads := match implWire with
          | some w => vmRecoverPads (w.length + 2) decBody (w.drop skip)
          | none => []
        let (res, sv') := Vmess.Server.encode C o.fr.st p pads
        let o' := { o with fr := { o.fr with st := sv' } }
        ({ st with objs := st.objs.insert name (.vms o') }, match res with
          | .ok mw => hexOrDash mw
          | _ => "err")
    | some (.ss o), some p =>
      match st.objs.get? o.ctxName with
      | some (.ssCtx co) =>
        let implWire := (kv rest "impl").bind unhexOrDash
        let sess := o.fr.st.dec.sess
        match o.enc.auth, implWire with
        | none, none => (st, "need-impl-wire")
        | none, some w =>
          let (salt, r) := ssRecover co.ctx sess w
          let sess := { sess with salt := salt }
          let (mw, e) := Ss.encode C co.ctx sess o.enc p r
          let now := ((kv rest "now").bind String.toNat?).getD r.now
          let tsOk := ¬ co.ctx.kind.is2022 ∨ (now ≤ r.now + 1 ∧ r.now ≤ now + 1)
          let o' := { o with enc := e, fr := { o.fr with st := { o.fr.st with dec := { o.fr.st.dec with sess := sess } } } }
          ({ st with objs := st.objs.insert name (.ss o') }, if tsOk then hexOrDash mw else "bad-ts " ++ hexOrDash mw)
        | some _, _ =>
          let (mw, e) := Ss.encode C co.ctx sess o.enc p {}
          ({ st with objs := st.objs.insert name (.ss { o with enc := e }) }, hexOrDash mw)
      | _ => (st, "bad-op")
    | _, _ => (st, "bad-op")
  | "st.feed" :: name :: piece :: rest =>
    match st.objs.get? name, unhexOrDash piece with
    | some (.tj o), some p =>
      let (fr', evs) := if o.client then
          let call : Trojan.SrvSt → Bytes → Call Trojan.SrvSt := fun s b =>
            let r := if o.udp then Trojan.clientDecodeUdp b else Trojan.clientDecodeTcp b
            ⟨s, r.buf, r.res⟩
          frFeed call o.fr p
        else frFeed (Trojan.serverDecode C o.password) o.fr p
      ({ st with objs := st.objs.insert name (.tj { o with fr := fr' }) }, showEvents evs)
    | some (.vmc o), some p =>
      -- the client decoder state lives in `o.c`; thread it through the calls of one poll loop
      let now := ((kv rest "now").bind String.toNat?).getD 0
      let _ := now
      let call : Vmess.Client → Bytes → Call Vmess.Client := fun c b => Vmess.Client.decode C c b
      let (fr', evs) := frFeed call { st := o.c, buf := o.fr.buf, ended := o.fr.ended } p
      ({ st with objs := st.objs.insert name (.vmc { c := fr'.st, fr := { st := (), buf := fr'.buf, ended := fr'.ended } }) }, showEvents evs)
    | some (.vms o), some p =>
      let now := ((kv rest "now").bind String.toNat?).getD 0
      let (fr', evs) := frFeed (vmCall now) o.fr p
      ({ st with objs := st.objs.insert name (.vms { o with fr := fr' }) }, showEvents evs)
    | some (.ss o), some p =>
      match st.objs.get? o.ctxName with
      | some (.ssCtx co) =>
        let now := ((kv rest "now").bind String.toNat?).getD 0
        let env : Ss.DecEnv := { now := now, saltSeen := fun s => co.seen.any (fun e => e.1 == s && ttlLive now e) }
        let before := o.fr.st.dec.chunk.isNone
        let (fr', evs) := frFeed (ssCall co.ctx env) o.fr p
        let accepted := before ∧ fr'.st.dec.chunk.isSome ∧ co.ctx.kind.is2022 ∧ fr'.st.dec.sess.mode = .server
        let co' := if accepted then { co with seen := ((fr'.st.dec.sess.requestSalt.getD []), now) :: co.seen } else co
        let objs := (st.objs.insert name (.ss { o with fr := fr' })).insert o.ctxName (.ssCtx co')
        ({ st with objs := objs }, showEvents evs)
      | _ => (st, "bad-op")
    | _, _ => (st, "bad-op")
  | ["st.eof", name] =>
    match st.objs.get? name with
    | some (.tj o) =>
      let (fr', evs) := if o.client then
          let call : Trojan.SrvSt → Bytes → Call Trojan.SrvSt := fun s b =>
            let r := if o.udp then Trojan.clientDecodeUdp b else Trojan.clientDecodeTcp b
            ⟨s, r.buf, r.res⟩
          frEof call o.fr
        else if st.ws.contains name then wsEof o.fr else frEof (Trojan.serverDecode C o.password) o.fr
      ({ st with objs := st.objs.insert name (.tj { o with fr := fr' }) }, showEvents evs)
    | some (.vmc o) =>
      let call : Vmess.Client → Bytes → Call Vmess.Client := fun c b => Vmess.Client.decode C c b
      let (fr', evs) := frEof call { st := o.c, buf := o.fr.buf, ended := o.fr.ended }
      ({ st with objs := st.objs.insert name (.vmc { c := fr'.st, fr := { st := (), buf := fr'.buf, ended := fr'.ended } }) }, showEvents evs)
    | some (.vms o) =>
      let (fr', evs) := if st.ws.contains name then wsEof o.fr else frEof (vmCall 0) o.fr
      ({ st with objs := st.objs.insert name (.vms { o with fr := fr' }) }, showEvents evs)
    | some (.ss o) =>
      match st.objs.get? o.ctxName with
      | some (.ssCtx co) =>
        let env : Ss.DecEnv := { now := 0, saltSeen := fun _ => false }
        let (fr', evs) := if st.ws.contains name then wsEof o.fr else frEof (ssCall co.ctx env) o.fr
        ({ st with objs := st.objs.insert name (.ss { o with fr := fr' }) }, showEvents evs)
      | _ => (st, "bad-op")
    | _ => (st, "bad-op")
  | ["addr.accept", a] =>
    match parseAddr a with
    | some a => (st, if decide a.Accepted then "1" else "0")
    | none => (st, "bad-op")
  | _ => (st, "bad-op")

partial def loop (h : IO.FS.Stream) (out : IO.FS.Stream) (st : St) : IO Unit := do
  let line ← h.getLine
  if line.isEmpty then return ()
  let line := line.trimAscii.toString
  if line.isEmpty || line.startsWith "#" then
    out.putStrLn ""
    loop h out st
  else
    let parts := line.splitOn " => "
    let lhs := parts.head!
    let toks := (lhs.splitOn " ").filter (· ≠ "")
    -- encoders draw randomness inside the implementation: give the model the implementation's
    -- output so that it can recover the random values and re-encode
    let toks := if toks.head? == some "st.enc" || toks.head? == some "ssu.cenc" || toks.head? == some "ssu.senc" then
        match parts with
        | [_, r] => toks ++ ["impl=" ++ (r.trimAscii.toString.splitOn " ").head!]
        | _ => toks
      else toks
    let (st', r) := step st toks
    out.putStrLn r
    out.flush
    loop h out st'

end Driver

def main : IO Unit := do
  let stdin ← IO.getStdin
  let stdout ← IO.getStdout
  Driver.loop stdin stdout {}
