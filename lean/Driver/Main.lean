import Octo.Model.PacketWindow
import Octo.Model.Addr
import Octo.Model.SsConfig
import Octo.Crypto.Real
import Std.Data.HashMap
/-!
  Line-protocol driver: reads `op args… [=> impl-result]` lines on stdin, runs the *model
  definitions the theorems are about* and prints one canonical result per line.
-/
open Octo

namespace Driver

def C : Crypto := Crypto.real

/-- replay cache of a context as the driver tracks it: salt and the second it was recorded -/
structure SsCtxObj where
  ctx : Ss.Ctx
  seen : List (Bytes × Nat) := []

structure SsStream where
  ctxName : String
  enc : Ss.Enc := {}
  fr : FrSt Ss.SrvDec

inductive Obj where
  | pw (f : PW.Filter)
  | ssCtx (c : SsCtxObj)
  | ss (s : SsStream)

structure St where
  objs : Std.HashMap String Obj := {}

def hexOrDash (b : Bytes) : String := if b.isEmpty then "-" else hex b
def unhexOrDash (s : String) : Option Bytes := if s == "-" then some [] else unhex s

/-- address text form: `d:<hexname|->:port`, `4:<8hex>:port`, `6:<32hex>:port` -/
def parseAddr (s : String) : Option Addr :=
  match s.splitOn ":" with
  | [k, h, p] =>
    match unhexOrDash h, p.toNat? with
    | some hb, some pn =>
      if k == "d" then some (.domain hb pn)
      else if k == "4" then some (.v4 hb pn)
      else if k == "6" then some (.v6 hb pn)
      else none
    | _, _ => none
  | _ => none

def showAddr : Addr → String
  | .domain h p => s!"d:{hexOrDash h}:{p}"
  | .v4 ip p => s!"4:{hexOrDash ip}:{p}"
  | .v6 ip p => s!"6:{hexOrDash ip}:{p}"

/-- strict UTF-8 validity (what `String::from_utf8` accepts) -/
def utf8Ok : Bytes → Bool
  | [] => true
  | b0 :: rest =>
    let n := b0.toNat
    if n < 0x80 then utf8Ok rest
    else if 0xC2 ≤ n ∧ n ≤ 0xDF then
      match rest with
      | b1 :: r => if 0x80 ≤ b1.toNat ∧ b1.toNat ≤ 0xBF then utf8Ok r else false
      | _ => false
    else if 0xE0 ≤ n ∧ n ≤ 0xEF then
      match rest with
      | b1 :: b2 :: r =>
        let lo := if n = 0xE0 then 0xA0 else 0x80
        let hi := if n = 0xED then 0x9F else 0xBF
        if lo ≤ b1.toNat ∧ b1.toNat ≤ hi ∧ 0x80 ≤ b2.toNat ∧ b2.toNat ≤ 0xBF then utf8Ok r else false
      | _ => false
    else if 0xF0 ≤ n ∧ n ≤ 0xF4 then
      match rest with
      | b1 :: b2 :: b3 :: r =>
        let lo := if n = 0xF0 then 0x90 else 0x80
        let hi := if n = 0xF4 then 0x8F else 0xBF
        if lo ≤ b1.toNat ∧ b1.toNat ≤ hi ∧ 0x80 ≤ b2.toNat ∧ b2.toNat ≤ 0xBF ∧ 0x80 ≤ b3.toNat ∧ b3.toNat ≤ 0xBF
        then utf8Ok r else false
      | _ => false
    else false
termination_by b => b.length
decreasing_by all_goals (simp_wf; try omega)

def kv (toks : List String) (key : String) : Option String :=
  toks.findSome? fun t => if t.startsWith (key ++ "=") then some ((t.drop (key.length + 1)).toString) else none

def parseUsers (s : String) : List (String × String) :=
  if s == "-" then [] else
  (s.splitOn ";").filterMap fun u =>
    match u.splitOn ":" with
    | n :: rest => if rest.isEmpty then none else some (n, String.intercalate ":" rest)
    | _ => none

def showAddrSlash (a : Addr) : String := (showAddr a).replace ":" "/"

/-- canonical event text; adjacent data is merged so that item granularity does not matter -/
def evTokens : List FrEv → List (String × Bytes) → List (String × Bytes)
  | [], acc => acc.reverse
  | .item i :: r, acc =>
    match i.kind, acc with
    | .data, (h, d) :: acc' =>
      if h.startsWith "d" || h.startsWith "c" then evTokens r ((h, d ++ i.data) :: acc')
      else evTokens r (("d", i.data) :: acc)
    | .data, [] => evTokens r [("d", i.data)]
    | .connect, _ => evTokens r (("c:" ++ (i.addr.map showAddrSlash).getD "-", i.data) :: acc)
    | .udp, _ => evTokens r (("u:" ++ (i.addr.map showAddrSlash).getD "-", i.data) :: acc)
  | .err :: r, acc => evTokens r (("err", []) :: acc)
  | .panic :: r, acc => evTokens r (("panic", []) :: acc)
  | .ended :: r, acc => evTokens r (("end", []) :: acc)
  | .spin :: r, acc => evTokens r (("spin", []) :: acc)

def showEvents (evs : List FrEv) : String :=
  let toks := (evTokens evs []).map fun (h, d) =>
    if h == "err" || h == "panic" || h == "end" || h == "spin" then h else s!"{h}:{hexOrDash d}"
  if toks.isEmpty then "-" else String.intercalate " " toks

def ssCall (ctx : Ss.Ctx) (env : Ss.DecEnv) (s : Ss.SrvDec) (b : Bytes) : Call Ss.SrvDec :=
  match s.dec.sess.mode with
  | .server => Ss.serverCall C ctx env s b
  | .client =>
    let c := Ss.clientCall C ctx env s.dec b
    ⟨{ s with dec := c.st }, c.buf, c.res⟩

/-- recover the randomness (salt, timestamp, padding) the implementation drew for the first
`encode` of a session from its output, so that the model encoder can be compared byte for byte -/
def ssRecover (ctx : Ss.Ctx) (sess : Ss.Sess) (w : Bytes) : Bytes × Ss.EncRand :=
  let n := ctx.kind.n
  let salt := w.take n
  if ¬ ctx.kind.is2022 then (salt, {}) else
  let eihLen := if sess.mode = .client ∧ ctx.kind.supportEih then 16 * ctx.identityKeys.length else 0
  let key := match sess.user with
    | some u => u.key
    | none => ctx.key
  let a := Ss.newAuth C ctx.kind key salt
  let fixedLen := 1 + 8 + (match sess.requestSalt with | some r => r.length | none => 0) + 2 + 16
  let body := w.drop (n + eihLen)
  match a.openB C (body.take fixedLen) with
  | (none, _) => (salt, {})
  | (some f, a) =>
    let ts := rdBE ((f.drop 1).take 8)
    let len := rdBE (f.drop (f.length - 2))
    match a.openB C ((body.drop fixedLen).take (len + 16)) with
    | (none, _) => (salt, { now := ts })
    | (some via, _) =>
      if sess.mode = .client then
        match Socks5Addr.decode via with
        | .ok (_, rest) =>
          let pl := rdBE (rest.take 2)
          (salt, { now := ts, padding := (rest.drop 2).take pl })
        | _ => (salt, { now := ts })
      else (salt, { now := ts })

def ttlLive (now : Nat) (e : Bytes × Nat) : Bool := now ≤ e.2 + Consts.ssSaltTtl

def showRes {α : Type} (f : α → String) : Res α → String
  | .ok a => "ok " ++ f a
  | .more => "more"
  | .err => "err"
  | .panic => "panic"

def step (st : St) (toks : List String) : St × String :=
  match toks with
  | ["pw.new", name] => ({ st with objs := st.objs.insert name (.pw PW.Filter.new) }, "ok")
  | ["pw.val", name, id, limit] =>
    match st.objs.get? name, id.toNat?, limit.toNat? with
    | some (.pw f), some i, some l =>
      let (f', r) := f.validate i l
      ({ st with objs := st.objs.insert name (.pw f') }, if r then "1" else "0")
    | _, _, _ => (st, "bad-op")
  | ["addr.enc", "s5", a] =>
    match parseAddr a with
    | some a => (st, hexOrDash (Socks5Addr.encode a))
    | none => (st, "bad-op")
  | ["addr.len", "s5", a] =>
    match parseAddr a with
    | some a => (st, toString (Socks5Addr.length a))
    | none => (st, "bad-op")
  | ["addr.dec", "s5", h] =>
    match unhexOrDash h with
    | some b => (st, showRes (fun (p : Addr × Bytes) => s!"{showAddr p.1} rest={hexOrDash p.2}") (Socks5Addr.decode b))
    | none => (st, "bad-op")
  | ["addr.trylen", h, at_] =>
    match unhexOrDash h, at_.toNat? with
    | some b, some n => (st, showRes toString (Socks5Addr.tryDecodeAt b n))
    | _, _ => (st, "bad-op")
  | ["addr.enc", "vm", a] =>
    match parseAddr a with
    | some a => (st, showRes hexOrDash (VmessAddr.write a))
    | none => (st, "bad-op")
  | ["addr.dec", "vm", h] =>
    match unhexOrDash h with
    | some b => (st, showRes (fun (p : Addr × Bytes) => s!"{showAddr p.1} rest={hexOrDash p.2}") (VmessAddr.read utf8Ok b))
    | none => (st, "bad-op")
  | "ss.cctx" :: name :: rest =>
    match kv rest "cipher", kv rest "password" with
    | some c, some p =>
      match Ss.ctxOfConfig C c p [] with
      | some ctx => ({ st with objs := st.objs.insert name (.ssCtx { ctx := { ctx with users := [] } }) }, "ok")
      | none => (st, "err")
    | _, _ => (st, "bad-op")
  | "ss.sctx" :: name :: rest =>
    match kv rest "cipher", kv rest "password", kv rest "users" with
    | some c, some p, some u =>
      match Ss.ctxOfConfig C c p (parseUsers u) with
      | some ctx => ({ st with objs := st.objs.insert name (.ssCtx { ctx := ctx }) }, "ok")
      | none => (st, "err")
    | _, _, _ => (st, "bad-op")
  | ["ss.new", name, ctxName, addr] =>
    match st.objs.get? ctxName with
    | some (.ssCtx _) =>
      let a := if addr == "-" then none else parseAddr addr
      let mode : Ss.Mode := if addr == "-" then .server else .client
      let sess : Ss.Sess := { mode := mode, salt := [], address := a }
      let o : SsStream := { ctxName := ctxName, fr := { st := { dec := { sess := sess }, header := true } } }
      ({ st with objs := st.objs.insert name (.ss o) }, "ok")
    | _ => (st, "bad-op")
  | "st.enc" :: name :: payload :: rest =>
    match st.objs.get? name, unhexOrDash payload with
    | some (.ss o), some p =>
      match st.objs.get? o.ctxName with
      | some (.ssCtx co) =>
        let implWire := (kv rest "impl").bind unhexOrDash
        let sess := o.fr.st.dec.sess
        match o.enc.auth, implWire with
        | none, none => (st, "need-impl-wire")
        | none, some w =>
          let (salt, r) := ssRecover co.ctx sess w
          let sess := { sess with salt := salt }
          let (mw, e) := Ss.encode C co.ctx sess o.enc p r
          let now := ((kv rest "now").bind String.toNat?).getD r.now
          let tsOk := ¬ co.ctx.kind.is2022 ∨ (now ≤ r.now + 1 ∧ r.now ≤ now + 1)
          let o' := { o with enc := e, fr := { o.fr with st := { o.fr.st with dec := { o.fr.st.dec with sess := sess } } } }
          ({ st with objs := st.objs.insert name (.ss o') }, if tsOk then hexOrDash mw else "bad-ts " ++ hexOrDash mw)
        | some _, _ =>
          let (mw, e) := Ss.encode C co.ctx sess o.enc p {}
          ({ st with objs := st.objs.insert name (.ss { o with enc := e }) }, hexOrDash mw)
      | _ => (st, "bad-op")
    | _, _ => (st, "bad-op")
  | "st.feed" :: name :: piece :: rest =>
    match st.objs.get? name, unhexOrDash piece with
    | some (.ss o), some p =>
      match st.objs.get? o.ctxName with
      | some (.ssCtx co) =>
        let now := ((kv rest "now").bind String.toNat?).getD 0
        let env : Ss.DecEnv := { now := now, saltSeen := fun s => co.seen.any (fun e => e.1 == s && ttlLive now e) }
        let before := o.fr.st.dec.chunk.isNone
        let (fr', evs) := frFeed (ssCall co.ctx env) o.fr p
        let accepted := before ∧ fr'.st.dec.chunk.isSome ∧ co.ctx.kind.is2022 ∧ fr'.st.dec.sess.mode = .server
        let co' := if accepted then { co with seen := ((fr'.st.dec.sess.requestSalt.getD []), now) :: co.seen } else co
        let objs := (st.objs.insert name (.ss { o with fr := fr' })).insert o.ctxName (.ssCtx co')
        ({ st with objs := objs }, showEvents evs)
      | _ => (st, "bad-op")
    | _, _ => (st, "bad-op")
  | ["st.eof", name] =>
    match st.objs.get? name with
    | some (.ss o) =>
      match st.objs.get? o.ctxName with
      | some (.ssCtx co) =>
        let env : Ss.DecEnv := { now := 0, saltSeen := fun _ => false }
        let (fr', evs) := frEof (ssCall co.ctx env) o.fr
        ({ st with objs := st.objs.insert name (.ss { o with fr := fr' }) }, showEvents evs)
      | _ => (st, "bad-op")
    | _ => (st, "bad-op")
  | ["addr.accept", a] =>
    match parseAddr a with
    | some a => (st, if decide a.Accepted then "1" else "0")
    | none => (st, "bad-op")
  | _ => (st, "bad-op")

partial def loop (h : IO.FS.Stream) (out : IO.FS.Stream) (st : St) : IO Unit := do
  let line ← h.getLine
  if line.isEmpty then return ()
  let line := line.trimAscii.toString
  if line.isEmpty || line.startsWith "#" then
    out.putStrLn ""
    loop h out st
  else
    let parts := line.splitOn " => "
    let lhs := parts.head!
    let toks := (lhs.splitOn " ").filter (· ≠ "")
    -- encoders draw randomness inside the implementation: give the model the implementation's
    -- output so that it can recover the random values and re-encode
    let toks := if toks.head? == some "st.enc" then
        match parts with
        | [_, r] => toks ++ ["impl=" ++ (r.trimAscii.toString.splitOn " ").head!]
        | _ => toks
      else toks
    let (st', r) := step st toks
    out.putStrLn r
    loop h out st'

end Driver

def main : IO Unit := do
  let stdin ← IO.getStdin
  let stdout ← IO.getStdout
  Driver.loop stdin stdout {}
