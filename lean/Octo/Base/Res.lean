import Octo.Base.Bytes
/-!
  Outcome of a modelled decoder / parser step and the `bytes::Buf` cursor operations with the
  failure mode the Rust has: reading past the end of the buffer **panics**.
-/
namespace Octo

inductive Res (α : Type) where
  | ok (a : α)
  | more            -- Rust `Ok(None)`
  | err             -- Rust `Err(_)` (texts are never compared)
  | panic           -- Rust would panic here (Buf::get_*, advance, split_to, slice index, explicit panic!)
deriving Repr, DecidableEq

namespace Res
@[inline] def bind {α β : Type} (r : Res α) (f : α → Res β) : Res β :=
  match r with
  | ok a => f a
  | more => more
  | err => err
  | panic => panic

instance : Monad Res where
  pure := ok
  bind := bind

def isPanic {α : Type} : Res α → Bool
  | panic => true
  | _ => false

def isOk {α : Type} : Res α → Bool
  | ok _ => true
  | _ => false

@[simp] theorem pure_eq_ok {α : Type} (a : α) : (pure a : Res α) = Res.ok a := rfl
@[simp] theorem bind_ok {α β : Type} (a : α) (f : α → Res β) : (Res.ok a >>= f) = f a := rfl
@[simp] theorem bind_more {α β : Type} (f : α → Res β) : ((Res.more : Res α) >>= f) = Res.more := rfl
@[simp] theorem bind_err {α β : Type} (f : α → Res β) : ((Res.err : Res α) >>= f) = Res.err := rfl
@[simp] theorem bind_panic {α β : Type} (f : α → Res β) : ((Res.panic : Res α) >>= f) = Res.panic := rfl
end Res

/- `Buf` cursor reads: value and the remaining bytes; `panic` when the buffer is too short. -/
namespace Buf

def take (n : Nat) (b : Bytes) : Res (Bytes × Bytes) :=
  if b.length < n then .panic else .ok (b.take n, b.drop n)

def getU8 (b : Bytes) : Res (UInt8 × Bytes) :=
  match b with
  | [] => .panic
  | x :: r => .ok (x, r)

def getBE (n : Nat) (b : Bytes) : Res (Nat × Bytes) :=
  if b.length < n then .panic else .ok (rdBE (b.take n), b.drop n)

def getU16 := getBE 2
def getU32 := getBE 4
def getU64 := getBE 8

def advance (n : Nat) (b : Bytes) : Res Bytes :=
  if b.length < n then .panic else .ok (b.drop n)

end Buf
end Octo
