/-
  Byte strings and big-endian codecs shared by every model file.
  Core Lean only (no Mathlib, no Std) so that the driver links as a `lean_exe`.
-/
namespace Octo

abbrev Bytes := List UInt8

/-- low byte of a natural number -/
@[inline] def u8 (n : Nat) : UInt8 := UInt8.ofNat (n % 256)

def be16 (n : Nat) : Bytes := [u8 (n / 256), u8 n]
def be32 (n : Nat) : Bytes := [u8 (n / 16777216), u8 (n / 65536), u8 (n / 256), u8 n]
def be64 (n : Nat) : Bytes := be32 (n / 4294967296) ++ be32 n

/-- big-endian value of a byte string of any length -/
def rdBE (b : Bytes) : Nat := b.foldl (fun acc x => acc * 256 + x.toNat) 0

def hexDigit (n : Nat) : Char := if n < 10 then Char.ofNat (48 + n) else Char.ofNat (87 + n)

def hex (b : Bytes) : String :=
  String.ofList (b.flatMap fun x => [hexDigit (x.toNat / 16), hexDigit (x.toNat % 16)])

/-- lower-case hex digits as bytes (ASCII) -/
def hexDigitByte (n : Nat) : UInt8 := if n < 10 then UInt8.ofNat (48 + n) else UInt8.ofNat (87 + n)

/-- hex encoding as a byte string -/
def hexBytes (b : Bytes) : Bytes := b.flatMap fun x => [hexDigitByte (x.toNat / 16), hexDigitByte (x.toNat % 16)]

theorem hexBytes_length (b : Bytes) : (hexBytes b).length = 2 * b.length := by
  induction b with
  | nil => rfl
  | cons x r ih => simp only [hexBytes, List.flatMap_cons, List.length_append, List.length_cons, List.length_nil] at ih ⊢; omega

def unhexDigit (c : Char) : Option Nat :=
  if '0' ≤ c ∧ c ≤ '9' then some (c.toNat - 48)
  else if 'a' ≤ c ∧ c ≤ 'f' then some (c.toNat - 87)
  else if 'A' ≤ c ∧ c ≤ 'F' then some (c.toNat - 55)
  else none

def unhexList : List Char → Option Bytes
  | [] => some []
  | [_] => none
  | a :: b :: rest =>
    match unhexDigit a, unhexDigit b, unhexList rest with
    | some x, some y, some r => some (u8 (x * 16 + y) :: r)
    | _, _, _ => none

def unhex (s : String) : Option Bytes := unhexList s.toList

def xorBytes (a b : Bytes) : Bytes := List.zipWith (· ^^^ ·) a b

def zeros (n : Nat) : Bytes := List.replicate n (0 : UInt8)

end Octo
