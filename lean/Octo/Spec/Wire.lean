import Octo.Model.Crypto
import Octo.Crypto.Base64
/-!
  Independent transcription of the published wire formats, written from the protocol documents
  (SIP004 "AEAD ciphers", SIP022 "Shadowsocks 2022" incl. extensible identity headers, VMess AEAD
  as implemented by V2Ray, the Trojan protocol) as plain message *builders* with every field under
  the caller's control.  Used (a) as the oracle side of C03 (what these builders emit must be
  accepted by the code, what the code emits must parse here), (b) to craft stale / mistyped /
  unbound / authenticated-but-malformed messages for C05, C06, C07, C10.
  Nothing here is shared with `Octo/Model` except the crypto interface and byte helpers.
-/
namespace Octo.Spec

def ascii (s : String) : Bytes := s.toUTF8.toList

/-- little-endian 12-byte nonce with value `i` (SIP004: "the nonce is incremented by one as if it
were an unsigned little-endian integer after each encryption") -/
def leNonce (i : Nat) : Bytes := (List.range 12).map fun k => u8 (i / 256 ^ k)

/-- SIP004 socks-style address: ATYP ‖ address ‖ port -/
inductive Target where
  | ip4 (a : Bytes) (port : Nat)
  | name (n : Bytes) (port : Nat)
  | ip6 (a : Bytes) (port : Nat)

def Target.bytes : Target → Bytes
  | .ip4 a p => [1] ++ a ++ be16 p
  | .name n p => [3, u8 n.length] ++ n ++ be16 p
  | .ip6 a p => [4] ++ a ++ be16 p

/-! ### SIP004: legacy AEAD -/

structure Cipher where
  alg : Alg
  keyLen : Nat
  is2022 : Bool
  eih : Bool

def cipherOf : String → Option Cipher
  | "aes-128-gcm" => some ⟨.aes128gcm, 16, false, false⟩
  | "aes-256-gcm" => some ⟨.aes256gcm, 32, false, false⟩
  | "chacha20-poly1305" => some ⟨.chacha20, 32, false, false⟩
  | "chacha20-ietf-poly1305" => some ⟨.chacha20, 32, false, false⟩
  | "2022-blake3-aes-128-gcm" => some ⟨.aes128gcm, 16, true, true⟩
  | "2022-blake3-aes-256-gcm" => some ⟨.aes256gcm, 32, true, true⟩
  | "2022-blake3-chacha8-poly1305" => some ⟨.chacha8, 32, true, false⟩
  | "2022-blake3-chacha20-poly1305" => some ⟨.chacha20, 32, true, false⟩
  | _ => none

/-- OpenSSL `EVP_BytesToKey` with MD5, one round, no salt -/
def evpBytesToKey (C : Crypto) (keyLen : Nat) (password : Bytes) : Bytes :=
  let rec go (fuel : Nat) (prev acc : Bytes) : Bytes :=
    match fuel with
    | 0 => acc
    | f+1 => if acc.length ≥ keyLen then acc else
      let d := C.md5 (prev ++ password)
      go f d (acc ++ d)
  (go 4 [] []).take keyLen

/-- a chunk stream under one subkey: each chunk is `AEAD(len) ‖ AEAD(payload)`, the nonce counter
advances by one per AEAD operation -/
def chunkStream (C : Crypto) (alg : Alg) (subkey : Bytes) : Nat → List Bytes → Bytes
  | _, [] => []
  | ctr, p :: ps =>
    C.sealB alg subkey (leNonce ctr) [] (be16 p.length) ++ C.sealB alg subkey (leNonce (ctr + 1)) [] p ++
      chunkStream C alg subkey (ctr + 2) ps

/-- a whole legacy stream: salt, then the chunks; the first plaintext starts with the target -/
def legacyStream (C : Crypto) (c : Cipher) (password salt : Bytes) (chunks : List Bytes) : Bytes :=
  let key := evpBytesToKey C c.keyLen password
  let subkey := C.hkdfSha1 salt key (ascii "ss-subkey") c.keyLen
  salt ++ chunkStream C c.alg subkey 0 chunks

/-! ### SIP022: Shadowsocks 2022 -/

def sessionSubkey (C : Crypto) (c : Cipher) (psk salt : Bytes) : Bytes :=
  (C.blake3Derive (ascii "shadowsocks 2022 session subkey") (psk ++ salt)).take c.keyLen

/-- identity header i: AES-ECB under BLAKE3-derive("identity subkey", iPSK_i ‖ salt) of the first
16 bytes of BLAKE3(iPSK_{i+1}) -/
def identityHeaders (C : Crypto) (c : Cipher) (salt : Bytes) : List Bytes → Bytes
  | a :: b :: rest =>
    C.aesEnc ((C.blake3Derive (ascii "shadowsocks 2022 identity subkey") (a ++ salt)).take c.keyLen) ((C.blake3Hash b).take 16) ++
      identityHeaders C c salt (b :: rest)
  | _ => []

/-- a 2022 stream in either direction.  `psks` = iPSKs followed by the (user) PSK;
`fixedPlain` = type ‖ timestamp ‖ [request salt] ‖ length — given explicitly so that any field can be
wrong; `varPlain` = the first variable-length chunk's plaintext -/
def stream2022 (C : Crypto) (c : Cipher) (psks : List Bytes) (withEih : Bool) (salt fixedPlain varPlain : Bytes)
    (chunks : List Bytes) : Bytes :=
  let psk := psks.getLast?.getD []
  let sub := sessionSubkey C c psk salt
  salt ++ (if withEih then identityHeaders C c salt psks else []) ++
    C.sealB c.alg sub (leNonce 0) [] fixedPlain ++ C.sealB c.alg sub (leNonce 1) [] varPlain ++
    chunkStream C c.alg sub 2 chunks

def requestFixed (ty ts len : Nat) : Bytes := [u8 ty] ++ be64 ts ++ be16 len
def responseFixed (ty ts : Nat) (requestSalt : Bytes) (len : Nat) : Bytes := [u8 ty] ++ be64 ts ++ requestSalt ++ be16 len
def requestVar (target padding payload : Bytes) : Bytes := target ++ be16 padding.length ++ padding ++ payload

/-! ### VMess AEAD -/

def hmacH (h : Bytes → Bytes) (key msg : Bytes) : Bytes :=
  let k := key ++ zeros (64 - key.length)
  h (k.map (· ^^^ (0x5c : UInt8)) ++ h (k.map (· ^^^ (0x36 : UInt8)) ++ msg))

/-- V2Ray's `KDF(key, path…)`: HMAC nested over "VMess AEAD KDF" and each path element -/
def vmessKdf (C : Crypto) (key : Bytes) (path : List Bytes) : Bytes :=
  (path.foldl (fun h p => hmacH h p) (hmacH C.sha256 (ascii "VMess AEAD KDF"))) key

def vmessCmdKey (C : Crypto) (uuid : Bytes) : Bytes := C.md5 (uuid ++ ascii "c48619fe-8f02-49e0-b9e9-edf763e17e21")

/-- EAuID: AES-128(KDF16(cmdKey, "AES Auth ID Encryption"), time(8) ‖ rand(4) ‖ crc32(4)) -/
def vmessAuthId (C : Crypto) (cmdKey : Bytes) (time : Nat) (rand : Bytes) : Bytes :=
  let b := be64 time ++ rand.take 4
  C.aesEnc ((vmessKdf C cmdKey [ascii "AES Auth ID Encryption"]).take 16) (b ++ be32 (C.crc32 b))

/-- sealed request header: EAuID ‖ AEAD(len) ‖ nonce(8) ‖ AEAD(header), both with AAD = EAuID -/
def vmessSealedHeader (C : Crypto) (cmdKey authId connNonce header : Bytes) : Bytes :=
  let k (label : String) (n : Nat) := (vmessKdf C cmdKey [ascii label, authId, connNonce]).take n
  authId ++ C.sealB .aes128gcm (k "VMess Header AEAD Key_Length" 16) (k "VMess Header AEAD Nonce_Length" 12) authId (be16 header.length) ++
    connNonce ++ C.sealB .aes128gcm (k "VMess Header AEAD Key" 16) (k "VMess Header AEAD Nonce" 12) authId header

/-- instruction part: Ver ‖ IV ‖ Key ‖ V ‖ Opt ‖ P|Sec ‖ 0 ‖ Cmd ‖ Port ‖ T ‖ Addr ‖ padding ‖ FNV1a -/
def vmessInstruction (C : Crypto) (iv key : Bytes) (v opt padSec cmd : Nat) (portTypeAddr padding : Bytes) : Bytes :=
  let h := [(1 : UInt8)] ++ iv ++ key ++ [u8 v, u8 opt, u8 padSec, 0, u8 cmd] ++ portTypeAddr ++ padding
  h ++ be32 (C.fnv1a32 h)

/-- response header: AEAD(len=4) ‖ AEAD(V ‖ Opt ‖ Cmd ‖ M) under keys derived from the response key/IV -/
def vmessResponseHeader (C : Crypto) (respKey respIv header : Bytes) : Bytes :=
  C.sealB .aes128gcm ((vmessKdf C respKey [ascii "AEAD Resp Header Len Key"]).take 16) ((vmessKdf C respIv [ascii "AEAD Resp Header Len IV"]).take 12) [] (be16 header.length) ++
    C.sealB .aes128gcm ((vmessKdf C respKey [ascii "AEAD Resp Header Key"]).take 16) ((vmessKdf C respIv [ascii "AEAD Resp Header IV"]).take 12) [] header

/-- one AES-128-GCM body chunk with authenticated length and no padding (options ChunkStream |
AuthenticatedLength): AEAD(len) under KDF16(reqKey,"auth_len") then AEAD(payload), both with nonce
count(2, BE) ‖ IV[2..12] -/
def vmessChunkAuthLen (C : Crypto) (dataKey dataIv lenKey lenIv : Bytes) (count : Nat) (payload : Bytes) : Bytes :=
  let nonce (iv : Bytes) := (be16 count ++ iv.drop 2).take 12
  C.sealB .aes128gcm ((vmessKdf C lenKey [ascii "auth_len"]).take 16) (nonce lenIv) [] (be16 payload.length) ++
    C.sealB .aes128gcm dataKey (nonce dataIv) [] payload

/-! ### Trojan -/

def trojanRequest (C : Crypto) (password : Bytes) (cmd : Nat) (target payload : Bytes) : Bytes :=
  hexBytes (C.sha224 password) ++ [13, 10] ++ [u8 cmd] ++ target ++ [13, 10] ++ payload

def trojanUdpFrame (target payload : Bytes) : Bytes := target ++ be16 payload.length ++ [13, 10] ++ payload

/-! ### parsers (the receiving side of an independent implementation) -/

/-- parse a chunk stream completely; `none` if any AEAD open fails or bytes are left over -/
def parseChunks (C : Crypto) (alg : Alg) (subkey : Bytes) : Nat → Nat → Bytes → Option (List Bytes)
  | 0, _, _ => none
  | fuel+1, ctr, w =>
    if w.isEmpty then some [] else
    match C.openB alg subkey (leNonce ctr) [] (w.take 18) with
    | none => none
    | some l =>
      let n := rdBE l
      match C.openB alg subkey (leNonce (ctr + 1)) [] ((w.drop 18).take (n + 16)) with
      | none => none
      | some p => (parseChunks C alg subkey fuel (ctr + 2) (w.drop (18 + n + 16))).map (p :: ·)

def parseLegacy (C : Crypto) (c : Cipher) (password w : Bytes) : Option (Bytes × List Bytes) :=
  let salt := w.take c.keyLen
  let key := evpBytesToKey C c.keyLen password
  let subkey := C.hkdfSha1 salt key (ascii "ss-subkey") c.keyLen
  (parseChunks C c.alg subkey (w.length + 1) 0 (w.drop c.keyLen)).map (salt, ·)

/-- `fixedLen` = plaintext length of the fixed header (11 for a request, 11 + salt length for a
response); returns salt, identity headers, fixed plaintext, variable plaintext, chunks -/
def parse2022 (C : Crypto) (c : Cipher) (psk : Bytes) (eihCount fixedLen : Nat) (w : Bytes) :
    Option (Bytes × Bytes × Bytes × Bytes × List Bytes) :=
  let salt := w.take c.keyLen
  let eih := (w.drop c.keyLen).take (16 * eihCount)
  let sub := sessionSubkey C c psk salt
  let rest := w.drop (c.keyLen + 16 * eihCount)
  match C.openB c.alg sub (leNonce 0) [] (rest.take (fixedLen + 16)) with
  | none => none
  | some f =>
    let len := rdBE (f.drop (f.length - 2))
    match C.openB c.alg sub (leNonce 1) [] ((rest.drop (fixedLen + 16)).take (len + 16)) with
    | none => none
    | some v =>
      (parseChunks C c.alg sub (w.length + 1) 2 (rest.drop (fixedLen + 16 + len + 16))).map fun cs => (salt, eih, f, v, cs)

/-- open a sealed VMess request header; returns EAuID plaintext (time ‖ rand ‖ crc), instruction, rest -/
def parseVmessRequest (C : Crypto) (cmdKey w : Bytes) : Option (Bytes × Bytes × Bytes) :=
  let authId := w.take 16
  let nonce := (w.drop 34).take 8
  let k (label : String) (n : Nat) := (vmessKdf C cmdKey [ascii label, authId, nonce]).take n
  match C.openB .aes128gcm (k "VMess Header AEAD Key_Length" 16) (k "VMess Header AEAD Nonce_Length" 12) authId ((w.drop 16).take 18) with
  | none => none
  | some l =>
    let n := rdBE l
    match C.openB .aes128gcm (k "VMess Header AEAD Key" 16) (k "VMess Header AEAD Nonce" 12) authId ((w.drop 42).take (n + 16)) with
    | none => none
    | some h =>
      some (C.aesDec ((vmessKdf C cmdKey [ascii "AES Auth ID Encryption"]).take 16) authId, h, w.drop (42 + n + 16))

/-- body chunks with the standard option set (ChunkStream | ChunkMasking | GlobalPadding |
AuthenticatedLength, AES-128-GCM or ChaCha20-Poly1305): per chunk, padding length = next SHAKE128(IV)
u16 mod 64, AEAD(length) under the auth_len key, AEAD(payload), padding -/
def parseVmessBody (C : Crypto) (alg : Alg) (dataKey dataIv lenKey lenIv : Bytes) : Nat → Nat → Bytes → Option (List Bytes)
  | 0, _, _ => none
  | fuel+1, i, w =>
    if w.isEmpty then some [] else
    let nonce (iv : Bytes) := (be16 i ++ iv.drop 2).take 12
    let pad := rdBE ((C.shake128 dataIv (2 * i + 2)).drop (2 * i)) % 64
    match C.openB alg lenKey (nonce lenIv) [] (w.take 18) with
    | none => none
    | some l =>
      let n := rdBE l          -- payload + padding
      if n < pad then none else
      match C.openB alg dataKey (nonce dataIv) [] ((w.drop 18).take (n - pad + 16)) with
      | none => none
      | some p => (parseVmessBody C alg dataKey dataIv lenKey lenIv fuel (i + 1) (w.drop (18 + n + 16))).map (p :: ·)

end Octo.Spec
