import Octo.Base.Bytes
/-
  Standard-alphabet Base64 WITH padding (RFC 4648 §4), strict decoding as done by the Rust
  `base64ct::Base64::decode{,_vec}`:
    * input length must be a multiple of 4 (so missing padding is rejected);
    * at most two trailing `=` are padding; every other character must be in the alphabet
      (so whitespace, newlines, interior `=`, `-`/`_`, non-ASCII are all rejected);
    * the unused low bits of the last symbol must be zero (non-canonical encodings rejected).
  Consequently `decode s = some b ↔ s = encode b`.
-/
namespace Octo.Crypto.Base64

/-- symbol for a 6-bit value -/
def encChar (n : Nat) : Char :=
  if n < 26 then Char.ofNat (65 + n)          -- 'A'..'Z'
  else if n < 52 then Char.ofNat (97 + (n - 26))   -- 'a'..'z'
  else if n < 62 then Char.ofNat (48 + (n - 52))   -- '0'..'9'
  else if n = 62 then '+' else '/'

/-- 6-bit value of a symbol -/
def decChar (c : Char) : Option Nat :=
  if 'A' ≤ c ∧ c ≤ 'Z' then some (c.toNat - 65)
  else if 'a' ≤ c ∧ c ≤ 'z' then some (c.toNat - 97 + 26)
  else if '0' ≤ c ∧ c ≤ '9' then some (c.toNat - 48 + 52)
  else if c = '+' then some 62
  else if c = '/' then some 63
  else none

def encodeList : Bytes → List Char
  | [] => []
  | [a] =>
    let n := a.toNat
    [encChar (n / 4), encChar (n % 4 * 16), '=', '=']
  | [a, b] =>
    let n := a.toNat * 256 + b.toNat
    [encChar (n / 1024), encChar (n / 16 % 64), encChar (n % 16 * 4), '=']
  | a :: b :: c :: rest =>
    let n := a.toNat * 65536 + b.toNat * 256 + c.toNat
    encChar (n / 262144) :: encChar (n / 4096 % 64) :: encChar (n / 64 % 64) :: encChar (n % 64)
      :: encodeList rest

def encode (b : Bytes) : String := String.ofList (encodeList b)

/-- strict decoder on 4-character groups; padding is only accepted in the final group -/
def decodeList : List Char → Option Bytes
  | [] => some []
  | [c0, c1, '=', '='] =>
    match decChar c0, decChar c1 with
    | some x0, some x1 =>
      if x1 % 16 = 0 then some [u8 (x0 * 4 + x1 / 16)] else none
    | _, _ => none
  | [c0, c1, c2, '='] =>
    match decChar c0, decChar c1, decChar c2 with
    | some x0, some x1, some x2 =>
      if x2 % 4 = 0 then
        let n := x0 * 4096 + x1 * 64 + x2
        some [u8 (n / 1024), u8 (n / 4)]
      else none
    | _, _, _ => none
  | c0 :: c1 :: c2 :: c3 :: rest =>
    match decChar c0, decChar c1, decChar c2, decChar c3, decodeList rest with
    | some x0, some x1, some x2, some x3, some r =>
      let n := x0 * 262144 + x1 * 4096 + x2 * 64 + x3
      some (u8 (n / 65536) :: u8 (n / 256) :: u8 n :: r)
    | _, _, _, _, _ => none
  | _ => none

def decode (s : String) : Option Bytes := decodeList s.toList

end Octo.Crypto.Base64
