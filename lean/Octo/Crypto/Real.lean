import Octo.Model.Crypto
import Octo.Crypto.Aes
import Octo.Crypto.ChaCha
import Octo.Crypto.Shake
import Octo.Crypto.Hash
import Octo.Crypto.Blake3
/-! The executable instance of `Crypto`: the actual primitives, written in core Lean and pinned by
known-answer tests (`*Kat.lean`) and by the byte-exact differential runs against RustCrypto. -/
namespace Octo

def Crypto.real : Crypto where
  sealB := fun a k n ad p =>
    match a with
    | .aes128gcm | .aes256gcm => Crypto.Aes.gcmSeal k n ad p
    | .chacha20 => Crypto.ChaCha.aeadSeal 20 k n ad p
    | .chacha8 => Crypto.ChaCha.aeadSeal 8 k n ad p
    | .xchacha20 => Crypto.ChaCha.xaeadSeal 20 k n ad p
    | .xchacha8 => Crypto.ChaCha.xaeadSeal 8 k n ad p
  openB := fun a k n ad c =>
    match a with
    | .aes128gcm | .aes256gcm => Crypto.Aes.gcmOpen k n ad c
    | .chacha20 => Crypto.ChaCha.aeadOpen 20 k n ad c
    | .chacha8 => Crypto.ChaCha.aeadOpen 8 k n ad c
    | .xchacha20 => Crypto.ChaCha.xaeadOpen 20 k n ad c
    | .xchacha8 => Crypto.ChaCha.xaeadOpen 8 k n ad c
  aesEnc := Crypto.Aes.encryptBlock
  aesDec := Crypto.Aes.decryptBlock
  hkdfSha1 := Crypto.Hash.hkdfSha1
  blake3Derive := Crypto.Blake3.deriveKey
  blake3Hash := Crypto.Blake3.hash
  md5 := Crypto.Hash.md5
  sha224 := Crypto.Hash.sha224
  sha256 := Crypto.Hash.sha256
  shake128 := Crypto.Shake.shake128
  crc32 := Crypto.Hash.crc32
  fnv1a32 := Crypto.Hash.fnv1a32

end Octo
