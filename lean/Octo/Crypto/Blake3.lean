import Octo.Base.Bytes
/-
  BLAKE3 `hash` and `derive_key` (32-byte output), core Lean only.

  The inputs of interest are single-chunk (≤ 1024 bytes), but the full chunk/tree mode is
  implemented (left-to-right chunk chaining-value stack as in the reference implementation), so
  longer inputs are hashed correctly too (checked against the Rust crate up to 64 KiB in HashKat).
  Only the chunk counter is bounded: it is a `UInt64`, as in BLAKE3 itself (inputs < 2^74 bytes).

  Termination: `for` loops over fixed ranges, structural recursion on lists, and explicit fuel.
-/
namespace Octo.Crypto.Blake3

def IV : Array UInt32 :=
  #[0x6A09E667, 0xBB67AE85, 0x3C6EF372, 0xA54FF53A, 0x510E527F, 0x9B05688C, 0x1F83D9AB, 0x5BE0CD19]

def PERM : Array Nat := #[2, 6, 3, 10, 7, 0, 4, 13, 1, 11, 12, 5, 9, 14, 15, 8]

def CHUNK_START : UInt32 := 1
def CHUNK_END : UInt32 := 2
def PARENT : UInt32 := 4
def ROOT : UInt32 := 8
def KEYED_HASH : UInt32 := 16
def DERIVE_KEY_CONTEXT : UInt32 := 32
def DERIVE_KEY_MATERIAL : UInt32 := 64

def BLOCK_LEN : Nat := 64
def CHUNK_LEN : Nat := 1024

@[inline] def rotr (x : UInt32) (n : UInt32) : UInt32 := (x >>> n) ||| (x <<< (32 - n))

/-- the quarter-round `G` on state positions `a b c d` with message words `mx my` -/
def g (s : Array UInt32) (a b c d : Nat) (mx my : UInt32) : Array UInt32 :=
  let s := s.set! a (s[a]! + s[b]! + mx)
  let s := s.set! d (rotr (s[d]! ^^^ s[a]!) 16)
  let s := s.set! c (s[c]! + s[d]!)
  let s := s.set! b (rotr (s[b]! ^^^ s[c]!) 12)
  let s := s.set! a (s[a]! + s[b]! + my)
  let s := s.set! d (rotr (s[d]! ^^^ s[a]!) 8)
  let s := s.set! c (s[c]! + s[d]!)
  s.set! b (rotr (s[b]! ^^^ s[c]!) 7)

def round (s m : Array UInt32) : Array UInt32 :=
  let s := g s 0 4 8 12 m[0]! m[1]!
  let s := g s 1 5 9 13 m[2]! m[3]!
  let s := g s 2 6 10 14 m[4]! m[5]!
  let s := g s 3 7 11 15 m[6]! m[7]!
  let s := g s 0 5 10 15 m[8]! m[9]!
  let s := g s 1 6 11 12 m[10]! m[11]!
  let s := g s 2 7 8 13 m[12]! m[13]!
  g s 3 4 9 14 m[14]! m[15]!

def permute (m : Array UInt32) : Array UInt32 := PERM.map (fun i => m[i]!)

/-- The compression function.  `cv` : 8 words, `m` : 16 message words.  Returns the full 16-word
    output; its first 8 words are the new chaining value (resp. the first 32 root output bytes). -/
def compress (cv : Array UInt32) (m : Array UInt32) (counter : UInt64) (blockLen flags : UInt32) :
    Array UInt32 := Id.run do
  let mut s : Array UInt32 :=
    #[cv[0]!, cv[1]!, cv[2]!, cv[3]!, cv[4]!, cv[5]!, cv[6]!, cv[7]!,
      IV[0]!, IV[1]!, IV[2]!, IV[3]!, counter.toUInt32, (counter >>> 32).toUInt32, blockLen, flags]
  let mut m := m
  for i in [0:7] do
    s := round s m
    if i < 6 then m := permute m
  for i in [0:8] do
    s := s.set! i (s[i]! ^^^ s[i + 8]!)
    s := s.set! (i + 8) (s[i + 8]! ^^^ cv[i]!)
  return s

/-- pack bytes into little-endian words (a trailing group of < 4 bytes is dropped) -/
def leWords : Bytes → Array UInt32 → Array UInt32
  | a :: b :: c :: d :: rest, acc =>
    leWords rest (acc.push (a.toUInt32 ||| (b.toUInt32 <<< 8) ||| (c.toUInt32 <<< 16) ||| (d.toUInt32 <<< 24)))
  | _, acc => acc

/-- the 16 little-endian message words of a (≤ 64-byte) block, zero-padded -/
def wordsOf (block : Bytes) : Array UInt32 :=
  leWords (block ++ zeros (BLOCK_LEN - block.length)) (Array.mkEmpty 16)

def bytesOf (ws : Array UInt32) : Bytes :=
  ws.toList.flatMap fun (w : UInt32) => [w.toUInt8, (w >>> 8).toUInt8, (w >>> 16).toUInt8, (w >>> 24).toUInt8]

/-- Split into pieces of `n` bytes; the last piece has `1 … n` bytes, except that the empty input
    yields one empty piece.  `fuel ≥ l.length` suffices (for `n ≥ 1`). -/
def splitEvery (n : Nat) : Nat → Bytes → List Bytes
  | 0, l => [l]
  | fuel + 1, l =>
    match l.drop n with
    | [] => [l]
    | rest => l.take n :: splitEvery n fuel rest

/-- A pending compression whose result is either a chaining value or the root output. -/
structure Output where
  cv : Array UInt32
  block : Array UInt32
  counter : UInt64
  blockLen : UInt32
  flags : UInt32

def Output.chainingValue (o : Output) : Array UInt32 :=
  (compress o.cv o.block o.counter o.blockLen o.flags).extract 0 8

/-- first 32 bytes of the root output (output block counter 0) -/
def Output.rootHash (o : Output) : Bytes :=
  bytesOf ((compress o.cv o.block 0 o.blockLen (o.flags ||| ROOT)).extract 0 8)

/-- run the blocks of one chunk; the last block is left pending -/
def chunkBlocks (flags : UInt32) (counter : UInt64) : Array UInt32 → Bool → List Bytes → Output
  | cv, first, [] =>   -- not reached from `chunkOutput` (`splitEvery` never returns `[]`)
    ⟨cv, wordsOf [], counter, 0, flags ||| (if first then CHUNK_START else 0) ||| CHUNK_END⟩
  | cv, first, [b] =>
    ⟨cv, wordsOf b, counter, UInt32.ofNat b.length,
      flags ||| (if first then CHUNK_START else 0) ||| CHUNK_END⟩
  | cv, first, b :: rest =>
    let f := flags ||| (if first then CHUNK_START else 0)
    chunkBlocks flags counter ((compress cv (wordsOf b) counter 64 f).extract 0 8) false rest

/-- the pending output of chunk number `counter` (`chunk` has ≤ 1024 bytes) -/
def chunkOutput (key : Array UInt32) (flags : UInt32) (counter : UInt64) (chunk : Bytes) : Output :=
  chunkBlocks flags counter key true (splitEvery BLOCK_LEN chunk.length chunk)

def parentOutput (key : Array UInt32) (flags : UInt32) (l r : Array UInt32) : Output :=
  ⟨key, l ++ r, 0, 64, flags ||| PARENT⟩

/-- Push the chaining value of a completed chunk; `total` = number of chunks completed so far
    (including this one).  Merges one completed subtree per trailing zero bit of `total`. -/
def pushCv (key : Array UInt32) (flags : UInt32) :
    Nat → List (Array UInt32) → Array UInt32 → Nat → List (Array UInt32)
  | fuel + 1, top :: st, cv, total =>
    if total % 2 = 0 then
      pushCv key flags fuel st (parentOutput key flags top cv).chainingValue (total / 2)
    else cv :: top :: st
  | _, st, cv, _ => cv :: st

/-- process the chunk list left to right; `stack` holds subtree chaining values, newest first -/
def hashChunks (key : Array UInt32) (flags : UInt32) :
    Nat → List (Array UInt32) → List Bytes → Bytes
  | i, stack, [] =>   -- not reached from `hashWith`
    (stack.foldl (fun o cv => parentOutput key flags cv o.chainingValue)
      (chunkOutput key flags (UInt64.ofNat i) [])).rootHash
  | i, stack, [c] =>
    (stack.foldl (fun o cv => parentOutput key flags cv o.chainingValue)
      (chunkOutput key flags (UInt64.ofNat i) c)).rootHash
  | i, stack, c :: rest =>
    let cv := (chunkOutput key flags (UInt64.ofNat i) c).chainingValue
    hashChunks key flags (i + 1) (pushCv key flags 64 stack cv (i + 1)) rest

/-- BLAKE3 with key words `key` and mode flags `flags`, 32-byte output -/
def hashWith (key : Array UInt32) (flags : UInt32) (input : Bytes) : Bytes :=
  hashChunks key flags 0 [] (splitEvery CHUNK_LEN input.length input)

/-- `blake3::hash` -/
def hash (m : Bytes) : Bytes := hashWith IV 0 m

/-- `blake3::derive_key(context, material)`; `context` = UTF-8 bytes of the context string -/
def deriveKey (context : Bytes) (material : Bytes) : Bytes :=
  let contextKey := hashWith IV DERIVE_KEY_CONTEXT context
  hashWith (leWords contextKey (Array.mkEmpty 8)) DERIVE_KEY_MATERIAL material

end Octo.Crypto.Blake3
