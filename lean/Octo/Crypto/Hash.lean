import Octo.Base.Bytes
/-
  MD5, SHA-1, SHA-224, SHA-256, HMAC, HKDF-SHA1, CRC-32 (zlib), FNV-1a/32.
  Core Lean only.  Every function is total; termination is by `for` loops over fixed ranges
  and structural recursion on lists.  Internals work on `UInt32` / `Array UInt32`.
-/
namespace Octo.Crypto.Hash

/-! ## shared helpers -/

@[inline] def rotl (x : UInt32) (n : UInt32) : UInt32 := (x <<< n) ||| (x >>> (32 - n))
@[inline] def rotr (x : UInt32) (n : UInt32) : UInt32 := (x >>> n) ||| (x <<< (32 - n))

/-- big-endian bytes of a word -/
@[inline] def beBytes (w : UInt32) : Bytes :=
  [(w >>> 24).toUInt8, (w >>> 16).toUInt8, (w >>> 8).toUInt8, w.toUInt8]

/-- little-endian bytes of a word -/
@[inline] def leBytes (w : UInt32) : Bytes :=
  [w.toUInt8, (w >>> 8).toUInt8, (w >>> 16).toUInt8, (w >>> 24).toUInt8]

/-- pack a byte string into big-endian words (a trailing group of < 4 bytes is dropped) -/
def beWords : Bytes → Array UInt32 → Array UInt32
  | a :: b :: c :: d :: rest, acc =>
    beWords rest (acc.push ((a.toUInt32 <<< 24) ||| (b.toUInt32 <<< 16) ||| (c.toUInt32 <<< 8) ||| d.toUInt32))
  | _, acc => acc

/-- pack a byte string into little-endian words (a trailing group of < 4 bytes is dropped) -/
def leWords : Bytes → Array UInt32 → Array UInt32
  | a :: b :: c :: d :: rest, acc =>
    leWords rest (acc.push (a.toUInt32 ||| (b.toUInt32 <<< 8) ||| (c.toUInt32 <<< 16) ||| (d.toUInt32 <<< 24)))
  | _, acc => acc

/-- 64-bit little-endian encoding of `n mod 2^64` -/
def le64 (n : Nat) : Bytes := (be64 n).reverse

/-- Merkle–Damgård padding shared by MD5 / SHA-1 / SHA-2: `m ‖ 0x80 ‖ 0* ‖ bitlen64`,
    total length a multiple of 64.  `lenEnc` is `be64` (SHA) or `le64` (MD5). -/
def mdPad (lenEnc : Nat → Bytes) (m : Bytes) : Bytes :=
  let n := m.length
  m ++ (0x80 : UInt8) :: (zeros ((119 - n % 64) % 64) ++ lenEnc (8 * n))

/-! ## SHA-256 / SHA-224 -/

def sha256K : Array UInt32 := #[
  0x428a2f98, 0x71374491, 0xb5c0fbcf, 0xe9b5dba5, 0x3956c25b, 0x59f111f1, 0x923f82a4, 0xab1c5ed5,
  0xd807aa98, 0x12835b01, 0x243185be, 0x550c7dc3, 0x72be5d74, 0x80deb1fe, 0x9bdc06a7, 0xc19bf174,
  0xe49b69c1, 0xefbe4786, 0x0fc19dc6, 0x240ca1cc, 0x2de92c6f, 0x4a7484aa, 0x5cb0a9dc, 0x76f988da,
  0x983e5152, 0xa831c66d, 0xb00327c8, 0xbf597fc7, 0xc6e00bf3, 0xd5a79147, 0x06ca6351, 0x14292967,
  0x27b70a85, 0x2e1b2138, 0x4d2c6dfc, 0x53380d13, 0x650a7354, 0x766a0abb, 0x81c2c92e, 0x92722c85,
  0xa2bfe8a1, 0xa81a664b, 0xc24b8b70, 0xc76c51a3, 0xd192e819, 0xd6990624, 0xf40e3585, 0x106aa070,
  0x19a4c116, 0x1e376c08, 0x2748774c, 0x34b0bcb5, 0x391c0cb3, 0x4ed8aa4a, 0x5b9cca4f, 0x682e6ff3,
  0x748f82ee, 0x78a5636f, 0x84c87814, 0x8cc70208, 0x90befffa, 0xa4506ceb, 0xbef9a3f7, 0xc67178f2]

def sha256IV : Array UInt32 := #[
  0x6a09e667, 0xbb67ae85, 0x3c6ef372, 0xa54ff53a, 0x510e527f, 0x9b05688c, 0x1f83d9ab, 0x5be0cd19]

def sha224IV : Array UInt32 := #[
  0xc1059ed8, 0x367cd507, 0x3070dd17, 0xf70e5939, 0xffc00b31, 0x68581511, 0x64f98fa7, 0xbefa4fa4]

/-- one SHA-256 compression: chaining value `h` (8 words), block = words `off .. off+15` of `ws` -/
def sha256Block (h : Array UInt32) (ws : Array UInt32) (off : Nat) : Array UInt32 := Id.run do
  let mut w : Array UInt32 := ws.extract off (off + 16)
  for i in [16:64] do
    let w15 := w[i - 15]!
    let w2 := w[i - 2]!
    let s0 := rotr w15 7 ^^^ rotr w15 18 ^^^ (w15 >>> 3)
    let s1 := rotr w2 17 ^^^ rotr w2 19 ^^^ (w2 >>> 10)
    w := w.push (w[i - 16]! + s0 + w[i - 7]! + s1)
  let mut a := h[0]!
  let mut b := h[1]!
  let mut c := h[2]!
  let mut d := h[3]!
  let mut e := h[4]!
  let mut f := h[5]!
  let mut g := h[6]!
  let mut hh := h[7]!
  for i in [0:64] do
    let s1 := rotr e 6 ^^^ rotr e 11 ^^^ rotr e 25
    let ch := (e &&& f) ^^^ ((~~~ e) &&& g)
    let t1 := hh + s1 + ch + sha256K[i]! + w[i]!
    let s0 := rotr a 2 ^^^ rotr a 13 ^^^ rotr a 22
    let maj := (a &&& b) ^^^ (a &&& c) ^^^ (b &&& c)
    let t2 := s0 + maj
    hh := g; g := f; f := e; e := d + t1
    d := c; c := b; b := a; a := t1 + t2
  return #[h[0]! + a, h[1]! + b, h[2]! + c, h[3]! + d, h[4]! + e, h[5]! + f, h[6]! + g, h[7]! + hh]

/-- SHA-2 (32-bit family) state after absorbing the padded message -/
def sha2State (iv : Array UInt32) (m : Bytes) : Array UInt32 := Id.run do
  let ws := beWords (mdPad be64 m) #[]
  let mut h := iv
  for i in [0:ws.size / 16] do
    h := sha256Block h ws (16 * i)
  return h

def sha256 (m : Bytes) : Bytes := (sha2State sha256IV m).toList.flatMap beBytes

def sha224 (m : Bytes) : Bytes := ((sha2State sha224IV m).toList.flatMap beBytes).take 28

/-! ## SHA-1 -/

def sha1IV : Array UInt32 := #[0x67452301, 0xefcdab89, 0x98badcfe, 0x10325476, 0xc3d2e1f0]

def sha1Block (h : Array UInt32) (ws : Array UInt32) (off : Nat) : Array UInt32 := Id.run do
  let mut w : Array UInt32 := ws.extract off (off + 16)
  for i in [16:80] do
    w := w.push (rotl (w[i - 3]! ^^^ w[i - 8]! ^^^ w[i - 14]! ^^^ w[i - 16]!) 1)
  let mut a := h[0]!
  let mut b := h[1]!
  let mut c := h[2]!
  let mut d := h[3]!
  let mut e := h[4]!
  for i in [0:80] do
    let (f, k) : UInt32 × UInt32 :=
      if i < 20 then ((b &&& c) ||| ((~~~ b) &&& d), 0x5a827999)
      else if i < 40 then (b ^^^ c ^^^ d, 0x6ed9eba1)
      else if i < 60 then ((b &&& c) ||| (b &&& d) ||| (c &&& d), 0x8f1bbcdc)
      else (b ^^^ c ^^^ d, 0xca62c1d6)
    let t := rotl a 5 + f + e + k + w[i]!
    e := d; d := c; c := rotl b 30; b := a; a := t
  return #[h[0]! + a, h[1]! + b, h[2]! + c, h[3]! + d, h[4]! + e]

def sha1 (m : Bytes) : Bytes := Id.run do
  let ws := beWords (mdPad be64 m) #[]
  let mut h := sha1IV
  for i in [0:ws.size / 16] do
    h := sha1Block h ws (16 * i)
  return h.toList.flatMap beBytes

/-! ## MD5 -/

def md5K : Array UInt32 := #[
  0xd76aa478, 0xe8c7b756, 0x242070db, 0xc1bdceee, 0xf57c0faf, 0x4787c62a, 0xa8304613, 0xfd469501,
  0x698098d8, 0x8b44f7af, 0xffff5bb1, 0x895cd7be, 0x6b901122, 0xfd987193, 0xa679438e, 0x49b40821,
  0xf61e2562, 0xc040b340, 0x265e5a51, 0xe9b6c7aa, 0xd62f105d, 0x02441453, 0xd8a1e681, 0xe7d3fbc8,
  0x21e1cde6, 0xc33707d6, 0xf4d50d87, 0x455a14ed, 0xa9e3e905, 0xfcefa3f8, 0x676f02d9, 0x8d2a4c8a,
  0xfffa3942, 0x8771f681, 0x6d9d6122, 0xfde5380c, 0xa4beea44, 0x4bdecfa9, 0xf6bb4b60, 0xbebfbc70,
  0x289b7ec6, 0xeaa127fa, 0xd4ef3085, 0x04881d05, 0xd9d4d039, 0xe6db99e5, 0x1fa27cf8, 0xc4ac5665,
  0xf4292244, 0x432aff97, 0xab9423a7, 0xfc93a039, 0x655b59c3, 0x8f0ccc92, 0xffeff47d, 0x85845dd1,
  0x6fa87e4f, 0xfe2ce6e0, 0xa3014314, 0x4e0811a1, 0xf7537e82, 0xbd3af235, 0x2ad7d2bb, 0xeb86d391]

/-- per-round left-rotation amounts: row `i / 16`, column `i % 4` -/
def md5S : Array UInt32 := #[
  7, 12, 17, 22,
  5,  9, 14, 20,
  4, 11, 16, 23,
  6, 10, 15, 21]

def md5IV : Array UInt32 := #[0x67452301, 0xefcdab89, 0x98badcfe, 0x10325476]

def md5Block (h : Array UInt32) (ws : Array UInt32) (off : Nat) : Array UInt32 := Id.run do
  let mut a := h[0]!
  let mut b := h[1]!
  let mut c := h[2]!
  let mut d := h[3]!
  for i in [0:64] do
    let (f, g) : UInt32 × Nat :=
      if i < 16 then ((b &&& c) ||| ((~~~ b) &&& d), i)
      else if i < 32 then ((d &&& b) ||| ((~~~ d) &&& c), (5 * i + 1) % 16)
      else if i < 48 then (b ^^^ c ^^^ d, (3 * i + 5) % 16)
      else (c ^^^ (b ||| (~~~ d)), (7 * i) % 16)
    let t := a + f + md5K[i]! + ws[off + g]!
    a := d; d := c; c := b
    b := b + rotl t md5S[4 * (i / 16) + i % 4]!
  return #[h[0]! + a, h[1]! + b, h[2]! + c, h[3]! + d]

def md5 (m : Bytes) : Bytes := Id.run do
  let ws := leWords (mdPad le64 m) #[]
  let mut h := md5IV
  for i in [0:ws.size / 16] do
    h := md5Block h ws (16 * i)
  return h.toList.flatMap leBytes

/-! ## HMAC (RFC 2104) and HKDF (RFC 5869) -/

/-- HMAC over any hash `h` with block size `blockSize` (64 for MD5/SHA-1/SHA-2-256).
    A key longer than the block size is hashed first; the key is then zero-padded. -/
def hmac (h : Bytes → Bytes) (blockSize : Nat) (key msg : Bytes) : Bytes :=
  let k0 := if key.length > blockSize then h key else key
  let k := k0 ++ zeros (blockSize - k0.length)
  let ipad := k.map (· ^^^ (0x36 : UInt8))
  let opad := k.map (· ^^^ (0x5c : UInt8))
  h (opad ++ h (ipad ++ msg))

def hmacSha1 (key msg : Bytes) : Bytes := hmac sha1 64 key msg
def hmacSha256 (key msg : Bytes) : Bytes := hmac sha256 64 key msg

/-- HKDF-Extract -/
def hkdfExtractSha1 (salt ikm : Bytes) : Bytes := hmacSha1 salt ikm

/-- HKDF-Expand: `T(i) = HMAC(prk, T(i-1) ‖ info ‖ i)`, output = first `len` bytes of `T(1) ‖ T(2) ‖ …`.
    RFC 5869 (and the Rust `hkdf` crate) only allow `len ≤ 255 * 20`; beyond that the block counter
    byte here simply wraps modulo 256 (the Rust crate returns an error instead). -/
def hkdfExpandSha1 (prk info : Bytes) (len : Nat) : Bytes := Id.run do
  let mut t : Bytes := []
  let mut okm : Bytes := []
  for i in [0:(len + 19) / 20] do
    t := hmacSha1 prk (t ++ info ++ [u8 (i + 1)])
    okm := okm ++ t
  return okm.take len

/-- `Hkdf::<Sha1>::new(Some(salt), ikm).expand(info, &mut okm[..len])` -/
def hkdfSha1 (salt ikm info : Bytes) (len : Nat) : Bytes :=
  hkdfExpandSha1 (hkdfExtractSha1 salt ikm) info len

/-! ## CRC-32/ISO-HDLC (zlib) -/

def crc32Table : Array UInt32 := Id.run do
  let mut t : Array UInt32 := Array.mkEmpty 256
  for n in [0:256] do
    let mut c : UInt32 := UInt32.ofNat n
    for _ in [0:8] do
      c := if c &&& 1 == 1 then (c >>> 1) ^^^ 0xEDB88320 else c >>> 1
    t := t.push c
  return t

def crc32 (m : Bytes) : Nat :=
  let c := m.foldl
    (fun (c : UInt32) (b : UInt8) => crc32Table[((c ^^^ b.toUInt32) &&& 0xFF).toNat]! ^^^ (c >>> 8))
    (0xFFFFFFFF : UInt32)
  (c ^^^ 0xFFFFFFFF).toNat

/-! ## FNV-1a, 32 bit -/

def fnv1a32 (m : Bytes) : Nat :=
  (m.foldl (fun (h : UInt32) (b : UInt8) => (h ^^^ b.toUInt32) * 16777619) (2166136261 : UInt32)).toNat

end Octo.Crypto.Hash
