import Octo.Base.Bytes
/-
  ChaCha20-Poly1305 / ChaCha8-Poly1305 AEAD (RFC 8439 construction, generalised to
  `rounds` total rounds) and the XChaCha variants, as implemented by the RustCrypto
  `chacha20poly1305` crate v0.10.1 (feature `reduced-round`).

  Pure, total, core Lean only.  Internals work on `UInt32` / `Array UInt8`; the public
  API is on `Octo.Bytes = List UInt8`.

  Conventions for malformed inputs (the real crate rejects these at the type level):
  key/nonce bytes that are missing read as 0, surplus bytes are ignored.  The 32-bit
  block counter wraps (messages ≥ 2^32·64 bytes are out of scope).
-/
namespace Octo.Crypto.ChaCha

/-! ## ChaCha permutation -/

/-- the 4×4 ChaCha state, row-major -/
structure St where
  x0 : UInt32
  x1 : UInt32
  x2 : UInt32
  x3 : UInt32
  x4 : UInt32
  x5 : UInt32
  x6 : UInt32
  x7 : UInt32
  x8 : UInt32
  x9 : UInt32
  x10 : UInt32
  x11 : UInt32
  x12 : UInt32
  x13 : UInt32
  x14 : UInt32
  x15 : UInt32

@[inline] def rotl (x : UInt32) (n : UInt32) : UInt32 := (x <<< n) ||| (x >>> (32 - n))

/-- ChaCha quarter round -/
@[inline] def qr (a b c d : UInt32) : UInt32 × UInt32 × UInt32 × UInt32 :=
  let a := a + b; let d := rotl (d ^^^ a) 16
  let c := c + d; let b := rotl (b ^^^ c) 12
  let a := a + b; let d := rotl (d ^^^ a) 8
  let c := c + d; let b := rotl (b ^^^ c) 7
  (a, b, c, d)

/-- one column round followed by one diagonal round -/
def doubleRound (s : St) : St :=
  let (x0, x4, x8, x12) := qr s.x0 s.x4 s.x8 s.x12
  let (x1, x5, x9, x13) := qr s.x1 s.x5 s.x9 s.x13
  let (x2, x6, x10, x14) := qr s.x2 s.x6 s.x10 s.x14
  let (x3, x7, x11, x15) := qr s.x3 s.x7 s.x11 s.x15
  let (x0, x5, x10, x15) := qr x0 x5 x10 x15
  let (x1, x6, x11, x12) := qr x1 x6 x11 x12
  let (x2, x7, x8, x13) := qr x2 x7 x8 x13
  let (x3, x4, x9, x14) := qr x3 x4 x9 x14
  ⟨x0, x1, x2, x3, x4, x5, x6, x7, x8, x9, x10, x11, x12, x13, x14, x15⟩

/-- `n` double rounds -/
def doubleRounds : Nat → St → St
  | 0, s => s
  | n + 1, s => doubleRounds n (doubleRound s)

/-- the permutation with `rounds` total rounds (`rounds / 2` double rounds) -/
def permute (rounds : Nat) (s : St) : St := doubleRounds (rounds / 2) s

def St.add (a b : St) : St :=
  ⟨a.x0 + b.x0, a.x1 + b.x1, a.x2 + b.x2, a.x3 + b.x3,
   a.x4 + b.x4, a.x5 + b.x5, a.x6 + b.x6, a.x7 + b.x7,
   a.x8 + b.x8, a.x9 + b.x9, a.x10 + b.x10, a.x11 + b.x11,
   a.x12 + b.x12, a.x13 + b.x13, a.x14 + b.x14, a.x15 + b.x15⟩

/-! ## little-endian helpers -/

/-- little-endian u32 at byte offset `i` (missing bytes read as 0) -/
@[inline] def ld32 (a : Array UInt8) (i : Nat) : UInt32 :=
  (a.getD i 0).toUInt32 ||| ((a.getD (i + 1) 0).toUInt32 <<< 8) |||
  ((a.getD (i + 2) 0).toUInt32 <<< 16) ||| ((a.getD (i + 3) 0).toUInt32 <<< 24)

/-- little-endian u64 at byte offset `i` (missing bytes read as 0) -/
@[inline] def ld64 (a : Array UInt8) (i : Nat) : UInt64 :=
  (ld32 a i).toUInt64 ||| ((ld32 a (i + 4)).toUInt64 <<< 32)

@[inline] def push32 (out : Array UInt8) (w : UInt32) : Array UInt8 :=
  (((out.push w.toUInt8).push (w >>> 8).toUInt8).push (w >>> 16).toUInt8).push (w >>> 24).toUInt8

@[inline] def push64 (out : Array UInt8) (w : UInt64) : Array UInt8 :=
  push32 (push32 out w.toUInt32) (w >>> 32).toUInt32

/-! ## ChaCha block function, keystream, HChaCha -/

/-- initial state: constants ‖ key (8 words) ‖ four further words -/
def initSt (key : Array UInt8) (w12 w13 w14 w15 : UInt32) : St :=
  ⟨0x61707865, 0x3320646e, 0x79622d32, 0x6b206574,
   ld32 key 0, ld32 key 4, ld32 key 8, ld32 key 12,
   ld32 key 16, ld32 key 20, ld32 key 24, ld32 key 28,
   w12, w13, w14, w15⟩

/-- serialise the 16 state words little-endian (64 bytes) onto `out` -/
def St.pushBytes (out : Array UInt8) (s : St) : Array UInt8 :=
  let out := push32 (push32 (push32 (push32 out s.x0) s.x1) s.x2) s.x3
  let out := push32 (push32 (push32 (push32 out s.x4) s.x5) s.x6) s.x7
  let out := push32 (push32 (push32 (push32 out s.x8) s.x9) s.x10) s.x11
  push32 (push32 (push32 (push32 out s.x12) s.x13) s.x14) s.x15

/-- IETF ChaCha block (RFC 8439 §2.3 with `rounds` rounds): 32-byte key, 32-bit block
    counter, 12-byte nonce; the 64 keystream bytes are appended to `out`. -/
def blockInto (rounds : Nat) (key nonce : Array UInt8) (ctr : UInt32) (out : Array UInt8) :
    Array UInt8 :=
  let s0 := initSt key ctr (ld32 nonce 0) (ld32 nonce 4) (ld32 nonce 8)
  ((permute rounds s0).add s0).pushBytes out

def block (rounds : Nat) (key nonce : Array UInt8) (ctr : UInt32) : Array UInt8 :=
  blockInto rounds key nonce ctr (Array.mkEmpty 64)

/-- `data` XOR keystream, keystream blocks numbered from `ctr0` -/
def xorStream (rounds : Nat) (key nonce : Array UInt8) (ctr0 : UInt32) (data : Array UInt8) :
    Array UInt8 := Id.run do
  let n := data.size
  let mut out : Array UInt8 := Array.mkEmpty n
  let mut ctr := ctr0
  for b in [0 : (n + 63) / 64] do
    let ks := block rounds key nonce ctr
    ctr := ctr + 1
    let base := b * 64
    for j in [0 : min 64 (n - base)] do
      out := out.push (data.getD (base + j) 0 ^^^ ks.getD j 0)
  return out

/-- HChaCha with `rounds` rounds: 32-byte key, 16-byte input → 32-byte subkey
    (words 0..3 and 12..15 of the permuted state, no feed-forward). -/
def hchacha (rounds : Nat) (key inp : Array UInt8) : Array UInt8 :=
  let s := permute rounds (initSt key (ld32 inp 0) (ld32 inp 4) (ld32 inp 8) (ld32 inp 12))
  let out := push32 (push32 (push32 (push32 (Array.mkEmpty 32) s.x0) s.x1) s.x2) s.x3
  push32 (push32 (push32 (push32 out s.x12) s.x13) s.x14) s.x15

/-! ## Poly1305 (Nat arithmetic mod 2^130 − 5) -/

def polyP : Nat := 2 ^ 130 - 5

/-- 16 little-endian bytes at offset `i` as a number (missing bytes read as 0) -/
@[inline] def ld128 (a : Array UInt8) (i : Nat) : Nat :=
  (ld64 a i).toNat + (ld64 a (i + 8)).toNat <<< 64

/-- clamped `r` from the first 16 key bytes -/
def polyR (key : Array UInt8) : Nat :=
  ((ld64 key 0) &&& 0x0ffffffc0fffffff).toNat + ((ld64 key 8) &&& 0x0ffffffc0ffffffc).toNat <<< 64

/-- absorb the whole of `msg` (last block may be short) into accumulator `acc` -/
def polyAbsorb (r : Nat) (acc : Nat) (msg : Array UInt8) : Nat := Id.run do
  let n := msg.size
  let mut acc := acc
  for b in [0 : n / 16] do
    acc := ((acc + ld128 msg (b * 16) + 2 ^ 128) * r) % polyP
  let rem := n % 16
  if rem ≠ 0 then
    -- bytes past the end read as 0, so `ld128` is exactly the short block value
    acc := ((acc + ld128 msg (n - rem) + 2 ^ (8 * rem)) * r) % polyP
  return acc

/-- final tag: (acc + s) mod 2^128, little-endian -/
def polyFinish (key : Array UInt8) (acc : Nat) : Array UInt8 :=
  let t := (acc + ld128 key 16) % 2 ^ 128
  push64 (push64 (Array.mkEmpty 16) (UInt64.ofNat (t % 2 ^ 64))) (UInt64.ofNat (t / 2 ^ 64))

/-- Poly1305 (RFC 8439 §2.5) of `msg` under the 32-byte one-time key `key` -/
def poly1305 (key msg : Array UInt8) : Array UInt8 :=
  polyFinish key (polyAbsorb (polyR key) 0 msg)

/-- `a` zero-padded to a multiple of 16 bytes -/
def pad16 (a : Array UInt8) : Array UInt8 := Id.run do
  let mut a := a
  for _ in [0 : (16 - a.size % 16) % 16] do
    a := a.push 0
  return a

/-- RFC 8439 §2.8 tag: Poly1305 over pad16(aad) ‖ pad16(ct) ‖ le64 |aad| ‖ le64 |ct| -/
def aeadTag (polyKey aad ct : Array UInt8) : Array UInt8 :=
  let r := polyR polyKey
  let acc := polyAbsorb r 0 (pad16 aad)
  let acc := polyAbsorb r acc (pad16 ct)
  let lens := push64 (push64 (Array.mkEmpty 16) (UInt64.ofNat aad.size)) (UInt64.ofNat ct.size)
  polyFinish polyKey (polyAbsorb r acc lens)

/-! ## AEAD on arrays -/

/-- one-time Poly1305 key: first 32 bytes of keystream block 0 -/
def polyKeyGen (rounds : Nat) (key nonce : Array UInt8) : Array UInt8 :=
  (block rounds key nonce 0).extract 0 32

def aeadSealA (rounds : Nat) (key nonce aad pt : Array UInt8) : Array UInt8 :=
  let ct := xorStream rounds key nonce 1 pt
  ct ++ aeadTag (polyKeyGen rounds key nonce) aad ct

def aeadOpenA (rounds : Nat) (key nonce aad ct : Array UInt8) : Option (Array UInt8) :=
  if ct.size < 16 then none else
    let body := ct.extract 0 (ct.size - 16)
    let tag := ct.extract (ct.size - 16) ct.size
    if aeadTag (polyKeyGen rounds key nonce) aad body == tag then
      some (xorStream rounds key nonce 1 body)
    else none

/-- XChaCha key/nonce derivation: subkey = HChaCha(key, nonce[0..16]),
    nonce' = 00 00 00 00 ‖ nonce[16..24] -/
def xderive (rounds : Nat) (key nonce24 : Array UInt8) : Array UInt8 × Array UInt8 :=
  (hchacha rounds key (nonce24.extract 0 16),
   #[0, 0, 0, 0] ++ nonce24.extract 16 24)

/-! ## public API on `Bytes` -/

/-- AEAD_CHACHA20_POLY1305 (rounds = 20) / RustCrypto `ChaCha8Poly1305` (rounds = 8):
    32-byte key, 12-byte nonce; returns ciphertext ‖ 16-byte tag. -/
def aeadSeal (rounds : Nat) (key nonce aad pt : Bytes) : Bytes :=
  (aeadSealA rounds key.toArray nonce.toArray aad.toArray pt.toArray).toList

/-- inverse of `aeadSeal`; `none` when `ct.length < 16` or the tag does not verify. -/
def aeadOpen (rounds : Nat) (key nonce aad ct : Bytes) : Option Bytes :=
  (aeadOpenA rounds key.toArray nonce.toArray aad.toArray ct.toArray).map Array.toList

/-- XChaCha20-Poly1305 (rounds = 20) / XChaCha8-Poly1305 (rounds = 8), 24-byte nonce. -/
def xaeadSeal (rounds : Nat) (key nonce24 aad pt : Bytes) : Bytes :=
  let (k, n) := xderive rounds key.toArray nonce24.toArray
  (aeadSealA rounds k n aad.toArray pt.toArray).toList

def xaeadOpen (rounds : Nat) (key nonce24 aad ct : Bytes) : Option Bytes :=
  let (k, n) := xderive rounds key.toArray nonce24.toArray
  (aeadOpenA rounds k n aad.toArray ct.toArray).map Array.toList

end Octo.Crypto.ChaCha
