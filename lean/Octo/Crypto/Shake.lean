import Octo.Base.Bytes
/-
  SHAKE128 (FIPS 202): Keccak-f[1600] sponge, rate 168 bytes, domain suffix 0x1F.
  Pure, total, core Lean only.  The state is an `Array UInt64` of 25 lanes,
  lane (x, y) at index x + 5·y.
-/
namespace Octo.Crypto.Shake

/-- ρ rotation offsets, indexed x + 5·y -/
def rhoOffsets : Array UInt64 :=
  #[ 0,  1, 62, 28, 27,
    36, 44,  6, 55, 20,
     3, 10, 43, 25, 39,
    41, 45, 15, 21,  8,
    18,  2, 61, 56, 14]

/-- ι round constants -/
def roundConsts : Array UInt64 :=
  #[0x0000000000000001, 0x0000000000008082, 0x800000000000808A, 0x8000000080008000,
    0x000000000000808B, 0x0000000080000001, 0x8000000080008081, 0x8000000000008009,
    0x000000000000008A, 0x0000000000000088, 0x0000000080008009, 0x000000008000000A,
    0x000000008000808B, 0x800000000000008B, 0x8000000000008089, 0x8000000000008003,
    0x8000000000008002, 0x8000000000000080, 0x000000000000800A, 0x800000008000000A,
    0x8000000080008081, 0x8000000000008080, 0x0000000080000001, 0x8000000080008008]

@[inline] def rotl64 (x : UInt64) (n : UInt64) : UInt64 :=
  if n == 0 then x else (x <<< n) ||| (x >>> (64 - n))

@[inline] def lane (a : Array UInt64) (i : Nat) : UInt64 := a.getD i 0

/-- one Keccak-f[1600] round (θ, ρ, π, χ, ι) with round constant `rc` -/
def keccakRound (a : Array UInt64) (rc : UInt64) : Array UInt64 := Id.run do
  -- θ
  let mut c : Array UInt64 := Array.mkEmpty 5
  for x in [0:5] do
    c := c.push (lane a x ^^^ lane a (x + 5) ^^^ lane a (x + 10) ^^^ lane a (x + 15) ^^^ lane a (x + 20))
  let mut t : Array UInt64 := Array.mkEmpty 25
  for i in [0:25] do
    let x := i % 5
    let d := lane c ((x + 4) % 5) ^^^ rotl64 (lane c ((x + 1) % 5)) 1
    t := t.push (lane a i ^^^ d)
  -- ρ and π : B[y, 2x+3y] = rotl(A[x, y], r[x, y])
  let mut b : Array UInt64 := Array.replicate 25 0
  for i in [0:25] do
    let x := i % 5
    let y := i / 5
    b := b.set! (y + 5 * ((2 * x + 3 * y) % 5)) (rotl64 (lane t i) (lane rhoOffsets i))
  -- χ
  let mut r : Array UInt64 := Array.mkEmpty 25
  for i in [0:25] do
    let x := i % 5
    let y5 := i - x
    r := r.push (lane b i ^^^ (~~~ lane b (y5 + (x + 1) % 5) &&& lane b (y5 + (x + 2) % 5)))
  -- ι
  return r.set! 0 (lane r 0 ^^^ rc)

/-- Keccak-f[1600]: 24 rounds -/
def keccakF (a : Array UInt64) : Array UInt64 :=
  roundConsts.foldl keccakRound a

/-- rate of SHAKE128 in bytes -/
def rate : Nat := 168

/-- little-endian u64 at byte offset `i` (missing bytes read as 0) -/
def ld64 (a : Array UInt8) (i : Nat) : UInt64 := Id.run do
  let mut w : UInt64 := 0
  for j in [0:8] do
    w := w ||| ((a.getD (i + j) 0).toUInt64 <<< (8 * j).toUInt64)
  return w

/-- message ‖ 0x1F ‖ 0…0 with the last byte ORed with 0x80, length a positive multiple of `rate` -/
def pad (input : Array UInt8) : Array UInt8 := Id.run do
  let mut p := input.push 0x1F
  for _ in [0 : (rate - p.size % rate) % rate] do
    p := p.push 0
  let last := p.size - 1
  return p.set! last (p.getD last 0 ||| 0x80)

/-- absorb all rate-sized blocks of the padded message -/
def absorb (p : Array UInt8) : Array UInt64 := Id.run do
  let mut st : Array UInt64 := Array.replicate 25 0
  for b in [0 : p.size / rate] do
    for i in [0 : rate / 8] do
      st := st.set! i (lane st i ^^^ ld64 p (b * rate + 8 * i))
    st := keccakF st
  return st

/-- squeeze `outLen` bytes -/
def squeeze (st : Array UInt64) (outLen : Nat) : Array UInt8 := Id.run do
  let mut st := st
  let mut out : Array UInt8 := Array.mkEmpty outLen
  for b in [0 : (outLen + rate - 1) / rate] do
    if b ≠ 0 then st := keccakF st
    for j in [0 : min rate (outLen - b * rate)] do
      out := out.push (lane st (j / 8) >>> (8 * (j % 8)).toUInt64).toUInt8
  return out

/-- the first `outLen` bytes of SHAKE128(`input`) -/
def shake128 (input : Bytes) (outLen : Nat) : Bytes :=
  (squeeze (absorb (pad input.toArray)) outLen).toList

end Octo.Crypto.Shake
