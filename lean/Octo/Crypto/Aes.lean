import Octo.Base.Bytes

/-!
  AES-128 / AES-256 block cipher (FIPS-197) and AES-GCM (NIST SP 800-38D), executable model.
  Core Lean only.  Public API (all total, `Bytes = List UInt8`):

  * `encryptBlock key block`, `decryptBlock key block`
  * `gcmSeal key nonce aad pt`, `gcmOpen key nonce aad ct`

  Internally: state = four big-endian `UInt32` columns, encryption via one T-table
  (`te0`, rotated for the other three), GHASH on two `UInt64` halves.
  All loops are structural recursion on a `Nat` counter or `for` over a range.
-/
namespace Octo.Crypto.Aes

/-! ## Tables -/

def sboxTable : ByteArray := ⟨#[
    0x63, 0x7c, 0x77, 0x7b, 0xf2, 0x6b, 0x6f, 0xc5, 0x30, 0x01, 0x67, 0x2b, 0xfe, 0xd7, 0xab, 0x76,
    0xca, 0x82, 0xc9, 0x7d, 0xfa, 0x59, 0x47, 0xf0, 0xad, 0xd4, 0xa2, 0xaf, 0x9c, 0xa4, 0x72, 0xc0,
    0xb7, 0xfd, 0x93, 0x26, 0x36, 0x3f, 0xf7, 0xcc, 0x34, 0xa5, 0xe5, 0xf1, 0x71, 0xd8, 0x31, 0x15,
    0x04, 0xc7, 0x23, 0xc3, 0x18, 0x96, 0x05, 0x9a, 0x07, 0x12, 0x80, 0xe2, 0xeb, 0x27, 0xb2, 0x75,
    0x09, 0x83, 0x2c, 0x1a, 0x1b, 0x6e, 0x5a, 0xa0, 0x52, 0x3b, 0xd6, 0xb3, 0x29, 0xe3, 0x2f, 0x84,
    0x53, 0xd1, 0x00, 0xed, 0x20, 0xfc, 0xb1, 0x5b, 0x6a, 0xcb, 0xbe, 0x39, 0x4a, 0x4c, 0x58, 0xcf,
    0xd0, 0xef, 0xaa, 0xfb, 0x43, 0x4d, 0x33, 0x85, 0x45, 0xf9, 0x02, 0x7f, 0x50, 0x3c, 0x9f, 0xa8,
    0x51, 0xa3, 0x40, 0x8f, 0x92, 0x9d, 0x38, 0xf5, 0xbc, 0xb6, 0xda, 0x21, 0x10, 0xff, 0xf3, 0xd2,
    0xcd, 0x0c, 0x13, 0xec, 0x5f, 0x97, 0x44, 0x17, 0xc4, 0xa7, 0x7e, 0x3d, 0x64, 0x5d, 0x19, 0x73,
    0x60, 0x81, 0x4f, 0xdc, 0x22, 0x2a, 0x90, 0x88, 0x46, 0xee, 0xb8, 0x14, 0xde, 0x5e, 0x0b, 0xdb,
    0xe0, 0x32, 0x3a, 0x0a, 0x49, 0x06, 0x24, 0x5c, 0xc2, 0xd3, 0xac, 0x62, 0x91, 0x95, 0xe4, 0x79,
    0xe7, 0xc8, 0x37, 0x6d, 0x8d, 0xd5, 0x4e, 0xa9, 0x6c, 0x56, 0xf4, 0xea, 0x65, 0x7a, 0xae, 0x08,
    0xba, 0x78, 0x25, 0x2e, 0x1c, 0xa6, 0xb4, 0xc6, 0xe8, 0xdd, 0x74, 0x1f, 0x4b, 0xbd, 0x8b, 0x8a,
    0x70, 0x3e, 0xb5, 0x66, 0x48, 0x03, 0xf6, 0x0e, 0x61, 0x35, 0x57, 0xb9, 0x86, 0xc1, 0x1d, 0x9e,
    0xe1, 0xf8, 0x98, 0x11, 0x69, 0xd9, 0x8e, 0x94, 0x9b, 0x1e, 0x87, 0xe9, 0xce, 0x55, 0x28, 0xdf,
    0x8c, 0xa1, 0x89, 0x0d, 0xbf, 0xe6, 0x42, 0x68, 0x41, 0x99, 0x2d, 0x0f, 0xb0, 0x54, 0xbb, 0x16]⟩

def invSboxTable : ByteArray := ⟨#[
    0x52, 0x09, 0x6a, 0xd5, 0x30, 0x36, 0xa5, 0x38, 0xbf, 0x40, 0xa3, 0x9e, 0x81, 0xf3, 0xd7, 0xfb,
    0x7c, 0xe3, 0x39, 0x82, 0x9b, 0x2f, 0xff, 0x87, 0x34, 0x8e, 0x43, 0x44, 0xc4, 0xde, 0xe9, 0xcb,
    0x54, 0x7b, 0x94, 0x32, 0xa6, 0xc2, 0x23, 0x3d, 0xee, 0x4c, 0x95, 0x0b, 0x42, 0xfa, 0xc3, 0x4e,
    0x08, 0x2e, 0xa1, 0x66, 0x28, 0xd9, 0x24, 0xb2, 0x76, 0x5b, 0xa2, 0x49, 0x6d, 0x8b, 0xd1, 0x25,
    0x72, 0xf8, 0xf6, 0x64, 0x86, 0x68, 0x98, 0x16, 0xd4, 0xa4, 0x5c, 0xcc, 0x5d, 0x65, 0xb6, 0x92,
    0x6c, 0x70, 0x48, 0x50, 0xfd, 0xed, 0xb9, 0xda, 0x5e, 0x15, 0x46, 0x57, 0xa7, 0x8d, 0x9d, 0x84,
    0x90, 0xd8, 0xab, 0x00, 0x8c, 0xbc, 0xd3, 0x0a, 0xf7, 0xe4, 0x58, 0x05, 0xb8, 0xb3, 0x45, 0x06,
    0xd0, 0x2c, 0x1e, 0x8f, 0xca, 0x3f, 0x0f, 0x02, 0xc1, 0xaf, 0xbd, 0x03, 0x01, 0x13, 0x8a, 0x6b,
    0x3a, 0x91, 0x11, 0x41, 0x4f, 0x67, 0xdc, 0xea, 0x97, 0xf2, 0xcf, 0xce, 0xf0, 0xb4, 0xe6, 0x73,
    0x96, 0xac, 0x74, 0x22, 0xe7, 0xad, 0x35, 0x85, 0xe2, 0xf9, 0x37, 0xe8, 0x1c, 0x75, 0xdf, 0x6e,
    0x47, 0xf1, 0x1a, 0x71, 0x1d, 0x29, 0xc5, 0x89, 0x6f, 0xb7, 0x62, 0x0e, 0xaa, 0x18, 0xbe, 0x1b,
    0xfc, 0x56, 0x3e, 0x4b, 0xc6, 0xd2, 0x79, 0x20, 0x9a, 0xdb, 0xc0, 0xfe, 0x78, 0xcd, 0x5a, 0xf4,
    0x1f, 0xdd, 0xa8, 0x33, 0x88, 0x07, 0xc7, 0x31, 0xb1, 0x12, 0x10, 0x59, 0x27, 0x80, 0xec, 0x5f,
    0x60, 0x51, 0x7f, 0xa9, 0x19, 0xb5, 0x4a, 0x0d, 0x2d, 0xe5, 0x7a, 0x9f, 0x93, 0xc9, 0x9c, 0xef,
    0xa0, 0xe0, 0x3b, 0x4d, 0xae, 0x2a, 0xf5, 0xb0, 0xc8, 0xeb, 0xbb, 0x3c, 0x83, 0x53, 0x99, 0x61,
    0x17, 0x2b, 0x04, 0x7e, 0xba, 0x77, 0xd6, 0x26, 0xe1, 0x69, 0x14, 0x63, 0x55, 0x21, 0x0c, 0x7d]⟩

@[inline] def sb (x : UInt8) : UInt8 := sboxTable.get! x.toNat
@[inline] def isb (x : UInt8) : UInt8 := invSboxTable.get! x.toNat

/-- multiplication by `x` in GF(2^8) mod x^8+x^4+x^3+x+1 -/
@[inline] def xtime (a : UInt8) : UInt8 :=
  (a <<< 1) ^^^ (if a &&& 0x80 != 0 then 0x1b else 0)

/-- GF(2^8) multiplication (used only by the inverse cipher) -/
def gfMul (a b : UInt8) : UInt8 :=
  let a2 := xtime a
  let a4 := xtime a2
  let a8 := xtime a4
  (if b &&& 1 != 0 then a else 0) ^^^ (if b &&& 2 != 0 then a2 else 0) ^^^
  (if b &&& 4 != 0 then a4 else 0) ^^^ (if b &&& 8 != 0 then a8 else 0)

@[inline] def ror8 (x : UInt32) : UInt32 := (x >>> 8) ||| (x <<< 24)
@[inline] def ror16 (x : UInt32) : UInt32 := (x >>> 16) ||| (x <<< 16)
@[inline] def ror24 (x : UInt32) : UInt32 := (x >>> 24) ||| (x <<< 8)

@[inline] def packBE (a b c d : UInt8) : UInt32 :=
  (a.toUInt32 <<< 24) ||| (b.toUInt32 <<< 16) ||| (c.toUInt32 <<< 8) ||| d.toUInt32

/-- `te0[x] = S[x]·(02,01,01,03)` as a big-endian word. -/
def te0 : Array UInt32 :=
  (Array.range 256).map fun i =>
    let s := sb (UInt8.ofNat i)
    let s2 := xtime s
    packBE s2 s s (s2 ^^^ s)

@[inline] def b0 (w : UInt32) : UInt8 := (w >>> 24).toUInt8
@[inline] def b1 (w : UInt32) : UInt8 := (w >>> 16).toUInt8
@[inline] def b2 (w : UInt32) : UInt8 := (w >>> 8).toUInt8
@[inline] def b3 (w : UInt32) : UInt8 := w.toUInt8

@[inline] def t0 (x : UInt8) : UInt32 := te0[x.toNat]!

@[inline] def subWord (w : UInt32) : UInt32 :=
  packBE (sb (b0 w)) (sb (b1 w)) (sb (b2 w)) (sb (b3 w))

/-! ## Key schedule -/

/-- Expanded key: `4*(nr+1)` big-endian words. `nr = 0` marks an unsupported key length. -/
structure Key where
  nr : Nat
  rk : Array UInt32

@[inline] def byteAt (b : ByteArray) (i : Nat) : UInt8 :=
  if h : i < b.size then b[i] else 0

@[inline] def wordAt (b : ByteArray) (i : Nat) : UInt32 :=
  packBE (byteAt b i) (byteAt b (i+1)) (byteAt b (i+2)) (byteAt b (i+3))

def expandKey (key : ByteArray) : Key := Id.run do
  let nk := key.size / 4
  if !(key.size == 16 || key.size == 32) then return ⟨0, #[]⟩
  let nr := nk + 6
  let total := 4 * (nr + 1)
  let mut w : Array UInt32 := Array.mkEmpty total
  for i in [0:nk] do
    w := w.push (wordAt key (4*i))
  let mut rc : UInt8 := 1
  for i in [nk:total] do
    let mut t := w[i-1]!
    if i % nk == 0 then
      t := subWord ((t <<< 8) ||| (t >>> 24)) ^^^ (rc.toUInt32 <<< 24)
      rc := xtime rc
    else if nk > 6 && i % nk == 4 then
      t := subWord t
    w := w.push (w[i-nk]! ^^^ t)
  return ⟨nr, w⟩

/-! ## Block encryption on four words -/

structure W4 where
  a : UInt32
  b : UInt32
  c : UInt32
  d : UInt32

/-- `n` full rounds starting at round-key offset `k` -/
def encRounds (rk : Array UInt32) : Nat → Nat → UInt32 → UInt32 → UInt32 → UInt32 → W4
  | 0, _, s0, s1, s2, s3 => ⟨s0, s1, s2, s3⟩
  | n+1, k, s0, s1, s2, s3 =>
    let u0 := t0 (b0 s0) ^^^ ror8 (t0 (b1 s1)) ^^^ ror16 (t0 (b2 s2)) ^^^ ror24 (t0 (b3 s3)) ^^^ rk[k]!
    let u1 := t0 (b0 s1) ^^^ ror8 (t0 (b1 s2)) ^^^ ror16 (t0 (b2 s3)) ^^^ ror24 (t0 (b3 s0)) ^^^ rk[k+1]!
    let u2 := t0 (b0 s2) ^^^ ror8 (t0 (b1 s3)) ^^^ ror16 (t0 (b2 s0)) ^^^ ror24 (t0 (b3 s1)) ^^^ rk[k+2]!
    let u3 := t0 (b0 s3) ^^^ ror8 (t0 (b1 s0)) ^^^ ror16 (t0 (b2 s1)) ^^^ ror24 (t0 (b3 s2)) ^^^ rk[k+3]!
    encRounds rk n (k+4) u0 u1 u2 u3

/-- Forward cipher on a block given as four big-endian words. Requires `key.nr ≥ 1`. -/
def encWords (key : Key) (x0 x1 x2 x3 : UInt32) : W4 :=
  let rk := key.rk
  let s := encRounds rk (key.nr - 1) 4 (x0 ^^^ rk[0]!) (x1 ^^^ rk[1]!) (x2 ^^^ rk[2]!) (x3 ^^^ rk[3]!)
  let k := 4 * key.nr
  ⟨packBE (sb (b0 s.a)) (sb (b1 s.b)) (sb (b2 s.c)) (sb (b3 s.d)) ^^^ rk[k]!,
   packBE (sb (b0 s.b)) (sb (b1 s.c)) (sb (b2 s.d)) (sb (b3 s.a)) ^^^ rk[k+1]!,
   packBE (sb (b0 s.c)) (sb (b1 s.d)) (sb (b2 s.a)) (sb (b3 s.b)) ^^^ rk[k+2]!,
   packBE (sb (b0 s.d)) (sb (b1 s.a)) (sb (b2 s.b)) (sb (b3 s.c)) ^^^ rk[k+3]!⟩

/-! ## Inverse cipher (byte oriented; only used for single blocks) -/

@[inline] def invMixWord (w : UInt32) : UInt32 :=
  let a := b0 w; let b := b1 w; let c := b2 w; let d := b3 w
  packBE (gfMul a 14 ^^^ gfMul b 11 ^^^ gfMul c 13 ^^^ gfMul d 9)
         (gfMul a 9 ^^^ gfMul b 14 ^^^ gfMul c 11 ^^^ gfMul d 13)
         (gfMul a 13 ^^^ gfMul b 9 ^^^ gfMul c 14 ^^^ gfMul d 11)
         (gfMul a 11 ^^^ gfMul b 13 ^^^ gfMul c 9 ^^^ gfMul d 14)

/-- InvShiftRows ∘ InvSubBytes, then AddRoundKey at offset `k` -/
@[inline] def invSubShiftAdd (rk : Array UInt32) (k : Nat) (s : W4) : W4 :=
  ⟨packBE (isb (b0 s.a)) (isb (b1 s.d)) (isb (b2 s.c)) (isb (b3 s.b)) ^^^ rk[k]!,
   packBE (isb (b0 s.b)) (isb (b1 s.a)) (isb (b2 s.d)) (isb (b3 s.c)) ^^^ rk[k+1]!,
   packBE (isb (b0 s.c)) (isb (b1 s.b)) (isb (b2 s.a)) (isb (b3 s.d)) ^^^ rk[k+2]!,
   packBE (isb (b0 s.d)) (isb (b1 s.c)) (isb (b2 s.b)) (isb (b3 s.a)) ^^^ rk[k+3]!⟩

/-- rounds `n, n-1, …, 1` of the inverse cipher (each ends with InvMixColumns) -/
def decRounds (rk : Array UInt32) : Nat → W4 → W4
  | 0, s => s
  | n+1, s =>
    let t := invSubShiftAdd rk (4 * (n+1)) s
    decRounds rk n ⟨invMixWord t.a, invMixWord t.b, invMixWord t.c, invMixWord t.d⟩

def decWords (key : Key) (x0 x1 x2 x3 : UInt32) : W4 :=
  let rk := key.rk
  let k := 4 * key.nr
  let s := decRounds rk (key.nr - 1) ⟨x0 ^^^ rk[k]!, x1 ^^^ rk[k+1]!, x2 ^^^ rk[k+2]!, x3 ^^^ rk[k+3]!⟩
  invSubShiftAdd rk 0 s

/-! ## Byte-level helpers -/

@[inline] def pushWord (out : ByteArray) (w : UInt32) : ByteArray :=
  (((out.push (b0 w)).push (b1 w)).push (b2 w)).push (b3 w)

def w4Bytes (s : W4) : Bytes :=
  [b0 s.a, b1 s.a, b2 s.a, b3 s.a, b0 s.b, b1 s.b, b2 s.b, b3 s.b,
   b0 s.c, b1 s.c, b2 s.c, b3 s.c, b0 s.d, b1 s.d, b2 s.d, b3 s.d]

/-- pad with zeros / truncate to exactly 16 bytes -/
def block16 (b : Bytes) : ByteArray := ((b ++ zeros 16).take 16).toByteArray

/-- AES-128 (16-byte key) or AES-256 (32-byte key) forward cipher on one block.
    Any other key length yields `zeros 16`; the block is zero-padded/truncated to 16 bytes. -/
def encryptBlock (key : Bytes) (block : Bytes) : Bytes :=
  let k := expandKey key.toByteArray
  if k.nr == 0 then zeros 16 else
  let b := block16 block
  w4Bytes (encWords k (wordAt b 0) (wordAt b 4) (wordAt b 8) (wordAt b 12))

/-- Inverse cipher; same conventions as `encryptBlock`. -/
def decryptBlock (key : Bytes) (block : Bytes) : Bytes :=
  let k := expandKey key.toByteArray
  if k.nr == 0 then zeros 16 else
  let b := block16 block
  w4Bytes (decWords k (wordAt b 0) (wordAt b 4) (wordAt b 8) (wordAt b 12))

/-! ## GHASH -/

structure U128 where
  hi : UInt64
  lo : UInt64

/-- bitwise GF(2^128) multiply-accumulate, GCM bit order: `z ^= x·v`, `n` remaining bits of `x` -/
def gmulLoop : Nat → UInt64 → UInt64 → UInt64 → UInt64 → UInt64 → UInt64 → U128
  | 0, zh, zl, _, _, _, _ => ⟨zh, zl⟩
  | n+1, zh, zl, vh, vl, xh, xl =>
    let m : UInt64 := (0 : UInt64) - (xh >>> 63)
    let r : UInt64 := (0 : UInt64) - (vl &&& 1)
    gmulLoop n (zh ^^^ (vh &&& m)) (zl ^^^ (vl &&& m))
      ((vh >>> 1) ^^^ (r &&& 0xE100000000000000)) ((vl >>> 1) ||| (vh <<< 63))
      ((xh <<< 1) ||| (xl >>> 63)) (xl <<< 1)

/-- `x · h` in GF(2^128) -/
@[inline] def gmul (x h : U128) : U128 := gmulLoop 128 0 0 h.hi h.lo x.hi x.lo

@[inline] def u64At (b : ByteArray) (i : Nat) : UInt64 :=
  ((wordAt b i).toUInt64 <<< 32) ||| (wordAt b (i+4)).toUInt64

/-- absorb `n` 16-byte blocks of `data` starting at `off` (last one zero padded) -/
def ghashLoop (h : U128) (data : ByteArray) : Nat → Nat → U128 → U128
  | 0, _, y => y
  | n+1, off, y =>
    ghashLoop h data n (off + 16)
      (gmul ⟨y.hi ^^^ u64At data off, y.lo ^^^ u64At data (off + 8)⟩ h)

def ghashBytes (h : U128) (y : U128) (data : ByteArray) : U128 :=
  ghashLoop h data ((data.size + 15) / 16) 0 y

/-! ## CTR -/

/-- push `inp[off..off+4) ^ w` onto `out`, stopping at the end of `inp` -/
@[inline] def xorWord (inp : ByteArray) (off : Nat) (w : UInt32) (out : ByteArray) : ByteArray :=
  if off + 4 ≤ inp.size then
    pushWord out (wordAt inp off ^^^ w)
  else
    let out := if off < inp.size then out.push (byteAt inp off ^^^ b0 w) else out
    let out := if off + 1 < inp.size then out.push (byteAt inp (off+1) ^^^ b1 w) else out
    let out := if off + 2 < inp.size then out.push (byteAt inp (off+2) ^^^ b2 w) else out
    out

/-- CTR keystream XOR: `n` blocks from offset `off`, counter block `(j0,j1,j2,ctr)`, inc32 -/
def ctrLoop (k : Key) (j0 j1 j2 : UInt32) (inp : ByteArray) :
    Nat → Nat → UInt32 → ByteArray → ByteArray
  | 0, _, _, out => out
  | n+1, off, ctr, out =>
    let ks := encWords k j0 j1 j2 ctr
    let out := xorWord inp off ks.a out
    let out := xorWord inp (off+4) ks.b out
    let out := xorWord inp (off+8) ks.c out
    let out := xorWord inp (off+12) ks.d out
    ctrLoop k j0 j1 j2 inp n (off + 16) (ctr + 1) out

def ctrXor (k : Key) (j : W4) (inp : ByteArray) : ByteArray :=
  ctrLoop k j.a j.b j.c inp ((inp.size + 15) / 16) 0 (j.d + 1) (ByteArray.emptyWithCapacity (inp.size + 16))

/-! ## GCM -/

@[inline] def lenBlock (a c : Nat) : U128 := ⟨UInt64.ofNat (8 * a), UInt64.ofNat (8 * c)⟩

/-- pre-counter block J0 (SP 800-38D §7.1 step 2); 96-bit nonces take the fast path -/
def j0Block (h : U128) (nonce : ByteArray) : W4 :=
  if nonce.size == 12 then ⟨wordAt nonce 0, wordAt nonce 4, wordAt nonce 8, 1⟩
  else
    let y := ghashBytes h ⟨0, 0⟩ nonce
    let y := gmul ⟨y.hi, y.lo ^^^ UInt64.ofNat (8 * nonce.size)⟩ h
    ⟨(y.hi >>> 32).toUInt32, y.hi.toUInt32, (y.lo >>> 32).toUInt32, y.lo.toUInt32⟩

/-- authentication tag over `aad` and ciphertext `ct` -/
def gcmTag (k : Key) (h : U128) (j : W4) (aad ct : ByteArray) : W4 :=
  let y := ghashBytes h ⟨0, 0⟩ aad
  let y := ghashBytes h y ct
  let l := lenBlock aad.size ct.size
  let s := gmul ⟨y.hi ^^^ l.hi, y.lo ^^^ l.lo⟩ h
  let e := encWords k j.a j.b j.c j.d
  ⟨(s.hi >>> 32).toUInt32 ^^^ e.a, s.hi.toUInt32 ^^^ e.b,
   (s.lo >>> 32).toUInt32 ^^^ e.c, s.lo.toUInt32 ^^^ e.d⟩

@[inline] def hashKey (k : Key) : U128 :=
  let e := encWords k 0 0 0 0
  ⟨(e.a.toUInt64 <<< 32) ||| e.b.toUInt64, (e.c.toUInt64 <<< 32) ||| e.d.toUInt64⟩

/-- AES-GCM authenticated encryption: `ciphertext ‖ tag(16)`.
    Key must be 16 or 32 bytes (otherwise the result is `[]`).  The nonce is normally
    12 bytes (`J0 = nonce ‖ 00000001`); other lengths use the GHASH derivation of SP 800-38D. -/
def gcmSeal (key nonce aad pt : Bytes) : Bytes :=
  let k := expandKey key.toByteArray
  if k.nr == 0 then [] else
  let h := hashKey k
  let j := j0Block h nonce.toByteArray
  let ct := ctrXor k j pt.toByteArray
  let t := gcmTag k h j aad.toByteArray ct
  (pushWord (pushWord (pushWord (pushWord ct t.a) t.b) t.c) t.d).toList

/-- AES-GCM authenticated decryption of `ciphertext ‖ tag(16)`; `none` if the input is shorter
    than a tag, the key length is unsupported, or the tag does not verify. -/
def gcmOpen (key nonce aad ct : Bytes) : Option Bytes :=
  let k := expandKey key.toByteArray
  if k.nr == 0 || ct.length < 16 then none else
  let n := ct.length - 16
  let body := (ct.take n).toByteArray
  let tag := ct.drop n
  let h := hashKey k
  let j := j0Block h nonce.toByteArray
  let t := gcmTag k h j aad.toByteArray body
  if w4Bytes t == tag then some (ctrXor k j body).toList else none

end Octo.Crypto.Aes
