import Octo.Model.Addr
/-!
  Call-level view of a `tokio_util::codec::Decoder` and the two adapters the repo puts on top:
  `tokio_util::codec::FramedRead` (source as locked: tokio-util 0.7.19, `framed_impl.rs`) and the
  hand-written `WebSocketFramed` of `octo-squirrel/src/codec.rs`.
-/
namespace Octo

inductive ItemKind where
  | data        -- client side `BytesMut`, server side `InboundIn::RelayTcp`
  | connect     -- `InboundIn::ConnectTcp(data, addr)`
  | udp         -- `InboundIn::RelayUdp(data, addr)` / a `DatagramPacket`
deriving Repr, DecidableEq

structure Item where
  kind : ItemKind
  data : Bytes
  addr : Option Addr := none
deriving Repr, DecidableEq

/-- result of one `Decoder::decode(&mut self, &mut BytesMut)` call: new state, new buffer, outcome -/
structure Call (σ : Type) where
  st : σ
  buf : Bytes
  res : Res Item

inductive FrEv where
  | item (i : Item)
  | err
  | panic
  | ended          -- the stream returned `None`
  | spin           -- fuel exhausted: `decode` keeps returning items without consuming (never on real codecs)
deriving Repr, DecidableEq

structure FrSt (σ : Type) where
  st : σ
  buf : Bytes := []
  ended : Bool := false

variable {σ : Type}

/-- `FramedRead::poll_next` called repeatedly after new bytes were read, until it returns `Pending`
or `None`: decode while `is_readable`; an `Err` is yielded and the next poll yields `None`. -/
def frLoop (decode : σ → Bytes → Call σ) : Nat → FrSt σ → FrSt σ × List FrEv
  | 0, f => (f, [.spin])
  | fuel+1, f =>
    let c := decode f.st f.buf
    match c.res with
    | .ok i =>
      let (f', evs) := frLoop decode fuel { f with st := c.st, buf := c.buf }
      (f', .item i :: evs)
    | .more => ({ f with st := c.st, buf := c.buf }, [])
    | .err => ({ st := c.st, buf := c.buf, ended := true }, [.err, .ended])
    | .panic => ({ st := c.st, buf := c.buf, ended := true }, [.panic])

def frFeed (decode : σ → Bytes → Call σ) (f : FrSt σ) (piece : Bytes) : FrSt σ × List FrEv :=
  if f.ended then (f, []) else
  frLoop decode (f.buf.length + piece.length + 2) { f with buf := f.buf ++ piece }

/-- the read returned 0 bytes: `decode_eof` (default implementation: `decode`, then an error if
bytes are left over) until it returns `None`, then the stream ends -/
def frEofLoop (decode : σ → Bytes → Call σ) : Nat → FrSt σ → FrSt σ × List FrEv
  | 0, f => (f, [.spin])
  | fuel+1, f =>
    let c := decode f.st f.buf
    match c.res with
    | .ok i =>
      let (f', evs) := frEofLoop decode fuel { f with st := c.st, buf := c.buf }
      (f', .item i :: evs)
    | .more =>
      if c.buf.isEmpty then ({ st := c.st, buf := c.buf, ended := true }, [.ended])
      else ({ st := c.st, buf := c.buf, ended := true }, [.err, .ended])
    | .err => ({ st := c.st, buf := c.buf, ended := true }, [.err, .ended])
    | .panic => ({ st := c.st, buf := c.buf, ended := true }, [.panic])

def frEof (decode : σ → Bytes → Call σ) (f : FrSt σ) : FrSt σ × List FrEv :=
  if f.ended then (f, []) else frEofLoop decode (f.buf.length + 2) f

/-- `WebSocketFramed::poll_next` after one binary message arrived, polled until `Pending`: the
payload is appended to what was kept, every complete frame is decoded (not only the first), an
`Err` is yielded once and ends the stream -/
def wsMsg (decode : σ → Bytes → Call σ) (f : FrSt σ) (msg : Bytes) : FrSt σ × List FrEv :=
  if f.ended then (f, []) else
  frLoop decode (f.buf.length + msg.length + 2) { f with buf := f.buf ++ msg }

/-- the WebSocket connection closed: the stream ends, whatever is buffered is dropped -/
def wsEof (f : FrSt σ) : FrSt σ × List FrEv :=
  if f.ended then (f, []) else ({ f with ended := true }, [.ended])

end Octo
