import Octo.Model.SsConfig
import Octo.Model.PacketWindow
/-!
  Model of the Shadowsocks UDP codecs: `codec/shadowsocks/udp.rs` (`AEADCipherCodec::{encode,
  decode}` for legacy and 2022 ciphers, both directions), `aead_2022/udp.rs` (cipher selection,
  AES header block, identity headers) and the client's `DatagramPacketCodec`
  (`client/shadowsocks.rs`).  Randomness (salt, nonce, padding) and the clock are inputs.
-/
namespace Octo.SsUdp
open Octo.Ss

/-- XChaCha variant of a 2022 ChaCha kind; `none` for the AES kinds (no nonce on the wire) -/
def xAlg : Kind → Option Alg
  | .b3chacha8 => some .xchacha8
  | .b3chacha20 => some .xchacha20
  | _ => none

def nonceLen (k : Kind) : Nat := if (xAlg k).isSome then 24 else 0

/-- `udp::new_cipher` for the AES kinds: AES-GCM under the session sub-key of (key, session id) -/
def aesSessionKey (C : Crypto) (k : Kind) (key : Bytes) (sessionId : Nat) : Bytes :=
  (C.blake3Derive sessionSubkeyCtx (key ++ be64 sessionId)).take k.alg.keyLen

structure Session where
  clientSessionId : Nat := 0
  serverSessionId : Nat := 0
  packetId : Nat := 0
  user : Option User := none
deriving Repr, DecidableEq

structure Rand where
  salt : Bytes := []       -- legacy: N random bytes
  nonce : Bytes := []      -- 2022 ChaCha: 24 random bytes
  padding : Bytes := []    -- 2022: padding bytes (length = padding length)
  now : Nat := 0

/-- `aead_2022::udp::with_eih`: header i = AES_{ipsk_i}( BLAKE3(next key)[..16] XOR (session id ‖ packet id) ) -/
def withEih (C : Crypto) (key sidPid : Bytes) : List Bytes → Bytes
  | [] => []
  | [ipsk] => C.aesEnc ipsk (xorBytes ((C.blake3Hash key).take 16) sidPid)
  | ipsk :: next :: rest => C.aesEnc ipsk (xorBytes ((C.blake3Hash next).take 16) sidPid) ++ withEih C key sidPid (next :: rest)

/-- `AEADCipherCodec::encode` -/
def encode (C : Crypto) (ctx : Ctx) (mode : Mode) (s : Session) (addr : Addr) (item : Bytes) (r : Rand) : Bytes :=
  let k := ctx.kind
  if ¬ k.is2022 then
    -- salt ‖ AEAD(sub-key(salt), nonce 0, address ‖ payload)
    let a := newAuth C k ctx.key r.salt
    r.salt ++ (a.sealB C (Socks5Addr.encode addr ++ item)).1
  else
  match mode with
  | .client =>
    let sidPid := be64 s.clientSessionId ++ be64 s.packetId
    let requireEih := k.supportEih ∧ ctx.identityKeys ≠ []
    let body := [Mode.client.toU8] ++ be64 r.now ++ be16 r.padding.length ++ r.padding ++ Socks5Addr.encode addr ++ item
    match xAlg k with
    | none =>
      let hk := match ctx.identityKeys with
        | [] => ctx.key
        | ik :: _ => ik
      C.aesEnc hk sidPid ++ (if requireEih then withEih C ctx.key sidPid ctx.identityKeys else []) ++
        C.sealB k.alg (aesSessionKey C k ctx.key s.clientSessionId) (sidPid.drop 4) [] body
    | some xa => r.nonce ++ C.sealB xa (ctx.key.take 32) r.nonce [] (sidPid ++ body)
  | .server =>
    let sidPid := be64 s.serverSessionId ++ be64 s.packetId
    let body := [Mode.server.toU8] ++ be64 r.now ++ be64 s.clientSessionId ++ be16 r.padding.length ++ r.padding ++
      Socks5Addr.encode addr ++ item
    match xAlg k with
    | none =>
      let key := match s.user with
        | some u => u.key
        | none => ctx.key
      C.aesEnc key sidPid ++ C.sealB k.alg (aesSessionKey C k key s.serverSessionId) (sidPid.drop 4) [] body
    | some xa => r.nonce ++ C.sealB xa (ctx.key.take 32) r.nonce [] (sidPid ++ body)

/-- `AEADCipherCodec::decode` (the whole datagram); `mode` = who is decoding -/
def decode (C : Crypto) (ctx : Ctx) (mode : Mode) (now : Nat) (b : Bytes) : Res (Bytes × Addr × Session) :=
  let k := ctx.kind
  if ¬ k.is2022 then
    if b.length < k.n then .err else
    let a := newAuth C k ctx.key (b.take k.n)
    match (a.openB C (b.drop k.n)).1 with
    | none => .err
    | some p =>
      match Socks5Addr.decode p with
      | .ok (addr, rest) => .ok (rest, addr, {})
      | .panic => .panic
      | _ => .err
  else
  let nl := nonceLen k
  let requireEih := mode = .server ∧ k.supportEih ∧ ctx.users.length > 0
  let eihLen := if requireEih then 16 else 0
  let headerLen := nl + 16 + 8 + 8 + (if mode = .server then eihLen else 8) + 1 + 8 + 2
  if b.length < headerLen then .err else
  -- (session id, packet id, plaintext after them, user)
  let opened : Option (Nat × Nat × Bytes × Option User) :=
    match xAlg k with
    | none =>
      let hdr := C.aesDec ctx.key (b.take 16)
      let sid := rdBE (hdr.take 8)
      let pid := rdBE (hdr.drop 8)
      let rest := b.drop 16
      if requireEih then
        let h := xorBytes (C.aesDec ctx.key (rest.take 16)) hdr
        match findUser ctx.users h with
        | none => none
        | some u =>
          (C.openB k.alg (aesSessionKey C k u.key sid) (hdr.drop 4) [] (rest.drop 16)).map fun p => (sid, pid, p, some u)
      else
        (C.openB k.alg (aesSessionKey C k ctx.key sid) (hdr.drop 4) [] rest).map fun p => (sid, pid, p, none)
    | some xa =>
      (C.openB xa (ctx.key.take 32) (b.take 24) [] (b.drop 24)).map fun p =>
        (rdBE (p.take 8), rdBE ((p.drop 8).take 8), p.drop 16, none)
  match opened with
  | none => .err
  | some (sid, pid, p, user) =>
    -- type ‖ timestamp ‖ [client session id] ‖ padding length ‖ padding ‖ address ‖ payload
    if p.headD 0 ≠ mode.expectU8 then .err else
    if absDiff now (rdBE ((p.drop 1).take 8)) > Consts.ssMaxTimeDiff then .err else
    let (csid, p) := if mode = .client then (rdBE ((p.drop 9).take 8), p.drop 17) else (sid, p.drop 9)
    let pl := rdBE (p.take 2)
    if p.length < 2 + pl then .err else
    match Socks5Addr.decode (p.drop (2 + pl)) with
    | .ok (addr, rest) =>
      .ok (rest, addr, if mode = .client then ⟨csid, sid, pid, none⟩ else ⟨sid, 0, pid, user⟩)
    | .panic => .panic
    | _ => .err

/-- `SessionCodec::decode` (server side): an empty datagram is nothing (`Ok(None)`), anything else is decoded whole -/
def sessionDecode (C : Crypto) (ctx : Ctx) (mode : Mode) (now : Nat) (b : Bytes) : Res (Option (Bytes × Addr × Session)) :=
  if b.isEmpty then .ok none else
  match decode C ctx mode now b with
  | .ok x => .ok (some x)
  | .more => .more
  | .panic => .panic
  | .err => .err

/-! ### the client's per-binding codec -/

/-- `DatagramPacketCodec`: own session (ids), the anti-replay window for server packets -/
structure ClientCodec where
  session : Session
  filter : PW.Filter := PW.Filter.new

/-- `DatagramPacketCodec::encode`: step the packet id (the session ends rather than wrap), encode -/
def ClientCodec.encode (C : Crypto) (ctx : Ctx) (cc : ClientCodec) (addr : Addr) (item : Bytes) (r : Rand) :
    Res Bytes × ClientCodec :=
  if cc.session.packetId + 1 ≥ 2 ^ 64 then (.err, cc) else
  let s := { cc.session with packetId := cc.session.packetId + 1 }
  (.ok (SsUdp.encode C ctx .client s addr item r), { cc with session := s })

/-- `DatagramPacketCodec::decode`: a packet of a 2022 cipher must belong to this client session and
carry a fresh packet id, otherwise it is dropped (`Ok(None)`); legacy packets carry no ids -/
def ClientCodec.decode (C : Crypto) (ctx : Ctx) (cc : ClientCodec) (now : Nat) (b : Bytes) :
    Res (Option (Bytes × Addr)) × ClientCodec :=
  if b.isEmpty then (.ok none, cc) else
  match SsUdp.decode C ctx .client now b with
  | .ok (p, addr, s) =>
    if ¬ ctx.kind.is2022 then (.ok (some (p, addr)), cc) else
    if s.clientSessionId ≠ cc.session.clientSessionId then (.ok none, cc) else
    let (f, fresh) := cc.filter.validate s.packetId (2 ^ 64 - 1)
    if ¬ fresh then (.ok none, { cc with filter := f })
    else (.ok (some (p, addr)), { session := { cc.session with serverSessionId := s.serverSessionId }, filter := f })
  | .panic => (.panic, cc)
  | _ => (.err, cc)

/-- recover what the implementation drew at random (and its ids) from a packet it encoded; `mode` =
who encoded.  Returns the session as seen on the wire and the randomness. -/
def recover (C : Crypto) (ctx : Ctx) (mode : Mode) (user : Option User) (w : Bytes) : Session × Rand :=
  let k := ctx.kind
  if ¬ k.is2022 then ({}, { salt := w.take k.n }) else
  let parse (sid pid : Nat) (body : Bytes) (nonce : Bytes) : Session × Rand :=
    let ts := rdBE ((body.drop 1).take 8)
    let (csid, rest) := if mode = .server then (rdBE ((body.drop 9).take 8), body.drop 17) else (sid, body.drop 9)
    let pl := rdBE (rest.take 2)
    let s : Session := if mode = .server then ⟨csid, sid, pid, user⟩ else ⟨sid, 0, pid, none⟩
    (s, { nonce := nonce, padding := (rest.drop 2).take pl, now := ts })
  match xAlg k with
  | none =>
    let hk := match mode, ctx.identityKeys, user with
      | .client, ik :: _, _ => ik
      | .server, _, some u => u.key
      | _, _, _ => ctx.key
    let bodyKey := match mode, user with
      | .server, some u => u.key
      | _, _ => ctx.key
    let hdr := C.aesDec hk (w.take 16)
    let sid := rdBE (hdr.take 8)
    let pid := rdBE (hdr.drop 8)
    let eihLen := if mode = .client ∧ k.supportEih ∧ ctx.identityKeys ≠ [] then 16 * ctx.identityKeys.length else 0
    match C.openB k.alg (aesSessionKey C k bodyKey sid) (hdr.drop 4) [] (w.drop (16 + eihLen)) with
    | some body => parse sid pid body []
    | none => (⟨sid, 0, pid, none⟩, {})
  | some xa =>
    match C.openB xa (ctx.key.take 32) (w.take 24) [] (w.drop 24) with
    | some p => parse (rdBE (p.take 8)) (rdBE ((p.drop 8).take 8)) (p.drop 16) (w.take 24)
    | none => ({}, { nonce := w.take 24 })

end Octo.SsUdp
