import Octo.Gen.Consts
/-!
  Model of `octo-squirrel/src/manager/packet_window.rs` (`PacketWindowFilter`), the Rust
  arithmetic verbatim over `Nat` (every intermediate value is < 2^64 + 128 when ids are u64, so
  no u64 operation of the Rust wraps; `index_block - current` is only evaluated when
  `packet_id > last_packet_id`, `last - id` only when `id ≤ last`).
  Constants come from the generated `Octo.Consts` (re-extracted from the source on every run).
-/
namespace Octo.PW

def blockBits : Nat := 1 <<< Consts.blockBitLog          -- BLOCK_BITS
def ringBlocks : Nat := 1 <<< Consts.ringBlocksLog       -- RING_BLOCKS
def windowSize : Nat := (ringBlocks - 1) * blockBits     -- WINDOW_SIZE
def blockMask : Nat := ringBlocks - 1
def bitMask : Nat := blockBits - 1

structure Filter where
  last : Nat
  ring : Array Nat
deriving Repr

def Filter.new : Filter := { last := 0, ring := Array.replicate ringBlocks 0 }

/-- the `for d in 1..=diff { ring[(current + d) & BLOCK_MASK] = 0 }` loop -/
def clearBlocks (ring : Array Nat) (current : Nat) : Nat → Array Nat
  | 0 => ring
  | d+1 => (clearBlocks ring current d).setIfInBounds ((current + (d+1)) &&& blockMask) 0

/-- "Move the window forward" -/
def Filter.advance (f : Filter) (id : Nat) : Filter :=
  let current := f.last >>> Consts.blockBitLog
  let diff := (id >>> Consts.blockBitLog) - current
  let diff := if diff > ringBlocks then ringBlocks else diff
  { last := id, ring := clearBlocks f.ring current diff }

/-- "Check and set bit" -/
def Filter.mark (f : Filter) (id : Nat) : Filter × Bool :=
  let ib := (id >>> Consts.blockBitLog) &&& blockMask
  let old := f.ring.getD ib 0
  let new := old ||| (1 <<< (id &&& bitMask))
  ({ f with ring := f.ring.setIfInBounds ib new }, old != new)

/-- `validate_packet_id(&mut self, packet_id, limit) -> bool` -/
def Filter.validate (f : Filter) (id limit : Nat) : Filter × Bool :=
  if id ≥ limit then (f, false)
  else if id > f.last then (f.advance id).mark id
  else if f.last - id > windowSize then (f, false)
  else f.mark id

/-- a whole history of ids: the booleans returned -/
def runImpl (limit : Nat) : Filter → List Nat → List Bool
  | _, [] => []
  | f, id :: ids => (f.validate id limit).2 :: runImpl limit (f.validate id limit).1 ids

end Octo.PW
