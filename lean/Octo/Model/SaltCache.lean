import Octo.Base.Bytes
import Octo.Gen.Consts
/-!
  Model of the replay cache of `codec/shadowsocks/tcp.rs::Context` — an
  `lru_time_cache::LruCache<[u8; N], ()>` (crate source as locked, 0.11.11) behind a `Mutex`:
  an entry is live while `touch + ttl ≥ now`; `get` removes expired entries and touches the one it
  finds; `insert` removes expired entries, then (for a new key) evicts least-recently-used entries
  while `len ≥ capacity`, then appends.  Time is in milliseconds (`Instant`), the protocol
  timestamps in whole seconds.
-/
namespace Octo.SaltCache

structure Entry where
  key : Bytes
  touch : Nat
deriving Repr, DecidableEq

/-- least recently used first -/
abbrev Cache := List Entry

def live (ttl now : Nat) (e : Entry) : Bool := decide (now ≤ e.touch + ttl)

def expire (ttl now : Nat) (c : Cache) : Cache := c.filter (live ttl now)

/-- `LruCache::get`: (found?, cache after) -/
def get (ttl now : Nat) (c : Cache) (k : Bytes) : Bool × Cache :=
  let c := expire ttl now c
  if c.any (fun e => e.key = k) then (true, c.filter (fun e => e.key ≠ k) ++ [⟨k, now⟩]) else (false, c)

/-- `LruCache::insert`: (was already present?, cache after) -/
def insert (ttl cap now : Nat) (c : Cache) (k : Bytes) : Bool × Cache :=
  let c := expire ttl now c
  if c.any (fun e => e.key = k) then (true, c.filter (fun e => e.key ≠ k) ++ [⟨k, now⟩])
  else (false, (if c.length ≥ cap then c.drop (c.length - cap + 1) else c) ++ [⟨k, now⟩])

def absDiff (a b : Nat) : Nat := if a ≤ b then b - a else a - b

/-- one presentation of a (valid, well-typed) request carrying `salt` and timestamp `ts` at time
`nowMs`: the decision of `init_aead_2022_payload_decoder` as far as time and replay are concerned —
`check_nonce` (runs first, and touches), timestamp window, then `set_nonce` (an atomic
check-and-insert) -/
def present (maxDiff ttlMs cap : Nat) (c : Cache) (nowMs : Nat) (salt : Bytes) (ts : Nat) : Bool × Cache :=
  if (get ttlMs nowMs c salt).1 then (false, (get ttlMs nowMs c salt).2) else
  if absDiff (nowMs / 1000) ts > maxDiff then (false, (get ttlMs nowMs c salt).2) else
  (!(insert ttlMs cap nowMs (get ttlMs nowMs c salt).2 salt).1, (insert ttlMs cap nowMs (get ttlMs nowMs c salt).2 salt).2)

/-- a history of presentations (time, salt, timestamp), times non-decreasing -/
def run (maxDiff ttlMs cap : Nat) : Cache → List (Nat × Bytes × Nat) → List Bool
  | _, [] => []
  | c, (t, s, ts) :: rest =>
    let (r, c') := present maxDiff ttlMs cap c t s ts
    r :: run maxDiff ttlMs cap c' rest

end Octo.SaltCache
