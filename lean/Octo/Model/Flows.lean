/-!
  Skeletons of the per-flow relay functions, as extracted from the Rust sources by `bin/translate_flows.py` (generated
  values: `Octo/Gen/FlowsGen.lean`), and a small semantics of what they are made of: stream adaptors, `StreamExt::forward`
  (futures-util 0.3), `tokio::try_join!`.

  `forward`: the items of the source are fed to the sink in order; when the source ENDS the sink is flushed and closed and
  `forward` returns `Ok`; when the source yields an `Err` item `forward` returns that error at once, WITHOUT flushing or
  closing the sink.  `try_join!` returns as soon as one of its futures returns `Err`, or when all have returned.
-/
namespace Octo.Flows

inductive FKind where
  | await_ | question | return_ | loop_ | join_
deriving Repr, DecidableEq

structure FSite where
  line : Nat
  kind : FKind
  op : String
  text : String
  /-- number of `{..}` groups between the function body and the site (0 = the function's own straight line) -/
  depth : Nat
  /-- `question`: the expression contains no `.await` (it cannot fail because of what a peer does later) -/
  awaitFree : Bool
deriving Repr, DecidableEq

/-- stream adaptors, classified by shape (rules in the header of the generated file) -/
inductive Adaptor where
  | dropErr        -- `filter_map(|r| ready(r.ok()))`: `Err` items are skipped
  | endOnErr       -- `take_while(|r| ready(r.is_ok()))` / `map_while(|r| ready(r.ok()))`: the first `Err` ends the stream
  | wrapOk         -- `map(Ok)`
  | mapInfallible  -- `map(T::into)`
  | mapFallible    -- `map(T::try_into)`: an item that does not convert becomes `Err`
  | thenPassErr    -- `then(|r| async { match r { Ok(m) => Ok(f(m).await), Err(e) => Err(e) } })`
  | other          -- anything else
deriving Repr, DecidableEq

structure Pump where
  line : Nat
  /-- the `let NAME = async { .. }` the pump lives in -/
  future : String
  source : String
  sink : String
  /-- where the chain starts: a parameter, or a half of `.split()` -/
  base : String
  /-- adaptors between the base and `forward`, base first -/
  chain : List Adaptor
  chainText : List String
  /-- the `Ok(_)` arm of the match on `forward(..).await` produces `Err(..)` -/
  okArmErr : Bool
  /-- the `Err(e)` arm produces `Err(..)` -/
  errArmErr : Bool
  okArm : String
  errArm : String
deriving Repr, DecidableEq

inductive JoinKind where
  | tryJoin | join | select | none
deriving Repr, DecidableEq

/-- an arm of a fork that does not go on to relay: the flow ends there -/
structure TerminalArm where
  line : Nat
  scrutinee : String
  pattern : String
  /-- `.await`s inside the arm -/
  awaits : Nat
  /-- `loop` / `while` / `for` inside the arm -/
  loops : Nat
  /-- `.await`s between the end of the outermost fork around the arm and the end of the function -/
  awaitsAfter : Nat
  text : String
deriving Repr, DecidableEq

/-- an adapted stream handed to another relay function -/
structure HandOver where
  line : Nat
  callee : String
  position : Nat
  name : String
  base : String
  chain : List Adaptor
  chainText : List String
deriving Repr, DecidableEq

structure Flow where
  name : String
  file : String
  fn : String
  line : Nat
  sites : List FSite
  pumps : List Pump
  join : JoinKind
  joined : List String
  handOvers : List HandOver
  terminalArms : List TerminalArm
deriving Repr, DecidableEq

/-! ## streams and adaptors -/

/-- what a stream yields: a decoded item (with: does it convert into the outbound item type), an error of the source itself
    (transport reset, decode failure), or an error made by a conversion -/
inductive Item where
  | ok (payload : Nat) (converts : Bool)
  | srcErr
  | convErr
deriving Repr, DecidableEq

def Item.isOk : Item → Bool
  | .ok _ _ => true
  | _ => false

def Item.converts : Item → Bool
  | .ok _ c => c
  | _ => true

/-- everything a stream yields before it ends (a transport that fails yields its error and ends) -/
abbrev Script := List Item

def payloads : Script → List Nat
  | [] => []
  | .ok p _ :: r => p :: payloads r
  | _ :: r => payloads r

def Adaptor.apply : Adaptor → Script → Script
  | .dropErr, s => s.filter Item.isOk
  | .endOnErr, s => s.takeWhile Item.isOk
  | .wrapOk, s => s
  | .mapInfallible, s => s
  | .thenPassErr, s => s
  | .mapFallible, s => s.map (fun i => match i with | .ok _ false => .convErr | x => x)
  | .other, s => s

def applyChain : List Adaptor → Script → Script
  | [], s => s
  | a :: r, s => applyChain r (a.apply s)

/-! ## forward -/

structure Fwd where
  /-- payloads fed to the sink, in order -/
  fed : List Nat
  /-- the sink was flushed and closed (the other side sees everything fed, then end-of-stream) -/
  flushedClosed : Bool
deriving Repr, DecidableEq

def forward : Script → Fwd
  | [] => ⟨[], true⟩                      -- the source ended: flush, close, `Ok`
  | .ok p _ :: r => let f := forward r; ⟨p :: f.fed, f.flushedClosed⟩
  | _ :: _ => ⟨[], false⟩                 -- an `Err` item: returned at once, no flush, no close

/-! ## (a) errors of the source are dropped in front of `forward` -/

/-- `b` = the stream in front is known to be free of `Err` items.  `strict`: conversion errors count too. -/
def errFree (strict : Bool) : Bool → List Adaptor → Bool
  | b, [] => b
  | _, .dropErr :: r => errFree strict true r
  | _, .endOnErr :: r => errFree strict true r
  | b, .wrapOk :: r => errFree strict b r
  | b, .mapInfallible :: r => errFree strict b r
  | b, .thenPassErr :: r => errFree strict b r
  | b, .mapFallible :: r => errFree strict (if strict then false else b) r
  | _, .other :: _ => false

/-- every error of the SOURCE is skipped / turned into end-of-stream before `forward` sees it -/
def Pump.errorsDropped (p : Pump) : Bool := errFree false false p.chain
/-- .. and no adaptor behind that point makes new ones -/
def Pump.noNewErrors (p : Pump) : Bool := errFree true false p.chain
/-- no adaptor of the chain loses items: what the source decoded is what `forward` is given -/
def lossless (c : List Adaptor) : Bool :=
  c.all (fun a => a == .dropErr || a == .wrapOk || a == .mapInfallible || a == .thenPassErr || a == .mapFallible)

def Flow.errorsDropped (f : Flow) : Bool := f.pumps.all Pump.errorsDropped
def pumpsWithoutDrop (f : Flow) : List Pump := f.pumps.filter (fun p => !p.errorsDropped)

/-! ## (b) either pump's end ends both -/

inductive PumpState where
  | running | endedClean | endedErr
deriving Repr, DecidableEq

/-- what the pump's future returns to the join: `none` still running, `some true` an `Err(..)`, `some false` an `Ok(..)` -/
def Pump.returns (p : Pump) : PumpState → Option Bool
  | .running => none
  | .endedClean => some p.okArmErr
  | .endedErr => some p.errArmErr

def joinReturns : JoinKind → List (Option Bool) → Bool
  | .tryJoin, rs => rs.any (· == some true) || rs.all Option.isSome
  | .join, rs => rs.all Option.isSome
  | .select, rs => rs.any Option.isSome
  | .none, rs => rs.all Option.isSome

def Flow.eitherEndsBoth (f : Flow) : Bool :=
  f.join == .tryJoin && f.pumps.all (fun p => p.okArmErr && p.errArmErr) &&
    f.pumps.all (fun p => f.joined.contains p.future) && f.pumps.length == f.joined.length

/-- has the join returned (and with it the function: every half of the flow is dropped), given where each pump is -/
def Flow.joinDone (f : Flow) (states : List PumpState) : Bool :=
  joinReturns f.join (List.zipWith Pump.returns f.pumps states)

/-! ## (c) terminal arms return at once -/

def TerminalArm.prompt (a : TerminalArm) : Bool := a.awaits == 0 && a.loops == 0 && a.awaitsAfter == 0
def Flow.promptFailure (f : Flow) : Bool := f.terminalArms.all TerminalArm.prompt
def slowArms (f : Flow) : List TerminalArm := f.terminalArms.filter (fun a => !a.prompt)

/-- time until the function has returned from a terminal arm, when suspension point `k` (an await, or a loop - one round
    of it) takes `delay k` -/
def TerminalArm.elapsed (a : TerminalArm) (delay : Nat → Nat) : Nat :=
  ((List.range (a.awaits + a.loops + a.awaitsAfter)).map delay).sum

/-! ## (d) quic: the stream is closed (finish + wait for delivery) on every path after the relay -/

def FSite.isRelayTo (s : FSite) : Bool := s.kind == .await_ && s.op == "relay_to" && s.depth == 0
def FSite.isClose (s : FSite) : Bool := s.kind == .await_ && s.op == "close" && s.depth == 0

/-- the sites after the (unconditional) `relay_to(..).await` -/
def afterRelay (f : Flow) : List FSite := (f.sites.dropWhile (fun s => !s.isRelayTo)).drop 1

/-- between `relay_to(..).await` and `close().await` (both in the function's straight line) there is nothing but `?` on
    await-free expressions -/
def closeAfterRelay (f : Flow) : Bool :=
  f.sites.any FSite.isRelayTo &&
  (afterRelay f).any FSite.isClose &&
  ((afterRelay f).takeWhile (fun s => !s.isClose)).all (fun s => s.kind == .question && s.awaitFree && s.depth == 0)

/-- straight-line execution of sites: `fails k` = the `?` at position `k` meets `Err` -/
def reachesClose (fails : Nat → Bool) : Nat → List FSite → Bool
  | _, [] => false
  | k, s :: r =>
    if s.isClose then true
    else if s.kind == .return_ then false
    else if s.kind == .question && fails k then false
    else reachesClose fails (k + 1) r

end Octo.Flows
