import Octo.Model.Crypto
import Octo.Model.Addr
import Octo.Model.Stream
/-!
  Model of the Trojan codecs: `client/trojan.rs` (`tcp::ClientCodec`, `udp::ClientCodec`) and
  `server/trojan.rs` (`ServerCodec`).
-/
namespace Octo.Trojan

def crlf : Bytes := [13, 10]

/-- 56 lower-case hex characters of SHA-224(password) -/
def keyHex (C : Crypto) (password : Bytes) : Bytes := hexBytes (C.sha224 password)

/-- request header: key, CRLF, command, address, CRLF -/
def header (C : Crypto) (password : Bytes) (cmd : Nat) (addr : Addr) : Bytes :=
  keyHex C password ++ crlf ++ [u8 cmd] ++ Socks5Addr.encode addr ++ crlf

/-- one datagram frame: address, length, CRLF, payload -/
def packet (addr : Addr) (payload : Bytes) : Bytes :=
  Socks5Addr.encode addr ++ be16 (payload.length % 65536) ++ crlf ++ payload

structure ClientEnc where
  headerSent : Bool := false
deriving Repr, DecidableEq

/-- `tcp::ClientCodec::encode` -/
def clientEncodeTcp (C : Crypto) (password : Bytes) (addr : Addr) (e : ClientEnc) (item : Bytes) : Bytes × ClientEnc :=
  ((if e.headerSent then [] else header C password 1 addr) ++ item, ⟨true⟩)

/-- `udp::ClientCodec::encode` -/
def clientEncodeUdp (C : Crypto) (password : Bytes) (addr : Addr) (e : ClientEnc) (item : Bytes) (to : Addr) : Bytes × ClientEnc :=
  ((if e.headerSent then [] else header C password 3 addr) ++ packet to item, ⟨true⟩)

/-- `decode_packet` (both sides, after the completeness fix): waits for the whole frame -/
def decodePacket (b : Bytes) : Res (Addr × Bytes × Bytes) :=
  if b.length < 2 then .more else
  match Socks5Addr.tryDecodeAt b 0 with
  | .ok al =>
    let hl := al + 2 + 2
    if b.length < hl then .more else
    let len := rdBE ((b.drop al).take 2)
    if b.length < hl + len then .more else
    match Socks5Addr.decode b with
    | .ok (a, rest) => .ok (a, (rest.drop 4).take len, rest.drop (4 + len))
    | .panic => .panic
    | _ => .err
  | .panic => .panic
  | _ => .err

/-- `tcp::ClientCodec::decode`: everything buffered is payload -/
def clientDecodeTcp (b : Bytes) : Call Unit :=
  if b.isEmpty then ⟨(), b, .more⟩ else ⟨(), [], .ok ⟨.data, b, none⟩⟩

/-- `udp::ClientCodec::decode` -/
def clientDecodeUdp (b : Bytes) : Call Unit :=
  if b.isEmpty then ⟨(), b, .more⟩ else
  match decodePacket b with
  | .ok (a, p, rest) => ⟨(), rest, .ok ⟨.udp, p, some a⟩⟩
  | .more => ⟨(), b, .more⟩
  | .panic => ⟨(), b, .panic⟩
  | .err => ⟨(), b, .err⟩

inductive SrvSt where
  | header | tcp | udp
deriving Repr, DecidableEq

/-- `ServerCodec::decode` -/
def serverDecode (C : Crypto) (password : Bytes) (st : SrvSt) (b : Bytes) : Call SrvSt :=
  if b.isEmpty then ⟨st, b, .more⟩ else
  let udpStep (st' : SrvSt) (b : Bytes) : Call SrvSt :=
    match decodePacket b with
    | .ok (a, p, rest) => ⟨st', rest, .ok ⟨.udp, p, some a⟩⟩
    | .more => ⟨st', b, .more⟩
    | .panic => ⟨st', b, .panic⟩
    | .err => ⟨st', b, .err⟩
  match st with
  | .tcp => ⟨.tcp, [], .ok ⟨.data, b, none⟩⟩
  | .udp => udpStep .udp b
  | .header =>
    if b.length < 61 then ⟨st, b, .more⟩ else
    match Socks5Addr.tryDecodeAt b 59 with
    | .ok al =>
      if b.length < 59 + al + 2 then ⟨st, b, .more⟩ else
      if b.getD 56 0 ≠ 13 then ⟨st, b, .err⟩ else
      if b.take 56 ≠ keyHex C password then ⟨st, b.drop 56, .err⟩ else
      let cmd := (b.getD 58 0).toNat
      if cmd ≠ 1 ∧ cmd ≠ 2 ∧ cmd ≠ 3 then ⟨st, b.drop 59, .err⟩ else
      match Socks5Addr.decode (b.drop 59) with
      | .ok (a, rest) =>
        let rest := rest.drop 2
        if cmd = 1 then ⟨.tcp, [], .ok ⟨.connect, rest, some a⟩⟩
        else if cmd = 3 then
          if rest.isEmpty then ⟨.udp, rest, .more⟩ else udpStep .udp rest
        else ⟨st, rest, .err⟩
      | .panic => ⟨st, b, .panic⟩
      | _ => ⟨st, b, .err⟩
    | .panic => ⟨st, b, .panic⟩
    | _ => ⟨st, b, .err⟩

/-- `ServerCodec::encode` -/
def serverEncodeTcp (item : Bytes) : Bytes := item
def serverEncodeUdp (item : Bytes) (from_ : Addr) : Bytes := packet from_ item

end Octo.Trojan
