import Octo.Model.Crypto
import Octo.Model.Framed
import Octo.Model.Addr
import Octo.Model.Nonce
import Octo.Model.Stream
import Octo.Gen.Consts
/-!
  Model of VMess AEAD: `protocol/vmess/aead/{kdf,auth_id,encrypt}.rs`, `protocol/vmess/{auth,session}.rs`,
  `codec/vmess/aead.rs` (`AEADBodyCodec`), `client/vmess.rs` (`ClientAEADCodec`) and
  `server/vmess.rs` (`ServerAeadCodec`).  Randomness and the clock are explicit inputs.
-/
namespace Octo.Vmess

def str (s : String) : Bytes := s.toUTF8.toList

/-- HMAC over an arbitrary hash with a 64-byte block (keys are ≤ 64 bytes here) -/
def hmacOver (h : Bytes → Bytes) (key msg : Bytes) : Bytes :=
  let k := key ++ zeros (64 - key.length)
  let ipad := k.map (· ^^^ (0x36 : UInt8))
  let opad := k.map (· ^^^ (0x5c : UInt8))
  h (opad ++ h (ipad ++ msg))

/-- the nested-HMAC hash of `kdf.rs`: level 0 is HMAC-SHA256 keyed with "VMess AEAD KDF", each path
element keys one more HMAC layer whose hash is the previous layer -/
def kdfHash (C : Crypto) : List Bytes → (Bytes → Bytes)
  | [] => hmacOver C.sha256 (str "VMess AEAD KDF")
  | p :: ps => hmacOver (kdfHash C ps) p

/-- `kdf(key, path)`; `path` in the order of the Rust `vec![…]` -/
def kdf (C : Crypto) (key : Bytes) (path : List Bytes) : Bytes := kdfHash C path.reverse key
def kdfn (C : Crypto) (n : Nat) (key : Bytes) (path : List Bytes) : Bytes :=
  let k := (kdf C key path).take n
  k ++ zeros (n - k.length)
def kdf16 (C : Crypto) (key : Bytes) (path : List Bytes) : Bytes := kdfn C 16 key path

def saltLengthKey := str "VMess Header AEAD Key_Length"
def saltLengthIv := str "VMess Header AEAD Nonce_Length"
def saltPayloadKey := str "VMess Header AEAD Key"
def saltPayloadIv := str "VMess Header AEAD Nonce"
def saltRespLenKey := str "AEAD Resp Header Len Key"
def saltRespLenIv := str "AEAD Resp Header Len IV"
def saltRespKey := str "AEAD Resp Header Key"
def saltRespIv := str "AEAD Resp Header IV"
def saltAuthId := str "AES Auth ID Encryption"
def saltAuthLen := str "auth_len"

/-- `id::from_uuid`: MD5(uuid bytes ‖ fixed salt) -/
def cmdKey (C : Crypto) (uuid : Bytes) : Bytes := C.md5 (uuid ++ str "c48619fe-8f02-49e0-b9e9-edf763e17e21")

/-- `auth_id::create` -/
def authIdCreate (C : Crypto) (key : Bytes) (time : Nat) (rand : Bytes) : Bytes :=
  let buf := be64 time ++ rand.take 4
  C.aesEnc (kdf16 C key [saltAuthId]) (buf ++ be32 (C.crc32 buf))

/-- signed 64-bit reading of 8 bytes -/
def i64 (b : Bytes) : Int :=
  let v := rdBE b
  if v < 2 ^ 63 then (v : Int) else (v : Int) - 2 ^ 64

/-- `auth_id::matching`: the first registered key under which the token decrypts with a valid CRC and
a timestamp within the window -/
def authIdMatch (C : Crypto) (authId : Bytes) (keys : List Bytes) (now : Nat) : Option Bytes :=
  keys.find? fun key =>
    let cur := C.aesDec (kdf16 C key [saltAuthId]) authId
    let t := i64 (cur.take 8)
    decide (rdBE (cur.drop 12) = C.crc32 (cur.take 12)) && decide ((t - (now : Int)).natAbs ≤ Consts.vmessAuthWindow)

/-- `encrypt::seal_header` -/
def sealHeader (C : Crypto) (key header authId connNonce : Bytes) : Bytes :=
  let lk := kdf16 C key [saltLengthKey, authId, connNonce]
  let li := kdfn C 12 key [saltLengthIv, authId, connNonce]
  let hk := kdf16 C key [saltPayloadKey, authId, connNonce]
  let hi := kdfn C 12 key [saltPayloadIv, authId, connNonce]
  authId ++ C.sealB .aes128gcm lk li authId (be16 header.length) ++ connNonce ++ C.sealB .aes128gcm hk hi authId header

/-- `encrypt::open_header`: `more` until the sealed header is complete; returns the opened header
and the number of bytes consumed -/
def openHeader (C : Crypto) (key src : Bytes) : Res (Bytes × Nat) :=
  if src.length < 16 + 18 + 8 + 16 then .more else
  let authId := src.take 16
  let lenEnc := (src.drop 16).take 18
  let nonce := (src.drop 34).take 8
  let lk := kdf16 C key [saltLengthKey, authId, nonce]
  let li := kdfn C 12 key [saltLengthIv, authId, nonce]
  match C.openB .aes128gcm lk li authId lenEnc with
  | none => .err
  | some lb =>
    let length := rdBE lb
    if src.length - 42 < length + 16 then .more else
    let hk := kdf16 C key [saltPayloadKey, authId, nonce]
    let hi := kdfn C 12 key [saltPayloadIv, authId, nonce]
    match C.openB .aes128gcm hk hi authId ((src.drop 42).take (length + 16)) with
    | none => .err
    | some h => .ok (h, 42 + length + 16)

/-! ### sessions and the body codec -/

structure Session where
  reqIv : Bytes
  reqKey : Bytes
  respHeader : UInt8
deriving Repr, DecidableEq

def Session.respIv (C : Crypto) (s : Session) : Bytes := (C.sha256 s.reqIv).take 16
def Session.respKey (C : Crypto) (s : Session) : Bytes := (C.sha256 s.reqKey).take 16

inductive Security where
  | aes128gcm | chacha20
deriving Repr, DecidableEq

/-- `SecurityType::from(u8)` followed by the cipher choice of `new_aead_cipher`: only 4 selects ChaCha -/
def Security.ofByte (b : Nat) : Security := if b = 4 then .chacha20 else .aes128gcm
def Security.toByte : Security → Nat
  | .aes128gcm => 3
  | .chacha20 => 4
def Security.alg : Security → Alg
  | .aes128gcm => .aes128gcm
  | .chacha20 => .chacha20

/-- `auth::generate_chacha20_poly1305_key` -/
def chachaKey (C : Crypto) (raw : Bytes) : Bytes :=
  let a := C.md5 raw
  a ++ C.md5 a

def cipherKey (C : Crypto) (sec : Security) (key : Bytes) : Bytes :=
  match sec with
  | .chacha20 => chachaKey C key
  | .aes128gcm => key.take 16

inductive SizeKind where
  | plain | auth | shake
deriving Repr, DecidableEq

/-- option mask bits -/
def optChunkStream := 1
def optChunkMasking := 4
def optGlobalPadding := 8
def optAuthLen := 16
def hasOpt (mask bit : Nat) : Bool := (mask / bit) % 2 = 1

inductive BodySt where
  | padding
  | length (pad : Nat)
  | body (pad len : Nat)
deriving Repr, DecidableEq

/-- `AEADBodyCodec` (one direction) -/
structure Body where
  sec : Security
  key : Bytes             -- payload cipher key
  iv : Bytes              -- 16-byte nonce base of the payload cipher
  count : Nat := 0        -- its `CountingNonceGenerator`
  size : SizeKind
  sizeKey : Bytes := []   -- auth-length cipher key
  sizeIv : Bytes := []    -- auth-length nonce base (`session.chunk_nonce()` = request IV)
  sizeCount : Nat := 0
  globalPadding : Bool
  shakeSeed : Bytes       -- the IV the `ShakeSizeParser` was created from
  shakePos : Nat := 0     -- number of u16 values read from the XOF so far
  st : BodySt := .padding
deriving Repr, DecidableEq

/-- `AEADBodyCodec::new`: `key`/`iv` are the direction's body key and IV; the size cipher always uses
the *request* key and IV (`chunk_key` / `chunk_nonce`) -/
def Body.new (C : Crypto) (mask : Nat) (sec : Security) (key iv : Bytes) (s : Session) : Body :=
  let size := if hasOpt mask optAuthLen then SizeKind.auth else if hasOpt mask optChunkMasking then .shake else .plain
  { sec := sec, key := cipherKey C sec key, iv := iv, size := size,
    sizeKey := cipherKey C sec (kdf16 C s.reqKey [saltAuthLen]), sizeIv := s.reqIv,
    globalPadding := hasOpt mask optGlobalPadding, shakeSeed := iv }

def shakeU16 (C : Crypto) (seed : Bytes) (pos : Nat) : Nat :=
  rdBE ((C.shake128 seed (2 * pos + 2)).drop (2 * pos))

def Body.sizeBytes (b : Body) : Nat := if b.size = .auth then 18 else 2

def Body.nextPadding (C : Crypto) (b : Body) : Nat × Body :=
  if b.globalPadding then (shakeU16 C b.shakeSeed b.shakePos % 64, { b with shakePos := b.shakePos + 1 })
  else (0, b)

/-- `encode_size` -/
def Body.encodeSize (C : Crypto) (b : Body) (size : Nat) : Bytes × Body :=
  match b.size with
  | .plain => (be16 size, b)
  | .auth =>
    (C.sealB b.sec.alg b.sizeKey (Nonce.counting b.sizeIv b.sizeCount 12) [] (be16 (size - 16)),
      { b with sizeCount := b.sizeCount + 1 })
  | .shake =>
    (be16 (Nat.xor (shakeU16 C b.shakeSeed b.shakePos) size % 65536), { b with shakePos := b.shakePos + 1 })

/-- `decode_size` -/
def Body.decodeSize (C : Crypto) (b : Body) (data : Bytes) : Option Nat × Body :=
  match b.size with
  | .plain => (some (rdBE data), b)
  | .auth =>
    let b' := { b with sizeCount := b.sizeCount + 1 }
    match C.openB b.sec.alg b.sizeKey (Nonce.counting b.sizeIv b.sizeCount 12) [] data with
    | none => (none, b')
    | some p => (some (rdBE p + 16), b')
  | .shake => (some (Nat.xor (shakeU16 C b.shakeSeed b.shakePos) (rdBE data)), { b with shakePos := b.shakePos + 1 })

/-- `encode_chunk`; `pad` supplies the random padding bytes (at least 63 of them) -/
def Body.encodeChunk (C : Crypto) (b : Body) (src pad : Bytes) : Bytes × Bytes × Body :=
  let (pl, b) := b.nextPadding C
  let n := min src.length (Consts.vmessPayloadLimit - 16 - b.sizeBytes - pl)
  let (sz, b) := b.encodeSize C (n + pl + 16)
  let ct := C.sealB b.sec.alg b.key (Nonce.counting b.iv b.count 12) [] (src.take n)
  (sz ++ ct ++ pad.take pl, src.drop n, { b with count := b.count + 1 })

/-- `encode_payload`: chunks until the source is empty (fuel = source length + 1; every chunk of a
non-empty source takes at least one byte because the limit exceeds tag + size + padding) -/
def Body.encodePayload (C : Crypto) : Nat → Body → Bytes → Bytes → Bytes × Body
  | 0, b, _, _ => ([], b)
  | fuel+1, b, src, pad =>
    if src.isEmpty then ([], b) else
    let (w, rest, b) := b.encodeChunk C src pad
    let (ws, b) := Body.encodePayload C fuel b rest (pad.drop 63)
    (w ++ ws, b)

/-- `encode_packet`: exactly one chunk, refused when the datagram might not fit -/
def Body.encodePacket (C : Crypto) (b : Body) (src pad : Bytes) : Option (Bytes × Body) :=
  let maxPad := if b.globalPadding then 63 else 0
  if src.length > Consts.vmessPayloadLimit - 16 - b.sizeBytes - maxPad then none
  else let (w, _, b) := b.encodeChunk C src pad; some (w, b)

/-- one state-machine step of `decode_payload` / `decode_packet` -/
def Body.unit (C : Crypto) (b : Body) (buf : Bytes) : Fr.Step Body UInt8 :=
  match b.st with
  | .padding =>
    let (pl, b) := b.nextPadding C
    -- consumes nothing; folded into the next step so that every `take` makes progress
    let sb := b.sizeBytes
    if buf.length < sb then .need else
    match b.decodeSize C (buf.take sb) with
    | (none, b) => .fail { b with st := .length pl } sb
    | (some len, b) => .take { b with st := .body pl len } sb []
  | .length pl =>
    let sb := b.sizeBytes
    if buf.length < sb then .need else
    match b.decodeSize C (buf.take sb) with
    | (none, b) => .fail b sb
    | (some len, b) => .take { b with st := .body pl len } sb []
  | .body pl len =>
    if len < pl + 16 then .fail b 0 else
    if buf.length < len then .need else
    let b' := { b with count := b.count + 1 }
    match C.openB b.sec.alg b.key (Nonce.counting b.iv b.count 12) [] (buf.take (len - pl)) with
    | none => .fail b' (len - pl)
    | some p => .take { b' with st := .padding } len p

end Octo.Vmess

namespace Octo.Vmess

/-- padding bytes per chunk, in order (recovered from the implementation's output by the driver) -/
def Body.encodePayloadP (C : Crypto) : Nat → Body → Bytes → List Bytes → Bytes × Body
  | 0, b, _, _ => ([], b)
  | fuel+1, b, src, pads =>
    if src.isEmpty then ([], b) else
    let (w, rest, b) := b.encodeChunk C src (pads.headD [])
    let (ws, b) := Body.encodePayloadP C fuel b rest pads.tail
    (w ++ ws, b)

inductive Cmd where
  | tcp | udp
deriving Repr, DecidableEq

def Cmd.toByte : Cmd → Nat
  | .tcp => 1
  | .udp => 2

/-- randomness of the first client `encode` -/
structure ClientRand where
  session : Session
  headerPadding : Bytes      -- 0..15 random bytes
  authTime : Nat
  authRand : Bytes           -- 4 bytes
  connNonce : Bytes          -- 8 bytes

/-- the plaintext request header of `ClientAEADCodec::encode` -/
def requestHeader (C : Crypto) (s : Session) (mask : Nat) (sec : Security) (cmd : Cmd) (addrBytes padding : Bytes) : Bytes :=
  let h := [(1 : UInt8)] ++ s.reqIv ++ s.reqKey ++ [s.respHeader] ++ [u8 mask] ++ [u8 (padding.length * 16 + sec.toByte)] ++
    [(0 : UInt8)] ++ [u8 cmd.toByte] ++ addrBytes ++ padding
  h ++ be32 (C.fnv1a32 h)

structure Client where
  key : Bytes               -- cmd key = MD5(uuid ‖ salt)
  mask : Nat := 29
  sec : Security
  cmd : Cmd
  addr : Addr
  session : Option Session := none
  enc : Option Body := none
  dec : Option Body := none
deriving Repr

/-- first `encode`: sealed header, then the item -/
def Client.encodeFirst (C : Crypto) (c : Client) (item : Bytes) (r : ClientRand) (pads : List Bytes) : Res (Bytes × Client) :=
  match VmessAddr.write c.addr with
  | .ok ab =>
    let hdr := requestHeader C r.session c.mask c.sec c.cmd ab r.headerPadding
    let authId := authIdCreate C c.key r.authTime r.authRand
    let sealed := sealHeader C c.key hdr authId r.connNonce
    let body := Body.new C c.mask c.sec r.session.reqKey r.session.reqIv r.session
    let c := { c with session := some r.session }
    match c.cmd with
    | .tcp =>
      let (w, body) := Body.encodePayloadP C (item.length + 1) body item pads
      .ok (sealed ++ w, { c with enc := some body })
    | .udp =>
      match body.encodePacket C item (pads.headD []) with
      | some (w, body) => .ok (sealed ++ w, { c with enc := some body })
      | none => .err
  | .panic => .panic
  | _ => .err

def Client.encodeNext (C : Crypto) (c : Client) (item : Bytes) (pads : List Bytes) : Res (Bytes × Client) :=
  match c.enc with
  | none => .err
  | some body =>
    match c.cmd with
    | .tcp =>
      let (w, body) := Body.encodePayloadP C (item.length + 1) body item pads
      .ok (w, { c with enc := some body })
    | .udp =>
      match body.encodePacket C item (pads.headD []) with
      | some (w, body) => .ok (w, { c with enc := some body })
      | none => .err

/-- run body units: TCP = as many as the buffer allows (`decode_payload`), UDP = up to and including
the first completed chunk (`decode_packet`) -/
def bodyDrainPacket (C : Crypto) : Nat → Body → Bytes → Body × Bytes × Res Bytes
  | 0, b, buf => (b, buf, .more)
  | fuel+1, b, buf =>
    match b.unit C buf with
    | .need => (b, buf, .more)
    | .fail b' n => (b', buf.drop n, .err)
    | .take b' n o =>
      if b'.st = .padding then (b', buf.drop n, .ok o)      -- a body step completed: one datagram
      else bodyDrainPacket C fuel b' (buf.drop n)

def bodyDecode (C : Crypto) (cmd : Cmd) (b : Body) (buf : Bytes) : Body × Bytes × Res Bytes :=
  match cmd with
  | .tcp =>
    let r := Fr.run (Body.unit C) b buf
    if r.failed then (r.st, r.buf, .err) else if r.out.isEmpty then (r.st, r.buf, .more) else (r.st, r.buf, .ok r.out)
  | .udp => bodyDrainPacket C 3 b buf

/-- the body part of `ClientAEADCodec::decode` (`self.decode(src)` once the body decoder exists) -/
def Client.finish (C : Crypto) (c : Client) (body : Body) (buf : Bytes) : Call Client :=
  let kind : ItemKind := if c.cmd = .tcp then .data else .udp
  if buf.isEmpty then ⟨c, buf, .more⟩ else
  match bodyDecode C c.cmd body buf with
  | (b', buf', .ok o) => ⟨{ c with dec := some b' }, buf', .ok ⟨kind, o, none⟩⟩
  | (b', buf', .more) => ⟨{ c with dec := some b' }, buf', .more⟩
  | (b', buf', _) => ⟨{ c with dec := some b' }, buf', .err⟩

/-- `ClientAEADCodec::decode` -/
def Client.decode (C : Crypto) (c : Client) (buf : Bytes) : Call Client :=
  if buf.isEmpty then ⟨c, buf, .more⟩ else
  match c.dec with
  | some body => c.finish C body buf
  | none =>
    match c.session with
    | none => ⟨c, buf, .err⟩    -- (not reachable: the client encodes before it decodes)
    | some s =>
      if buf.length < 18 then ⟨c, buf, .more⟩ else
      let lk := kdf16 C (s.respKey C) [saltRespLenKey]
      let li := kdfn C 12 (s.respIv C) [saltRespLenIv]
      match C.openB .aes128gcm lk li [] (buf.take 18) with
      | none => ⟨c, buf, .err⟩
      | some lb =>
        let hl := rdBE lb
        if buf.length - 18 < hl + 16 then ⟨c, buf, .more⟩ else
        let hk := kdf16 C (s.respKey C) [saltRespKey]
        let hi := kdfn C 12 (s.respIv C) [saltRespIv]
        let rest := buf.drop (18 + hl + 16)
        match C.openB .aes128gcm hk hi [] ((buf.drop 18).take (hl + 16)) with
        | none => ⟨c, rest, .err⟩
        | some h =>
          if h.head? ≠ some s.respHeader then ⟨c, rest, .err⟩ else
          let body := Body.new C c.mask c.sec (s.respKey C) (s.respIv C) s
          Client.finish C { c with dec := some body } body rest

/-! ### server -/

structure ServerReady where
  cmd : Cmd
  mask : Nat
  sec : Security
  addr : Addr
  session : Session
  dec : Body
  enc : Option Body := none
deriving Repr

structure Server where
  keys : List Bytes
  ready : Option ServerReady := none
deriving Repr

/-- `check_header_length` + the field parse of `ServerAeadCodec::decode` -/
def parseRequest (C : Crypto) (utf8Ok : Bytes → Bool) (h : Bytes) : Res (Session × Nat × Security × Cmd × Addr) :=
  if h.length < 41 then .err else
  let padLen := (h.getD 35 0).toNat / 16
  let ty := (h.getD 40 0).toNat
  let addrLen : Option Nat :=
    if ty = 1 then some 4
    else if ty = 2 then (if h.length > 41 then some (1 + (h.getD 41 0).toNat) else none)
    else if ty = 3 then some 16 else none
  match addrLen with
  | none => .err
  | some al =>
    if h.length < 41 + al + padLen + 4 then .err else
    let s : Session := ⟨(h.drop 1).take 16, (h.drop 17).take 16, h.getD 33 0⟩
    let mask := (h.getD 34 0).toNat
    let sec := Security.ofByte ((h.getD 35 0).toNat % 16)
    let cmdB := (h.getD 37 0).toNat
    if cmdB ≠ 1 ∧ cmdB ≠ 2 then .err else
    let cmd : Cmd := if cmdB = 1 then .tcp else .udp
    match VmessAddr.read utf8Ok (h.drop 38) with
    | .ok (addr, rest) =>
      let rest := rest.drop padLen
      if rdBE (rest.take 4) ≠ C.fnv1a32 (h.take (h.length - 4)) then .err
      else .ok (s, mask, sec, cmd, addr)
    | .panic => .panic
    | _ => .err

/-- the option list round trip `from_mask` / `get_mask` keeps only the five known bits -/
def knownMask (mask : Nat) : Nat := mask % 32

/-- `ServerAeadCodec::decode` -/
def Server.decode (C : Crypto) (utf8Ok : Bytes → Bool) (now : Nat) (sv : Server) (buf : Bytes) : Call Server :=
  match sv.ready with
  | some r =>
    if buf.isEmpty then ⟨sv, buf, .more⟩ else
    match bodyDecode C r.cmd r.dec buf with
    | (b', buf', .ok o) =>
      ⟨{ sv with ready := some { r with dec := b' } }, buf',
        .ok (if r.cmd = .tcp then ⟨.data, o, none⟩ else ⟨.udp, o, some r.addr⟩)⟩
    | (b', buf', .more) => ⟨{ sv with ready := some { r with dec := b' } }, buf', .more⟩
    | (b', buf', _) => ⟨{ sv with ready := some { r with dec := b' } }, buf', .err⟩
  | none =>
    if buf.length < 16 then ⟨sv, buf, .more⟩ else
    match authIdMatch C (buf.take 16) sv.keys now with
    | none => ⟨sv, buf, .err⟩
    | some key =>
      match openHeader C key buf with
      | .more => ⟨sv, buf, .more⟩
      | .ok (h, n) =>
        let rest := buf.drop n
        match parseRequest C utf8Ok h with
        | .ok (s, mask, sec, cmd, addr) =>
          let mask := knownMask mask
          let body := Body.new C mask sec s.reqKey s.reqIv s
          let mk (b : Body) : Server := { sv with ready := some ⟨cmd, mask, sec, addr, s, b, none⟩ }
          match cmd with
          | .tcp =>
            -- `decode_payload(..)?.unwrap_or_default()`: connect even when no body chunk is there yet
            let r := Fr.run (Body.unit C) body rest
            if r.failed then ⟨mk r.st, r.buf, .err⟩ else ⟨mk r.st, r.buf, .ok ⟨.connect, r.out, some addr⟩⟩
          | .udp =>
            match bodyDecode C .udp body rest with
            | (b', buf', .ok o) => ⟨mk b', buf', .ok ⟨.udp, o, some addr⟩⟩
            | (b', buf', .more) => ⟨mk b', buf', .more⟩
            | (b', buf', _) => ⟨mk b', buf', .err⟩
        | .panic => ⟨sv, rest, .panic⟩
        | _ => ⟨sv, rest, .err⟩
      | .panic => ⟨sv, buf, .panic⟩
      | _ => ⟨sv, buf, .err⟩

/-- `ServerAeadCodec::encode`; the encoder (and with it the fact that the response header has been
written) is kept whether or not encoding the item succeeds -/
def Server.encode (C : Crypto) (sv : Server) (item : Bytes) (pads : List Bytes) : Res Bytes × Server :=
  match sv.ready with
  | none => (.err, sv)
  | some r =>
    let s := r.session
    let (prefix_, body) : Bytes × Body :=
      match r.enc with
      | some b => ([], b)
      | none =>
        let lk := kdf16 C (s.respKey C) [saltRespLenKey]
        let li := kdfn C 12 (s.respIv C) [saltRespLenIv]
        let hk := kdf16 C (s.respKey C) [saltRespKey]
        let hi := kdfn C 12 (s.respIv C) [saltRespIv]
        let hdr : Bytes := [s.respHeader, u8 r.mask, 0, 0]
        (C.sealB .aes128gcm lk li [] (be16 4) ++ C.sealB .aes128gcm hk hi [] hdr,
          Body.new C r.mask r.sec (s.respKey C) (s.respIv C) s)
    match r.cmd with
    | .tcp =>
      let (w, body) := Body.encodePayloadP C (item.length + 1) body item pads
      (.ok (prefix_ ++ w), { sv with ready := some { r with enc := some body } })
    | .udp =>
      match body.encodePacket C item (pads.headD []) with
      | some (w, body') => (.ok (prefix_ ++ w), { sv with ready := some { r with enc := some body' } })
      | none => (.err, { sv with ready := some { r with enc := some body } })

end Octo.Vmess
