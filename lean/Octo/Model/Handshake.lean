import Octo.Model.Addr
import Octo.Model.Socks5
/-!
  Model of the client's local handshake: `client/handshake.rs` (`recognize_http`, `recognize`,
  `get_request_addr`, `check_address`) and `protocol/socks5/handshake.rs::server::no_auth`.
  Strings are byte strings (every delimiter the code searches for is ASCII).
-/
namespace Octo.Hs

def ch (c : Char) : UInt8 := UInt8.ofNat c.toNat
def str (s : String) : Bytes := s.toUTF8.toList

/-- `str::find(char)`: index of the first occurrence -/
def findByte (c : UInt8) : Bytes → Option Nat
  | [] => none
  | x :: r => if x = c then some 0 else (findByte c r).map (· + 1)

/-- `str::rfind(char)`: index of the last occurrence -/
def rfindByte (c : UInt8) : Bytes → Option Nat
  | [] => none
  | x :: r =>
    match rfindByte c r with
    | some i => some (i + 1)
    | none => if x = c then some 0 else none

/-- `str::find("://")` -/
def findSep : Bytes → Option Nat
  | [] => none
  | x :: r =>
    if (x :: r).take 3 = [ch ':', ch '/', ch '/'] then some 0 else (findSep r).map (· + 1)

def isDigit (b : UInt8) : Bool := ch '0' ≤ b && b ≤ ch '9'

/-- bytes of a URI scheme: ASCII letters and digits, '+', '-', '.' -/
def schemeByteOk (b : UInt8) : Bool :=
  (ch 'a' ≤ b && b ≤ ch 'z') || (ch 'A' ≤ b && b ≤ ch 'Z') || isDigit b || b = ch '+' || b = ch '-' || b = ch '.'

/-- `path.find("://").filter(…)`: the separator counts only right after a non-empty scheme -/
def findScheme (path : Bytes) : Option Nat :=
  match findSep path with
  | some i => if 0 < i ∧ (path.take i).all schemeByteOk then some i else none
  | none => none

/-- `str::parse::<u16>()`: an optional '+', at least one digit, value at most 65535 -/
def parseU16 (b : Bytes) : Option Nat :=
  let d := match b with
    | x :: r => if x = ch '+' then r else b
    | [] => b
  if d.isEmpty ∨ ¬ d.all isDigit then none else
  let v := d.foldl (fun acc x => acc * 10 + (x.toNat - 48)) 0
  if v ≤ 65535 then some v else none

inductive Proxy where
  | http (host : Bytes) (port : Nat)
  | https (host : Bytes) (port : Nat)
deriving Repr, DecidableEq

/-- `recognize_http(method, path)`; `none` = refused (an `Err`) -/
def recognizeHttp (method path : Bytes) : Option Proxy :=
  let isConnect := method = str "CONNECT"
  -- the query starts at the first '?'
  let path := match findByte (ch '?') path with
    | some i => path.take i
    | none => path
  let path := if path.getLast? = some (ch '/') then path.dropLast else path
  -- authority of an absolute-form target
  let auth : Option Bytes := match findScheme path with
    | some i =>
      let rest := path.drop (i + 3)
      match findByte (ch '/') rest with
      | some j => some (rest.take j)
      | none => some rest
    | none => if isConnect then some path else none
  match auth with
  | none => none
  | some a =>
    if isConnect then
      match rfindByte (ch ':') a with
      | none => none
      | some h => (parseU16 (a.drop (h + 1))).map fun p => .https (a.take h) p
    else
      match rfindByte (ch ':') a, rfindByte (ch ']') a with
      | none, _ => some (.http a 80)
      | some h, none => (parseU16 (a.drop (h + 1))).map fun p => .http (a.take h) p
      | some h, some v =>
        if h < v then some (.http a 80) else (parseU16 (a.drop (h + 1))).map fun p => .http (a.take h) p

/-- `check_address`: a name the outbound protocols can carry -/
def admitHost (host : Bytes) (port : Nat) : Option Addr :=
  if host.length = 0 ∨ host.length > 255 then none else some (.domain host port)

/-- what httparse reports for the bytes peeked so far, as far as `recognize` uses it: the method
and target once the request line up to the space after the target has arrived -/
def requestLine (b : Bytes) : Option (Bytes × Bytes) :=
  match findByte (ch ' ') b with
  | none => none
  | some i =>
    let rest := b.drop (i + 1)
    match findByte (ch ' ') rest with
    | none => none
    | some j => some (b.take i, rest.take j)

/-- index just after the first blank line (`\r\n\r\n`), if it has arrived -/
def findBlankLine : Bytes → Option Nat
  | [] => none
  | x :: r => if (x :: r).take 4 = [13, 10, 13, 10] then some 4 else (findBlankLine r).map (· + 1)

inductive Outcome where
  | tunnel (a : Addr) (consumed : Nat) (reply : Bytes)   -- handshake done: bytes consumed from the stream, bytes written back
  | refused (reply : Bytes)
  | wait                                                 -- more bytes are needed
deriving Repr, DecidableEq

def connectReply : Bytes := str "HTTP/1.1 200 Connection established\r\n\r\n"
def tooLongReply : Bytes := str "HTTP/1.1 414 URI Too Long\r\n\r\n"

/-- `get_request_addr` for an HTTP-proxy client: decision as a function of all bytes received so far
(the peek loops make it independent of how they were segmented) -/
def httpHandshake (b : Bytes) : Outcome :=
  let window := b.take 1024
  match requestLine window with
  | none => if window.length ≥ 1024 then .refused tooLongReply else .wait
  | some (method, target) =>
    match recognizeHttp method target with
    | none => .refused []
    | some (.http h p) =>
      match admitHost h p with
      | some a => .tunnel a 0 []            -- a plain request is forwarded untouched
      | none => .refused []
    | some (.https h p) =>
      match admitHost h p with
      | none => .refused []
      | some a =>
        match findBlankLine (b.take 8192) with
        | some n => .tunnel a n connectReply
        | none => if b.length ≥ 8192 then .refused [] else .wait

/-- `socks5::handshake::server::no_auth` for a lock-step client (greeting, then — after the method
reply — the request): decision as a function of the bytes of each message received so far -/
def socks5Handshake (greeting request : Bytes) (bound : Addr) : Outcome :=
  match Socks5.decodeInitialRequest greeting with
  | .more => .wait
  | .ok (_, _) =>
    match Socks5.decodeCommandRequest request with
    | .more => .wait
    | .ok (cmd, a, rest) =>
      let reply := Socks5.encodeInitialResponse 0 ++ Socks5.encodeCommandResponse 0 bound
      if cmd ≠ 1 then .refused reply else      -- only CONNECT opens a tunnel
      match a with
      | .domain h p =>
        (match admitHost h p with
         | some a => .tunnel a (greeting.length + request.length - rest.length) reply
         | none => .refused reply)
      | a => .tunnel a (greeting.length + request.length - rest.length) reply
    | _ => .refused (Socks5.encodeInitialResponse 0)
  | _ => .refused []

/-- the application closes its connection after the bytes received so far (end of stream during the handshake):
`FramedRead` reports the end — with bytes of an incomplete message left over, or with nothing — as an error of
`no_auth`, which has answered the method selection iff the greeting was complete -/
def socks5AtEof (greeting request : Bytes) (bound : Addr) : Outcome :=
  match socks5Handshake greeting request bound with
  | .wait =>
    (match Socks5.decodeInitialRequest greeting with
     | .ok _ => .refused (Socks5.encodeInitialResponse 0)
     | _ => .refused [])
  | o => o

/-- the same for an HTTP-proxy client: the peek loops give up at end of stream -/
def httpAtEof (b : Bytes) : Outcome :=
  match httpHandshake b with
  | .wait => .refused []
  | o => o

end Octo.Hs
