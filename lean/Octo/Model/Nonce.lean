import Octo.Base.Bytes
/-!
  Model of `codec/aead.rs`: `IncreasingNonceGenerator` (Shadowsocks: 12-byte little-endian counter
  that starts at all-ones and is incremented *before* use) and `CountingNonceGenerator` (VMess:
  u16 big-endian counter written over the first two bytes of the session IV, incremented *after* use).
-/
namespace Octo.Nonce

/-- `IncreasingNonceGenerator::init` -/
def incInit : Bytes := List.replicate 12 (255 : UInt8)

/-- the carry loop of `IncreasingNonceGenerator::generate` -/
def incStep : Bytes → Bytes
  | [] => []
  | x :: r => if x + 1 = 0 then (0 : UInt8) :: incStep r else (x + 1) :: r

/-- little-endian value of a nonce -/
def leVal : Bytes → Nat
  | [] => 0
  | x :: r => x.toNat + 256 * leVal r

/-- `CountingNonceGenerator::generate`: the nonce handed out for counter value `count`
(the first two bytes of the 16-byte IV are overwritten; the first `nonceSize` bytes are used) -/
def counting (iv : Bytes) (count : Nat) (nonceSize : Nat) : Bytes :=
  (be16 (count % 65536) ++ iv.drop 2).take nonceSize

end Octo.Nonce
