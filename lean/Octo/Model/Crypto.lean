import Octo.Base.Res
/-!
  Abstract cryptography.  Every model function takes a `Crypto`; theorems quantify over every
  `C` with `C.Lawful`; the driver instantiates `Octo.Crypto.real` (the executable primitives).
-/
namespace Octo

inductive Alg where
  | aes128gcm | aes256gcm | chacha20 | chacha8 | xchacha20 | xchacha8
deriving Repr, DecidableEq

def Alg.keyLen : Alg → Nat
  | .aes128gcm => 16
  | _ => 32

structure Crypto where
  /-- AEAD seal: algorithm, key, nonce, associated data, plaintext ↦ ciphertext ‖ 16-byte tag -/
  sealB : Alg → Bytes → Bytes → Bytes → Bytes → Bytes
  /-- AEAD open; `none` on authentication failure or when shorter than a tag -/
  openB : Alg → Bytes → Bytes → Bytes → Bytes → Option Bytes
  /-- single-block AES (key length selects AES-128 / AES-256) -/
  aesEnc : Bytes → Bytes → Bytes
  aesDec : Bytes → Bytes → Bytes
  hkdfSha1 : (salt ikm info : Bytes) → Nat → Bytes
  blake3Derive : (context material : Bytes) → Bytes
  blake3Hash : Bytes → Bytes
  md5 : Bytes → Bytes
  sha224 : Bytes → Bytes
  sha256 : Bytes → Bytes
  shake128 : Bytes → Nat → Bytes
  crc32 : Bytes → Nat
  fnv1a32 : Bytes → Nat

structure Crypto.Lawful (C : Crypto) : Prop where
  open_seal : ∀ a k n ad p, C.openB a k n ad (C.sealB a k n ad p) = some p
  seal_len : ∀ a k n ad p, (C.sealB a k n ad p).length = p.length + 16
  open_len : ∀ a k n ad c p, C.openB a k n ad c = some p → c.length = p.length + 16
  aes_dec_enc : ∀ k b, b.length = 16 → C.aesDec k (C.aesEnc k b) = b
  aes_enc_len : ∀ k b, (C.aesEnc k b).length = 16
  aes_dec_len : ∀ k b, (C.aesDec k b).length = 16
  blake3_len : ∀ c m, (C.blake3Derive c m).length = 32
  blake3h_len : ∀ m, (C.blake3Hash m).length = 32
  md5_len : ∀ m, (C.md5 m).length = 16
  sha224_len : ∀ m, (C.sha224 m).length = 28
  sha256_len : ∀ m, (C.sha256 m).length = 32
  hkdf_len : ∀ s i f n, (C.hkdfSha1 s i f n).length = n
  shake_len : ∀ m n, (C.shake128 m n).length = n

/- A toy instance (xor "stream" + additive checksum tag) that *is* lawful: the non-vacuity witness
for every theorem that assumes `C.Lawful`.  It offers no security whatsoever. -/
namespace Toy

def pad (k n : Bytes) (len : Nat) : Bytes :=
  (List.range len).map fun i => (k.getD (i % (k.length + 1)) 7) + (n.getD (i % (n.length + 1)) 11) + UInt8.ofNat i

def tagOf (k n ad p : Bytes) : Bytes :=
  let s : UInt8 := (k ++ n ++ ad ++ p).foldl (fun a x => a * 31 + x + 1) 5
  (List.range 16).map fun i => s + UInt8.ofNat (i * 17)

def sealB (_ : Alg) (k n ad p : Bytes) : Bytes := xorBytes p (pad k n p.length) ++ tagOf k n ad p

def openB (_ : Alg) (k n ad c : Bytes) : Option Bytes :=
  if c.length < 16 then none else
  let body := c.take (c.length - 16)
  let p := xorBytes body (pad k n body.length)
  if c.drop (c.length - 16) = tagOf k n ad p then some p else none

def fixLen (n : Nat) (b : Bytes) : Bytes := (b ++ zeros n).take n

def blk (k b : Bytes) : Bytes := xorBytes (fixLen 16 b) (fixLen 16 (k ++ [1, 2, 3]))

end Toy

def Crypto.toy : Crypto where
  sealB := Toy.sealB
  openB := Toy.openB
  aesEnc := Toy.blk
  aesDec := Toy.blk
  hkdfSha1 := fun s i f n => Toy.fixLen n (s ++ i ++ f)
  blake3Derive := fun c m => Toy.fixLen 32 (m ++ c)
  blake3Hash := fun m => Toy.fixLen 32 m
  md5 := fun m => Toy.fixLen 16 m
  sha224 := fun m => Toy.fixLen 28 m
  sha256 := fun m => Toy.fixLen 32 m
  shake128 := fun m n => Toy.fixLen n m
  crc32 := fun m => m.length
  fnv1a32 := fun m => m.length

end Octo
