import Octo.Model.Addr
/-!
  Model of `impl Ord for Address` (`protocol/address.rs`): the order of the keys of the client's udp binding table
  (`lru_time_cache::LruCache`, an ordered map; for VMess the key is `(sender, target)`).  `cmp` is the order after the
  repair (port, then the bytes of the host, then name before address); `cmpOld` is the order before it (names and
  socket addresses by port first, two socket addresses as `SocketAddr` orders them: family, address, port), kept with
  its counterexample.
-/
namespace Octo.Addr

/-- `<[u8] as Ord>::cmp`: lexicographic, a proper prefix is smaller -/
def bytesCmp : Bytes → Bytes → Ordering
  | [], [] => .eq
  | [], _ :: _ => .lt
  | _ :: _, [] => .gt
  | a :: as, b :: bs => (compare a.toNat b.toNat).then (bytesCmp as bs)

/-- the bytes of the host: a name's bytes, an address's octets -/
def hostBytes : Addr → Bytes
  | domain h _ => h
  | v4 ip _ => ip
  | v6 ip _ => ip

/-- name before IPv4 before IPv6 -/
def rank : Addr → Nat
  | domain _ _ => 0
  | v4 _ _ => 1
  | v6 _ _ => 2

/-- `Address::cmp` (after the repair) -/
def cmp (a b : Addr) : Ordering :=
  (compare a.port b.port).then ((bytesCmp a.hostBytes b.hostBytes).then (compare a.rank b.rank))

/-- `Address::cmp` before the repair.  `SocketAddr`'s own order: V4 before V6, then address, then port. -/
def cmpOld : Addr → Addr → Ordering
  | domain h p, domain h' p' => (compare p p').then (bytesCmp h h')
  | domain h p, v4 ip p' => (compare p p').then (bytesCmp h ip)
  | domain h p, v6 ip p' => (compare p p').then (bytesCmp h ip)
  | v4 ip p, domain h p' => (compare p p').then (bytesCmp h ip).swap
  | v6 ip p, domain h p' => (compare p p').then (bytesCmp h ip).swap
  | v4 ip p, v4 ip' p' => (bytesCmp ip ip').then (compare p p')
  | v6 ip p, v6 ip' p' => (bytesCmp ip ip').then (compare p p')
  | v4 _ _, v6 _ _ => .lt
  | v6 _ _, v4 _ _ => .gt

/-- a small ordered table in the manner of a search tree's node: keys kept sorted by the order it is given, a key is
looked for by walking until the first key that is not smaller -/
def insertSorted (c : Addr → Addr → Ordering) (k : Addr) : List Addr → List Addr
  | [] => [k]
  | x :: xs => match c k x with
    | .lt => k :: x :: xs
    | .eq => x :: xs
    | .gt => x :: insertSorted c k xs

def findSorted (c : Addr → Addr → Ordering) (k : Addr) : List Addr → Bool
  | [] => false
  | x :: xs => match c k x with
    | .lt => false
    | .eq => true
    | .gt => findSorted c k xs

end Octo.Addr
