import Octo.Model.Crypto
import Octo.Model.Framed
import Octo.Model.Addr
import Octo.Model.Nonce
import Octo.Model.Stream
import Octo.Gen.Consts
/-!
  Model of the Shadowsocks TCP codec: `codec/shadowsocks.rs` (Authenticator, ChunkEncoder,
  ChunkDecoder), `codec/shadowsocks/aead.rs`, `aead_2022.rs`, `aead_2022/tcp.rs` and
  `codec/shadowsocks/tcp.rs` (`AEADCipherCodec::{encode, decode}`), plus the thin
  `PayloadCodec`s of client and server.  Randomness (salt, padding), the clock and the replay
  cache are explicit inputs.
-/
namespace Octo.Ss

inductive Kind where
  | aes128 | aes256 | chacha20 | b3aes128 | b3aes256 | b3chacha8 | b3chacha20
deriving Repr, DecidableEq

namespace Kind
def is2022 : Kind → Bool
  | b3aes128 | b3aes256 | b3chacha8 | b3chacha20 => true
  | _ => false
def supportEih : Kind → Bool
  | b3aes128 | b3aes256 => true
  | _ => false
def alg : Kind → Alg
  | aes128 | b3aes128 => .aes128gcm
  | aes256 | b3aes256 => .aes256gcm
  | chacha20 | b3chacha20 => .chacha20
  | b3chacha8 => .chacha8
/-- the const generic `N`: key and salt length -/
def n : Kind → Nat
  | aes128 | b3aes128 => 16
  | _ => 32
end Kind

inductive Mode where
  | client | server
deriving Repr, DecidableEq

def Mode.toU8 : Mode → UInt8
  | .client => 0
  | .server => 1
def Mode.expectU8 : Mode → UInt8
  | .client => 1
  | .server => 0

/-- `Authenticator`: cipher + increasing nonce generator -/
structure Auth where
  alg : Alg
  key : Bytes
  nonce : Bytes
deriving Repr, DecidableEq

def Auth.new (alg : Alg) (key : Bytes) : Auth := ⟨alg, key.take alg.keyLen, Nonce.incInit⟩

/-- `Authenticator::seal`: the generator steps once, then encrypts -/
def Auth.sealB (C : Crypto) (a : Auth) (pt : Bytes) : Bytes × Auth :=
  let n := Nonce.incStep a.nonce
  (C.sealB a.alg a.key n [] pt, { a with nonce := n })

/-- `Authenticator::open`: the generator steps once whether or not the open succeeds -/
def Auth.openB (C : Crypto) (a : Auth) (ct : Bytes) : Option Bytes × Auth :=
  let n := Nonce.incStep a.nonce
  (C.openB a.alg a.key n [] ct, { a with nonce := n })

def ssSubkeyInfo : Bytes := "ss-subkey".toUTF8.toList
def sessionSubkeyCtx : Bytes := "shadowsocks 2022 session subkey".toUTF8.toList
def identitySubkeyCtx : Bytes := "shadowsocks 2022 identity subkey".toUTF8.toList

/-- `aead::new_encoder/new_decoder` (HKDF-SHA1) and `aead_2022::new_encoder/new_decoder` (BLAKE3) -/
def newAuth (C : Crypto) (k : Kind) (key salt : Bytes) : Auth :=
  if k.is2022 then Auth.new k.alg (C.blake3Derive sessionSubkeyCtx (key ++ salt))
  else Auth.new k.alg (C.hkdfSha1 salt key ssSubkeyInfo salt.length)

/-! ### chunk layer -/

/-- `ChunkEncoder::encode_chunk` -/
def encChunk (C : Crypto) (a : Auth) (p : Bytes) : Bytes × Auth :=
  let (l, a) := a.sealB C (be16 p.length)
  let (c, a) := a.sealB C p
  (l ++ c, a)

/-- split a payload into chunks of at most `limit` bytes (`limit > 0`) -/
def splitChunks (limit : Nat) (p : Bytes) : List Bytes :=
  if h : limit = 0 ∨ p = [] then [] else
    p.take limit :: splitChunks limit (p.drop limit)
termination_by p.length
decreasing_by
  have : p ≠ [] := fun e => h (Or.inr e)
  have : 0 < p.length := List.length_pos_iff.mpr this
  simp only [List.length_drop]; omega

/-- `ChunkEncoder::encode_payload`: `limit = payload_limit - tag - size_bytes` -/
def chunkLimit (payloadLimit : Nat) : Nat := payloadLimit - 16 - 18

def encChunks (C : Crypto) : Auth → List Bytes → Bytes × Auth
  | a, [] => ([], a)
  | a, p :: ps =>
    let (w, a) := encChunk C a p
    let (ws, a) := encChunks C a ps
    (w ++ ws, a)

/-- the `payload_limit` each encoder is created with (`aead::new_encoder` / `aead_2022::new_encoder`) -/
def Kind.payloadLimit (k : Kind) : Nat := if k.is2022 then Consts.ss2022PayloadLimit else Consts.ssLegacyPayloadLimit

def encPayload (C : Crypto) (a : Auth) (payloadLimit : Nat) (p : Bytes) : Bytes × Auth :=
  encChunks C a (splitChunks (chunkLimit payloadLimit) p)

inductive ChunkSt where
  | length
  | payload (n : Nat)
deriving Repr, DecidableEq

structure ChunkDec where
  auth : Auth
  st : ChunkSt
deriving Repr, DecidableEq

/-- one iteration of the loop of `ChunkDecoder::decode_payload` -/
def chunkUnit (C : Crypto) (d : ChunkDec) (b : Bytes) : Fr.Step ChunkDec UInt8 :=
  match d.st with
  | .length =>
    if b.length < 18 then .need else
    match d.auth.openB C (b.take 18) with
    | (none, a) => .fail ⟨a, .length⟩ 18
    | (some l, a) => .take ⟨a, .payload (rdBE l + 16)⟩ 18 []
  | .payload n =>
    if b.length < n then .need else
    match d.auth.openB C (b.take n) with
    | (none, a) => .fail ⟨a, .payload n⟩ n
    | (some p, a) => .take ⟨a, .length⟩ n p

/-! ### the TCP codec -/

structure User where
  name : String
  key : Bytes
  hash : Bytes          -- first 16 bytes of blake3(key)
deriving Repr, DecidableEq

/-- the static part of `tcp::Context` -/
structure Ctx where
  kind : Kind
  key : Bytes
  identityKeys : List Bytes := []
  users : List User := []           -- `ServerUserManager` (server side)
deriving Repr

/-- `Session` + `Identity` -/
structure Sess where
  mode : Mode
  salt : Bytes                       -- own salt (random, `Identity::default`)
  requestSalt : Option Bytes := none
  user : Option User := none
  address : Option Addr := none
deriving Repr

/-- `make_eih` of aead_2022/tcp.rs: AES-ECB(sub_key, blake3(ipsk)[..16]) -/
def makeEih (C : Crypto) (k : Kind) (subKey ipsk : Bytes) : Bytes :=
  C.aesEnc (subKey.take k.alg.keyLen) ((C.blake3Hash ipsk).take 16)

/-- `with_eih`: one header per identity key; header i is keyed by ipsk i and carries the hash of the
next key (the last one carries the hash of the user key) -/
def withEih (C : Crypto) (k : Kind) (key : Bytes) (salt : Bytes) : List Bytes → Bytes
  | [] => []
  | [ipsk] => makeEih C k (C.blake3Derive identitySubkeyCtx (ipsk ++ salt)) key
  | ipsk :: next :: rest =>
    makeEih C k (C.blake3Derive identitySubkeyCtx (ipsk ++ salt)) next ++ withEih C k key salt (next :: rest)

/-- `aead_2022::tcp::new_header` -/
def newHeader (C : Crypto) (a : Auth) (msg : Bytes) (mode : Mode) (requestSalt : Option Bytes) (now : Nat) :
    Bytes × Bytes × Auth :=
  let len := min msg.length 0xffff
  let fixed := [mode.toU8] ++ be64 now ++ (requestSalt.getD []) ++ be16 len
  let (f, a) := a.sealB C fixed
  let (v, a) := a.sealB C (msg.take len)
  (f ++ v, msg.drop len, a)

/-- randomness and clock consumed by the first `encode` of a session -/
structure EncRand where
  padding : Bytes := []        -- the random padding bytes (length = padding length), client 2022 only
  now : Nat := 0

structure Enc where
  auth : Option Auth := none
deriving Repr

/-- `AEADCipherCodec::encode` -/
def encode (C : Crypto) (ctx : Ctx) (s : Sess) (e : Enc) (item : Bytes) (r : EncRand) : Bytes × Enc :=
  match e.auth with
  | some a =>
    let (w, a) := encPayload C a ctx.kind.payloadLimit item
    (w, ⟨some a⟩)
  | none =>
    -- init_payload_encoder
    let eih := if s.mode = .client ∧ ctx.kind.supportEih then withEih C ctx.kind ctx.key s.salt ctx.identityKeys else []
    let key := match ctx.kind.is2022, s.user with
      | true, some u => u.key
      | _, _ => ctx.key
    let a := newAuth C ctx.kind key s.salt
    -- handle_payload_header
    let msg := match s.mode with
      | .client =>
        let addr := match s.address with
          | some ad => Socks5Addr.encode ad
          | none => []
        if ctx.kind.is2022 then addr ++ be16 r.padding.length ++ r.padding ++ item else addr ++ item
      | .server => item
    if ctx.kind.is2022 then
      let (hdr, rest, a) := newHeader C a msg s.mode s.requestSalt r.now
      let (w, a) := encPayload C a ctx.kind.payloadLimit rest
      (s.salt ++ eih ++ hdr ++ w, ⟨some a⟩)
    else
      let (w, a) := encPayload C a ctx.kind.payloadLimit msg
      (s.salt ++ eih ++ w, ⟨some a⟩)

/-- every write of a session through `encode`, in order: the bytes put on the wire -/
def encodeAll (C : Crypto) (ctx : Ctx) (s : Sess) : Enc → List (Bytes × EncRand) → Bytes × Enc
  | e, [] => ([], e)
  | e, (w, r) :: ws =>
    let (x, e) := encode C ctx s e w r
    let (y, e) := encodeAll C ctx s e ws
    (x ++ y, e)

/-- decoder state: `Option<ChunkDecoder>` + the session fields the decoder writes -/
structure Dec where
  chunk : Option ChunkDec := none
  sess : Sess
deriving Repr

/-- environment of a decode call: clock and the replay cache's answer / update -/
structure DecEnv where
  now : Nat
  saltSeen : Bytes → Bool      -- `check_nonce`

def absDiff (a b : Nat) : Nat := if a ≤ b then b - a else a - b

/-- outputs of the stream decoder: payload bytes, plus the events the surrounding code observes -/
inductive Ev where
  | byte (b : UInt8)
  | accepted (salt : Bytes)     -- `set_nonce(salt)`: the request was accepted and its salt recorded
deriving Repr, DecidableEq

def Ev.bytes : List Ev → Bytes
  | [] => []
  | .byte b :: r => b :: Ev.bytes r
  | _ :: r => Ev.bytes r

def findUser (users : List User) (h : Bytes) : Option User := users.find? (fun u => u.hash = h)

/-- the part of `init_aead_2022_payload_decoder` after the fixed-length header has been opened:
`h` = its plaintext (type ‖ timestamp ‖ [request salt] ‖ length), `a` = the authenticator after it -/
def init2022Tail (C : Crypto) (env : DecEnv) (d : Dec) (s : Sess) (b : Bytes)
    (n headerLen requestSaltLen : Nat) (salt : Bytes) (a : Auth) (h : Bytes) : Fr.Step Dec Ev :=
  if h.headD 0 ≠ s.mode.expectU8 then .fail d 0 else
  let ts := rdBE ((h.drop 1).take 8)
  if absDiff env.now ts > Consts.ssMaxTimeDiff then .fail d 0 else
  let echoed := (h.drop 9).take requestSaltLen
  if s.mode = .client ∧ echoed ≠ s.salt then .fail d 0 else
  let s := if s.mode = .client then { s with requestSalt := some echoed } else s
  let d := { d with sess := s }
  let len := rdBE ((h.drop (9 + requestSaltLen)).take 2)
  let rest := b.drop (n + headerLen)
  if rest.length < len + 16 then .need else
  match a.openB C (rest.take (len + 16)) with
  | (none, _) => .fail d (n + headerLen + len + 16)
  | (some via, a) =>
  let consumed := n + headerLen + len + 16
  let cd : ChunkDec := ⟨a, .length⟩
  if s.mode = .server ∧ s.address.isNone then
    match Socks5Addr.decode via with
    | .ok (addr, via) =>
      if via.length < 2 then .fail { d with chunk := some cd } consumed else
      let pl := rdBE (via.take 2)
      if via.length < 2 + pl then .fail { d with chunk := some cd } consumed else
      .take { chunk := some cd, sess := { s with address := some addr } } consumed
        (.accepted salt :: (via.drop (2 + pl)).map .byte)
    | _ => .fail { d with chunk := some cd } consumed
  else
    .take { chunk := some cd, sess := s } consumed (.accepted salt :: via.map .byte)

/-- which key opens the request: the context key, or — when identity headers are required — the key
of the registered user whose identity hash the identity header decrypts to (`new_decoder_with_eih`) -/
def init2022Key (C : Crypto) (ctx : Ctx) (s : Sess) (requireEih : Bool) (salt header : Bytes) : Option (Bytes × Option User) :=
  if requireEih then
    let sub := C.blake3Derive identitySubkeyCtx (ctx.key ++ salt)
    let h := C.aesDec (sub.take ctx.kind.alg.keyLen) (header.take 16)
    match findUser ctx.users h with
    | some u => some (u.key, some u)
    | none => none
  else some (ctx.key, s.user)

def requireEih (ctx : Ctx) (s : Sess) : Bool :=
  decide (s.mode = .server) && ctx.kind.supportEih && decide (ctx.users.length > 0)

/-- `init_aead_2022_payload_decoder` as a unit step over the whole first read -/
def init2022 (C : Crypto) (ctx : Ctx) (env : DecEnv) (d : Dec) (b : Bytes) : Fr.Step Dec Ev :=
  let n := ctx.kind.n
  let s := d.sess
  let requestSaltLen := if s.mode = .server then 0 else n
  let req := requireEih ctx s
  let eihLen := if req then 16 else 0
  let headerLen := eihLen + 1 + 8 + requestSaltLen + 2 + 16
  if b.length < n then .need else       -- `init_payload_decoder` waits for the salt …
  if b.length < n + headerLen then .fail d 0 else   -- … but the fixed header must come with it
  let salt := b.take n
  if env.saltSeen salt then .fail d 0 else
  let s := { s with requestSalt := some salt }
  let d := { d with sess := s }
  let header := (b.drop n).take headerLen
  match init2022Key C ctx s req salt header with
  | none => .fail d 0
  | some (key, user) =>
  let s := { s with user := user }
  let d := { d with sess := s }
  let a := newAuth C ctx.kind key salt
  match a.openB C (header.drop eihLen) with
  | (none, _) => .fail d 0
  | (some h, a) => init2022Tail C env d s b n headerLen requestSaltLen salt a h

/-- legacy first step: the salt; then (server) the target address at the head of the plaintext -/
def unit (C : Crypto) (ctx : Ctx) (env : DecEnv) (d : Dec) (b : Bytes) : Fr.Step Dec Ev :=
  match d.chunk with
  | none =>
    if ctx.kind.is2022 then
      if b.length = 0 then .need else init2022 C ctx env d b
    else
      if b.length < ctx.kind.n ∨ ctx.kind.n = 0 then .need else
      .take { d with chunk := some ⟨newAuth C ctx.kind ctx.key (b.take ctx.kind.n), .length⟩ } ctx.kind.n []
  | some cd =>
    match chunkUnit C cd b with
    | .need => .need
    | .fail cd' n => .fail { d with chunk := some cd' } n
    | .take cd' n o => .take { d with chunk := some cd' } n (o.map .byte)

/-! ### call level: what one `decode` call returns -/

/-- `AEADCipherCodec::decode`: `Ok(None)` on an empty buffer; with a chunk decoder, every complete
chunk, `None` if that is nothing; the legacy salt step falls through to the chunks behind it; the
2022 header step is one call of its own and returns `Some(via)` even when `via` is empty. -/
def cipherDecode (C : Crypto) (ctx : Ctx) (env : DecEnv) (d : Dec) (b : Bytes) : Dec × Bytes × Res (List Ev) :=
  if b.isEmpty then (d, b, .more) else
  if d.chunk.isNone ∧ ctx.kind.is2022 then
    match init2022 C ctx env d b with
    | .need => (d, b, .more)
    | .fail d' n => (d', b.drop n, .err)
    | .take d' n o => (d', b.drop n, .ok o)
  else
    let r := Fr.run (unit C ctx env) d b
    if r.failed then (r.st, r.buf, .err)
    else if (Ev.bytes r.out).isEmpty then (r.st, r.buf, .more)
    else (r.st, r.buf, .ok r.out)

/-- client `PayloadCodec::decode` -/
def clientCall (C : Crypto) (ctx : Ctx) (env : DecEnv) (d : Dec) (b : Bytes) : Call Dec :=
  match cipherDecode C ctx env d b with
  | (d', b', .ok o) => ⟨d', b', .ok ⟨.data, Ev.bytes o, none⟩⟩
  | (d', b', .more) => ⟨d', b', .more⟩
  | (d', b', .err) => ⟨d', b', .err⟩
  | (d', b', .panic) => ⟨d', b', .panic⟩

/-- server `PayloadCodec` state: codec state, `State::{Header, Body}`, the plaintext kept while a
legacy target address is still incomplete -/
structure SrvDec where
  dec : Dec
  header : Bool := true
  pending : Bytes := []
deriving Repr

/-- server `PayloadCodec::decode` -/
def serverCall (C : Crypto) (ctx : Ctx) (env : DecEnv) (s : SrvDec) (b : Bytes) : Call SrvDec :=
  match cipherDecode C ctx env s.dec b with
  | (d', b', .more) => ⟨{ s with dec := d' }, b', .more⟩
  | (d', b', .err) => ⟨{ s with dec := d' }, b', .err⟩
  | (d', b', .panic) => ⟨{ s with dec := d' }, b', .panic⟩
  | (d', b', .ok o) =>
    let dst := Ev.bytes o
    if ¬ s.header then ⟨{ s with dec := d' }, b', .ok ⟨.data, dst, none⟩⟩ else
    match d'.sess.address with
    | some a => ⟨{ s with dec := d', header := false }, b', .ok ⟨.connect, dst, some a⟩⟩
    | none =>
      -- legacy: the target address leads the decrypted stream
      let pend := s.pending ++ dst
      if pend.length < 2 then ⟨{ s with dec := d', pending := pend }, b', .more⟩ else
      match Socks5Addr.tryDecodeAt pend 0 with
      | .ok need =>
        if pend.length < need then ⟨{ s with dec := d', pending := pend }, b', .more⟩ else
        match Socks5Addr.decode pend with
        | .ok (a, rest) =>
          ⟨{ dec := { d' with sess := { d'.sess with address := some a } }, header := false, pending := [] }, b',
            .ok ⟨.connect, rest, some a⟩⟩
        | .panic => ⟨{ s with dec := d', pending := pend }, b', .panic⟩
        | _ => ⟨{ s with dec := d', pending := pend }, b', .err⟩
      | .panic => ⟨{ s with dec := d', pending := pend }, b', .panic⟩
      | _ => ⟨{ s with dec := d', pending := pend }, b', .err⟩

end Octo.Ss
