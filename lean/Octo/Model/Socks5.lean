import Octo.Model.Addr
import Octo.Model.Stream
/-!
  Model of `protocol/socks5/codec.rs` (message decoders/encoders, `Socks5UdpCodec`) and
  `protocol/socks5/message.rs`.
-/
namespace Octo.Socks5

def authMethodOk (b : UInt8) : Bool := b = 0 ∨ b = 1 ∨ b = 2 ∨ b = 255

/-- `Socks5InitialRequestDecoder::decode`: the method list; returns the unread rest -/
def decodeInitialRequest (b : Bytes) : Res (Bytes × Bytes) :=
  if b.length < 2 ∨ b.length < 2 + (b.getD 1 0).toNat then .more else
  if b.getD 0 0 ≠ 5 then .err else
  let n := (b.getD 1 0).toNat
  let ms := (b.drop 2).take n
  if ms.all authMethodOk then .ok (ms, b.drop (2 + n)) else .err

/-- `Socks5CommandRequestDecoder::decode`: command byte and address -/
def decodeCommandRequest (b : Bytes) : Res (Nat × Addr × Bytes) :=
  if b.length < 5 then .more else
  match Socks5Addr.tryDecodeAt b 3 with
  | .ok al =>
    if b.length < 3 + al then .more else
    if b.getD 0 0 ≠ 5 then .err else
    let cmd := (b.getD 1 0).toNat
    if cmd ≠ 1 ∧ cmd ≠ 2 ∧ cmd ≠ 3 then .err else
    match Socks5Addr.decode (b.drop 3) with
    | .ok (a, rest) => .ok (cmd, a, rest)
    | .panic => .panic
    | _ => .err
  | .panic => .panic
  | _ => .err

/-- `Socks5InitialResponseDecoder::decode` -/
def decodeInitialResponse (b : Bytes) : Res (UInt8 × Bytes) :=
  if b.length < 2 then .more else
  if b.getD 0 0 ≠ 5 then .err else
  if authMethodOk (b.getD 1 0) then .ok (b.getD 1 0, b.drop 2) else .err

/-- `Socks5CommandResponseDecoder::decode` -/
def decodeCommandResponse (b : Bytes) : Res (Nat × Addr × Bytes) :=
  if b.length < 5 then .more else
  match Socks5Addr.tryDecodeAt b 3 with
  | .ok al =>
    if b.length < 3 + al then .more else
    if b.getD 0 0 ≠ 5 then .err else
    let status := (b.getD 1 0).toNat
    if status ≠ 0 ∧ status ≠ 1 then .err else
    match Socks5Addr.decode (b.drop 3) with
    | .ok (a, rest) => .ok (status, a, rest)
    | .panic => .panic
    | _ => .err
  | .panic => .panic
  | _ => .err

/-- message encoders -/
def encodeInitialRequest (methods : Bytes) : Bytes := [5, u8 methods.length] ++ methods
def encodeInitialResponse (method : UInt8) : Bytes := [5, method]
def encodeCommandRequest (cmd : Nat) (a : Addr) : Bytes := [5, u8 cmd, 0] ++ Socks5Addr.encode a
def encodeCommandResponse (status : Nat) (a : Addr) : Bytes := [5, u8 status, 0] ++ Socks5Addr.encode a

/-- `Socks5UdpCodec::decode`: a datagram is decoded or dropped as a whole (the buffer is always
left empty) -/
def udpDecode (b : Bytes) : Call Unit :=
  if b.isEmpty then ⟨(), [], .more⟩ else
  if b.length < 5 then ⟨(), [], .err⟩ else
  if b.getD 2 0 ≠ 0 then ⟨(), [], .err⟩ else
  match Socks5Addr.decode (b.drop 3) with
  | .ok (a, rest) => ⟨(), [], .ok ⟨.udp, rest, some a⟩⟩
  | .panic => ⟨(), [], .panic⟩
  | _ => ⟨(), [], .err⟩

/-- `Socks5UdpCodec::encode` -/
def udpEncode (payload : Bytes) (a : Addr) : Bytes := [0, 0, 0] ++ Socks5Addr.encode a ++ payload

end Octo.Socks5
