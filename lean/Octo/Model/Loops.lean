/-!
  Control-flow sites of the long-lived loops, as extracted from the Rust sources by
  `bin/translate_loops.py` (generated values: `Octo/Gen/LoopsGen.lean`), and an over-approximating
  small-step semantics of ONE iteration of such a loop under an adversary.

  A `Site` is a place in a loop body where control can leave the straight line: an `.await` (or the
  future of a `select!` arm), a `?`, an `unwrap`/panic, a `break`/`return`/`continue`, a
  `tokio::spawn`.  The classification of a site (`inSpawn`, `perFlow`, `service`, `fallible`,
  `handled`, `cause`) is computed by the translator under the rules written in the header of the
  generated file; it is the trusted part.  Everything below is about what follows from a
  classification.
-/
namespace Octo.Loops

inductive SiteKind where
  | await_ | question | break_ | return_ | continue_ | unwrap_ | spawn
deriving Repr, DecidableEq

/-- why a jump (`break`/`return`/`continue`, or a `while let` whose pattern stops matching) is taken -/
inductive Cause where
  | none        -- not a jump
  | always      -- no condition between the top of the body and the jump
  | svcClosed   -- one of the loop's own resources is closed for good (`None` of its own mpsc receiver / endpoint / stream,
                -- the `else` arm of a `select!` all of whose refutable arms are such) - nothing a peer can bring about
  | svcError    -- an operation on one of the loop's own resources failed (`Err` of `accept`/`recv_from`/`next`)
  | flowData    -- a test of data of the accepted connection / received datagram, of the outcome of an operation on it, or of
                -- an operation on an own resource whose arguments come from it (`send_to(.., peer)`)
  | localState  -- a test that mentions neither (configuration, a counter of the loop)
deriving Repr, DecidableEq

structure Site where
  line : Nat
  kind : SiteKind
  /-- last function / method called in the expression (`accept`, `create`, `send` ..): a name that survives renamed locals -/
  op : String
  text : String
  /-- inside `tokio::spawn(async ..)`: runs in the flow's own task -/
  inSpawn : Bool
  /-- inside a future that the loop pushes into one of its own future sets (`FuturesUnordered` declared before the loop and
      polled by a `select!` arm `X.next()`): runs next to the loop's work, not in its straight line -/
  inPushedFuture : Bool
  /-- `await_`/`question`/`unwrap_`/`spawn`: the expression mentions data of the accepted connection / received datagram (or
      the outcome of an operation that a peer can make fail); jumps: a peer can bring the jump about (`cause` is none of
      `svcClosed`) -/
  perFlow : Bool
  /-- the failure case is consumed by `match`/`if let`/`unwrap_or_else` whose failure arm stays in the loop -/
  handled : Bool
  /-- `await_`: an operation of one of the loop's own resources (listener / endpoint `accept`, own mpsc `recv`, own socket
      `recv_from`/`send_to`, own framed socket `next`/`send`, timers) -/
  service : Bool
  /-- `await_`: has a failure outcome a peer (or a momentary shortage of descriptors) can bring about -/
  fallible : Bool
  /-- `await_`: it is the future of a `select!` arm (polled together with the other arms), not an `.await` in a body -/
  selectHead : Bool
  cause : Cause
deriving Repr, DecidableEq

inductive Role where
  | service   -- serves every flow: `startup_tcp`, `startup_quic`, `startup_udp`, `transfer_tcp`, `transfer_udp`
  | assoc     -- serves one association / binding: `UdpAssociateContext::relay`, the task of `new_binding`
  | callee    -- not a loop: the body of a function that a service loop awaits in its own task (parameters = flow data)
deriving Repr, DecidableEq

structure Loop where
  name : String
  file : String
  fn : String
  role : Role
  line : Nat
  sites : List Site
deriving Repr, DecidableEq

/-- the sites that run in the loop's own task -/
def Loop.level (l : Loop) : List Site := l.sites.filter (fun s => !s.inSpawn && !s.inPushedFuture)

/-! ## one iteration under an adversary -/

inductive Outcome where
  | backAtTop   -- the loop is at the top of its body again (waiting in `accept` / `select!`)
  | ended       -- the loop is over (`break`, `return`, `?`, panic)
  | stuck       -- the loop's task waits for something only one peer can provide
deriving Repr, DecidableEq

/-- what the adversary answers at a site -/
inductive Choice where
  | pass    -- completes / `Ok` / `Some` / jump not taken
  | fail    -- `Err` / `None`
  | stall   -- never completes
  | take    -- the jump is taken
deriving Repr, DecidableEq

inductive Step where
  | next
  | out (o : Outcome)
deriving Repr, DecidableEq

/-- What an adversary may bring about at one site of the loop's own task.
  * an `.await` that is not an operation of an own resource may never complete (`stuck`);
  * an operation of an own resource completes; if it can fail and the failure is not consumed in the loop, the loop ends;
  * a `?` / `unwrap` on flow-dependent data may meet `Err`/`None`: the function returns / panics (`ended`);
  * a `break`/`return` a peer can bring about may be taken (`ended`); one it cannot (`perFlow = false`) is not;
  * `continue` goes back to the top whenever it is taken. -/
def stepSite (s : Site) (c : Choice) : Step :=
  match s.kind with
  | .await_ =>
    if s.service then
      if s.fallible && !s.handled && c == .fail then .out .ended else .next
    else
      if c == .stall then .out .stuck else .next
  | .question => if s.perFlow && !s.handled && c == .fail then .out .ended else .next
  | .unwrap_ => if s.perFlow && !s.handled && c == .fail then .out .ended else .next
  | .break_ => if s.perFlow && c == .take then .out .ended else .next
  | .return_ => if s.perFlow && c == .take then .out .ended else .next
  | .continue_ => if c == .take then .out .backAtTop else .next
  | .spawn => .next

/-- sites `i, i+1, ..` of an iteration: `path k` says whether site `k` lies on the path taken, `oracle k` what happens there.
    Every subsequence of the sites is a path (an over-approximation of the paths through the body). -/
def runFrom (path : Nat → Bool) (oracle : Nat → Choice) : Nat → List Site → Outcome
  | _, [] => .backAtTop
  | i, s :: rest =>
    if path i then
      match stepSite s (oracle i) with
      | .next => runFrom path oracle (i + 1) rest
      | .out o => o
    else runFrom path oracle (i + 1) rest

def iteration (l : Loop) (path : Nat → Bool) (oracle : Nat → Choice) : Outcome :=
  runFrom path oracle 0 l.level

/-! ## the syntactic criterion -/

/-- a site of the loop's own task at which one peer can stop the loop for everybody -/
def Site.violates (s : Site) : Bool :=
  match s.kind with
  | .await_ => if s.service then s.fallible && !s.handled else true
  | .question => s.perFlow && !s.handled
  | .unwrap_ => s.perFlow && !s.handled
  | .break_ => s.perFlow
  | .return_ => s.perFlow
  | .continue_ => false
  | .spawn => false

def nonIsolatedSites (l : Loop) : List Site := l.level.filter Site.violates

/-- no site of the loop's own task is a flow-dependent await, an unconsumed flow-dependent `?`/`unwrap`, an own-resource
    operation whose failure leaves the loop, or a `break`/`return` a peer can bring about -/
def Loop.isolated (l : Loop) : Bool := l.level.all (fun s => !s.violates)

/-! ## service state over a sequence of iterations -/

inductive Service where
  | serving | over | blocked
deriving Repr, DecidableEq

def Service.after : Service → Outcome → Service
  | .serving, .backAtTop => .serving
  | .serving, .ended => .over
  | .serving, .stuck => .blocked
  | s, _ => s

/-- one adversarial iteration: the path taken and the outcomes chosen -/
structure Iter where
  path : Nat → Bool
  oracle : Nat → Choice

def runIters (l : Loop) (s : Service) (its : List Iter) : Service :=
  its.foldl (fun s it => s.after (iteration l it.path it.oracle)) s

/-! ## loops that serve one association -/

/-- For a loop that belongs to one association, the statement is about which faults end it: a site of its own task that ends
    the association on something a single datagram can bring about - a `break`/`return` whose cause is flow data or no
    condition at all, a `?`/`unwrap` on flow data. -/
def Site.endsOnDatagram (s : Site) : Bool :=
  match s.kind with
  | .break_ => s.cause == .flowData || s.cause == .always || s.cause == .none
  | .return_ => s.cause == .flowData || s.cause == .always || s.cause == .none
  | .question => s.perFlow && !s.handled
  | .unwrap_ => s.perFlow && !s.handled
  | _ => false

def datagramEnders (l : Loop) : List Site := l.level.filter Site.endsOnDatagram

def Loop.assocOk (l : Loop) : Bool := l.level.all (fun s => !s.endsOnDatagram)

/-- an oracle that brings about only datagram-level faults: it never takes a jump whose cause is the close / failure of the
    association's own channel or socket, or a test of the association's own state -/
def datagramLevel (sites : List Site) (oracle : Nat → Choice) : Prop :=
  ∀ i (h : i < sites.length),
    ((sites[i]).kind = .break_ ∨ (sites[i]).kind = .return_) →
    ((sites[i]).cause = .svcClosed ∨ (sites[i]).cause = .svcError ∨ (sites[i]).cause = .localState) →
    oracle i ≠ .take

/-- one iteration of a per-association loop, where an own-resource failure that is not consumed is a `svcError` of the
    association itself (not a datagram-level fault) and therefore not counted: only `?`/`unwrap`/`break`/`return` count -/
def stepSiteAssoc (s : Site) (c : Choice) : Step :=
  match s.kind with
  | .await_ => if !s.service && c == .stall then .out .stuck else .next
  | .question => if s.perFlow && !s.handled && c == .fail then .out .ended else .next
  | .unwrap_ => if s.perFlow && !s.handled && c == .fail then .out .ended else .next
  | .break_ => if c == .take then .out .ended else .next
  | .return_ => if c == .take then .out .ended else .next
  | .continue_ => if c == .take then .out .backAtTop else .next
  | .spawn => .next

def runFromAssoc (path : Nat → Bool) (oracle : Nat → Choice) : Nat → List Site → Outcome
  | _, [] => .backAtTop
  | i, s :: rest =>
    if path i then
      match stepSiteAssoc s (oracle i) with
      | .next => runFromAssoc path oracle (i + 1) rest
      | .out o => o
    else runFromAssoc path oracle (i + 1) rest

def iterationAssoc (l : Loop) (path : Nat → Bool) (oracle : Nat → Choice) : Outcome :=
  runFromAssoc path oracle 0 l.level

end Octo.Loops
