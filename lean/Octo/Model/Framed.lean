import Octo.Base.Res
/-!
  Generic framing.  A stream decoder of the repo is modelled as a *unit step*
  (`need` more bytes / `fail` / `take` n bytes producing output and a new state); the Rust
  `Decoder::decode` is "run unit steps until `need`, hand out what was produced"; the
  `tokio_util::codec::FramedRead` and `WebSocketFramed` adapters are modelled on top.
-/
namespace Octo.Fr

inductive Step (σ ο : Type) where
  | need
  | fail (s : σ) (n : Nat)          -- state and bytes consumed when the step fails (post-failure state)
  | take (s : σ) (n : Nat) (o : List ο)

structure Out (σ ο : Type) where
  st : σ
  buf : Bytes
  out : List ο
  failed : Bool

variable {σ ο : Type}

/-- iterate the unit step (fuel = an upper bound on the number of steps) -/
def drain (unit : σ → Bytes → Step σ ο) : Nat → σ → Bytes → Out σ ο
  | 0, s, b => ⟨s, b, [], false⟩
  | fuel+1, s, b =>
    match unit s b with
    | .need => ⟨s, b, [], false⟩
    | .fail s' n => ⟨s', b.drop n, [], true⟩
    | .take s' n o =>
      let r := drain unit fuel s' (b.drop n)
      ⟨r.st, r.buf, o ++ r.out, r.failed⟩

/-- one Rust `decode` call: all the units the buffer allows -/
def run (unit : σ → Bytes → Step σ ο) (s : σ) (b : Bytes) : Out σ ο := drain unit (b.length + 1) s b

/-- a unit step that makes progress and whose decisions are stable under more input -/
structure Good (unit : σ → Bytes → Step σ ο) : Prop where
  progress : ∀ s b s' n o, unit s b = .take s' n o → 0 < n ∧ n ≤ b.length
  stable_take : ∀ s b t s' n o, unit s b = .take s' n o → unit s (b ++ t) = .take s' n o
  stable_fail : ∀ s b t s' n, unit s b = .fail s' n → unit s (b ++ t) = .fail s' n
  fail_le : ∀ s b s' n, unit s b = .fail s' n → n ≤ b.length

/-- feeding one more piece to a stream that has (or has not) failed: what
`FramedRead` does across read events (a failure ends the stream) -/
def feed (unit : σ → Bytes → Step σ ο) (r : Out σ ο) (piece : Bytes) : Out σ ο :=
  if r.failed then ⟨r.st, r.buf ++ piece, r.out, true⟩ else
  let r2 := run unit r.st (r.buf ++ piece)
  ⟨r2.st, r2.buf, r.out ++ r2.out, r2.failed⟩

end Octo.Fr
