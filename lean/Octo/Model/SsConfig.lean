import Octo.Model.Ss
import Octo.Crypto.Base64
/-!
  From configuration text to codec context: cipher names (`codec/aead.rs` serde names), password →
  key (`protocol/shadowsocks.rs`: `openssl_bytes_to_key`, `password_to_keys`), users
  (`manager/shadowsocks.rs`: `ServerUser::try_from`).
-/
namespace Octo.Ss

def Kind.ofName : String → Option Kind
  | "aes-128-gcm" => some .aes128
  | "aes-256-gcm" => some .aes256
  | "chacha20-poly1305" => some .chacha20
  | "chacha20-ietf-poly1305" => some .chacha20
  | "2022-blake3-aes-128-gcm" => some .b3aes128
  | "2022-blake3-aes-256-gcm" => some .b3aes256
  | "2022-blake3-chacha8-poly1305" => some .b3chacha8
  | "2022-blake3-chacha20-poly1305" => some .b3chacha20
  | _ => none

/-- `password_to_exact_keys` / `ServerUser::try_from`: a key must be valid base64 of exactly N bytes -/
def decodeKey (n : Nat) (s : String) : Option Bytes :=
  match Crypto.Base64.decode s with
  | none => none
  | some b => if b.length ≠ n then none else some b

/-- `aead_2022::password_to_keys`: `ipsk1:ipsk2:…:key` -/
def passwordToKeys (n : Nat) (password : String) : Option (Bytes × List Bytes) :=
  let parts := (password.splitOn ":").map (decodeKey n)
  if parts.all Option.isSome then
    let ks := parts.filterMap id
    match ks.getLast? with
    | some k => some (k, ks.dropLast)
    | none => none
  else none

/-- `aead::openssl_bytes_to_key` (EVP_BytesToKey with MD5, no salt, one iteration) -/
def opensslBytesToKey (C : Crypto) (n : Nat) (password : Bytes) : Bytes :=
  let d1 := C.md5 password
  if n ≤ 16 then d1.take n else (d1 ++ C.md5 (d1 ++ password)).take n

def userOf (C : Crypto) (n : Nat) (name password : String) : Option User :=
  match decodeKey n password with
  | none => none
  | some k => some ⟨name, k, (C.blake3Hash k).take 16⟩

/-- `ClientContext::try_from` / `ServerContext::init` -/
def ctxOfConfig (C : Crypto) (cipher password : String) (users : List (String × String)) : Option Ctx :=
  match Kind.ofName cipher with
  | none => none
  | some k =>
    let us := users.map (fun (n, p) => userOf C k.n n p)
    if ¬ us.all Option.isSome then none else
    if k.is2022 then
      match passwordToKeys k.n password with
      | none => none
      | some (key, iks) => some { kind := k, key := key, identityKeys := iks, users := us.filterMap id }
    else some { kind := k, key := opensslBytesToKey C k.n password.toUTF8.toList, users := us.filterMap id }

/-- the UDP paths (`Client::new_static`, `startup_udp`): the same derivation as on TCP -/
def udpCtxOfConfig (C : Crypto) (cipher password : String) (users : List (String × String)) : Option Ctx :=
  ctxOfConfig C cipher password users

end Octo.Ss
