import Octo.Base.Bytes
/-!
  Model of the long-lived loops: server `startup_tcp` accept loop (plain and TLS), server
  `startup_udp` select loop with its association table, client `transfer_tcp` accept loop and
  client `transfer_udp` select loop — as state machines whose transitions are the code's own error
  dispositions for each fault of the catalogue.  This is a hand abstraction of control flow (which
  `?`, `break`, `continue`, inline `await`, spawned task each fault meets); it is validated by
  injecting every fault into the real loops (in-process end-to-end tier of `bin/check C08`).
  `…Old` are the dispositions before the repairs recorded in KNOWN_FINDINGS.txt — kept to show that
  the statement is not vacuous (the same theorem is false of them).
-/
namespace Octo.Listener

/-- per-flow faults -/
inductive Fault where
  | acceptError            -- accept() fails (e.g. EMFILE for a moment)
  | tcpGarbage             -- a connection sends bytes that are no valid handshake
  | tcpStall               -- a connection is opened and nothing (or half a handshake) is sent
  | tcpReset               -- the peer resets in the middle
  | tlsFail                -- TLS handshake fails
  | tlsStall               -- TLS handshake never completes
  | wsFail                 -- WebSocket upgrade fails
  | targetUnreachable      -- connect to the target is refused / times out
  | targetUnresolvable     -- DNS resolution fails
  | udpGarbage             -- an undecodable datagram
  | udpReplay              -- a replayed / duplicate / stale datagram of an existing session
  | udpTargetUnresolvable  -- a datagram for a name that does not resolve
  | localGarbage           -- garbage on the client's local TCP port
  | localStall             -- a local connection that never completes its handshake
  | localUdpGarbage        -- a malformed SOCKS5-UDP datagram on the client's local UDP port
  | outboundFail           -- the client cannot reach / write to the server for one binding
  | bindingStall           -- the client opens a binding whose connection to the server stalls in its tls / websocket / quic handshake
  | udpFlood               -- udp sessions whose clients and targets both send in bursts (every queue between the tasks fills)
  | resolverStall          -- flows name targets whose resolver does not answer (each look-up waits for its time-out)
deriving Repr, DecidableEq

/-- state of a service (one listening loop + its tables) -/
structure State where
  accepting : Bool := true      -- the loop is running and gets back to `accept` / `recv_from`
  blocked : Bool := false       -- the loop is stuck inside an inline await of one flow
  deadEntries : Nat := 0        -- table entries whose task has ended (a later packet for them fails)
deriving Repr, DecidableEq

def State.serves (s : State) : Bool := s.accepting && !s.blocked

/-- where each fault lands in the **current** code: in the connection's own spawned task, or in a
`match`/`if let Err` arm that logs and goes back to the top of the loop -/
def step (s : State) (_ : Fault) : State := s

/-- dispositions before the repairs -/
def stepOld (s : State) : Fault → State
  | .acceptError => { s with accepting := false }                 -- `while let Ok(..) = accept()` ended
  | .tlsStall => { s with blocked := true }                        -- TLS accept awaited inside the accept loop
  | .udpReplay => { s with deadEntries := s.deadEntries + 1 }      -- association `break`s, entry stays
  | .udpTargetUnresolvable => { s with deadEntries := s.deadEntries + 1 }
  | .udpGarbage => if s.deadEntries > 0 then { s with accepting := false } else s  -- next packet of a dead entry: `try_send(..)?`
  | .localUdpGarbage => { s with blocked := true }                 -- Err left the datagram in the read buffer: every poll re-failed
  | .outboundFail => { s with accepting := false }                 -- `new_out(..).await?` / `sink.send(..).await?`
  | .bindingStall => { s with blocked := true }                    -- `new_out(..).await` inside the loop that serves every local application
  | .udpFlood => { s with blocked := true }                        -- the loop awaited room in one association's queue while that association awaited room in the loop's
  | .resolverStall => { s with blocked := true }                   -- `to_socket_addrs()` on the worker thread: as many such flows as workers and nothing runs
  | _ => s

def run (f : State → Fault → State) (s : State) (faults : List Fault) : State := faults.foldl f s

end Octo.Listener
