import Octo.Model.SaltCache
/-!
  Interleaving semantics for the state shared between flows.  Each critical section (`Mutex` guard
  held) is one atomic step; a schedule is the order in which the flows' steps run.
-/
namespace Octo.Interleave
open Octo.SaltCache

/-- progress of one copy of a request through `init_aead_2022_payload_decoder` -/
inductive Pc where
  | start        -- before `check_nonce`
  | checked      -- `check_nonce` said "not seen": on its way to `set_nonce`
  | accepted
  | rejected
deriving Repr, DecidableEq

structure World where
  cache : Cache
  pcs : List Pc        -- one per concurrent copy

/-- flow `i` takes its next atomic step at time `now` -/
def step (ttl cap now : Nat) (salt : Bytes) (w : World) (i : Nat) : World :=
  match w.pcs[i]? with
  | some .start =>
    let (seen, c) := SaltCache.get ttl now w.cache salt
    { cache := c, pcs := w.pcs.set i (if seen then .rejected else .checked) }
  | some .checked =>
    let (dup, c) := SaltCache.insert ttl cap now w.cache salt
    { cache := c, pcs := w.pcs.set i (if dup then .rejected else .accepted) }
  | _ => w

def run (ttl cap now : Nat) (salt : Bytes) (w : World) (sched : List Nat) : World :=
  sched.foldl (step ttl cap now salt) w

def accepted (w : World) : Nat := (w.pcs.filter (· = .accepted)).length

/-- the cipher cache: get-or-insert keyed by (kind, key, session id); the value is a pure function of the key -/
def getOrInsert {κ ν : Type} [DecidableEq κ] (mk : κ → ν) (cache : List (κ × ν)) (k : κ) : ν × List (κ × ν) :=
  match cache.find? (·.1 = k) with
  | some e => (e.2, cache)
  | none => (mk k, (k, mk k) :: cache)

end Octo.Interleave
