import Octo.Model.Pump
import Octo.Model.Listener
/-
  Two relay hops in a row — the client's `relay_tcp` and the server's `relay_bidirectional` — joined
  by the client-server link, with a scripted application and a scripted target at the ends.
  What one hop delivers becomes what the next hop's source yields; a closed sink or a torn-down hop
  is end-of-stream for the next one.  The codecs are the identity on items here: that they are is
  C04 (for every payload and segmentation) — this file is about who sees which item and which end.
-/
namespace Octo.System
open Octo.Pump

inductive TargetKind where
  | up | refused | unresolvable
deriving Repr, DecidableEq

structure Scenario where
  up : List Bytes               -- chunks the application writes
  down : List Bytes             -- what the target answers once everything has arrived
  targetClosesFirst : Bool
  target : TargetKind := .up
  cutAfter : Option Nat := none   -- the link is cut once this many chunks have crossed
  serverUp : Bool := true
  appEarly : Bool := false        -- the application closes its sending side right after its last write
  preamble : List Bytes := []     -- plain http: the request itself is the first thing forwarded
  resetApp : Bool := false        -- the application resets once its bytes have arrived
  resetTarget : Bool := false     -- the target resets once everything has arrived (it never answers)
  resetAnswer : Bool := false     -- the target answers and is gone at once, part of the upload still unread: its kernel resets
  hold : Bool := false            -- the target closes first; the application sees the end and stays, idle
deriving Repr

structure Chain where
  client : Flow        -- up: application → link;  down: link → application
  server : Flow        -- up: link → target;       down: target → link
  upSent : Nat := 0    -- items of `client.up.delivered` that have reached the server's source
  upEnd : Bool := false
  downSent : Nat := 0
  downEnd : Bool := false
  answered : Bool := false
  appClosed : Bool := false
  cut : Bool := false
deriving Repr

def size (l : List Bytes) : Nat := (l.map List.length).sum

/-- the link: deliveries of one hop feed the other hop's source; an end is passed on once -/
def link (c : Chain) : Chain :=
  let newUp := (c.client.up.delivered.drop c.upSent).map Src.item
  let upEndNow := !c.upEnd && (c.client.up.sinkClosed || c.client.tornDown)
  let newDown := (c.server.down.delivered.drop c.downSent).map Src.item
  let downEndNow := !c.downEnd && (c.server.down.sinkClosed || c.server.tornDown)
  { c with
    server := { c.server with up := { c.server.up with script := c.server.up.script ++ newUp ++ (if upEndNow then [Src.eof] else []) } }
    client := { c.client with down := { c.client.down with script := c.client.down.script ++ newDown ++ (if downEndNow then [Src.eof] else []) } }
    upSent := c.client.up.delivered.length
    upEnd := c.upEnd || upEndNow
    downSent := c.server.down.delivered.length
    downEnd := c.downEnd || downEndNow }

/-- the scripted ends: the target answers when everything has arrived (and then closes, if it is
the one to close first); the application closes once it has the whole answer; the link is cut when told -/
def react (sc : Scenario) (c : Chain) : Chain :=
  let c := if !c.answered && sc.cutAfter.isNone && size c.server.up.delivered ≥ size sc.preamble + size sc.up then
      if sc.resetApp then
        { c with answered := true, appClosed := true, client := { c.client with up := { c.client.up with script := c.client.up.script ++ [Src.fail] } } }
      else if sc.resetTarget then
        { c with answered := true, server := { c.server with down := { c.server.down with script := c.server.down.script ++ [Src.fail] } } }
      else if sc.resetAnswer then
        -- the answer, then the reset: the server's read of the target fails *behind* the answer
        { c with answered := true,
                 server := { c.server with down := { c.server.down with script := c.server.down.script ++ sc.down.map Src.item ++ [Src.fail] } } }
      else
      { c with answered := true,
               server := { c.server with down := { c.server.down with script := c.server.down.script ++ sc.down.map Src.item ++ (if sc.targetClosesFirst then [Src.eof] else []) } } }
    else c
  let c := if !c.appClosed && !sc.appEarly && !sc.targetClosesFirst && !sc.resetTarget && !sc.resetAnswer && sc.cutAfter.isNone && c.answered && size c.client.down.delivered ≥ size sc.down then
      { c with appClosed := true, client := { c.client with up := { c.client.up with script := c.client.up.script ++ [Src.eof] } } }
    else c
  match sc.cutAfter with
  | some k =>
    if !c.cut && c.server.up.delivered.length ≥ sc.preamble.length + k then
      { c with cut := true, upEnd := true, downEnd := true,
               server := { c.server with up := { c.server.up with script := c.server.up.script ++ [Src.fail] } },
               client := { c.client with down := { c.client.down with script := c.client.down.script ++ [Src.fail] } } }
    else c
  | none => c

def round (sc : Scenario) (c : Chain) : Chain :=
  let c := link { c with client := c.client.step .up }
  let c := react sc (link { c with server := c.server.step .up })
  let c := link { c with server := c.server.step .down }
  react sc (link { c with client := c.client.step .down })

def rounds (sc : Scenario) : Nat → Chain → Chain
  | 0, c => c
  | n + 1, c => rounds sc n (round sc c)

def start (sc : Scenario) : Chain :=
  let upScript := match sc.cutAfter with
    | some k => (sc.preamble ++ sc.up.take k).map Src.item
    | none => (sc.preamble ++ sc.up).map Src.item ++ (if sc.appEarly then [Src.eof] else [])
  let reachable := sc.serverUp && sc.target == .up
  { client := { up := { script := upScript }, down := { script := [] }, tornDown := !sc.serverUp },
    server := { up := { script := [] }, down := { script := [] }, tornDown := !reachable } }

structure Obs where
  dialed : Bool
  upGot : Nat
  upWant : Nat
  upOk : Bool
  downGot : Nat
  downWant : Nat
  downOk : Bool
  eof : Bool
  targetEof : Bool
  released : Bool      -- both hops are torn down: nothing of the flow is held any more
deriving Repr

def simulate (sc : Scenario) : Obs :=
  let c := rounds sc (2 * (sc.up.length + sc.down.length) + 16) (link (start sc))
  -- the target's address travels with the first item: the server dials when that has arrived
  let dialed := sc.serverUp && sc.target == .up && (c.server.up.delivered.length > 0 || c.server.up.returned && sc.cutAfter.isNone)
  let upGot := if dialed then c.server.up.delivered else []
  let wantUp := match sc.cutAfter with
    | some k => sc.preamble ++ sc.up.take k
    | none => sc.preamble ++ sc.up
  { dialed := dialed
    upGot := size upGot, upWant := size sc.up, upOk := upGot.flatten == wantUp.flatten
    downGot := size c.client.down.delivered, downWant := size sc.down, downOk := c.client.down.delivered.flatten == sc.down.flatten
    eof := c.client.down.sinkClosed || c.client.tornDown
    targetEof := dialed && (c.server.up.sinkClosed || c.server.tornDown)
    released := c.client.tornDown && c.server.tornDown }

def b2 (b : Bool) : String := if b then "1" else "0"

/-- the observation in the harness's text form -/
def Obs.text (sc : Scenario) (o : Obs) : String :=
  if sc.target != .up then
    s!"dialed={b2 o.dialed} down={o.downGot} eof={b2 o.eof} prompt={b2 o.eof}"
  else if sc.appEarly then
    let up := if o.upOk then "ok" else s!"diff:{o.upGot}of{o.upWant}"
    s!"dialed={b2 o.dialed} up={up} eof={b2 o.eof} target-eof={b2 o.targetEof} prompt={b2 (o.eof && o.targetEof)}"
  else if sc.resetApp then
    s!"dialed={b2 o.dialed} up={if o.upOk then "ok" else "diff"} end={b2 o.targetEof} prompt={b2 o.targetEof}"
  else if sc.resetAnswer then
    let down := if o.downOk then "ok" else s!"diff:{o.downGot}of{o.downWant}"
    s!"dialed={b2 o.dialed} down={down} eof={b2 o.eof} prompt={b2 o.eof}"
  else if sc.resetTarget then
    s!"dialed={b2 o.dialed} up={if o.upOk then "ok" else "diff"} end={b2 o.eof} prompt={b2 o.eof}"
  else if sc.cutAfter.isSome then
    s!"dialed={b2 o.dialed} up-prefix={if o.upOk then "ok" else "diff"} eof={b2 o.eof} target-eof={b2 o.targetEof} prompt={b2 (o.eof && (o.targetEof || !o.dialed))}"
  else
    let up := if o.upOk then "ok" else s!"diff:{o.upGot}of{o.upWant}"
    let down := if o.downOk then "ok" else s!"diff:{o.downGot}of{o.downWant}"
    let te := if sc.targetClosesFirst then "-" else b2 o.targetEof
    let prompt := if sc.targetClosesFirst then o.dialed && o.eof else o.eof && o.targetEof
    let held := if sc.hold then (if o.released then " idle-held=0" else " idle-held=held") else ""
    s!"dialed={b2 o.dialed} up={up} down={down} eof={b2 o.eof} target-eof={te} prompt={b2 prompt}{held}"

end Octo.System
