import Octo.Base.Bytes
/-!
  Model of the relay pumps: `client/template.rs::relay_tcp` and
  `server/template.rs::relay_bidirectional` — two `StreamExt::forward` futures (futures-util 0.3, as
  locked) under `tokio::try_join!`.

  `forward`: take the next item of the stream and feed it to the sink, in order; when the stream
  ends, flush and close the sink and return; on a stream or sink error return the error at once.
  Both futures map their result to `Err(..)`, so `try_join!` returns — and drops the other future
  together with its stream and sink halves — as soon as either direction returns.
  The schedule (which future is polled next, how far it gets) is arbitrary.
-/
namespace Octo.Pump

/-- what the source of one direction does next -/
inductive Src where
  | item (b : Bytes)     -- yields a decoded item
  | eof                  -- ends (peer closed its write side)
  | fail                 -- yields an error (reset, decode error)
deriving Repr, DecidableEq

/-- one direction of a flow -/
structure Dir where
  script : List Src          -- what the source will still yield, in order (ends implicitly with "stays open")
  delivered : List Bytes := []   -- items written to the sink, in order
  sinkClosed : Bool := false     -- the sink has been flushed and closed: the peer sees end-of-stream
  returned : Bool := false       -- the `forward` future has returned
deriving Repr, DecidableEq

/-- one poll of a `forward` future that makes progress by one source event -/
def Dir.step (d : Dir) : Dir :=
  if d.returned then d else
  match d.script with
  | [] => d                                                   -- source pending: nothing happens
  | .item b :: r => { d with script := r, delivered := d.delivered ++ [b] }
  | .eof :: r => { d with script := r, sinkClosed := true, returned := true }   -- flush + close, then Ok
  | .fail :: r => { d with script := r, returned := true }    -- error: returns without closing the sink itself

structure Flow where
  up : Dir       -- local application → … → target
  down : Dir     -- target → … → local application
  tornDown : Bool := false     -- `try_join!` has returned: both futures, all four halves dropped
deriving Repr, DecidableEq

inductive Pick where
  | up | down
deriving Repr, DecidableEq

/-- the scheduler polls one of the two futures -/
def Flow.step (f : Flow) (p : Pick) : Flow :=
  if f.tornDown then f else
  let f' := match p with
    | .up => { f with up := f.up.step }
    | .down => { f with down := f.down.step }
  if f'.up.returned ∨ f'.down.returned then { f' with tornDown := true } else f'

def Flow.run (f : Flow) (sched : List Pick) : Flow := sched.foldl Flow.step f

/-- the items of a script, in order -/
def items : List Src → List Bytes
  | [] => []
  | .item b :: r => b :: items r
  | _ :: r => items r

/-- the items in front of the first end/failure: what this source ever hands over -/
def itemsBeforeEnd : List Src → List Bytes
  | .item b :: r => b :: itemsBeforeEnd r
  | _ => []

/-- sockets and tasks a flow holds: four halves while it runs, none once torn down (ownership: the
futures own the halves, dropping them releases the descriptors) -/
def Flow.resources (f : Flow) : Nat := if f.tornDown then 0 else 4

end Octo.Pump
