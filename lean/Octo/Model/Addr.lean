import Octo.Base.Res
/-!
  Model of `protocol/socks5/address.rs` (`encode`, `decode`, `length`, `try_decode_at`) and of
  `protocol/vmess.rs::address` (`write_address_port`, `read_address_port`).
-/
namespace Octo

/-- `protocol::address::Address`; a domain name is kept as raw bytes (the Rust builds the `String`
with `from_utf8_unchecked` in the SOCKS5 form). -/
inductive Addr where
  | domain (host : Bytes) (port : Nat)
  | v4 (ip : Bytes) (port : Nat)
  | v6 (ip : Bytes) (port : Nat)
deriving Repr, DecidableEq

namespace Addr

def port : Addr → Nat
  | domain _ p => p
  | v4 _ p => p
  | v6 _ p => p

/-- values the Rust type can hold at all -/
def WF : Addr → Prop
  | domain _ p => p < 65536
  | v4 ip p => ip.length = 4 ∧ p < 65536
  | v6 ip p => ip.length = 16 ∧ p < 65536

instance (a : Addr) : Decidable a.WF := by cases a <;> unfold WF <;> exact inferInstance

/-- what the client's local handshake lets through (after the C14 fix: a domain name must have
1..=255 bytes; socket addresses are always representable) -/
def Accepted : Addr → Prop
  | domain h p => 0 < h.length ∧ h.length ≤ 255 ∧ p < 65536
  | a => a.WF

instance (a : Addr) : Decidable a.Accepted := by cases a <;> unfold Accepted <;> exact inferInstance

end Addr

namespace Socks5Addr

/-- `address::encode` (the length byte is `host.len() as u8`, i.e. truncated mod 256) -/
def encode : Addr → Bytes
  | .domain h p => [3, u8 h.length] ++ h ++ be16 p
  | .v4 ip p => [1] ++ ip ++ be16 p
  | .v6 ip p => [4] ++ ip ++ be16 p

/-- `address::length` -/
def length : Addr → Nat
  | .domain h _ => 1 + 1 + h.length + 2
  | .v4 _ _ => 1 + 4 + 2
  | .v6 _ _ => 1 + 16 + 2

/-- `address::decode`: returns the address and the unread rest.  The length guard in front of the
cursor reads is the one the Rust has (a truncated address is an error, never a panic). -/
def decode (b : Bytes) : Res (Addr × Bytes) :=
  if b.length = 0 then .err else do
  let (t, b) ← Buf.getU8 b
  if t ≠ 1 ∧ t ≠ 3 ∧ t ≠ 4 then .err else
  let required : Nat :=
    if t = 1 then 4 + 2
    else if t = 4 then 16 + 2
    else match b with
      | [] => 1
      | l :: _ => 1 + l.toNat + 2
  if b.length < required then .err else
  if t = 1 then do
    let (ip, b) ← Buf.take 4 b
    let (p, b) ← Buf.getU16 b
    pure (.v4 ip p, b)
  else if t = 3 then do
    let (l, b) ← Buf.getU8 b
    let (h, b) ← Buf.take l.toNat b
    let (p, b) ← Buf.getU16 b
    pure (.domain h p, b)
  else do
    let (ip, b) ← Buf.take 16 b
    let (p, b) ← Buf.getU16 b
    pure (.v6 ip p, b)

/-- `address::try_decode_at(src, at)`: indexing `src[at]`, `src[at+1]` panics out of range -/
def tryDecodeAt (b : Bytes) (at_ : Nat) : Res Nat :=
  match b[at_]? with
  | none => .panic
  | some t =>
    if t = 1 then .ok (1 + 4 + 2)
    else if t = 3 then
      match b[at_ + 1]? with
      | none => .panic
      | some l => .ok (1 + 1 + l.toNat + 2)
    else if t = 4 then .ok (1 + 16 + 2)
    else .err

end Socks5Addr

namespace VmessAddr

/-- `vmess::address::write_address_port`: `panic!` on an empty domain name -/
def write : Addr → Res Bytes
  | .domain h p => if h.length = 0 then .panic else .ok (be16 p ++ [2, u8 h.length] ++ h)
  | .v4 ip p => .ok (be16 p ++ [1] ++ ip)
  | .v6 ip p => .ok (be16 p ++ [3] ++ ip)

/-- validity of the bytes as UTF-8 is decided by the caller-supplied predicate
(`String::from_utf8`); the model is parametric in it and the driver plugs in a real validator -/
def read (utf8Ok : Bytes → Bool) (b : Bytes) : Res (Addr × Bytes) := do
  let (p, b) ← Buf.getU16 b
  let (t, b) ← Buf.getU8 b
  if t = 1 then
    let (ip, b) ← Buf.take 4 b
    pure (.v4 ip p, b)
  else if t = 2 then
    let (l, b) ← Buf.getU8 b
    let (h, b) ← Buf.take l.toNat b
    if utf8Ok h then pure (.domain h p, b) else .err
  else if t = 3 then
    let (ip, b) ← Buf.take 16 b
    pure (.v6 ip p, b)
  else .panic   -- `AddressType::new` panics on an unknown type byte

end VmessAddr
end Octo
