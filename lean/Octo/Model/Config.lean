import Octo.Model.SsConfig
import Octo.Gen.Consts
/-!
  Configuration names → behaviour.  The name tables and predicate sets (`Consts.cipherNames`,
  `ciphers2022`, `ciphersEih`, `modeNames`, `modeTcp/Udp/Quic`, `protocolNames`) are *extracted from
  the source on every run* (serde renames of `CipherKind`, `Mode`, `Protocol`; the `matches!` sets of
  `is_aead_2022`, `support_eih`, `enable_tcp/udp/quic`).  `README` below is the documentation,
  transcribed.
-/
namespace Octo.Config

/-- serde: the variant a documented name deserialises to (`none` = unknown variant, startup error) -/
def lookup (table : List (String × String)) (name : String) : Option String := (table.find? (·.1 == name)).map (·.2)

structure Listeners where
  tcp : Bool
  udp : Bool
  quic : Bool
deriving Repr, DecidableEq

/-- `Mode::enable_tcp/udp/quic` of the variant a mode name selects -/
def listenersOf (name : String) : Option Listeners :=
  (lookup Consts.modeNames name).map fun v =>
    ⟨Consts.modeTcp.contains v, Consts.modeUdp.contains v, Consts.modeQuic.contains v⟩

structure CipherInfo where
  variant : String
  is2022 : Bool
  eih : Bool
deriving Repr, DecidableEq

def cipherOf (name : String) : Option CipherInfo :=
  (lookup Consts.cipherNames name).map fun v => ⟨v, Consts.ciphers2022.contains v, Consts.ciphersEih.contains v⟩

/-! ### the README, transcribed -/

/-- "Ciphers" table + the alias the example configs use: name ↦ (algorithm, key bytes, 2022?, identity headers?) -/
def readmeCiphers : List (String × (Alg × Nat × Bool × Bool)) :=
  [("aes-128-gcm", (.aes128gcm, 16, false, false)),
   ("aes-256-gcm", (.aes256gcm, 32, false, false)),
   ("chacha20-poly1305", (.chacha20, 32, false, false)),
   ("chacha20-ietf-poly1305", (.chacha20, 32, false, false)),
   ("2022-blake3-aes-128-gcm", (.aes128gcm, 16, true, true)),
   ("2022-blake3-aes-256-gcm", (.aes256gcm, 32, true, true)),
   ("2022-blake3-chacha8-poly1305", (.chacha8, 32, true, false)),
   ("2022-blake3-chacha20-poly1305", (.chacha20, 32, true, false))]

/-- "mode" options: which sockets each opens -/
def readmeModes : List (String × Listeners) :=
  [("tcp", ⟨true, false, false⟩), ("udp", ⟨false, true, false⟩), ("tcp_and_udp", ⟨true, true, false⟩),
   ("quic", ⟨false, false, true⟩), ("tcp_and_quic", ⟨true, false, true⟩)]

def readmeProtocols : List String := ["shadowsocks", "vmess", "trojan"]

/-- what the model's cipher selection (`Kind.ofName`, used by every codec model) says for a name -/
def modelCipher (name : String) : Option (Alg × Nat × Bool × Bool) :=
  (Ss.Kind.ofName name).map fun k => (k.alg, k.n, k.is2022, k.supportEih)

end Octo.Config
