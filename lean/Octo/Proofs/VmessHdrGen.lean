import Octo.Gen.VmessHdrGen
import Octo.Proofs.VmessBodyGen
import Octo.Proofs.VmessAddrGen
import Octo.Model.Vmess
/-!
  The generated code (`Octo.VmessHdrGen`, written by `translate_vmesshdr.py` from `server/vmess.rs`, `client/vmess.rs`,
  `protocol/vmess/aead/{auth_id,encrypt}.rs`, `protocol/vmess/header.rs`) against the hand model `Octo.Vmess`
  (`Octo/Model/Vmess.lean`): `Client.decode` (response header), `authIdMatch`, `openHeader`, `Server.decode` (first step).

  Part 0: evaluation rules.  Part 1: what is assumed of the externals (`HExtOk`), salts.  Part 2: the client's response header.
  Part 3: `auth_id::matching` = `authIdMatch` (with the exact i64 guard, and the difference outside it).
  Part 4: `encrypt::open_header` = `openHeader`.  Part 5: the server's first step up to the header parse.
-/
set_option linter.unusedSimpArgs false
set_option linter.unusedVariables false
namespace Octo.VmessHdrGen
open Octo Octo.PWGen Octo.AddrGen Octo.Vmess
open Octo.VmessBodyGen (DynSession ServerSession ClientSession AEADBodyCodec)

/-! ## Part 0 — evaluation rules -/
section flow
variable {α β σ ρ : Type}
theorem call_ok (a : α) : (Flow.call (PWGen.Res.ok a) : Flow α ρ) = Flow.next a := rfl
theorem call_panic : (Flow.call (PWGen.Res.panic : PWGen.Res α) : Flow α ρ) = Flow.panic := rfl
theorem check_true : (Flow.check true : Flow Unit ρ) = Flow.next () := rfl
theorem as_client_ok (s : ClientSession) : (Flow.as_client (.ClientSession s) : Flow ClientSession ρ) = Flow.next s := rfl
theorem as_server_ok (s : ServerSession) : (Flow.as_server (.ServerSession s) : Flow ServerSession ρ) = Flow.next s := rfl
theorem ite_next_next (c : Prop) [Decidable c] (a : α) : (if c then (Flow.next a : Flow α ρ) else Flow.next a) = Flow.next a := by
  split <;> rfl
end flow

theorem remaining_toNat (b : List UInt8) (h : b.length < 2 ^ 64) : (Cursor.remaining b).toNat = b.length :=
  Octo.VmessBodyGen.remaining_toNat b h
theorem len_toNat (b : List UInt8) (h : b.length < 2 ^ 64) : (Cursor.len b).toNat = b.length := by
  rw [Cursor.len, UInt64.toNat_ofNat_of_lt' (show _ < 18446744073709551616 by omega)]
theorem u16_as_usize_toNat (v : UInt16) : (U16.as_usize v).toNat = v.toNat := Octo.VmessBodyGen.u16_as_usize_toNat v
theorem lt_iff_toNat (a c : Usize) : a < c ↔ a.toNat < c.toNat := UInt64.lt_iff_toNat_lt
theorem add_toNat (a c : Usize) (h : a.toNat + c.toNat < 2 ^ 64) : (a + c).toNat = a.toNat + c.toNat :=
  Octo.VmessBodyGen.add_toNat a c h
theorem from_be_bytes_toNat (l : List UInt8) (h : l.length = 2) : (UInt16.ofNat (beNat l)).toNat = rdBE l := port_toNat l h

/-! ## Part 1 — the externals -/

theorem salt_resp_len_key : Kdf.SALT_AEAD_RESP_HEADER_LEN_KEY = saltRespLenKey := by with_unfolding_all rfl
theorem salt_resp_len_iv : Kdf.SALT_AEAD_RESP_HEADER_LEN_IV = saltRespLenIv := by with_unfolding_all rfl
theorem salt_resp_key : Kdf.SALT_AEAD_RESP_HEADER_PAYLOAD_KEY = saltRespKey := by with_unfolding_all rfl
theorem salt_resp_iv : Kdf.SALT_AEAD_RESP_HEADER_PAYLOAD_IV = saltRespIv := by with_unfolding_all rfl
theorem salt_length_key : Kdf.SALT_LENGTH_KEY = saltLengthKey := by with_unfolding_all rfl
theorem salt_length_iv : Kdf.SALT_LENGTH_IV = saltLengthIv := by with_unfolding_all rfl
theorem salt_payload_key : Kdf.SALT_PAYLOAD_KEY = saltPayloadKey := by with_unfolding_all rfl
theorem salt_payload_iv : Kdf.SALT_PAYLOAD_IV = saltPayloadIv := by with_unfolding_all rfl
theorem salt_auth_id : ([65, 69, 83, 32, 65, 117, 116, 104, 32, 73, 68, 32, 69, 110, 99, 114, 121, 112, 116, 105, 111, 110] : List UInt8) = saltAuthId := by
  with_unfolding_all rfl

theorem kdfn_length (C : Crypto) (n : Nat) (k : Bytes) (p : List Bytes) : (kdfn C n k p).length = n := by
  simp [kdfn, zeros]; omega
theorem kdf16_length (C : Crypto) (k : Bytes) (p : List Bytes) : (kdf16 C k p).length = 16 := kdfn_length C 16 k p

section ext
variable {CM XR W GCM : Type}

/-- **what is assumed of the externals**, relative to the model's abstract `Crypto`: `kdf16`/`kdfn` are the model's nested-HMAC
tree, an `Aes128Gcm` value stands for its key and is created from every 16-byte key, `decrypt` / `decrypt_in_place` succeed exactly
when the model's `openB` does (yielding the plaintext), `Aes128EcbNoPadding::decrypt` of one block under a 16-byte key is the
model's `aesDec`, CRC-32 and FNV-1a are the model's, the clock yields a non-negative number of seconds that fits an `i64` and
reading it does not change what it yields during the call, `new_decoder` cannot change the implementor behind `&mut dyn Session`. -/
structure HExtOk (X : Ext CM XR W GCM) (C : Crypto) where
  gcmKey : GCM → Bytes
  nowOf : W → Nat
  kdf16 : ∀ k p, X.kdf16 k p = Vmess.kdf16 C k p
  kdfn : ∀ n k p, X.kdfn n k p = Vmess.kdfn C n.toNat k p
  gcm_new : ∀ k, k.length = 16 → ∃ g, X.gcm_new k = RResult.ok g ∧ gcmKey g = k
  dec_ok : ∀ g n ad b p, C.openB .aes128gcm (gcmKey g) n ad b = some p → X.gcm_decrypt g n b ad = RResult.ok p
  dec_err : ∀ g n ad b, C.openB .aes128gcm (gcmKey g) n ad b = none → X.gcm_decrypt g n b ad = RResult.err
  decip_ok : ∀ g n ad b p, C.openB .aes128gcm (gcmKey g) n ad b = some p → X.gcm_decrypt_in_place g n ad b = (p, RResult.ok ())
  decip_err : ∀ g n ad b, C.openB .aes128gcm (gcmKey g) n ad b = none → (X.gcm_decrypt_in_place g n ad b).2 = RResult.err
  ecb : ∀ k b, k.length = 16 → b.length = 16 → X.ecb_decrypt k b = PWGen.Res.ok (C.aesDec k b)
  crc : ∀ b, (X.crc32 b).toNat = C.crc32 b
  fnv : ∀ b, (X.fnv1a32 b).toNat = C.fnv1a32 b
  now : ∀ w, ∃ w', X.now w = (w', RResult.ok (I64.ofNat (nowOf w))) ∧ nowOf w' = nowOf w
  now_lt : ∀ w, nowOf w < 2 ^ 62
  new_dec_client : ∀ h s, ∃ s' r, X.new_decoder h (.ClientSession s) = (.ClientSession s', r)
  new_dec_server : ∀ h s, ∃ s' r, X.new_decoder h (.ServerSession s) = (.ServerSession s', r)

end ext

/-! ## Part 2 — `ClientAEADCodec::decode`: the response header -/
section client
variable {CM XR W GCM : Type} {X : Ext CM XR W GCM} {C : Crypto}

/-- the generated client value stands for the model's session: response key / IV / byte -/
structure CRel (g : ClientAEADCodec CM XR) (s : Session) : Prop where
  key : g.session.response_body_key = s.respKey C
  iv : g.session.response_body_iv = s.respIv C
  hdr : g.session.response_header = s.respHeader

/-- the four derived keys of the response header -/
def respLk (C : Crypto) (s : Session) := kdf16 C (s.respKey C) [saltRespLenKey]
def respLi (C : Crypto) (s : Session) := kdfn C 12 (s.respIv C) [saltRespLenIv]
def respHk (C : Crypto) (s : Session) := kdf16 C (s.respKey C) [saltRespKey]
def respHi (C : Crypto) (s : Session) := kdfn C 12 (s.respIv C) [saltRespIv]

theorem e12 : (12 : Usize).toNat = 12 := rfl
theorem e18 : (Mem.size_of_u16 + (16 : Usize)) = 18 := rfl
theorem e18n : (18 : Usize).toNat = 18 := rfl
theorem e16n : (16 : Usize).toNat = 16 := rfl

theorem io_copy18 {ρ : Type} (src : List UInt8) (h : 18 ≤ src.length) :
    (Flow.io_copy_to_bytes (IoCursor.new src) 18 : Flow _ ρ) = Flow.next (⟨src, 18⟩, src.take 18) := by
  simp [Flow.io_copy_to_bytes, IoCursor.new, e18n, h]

theorem io_copy18' {ρ : Type} (src : List UInt8) (h : 18 ≤ src.length) :
    (Flow.io_copy_to_bytes (IoCursor.new src) (Mem.size_of_u16 + (16 : Usize)) : Flow _ ρ) = Flow.next (⟨src, 18⟩, src.take 18) :=
  io_copy18 src h

/-- what the first call does, case by case (`buf` non-empty, no body decoder yet).  `hl` = the announced header length. -/
inductive ClientHdr (C : Crypto) (s : Session) (buf : Bytes) : Type where
  /-- fewer than 18 bytes: wait, nothing consumed -/
  | short (h : buf.length < 18)
  /-- the sealed length does not open: error, nothing consumed -/
  | badLen (h : 18 ≤ buf.length) (ho : C.openB .aes128gcm (respLk C s) (respLi C s) [] (buf.take 18) = none)
  /-- the sealed header is not complete yet: wait, nothing consumed (the 18 bytes were only peeked) -/
  | more (h : 18 ≤ buf.length) (lb : Bytes) (ho : C.openB .aes128gcm (respLk C s) (respLi C s) [] (buf.take 18) = some lb)
      (hm : buf.length - 18 < rdBE lb + 16)
  /-- the sealed header does not open: error, the whole sealed header is consumed -/
  | badHdr (h : 18 ≤ buf.length) (lb : Bytes) (ho : C.openB .aes128gcm (respLk C s) (respLi C s) [] (buf.take 18) = some lb)
      (hm : ¬ buf.length - 18 < rdBE lb + 16)
      (hh : C.openB .aes128gcm (respHk C s) (respHi C s) [] ((buf.drop 18).take (rdBE lb + 16)) = none)
  /-- the header opens but is empty or its first byte is not the session's response byte: error -/
  | wrongByte (h : 18 ≤ buf.length) (lb : Bytes) (ho : C.openB .aes128gcm (respLk C s) (respLi C s) [] (buf.take 18) = some lb)
      (hm : ¬ buf.length - 18 < rdBE lb + 16) (hb : Bytes)
      (hh : C.openB .aes128gcm (respHk C s) (respHi C s) [] ((buf.drop 18).take (rdBE lb + 16)) = some hb)
      (hw : hb.head? ≠ some s.respHeader)
  /-- accepted -/
  | accept (h : 18 ≤ buf.length) (lb : Bytes) (ho : C.openB .aes128gcm (respLk C s) (respLi C s) [] (buf.take 18) = some lb)
      (hm : ¬ buf.length - 18 < rdBE lb + 16) (hb : Bytes)
      (hh : C.openB .aes128gcm (respHk C s) (respHi C s) [] ((buf.drop 18).take (rdBE lb + 16)) = some hb)
      (hw : hb.head? = some s.respHeader)

/-- every buffer falls into exactly one case -/
def ClientHdr.classify (C : Crypto) (s : Session) (buf : Bytes) : ClientHdr C s buf :=
  if h : buf.length < 18 then .short h else
  match ho : C.openB .aes128gcm (respLk C s) (respLi C s) [] (buf.take 18) with
  | none => .badLen (by omega) ho
  | some lb =>
    if hm : buf.length - 18 < rdBE lb + 16 then .more (by omega) lb ho hm else
    match hh : C.openB .aes128gcm (respHk C s) (respHi C s) [] ((buf.drop 18).take (rdBE lb + 16)) with
    | none => .badHdr (by omega) lb ho hm hh
    | some hb =>
      if hw : hb.head? = some s.respHeader then .accept (by omega) lb ho hm hb hh hw
      else .wrongByte (by omega) lb ho hm hb hh hw

/-- the model's `Client.decode` in the five cases that do not reach the body -/
def ClientHdr.refusal {C : Crypto} {s : Session} {buf : Bytes} : ClientHdr C s buf → Option (Bytes × Octo.Res Unit)
  | .short _ => some (buf, .more)
  | .badLen _ _ => some (buf, .err)
  | .more _ _ _ _ => some (buf, .more)
  | .badHdr _ lb _ _ _ => some (buf.drop (18 + rdBE lb + 16), .err)
  | .wrongByte _ lb _ _ _ _ _ => some (buf.drop (18 + rdBE lb + 16), .err)
  | .accept .. => none

def embedU : Octo.Res Unit → RResult (Option (List UInt8))
  | .more => RResult.ok none
  | _ => RResult.err

/-- **model side**: in the refusing cases `Client.decode` leaves the client untouched and yields exactly this buffer / outcome -/
theorem model_client_refusal (c : Client) (s : Session) (buf : Bytes) (hc : c.session = some s) (hd : c.dec = none)
    (hne : buf ≠ []) (k : ClientHdr C s buf) (rest : Bytes) (r : Octo.Res Unit) (hk : k.refusal = some (rest, r)) :
    Client.decode C c buf = ⟨c, rest, match r with | .more => .more | _ => .err⟩ := by
  have hne' : buf.isEmpty = false := by cases buf <;> simp_all
  cases k with
  | short h =>
    simp only [ClientHdr.refusal, Option.some.injEq, Prod.mk.injEq] at hk
    obtain ⟨rfl, rfl⟩ := hk
    simp [Client.decode, hc, hd, hne', h]
  | badLen h ho =>
    simp only [ClientHdr.refusal, Option.some.injEq, Prod.mk.injEq] at hk
    obtain ⟨rfl, rfl⟩ := hk
    have : ¬ buf.length < 18 := by omega
    simp only [respLk, respLi] at ho
    simp [Client.decode, hc, hd, hne', this, ho]
  | more h lb ho hm =>
    simp only [ClientHdr.refusal, Option.some.injEq, Prod.mk.injEq] at hk
    obtain ⟨rfl, rfl⟩ := hk
    have : ¬ buf.length < 18 := by omega
    simp only [respLk, respLi] at ho
    simp [Client.decode, hc, hd, hne', this, ho, hm]
  | badHdr h lb ho hm hh =>
    simp only [ClientHdr.refusal, Option.some.injEq, Prod.mk.injEq] at hk
    obtain ⟨rfl, rfl⟩ := hk
    have : ¬ buf.length < 18 := by omega
    simp only [respLk, respLi] at ho
    simp only [respHk, respHi] at hh
    simp [Client.decode, hc, hd, hne', this, ho, hm, hh]
  | wrongByte h lb ho hm hb hh hw =>
    simp only [ClientHdr.refusal, Option.some.injEq, Prod.mk.injEq] at hk
    obtain ⟨rfl, rfl⟩ := hk
    have : ¬ buf.length < 18 := by omega
    simp only [respLk, respLi] at ho
    simp only [respHk, respHi] at hh
    simp [Client.decode, hc, hd, hne', this, ho, hm, hh, hw]
  | accept h lb ho hm hb hh hw => simp [ClientHdr.refusal] at hk


theorem is_empty_false (b : List UInt8) (h : b ≠ []) : Cursor.is_empty b = false := by cases b <;> simp_all [Cursor.is_empty]

theorem run_call_ret3 {α β γ : Type} (x : PWGen.Res (α × β × γ)) :
    Flow.run (Flow.bind (Flow.call x) fun (a, b, c) => (Flow.ret (a, b, c) : Flow Empty (α × β × γ))) = x := by
  cases x with
  | ok v => obtain ⟨a, b, c⟩ := v; rfl
  | panic => rfl

theorem addOk_2_16 : U64.addOk Mem.size_of_u16 (16 : Usize) = true := by decide

theorem rem_lt18 (b : List UInt8) (hl : b.length < 2 ^ 64) :
    decide (Cursor.remaining b < Mem.size_of_u16 + (16 : Usize)) = decide (b.length < 18) := by
  rw [e18, decide_eq_decide, lt_iff_toNat, remaining_toNat b hl, e18n]

theorem rem_lt18' (b : List UInt8) (hl : b.length < 2 ^ 64) :
    decide (Cursor.remaining b < (18 : Usize)) = decide (b.length < 18) := by
  rw [decide_eq_decide, lt_iff_toNat, remaining_toNat b hl, e18n]

theorem run_call_ret3' {α β γ : Type} (x : PWGen.Res (α × β × γ)) :
    Flow.run (Flow.bind (Flow.call x) fun y => (Flow.ret (y.fst, y.2.fst, y.2.snd) : Flow Empty (α × β × γ))) = x := by
  cases x with
  | ok v => obtain ⟨a, b, c⟩ := v; rfl
  | panic => rfl

/-- first call, fewer than 18 bytes -/
theorem gen_client_short (A : HExtOk X C) (ov : Bool) (g : ClientAEADCodec CM XR) (s : Session) (buf : Bytes)
    (hr : CRel (C := C) g s) (hd : g.body_decoder = none) (hne : buf ≠ []) (hl : buf.length < 2 ^ 64) (h : buf.length < 18) :
    ClientAEADCodec.Decoder_decode X ov g buf = PWGen.Res.ok (g, buf, RResult.ok none) := by
  obtain ⟨g1, hg1, hk1⟩ := A.gcm_new (Vmess.kdf16 C (s.respKey C) [saltRespLenKey]) (kdf16_length _ _ _)
  rw [ClientAEADCodec.Decoder_decode]
  simp only [is_empty_false buf hne, Bool.false_eq_true, if_false, bind_next]
  split
  · rename_i hm1
    simp only [A.kdf16, hr.key, salt_resp_len_key, hg1, question_ok, bind_next, addOk_2_16, arith_true, rem_lt18 buf hl, h,
      decide_true, if_true, bind_ret, run_ret]
  · rename_i d hm1
    rw [hd] at hm1; cases hm1


theorem lb_len (hC : C.Lawful) (k n : Bytes) (buf lb : Bytes) (h : 18 ≤ buf.length)
    (ho : C.openB .aes128gcm k n [] (buf.take 18) = some lb) : lb.length = 2 := by
  have := hC.open_len _ _ _ _ _ _ ho
  simp [List.length_take] at this; omega

theorem hl_toNat (lb : Bytes) (h : lb.length = 2) : (U16.as_usize (UInt16.ofNat (beNat (lb.take 2)))).toNat = rdBE lb := by
  rw [u16_as_usize_toNat, List.take_of_length_le (by omega), from_be_bytes_toNat lb h]

theorem rdBE2_lt (lb : Bytes) (h : lb.length = 2) : rdBE lb < 65536 := Octo.VmessBodyGen.rdBE_two_lt' lb h

/-- the state of the generated code after the length has been opened: common prefix of the remaining cases -/
theorem gen_client_accept (A : HExtOk X C) (hC : C.Lawful) (ov : Bool) (g : ClientAEADCodec CM XR) (s : Session) (buf : Bytes)
    (hr : CRel (C := C) g s) (hd : g.body_decoder = none) (hne : buf ≠ []) (hl : buf.length < 2 ^ 64)
    (h : 18 ≤ buf.length) (lb : Bytes) (ho : C.openB .aes128gcm (respLk C s) (respLi C s) [] (buf.take 18) = some lb)
    (hm : ¬ buf.length - 18 < rdBE lb + 16) (hb : Bytes)
    (hh : C.openB .aes128gcm (respHk C s) (respHi C s) [] ((buf.drop 18).take (rdBE lb + 16)) = some hb)
    (hw : hb.head? = some s.respHeader) :
    ∃ s' r, X.new_decoder g.header (.ClientSession g.session) = (.ClientSession s', r) ∧
      ClientAEADCodec.Decoder_decode X ov g buf =
        match r with
        | RResult.err => PWGen.Res.ok ({ g with session := s' }, buf.drop (18 + rdBE lb + 16), RResult.err)
        | RResult.ok d => ClientAEADCodec.Decoder_decode X ov { g with session := s', body_decoder := some d } (buf.drop (18 + rdBE lb + 16)) := by
  obtain ⟨g1, hg1, hk1⟩ := A.gcm_new (Vmess.kdf16 C (s.respKey C) [saltRespLenKey]) (kdf16_length _ _ _)
  obtain ⟨g2, hg2, hk2⟩ := A.gcm_new (Vmess.kdf16 C (s.respKey C) [saltRespKey]) (kdf16_length _ _ _)
  obtain ⟨s', r, hnd⟩ := A.new_dec_client g.header g.session
  refine ⟨s', r, hnd, ?_⟩
  have h18 : ¬ buf.length < 18 := by omega
  have hlb := lb_len hC _ _ buf lb h ho
  have hlt := rdBE2_lt lb hlb
  have d1 := A.decip_ok g1 (respLi C s) [] (buf.take 18) lb (by rw [hk1]; exact ho)
  have d2 := A.decip_ok g2 (respHi C s) [] ((buf.drop 18).take (rdBE lb + 16)) hb (by rw [hk2]; exact hh)
  simp only [respLi, respHi] at d1 d2
  have hln := hl_toNat lb hlb
  have hadd : (U16.as_usize (UInt16.ofNat (beNat (lb.take 2))) + (16 : Usize)).toNat = rdBE lb + 16 := by
    rw [add_toNat _ _ (by rw [hln, e16n]; omega), hln, e16n]
  have haok : U64.addOk (U16.as_usize (UInt16.ofNat (beNat (lb.take 2)))) (16 : Usize) = true := by
    simp only [U64.addOk, decide_eq_true_eq, hln, e16n]; omega
  have hrem : decide (IoCursor.remaining ⟨buf, 18⟩ < U16.as_usize (UInt16.ofNat (beNat (lb.take 2))) + (16 : Usize)) = false := by
    rw [decide_eq_false_iff_not, lt_iff_toNat, hadd, IoCursor.remaining]
    simp only [e18n]
    rw [UInt64.toNat_ofNat_of_lt' (show _ < 18446744073709551616 by omega)]
    exact hm
  have hadv : (Flow.advance buf (U64.as_usize (IoCursor.position ⟨buf, 18⟩)) : Flow Cursor (ClientAEADCodec CM XR × List UInt8 × RResult (Option (List UInt8)))) = Flow.next (buf.drop 18) := by
    simp [Flow.advance, IoCursor.position, U64.as_usize, e18n, h]
  have hsp : (Flow.split_to (buf.drop 18) (U16.as_usize (UInt16.ofNat (beNat (lb.take 2))) + (16 : Usize)) : Flow _ (ClientAEADCodec CM XR × List UInt8 × RResult (Option (List UInt8)))) =
      Flow.next ((buf.drop 18).drop (rdBE lb + 16), (buf.drop 18).take (rdBE lb + 16)) := by
    rw [split_to_ok _ _ (by have := hadd; simp only [List.length_drop]; omega), hadd]
  have hgu : (Flow.get_u16 lb : Flow _ (ClientAEADCodec CM XR × List UInt8 × RResult (Option (List UInt8)))) = Flow.next (lb.drop 2, UInt16.ofNat (beNat (lb.take 2))) :=
    get_u16_ok lb (by omega)
  have hhead : (hb.head? != some g.session.response_header) = false := by rw [hr.hdr, hw]; simp
  rw [ClientAEADCodec.Decoder_decode]
  simp only [is_empty_false buf hne, Bool.false_eq_true, if_false, bind_next]
  split
  · rename_i hm1
    simp only [A.kdf16, A.kdfn, e12, hr.key, hr.iv, salt_resp_len_key, salt_resp_len_iv, salt_resp_key, salt_resp_iv, hg1, hg2, question_ok,
      bind_next, addOk_2_16, arith_true, rem_lt18 buf hl, rem_lt18' buf hl, h18, decide_false, Bool.false_eq_true, if_false, io_copy18' buf h, d1, d2, hgu,
      haok, hrem, hadv, hsp, hhead, hnd, as_client_ok, List.drop_drop]
    cases r with
    | err => simp only [question_err, bind_ret, run_ret]; congr 3
    | ok d =>
      simp only [question_ok, bind_next]
      rw [run_call_ret3']
      congr 1
  · rename_i d hm1
    rw [hd] at hm1; cases hm1


/-- **code side of the refusing cases**: the generated first call leaves the codec untouched (no body decoder is installed), never
panics, and yields exactly the model's buffer and outcome -/
theorem gen_client_refusal (A : HExtOk X C) (hC : C.Lawful) (ov : Bool) (g : ClientAEADCodec CM XR) (s : Session) (buf : Bytes)
    (hr : CRel (C := C) g s) (hd : g.body_decoder = none) (hne : buf ≠ []) (hl : buf.length < 2 ^ 64)
    (k : ClientHdr C s buf) (rest : Bytes) (r : Octo.Res Unit) (hk : k.refusal = some (rest, r)) :
    ClientAEADCodec.Decoder_decode X ov g buf = PWGen.Res.ok (g, rest, embedU r) := by
  obtain ⟨g1, hg1, hk1⟩ := A.gcm_new (Vmess.kdf16 C (s.respKey C) [saltRespLenKey]) (kdf16_length _ _ _)
  obtain ⟨g2, hg2, hk2⟩ := A.gcm_new (Vmess.kdf16 C (s.respKey C) [saltRespKey]) (kdf16_length _ _ _)
  cases k with
  | short h =>
    simp only [ClientHdr.refusal, Option.some.injEq, Prod.mk.injEq] at hk
    obtain ⟨rfl, rfl⟩ := hk
    exact gen_client_short A ov g s buf hr hd hne hl h
  | accept h lb ho hm hb hh hw => simp [ClientHdr.refusal] at hk
  | badLen h ho =>
    simp only [ClientHdr.refusal, Option.some.injEq, Prod.mk.injEq] at hk
    obtain ⟨rfl, rfl⟩ := hk
    have h18 : ¬ buf.length < 18 := by omega
    have d1 := A.decip_err g1 (respLi C s) [] (buf.take 18) (by rw [hk1]; exact ho)
    simp only [respLi] at d1
    rw [ClientAEADCodec.Decoder_decode]
    simp only [is_empty_false buf hne, Bool.false_eq_true, if_false, bind_next]
    split
    · simp only [A.kdf16, A.kdfn, e12, hr.key, hr.iv, salt_resp_len_key, salt_resp_len_iv, hg1, question_ok,
        bind_next, addOk_2_16, arith_true, rem_lt18 buf hl, h18, decide_false, Bool.false_eq_true, if_false, io_copy18' buf h, d1,
        question_err, bind_ret, run_ret, embedU]
    · rename_i d hm1; rw [hd] at hm1; cases hm1
  | more h lb ho hm =>
    simp only [ClientHdr.refusal, Option.some.injEq, Prod.mk.injEq] at hk
    obtain ⟨rfl, rfl⟩ := hk
    have h18 : ¬ buf.length < 18 := by omega
    have hlb := lb_len hC _ _ buf lb h ho
    have hlt := rdBE2_lt lb hlb
    have d1 := A.decip_ok g1 (respLi C s) [] (buf.take 18) lb (by rw [hk1]; exact ho)
    simp only [respLi] at d1
    have hln := hl_toNat lb hlb
    have hadd : (U16.as_usize (UInt16.ofNat (beNat (lb.take 2))) + (16 : Usize)).toNat = rdBE lb + 16 := by
      rw [add_toNat _ _ (by rw [hln, e16n]; omega), hln, e16n]
    have haok : U64.addOk (U16.as_usize (UInt16.ofNat (beNat (lb.take 2)))) (16 : Usize) = true := by
      simp only [U64.addOk, decide_eq_true_eq, hln, e16n]; omega
    have hrem : decide (IoCursor.remaining ⟨buf, 18⟩ < U16.as_usize (UInt16.ofNat (beNat (lb.take 2))) + (16 : Usize)) = true := by
      rw [decide_eq_true_eq, lt_iff_toNat, hadd, IoCursor.remaining]
      simp only [e18n]
      rw [UInt64.toNat_ofNat_of_lt' (show _ < 18446744073709551616 by omega)]
      exact hm
    have hgu : (Flow.get_u16 lb : Flow _ (ClientAEADCodec CM XR × List UInt8 × RResult (Option (List UInt8)))) = Flow.next (lb.drop 2, UInt16.ofNat (beNat (lb.take 2))) :=
      get_u16_ok lb (by omega)
    rw [ClientAEADCodec.Decoder_decode]
    simp only [is_empty_false buf hne, Bool.false_eq_true, if_false, bind_next]
    split
    · simp only [A.kdf16, A.kdfn, e12, hr.key, hr.iv, salt_resp_len_key, salt_resp_len_iv, hg1, question_ok,
        bind_next, addOk_2_16, arith_true, rem_lt18 buf hl, h18, decide_false, Bool.false_eq_true, if_false, io_copy18' buf h, d1, hgu,
        haok, hrem, if_true, ite_next_next, bind_ret, run_ret, embedU]
    · rename_i d hm1; rw [hd] at hm1; cases hm1
  | badHdr h lb ho hm hh =>
    simp only [ClientHdr.refusal, Option.some.injEq, Prod.mk.injEq] at hk
    obtain ⟨rfl, rfl⟩ := hk
    have h18 : ¬ buf.length < 18 := by omega
    have hlb := lb_len hC _ _ buf lb h ho
    have hlt := rdBE2_lt lb hlb
    have d1 := A.decip_ok g1 (respLi C s) [] (buf.take 18) lb (by rw [hk1]; exact ho)
    have d2 := A.decip_err g2 (respHi C s) [] ((buf.drop 18).take (rdBE lb + 16)) (by rw [hk2]; exact hh)
    simp only [respLi, respHi] at d1 d2
    have hln := hl_toNat lb hlb
    have hadd : (U16.as_usize (UInt16.ofNat (beNat (lb.take 2))) + (16 : Usize)).toNat = rdBE lb + 16 := by
      rw [add_toNat _ _ (by rw [hln, e16n]; omega), hln, e16n]
    have haok : U64.addOk (U16.as_usize (UInt16.ofNat (beNat (lb.take 2)))) (16 : Usize) = true := by
      simp only [U64.addOk, decide_eq_true_eq, hln, e16n]; omega
    have hrem : decide (IoCursor.remaining ⟨buf, 18⟩ < U16.as_usize (UInt16.ofNat (beNat (lb.take 2))) + (16 : Usize)) = false := by
      rw [decide_eq_false_iff_not, lt_iff_toNat, hadd, IoCursor.remaining]
      simp only [e18n]
      rw [UInt64.toNat_ofNat_of_lt' (show _ < 18446744073709551616 by omega)]
      exact hm
    have hadv : (Flow.advance buf (U64.as_usize (IoCursor.position ⟨buf, 18⟩)) : Flow Cursor (ClientAEADCodec CM XR × List UInt8 × RResult (Option (List UInt8)))) = Flow.next (buf.drop 18) := by
      simp [Flow.advance, IoCursor.position, U64.as_usize, e18n, h]
    have hsp : (Flow.split_to (buf.drop 18) (U16.as_usize (UInt16.ofNat (beNat (lb.take 2))) + (16 : Usize)) : Flow _ (ClientAEADCodec CM XR × List UInt8 × RResult (Option (List UInt8)))) =
        Flow.next ((buf.drop 18).drop (rdBE lb + 16), (buf.drop 18).take (rdBE lb + 16)) := by
      rw [split_to_ok _ _ (by have := hadd; simp only [List.length_drop]; omega), hadd]
    have hgu : (Flow.get_u16 lb : Flow _ (ClientAEADCodec CM XR × List UInt8 × RResult (Option (List UInt8)))) = Flow.next (lb.drop 2, UInt16.ofNat (beNat (lb.take 2))) :=
      get_u16_ok lb (by omega)
    rw [ClientAEADCodec.Decoder_decode]
    simp only [is_empty_false buf hne, Bool.false_eq_true, if_false, bind_next]
    split
    · simp only [A.kdf16, A.kdfn, e12, hr.key, hr.iv, salt_resp_len_key, salt_resp_len_iv, salt_resp_key, salt_resp_iv, hg1, hg2, question_ok,
        bind_next, addOk_2_16, arith_true, rem_lt18 buf hl, h18, decide_false, Bool.false_eq_true, if_false, io_copy18' buf h, d1, d2, hgu,
        haok, hrem, hadv, hsp, question_err, bind_ret, run_ret, embedU, List.drop_drop]
      congr 3
    · rename_i d hm1; rw [hd] at hm1; cases hm1
  | wrongByte h lb ho hm hb hh hw =>
    simp only [ClientHdr.refusal, Option.some.injEq, Prod.mk.injEq] at hk
    obtain ⟨rfl, rfl⟩ := hk
    have h18 : ¬ buf.length < 18 := by omega
    have hlb := lb_len hC _ _ buf lb h ho
    have hlt := rdBE2_lt lb hlb
    have d1 := A.decip_ok g1 (respLi C s) [] (buf.take 18) lb (by rw [hk1]; exact ho)
    have d2 := A.decip_ok g2 (respHi C s) [] ((buf.drop 18).take (rdBE lb + 16)) hb (by rw [hk2]; exact hh)
    simp only [respLi, respHi] at d1 d2
    have hln := hl_toNat lb hlb
    have hadd : (U16.as_usize (UInt16.ofNat (beNat (lb.take 2))) + (16 : Usize)).toNat = rdBE lb + 16 := by
      rw [add_toNat _ _ (by rw [hln, e16n]; omega), hln, e16n]
    have haok : U64.addOk (U16.as_usize (UInt16.ofNat (beNat (lb.take 2)))) (16 : Usize) = true := by
      simp only [U64.addOk, decide_eq_true_eq, hln, e16n]; omega
    have hrem : decide (IoCursor.remaining ⟨buf, 18⟩ < U16.as_usize (UInt16.ofNat (beNat (lb.take 2))) + (16 : Usize)) = false := by
      rw [decide_eq_false_iff_not, lt_iff_toNat, hadd, IoCursor.remaining]
      simp only [e18n]
      rw [UInt64.toNat_ofNat_of_lt' (show _ < 18446744073709551616 by omega)]
      exact hm
    have hadv : (Flow.advance buf (U64.as_usize (IoCursor.position ⟨buf, 18⟩)) : Flow Cursor (ClientAEADCodec CM XR × List UInt8 × RResult (Option (List UInt8)))) = Flow.next (buf.drop 18) := by
      simp [Flow.advance, IoCursor.position, U64.as_usize, e18n, h]
    have hsp : (Flow.split_to (buf.drop 18) (U16.as_usize (UInt16.ofNat (beNat (lb.take 2))) + (16 : Usize)) : Flow _ (ClientAEADCodec CM XR × List UInt8 × RResult (Option (List UInt8)))) =
        Flow.next ((buf.drop 18).drop (rdBE lb + 16), (buf.drop 18).take (rdBE lb + 16)) := by
      rw [split_to_ok _ _ (by have := hadd; simp only [List.length_drop]; omega), hadd]
    have hgu : (Flow.get_u16 lb : Flow _ (ClientAEADCodec CM XR × List UInt8 × RResult (Option (List UInt8)))) = Flow.next (lb.drop 2, UInt16.ofNat (beNat (lb.take 2))) :=
      get_u16_ok lb (by omega)
    have hhead : (hb.head? != some g.session.response_header) = true := by rw [hr.hdr]; simpa using hw
    rw [ClientAEADCodec.Decoder_decode]
    simp only [is_empty_false buf hne, Bool.false_eq_true, if_false, bind_next]
    split
    · simp only [A.kdf16, A.kdfn, e12, hr.key, hr.iv, salt_resp_len_key, salt_resp_len_iv, salt_resp_key, salt_resp_iv, hg1, hg2, question_ok,
        bind_next, addOk_2_16, arith_true, rem_lt18 buf hl, h18, decide_false, Bool.false_eq_true, if_false, io_copy18' buf h, d1, d2, hgu,
        haok, hrem, hadv, hsp, hhead, if_true, bind_ret, run_ret, embedU, List.drop_drop]
      congr 3
    · rename_i d hm1; rw [hd] at hm1; cases hm1

/-- later calls (the body decoder exists): one call of the body codec's generated `decode_payload` / `decode_packet` on the
client's session; its panic is the only panic -/
theorem gen_client_some (ov : Bool) (g : ClientAEADCodec CM XR) (d : AEADBodyCodec CM XR) (buf : Bytes)
    (hd : g.body_decoder = some d) (hne : buf ≠ []) (hcmd : g.header.command = .TCP) :
    ClientAEADCodec.Decoder_decode X ov g buf =
      match Octo.VmessBodyGen.AEADBodyCodec.decode_payload X.body ov d buf (.ClientSession g.session) with
      | .panic => .panic
      | .ok (d', src', .ClientSession s', r) => .ok ({ g with body_decoder := some d', session := s' }, src', r)
      | .ok (_, _, .ServerSession _, _) => .panic := by
  rw [ClientAEADCodec.Decoder_decode]
  simp only [is_empty_false buf hne, Bool.false_eq_true, if_false, bind_next]
  split
  · rename_i hm1; rw [hd] at hm1; cases hm1
  · rename_i d0 hm1
    rw [hd] at hm1; cases hm1
    split
    · cases hx : Octo.VmessBodyGen.AEADBodyCodec.decode_payload X.body ov d buf (.ClientSession g.session) with
      | panic => simp only [call_panic, bind_panic, run_panic']
      | ok v =>
        obtain ⟨d', src', ss, r⟩ := v
        cases ss with
        | ClientSession s' => simp only [call_ok, bind_next, as_client_ok, run_ret]
        | ServerSession s' => simp only [call_ok, bind_next, Flow.as_client, bind_panic, run_panic']
    · rename_i hm2; rw [hcmd] at hm2; cases hm2

end client

/-! ## Part 3 — the server's first step: the credential gate -/
section server
variable {CM XR W GCM : Type} {X : Ext CM XR W GCM}

theorem len_lt16 (b : List UInt8) (hl : b.length < 2 ^ 64) : decide (Cursor.len b < (16 : Usize)) = decide (b.length < 16) := by
  rw [decide_eq_decide, lt_iff_toNat, len_toNat b hl, e16n]

/-- fewer than 16 bytes in state `Init`: `Ok(None)`, nothing consumed, the clock is not read, no panic -/
theorem gen_server_short (ov : Bool) (g : ServerAeadCodec CM XR) (w : W) (buf : Bytes) (hs : g.decode_state = .Init)
    (hl : buf.length < 2 ^ 64) (h : buf.length < 16) :
    ServerAeadCodec.Decoder_decode X ov g w buf = PWGen.Res.ok (g, w, buf, RResult.ok none) := by
  rw [ServerAeadCodec.Decoder_decode]
  simp only [hs, len_lt16 buf hl, h, decide_true, if_true, bind_ret, run_ret]

theorem slice16 {ρ : Type} (b : List UInt8) (h : 16 ≤ b.length) :
    (Flow.slice_range b (0 : Usize) (16 : Usize) : Flow _ ρ) = Flow.next (b.take 16) := by
  have e0 : (0 : Usize).toNat = 0 := rfl
  simp [Flow.slice_range, e0, e16n, h]

/-- **the credential gate of the generated server** (C06 at the level of the code): in state `Init` with at least 16 bytes, whatever
`auth_id::matching` answers for the first 16 bytes against the configured key table decides: no key → `Err`, nothing consumed,
state still `Init`, nothing relayed; `Err` (clock) → `Err`; a panic of `matching` is the only panic up to here -/
theorem gen_server_gate (ov : Bool) (g : ServerAeadCodec CM XR) (w : W) (buf : Bytes) (hs : g.decode_state = .Init)
    (hl : buf.length < 2 ^ 64) (h : 16 ≤ buf.length) (w' : W)
    (hmatch : AuthId.matching X ov w (buf.take 16) g.keys = PWGen.Res.ok (w', RResult.ok none)) :
    ServerAeadCodec.Decoder_decode X ov g w buf = PWGen.Res.ok (g, w', buf, RResult.err) := by
  have h16 : ¬ buf.length < 16 := by omega
  rw [ServerAeadCodec.Decoder_decode]
  simp only [hs, len_lt16 buf hl, h16, decide_false, Bool.false_eq_true, if_false, bind_next, slice16 buf h, hmatch, call_ok,
    question_ok, bind_ret, run_ret]

/-- an empty key table matches nothing (and does not read the clock) -/
theorem matching_nil (ov : Bool) (w : W) (a : Bytes) : AuthId.matching X ov w a [] = PWGen.Res.ok (w, RResult.ok none) := by
  simp only [AuthId.matching, Flow.forIn, bind_next, run_ret]

end server

/-! ## Part 3b — `auth_id::matching` = `authIdMatch` -/
section matching
variable {CM XR W GCM : Type} {X : Ext CM XR W GCM} {C : Crypto}

theorem i64_spec (x : I64) : (x.bits.toNat < 2 ^ 63 ∧ x.toInt = (x.bits.toNat : Int)) ∨
    (2 ^ 63 ≤ x.bits.toNat ∧ x.bits.toNat < 2 ^ 64 ∧ x.toInt = (x.bits.toNat : Int) - 2 ^ 64) := by
  have := x.bits.toNat_lt
  unfold I64.toInt
  split
  · left; exact ⟨by assumption, rfl⟩
  · right; exact ⟨by omega, by omega, rfl⟩

theorem i64_toInt_ofNat (n : Nat) (h : n < 2 ^ 63) : (I64.ofNat n).toInt = n := by
  have e : (I64.ofNat n).bits.toNat = n := UInt64.toNat_ofNat_of_lt' (by simp only [UInt64.size]; omega)
  rcases i64_spec (I64.ofNat n) with ⟨h1, h2⟩ | ⟨h1, h2, h3⟩ <;> omega

theorem i64_from_be (b : Bytes) (h : b.length = 8) : (I64.from_be_bytes b).toInt = Vmess.i64 b := by
  have hl := beNat_lt b
  rw [h] at hl
  have e : (I64.from_be_bytes b).bits.toNat = rdBE b := by
    show (UInt64.ofNat (beNat b)).toNat = rdBE b
    rw [UInt64.toNat_ofNat_of_lt' (by simp only [UInt64.size]; omega)]; rfl
  have hm : Vmess.i64 b = if rdBE b < 2 ^ 63 then (rdBE b : Int) else (rdBE b : Int) - 2 ^ 64 := rfl
  rw [hm]
  rcases i64_spec (I64.from_be_bytes b) with ⟨h1, h2⟩ | ⟨h1, h2, h3⟩
  · rw [if_pos (by omega)]; omega
  · rw [if_neg (by omega)]; omega

theorem i64_sub_toInt (a b : I64) (h : I64.subOk a b = true) : (I64.sub a b).toInt = a.toInt - b.toInt := by
  simp only [I64.subOk, decide_eq_true_eq] at h
  have hs : (I64.sub a b).bits.toNat = (2 ^ 64 - b.bits.toNat + a.bits.toNat) % 2 ^ 64 := UInt64.toNat_sub a.bits b.bits
  rcases i64_spec a with ⟨a1, a2⟩ | ⟨a1, a2, a3⟩ <;> rcases i64_spec b with ⟨b1, b2⟩ | ⟨b1, b2, b3⟩ <;>
    rcases i64_spec (I64.sub a b) with ⟨c1, c2⟩ | ⟨c1, c2, c3⟩ <;> omega

theorem i64_abs_toInt (a : I64) (h : I64.absOk a = true) : (I64.abs a).toInt = (a.toInt.natAbs : Int) := by
  simp only [I64.absOk, decide_eq_true_eq] at h
  by_cases hneg : a.toInt < 0
  · have e : I64.abs a = ⟨0 - a.bits⟩ := by simp only [I64.abs, hneg, if_true]
    have hs : (I64.abs a).bits.toNat = (2 ^ 64 - a.bits.toNat + 0) % 2 ^ 64 := by
      rw [e]; show ((0 : UInt64) - a.bits).toNat = _; rw [UInt64.toNat_sub]; rfl
    rcases i64_spec a with ⟨a1, a2⟩ | ⟨a1, a2, a3⟩ <;> rcases i64_spec (I64.abs a) with ⟨c1, c2⟩ | ⟨c1, c2, c3⟩ <;> omega
  · have e : I64.abs a = a := by simp only [I64.abs, hneg, if_false]
    rw [e]; omega

/-- the guard under which the code's i64 window test is the model's: the subtraction and `abs` do not overflow -/
def WindowGuard (t : Int) (now : Nat) : Prop := -(2 ^ 63 : Int) < t - now

theorem window_eq (t : I64) (now : Nat) (hn : now < 2 ^ 62) (hg : WindowGuard t.toInt now) :
    I64.subOk t (I64.ofNat now) = true ∧ I64.absOk (I64.sub t (I64.ofNat now)) = true ∧
      I64.le (I64.abs (I64.sub t (I64.ofNat now))) (I64.ofNat 120) = decide ((t.toInt - (now : Int)).natAbs ≤ Consts.vmessAuthWindow) := by
  have hno := i64_toInt_ofNat now (by omega)
  have h120 := i64_toInt_ofNat 120 (by decide)
  have hr : -(2 ^ 63 : Int) ≤ t.toInt ∧ t.toInt < 2 ^ 63 := by
    rcases i64_spec t with ⟨a1, a2⟩ | ⟨a1, a2, a3⟩ <;> omega
  have hs : I64.subOk t (I64.ofNat now) = true := by
    simp only [I64.subOk, decide_eq_true_eq, hno, WindowGuard] at hg ⊢; omega
  have hst := i64_sub_toInt _ _ hs
  have ha : I64.absOk (I64.sub t (I64.ofNat now)) = true := by
    simp only [I64.absOk, decide_eq_true_eq, hst, hno, WindowGuard] at hg ⊢; omega
  refine ⟨hs, ha, ?_⟩
  simp only [I64.le, i64_abs_toInt _ ha, hst, hno, h120, Consts.vmessAuthWindow]
  congr 1
  apply propext
  constructor <;> intro h <;> omega

/-- one key of the table, as the model tests it -/
def keyTest (C : Crypto) (authId : Bytes) (now : Nat) (key : Bytes) : Bool :=
  let cur := C.aesDec (Vmess.kdf16 C key [saltAuthId]) authId
  decide (rdBE (cur.drop 12) = C.crc32 (cur.take 12)) && decide ((Vmess.i64 (cur.take 8) - (now : Int)).natAbs ≤ Consts.vmessAuthWindow)

theorem authIdMatch_eq (C : Crypto) (authId : Bytes) (keys : List Bytes) (now : Nat) :
    authIdMatch C authId keys now = keys.find? (keyTest C authId now) := rfl

/-- the guard of `matching_eq`: for every configured key under which the auth id carries a valid CRC, the timestamp is not more than
2^63 seconds before the clock value (outside it the code panics / wraps: `window_wrap_difference`) -/
def MatchGuard (C : Crypto) (authId : Bytes) (keys : List Bytes) (now : Nat) : Prop :=
  ∀ key ∈ keys, let cur := C.aesDec (Vmess.kdf16 C key [saltAuthId]) authId
    rdBE (cur.drop 12) = C.crc32 (cur.take 12) → WindowGuard (Vmess.i64 (cur.take 8)) now

theorem crc_test (A : HExtOk X C) (cur : Bytes) (h : cur.length = 16) :
    (I32.from_be_bytes (cur.drop 12) == U32.as_i32 (X.crc32 (cur.take 12))) = decide (rdBE (cur.drop 12) = C.crc32 (cur.take 12)) := by
  have hl := beNat_lt (cur.drop 12)
  have hd : (cur.drop 12).length = 4 := by simp [h]
  rw [hd] at hl
  have e1 : (UInt32.ofNat (beNat (cur.drop 12))).toNat = rdBE (cur.drop 12) := by
    rw [UInt32.toNat_ofNat_of_lt' (by simp only [UInt32.size]; omega)]; rfl
  have e2 := A.crc (cur.take 12)
  simp only [I32.from_be_bytes, U32.as_i32]
  by_cases hc : rdBE (cur.drop 12) = C.crc32 (cur.take 12)
  · have : UInt32.ofNat (beNat (cur.drop 12)) = X.crc32 (cur.take 12) := UInt32.toNat_inj.mp (by rw [e1, e2, hc])
    simp [this, hc]
  · have : UInt32.ofNat (beNat (cur.drop 12)) ≠ X.crc32 (cur.take 12) := by
      intro he; apply hc; rw [← e1, he, e2]
    simp [this, hc]

/-- **`auth_id::matching` = `authIdMatch`**, every key table, every 16-byte auth id, both overflow profiles, inside the guard:
no panic, `Ok`, the model's answer (the first configured key under which the token has a valid CRC and a timestamp within the
window), and the clock still shows the same time -/
theorem matching_eq (A : HExtOk X C) (hC : C.Lawful) (ov : Bool) (authId : Bytes) (ha : authId.length = 16) :
    ∀ (keys : List Bytes) (w : W), MatchGuard C authId keys (A.nowOf w) →
      ∃ w', AuthId.matching X ov w authId keys = PWGen.Res.ok (w', RResult.ok (authIdMatch C authId keys (A.nowOf w))) ∧
        A.nowOf w' = A.nowOf w := by
  intro keys
  induction keys with
  | nil => intro w _; exact ⟨w, matching_nil ov w authId, rfl⟩
  | cons key rest ih =>
    intro w hg
    have hcur : (C.aesDec (Vmess.kdf16 C key [saltAuthId]) authId).length = 16 := hC.aes_dec_len _ _
    have hgk := hg key (List.mem_cons_self)
    have hgr : MatchGuard C authId rest (A.nowOf w) := fun k hk => hg k (List.mem_cons_of_mem _ hk)
    obtain ⟨w1, hnow, hw1⟩ := A.now w
    have e12' : (12 : Usize).toNat = 12 := rfl
    have e8 : (8 : Usize).toNat = 8 := rfl
    have hcopy : ∀ ρ, (Flow.copy_from_slice (List.replicate 16 (0 : UInt8)) authId : Flow _ ρ) = Flow.next authId := by
      intro ρ; simp [Flow.copy_from_slice, ha]
    generalize hcd : C.aesDec (Vmess.kdf16 C key [saltAuthId]) authId = cur at hcur hgk
    have hecb := A.ecb (Vmess.kdf16 C key [saltAuthId]) authId (kdf16_length _ _ _) ha
    rw [hcd] at hecb
    have hs12 : ∀ ρ, (Flow.slice_to cur (12 : Usize) : Flow _ ρ) = Flow.next (cur.take 12) := by
      intro ρ; simp [Flow.slice_to, e12', hcur]
    have hsp : ∀ ρ, (Flow.split_at cur (12 : Usize) : Flow _ ρ) = Flow.next (cur.take 12, cur.drop 12) := by
      intro ρ; simp [Flow.split_at, e12', hcur]
    have hs8 : ∀ ρ, (Flow.slice_to (cur.take 12) (8 : Usize) : Flow _ ρ) = Flow.next (cur.take 8) := by
      intro ρ; simp [Flow.slice_to, e8, hcur, List.take_take]
    have hlen4 : decide ((cur.drop 12).length = 4) = true := by simp [hcur]
    have hfind : authIdMatch C authId (key :: rest) (A.nowOf w) =
        if keyTest C authId (A.nowOf w) key then some key else authIdMatch C authId rest (A.nowOf w) := by
      simp only [authIdMatch_eq, List.find?_cons]; split <;> simp_all
    have hkt : keyTest C authId (A.nowOf w) key =
        (decide (rdBE (cur.drop 12) = C.crc32 (cur.take 12)) && decide ((Vmess.i64 (cur.take 8) - (A.nowOf w : Int)).natAbs ≤ Consts.vmessAuthWindow)) := by
      simp only [keyTest, hcd]
    rw [hfind, hkt]
    by_cases hc : rdBE (cur.drop 12) = C.crc32 (cur.take 12)
    · have hct : (I32.from_be_bytes (cur.drop 12) == U32.as_i32 (X.crc32 (cur.take 12))) = true := by
        rw [crc_test A cur hcur]; simp [hc]
      have hwin := window_eq (I64.from_be_bytes (cur.take 8)) (A.nowOf w) (A.now_lt w)
        (by rw [i64_from_be _ (by simp [hcur])]; exact hgk hc)
      rw [i64_from_be _ (by simp [hcur])] at hwin
      by_cases hwd : (Vmess.i64 (cur.take 8) - (A.nowOf w : Int)).natAbs ≤ Consts.vmessAuthWindow
      · refine ⟨w1, ?_, hw1⟩
        have hle := hwin.2.2
        simp only [hwd, decide_true] at hle
        rw [AuthId.matching]
        simp only [Flow.forIn, hcopy, bind_next, A.kdf16, salt_auth_id, hecb, call_ok, hs12, hsp, hs8, hlen4, check_true, hct, if_true,
          hnow, question_ok, hwin.1, hwin.2.1, arith_true, hle, bind_ret, run_ret, hc, hwd, decide_true, Bool.and_self]
      · obtain ⟨w', h1, h2⟩ := ih w1 (by rw [hw1]; exact hgr)
        refine ⟨w', ?_, by rw [h2, hw1]⟩
        have hle := hwin.2.2
        simp only [hwd, decide_false] at hle
        rw [hw1] at h1
        rw [AuthId.matching] at h1 ⊢
        simp only [Flow.forIn, hcopy, bind_next, A.kdf16, salt_auth_id, hecb, call_ok, hs12, hsp, hs8, hlen4, check_true, hct, if_true,
          hnow, question_ok, hwin.1, hwin.2.1, arith_true, hle, Bool.false_eq_true, if_false, hc, hwd, decide_true, decide_false,
          Bool.and_false] at h1 ⊢
        exact h1
    · have hct : (I32.from_be_bytes (cur.drop 12) == U32.as_i32 (X.crc32 (cur.take 12))) = false := by
        rw [crc_test A cur hcur]; simp [hc]
      obtain ⟨w', h1, h2⟩ := ih w hgr
      refine ⟨w', ?_, h2⟩
      rw [AuthId.matching] at h1 ⊢
      simp only [Flow.forIn, hcopy, bind_next, A.kdf16, salt_auth_id, hecb, call_ok, hs12, hsp, hs8, hlen4, check_true, hct,
        Bool.false_eq_true, if_false, hc, decide_false, Bool.false_and] at h1 ⊢
      exact h1

end matching

/-! ## Part 4 — `encrypt::open_header` = `openHeader` -/
section openhdr
variable {CM XR W GCM : Type} {X : Ext CM XR W GCM} {C : Crypto}

theorem io_slice {ρ : Type} (src : List UInt8) (p n : Usize) (h : p.toNat + n.toNat ≤ src.length) :
    (Flow.io_copy_to_slice ⟨src, p⟩ n : Flow _ ρ) = Flow.next (⟨src, p + n⟩, (src.drop p.toNat).take n.toNat) := by
  simp only [Flow.io_copy_to_slice]; rw [if_pos (by omega)]
theorem io_bytes {ρ : Type} (src : List UInt8) (p n : Usize) (h : p.toNat + n.toNat ≤ src.length) :
    (Flow.io_copy_to_bytes ⟨src, p⟩ n : Flow _ ρ) = Flow.next (⟨src, p + n⟩, (src.drop p.toNat).take n.toNat) := by
  simp only [Flow.io_copy_to_bytes]; rw [if_pos (by omega)]

/-- the model's outcome as the generated function reports it: (final `*src`, returned value) -/
def embedOpen (src : Bytes) : Octo.Res (Bytes × Nat) → PWGen.Res (List UInt8 × RResult (Option (List UInt8)))
  | .ok (h, n) => .ok (src.drop n, RResult.ok (some h))
  | .more => .ok (src, RResult.ok none)
  | .err => .ok (src, RResult.err)
  | _ => .panic

theorem e58 : ((((Encrypt.TAG_SIZE + (2 : Usize)) + Encrypt.TAG_SIZE) + (8 : Usize)) + Encrypt.TAG_SIZE) = 58 := by decide
theorem ok58 : U64.addOk Encrypt.TAG_SIZE (2 : Usize) = true ∧ U64.addOk (Encrypt.TAG_SIZE + (2 : Usize)) Encrypt.TAG_SIZE = true ∧
    U64.addOk ((Encrypt.TAG_SIZE + (2 : Usize)) + Encrypt.TAG_SIZE) (8 : Usize) = true ∧
    U64.addOk (((Encrypt.TAG_SIZE + (2 : Usize)) + Encrypt.TAG_SIZE) + (8 : Usize)) Encrypt.TAG_SIZE = true := by decide
theorem len_rep (n : Nat) (h : n < 2 ^ 64) : Cursor.len (List.replicate n (0 : UInt8)) = UInt64.ofNat n := by
  simp [Cursor.len]

/-- **`encrypt::open_header` = `openHeader`**: every key, every buffer below 2^64 bytes, both profiles: never a panic; `Ok(None)` with the
buffer untouched until the whole sealed header (16 + 18 + 8 + length + 16 bytes) is there — the fixed part is only peeked through the
cursor —; `Err` with the buffer untouched when the sealed length or the sealed header is not authentic under the key; otherwise the
opened header, and exactly the sealed header consumed -/
theorem open_header_eq (A : HExtOk X C) (hC : C.Lawful) (ov : Bool) (key src : Bytes) (hl : src.length < 2 ^ 64) :
    Encrypt.open_header X ov key src = embedOpen src (openHeader C key src) := by
  have e0 : (0 : Usize).toNat = 0 := rfl
  have e16 : (16 : Usize).toNat = 16 := rfl
  have e18' : (18 : Usize).toNat = 18 := rfl
  have e8 : (8 : Usize).toNat = 8 := rfl
  have e34 : (34 : Usize).toNat = 34 := rfl
  have e42 : (42 : Usize).toNat = 42 := rfl
  have e58n : (58 : Usize).toNat = 58 := rfl
  have hrem0 : (IoCursor.remaining (IoCursor.new src)).toNat = src.length := by
    simp only [IoCursor.remaining, IoCursor.new, e0, Nat.sub_zero]
    exact UInt64.toNat_ofNat_of_lt' (by simp only [UInt64.size]; omega)
  unfold Encrypt.open_header
  simp only [ok58.1, ok58.2.1, ok58.2.2.1, ok58.2.2.2, arith_true, bind_next, e58]
  by_cases h58 : src.length < 58
  · have : decide (IoCursor.remaining (IoCursor.new src) < (58 : Usize)) = true := by
      rw [decide_eq_true_eq, lt_iff_toNat, hrem0, e58n]; exact h58
    have hm : openHeader C key src = .more := by simp [openHeader, h58]
    simp only [this, if_true, bind_ret, run_ret, hm, embedOpen]
  · have hd : decide (IoCursor.remaining (IoCursor.new src) < (58 : Usize)) = false := by
      rw [decide_eq_false_iff_not, lt_iff_toNat, hrem0, e58n]; exact h58
    have l16 : Cursor.len (List.replicate 16 (0 : UInt8)) = 16 := rfl
    have l18 : Cursor.len (List.replicate 18 (0 : UInt8)) = 18 := rfl
    have l8 : Cursor.len (List.replicate 8 (0 : UInt8)) = 8 := rfl
    have c1 : ∀ ρ, (Flow.io_copy_to_slice (IoCursor.new src) 16 : Flow _ ρ) = Flow.next (⟨src, 16⟩, src.take 16) := by
      intro ρ; have := io_slice (ρ := ρ) src 0 16 (by rw [e0, e16]; omega); simpa [IoCursor.new, e0, e16] using this
    have c2 : ∀ ρ, (Flow.io_copy_to_slice ⟨src, 16⟩ 18 : Flow _ ρ) = Flow.next (⟨src, 34⟩, (src.drop 16).take 18) := by
      intro ρ; have := io_slice (ρ := ρ) src 16 18 (by rw [e16, e18']; omega); simpa [e16, e18'] using this
    have c3 : ∀ ρ, (Flow.io_copy_to_slice ⟨src, 34⟩ 8 : Flow _ ρ) = Flow.next (⟨src, 42⟩, (src.drop 34).take 8) := by
      intro ρ; have := io_slice (ρ := ρ) src 34 8 (by rw [e34, e8]; omega); simpa [e34, e8] using this
    obtain ⟨g1, hg1, hk1⟩ := A.gcm_new (Vmess.kdf16 C key [saltLengthKey, src.take 16, (src.drop 34).take 8]) (kdf16_length _ _ _)
    obtain ⟨g2, hg2, hk2⟩ := A.gcm_new (Vmess.kdf16 C key [saltPayloadKey, src.take 16, (src.drop 34).take 8]) (kdf16_length _ _ _)
    simp only [hd, Bool.false_eq_true, if_false, bind_next, l16, l18, l8, c1, c2, c3, A.kdf16, A.kdfn, e12, salt_length_key, salt_length_iv,
      salt_payload_key, salt_payload_iv, hg1, hg2, question_ok]
    have h58' : ¬ src.length < 16 + 18 + 8 + 16 := by omega
    cases ho : C.openB .aes128gcm (Vmess.kdf16 C key [saltLengthKey, src.take 16, (src.drop 34).take 8])
        (Vmess.kdfn C 12 key [saltLengthIv, src.take 16, (src.drop 34).take 8]) (src.take 16) ((src.drop 16).take 18) with
    | none =>
      have hm : openHeader C key src = .err := by simp [openHeader, h58', ho]
      rw [A.dec_err g1 _ _ _ (by rw [hk1]; exact ho)]
      simp only [question_err, bind_ret, run_ret, hm, embedOpen]
    | some lb =>
      rw [A.dec_ok g1 _ _ _ lb (by rw [hk1]; exact ho)]
      have hlb : lb.length = 2 := by
        have := hC.open_len _ _ _ _ _ _ ho
        simp [List.length_take, List.length_drop] at this; omega
      have hlt := rdBE2_lt lb hlb
      have hti : RResult.try_into_array lb 2 = RResult.ok lb := by simp [RResult.try_into_array, hlb]
      have hln : (U16.as_usize (U16.from_be_bytes lb)).toNat = rdBE lb := by
        rw [u16_as_usize_toNat, U16.from_be_bytes, from_be_bytes_toNat lb hlb]
      have hadd : (U16.as_usize (U16.from_be_bytes lb) + Encrypt.TAG_SIZE).toNat = rdBE lb + 16 := by
        rw [add_toNat _ _ (by rw [hln]; show _ + 16 < _; omega), hln]; rfl
      have haok : U64.addOk (U16.as_usize (U16.from_be_bytes lb)) Encrypt.TAG_SIZE = true := by
        simp only [U64.addOk, decide_eq_true_eq, hln]; show _ + 16 < _; omega
      have hrem : (IoCursor.remaining ⟨src, 42⟩).toNat = src.length - 42 := by
        simp only [IoCursor.remaining, e42]
        exact UInt64.toNat_ofNat_of_lt' (by simp only [UInt64.size]; omega)
      simp only [question_ok, bind_next, hti, haok, arith_true]
      by_cases hm : src.length - 42 < rdBE lb + 16
      · have : decide (IoCursor.remaining ⟨src, 42⟩ < U16.as_usize (U16.from_be_bytes lb) + Encrypt.TAG_SIZE) = true := by
          rw [decide_eq_true_eq, lt_iff_toNat, hrem, hadd]; exact hm
        have hmo : openHeader C key src = .more := by simp [openHeader, h58', ho, hm]
        simp only [this, if_true, bind_ret, run_ret, hmo, embedOpen]
      · have hdd : decide (IoCursor.remaining ⟨src, 42⟩ < U16.as_usize (U16.from_be_bytes lb) + Encrypt.TAG_SIZE) = false := by
          rw [decide_eq_false_iff_not, lt_iff_toNat, hrem, hadd]; exact hm
        have cb : ∀ ρ, (Flow.io_copy_to_bytes ⟨src, 42⟩ (U16.as_usize (U16.from_be_bytes lb) + Encrypt.TAG_SIZE) : Flow _ ρ) =
            Flow.next (⟨src, 42 + (U16.as_usize (U16.from_be_bytes lb) + Encrypt.TAG_SIZE)⟩, (src.drop 42).take (rdBE lb + 16)) := by
          intro ρ; rw [io_bytes src 42 _ (by rw [e42, hadd]; omega), e42, hadd]
        simp only [hdd, Bool.false_eq_true, if_false, bind_next, cb]
        cases hh : C.openB .aes128gcm (Vmess.kdf16 C key [saltPayloadKey, src.take 16, (src.drop 34).take 8])
            (Vmess.kdfn C 12 key [saltPayloadIv, src.take 16, (src.drop 34).take 8]) (src.take 16) ((src.drop 42).take (rdBE lb + 16)) with
        | none =>
          have hmo : openHeader C key src = .err := by simp [openHeader, h58', ho, hm, hh]
          rw [A.dec_err g2 _ _ _ (by rw [hk2]; exact hh)]
          simp only [question_err, bind_ret, run_ret, hmo, embedOpen]
        | some h =>
          have hmo : openHeader C key src = .ok (h, 42 + rdBE lb + 16) := by simp [openHeader, h58', ho, hm, hh]
          rw [A.dec_ok g2 _ _ _ h (by rw [hk2]; exact hh)]
          have hpos : (U64.as_usize (IoCursor.position ⟨src, 42 + (U16.as_usize (U16.from_be_bytes lb) + Encrypt.TAG_SIZE)⟩)).toNat = 42 + rdBE lb + 16 := by
            simp only [U64.as_usize, IoCursor.position]
            rw [add_toNat _ _ (by rw [e42, hadd]; omega), e42, hadd]; omega
          have hadv : ∀ ρ, (Flow.advance src (U64.as_usize (IoCursor.position ⟨src, 42 + (U16.as_usize (U16.from_be_bytes lb) + Encrypt.TAG_SIZE)⟩)) : Flow _ ρ) =
              Flow.next (src.drop (42 + rdBE lb + 16)) := by
            intro ρ; simp only [Flow.advance, hpos]; rw [if_pos (by omega)]
          simp only [question_ok, bind_next, hadv, run_ret, hmo, embedOpen]

end openhdr

/-! ## Part 5 — the header parse of `ServerAeadCodec::decode` = `parseRequest` -/
section parse
variable {CM XR W GCM : Type} {X : Ext CM XR W GCM} {C : Crypto}

theorem get_u8_drop {ρ : Type} (h : List UInt8) (i : Nat) (hi : i < h.length) :
    (Flow.get_u8 (h.drop i) : Flow _ ρ) = Flow.next (h.drop (i + 1), h.getD i 0) := by
  have e : h.drop i = h[i] :: h.drop (i + 1) := List.drop_eq_getElem_cons hi
  rw [e, List.getD_eq_getElem?_getD, List.getElem?_eq_getElem hi]; rfl
theorem get_u8_zero {ρ : Type} (h : List UInt8) (hi : 0 < h.length) :
    (Flow.get_u8 h : Flow _ ρ) = Flow.next (h.drop 1, h.getD 0 0) := by
  have := get_u8_drop (ρ := ρ) h 0 hi; simpa using this
theorem copy16_drop {ρ : Type} (h : List UInt8) (i : Nat) (hi : i + 16 ≤ h.length) :
    (Flow.copy_to_slice (h.drop i) (Cursor.len (List.replicate 16 (0 : UInt8))) : Flow _ ρ) =
      Flow.next (h.drop (i + 16), (h.drop i).take 16) := by
  have l16 : Cursor.len (List.replicate 16 (0 : UInt8)) = 16 := rfl
  simp only [Flow.copy_to_slice, l16, e16n, List.length_drop, List.drop_drop]
  rw [if_pos (by omega)]
theorem advance_drop {ρ : Type} (h : List UInt8) (i : Nat) (n : Usize) (hi : i + n.toNat ≤ h.length) :
    (Flow.advance (h.drop i) n : Flow _ ρ) = Flow.next (h.drop (i + n.toNat)) := by
  simp only [Flow.advance, List.length_drop, List.drop_drop]; rw [if_pos (by omega)]
theorem get_u32_drop {ρ : Type} (h : List UInt8) (i : Nat) (hi : i + 4 ≤ h.length) :
    (Flow.get_u32 (h.drop i) : Flow _ ρ) = Flow.next (h.drop (i + 4), UInt32.ofNat (beNat ((h.drop i).take 4))) := by
  rw [get_u32_ok _ (by rw [List.length_drop]; omega), List.drop_drop]

theorem ite_bind {α β ρ : Type} (c : Prop) [Decidable c] (a b : α) (k : α → Flow β ρ) :
    Flow.bind (if c then Flow.next a else Flow.next b) k = k (if c then a else b) := by split <;> rfl

theorem pad_toNat' (x : UInt8) : (U8.as_usize (x >>> 4)).toNat = x.toNat / 16 := by
  rw [u8_as_usize_toNat, UInt8.toNat_shiftRight]
  show x.toNat >>> 4 = _
  rw [Nat.shiftRight_eq_div_pow]

/-- `SecurityType::from(u8)` as a total function -/
def secOf (v : UInt8) : SecurityType :=
  if v == 1 then .Legacy else if v == 2 then .Auto else if v == 3 then .Aes128Gcm else if v == 4 then .Chacha20Poly1305
  else if v == 5 then .None else if v == 6 then .Zero else .Unknown
theorem from_u8_eval (ov : Bool) (v : UInt8) : SecurityType.From_u8_from X ov v = PWGen.Res.ok (secOf v) := by
  simp only [SecurityType.From_u8_from, secOf]
  repeat' split
  all_goals rfl

/-- `RequestOption::from_mask` as a total function -/
def optsOf (m : UInt8) : List RequestOption :=
  List.filter (fun op => ((RequestOption.as_u8 op) &&& m) != 0)
    [.ChunkStream, .ConnectionReuse, .ChunkMasking, .GlobalPadding, .AuthenticatedLength]
theorem from_mask_eval (ov : Bool) (m : UInt8) : RequestOption.from_mask X ov m = PWGen.Res.ok (optsOf m) := rfl
theorem header_new_eval (ov : Bool) (v : UInt8) (c : RequestCommand) (o : List RequestOption) (sc : SecurityType)
    (a : Octo.VmessAddrGen.Address) (id : List UInt8) : RequestHeader.new X ov v c o sc a id = PWGen.Res.ok ⟨v, c, o, sc, a, id⟩ := rfl

theorem fnv_test (A : HExtOk X C) (data b4 : Bytes) (h : b4.length = 4) :
    (X.fnv1a32 data != UInt32.ofNat (beNat b4)) = decide (rdBE b4 ≠ C.fnv1a32 data) := by
  have hl := beNat_lt b4
  rw [h] at hl
  have e1 : (UInt32.ofNat (beNat b4)).toNat = rdBE b4 := by
    rw [UInt32.toNat_ofNat_of_lt' (by simp only [UInt32.size]; omega)]; rfl
  have e2 := A.fnv data
  by_cases hc : rdBE b4 = C.fnv1a32 data
  · have : X.fnv1a32 data = UInt32.ofNat (beNat b4) := UInt32.toNat_inj.mp (by rw [e1, e2, hc])
    simp [this, hc]
  · have : X.fnv1a32 data ≠ UInt32.ofNat (beNat b4) := by
      intro he; apply hc; rw [← e1, ← he, e2]
    simp [this, hc]

/-- the generated command of a model command -/
def cmdG : Cmd → RequestCommand
  | .tcp => .TCP
  | .udp => .UDP

/-- what the generated `decode` does once the header is parsed: `new_decoder`, `decode_header`, the state change -/
def serverFinish (X : Ext CM XR W GCM) (ov : Bool) (g : ServerAeadCodec CM XR) (w : W) (src : List UInt8) (hdr : RequestHeader)
    (sess : ServerSession) : PWGen.Res (ServerAeadCodec CM XR × W × List UInt8 × RResult (Option InboundIn)) :=
  match X.new_decoder hdr (.ServerSession sess) with
  | (.ServerSession sess', RResult.ok d) =>
    match ServerAeadCodec.decode_header X ov src hdr sess' d with
    | .ok (src', hdr', sess'', d', res) => .ok ({ g with decode_state := .Ready hdr' sess'' d' }, w, src', res)
    | .panic => .panic
  | (.ServerSession _, RResult.err) => .ok (g, w, src, RResult.err)
  | (.ClientSession _, _) => .panic

/-- the request header the generated code builds from an opened header `h` that the model's parser accepts -/
def hdrOf (h : Bytes) (x : Octo.VmessAddrGen.Address) (key : Bytes) : RequestHeader :=
  ⟨h.getD 0 0, if h.getD 37 0 == 1 then .TCP else .UDP, optsOf (h.getD 34 0), secOf (h.getD 35 0 &&& 15), x, key⟩

/-- **the header parse of the generated `decode` = `parseRequest`** (after the auth id matched `key` and `open_header` released the
opened header `h`): NO PANIC on any authentic-but-malformed header (every cut, inconsistent lengths, unknown address type, unknown
command, bad checksum, a name that is not UTF-8 → `Err`, state still `Init`, the sealed header consumed); on an accepted header the
code continues with `serverFinish` on exactly the fields the model's parser yields -/
theorem gen_server_parse (A : HExtOk X C) (ov : Bool) (g : ServerAeadCodec CM XR) (w w' : W) (buf src' key h : Bytes)
    (hs : g.decode_state = .Init) (hl : buf.length < 2 ^ 64) (h16 : 16 ≤ buf.length) (hlh : h.length < 2 ^ 64)
    (hmatch : AuthId.matching X ov w (buf.take 16) g.keys = PWGen.Res.ok (w', RResult.ok (some key)))
    (hopen : Encrypt.open_header X ov key buf = PWGen.Res.ok (src', RResult.ok (some h))) :
    match parseRequest C X.utf8_ok h with
    | .ok (s, mask, sec, cmd, addr) =>
      ∃ x, Octo.VmessAddrGen.toAddr x = addr ∧ s = ⟨(h.drop 1).take 16, (h.drop 17).take 16, h.getD 33 0⟩ ∧ mask = (h.getD 34 0).toNat ∧
        (hdrOf h x key).command = cmdG cmd ∧
        ServerAeadCodec.Decoder_decode X ov g w buf =
          serverFinish X ov g w' src' (hdrOf h x key) (X.server_session_new s.reqIv s.reqKey s.respHeader)
    | .panic => False
    | _ => ServerAeadCodec.Decoder_decode X ov g w buf = PWGen.Res.ok (g, w', src', RResult.err) := by
  have h16' : ¬ buf.length < 16 := by omega
  rw [ServerAeadCodec.Decoder_decode]
  simp only [hs, len_lt16 buf hl, h16', decide_false, Bool.false_eq_true, if_false, bind_next, slice16 buf h16, hmatch, call_ok,
    question_ok, hopen]
  have hck := Octo.VmessAddrGen.check_eq ov h hlh
  rcases Octo.VmessAddrGen.headerGuard_cases h with hg | hg
  · -- the guard holds
    rw [hg] at hck
    have hcheck : Octo.VmessAddrGen.check_header_length ov h = PWGen.Res.ok (Octo.VmessAddrGen.RResult.ok ()) := by
      cases hx : Octo.VmessAddrGen.check_header_length ov h with
      | panic => rw [hx] at hck; simp [Octo.VmessAddrGen.embedCheck] at hck
      | ok r => cases r with
        | ok u => rfl
        | err => rw [hx] at hck; simp [Octo.VmessAddrGen.embedCheck] at hck
    obtain ⟨h41, al, hal, hlen⟩ := (Octo.VmessAddrGen.headerGuard_ok_iff h).mp hg
    obtain ⟨_, _, _, _, hr, _, _⟩ := Vmess.c07_vmess_parseRequest_reads_in_bounds X.utf8_ok h al (by omega) hal (by omega)
    have hpl : (U8.as_usize (h.getD 35 0 >>> 4)).toNat = Vmess.padLenOf h := pad_toNat' _
    have hsub : U64.subOk (Cursor.len h) (4 : Usize) = true := by
      simp only [U64.subOk, decide_eq_true_eq, len_toNat h hlh]; show 4 ≤ _; omega
    have hsl : ∀ ρ, (Flow.slice_to h (Cursor.len h - (4 : Usize)) : Flow _ ρ) = Flow.next (h.take (h.length - 4)) := by
      intro ρ
      have e : (Cursor.len h - (4 : Usize)).toNat = h.length - 4 := by
        rw [Octo.VmessBodyGen.sub_toNat _ _ (by rw [len_toNat h hlh]; show 4 ≤ _; omega), len_toNat h hlh]; rfl
      simp only [Flow.slice_to, e]; rw [if_pos (by omega)]
    have e1 : (1 : Usize).toNat = 1 := rfl
    rw [Vmess.parseRequest_eq, if_neg (by omega), hal]
    simp only []
    rw [if_neg (by omega)]
    simp only [hcheck, call_ok, bind_next, RResult.ofVm, question_ok, hsub, arith_true, hsl, get_u8_zero h (by omega),
      copy16_drop h 1 (by omega), copy16_drop h 17 (by omega), get_u8_drop h 33 (by omega), get_u8_drop h 34 (by omega),
      get_u8_drop h 35 (by omega), from_u8_eval, advance_drop h 36 1 (by rw [e1]; omega), e1, get_u8_drop h 37 (by omega),
      RequestCommand.as_u8]
    have cmd_bad : ∀ c : UInt8, (c.toNat ≠ 1 ∧ c.toNat ≠ 2) → ((c != 1) && (c != 2)) = true := by
      intro c hc
      simp only [ne_eq, Octo.VmessAddrGen.u8_toNat_eq_1, Octo.VmessAddrGen.u8_toNat_eq_2] at hc
      simp [hc.1, hc.2]
    have cmd_good : ∀ c : UInt8, ¬ (c.toNat ≠ 1 ∧ c.toNat ≠ 2) → ((c != 1) && (c != 2)) = false := by
      intro c hc
      simp only [ne_eq, Octo.VmessAddrGen.u8_toNat_eq_1, Octo.VmessAddrGen.u8_toNat_eq_2] at hc
      by_cases a1 : c = 1
      · simp [a1]
      · by_cases a2 : c = 2
        · simp [a2]
        · exact absurd ⟨a1, a2⟩ hc
    have cmd_eq : ∀ c : UInt8, (if c == 1 then RequestCommand.TCP else RequestCommand.UDP) = cmdG (if c.toNat = 1 then Cmd.tcp else Cmd.udp) := by
      intro c
      by_cases a1 : c = 1
      · subst a1; rfl
      · have : ¬ c.toNat = 1 := by rwa [Octo.VmessAddrGen.u8_toNat_eq_1]
        simp [a1, this, cmdG]
    by_cases hc : (h.getD 37 0).toNat ≠ 1 ∧ (h.getD 37 0).toNat ≠ 2
    · rw [if_pos hc]
      simp only [cmd_bad _ hc, if_true, bind_ret, run_ret]
    · rw [if_neg hc]
      simp only [cmd_good _ hc, Bool.false_eq_true, if_false, bind_next]
      have hcmdv := cmd_eq (h.getD 37 0)
      rcases Bool.eq_false_or_eq_true (h.getD 37 0 == 1) with hb | hb
      all_goals (
        simp only [hb, ↓reduceIte, Bool.false_eq_true, bind_next] at hcmdv ⊢
        have hrd := Octo.VmessAddrGen.read_eq ov X.utf8_ok (h.drop 38)
        cases hx : Octo.VmessAddrGen.read_address_port ov X.utf8_ok (h.drop 38) with
        | panic =>
          rw [hx] at hrd; simp only [Octo.VmessAddrGen.embedRead] at hrd
          rcases hr with hr | ⟨addr, hr⟩ <;> rw [hr] at hrd <;> cases hrd
        | ok v =>
          obtain ⟨r, res⟩ := v
          cases res with
          | err =>
            rw [hx] at hrd; simp only [Octo.VmessAddrGen.embedRead] at hrd
            rw [← hrd]
            simp only [call_ok, bind_next, RResult.ofVm, question_err, bind_ret, run_ret]
          | ok x =>
            rw [hx] at hrd; simp only [Octo.VmessAddrGen.embedRead] at hrd
            rcases hr with hr | ⟨addr, hr⟩
            · rw [hr] at hrd; cases hrd
            · rw [hr] at hrd
              simp only [Octo.Res.ok.injEq, Prod.mk.injEq] at hrd
              obtain ⟨hxa, hrr⟩ := hrd
              subst hrr
              rw [hr]
              simp only []
              have hfnv := fnv_test A (h.take (h.length - 4)) ((h.drop (41 + al + Vmess.padLenOf h)).take 4)
                (by simp [List.length_take, List.length_drop]; omega)
              simp only [bind_next, call_ok, RResult.ofVm, question_ok, advance_drop h (41 + al) _ (by rw [hpl]; omega), hpl,
                get_u32_drop h (41 + al + Vmess.padLenOf h) (by omega), hfnv, List.drop_drop]
              by_cases hf : rdBE ((h.drop (41 + al + Vmess.padLenOf h)).take 4) ≠ C.fnv1a32 (h.take (h.length - 4))
              · rw [if_pos hf]
                simp only [decide_eq_true hf, if_true, bind_ret, run_ret]
              · rw [if_neg hf]
                simp only [decide_eq_false hf, Bool.false_eq_true, if_false, bind_next, from_mask_eval, header_new_eval, call_ok]
                refine ⟨x, hxa, ?_, ?_, ?_, ?_⟩
                · first | rfl | trivial
                · first | rfl | trivial
                · simp only [hdrOf, hb, ↓reduceIte, Bool.false_eq_true]; exact hcmdv
                · simp only [serverFinish, hdrOf, hb, ↓reduceIte, Bool.false_eq_true]
                  generalize X.new_decoder _ (.ServerSession (X.server_session_new ((h.drop 1).take 16) ((h.drop 17).take 16) (h.getD 33 0))) = nd
                  cases nd with
                  | mk ds rr =>
                    cases ds with
                    | ClientSession cs => simp only [bind_next, Flow.as_server, bind_panic, run_panic']
                    | ServerSession ss =>
                      cases rr with
                      | err => simp only [bind_next, as_server_ok, question_err, bind_ret, run_ret]
                      | ok d =>
                        simp only [bind_next, as_server_ok, question_ok]
                        cases hdh : ServerAeadCodec.decode_header X ov (src') _ ss d with
                        | panic => simp only [call_panic, bind_panic, run_panic']
                        | ok v => obtain ⟨a, b, c, d', e⟩ := v; simp only [call_ok, bind_next, run_ret])
  · -- the guard refuses
    rw [hg] at hck
    have hcheck : Octo.VmessAddrGen.check_header_length ov h = PWGen.Res.ok Octo.VmessAddrGen.RResult.err := by
      cases hx : Octo.VmessAddrGen.check_header_length ov h with
      | panic => rw [hx] at hck; simp [Octo.VmessAddrGen.embedCheck] at hck
      | ok r => cases r with
        | ok u => rw [hx] at hck; simp [Octo.VmessAddrGen.embedCheck] at hck
        | err => rfl
    rw [Octo.VmessAddrGen.parseRequest_guard_err C X.utf8_ok h hg]
    simp only [hcheck, call_ok, bind_next, RResult.ofVm, question_err, bind_ret, run_ret]

end parse

/-! ## Part 6 — the body codec cannot change the implementor behind `&mut dyn Session` (partial-correctness calculus) -/
section kind
open Octo.VmessBodyGen (LoopExit)
variable {α β σ ρ : Type}

/-- which implementor of `trait Session` a `DynSession` is -/
def kind : DynSession → Bool
  | .ClientSession _ => true
  | .ServerSession _ => false

theorem kind_chunk_put (s : DynSession) (v : List UInt8) : kind (DynSession.chunk_nonce_put s v) = kind s := by cases s <;> rfl
theorem kind_dec_put (s : DynSession) (v : List UInt8) : kind (DynSession.decoder_nonce_mut_put s v) = kind s := by cases s <;> rfl
theorem kind_enc_put (s : DynSession) (v : List UInt8) : kind (DynSession.encoder_nonce_mut_put s v) = kind s := by cases s <;> rfl

/-- weak postcondition: IF the computation falls through / returns, the value satisfies `Qn` / `Qr` (a panic satisfies it) -/
def PostW (Qn : α → Prop) (Qr : ρ → Prop) : Flow α ρ → Prop
  | .next a => Qn a
  | .ret r => Qr r
  | .panic => True

theorem postW_bind (Qn : β → Prop) (Qr : ρ → Prop) (x : Flow α ρ) (k : α → Flow β ρ)
    (h : PostW (fun a => PostW Qn Qr (k a)) Qr x) : PostW Qn Qr (x.bind k) := by
  cases x <;> exact h
theorem postW_next (Qn : α → Prop) (Qr : ρ → Prop) (a : α) (h : Qn a) : PostW Qn Qr (Flow.next a) := h
theorem postW_ret (Qn : α → Prop) (Qr : ρ → Prop) (r : ρ) (h : Qr r) : PostW Qn Qr (Flow.ret r : Flow α ρ) := h
theorem postW_call (Qn : α → Prop) (Qr : ρ → Prop) (e : PWGen.Res α) (h : ∀ a, Qn a) :
    PostW Qn Qr (Octo.VmessBodyGen.Flow.call e : Flow α ρ) := by
  cases e <;> simp [Octo.VmessBodyGen.Flow.call, PostW, h]
theorem postW_question (Qn : α → Prop) (Qr : ρ → Prop) (r : RResult α) (e : ρ) (h : ∀ a, Qn a) (he : Qr e) :
    PostW Qn Qr (Flow.question r e) := by
  cases r <;> simp [Flow.question, PostW, h, he]
theorem postW_check (Qn : Unit → Prop) (Qr : ρ → Prop) (c : Bool) (h : Qn ()) : PostW Qn Qr (Flow.check c : Flow Unit ρ) := by
  cases c <;> simp [Flow.check, PostW, h]
theorem postW_arith (Qn : Unit → Prop) (Qr : ρ → Prop) (ov c : Bool) (h : Qn ()) : PostW Qn Qr (Flow.arith ov c : Flow Unit ρ) :=
  postW_check Qn Qr _ h
theorem postW_split_to (Qn : Cursor × Cursor → Prop) (Qr : ρ → Prop) (b : Cursor) (n : Usize) (h : ∀ a, Qn a) :
    PostW Qn Qr (Flow.split_to b n : Flow _ ρ) := by
  unfold Flow.split_to; split <;> simp [PostW, h]
theorem postW_advance (Qn : Cursor → Prop) (Qr : ρ → Prop) (b : Cursor) (n : Usize) (h : ∀ a, Qn a) :
    PostW Qn Qr (Flow.advance b n : Flow _ ρ) := by
  unfold Flow.advance; split <;> simp [PostW, h]
theorem postW_ite (Qn : α → Prop) (Qr : ρ → Prop) (c : Prop) [Decidable c] (x y : Flow α ρ) (hx : PostW Qn Qr x) (hy : PostW Qn Qr y) :
    PostW Qn Qr (if c then x else y) := by split <;> assumption

/-- loop rule (partial correctness): an invariant that every fall-through keeps; `break` → the loop's postcondition -/
theorem postW_loop (body : σ → Flow σ (LoopExit σ ρ)) (I : σ → Prop) (Qn : σ → Prop) (Qr : ρ → Prop)
    (hstep : ∀ s, I s → PostW I (fun e => match e with | .brk s' => Qn s' | .ret r => Qr r) (body s)) :
    ∀ (n : Nat) (s : σ), I s → PostW Qn Qr (Octo.VmessBodyGen.Flow.loopFuel body n s) := by
  intro n
  induction n with
  | zero => intro s _; simp [Octo.VmessBodyGen.Flow.loopFuel, PostW]
  | succ n ih =>
    intro s hI
    have := hstep s hI
    rw [Octo.VmessBodyGen.Flow.loopFuel]
    cases hb : body s with
    | next s' => rw [hb] at this; exact ih s' this
    | ret e => rw [hb] at this; cases e <;> exact this
    | panic => simp [PostW]

theorem run_postW (f : Flow Empty ρ) (Q : ρ → Prop) (h : PostW (fun _ => True) Q f) (r : ρ) (hr : Flow.run f = PWGen.Res.ok r) : Q r := by
  cases f with
  | next e => exact nomatch e
  | ret r' => simp only [Flow.run, PWGen.Res.ok.injEq] at hr; subst hr; exact h
  | panic => simp [Flow.run] at hr

end kind

section kindbody
open Octo.VmessBodyGen (LoopExit AEADBodyCodec.decode_payload AEADBodyCodec.decode_packet)
variable {CM XR RNG : Type} (B : Octo.VmessBodyGen.Ext CM XR RNG)

/-- **`decode_payload` keeps the implementor**: whatever it returns, the session is still of the kind it was given -/
theorem decode_payload_kind (ov : Bool) (g : AEADBodyCodec CM XR) (src : Cursor) (s : DynSession)
    (r : AEADBodyCodec CM XR × Cursor × DynSession × RResult (Option Cursor))
    (h : Octo.VmessBodyGen.AEADBodyCodec.decode_payload B ov g src s = PWGen.Res.ok r) : kind r.2.2.1 = kind s := by
  unfold Octo.VmessBodyGen.AEADBodyCodec.decode_payload at h
  refine run_postW _ (fun r => kind r.2.2.1 = kind s) ?_ r h
  refine postW_bind _ _ _ _ ?_
  refine postW_loop _ (fun st => kind st.2.2.1 = kind s) _ _ ?_ _ _ rfl
  · intro ⟨g1, src1, s1, dst1⟩ hI
    simp only at hI ⊢
    split
    · refine postW_bind _ _ _ _ (postW_call _ _ _ ?_)
      intro a; exact hI
    · refine postW_bind _ _ _ _ (postW_call _ _ _ ?_); intro sb
      refine postW_bind _ _ _ _ (postW_ite _ _ _ _ _ (postW_ite _ _ _ _ _ hI hI) ?_)
      show PostW _ _ _
      refine postW_bind _ _ _ _ (postW_split_to _ _ _ _ ?_); intro sp
      refine postW_bind _ _ _ _ (postW_call _ _ _ ?_); intro ds
      refine postW_bind _ _ _ _ (postW_question _ _ _ _ ?_ ?_)
      · intro l; show kind _ = kind s; rw [kind_chunk_put]; exact hI
      · show kind _ = kind s; rw [kind_chunk_put]; exact hI
    · refine postW_bind _ _ _ _ (postW_bind _ _ _ _ (postW_arith _ _ _ _ (postW_ite _ _ _ _ _ hI ?_)))
      show PostW _ _ _
      refine postW_bind _ _ _ _ (postW_ite _ _ _ _ _ (postW_ite _ _ _ _ _ hI hI) ?_)
      show PostW _ _ _
      refine postW_bind _ _ _ _ (postW_arith _ _ _ _ ?_)
      refine postW_bind _ _ _ _ (postW_split_to _ _ _ _ ?_); intro sp
      refine postW_bind _ _ _ _ (postW_call _ _ _ ?_); intro op
      refine postW_bind _ _ _ _ (postW_question _ _ _ _ ?_ ?_)
      · intro u
        refine postW_bind _ _ _ _ (postW_advance _ _ _ _ ?_); intro ad
        show kind _ = kind s; rw [kind_dec_put]; exact hI
      · show kind _ = kind s; rw [kind_dec_put]; exact hI

/-- **`decode_packet` keeps the implementor** -/
theorem decode_packet_kind (ov : Bool) (g : AEADBodyCodec CM XR) (src : Cursor) (s : DynSession)
    (r : AEADBodyCodec CM XR × Cursor × DynSession × RResult (Option Cursor))
    (h : Octo.VmessBodyGen.AEADBodyCodec.decode_packet B ov g src s = PWGen.Res.ok r) : kind r.2.2.1 = kind s := by
  unfold Octo.VmessBodyGen.AEADBodyCodec.decode_packet at h
  refine run_postW _ (fun r => kind r.2.2.1 = kind s) ?_ r h
  refine postW_bind _ _ _ _ ?_
  refine postW_loop _ (fun st => kind st.2.2 = kind s) _ _ ?_ _ _ rfl
  intro ⟨g1, src1, s1⟩ hI
  simp only at hI ⊢
  split
  · refine postW_bind _ _ _ _ (postW_call _ _ _ ?_)
    intro a; exact hI
  · refine postW_bind _ _ _ _ (postW_call _ _ _ ?_); intro sb
    refine postW_bind _ _ _ _ (postW_ite _ _ _ _ _ hI ?_)
    show PostW _ _ _
    refine postW_bind _ _ _ _ (postW_split_to _ _ _ _ ?_); intro sp
    refine postW_bind _ _ _ _ (postW_call _ _ _ ?_); intro ds
    refine postW_bind _ _ _ _ (postW_question _ _ _ _ ?_ ?_)
    · intro l; show kind _ = kind s; rw [kind_chunk_put]; exact hI
    · show kind _ = kind s; rw [kind_chunk_put]; exact hI
  · refine postW_bind _ _ _ _ (postW_bind _ _ _ _ (postW_arith _ _ _ _ (postW_ite _ _ _ _ _ hI ?_)))
    show PostW _ _ _
    refine postW_bind _ _ _ _ (postW_ite _ _ _ _ _ hI ?_)
    show PostW _ _ _
    refine postW_bind _ _ _ _ (postW_arith _ _ _ _ ?_)
    refine postW_bind _ _ _ _ (postW_split_to _ _ _ _ ?_); intro sp
    refine postW_bind _ _ _ _ (postW_call _ _ _ ?_); intro op
    refine postW_bind _ _ _ _ (postW_question _ _ _ _ ?_ ?_)
    · intro u
      refine postW_bind _ _ _ _ (postW_advance _ _ _ _ ?_); intro ad
      show kind _ = kind s; rw [kind_dec_put]; exact hI
    · show kind _ = kind s; rw [kind_dec_put]; exact hI

end kindbody

/-! ## Part 7 — `decode_header` / `decode_body` / the `Ready` state = the model's body step -/
section body
open Octo.VmessBodyGen (Rel RelN SessD embedOut embedPkt)
variable {CM XR W GCM : Type} {X : Ext CM XR W GCM} {C : Crypto}

theorem kind_server (d : DynSession) (h : kind d = kind (.ServerSession s0)) : ∃ s, d = .ServerSession s := by
  cases d with
  | ServerSession s => exact ⟨s, rfl⟩
  | ClientSession s => simp [kind] at h

/-- one `decode_payload` on a server session: the model's run of body units; the session is still a `ServerSession` -/
theorem payload_server (B : Octo.VmessBodyGen.ExtOk X.body C) (hC : C.Lawful) (ov : Bool) (d : AEADBodyCodec CM XR) (b : Body)
    (src : Bytes) (sess : ServerSession) (h : RelN B d b) (hs : SessD (.ServerSession sess) b) (h64 : src.length < 2 ^ 64) :
    ∃ d' sess', Octo.VmessBodyGen.AEADBodyCodec.decode_payload X.body ov d src (.ServerSession sess) =
        PWGen.Res.ok (d', (Fr.run (Body.unit C) b src).buf, .ServerSession sess', embedOut (Fr.run (Body.unit C) b src)) ∧
      RelN B d' (Fr.run (Body.unit C) b src).st ∧ SessD (.ServerSession sess') (Fr.run (Body.unit C) b src).st := by
  obtain ⟨⟨d', src', ds, res⟩, he, h1, h2, h3, h4⟩ := Octo.VmessBodyGen.decode_payload_spec B hC ov d b src (.ServerSession sess) h hs h64
  obtain ⟨sess', rfl⟩ := kind_server ds (decode_payload_kind X.body ov d src _ _ he)
  subst h3; subst h4
  exact ⟨d', sess', he, h1, h2⟩

theorem packet_server (B : Octo.VmessBodyGen.ExtOk X.body C) (hC : C.Lawful) (ov : Bool) (d : AEADBodyCodec CM XR) (b : Body)
    (src : Bytes) (sess : ServerSession) (h : RelN B d b) (hs : SessD (.ServerSession sess) b) (h64 : src.length < 2 ^ 64) :
    ∃ d' sess', Octo.VmessBodyGen.AEADBodyCodec.decode_packet X.body ov d src (.ServerSession sess) =
        PWGen.Res.ok (d', (bodyDrainPacket C 3 b src).2.1, .ServerSession sess', embedPkt (bodyDrainPacket C 3 b src).2.2) ∧
      RelN B d' (bodyDrainPacket C 3 b src).1 ∧ SessD (.ServerSession sess') (bodyDrainPacket C 3 b src).1 ∧
      (bodyDrainPacket C 3 b src).2.2 ≠ .panic := by
  obtain ⟨⟨d', src', ds, res⟩, he, h1, h2, h3, h4, h5⟩ := Octo.VmessBodyGen.decode_packet_spec B hC ov d b src (.ServerSession sess) h hs h64
  obtain ⟨sess', rfl⟩ := kind_server ds (decode_packet_kind X.body ov d src _ _ he)
  subst h3; subst h4
  exact ⟨d', sess', he, h1, h2, h5⟩

/-- the model's item of a generated message -/
def itemOf : InboundIn → Item
  | .ConnectTcp d a => ⟨.connect, d, some (Octo.VmessAddrGen.toAddr a)⟩
  | .RelayTcp d => ⟨.data, d, none⟩
  | .RelayUdp d a => ⟨.udp, d, some (Octo.VmessAddrGen.toAddr a)⟩
/-- the model's outcome of a generated result -/
def resOf : RResult (Option InboundIn) → Octo.Res Item
  | .ok none => .more
  | .ok (some i) => .ok (itemOf i)
  | .err => .err

/-- **C04 — `decode_header`, TCP arm**: as soon as the header is complete the request is `ConnectTcp(first body bytes or EMPTY, address)`
— also when no body chunk has arrived yet (`unwrap_or_default`); `Err` only when a buffered chunk fails; never a panic; buffer and
new codec state are the model's run of body units -/
theorem gen_decode_header_tcp (B : Octo.VmessBodyGen.ExtOk X.body C) (hC : C.Lawful) (ov : Bool) (hdr : RequestHeader)
    (d : AEADBodyCodec CM XR) (b : Body) (src : Bytes) (sess : ServerSession) (hc : hdr.command = .TCP)
    (h : RelN B d b) (hs : SessD (.ServerSession sess) b) (h64 : src.length < 2 ^ 64) :
    ∃ d' sess', ServerAeadCodec.decode_header X ov src hdr sess d =
        PWGen.Res.ok ((Fr.run (Body.unit C) b src).buf, hdr, sess', d',
          if (Fr.run (Body.unit C) b src).failed then RResult.err
          else RResult.ok (some (InboundIn.ConnectTcp (Fr.run (Body.unit C) b src).out hdr.address))) ∧
      RelN B d' (Fr.run (Body.unit C) b src).st ∧ SessD (.ServerSession sess') (Fr.run (Body.unit C) b src).st := by
  obtain ⟨d', sess', he, h1, h2⟩ := payload_server B hC ov d b src sess h hs h64
  refine ⟨d', sess', ?_, h1, h2⟩
  simp only [ServerAeadCodec.decode_header, hc, he, call_ok, bind_next, as_server_ok, embedOut]
  by_cases hf : (Fr.run (Body.unit C) b src).failed = true
  · simp only [hf, if_true, question_err, bind_ret, run_ret]
  · simp only [hf, Bool.false_eq_true, if_false]
    by_cases he' : (Fr.run (Body.unit C) b src).out.isEmpty = true
    · have : (Fr.run (Body.unit C) b src).out = [] := List.isEmpty_iff.mp he'
      simp only [he', if_true, question_ok, bind_next, Option.getD_none, run_ret]
      rw [this]
    · simp only [he', Bool.false_eq_true, if_false, question_ok, bind_next, Option.getD_some, run_ret]

/-- **C02/C04 — `decode_header`, UDP arm**: `RelayUdp` only with a complete datagram chunk, else `Ok(None)`; = `bodyDrainPacket` -/
theorem gen_decode_header_udp (B : Octo.VmessBodyGen.ExtOk X.body C) (hC : C.Lawful) (ov : Bool) (hdr : RequestHeader)
    (d : AEADBodyCodec CM XR) (b : Body) (src : Bytes) (sess : ServerSession) (hc : hdr.command = .UDP)
    (h : RelN B d b) (hs : SessD (.ServerSession sess) b) (h64 : src.length < 2 ^ 64) :
    ∃ d' sess', ServerAeadCodec.decode_header X ov src hdr sess d =
        PWGen.Res.ok ((bodyDrainPacket C 3 b src).2.1, hdr, sess', d',
          match (bodyDrainPacket C 3 b src).2.2 with
          | .ok o => RResult.ok (some (InboundIn.RelayUdp o hdr.address))
          | .more => RResult.ok none
          | _ => RResult.err) ∧
      RelN B d' (bodyDrainPacket C 3 b src).1 ∧ SessD (.ServerSession sess') (bodyDrainPacket C 3 b src).1 := by
  obtain ⟨d', sess', he, h1, h2, h3⟩ := packet_server B hC ov d b src sess h hs h64
  refine ⟨d', sess', ?_, h1, h2⟩
  simp only [ServerAeadCodec.decode_header, hc, he, call_ok, bind_next, as_server_ok]
  cases hr : (bodyDrainPacket C 3 b src).2.2 <;> simp only [embedPkt, question_ok, question_err, bind_next, bind_ret, run_ret]

/-- `decode_body` (state `Ready`): TCP → `RelayTcp` of what the run released (nothing → `Ok(None)`), UDP → one datagram -/
theorem gen_decode_body (B : Octo.VmessBodyGen.ExtOk X.body C) (hC : C.Lawful) (ov : Bool) (hdr : RequestHeader)
    (d : AEADBodyCodec CM XR) (b : Body) (src : Bytes) (sess : ServerSession) (cmd : Cmd) (hc : hdr.command = cmdG cmd)
    (h : RelN B d b) (hs : SessD (.ServerSession sess) b) (h64 : src.length < 2 ^ 64) :
    ∃ d' sess' res, ServerAeadCodec.decode_body X ov src hdr sess d =
        PWGen.Res.ok ((bodyDecode C cmd b src).2.1, hdr, sess', d', res) ∧
      (match (bodyDecode C cmd b src).2.2 with
        | .ok o => res = RResult.ok (some (if cmd = .tcp then InboundIn.RelayTcp o else InboundIn.RelayUdp o hdr.address))
        | .more => res = RResult.ok none
        | _ => res = RResult.err) ∧
      RelN B d' (bodyDecode C cmd b src).1 ∧ SessD (.ServerSession sess') (bodyDecode C cmd b src).1 := by
  cases cmd with
  | tcp =>
    obtain ⟨d', sess', he, h1, h2⟩ := payload_server B hC ov d b src sess h hs h64
    simp only [cmdG] at hc
    simp only [ServerAeadCodec.decode_body, hc, he, call_ok, bind_next, as_server_ok, embedOut, bodyDecode]
    by_cases hf : (Fr.run (Body.unit C) b src).failed = true
    · exact ⟨d', sess', RResult.err, by simp only [hf, if_true, question_err, bind_ret, run_ret], by simp [hf], by simpa [hf] using h1, by simpa [hf] using h2⟩
    · by_cases he' : (Fr.run (Body.unit C) b src).out.isEmpty = true
      · exact ⟨d', sess', RResult.ok none, by simp only [hf, he', Bool.false_eq_true, if_false, if_true, question_ok, bind_next, run_ret],
          by simp [hf, he'], by simpa [hf, he'] using h1, by simpa [hf, he'] using h2⟩
      · exact ⟨d', sess', RResult.ok (some (InboundIn.RelayTcp (Fr.run (Body.unit C) b src).out)), by simp only [hf, he', Bool.false_eq_true, if_false, question_ok, bind_next, run_ret],
          by simp [hf, he'], by simpa [hf, he'] using h1, by simpa [hf, he'] using h2⟩
  | udp =>
    obtain ⟨d', sess', he, h1, h2, h3⟩ := packet_server B hC ov d b src sess h hs h64
    simp only [cmdG] at hc
    simp only [ServerAeadCodec.decode_body, hc, he, call_ok, bind_next, as_server_ok, bodyDecode]
    cases hr : (bodyDrainPacket C 3 b src).2.2 with
    | ok o => exact ⟨d', sess', RResult.ok (some (InboundIn.RelayUdp o hdr.address)), by simp only [embedPkt, question_ok, bind_next, run_ret], by simp, h1, h2⟩
    | more => exact ⟨d', sess', RResult.ok none, by simp only [embedPkt, question_ok, bind_next, run_ret], by simp, h1, h2⟩
    | err => exact ⟨d', sess', RResult.err, by simp only [embedPkt, question_err, bind_ret, run_ret], by simp, h1, h2⟩
    | panic => exact absurd hr h3

/-- **the `Ready` state of the generated `decode`**: an empty buffer is `Ok(None)` (state untouched); otherwise one `decode_body` -/
theorem gen_server_ready (B : Octo.VmessBodyGen.ExtOk X.body C) (hC : C.Lawful) (ov : Bool) (g : ServerAeadCodec CM XR) (w : W)
    (hdr : RequestHeader) (sess : ServerSession) (d : AEADBodyCodec CM XR) (b : Body) (src : Bytes) (cmd : Cmd)
    (hst : g.decode_state = .Ready hdr sess d) (hc : hdr.command = cmdG cmd)
    (h : RelN B d b) (hs : SessD (.ServerSession sess) b) (h64 : src.length < 2 ^ 64) :
    if src = [] then ServerAeadCodec.Decoder_decode X ov g w src = PWGen.Res.ok (g, w, src, RResult.ok none)
    else ∃ d' sess' res, ServerAeadCodec.Decoder_decode X ov g w src =
        PWGen.Res.ok ({ g with decode_state := .Ready hdr sess' d' }, w, (bodyDecode C cmd b src).2.1, res) ∧
      (match (bodyDecode C cmd b src).2.2 with
        | .ok o => res = RResult.ok (some (if cmd = .tcp then InboundIn.RelayTcp o else InboundIn.RelayUdp o hdr.address))
        | .more => res = RResult.ok none
        | _ => res = RResult.err) ∧
      RelN B d' (bodyDecode C cmd b src).1 ∧ SessD (.ServerSession sess') (bodyDecode C cmd b src).1 := by
  by_cases he : src = []
  · subst he
    simp only [if_true, ServerAeadCodec.Decoder_decode, hst, Cursor.is_empty, List.isEmpty_nil, run_ret]
  · simp only [he, if_false]
    obtain ⟨d', sess', res, hb, h1, h2, h3⟩ := gen_decode_body B hC ov hdr d b src sess cmd hc h hs h64
    refine ⟨d', sess', res, ?_, h1, h2, h3⟩
    simp only [ServerAeadCodec.Decoder_decode, hst, is_empty_false src he, Bool.false_eq_true, if_false, hb, call_ok, bind_next, run_ret]

end body

/-! ## Part 8 — the generated server `decode` in state `Init` = the header phase of the model's `Server.decode` -/
section init
variable {CM XR W GCM : Type} {X : Ext CM XR W GCM} {C : Crypto}

theorem openHeader_ok_len (hC : C.Lawful) (key src h : Bytes) (n : Nat) (ho : openHeader C key src = .ok (h, n)) :
    h.length ≤ src.length := by
  unfold openHeader at ho
  split at ho
  · cases ho
  · simp only at ho
    split at ho
    · cases ho
    · split at ho
      · cases ho
      · split at ho
        · cases ho
        · rename_i h' hh
          simp only [Octo.Res.ok.injEq, Prod.mk.injEq] at ho
          have := hC.open_len _ _ _ _ _ _ hh
          simp only [List.length_take, List.length_drop] at this
          rw [← ho.1]; omega

theorem openHeader_ne_panic (C : Crypto) (key src : Bytes) : openHeader C key src ≠ .panic := by
  unfold openHeader
  split
  · simp
  · simp only []
    split
    · simp
    · split
      · simp
      · split <;> simp

/-- **the header phase of the generated server = the model's `Server.decode`** (state `Init`, ≥ 16 bytes, inside the i64 guard):
the SAME decisions in the SAME order on the SAME data, never a panic —
* C06: nothing happens unless `authIdMatch` finds a CONFIGURED key under which the first 16 bytes decrypt to a valid CRC (no key, or an
  all-zero / absent credential that is not in the table → `Err`, nothing consumed, state `Init`);
* C10: the time window `|t − now| ≤ 120` (both sides) is part of `authIdMatch`, evaluated on the first 16 bytes, the clock unchanged;
* C04: `Ok(None)` with the buffer untouched until the sealed header is complete (`openHeader = more`); `Err` untouched when not authentic;
* C07: an authentic header that `parseRequest` refuses (any cut, inconsistent lengths, unknown type / command, checksum) → `Err`, the
  sealed header consumed, state `Init`; `parseRequest` never panics and neither does the code;
* an accepted header → `serverFinish` (new_decoder, `decode_header`, state `Ready`) on exactly the model's fields. -/
theorem gen_server_init (A : HExtOk X C) (hC : C.Lawful) (ov : Bool) (g : ServerAeadCodec CM XR) (w : W) (buf : Bytes)
    (hs : g.decode_state = .Init) (hl : buf.length < 2 ^ 64) (h16 : 16 ≤ buf.length)
    (hguard : MatchGuard C (buf.take 16) g.keys (A.nowOf w)) :
    ∃ w', A.nowOf w' = A.nowOf w ∧
      match authIdMatch C (buf.take 16) g.keys (A.nowOf w) with
      | none => ServerAeadCodec.Decoder_decode X ov g w buf = PWGen.Res.ok (g, w', buf, RResult.err)
      | some key =>
        match openHeader C key buf with
        | .more => ServerAeadCodec.Decoder_decode X ov g w buf = PWGen.Res.ok (g, w', buf, RResult.ok none)
        | .err => ServerAeadCodec.Decoder_decode X ov g w buf = PWGen.Res.ok (g, w', buf, RResult.err)
        | .panic => False
        | .ok (h, n) =>
          match parseRequest C X.utf8_ok h with
          | .ok (s, mask, sec, cmd, addr) =>
            ∃ x, Octo.VmessAddrGen.toAddr x = addr ∧ s = ⟨(h.drop 1).take 16, (h.drop 17).take 16, h.getD 33 0⟩ ∧
              mask = (h.getD 34 0).toNat ∧ (hdrOf h x key).command = cmdG cmd ∧
              ServerAeadCodec.Decoder_decode X ov g w buf =
                serverFinish X ov g w' (buf.drop n) (hdrOf h x key) (X.server_session_new s.reqIv s.reqKey s.respHeader)
          | .panic => False
          | _ => ServerAeadCodec.Decoder_decode X ov g w buf = PWGen.Res.ok (g, w', buf.drop n, RResult.err) := by
  obtain ⟨w', hm, hw⟩ := matching_eq A hC ov (buf.take 16) (by simp [List.length_take]; omega) g.keys w hguard
  refine ⟨w', hw, ?_⟩
  cases hk : authIdMatch C (buf.take 16) g.keys (A.nowOf w) with
  | none =>
    rw [hk] at hm
    exact gen_server_gate ov g w buf hs hl h16 w' hm
  | some key =>
    rw [hk] at hm
    simp only []
    have hop := open_header_eq A hC ov key buf hl
    have h16' : ¬ buf.length < 16 := by omega
    cases ho : openHeader C key buf with
    | more =>
      rw [ho] at hop
      simp only [embedOpen] at hop
      rw [ServerAeadCodec.Decoder_decode]
      simp only [hs, len_lt16 buf hl, h16', decide_false, Bool.false_eq_true, if_false, bind_next, slice16 buf h16, hm, call_ok,
        question_ok, hop, bind_ret, run_ret]
    | err =>
      rw [ho] at hop
      simp only [embedOpen] at hop
      rw [ServerAeadCodec.Decoder_decode]
      simp only [hs, len_lt16 buf hl, h16', decide_false, Bool.false_eq_true, if_false, bind_next, slice16 buf h16, hm, call_ok,
        question_ok, hop, question_err, bind_ret, run_ret]
    | panic => exact absurd ho (openHeader_ne_panic C key buf)
    | ok v =>
      obtain ⟨h, n⟩ := v
      rw [ho] at hop
      simp only [embedOpen] at hop
      have hlh : h.length < 2 ^ 64 := Nat.lt_of_le_of_lt (openHeader_ok_len hC key buf h n ho) hl
      exact gen_server_parse A ov g w w' buf (buf.drop n) key h hs hl h16 hlh hm hop

end init

/-! ## Part 9 — the closed theorem: generated `ServerAeadCodec::decode` = the model's `Server.decode`, every call -/
section closed
open Octo.VmessBodyGen (Rel RelN SessD)
variable {CM XR W GCM : Type} {X : Ext CM XR W GCM} {C : Crypto}

/-- the option mask of an option list, as `get_mask` computes it -/
def maskOfOpts (l : List RequestOption) : Nat := (l.foldl (fun a o => a ||| RequestOption.as_u8 o) (0 : UInt8)).toNat
/-- the cipher `AEADBodyCodec::new` chooses for a `SecurityType`: only `Chacha20Poly1305` selects ChaCha -/
def secM : SecurityType → Security
  | .Chacha20Poly1305 => .chacha20
  | _ => .aes128gcm

theorem opts_mask_fin : ∀ k : Fin 256, maskOfOpts (optsOf (UInt8.ofNat k.val)) = knownMask (UInt8.ofNat k.val).toNat := by decide +kernel
theorem sec_fin : ∀ k : Fin 256, secM (secOf (UInt8.ofNat k.val &&& 15)) = Security.ofByte ((UInt8.ofNat k.val).toNat % 16) := by
  decide +kernel
theorem u8_ofNat_toNat (m : UInt8) : UInt8.ofNat m.toNat = m := by
  apply UInt8.toNat_inj.mp
  rw [UInt8.toNat_ofNat_of_lt' (by simp only [UInt8.size]; exact m.toNat_lt)]

/-- **`optsOf m` ↔ `knownMask m`**: the option list `from_mask` builds carries exactly the five known bits of the wire mask -/
theorem opts_mask (m : UInt8) : maskOfOpts (optsOf m) = knownMask m.toNat := by
  have := opts_mask_fin ⟨m.toNat, m.toNat_lt⟩
  simpa only [u8_ofNat_toNat] using this
theorem sec_model (b : UInt8) : secM (secOf (b &&& 15)) = Security.ofByte (b.toNat % 16) := by
  have := sec_fin ⟨b.toNat, b.toNat_lt⟩
  simpa only [u8_ofNat_toNat] using this

/-- the model session of a generated server session -/
def sessM (s : ServerSession) : Session := ⟨s.request_body_iv, s.request_body_key, s.response_header⟩

/-- **what is assumed of the two constructors that are not translated** (`ServerSession::new`, `AEADBodyCodec::new_decoder`), stated
through the relations of `Octo/Proofs/VmessBodyGen.lean`: the session keeps the request IV / key / response byte (response IV / key =
SHA-256, as the model's `Session.respIv/respKey`); for 16-byte request key and IV `new_decoder` succeeds and the codec value it builds
stands (`Rel`) for the model's `Body.new` of the header's option mask and cipher, over the request key / IV, and the session it leaves
stands (`SessD`) for that body's IVs -/
structure NewDecOk (X : Ext CM XR W GCM) (C : Crypto) (B : Octo.VmessBodyGen.ExtOk X.body C) : Prop where
  sess_new : ∀ iv key rh, X.server_session_new iv key rh = ⟨iv, key, (C.sha256 iv).take 16, (C.sha256 key).take 16, rh⟩
  new_dec : ∀ (hdr : RequestHeader) (sess : ServerSession), sess.request_body_iv.length = 16 → sess.request_body_key.length = 16 →
    ∃ sess' d, X.new_decoder hdr (.ServerSession sess) = (.ServerSession sess', RResult.ok d) ∧
      Rel B d (Body.new C (maskOfOpts hdr.option) (secM hdr.security) sess.request_body_key sess.request_body_iv (sessM sess)) ∧
      SessD (.ServerSession sess') (Body.new C (maskOfOpts hdr.option) (secM hdr.security) sess.request_body_key sess.request_body_iv (sessM sess))

/-- generated server value ↔ model server -/
def SRel (B : Octo.VmessBodyGen.ExtOk X.body C) (g : ServerAeadCodec CM XR) (sv : Server) : Prop :=
  g.keys = sv.keys ∧
  match g.decode_state, sv.ready with
  | .Init, none => True
  | .Ready hdr sess d, some r =>
    hdr.command = cmdG r.cmd ∧ Octo.VmessAddrGen.toAddr hdr.address = r.addr ∧ RelN B d r.dec ∧ SessD (.ServerSession sess) r.dec
  | _, _ => False

theorem parse_ok_fields (u : Bytes → Bool) (h : Bytes) (s : Session) (mask : Nat) (sec : Security) (cmd : Cmd) (addr : Addr)
    (hp : parseRequest C u h = .ok (s, mask, sec, cmd, addr)) :
    sec = Security.ofByte ((h.getD 35 0).toNat % 16) ∧ 41 ≤ h.length := by
  rw [Vmess.parseRequest_eq] at hp
  split at hp
  · cases hp
  · rename_i h41
    split at hp
    · cases hp
    · split at hp
      · cases hp
      · split at hp
        · cases hp
        · split at hp
          · split at hp
            · cases hp
            · simp only [Octo.Res.ok.injEq, Prod.mk.injEq] at hp
              exact ⟨hp.2.2.1.symm, by omega⟩
          · cases hp
          · cases hp

/-- `serverFinish` under `NewDecOk`, TCP -/
theorem serverFinish_tcp (B : Octo.VmessBodyGen.ExtOk X.body C) (N : NewDecOk X C B) (hC : C.Lawful) (ov : Bool)
    (g : ServerAeadCodec CM XR) (w : W) (src : Bytes) (hdr : RequestHeader) (sess : ServerSession)
    (hiv : sess.request_body_iv.length = 16) (hkey : sess.request_body_key.length = 16) (hc : hdr.command = .TCP) (h64 : src.length < 2 ^ 64) :
    let body := Body.new C (maskOfOpts hdr.option) (secM hdr.security) sess.request_body_key sess.request_body_iv (sessM sess)
    ∃ d' sess', serverFinish X ov g w src hdr sess =
        PWGen.Res.ok ({ g with decode_state := .Ready hdr sess' d' }, w, (Fr.run (Body.unit C) body src).buf,
          if (Fr.run (Body.unit C) body src).failed then RResult.err
          else RResult.ok (some (InboundIn.ConnectTcp (Fr.run (Body.unit C) body src).out hdr.address))) ∧
      RelN B d' (Fr.run (Body.unit C) body src).st ∧ SessD (.ServerSession sess') (Fr.run (Body.unit C) body src).st := by
  intro body
  obtain ⟨sess1, d, hnd, hrel, hsd⟩ := N.new_dec hdr sess hiv hkey
  obtain ⟨d', sess', he, h1, h2⟩ := gen_decode_header_tcp (X := X) B hC ov hdr d body src sess1 hc
    (Octo.VmessBodyGen.relN_of_rel B d body hrel) hsd h64
  exact ⟨d', sess', by simp only [serverFinish, hnd, he], h1, h2⟩

/-- `serverFinish` under `NewDecOk`, UDP -/
theorem serverFinish_udp (B : Octo.VmessBodyGen.ExtOk X.body C) (N : NewDecOk X C B) (hC : C.Lawful) (ov : Bool)
    (g : ServerAeadCodec CM XR) (w : W) (src : Bytes) (hdr : RequestHeader) (sess : ServerSession)
    (hiv : sess.request_body_iv.length = 16) (hkey : sess.request_body_key.length = 16) (hc : hdr.command = .UDP) (h64 : src.length < 2 ^ 64) :
    let body := Body.new C (maskOfOpts hdr.option) (secM hdr.security) sess.request_body_key sess.request_body_iv (sessM sess)
    ∃ d' sess', serverFinish X ov g w src hdr sess =
        PWGen.Res.ok ({ g with decode_state := .Ready hdr sess' d' }, w, (bodyDrainPacket C 3 body src).2.1,
          match (bodyDrainPacket C 3 body src).2.2 with
          | .ok o => RResult.ok (some (InboundIn.RelayUdp o hdr.address))
          | .more => RResult.ok none
          | _ => RResult.err) ∧
      RelN B d' (bodyDrainPacket C 3 body src).1 ∧ SessD (.ServerSession sess') (bodyDrainPacket C 3 body src).1 := by
  intro body
  obtain ⟨sess1, d, hnd, hrel, hsd⟩ := N.new_dec hdr sess hiv hkey
  obtain ⟨d', sess', he, h1, h2⟩ := gen_decode_header_udp (X := X) B hC ov hdr d body src sess1 hc
    (Octo.VmessBodyGen.relN_of_rel B d body hrel) hsd h64
  exact ⟨d', sess', by simp only [serverFinish, hnd, he], h1, h2⟩

/-- **THE CLOSED THEOREM — the generated `ServerAeadCodec::decode` is the model's `Server.decode`, for every call**: every related
pair of states (`Init` or `Ready`), every buffer below 2^64 bytes, both overflow profiles, inside the i64 guard of the time window
(needed only in `Init` with ≥ 16 bytes): the generated call does not panic, leaves exactly the model's buffer, returns the model's
outcome (`Ok(None)` / `Err` / the same item: `ConnectTcp` / `RelayTcp` / `RelayUdp` with the same bytes and address), the new states
are related again, and the clock still shows the same time -/
theorem gen_server_decode_eq (A : HExtOk X C) (B : Octo.VmessBodyGen.ExtOk X.body C) (N : NewDecOk X C B) (hC : C.Lawful) (ov : Bool)
    (g : ServerAeadCodec CM XR) (sv : Server) (w : W) (buf : Bytes) (hrel : SRel B g sv) (hl : buf.length < 2 ^ 64)
    (hguard : sv.ready = none → 16 ≤ buf.length → MatchGuard C (buf.take 16) sv.keys (A.nowOf w)) :
    ∃ g' w' res, ServerAeadCodec.Decoder_decode X ov g w buf =
        PWGen.Res.ok (g', w', (Server.decode C X.utf8_ok (A.nowOf w) sv buf).buf, res) ∧
      resOf res = (Server.decode C X.utf8_ok (A.nowOf w) sv buf).res ∧
      SRel B g' (Server.decode C X.utf8_ok (A.nowOf w) sv buf).st ∧ A.nowOf w' = A.nowOf w := by
  obtain ⟨hkeys, hst⟩ := hrel
  cases hr : sv.ready with
  | some r =>
    -- state `Ready`
    rw [hr] at hst
    cases hds : g.decode_state with
    | Init => rw [hds] at hst; exact hst.elim
    | Ready hdr sess d =>
      rw [hds] at hst
      obtain ⟨hc, ha, hrn, hsd⟩ := hst
      have hrd := gen_server_ready (X := X) B hC ov g w hdr sess d r.dec buf r.cmd hds hc hrn hsd hl
      by_cases he : buf = []
      · subst he
        simp only [if_true] at hrd
        refine ⟨g, w, RResult.ok none, by rw [hrd]; simp [Server.decode, hr], ?_, ?_, rfl⟩
        · simp [Server.decode, hr, resOf]
        · simp only [Server.decode, hr, List.isEmpty_nil, if_true]
          exact ⟨hkeys, by rw [hds, hr]; exact ⟨hc, ha, hrn, hsd⟩⟩
      · simp only [he, if_false] at hrd
        obtain ⟨d', sess', res, hdec, hres, h1, h2⟩ := hrd
        have hne : buf.isEmpty = false := by cases buf <;> simp_all
        refine ⟨{ g with decode_state := .Ready hdr sess' d' }, w, res, ?_, ?_, ?_, rfl⟩
        · rw [hdec]; simp only [Server.decode, hr, hne, Bool.false_eq_true, if_false]
          rcases hbd : bodyDecode C r.cmd r.dec buf with ⟨b', buf', rr⟩
          cases rr <;> rfl
        · simp only [Server.decode, hr, hne, Bool.false_eq_true, if_false]
          rcases hbd : bodyDecode C r.cmd r.dec buf with ⟨b', buf', rr⟩
          rw [hbd] at hres
          cases rr with
          | ok o =>
            simp only at hres; subst hres
            cases hcm : r.cmd <;> simp [resOf, itemOf, ha]
          | more => simp only at hres; subst hres; rfl
          | err => simp only at hres; subst hres; rfl
          | panic => simp only at hres; subst hres; rfl
        · simp only [Server.decode, hr, hne, Bool.false_eq_true, if_false]
          rcases hbd : bodyDecode C r.cmd r.dec buf with ⟨b', buf', rr⟩
          rw [hbd] at h1 h2
          cases rr <;> exact ⟨hkeys, ⟨hc, ha, h1, h2⟩⟩
  | none =>
    rw [hr] at hst
    cases hds : g.decode_state with
    | Ready hdr sess d => rw [hds] at hst; exact hst.elim
    | Init =>
      by_cases h16 : buf.length < 16
      · refine ⟨g, w, RResult.ok none, gen_server_short ov g w buf hds hl h16 ▸ ?_, ?_, ?_, rfl⟩
        · simp [Server.decode, hr, h16]
        · simp [Server.decode, hr, h16, resOf]
        · simp only [Server.decode, hr, h16, if_true]; exact ⟨hkeys, by rw [hds, hr]; trivial⟩
      · have h16' : 16 ≤ buf.length := by omega
        obtain ⟨w', hw', hinit⟩ := gen_server_init A hC ov g w buf hds hl h16' (by rw [hkeys]; exact hguard hr h16')
        rw [hkeys] at hinit
        have hInitRel : SRel B g sv := ⟨hkeys, by rw [hds, hr]; trivial⟩
        cases hm : authIdMatch C (buf.take 16) sv.keys (A.nowOf w) with
        | none =>
          rw [hm] at hinit
          refine ⟨g, w', RResult.err, by rw [hinit]; simp [Server.decode, hr, h16, hm], by simp [Server.decode, hr, h16, hm, resOf], ?_, hw'⟩
          simp only [Server.decode, hr, h16, if_false, hm]; exact hInitRel
        | some key =>
          rw [hm] at hinit
          simp only at hinit
          cases ho : openHeader C key buf with
          | more =>
            rw [ho] at hinit
            refine ⟨g, w', RResult.ok none, by rw [hinit]; simp [Server.decode, hr, h16, hm, ho],
              by simp [Server.decode, hr, h16, hm, ho, resOf], ?_, hw'⟩
            simp only [Server.decode, hr, h16, if_false, hm, ho]; exact hInitRel
          | err =>
            rw [ho] at hinit
            refine ⟨g, w', RResult.err, by rw [hinit]; simp [Server.decode, hr, h16, hm, ho],
              by simp [Server.decode, hr, h16, hm, ho, resOf], ?_, hw'⟩
            simp only [Server.decode, hr, h16, if_false, hm, ho]; exact hInitRel
          | panic => rw [ho] at hinit; exact hinit.elim
          | ok v =>
            obtain ⟨h, n⟩ := v
            rw [ho] at hinit
            simp only at hinit
            cases hp : parseRequest C X.utf8_ok h with
            | more =>
              rw [hp] at hinit
              refine ⟨g, w', RResult.err, by rw [hinit]; simp [Server.decode, hr, h16, hm, ho, hp],
                by simp [Server.decode, hr, h16, hm, ho, hp, resOf], ?_, hw'⟩
              simp only [Server.decode, hr, h16, if_false, hm, ho, hp]; exact hInitRel
            | err =>
              rw [hp] at hinit
              refine ⟨g, w', RResult.err, by rw [hinit]; simp [Server.decode, hr, h16, hm, ho, hp],
                by simp [Server.decode, hr, h16, hm, ho, hp, resOf], ?_, hw'⟩
              simp only [Server.decode, hr, h16, if_false, hm, ho, hp]; exact hInitRel
            | panic => rw [hp] at hinit; exact hinit.elim
            | ok v =>
              obtain ⟨s, mask, sec, cmd, addr⟩ := v
              rw [hp] at hinit
              obtain ⟨x, hxa, hs, hmask, hcmd, hdec⟩ := hinit
              obtain ⟨hsec, h41⟩ := parse_ok_fields X.utf8_ok h s mask sec cmd addr hp
              have hsn := N.sess_new s.reqIv s.reqKey s.respHeader
              have hiv : s.reqIv.length = 16 := by rw [hs]; simp [List.length_take, List.length_drop]; omega
              have hky : s.reqKey.length = 16 := by rw [hs]; simp [List.length_take, List.length_drop]; omega
              have hbody : Body.new C (maskOfOpts (hdrOf h x key).option) (secM (hdrOf h x key).security) s.reqKey s.reqIv
                  (sessM ⟨s.reqIv, s.reqKey, (C.sha256 s.reqIv).take 16, (C.sha256 s.reqKey).take 16, s.respHeader⟩) =
                  Body.new C (knownMask mask) sec s.reqKey s.reqIv s := by
                simp only [hdrOf, opts_mask, sec_model, hmask, hsec, sessM]
              have hrest : (buf.drop n).length < 2 ^ 64 := by rw [List.length_drop]; omega
              rw [hsn] at hdec
              cases cmd with
              | tcp =>
                have hct : (hdrOf h x key).command = .TCP := by rw [hcmd]; rfl
                obtain ⟨d', sess', hfin, h1, h2⟩ := serverFinish_tcp (X := X) B N hC ov g w' (buf.drop n) (hdrOf h x key)
                  ⟨s.reqIv, s.reqKey, (C.sha256 s.reqIv).take 16, (C.sha256 s.reqKey).take 16, s.respHeader⟩ hiv hky hct hrest
                simp only [hbody] at hfin h1 h2
                by_cases hf : (Fr.run (Body.unit C) (Body.new C (knownMask mask) sec s.reqKey s.reqIv s) (buf.drop n)).failed = true
                · refine ⟨{ g with decode_state := .Ready (hdrOf h x key) sess' d' }, w', RResult.err, ?_, ?_, ?_, hw'⟩
                  · rw [hdec, hfin]; simp [Server.decode, hr, h16, hm, ho, hp, hf]
                  · simp [Server.decode, hr, h16, hm, ho, hp, hf, resOf]
                  · simp only [Server.decode, hr, h16, if_false, hm, ho, hp, hf, if_true]
                    exact ⟨hkeys, hct, hxa, h1, h2⟩
                · refine ⟨{ g with decode_state := .Ready (hdrOf h x key) sess' d' }, w', RResult.ok (some (InboundIn.ConnectTcp (Fr.run (Body.unit C) (Body.new C (knownMask mask) sec s.reqKey s.reqIv s) (buf.drop n)).out (hdrOf h x key).address)), ?_, ?_, ?_, hw'⟩
                  · rw [hdec, hfin]; simp [Server.decode, hr, h16, hm, ho, hp, hf]
                  · simp [Server.decode, hr, h16, hm, ho, hp, hf, resOf, itemOf, hxa, hdrOf]
                  · simp only [Server.decode, hr, h16, if_false, hm, ho, hp, hf, Bool.false_eq_true]
                    exact ⟨hkeys, hct, hxa, h1, h2⟩
              | udp =>
                have hct : (hdrOf h x key).command = .UDP := by rw [hcmd]; rfl
                obtain ⟨d', sess', hfin, h1, h2⟩ := serverFinish_udp (X := X) B N hC ov g w' (buf.drop n) (hdrOf h x key)
                  ⟨s.reqIv, s.reqKey, (C.sha256 s.reqIv).take 16, (C.sha256 s.reqKey).take 16, s.respHeader⟩ hiv hky hct hrest
                simp only [hbody] at hfin h1 h2
                rcases hbd : bodyDrainPacket C 3 (Body.new C (knownMask mask) sec s.reqKey s.reqIv s) (buf.drop n) with ⟨b', buf', rr⟩
                rw [hbd] at hfin h1 h2
                simp only at hfin h1 h2
                cases rr with
                | ok o =>
                  refine ⟨{ g with decode_state := .Ready (hdrOf h x key) sess' d' }, w', RResult.ok (some (InboundIn.RelayUdp o (hdrOf h x key).address)), ?_, ?_, ?_, hw'⟩
                  · rw [hdec, hfin]; simp [Server.decode, hr, h16, hm, ho, hp, bodyDecode, hbd]
                  · simp [Server.decode, hr, h16, hm, ho, hp, bodyDecode, hbd, resOf, itemOf, hxa, hdrOf]
                  · simp only [Server.decode, hr, h16, if_false, hm, ho, hp, bodyDecode, hbd]
                    exact ⟨hkeys, hct, hxa, h1, h2⟩
                | more =>
                  refine ⟨{ g with decode_state := .Ready (hdrOf h x key) sess' d' }, w', RResult.ok none, ?_, ?_, ?_, hw'⟩
                  · rw [hdec, hfin]; simp [Server.decode, hr, h16, hm, ho, hp, bodyDecode, hbd]
                  · simp [Server.decode, hr, h16, hm, ho, hp, bodyDecode, hbd, resOf]
                  · simp only [Server.decode, hr, h16, if_false, hm, ho, hp, bodyDecode, hbd]
                    exact ⟨hkeys, hct, hxa, h1, h2⟩
                | err =>
                  refine ⟨{ g with decode_state := .Ready (hdrOf h x key) sess' d' }, w', RResult.err, ?_, ?_, ?_, hw'⟩
                  · rw [hdec, hfin]; simp [Server.decode, hr, h16, hm, ho, hp, bodyDecode, hbd]
                  · simp [Server.decode, hr, h16, hm, ho, hp, bodyDecode, hbd, resOf]
                  · simp only [Server.decode, hr, h16, if_false, hm, ho, hp, bodyDecode, hbd]
                    exact ⟨hkeys, hct, hxa, h1, h2⟩
                | panic =>
                  refine ⟨{ g with decode_state := .Ready (hdrOf h x key) sess' d' }, w', RResult.err, ?_, ?_, ?_, hw'⟩
                  · rw [hdec, hfin]; simp [Server.decode, hr, h16, hm, ho, hp, bodyDecode, hbd]
                  · simp [Server.decode, hr, h16, hm, ho, hp, bodyDecode, hbd, resOf]
                  · simp only [Server.decode, hr, h16, if_false, hm, ho, hp, bodyDecode, hbd]
                    exact ⟨hkeys, hct, hxa, h1, h2⟩

end closed

/-! ## Part 10 — `ServerAeadCodec::encode`: the response header, once -/
section sencode
variable {CM XR W GCM : Type} {X : Ext CM XR W GCM} {C : Crypto}

/-- what is assumed of the two further externals of the encoder: `Aes128Gcm::encrypt` is the model's `sealB`; `new_encoder` cannot
change the implementor behind `&mut dyn Session` -/
structure EncExtOk (X : Ext CM XR W GCM) (C : Crypto) (A : HExtOk X C) : Prop where
  enc : ∀ g n ad m, X.gcm_encrypt g n m ad = RResult.ok (C.sealB .aes128gcm (A.gcmKey g) n ad m)
  new_enc_server : ∀ h s, ∃ s' r, X.new_encoder h (.ServerSession s) = (.ServerSession s', r)

/-- `OutboundIn` → the bytes to encode (`impl From<OutboundIn> for BytesMut`) -/
def bytesOf : OutboundIn → List UInt8
  | .Tcp b => b
  | .Udp (b, _) => b
theorem from_outbound_eval (ov : Bool) (item : OutboundIn) : BytesMut.From_OutboundIn_from X ov item = PWGen.Res.ok (bytesOf item) := by
  cases item with
  | Tcp b => rfl
  | Udp v => obtain ⟨b, a⟩ := v; rfl

/-- `RequestOption::get_mask` as a total function (no `unwrap` on an empty list: `unwrap_or(0)`) -/
def maskByte (l : List RequestOption) : UInt8 :=
  Option.getD (Iter.reduce (fun a b => a ||| b) (List.map (fun x => RequestOption.as_u8 x) l)) 0
theorem get_mask_eval (ov : Bool) (l : List RequestOption) : RequestOption.get_mask X ov l = PWGen.Res.ok (maskByte l) := rfl

/-- the response header as the model / the specification write it, for a generated server session and option byte -/
def respHeaderM (C : Crypto) (sess : ServerSession) (opt : UInt8) : Bytes :=
  C.sealB .aes128gcm (Vmess.kdf16 C sess.response_body_key [saltRespLenKey]) (Vmess.kdfn C 12 sess.response_body_iv [saltRespLenIv]) [] (be16 4) ++
    C.sealB .aes128gcm (Vmess.kdf16 C sess.response_body_key [saltRespKey]) (Vmess.kdfn C 12 sess.response_body_iv [saltRespIv]) []
      [sess.response_header, opt, 0, 0]

theorem len4_be (a b : UInt8) : U16.to_be_bytes (Usize.as_u16 (Cursor.len ([a, b, (0 : UInt8), (0 : UInt8)] : List UInt8))) = be16 4 := by
  have : Cursor.len ([a, b, (0 : UInt8), (0 : UInt8)] : List UInt8) = 4 := rfl
  rw [this]; decide

/-- **first `encode`** (state `Ready`, no encoder yet): the response header — sealed length 4, then sealed `[response byte, option
mask, 0, 0]` under the keys derived from the session's RESPONSE key / IV — is appended to `dst`, then `new_encoder`, then the item goes
through the body encoder, and the encoder is kept -/
theorem gen_server_encode_first (A : HExtOk X C) (E : EncExtOk X C A) (ov : Bool) (g : ServerAeadCodec CM XR) (w : W)
    (hdr : RequestHeader) (sess : ServerSession) (d : AEADBodyCodec CM XR) (item : OutboundIn) (dst : Bytes)
    (hst : g.decode_state = .Ready hdr sess d) (hes : g.encode_state = .Init) :
    ∃ sess' r, X.new_encoder hdr (.ServerSession sess) = (.ServerSession sess', r) ∧
      ServerAeadCodec.Encoder_OutboundIn_encode X ov g w item dst =
        match r with
        | RResult.err => PWGen.Res.ok ({ g with decode_state := .Ready hdr sess' d }, w,
            dst ++ respHeaderM C sess (maskByte hdr.option), RResult.err)
        | RResult.ok enc =>
          match ServerAeadCodec.encode X ov w (bytesOf item) (dst ++ respHeaderM C sess (maskByte hdr.option)) hdr sess' enc with
          | .ok (w', dst', sess'', enc', res) =>
            PWGen.Res.ok ({ g with decode_state := .Ready hdr sess'' d, encode_state := .Ready enc' }, w', dst', res)
          | .panic => PWGen.Res.panic := by
  obtain ⟨g1, hg1, hk1⟩ := A.gcm_new (Vmess.kdf16 C sess.response_body_key [saltRespLenKey]) (kdf16_length _ _ _)
  obtain ⟨g2, hg2, hk2⟩ := A.gcm_new (Vmess.kdf16 C sess.response_body_key [saltRespKey]) (kdf16_length _ _ _)
  obtain ⟨sess', r, hnd⟩ := E.new_enc_server hdr sess
  refine ⟨sess', r, hnd, ?_⟩
  simp only [ServerAeadCodec.Encoder_OutboundIn_encode, hst, hes, A.kdf16, A.kdfn, e12, salt_resp_len_key, salt_resp_len_iv, salt_resp_key,
    salt_resp_iv, hg1, hg2, question_ok, bind_next, get_mask_eval, call_ok, E.enc, hk1, hk2, len4_be, Cursor.extend_from_slice, hnd,
    as_server_ok, from_outbound_eval, respHeaderM, List.append_assoc]
  cases r with
  | err => simp only [question_err, bind_ret, run_ret]
  | ok enc =>
    simp only [question_ok, bind_next]
    cases ServerAeadCodec.encode X ov w (bytesOf item) _ hdr sess' enc with
    | panic => simp only [call_panic, bind_panic, run_panic']
    | ok v => obtain ⟨a, b, c, e, f⟩ := v; simp only [call_ok, bind_next, run_ret]

/-- **later `encode`s** (the encoder exists): NO header — the item goes straight through the body encoder -/
theorem gen_server_encode_later (ov : Bool) (g : ServerAeadCodec CM XR) (w : W)
    (hdr : RequestHeader) (sess : ServerSession) (d enc : AEADBodyCodec CM XR) (item : OutboundIn) (dst : Bytes)
    (hst : g.decode_state = .Ready hdr sess d) (hes : g.encode_state = .Ready enc) :
    ServerAeadCodec.Encoder_OutboundIn_encode X ov g w item dst =
      match ServerAeadCodec.encode X ov w (bytesOf item) dst hdr sess enc with
      | .ok (w', dst', sess'', enc', res) =>
        PWGen.Res.ok ({ g with decode_state := .Ready hdr sess'' d, encode_state := .Ready enc' }, w', dst', res)
      | .panic => PWGen.Res.panic := by
  simp only [ServerAeadCodec.Encoder_OutboundIn_encode, hst, hes, from_outbound_eval, call_ok, bind_next]
  cases ServerAeadCodec.encode X ov w (bytesOf item) dst hdr sess enc with
  | panic => simp only [call_panic, bind_panic, run_panic']
  | ok v => obtain ⟨a, b, c, e, f⟩ := v; simp only [call_ok, bind_next, run_ret]

/-- before the request header has been decoded (`Init`) `encode` refuses: nothing written -/
theorem gen_server_encode_not_ready (ov : Bool) (g : ServerAeadCodec CM XR) (w : W) (item : OutboundIn) (dst : Bytes)
    (hst : g.decode_state = .Init) :
    ServerAeadCodec.Encoder_OutboundIn_encode X ov g w item dst = PWGen.Res.ok (g, w, dst, RResult.err) := by
  simp only [ServerAeadCodec.Encoder_OutboundIn_encode, hst, run_ret]

/-- the item itself: a TCP connection's items go through the body codec's `encode_payload` (chunked), a UDP association's through
`encode_packet` (one chunk, refused when too large), on the server's session -/
theorem gen_server_encode_item (ov : Bool) (w : W) (item dst : Bytes) (hdr : RequestHeader) (sess : ServerSession)
    (enc : AEADBodyCodec CM XR) :
    ServerAeadCodec.encode X ov w item dst hdr sess enc =
      match (match hdr.command with
        | .TCP => Octo.VmessBodyGen.AEADBodyCodec.encode_payload X.body ov enc w item dst (.ServerSession sess)
        | .UDP => Octo.VmessBodyGen.AEADBodyCodec.encode_packet X.body ov enc w item dst (.ServerSession sess)) with
      | .ok (enc', w', dst', .ServerSession s', r) => PWGen.Res.ok (w', dst', s', enc', r)
      | .ok (_, _, _, .ClientSession _, _) => PWGen.Res.panic
      | .panic => PWGen.Res.panic := by
  cases hc : hdr.command with
  | TCP =>
    simp only [ServerAeadCodec.encode, hc]
    cases Octo.VmessBodyGen.AEADBodyCodec.encode_payload X.body ov enc w item dst (.ServerSession sess) with
    | panic => simp only [call_panic, bind_panic, run_panic']
    | ok v =>
      obtain ⟨a, b, c, ds, r⟩ := v
      cases ds with
      | ServerSession s' => simp only [call_ok, bind_next, as_server_ok, run_ret]
      | ClientSession s' => simp only [call_ok, bind_next, Flow.as_server, bind_panic, run_panic']
  | UDP =>
    simp only [ServerAeadCodec.encode, hc]
    cases Octo.VmessBodyGen.AEADBodyCodec.encode_packet X.body ov enc w item dst (.ServerSession sess) with
    | panic => simp only [call_panic, bind_panic, run_panic']
    | ok v =>
      obtain ⟨a, b, c, ds, r⟩ := v
      cases ds with
      | ServerSession s' => simp only [call_ok, bind_next, as_server_ok, run_ret]
      | ClientSession s' => simp only [call_ok, bind_next, Flow.as_server, bind_panic, run_panic']

end sencode

/-! ## the i64 edge of the time window (difference between the code and the model's `authIdMatch`) -/

/-- the window test of the generated `matching` on the timestamp `t` and the clock value `now` (both as i64 bits), release profile -/
def windowRelease (t now : I64) : Bool := I64.le (I64.abs (I64.sub t now)) (I64.ofNat 120)

/-- **difference**: a timestamp exactly 2^63 seconds before the clock value passes the code's window test when overflow checks are
off (`i64::MIN.abs()` wraps to `i64::MIN`, which is `<= 120`), while the model's `(t - now).natAbs ≤ 120` refuses it; with overflow
checks on, the same input is a panic (`I64.absOk` fails).  Instance: clock value 5. -/
theorem window_wrap_difference :
    windowRelease ⟨0x8000000000000005⟩ (I64.ofNat 5) = true ∧
    I64.absOk (I64.sub ⟨0x8000000000000005⟩ (I64.ofNat 5)) = false ∧
    I64.subOk ⟨0x8000000000000005⟩ (I64.ofNat 5) = true ∧
    ¬ (((⟨0x8000000000000005⟩ : I64).toInt - (I64.ofNat 5).toInt).natAbs ≤ Consts.vmessAuthWindow) := by
  refine ⟨by decide, by decide, by decide, by decide⟩

/-- inside the guard `-2^63 < t - now < 2^63` neither the subtraction nor `abs` overflows and the code's test is the model's -/
theorem window_guarded (t now : I64) (h1 : -(2 ^ 63 : Int) < t.toInt - now.toInt) (h2 : t.toInt - now.toInt < 2 ^ 63) :
    I64.subOk t now = true := by
  simp only [I64.subOk, decide_eq_true_eq]; omega

/-! ## witnesses: the assumptions are satisfiable for every `Crypto` -/

/-- externals built from the model's `Crypto` (clock stopped at 0, `new_decoder` refusing: the two are not constrained by `HExtOk`
beyond what is shown) -/
def hextOf (C : Crypto) : Ext (Alg × Bytes) (Bytes × Nat) Unit Bytes where
  body := Octo.VmessBodyGen.extOf C
  utf8_ok := fun _ => true
  kdf16 := fun k p => Vmess.kdf16 C k p
  kdfn := fun n k p => Vmess.kdfn C n.toNat k p
  gcm_new := fun k => if k.length = 16 then RResult.ok k else RResult.err
  gcm_encrypt := fun g n m ad => RResult.ok (C.sealB .aes128gcm g n ad m)
  new_encoder := fun _ s => (s, RResult.err)
  gcm_decrypt := fun g n m ad => match C.openB .aes128gcm g n ad m with
    | some p => RResult.ok p
    | none => RResult.err
  gcm_decrypt_in_place := fun g n ad b => match C.openB .aes128gcm g n ad b with
    | some p => (p, RResult.ok ())
    | none => (b, RResult.err)
  ecb_decrypt := fun k b => PWGen.Res.ok (C.aesDec k b)
  crc32 := fun b => UInt32.ofNat (C.crc32 b % 2 ^ 32)
  fnv1a32 := fun b => UInt32.ofNat (C.fnv1a32 b % 2 ^ 32)
  now := fun w => (w, RResult.ok (I64.ofNat 0))
  server_session_new := fun iv key rh => ⟨iv, key, (C.sha256 iv).take 16, (C.sha256 key).take 16, rh⟩
  new_decoder := fun _ s => (s, RResult.err)
  log_enabled := true

/-- `HExtOk` holds for them whenever the model's checksums are 32-bit values -/
def hextOf_ok (C : Crypto) (hcrc : ∀ b, C.crc32 b < 2 ^ 32) (hfnv : ∀ b, C.fnv1a32 b < 2 ^ 32) : HExtOk (hextOf C) C where
  gcmKey := id
  nowOf := fun _ => 0
  kdf16 := fun _ _ => rfl
  kdfn := fun _ _ _ => rfl
  gcm_new := by intro k hk; exact ⟨k, by simp [hextOf, hk], rfl⟩
  dec_ok := by intro g n ad b p h; simp only [hextOf, id] at h ⊢; rw [h]
  dec_err := by intro g n ad b h; simp only [hextOf, id] at h ⊢; rw [h]
  decip_ok := by intro g n ad b p h; simp only [hextOf, id] at h ⊢; rw [h]
  decip_err := by intro g n ad b h; simp only [hextOf, id] at h ⊢; rw [h]
  ecb := fun _ _ _ _ => rfl
  crc := by
    intro b; simp only [hextOf]
    rw [Nat.mod_eq_of_lt (hcrc b), UInt32.toNat_ofNat_of_lt' (by have := hcrc b; simp only [UInt32.size]; omega)]
  fnv := by
    intro b; simp only [hextOf]
    rw [Nat.mod_eq_of_lt (hfnv b), UInt32.toNat_ofNat_of_lt' (by have := hfnv b; simp only [UInt32.size]; omega)]
  now := fun w => ⟨w, rfl, rfl⟩
  now_lt := fun _ => by decide
  new_dec_client := fun _ s => ⟨s, RResult.err, rfl⟩
  new_dec_server := fun _ s => ⟨s, RResult.err, rfl⟩

theorem encExtOk_hextOf (C : Crypto) (hcrc : ∀ b, C.crc32 b < 2 ^ 32) (hfnv : ∀ b, C.fnv1a32 b < 2 ^ 32) :
    EncExtOk (hextOf C) C (hextOf_ok C hcrc hfnv) where
  enc := fun _ _ _ _ => rfl
  new_enc_server := fun _ s => ⟨s, RResult.err, rfl⟩

/-- externals whose `new_decoder` builds the codec value of the model's `Body.new` (witness for `NewDecOk`) -/
def hextOf2 (C : Crypto) : Ext (Alg × Bytes) (Bytes × Nat) Unit Bytes :=
  { hextOf C with
    new_decoder := fun hdr s => match s with
      | .ServerSession ss => (s, RResult.ok (Octo.VmessBodyGen.genOf
          (Body.new C (maskOfOpts hdr.option) (secM hdr.security) ss.request_body_key ss.request_body_iv (sessM ss))))
      | .ClientSession _ => (s, RResult.err) }

theorem newDecOk_hextOf2 (C : Crypto) : NewDecOk (hextOf2 C) C (Octo.VmessBodyGen.extOf_ok C) where
  sess_new := fun _ _ _ => rfl
  new_dec := by
    intro hdr sess hiv hkey
    refine ⟨sess, _, rfl, Octo.VmessBodyGen.rel_genOf C _ rfl, ?_⟩
    refine ⟨⟨by show 12 ≤ sess.request_body_iv.length; omega, rfl⟩, ⟨by show 12 ≤ sess.request_body_iv.length; omega, fun _ => rfl⟩⟩

/-- a generated client value for a model session -/
def clientOf (C : Crypto) (s : Session) (hdr : RequestHeader) : ClientAEADCodec (Alg × Bytes) (Bytes × Nat) :=
  { header := hdr, session := ⟨s.reqIv, s.reqKey, s.respIv C, s.respKey C, s.respHeader⟩, body_encoder := none, body_decoder := none }

theorem crel_clientOf (C : Crypto) (s : Session) (hdr : RequestHeader) : CRel (C := C) (clientOf C s hdr) s := ⟨rfl, rfl, rfl⟩

end Octo.VmessHdrGen
