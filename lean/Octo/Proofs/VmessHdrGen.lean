import Octo.Gen.VmessHdrGen
import Octo.Proofs.VmessBodyGen
import Octo.Model.Vmess
/-!
  The generated code (`Octo.VmessHdrGen`, written by `translate_vmesshdr.py` from `server/vmess.rs`, `client/vmess.rs`,
  `protocol/vmess/aead/{auth_id,encrypt}.rs`, `protocol/vmess/header.rs`) against the hand model `Octo.Vmess`
  (`Octo/Model/Vmess.lean`): `Client.decode` (response header), `authIdMatch`, `openHeader`, `Server.decode` (first step).

  Part 0: evaluation rules.  Part 1: what is assumed of the externals (`HExtOk`), salts.  Part 2: the client's response header.
  Part 3: `auth_id::matching` = `authIdMatch` (with the exact i64 guard, and the difference outside it).
  Part 4: `encrypt::open_header` = `openHeader`.  Part 5: the server's first step up to the header parse.
-/
set_option linter.unusedSimpArgs false
set_option linter.unusedVariables false
namespace Octo.VmessHdrGen
open Octo Octo.PWGen Octo.AddrGen Octo.Vmess
open Octo.VmessBodyGen (DynSession ServerSession ClientSession AEADBodyCodec)

/-! ## Part 0 — evaluation rules -/
section flow
variable {α β σ ρ : Type}
theorem call_ok (a : α) : (Flow.call (PWGen.Res.ok a) : Flow α ρ) = Flow.next a := rfl
theorem call_panic : (Flow.call (PWGen.Res.panic : PWGen.Res α) : Flow α ρ) = Flow.panic := rfl
theorem check_true : (Flow.check true : Flow Unit ρ) = Flow.next () := rfl
theorem as_client_ok (s : ClientSession) : (Flow.as_client (.ClientSession s) : Flow ClientSession ρ) = Flow.next s := rfl
theorem as_server_ok (s : ServerSession) : (Flow.as_server (.ServerSession s) : Flow ServerSession ρ) = Flow.next s := rfl
theorem ite_next_next (c : Prop) [Decidable c] (a : α) : (if c then (Flow.next a : Flow α ρ) else Flow.next a) = Flow.next a := by
  split <;> rfl
end flow

theorem remaining_toNat (b : List UInt8) (h : b.length < 2 ^ 64) : (Cursor.remaining b).toNat = b.length :=
  Octo.VmessBodyGen.remaining_toNat b h
theorem len_toNat (b : List UInt8) (h : b.length < 2 ^ 64) : (Cursor.len b).toNat = b.length := by
  rw [Cursor.len, UInt64.toNat_ofNat_of_lt' (show _ < 18446744073709551616 by omega)]
theorem u16_as_usize_toNat (v : UInt16) : (U16.as_usize v).toNat = v.toNat := Octo.VmessBodyGen.u16_as_usize_toNat v
theorem lt_iff_toNat (a c : Usize) : a < c ↔ a.toNat < c.toNat := UInt64.lt_iff_toNat_lt
theorem add_toNat (a c : Usize) (h : a.toNat + c.toNat < 2 ^ 64) : (a + c).toNat = a.toNat + c.toNat :=
  Octo.VmessBodyGen.add_toNat a c h
theorem from_be_bytes_toNat (l : List UInt8) (h : l.length = 2) : (UInt16.ofNat (beNat l)).toNat = rdBE l := port_toNat l h

/-! ## Part 1 — the externals -/

theorem salt_resp_len_key : Kdf.SALT_AEAD_RESP_HEADER_LEN_KEY = saltRespLenKey := by with_unfolding_all rfl
theorem salt_resp_len_iv : Kdf.SALT_AEAD_RESP_HEADER_LEN_IV = saltRespLenIv := by with_unfolding_all rfl
theorem salt_resp_key : Kdf.SALT_AEAD_RESP_HEADER_PAYLOAD_KEY = saltRespKey := by with_unfolding_all rfl
theorem salt_resp_iv : Kdf.SALT_AEAD_RESP_HEADER_PAYLOAD_IV = saltRespIv := by with_unfolding_all rfl
theorem salt_length_key : Kdf.SALT_LENGTH_KEY = saltLengthKey := by with_unfolding_all rfl
theorem salt_length_iv : Kdf.SALT_LENGTH_IV = saltLengthIv := by with_unfolding_all rfl
theorem salt_payload_key : Kdf.SALT_PAYLOAD_KEY = saltPayloadKey := by with_unfolding_all rfl
theorem salt_payload_iv : Kdf.SALT_PAYLOAD_IV = saltPayloadIv := by with_unfolding_all rfl
theorem salt_auth_id : ([65, 69, 83, 32, 65, 117, 116, 104, 32, 73, 68, 32, 69, 110, 99, 114, 121, 112, 116, 105, 111, 110] : List UInt8) = saltAuthId := by
  with_unfolding_all rfl

theorem kdfn_length (C : Crypto) (n : Nat) (k : Bytes) (p : List Bytes) : (kdfn C n k p).length = n := by
  simp [kdfn, zeros]; omega
theorem kdf16_length (C : Crypto) (k : Bytes) (p : List Bytes) : (kdf16 C k p).length = 16 := kdfn_length C 16 k p

section ext
variable {CM XR W GCM : Type}

/-- **what is assumed of the externals**, relative to the model's abstract `Crypto`: `kdf16`/`kdfn` are the model's nested-HMAC
tree, an `Aes128Gcm` value stands for its key and is created from every 16-byte key, `decrypt` / `decrypt_in_place` succeed exactly
when the model's `openB` does (yielding the plaintext), `Aes128EcbNoPadding::decrypt` of one block under a 16-byte key is the
model's `aesDec`, CRC-32 and FNV-1a are the model's, the clock yields a non-negative number of seconds that fits an `i64` and
reading it does not change what it yields during the call, `new_decoder` cannot change the implementor behind `&mut dyn Session`. -/
structure HExtOk (X : Ext CM XR W GCM) (C : Crypto) where
  gcmKey : GCM → Bytes
  nowOf : W → Nat
  kdf16 : ∀ k p, X.kdf16 k p = Vmess.kdf16 C k p
  kdfn : ∀ n k p, X.kdfn n k p = Vmess.kdfn C n.toNat k p
  gcm_new : ∀ k, k.length = 16 → ∃ g, X.gcm_new k = RResult.ok g ∧ gcmKey g = k
  dec_ok : ∀ g n ad b p, C.openB .aes128gcm (gcmKey g) n ad b = some p → X.gcm_decrypt g n b ad = RResult.ok p
  dec_err : ∀ g n ad b, C.openB .aes128gcm (gcmKey g) n ad b = none → X.gcm_decrypt g n b ad = RResult.err
  decip_ok : ∀ g n ad b p, C.openB .aes128gcm (gcmKey g) n ad b = some p → X.gcm_decrypt_in_place g n ad b = (p, RResult.ok ())
  decip_err : ∀ g n ad b, C.openB .aes128gcm (gcmKey g) n ad b = none → (X.gcm_decrypt_in_place g n ad b).2 = RResult.err
  ecb : ∀ k b, k.length = 16 → b.length = 16 → X.ecb_decrypt k b = PWGen.Res.ok (C.aesDec k b)
  crc : ∀ b, (X.crc32 b).toNat = C.crc32 b
  fnv : ∀ b, (X.fnv1a32 b).toNat = C.fnv1a32 b
  now : ∀ w, ∃ w', X.now w = (w', RResult.ok (I64.ofNat (nowOf w))) ∧ nowOf w' = nowOf w
  now_lt : ∀ w, nowOf w < 2 ^ 62
  new_dec_client : ∀ h s, ∃ s' r, X.new_decoder h (.ClientSession s) = (.ClientSession s', r)
  new_dec_server : ∀ h s, ∃ s' r, X.new_decoder h (.ServerSession s) = (.ServerSession s', r)

end ext

/-! ## Part 2 — `ClientAEADCodec::decode`: the response header -/
section client
variable {CM XR W GCM : Type} {X : Ext CM XR W GCM} {C : Crypto}

/-- the generated client value stands for the model's session: response key / IV / byte -/
structure CRel (g : ClientAEADCodec CM XR) (s : Session) : Prop where
  key : g.session.response_body_key = s.respKey C
  iv : g.session.response_body_iv = s.respIv C
  hdr : g.session.response_header = s.respHeader

/-- the four derived keys of the response header -/
def respLk (C : Crypto) (s : Session) := kdf16 C (s.respKey C) [saltRespLenKey]
def respLi (C : Crypto) (s : Session) := kdfn C 12 (s.respIv C) [saltRespLenIv]
def respHk (C : Crypto) (s : Session) := kdf16 C (s.respKey C) [saltRespKey]
def respHi (C : Crypto) (s : Session) := kdfn C 12 (s.respIv C) [saltRespIv]

theorem e12 : (12 : Usize).toNat = 12 := rfl
theorem e18 : (Mem.size_of_u16 + (16 : Usize)) = 18 := rfl
theorem e18n : (18 : Usize).toNat = 18 := rfl
theorem e16n : (16 : Usize).toNat = 16 := rfl

theorem io_copy18 {ρ : Type} (src : List UInt8) (h : 18 ≤ src.length) :
    (Flow.io_copy_to_bytes (IoCursor.new src) 18 : Flow _ ρ) = Flow.next (⟨src, 18⟩, src.take 18) := by
  simp [Flow.io_copy_to_bytes, IoCursor.new, e18n, h]

theorem io_copy18' {ρ : Type} (src : List UInt8) (h : 18 ≤ src.length) :
    (Flow.io_copy_to_bytes (IoCursor.new src) (Mem.size_of_u16 + (16 : Usize)) : Flow _ ρ) = Flow.next (⟨src, 18⟩, src.take 18) :=
  io_copy18 src h

/-- what the first call does, case by case (`buf` non-empty, no body decoder yet).  `hl` = the announced header length. -/
inductive ClientHdr (C : Crypto) (s : Session) (buf : Bytes) : Type where
  /-- fewer than 18 bytes: wait, nothing consumed -/
  | short (h : buf.length < 18)
  /-- the sealed length does not open: error, nothing consumed -/
  | badLen (h : 18 ≤ buf.length) (ho : C.openB .aes128gcm (respLk C s) (respLi C s) [] (buf.take 18) = none)
  /-- the sealed header is not complete yet: wait, nothing consumed (the 18 bytes were only peeked) -/
  | more (h : 18 ≤ buf.length) (lb : Bytes) (ho : C.openB .aes128gcm (respLk C s) (respLi C s) [] (buf.take 18) = some lb)
      (hm : buf.length - 18 < rdBE lb + 16)
  /-- the sealed header does not open: error, the whole sealed header is consumed -/
  | badHdr (h : 18 ≤ buf.length) (lb : Bytes) (ho : C.openB .aes128gcm (respLk C s) (respLi C s) [] (buf.take 18) = some lb)
      (hm : ¬ buf.length - 18 < rdBE lb + 16)
      (hh : C.openB .aes128gcm (respHk C s) (respHi C s) [] ((buf.drop 18).take (rdBE lb + 16)) = none)
  /-- the header opens but is empty or its first byte is not the session's response byte: error -/
  | wrongByte (h : 18 ≤ buf.length) (lb : Bytes) (ho : C.openB .aes128gcm (respLk C s) (respLi C s) [] (buf.take 18) = some lb)
      (hm : ¬ buf.length - 18 < rdBE lb + 16) (hb : Bytes)
      (hh : C.openB .aes128gcm (respHk C s) (respHi C s) [] ((buf.drop 18).take (rdBE lb + 16)) = some hb)
      (hw : hb.head? ≠ some s.respHeader)
  /-- accepted -/
  | accept (h : 18 ≤ buf.length) (lb : Bytes) (ho : C.openB .aes128gcm (respLk C s) (respLi C s) [] (buf.take 18) = some lb)
      (hm : ¬ buf.length - 18 < rdBE lb + 16) (hb : Bytes)
      (hh : C.openB .aes128gcm (respHk C s) (respHi C s) [] ((buf.drop 18).take (rdBE lb + 16)) = some hb)
      (hw : hb.head? = some s.respHeader)

/-- every buffer falls into exactly one case -/
def ClientHdr.classify (C : Crypto) (s : Session) (buf : Bytes) : ClientHdr C s buf :=
  if h : buf.length < 18 then .short h else
  match ho : C.openB .aes128gcm (respLk C s) (respLi C s) [] (buf.take 18) with
  | none => .badLen (by omega) ho
  | some lb =>
    if hm : buf.length - 18 < rdBE lb + 16 then .more (by omega) lb ho hm else
    match hh : C.openB .aes128gcm (respHk C s) (respHi C s) [] ((buf.drop 18).take (rdBE lb + 16)) with
    | none => .badHdr (by omega) lb ho hm hh
    | some hb =>
      if hw : hb.head? = some s.respHeader then .accept (by omega) lb ho hm hb hh hw
      else .wrongByte (by omega) lb ho hm hb hh hw

/-- the model's `Client.decode` in the five cases that do not reach the body -/
def ClientHdr.refusal {C : Crypto} {s : Session} {buf : Bytes} : ClientHdr C s buf → Option (Bytes × Octo.Res Unit)
  | .short _ => some (buf, .more)
  | .badLen _ _ => some (buf, .err)
  | .more _ _ _ _ => some (buf, .more)
  | .badHdr _ lb _ _ _ => some (buf.drop (18 + rdBE lb + 16), .err)
  | .wrongByte _ lb _ _ _ _ _ => some (buf.drop (18 + rdBE lb + 16), .err)
  | .accept .. => none

def embedU : Octo.Res Unit → RResult (Option (List UInt8))
  | .more => RResult.ok none
  | _ => RResult.err

/-- **model side**: in the refusing cases `Client.decode` leaves the client untouched and yields exactly this buffer / outcome -/
theorem model_client_refusal (c : Client) (s : Session) (buf : Bytes) (hc : c.session = some s) (hd : c.dec = none)
    (hne : buf ≠ []) (k : ClientHdr C s buf) (rest : Bytes) (r : Octo.Res Unit) (hk : k.refusal = some (rest, r)) :
    Client.decode C c buf = ⟨c, rest, match r with | .more => .more | _ => .err⟩ := by
  have hne' : buf.isEmpty = false := by cases buf <;> simp_all
  cases k with
  | short h =>
    simp only [ClientHdr.refusal, Option.some.injEq, Prod.mk.injEq] at hk
    obtain ⟨rfl, rfl⟩ := hk
    simp [Client.decode, hc, hd, hne', h]
  | badLen h ho =>
    simp only [ClientHdr.refusal, Option.some.injEq, Prod.mk.injEq] at hk
    obtain ⟨rfl, rfl⟩ := hk
    have : ¬ buf.length < 18 := by omega
    simp only [respLk, respLi] at ho
    simp [Client.decode, hc, hd, hne', this, ho]
  | more h lb ho hm =>
    simp only [ClientHdr.refusal, Option.some.injEq, Prod.mk.injEq] at hk
    obtain ⟨rfl, rfl⟩ := hk
    have : ¬ buf.length < 18 := by omega
    simp only [respLk, respLi] at ho
    simp [Client.decode, hc, hd, hne', this, ho, hm]
  | badHdr h lb ho hm hh =>
    simp only [ClientHdr.refusal, Option.some.injEq, Prod.mk.injEq] at hk
    obtain ⟨rfl, rfl⟩ := hk
    have : ¬ buf.length < 18 := by omega
    simp only [respLk, respLi] at ho
    simp only [respHk, respHi] at hh
    simp [Client.decode, hc, hd, hne', this, ho, hm, hh]
  | wrongByte h lb ho hm hb hh hw =>
    simp only [ClientHdr.refusal, Option.some.injEq, Prod.mk.injEq] at hk
    obtain ⟨rfl, rfl⟩ := hk
    have : ¬ buf.length < 18 := by omega
    simp only [respLk, respLi] at ho
    simp only [respHk, respHi] at hh
    simp [Client.decode, hc, hd, hne', this, ho, hm, hh, hw]
  | accept h lb ho hm hb hh hw => simp [ClientHdr.refusal] at hk


theorem is_empty_false (b : List UInt8) (h : b ≠ []) : Cursor.is_empty b = false := by cases b <;> simp_all [Cursor.is_empty]

theorem run_call_ret3 {α β γ : Type} (x : PWGen.Res (α × β × γ)) :
    Flow.run (Flow.bind (Flow.call x) fun (a, b, c) => (Flow.ret (a, b, c) : Flow Empty (α × β × γ))) = x := by
  cases x with
  | ok v => obtain ⟨a, b, c⟩ := v; rfl
  | panic => rfl

theorem addOk_2_16 : U64.addOk Mem.size_of_u16 (16 : Usize) = true := by decide

theorem rem_lt18 (b : List UInt8) (hl : b.length < 2 ^ 64) :
    decide (Cursor.remaining b < Mem.size_of_u16 + (16 : Usize)) = decide (b.length < 18) := by
  rw [e18, decide_eq_decide, lt_iff_toNat, remaining_toNat b hl, e18n]

theorem rem_lt18' (b : List UInt8) (hl : b.length < 2 ^ 64) :
    decide (Cursor.remaining b < (18 : Usize)) = decide (b.length < 18) := by
  rw [decide_eq_decide, lt_iff_toNat, remaining_toNat b hl, e18n]

theorem run_call_ret3' {α β γ : Type} (x : PWGen.Res (α × β × γ)) :
    Flow.run (Flow.bind (Flow.call x) fun y => (Flow.ret (y.fst, y.2.fst, y.2.snd) : Flow Empty (α × β × γ))) = x := by
  cases x with
  | ok v => obtain ⟨a, b, c⟩ := v; rfl
  | panic => rfl

/-- first call, fewer than 18 bytes -/
theorem gen_client_short (A : HExtOk X C) (ov : Bool) (g : ClientAEADCodec CM XR) (s : Session) (buf : Bytes)
    (hr : CRel (C := C) g s) (hd : g.body_decoder = none) (hne : buf ≠ []) (hl : buf.length < 2 ^ 64) (h : buf.length < 18) :
    ClientAEADCodec.Decoder_decode X ov g buf = PWGen.Res.ok (g, buf, RResult.ok none) := by
  obtain ⟨g1, hg1, hk1⟩ := A.gcm_new (Vmess.kdf16 C (s.respKey C) [saltRespLenKey]) (kdf16_length _ _ _)
  rw [ClientAEADCodec.Decoder_decode]
  simp only [is_empty_false buf hne, Bool.false_eq_true, if_false, bind_next]
  split
  · rename_i hm1
    simp only [A.kdf16, hr.key, salt_resp_len_key, hg1, question_ok, bind_next, addOk_2_16, arith_true, rem_lt18 buf hl, h,
      decide_true, if_true, bind_ret, run_ret]
  · rename_i d hm1
    rw [hd] at hm1; cases hm1


theorem lb_len (hC : C.Lawful) (k n : Bytes) (buf lb : Bytes) (h : 18 ≤ buf.length)
    (ho : C.openB .aes128gcm k n [] (buf.take 18) = some lb) : lb.length = 2 := by
  have := hC.open_len _ _ _ _ _ _ ho
  simp [List.length_take] at this; omega

theorem hl_toNat (lb : Bytes) (h : lb.length = 2) : (U16.as_usize (UInt16.ofNat (beNat (lb.take 2)))).toNat = rdBE lb := by
  rw [u16_as_usize_toNat, List.take_of_length_le (by omega), from_be_bytes_toNat lb h]

theorem rdBE2_lt (lb : Bytes) (h : lb.length = 2) : rdBE lb < 65536 := Octo.VmessBodyGen.rdBE_two_lt' lb h

/-- the state of the generated code after the length has been opened: common prefix of the remaining cases -/
theorem gen_client_accept (A : HExtOk X C) (hC : C.Lawful) (ov : Bool) (g : ClientAEADCodec CM XR) (s : Session) (buf : Bytes)
    (hr : CRel (C := C) g s) (hd : g.body_decoder = none) (hne : buf ≠ []) (hl : buf.length < 2 ^ 64)
    (h : 18 ≤ buf.length) (lb : Bytes) (ho : C.openB .aes128gcm (respLk C s) (respLi C s) [] (buf.take 18) = some lb)
    (hm : ¬ buf.length - 18 < rdBE lb + 16) (hb : Bytes)
    (hh : C.openB .aes128gcm (respHk C s) (respHi C s) [] ((buf.drop 18).take (rdBE lb + 16)) = some hb)
    (hw : hb.head? = some s.respHeader) :
    ∃ s' r, X.new_decoder g.header (.ClientSession g.session) = (.ClientSession s', r) ∧
      ClientAEADCodec.Decoder_decode X ov g buf =
        match r with
        | RResult.err => PWGen.Res.ok ({ g with session := s' }, buf.drop (18 + rdBE lb + 16), RResult.err)
        | RResult.ok d => ClientAEADCodec.Decoder_decode X ov { g with session := s', body_decoder := some d } (buf.drop (18 + rdBE lb + 16)) := by
  obtain ⟨g1, hg1, hk1⟩ := A.gcm_new (Vmess.kdf16 C (s.respKey C) [saltRespLenKey]) (kdf16_length _ _ _)
  obtain ⟨g2, hg2, hk2⟩ := A.gcm_new (Vmess.kdf16 C (s.respKey C) [saltRespKey]) (kdf16_length _ _ _)
  obtain ⟨s', r, hnd⟩ := A.new_dec_client g.header g.session
  refine ⟨s', r, hnd, ?_⟩
  have h18 : ¬ buf.length < 18 := by omega
  have hlb := lb_len hC _ _ buf lb h ho
  have hlt := rdBE2_lt lb hlb
  have d1 := A.decip_ok g1 (respLi C s) [] (buf.take 18) lb (by rw [hk1]; exact ho)
  have d2 := A.decip_ok g2 (respHi C s) [] ((buf.drop 18).take (rdBE lb + 16)) hb (by rw [hk2]; exact hh)
  simp only [respLi, respHi] at d1 d2
  have hln := hl_toNat lb hlb
  have hadd : (U16.as_usize (UInt16.ofNat (beNat (lb.take 2))) + (16 : Usize)).toNat = rdBE lb + 16 := by
    rw [add_toNat _ _ (by rw [hln, e16n]; omega), hln, e16n]
  have haok : U64.addOk (U16.as_usize (UInt16.ofNat (beNat (lb.take 2)))) (16 : Usize) = true := by
    simp only [U64.addOk, decide_eq_true_eq, hln, e16n]; omega
  have hrem : decide (IoCursor.remaining ⟨buf, 18⟩ < U16.as_usize (UInt16.ofNat (beNat (lb.take 2))) + (16 : Usize)) = false := by
    rw [decide_eq_false_iff_not, lt_iff_toNat, hadd, IoCursor.remaining]
    simp only [e18n]
    rw [UInt64.toNat_ofNat_of_lt' (show _ < 18446744073709551616 by omega)]
    exact hm
  have hadv : (Flow.advance buf (U64.as_usize (IoCursor.position ⟨buf, 18⟩)) : Flow Cursor (ClientAEADCodec CM XR × List UInt8 × RResult (Option (List UInt8)))) = Flow.next (buf.drop 18) := by
    simp [Flow.advance, IoCursor.position, U64.as_usize, e18n, h]
  have hsp : (Flow.split_to (buf.drop 18) (U16.as_usize (UInt16.ofNat (beNat (lb.take 2))) + (16 : Usize)) : Flow _ (ClientAEADCodec CM XR × List UInt8 × RResult (Option (List UInt8)))) =
      Flow.next ((buf.drop 18).drop (rdBE lb + 16), (buf.drop 18).take (rdBE lb + 16)) := by
    rw [split_to_ok _ _ (by have := hadd; simp only [List.length_drop]; omega), hadd]
  have hgu : (Flow.get_u16 lb : Flow _ (ClientAEADCodec CM XR × List UInt8 × RResult (Option (List UInt8)))) = Flow.next (lb.drop 2, UInt16.ofNat (beNat (lb.take 2))) :=
    get_u16_ok lb (by omega)
  have hhead : (hb.head? != some g.session.response_header) = false := by rw [hr.hdr, hw]; simp
  rw [ClientAEADCodec.Decoder_decode]
  simp only [is_empty_false buf hne, Bool.false_eq_true, if_false, bind_next]
  split
  · rename_i hm1
    simp only [A.kdf16, A.kdfn, e12, hr.key, hr.iv, salt_resp_len_key, salt_resp_len_iv, salt_resp_key, salt_resp_iv, hg1, hg2, question_ok,
      bind_next, addOk_2_16, arith_true, rem_lt18 buf hl, rem_lt18' buf hl, h18, decide_false, Bool.false_eq_true, if_false, io_copy18' buf h, d1, d2, hgu,
      haok, hrem, hadv, hsp, hhead, hnd, as_client_ok, List.drop_drop]
    cases r with
    | err => simp only [question_err, bind_ret, run_ret]; congr 3
    | ok d =>
      simp only [question_ok, bind_next]
      rw [run_call_ret3']
      congr 1
  · rename_i d hm1
    rw [hd] at hm1; cases hm1


/-- **code side of the refusing cases**: the generated first call leaves the codec untouched (no body decoder is installed), never
panics, and yields exactly the model's buffer and outcome -/
theorem gen_client_refusal (A : HExtOk X C) (hC : C.Lawful) (ov : Bool) (g : ClientAEADCodec CM XR) (s : Session) (buf : Bytes)
    (hr : CRel (C := C) g s) (hd : g.body_decoder = none) (hne : buf ≠ []) (hl : buf.length < 2 ^ 64)
    (k : ClientHdr C s buf) (rest : Bytes) (r : Octo.Res Unit) (hk : k.refusal = some (rest, r)) :
    ClientAEADCodec.Decoder_decode X ov g buf = PWGen.Res.ok (g, rest, embedU r) := by
  obtain ⟨g1, hg1, hk1⟩ := A.gcm_new (Vmess.kdf16 C (s.respKey C) [saltRespLenKey]) (kdf16_length _ _ _)
  obtain ⟨g2, hg2, hk2⟩ := A.gcm_new (Vmess.kdf16 C (s.respKey C) [saltRespKey]) (kdf16_length _ _ _)
  cases k with
  | short h =>
    simp only [ClientHdr.refusal, Option.some.injEq, Prod.mk.injEq] at hk
    obtain ⟨rfl, rfl⟩ := hk
    exact gen_client_short A ov g s buf hr hd hne hl h
  | accept h lb ho hm hb hh hw => simp [ClientHdr.refusal] at hk
  | badLen h ho =>
    simp only [ClientHdr.refusal, Option.some.injEq, Prod.mk.injEq] at hk
    obtain ⟨rfl, rfl⟩ := hk
    have h18 : ¬ buf.length < 18 := by omega
    have d1 := A.decip_err g1 (respLi C s) [] (buf.take 18) (by rw [hk1]; exact ho)
    simp only [respLi] at d1
    rw [ClientAEADCodec.Decoder_decode]
    simp only [is_empty_false buf hne, Bool.false_eq_true, if_false, bind_next]
    split
    · simp only [A.kdf16, A.kdfn, e12, hr.key, hr.iv, salt_resp_len_key, salt_resp_len_iv, hg1, question_ok,
        bind_next, addOk_2_16, arith_true, rem_lt18 buf hl, h18, decide_false, Bool.false_eq_true, if_false, io_copy18' buf h, d1,
        question_err, bind_ret, run_ret, embedU]
    · rename_i d hm1; rw [hd] at hm1; cases hm1
  | more h lb ho hm =>
    simp only [ClientHdr.refusal, Option.some.injEq, Prod.mk.injEq] at hk
    obtain ⟨rfl, rfl⟩ := hk
    have h18 : ¬ buf.length < 18 := by omega
    have hlb := lb_len hC _ _ buf lb h ho
    have hlt := rdBE2_lt lb hlb
    have d1 := A.decip_ok g1 (respLi C s) [] (buf.take 18) lb (by rw [hk1]; exact ho)
    simp only [respLi] at d1
    have hln := hl_toNat lb hlb
    have hadd : (U16.as_usize (UInt16.ofNat (beNat (lb.take 2))) + (16 : Usize)).toNat = rdBE lb + 16 := by
      rw [add_toNat _ _ (by rw [hln, e16n]; omega), hln, e16n]
    have haok : U64.addOk (U16.as_usize (UInt16.ofNat (beNat (lb.take 2)))) (16 : Usize) = true := by
      simp only [U64.addOk, decide_eq_true_eq, hln, e16n]; omega
    have hrem : decide (IoCursor.remaining ⟨buf, 18⟩ < U16.as_usize (UInt16.ofNat (beNat (lb.take 2))) + (16 : Usize)) = true := by
      rw [decide_eq_true_eq, lt_iff_toNat, hadd, IoCursor.remaining]
      simp only [e18n]
      rw [UInt64.toNat_ofNat_of_lt' (show _ < 18446744073709551616 by omega)]
      exact hm
    have hgu : (Flow.get_u16 lb : Flow _ (ClientAEADCodec CM XR × List UInt8 × RResult (Option (List UInt8)))) = Flow.next (lb.drop 2, UInt16.ofNat (beNat (lb.take 2))) :=
      get_u16_ok lb (by omega)
    rw [ClientAEADCodec.Decoder_decode]
    simp only [is_empty_false buf hne, Bool.false_eq_true, if_false, bind_next]
    split
    · simp only [A.kdf16, A.kdfn, e12, hr.key, hr.iv, salt_resp_len_key, salt_resp_len_iv, hg1, question_ok,
        bind_next, addOk_2_16, arith_true, rem_lt18 buf hl, h18, decide_false, Bool.false_eq_true, if_false, io_copy18' buf h, d1, hgu,
        haok, hrem, if_true, ite_next_next, bind_ret, run_ret, embedU]
    · rename_i d hm1; rw [hd] at hm1; cases hm1
  | badHdr h lb ho hm hh =>
    simp only [ClientHdr.refusal, Option.some.injEq, Prod.mk.injEq] at hk
    obtain ⟨rfl, rfl⟩ := hk
    have h18 : ¬ buf.length < 18 := by omega
    have hlb := lb_len hC _ _ buf lb h ho
    have hlt := rdBE2_lt lb hlb
    have d1 := A.decip_ok g1 (respLi C s) [] (buf.take 18) lb (by rw [hk1]; exact ho)
    have d2 := A.decip_err g2 (respHi C s) [] ((buf.drop 18).take (rdBE lb + 16)) (by rw [hk2]; exact hh)
    simp only [respLi, respHi] at d1 d2
    have hln := hl_toNat lb hlb
    have hadd : (U16.as_usize (UInt16.ofNat (beNat (lb.take 2))) + (16 : Usize)).toNat = rdBE lb + 16 := by
      rw [add_toNat _ _ (by rw [hln, e16n]; omega), hln, e16n]
    have haok : U64.addOk (U16.as_usize (UInt16.ofNat (beNat (lb.take 2)))) (16 : Usize) = true := by
      simp only [U64.addOk, decide_eq_true_eq, hln, e16n]; omega
    have hrem : decide (IoCursor.remaining ⟨buf, 18⟩ < U16.as_usize (UInt16.ofNat (beNat (lb.take 2))) + (16 : Usize)) = false := by
      rw [decide_eq_false_iff_not, lt_iff_toNat, hadd, IoCursor.remaining]
      simp only [e18n]
      rw [UInt64.toNat_ofNat_of_lt' (show _ < 18446744073709551616 by omega)]
      exact hm
    have hadv : (Flow.advance buf (U64.as_usize (IoCursor.position ⟨buf, 18⟩)) : Flow Cursor (ClientAEADCodec CM XR × List UInt8 × RResult (Option (List UInt8)))) = Flow.next (buf.drop 18) := by
      simp [Flow.advance, IoCursor.position, U64.as_usize, e18n, h]
    have hsp : (Flow.split_to (buf.drop 18) (U16.as_usize (UInt16.ofNat (beNat (lb.take 2))) + (16 : Usize)) : Flow _ (ClientAEADCodec CM XR × List UInt8 × RResult (Option (List UInt8)))) =
        Flow.next ((buf.drop 18).drop (rdBE lb + 16), (buf.drop 18).take (rdBE lb + 16)) := by
      rw [split_to_ok _ _ (by have := hadd; simp only [List.length_drop]; omega), hadd]
    have hgu : (Flow.get_u16 lb : Flow _ (ClientAEADCodec CM XR × List UInt8 × RResult (Option (List UInt8)))) = Flow.next (lb.drop 2, UInt16.ofNat (beNat (lb.take 2))) :=
      get_u16_ok lb (by omega)
    rw [ClientAEADCodec.Decoder_decode]
    simp only [is_empty_false buf hne, Bool.false_eq_true, if_false, bind_next]
    split
    · simp only [A.kdf16, A.kdfn, e12, hr.key, hr.iv, salt_resp_len_key, salt_resp_len_iv, salt_resp_key, salt_resp_iv, hg1, hg2, question_ok,
        bind_next, addOk_2_16, arith_true, rem_lt18 buf hl, h18, decide_false, Bool.false_eq_true, if_false, io_copy18' buf h, d1, d2, hgu,
        haok, hrem, hadv, hsp, question_err, bind_ret, run_ret, embedU, List.drop_drop]
      congr 3
    · rename_i d hm1; rw [hd] at hm1; cases hm1
  | wrongByte h lb ho hm hb hh hw =>
    simp only [ClientHdr.refusal, Option.some.injEq, Prod.mk.injEq] at hk
    obtain ⟨rfl, rfl⟩ := hk
    have h18 : ¬ buf.length < 18 := by omega
    have hlb := lb_len hC _ _ buf lb h ho
    have hlt := rdBE2_lt lb hlb
    have d1 := A.decip_ok g1 (respLi C s) [] (buf.take 18) lb (by rw [hk1]; exact ho)
    have d2 := A.decip_ok g2 (respHi C s) [] ((buf.drop 18).take (rdBE lb + 16)) hb (by rw [hk2]; exact hh)
    simp only [respLi, respHi] at d1 d2
    have hln := hl_toNat lb hlb
    have hadd : (U16.as_usize (UInt16.ofNat (beNat (lb.take 2))) + (16 : Usize)).toNat = rdBE lb + 16 := by
      rw [add_toNat _ _ (by rw [hln, e16n]; omega), hln, e16n]
    have haok : U64.addOk (U16.as_usize (UInt16.ofNat (beNat (lb.take 2)))) (16 : Usize) = true := by
      simp only [U64.addOk, decide_eq_true_eq, hln, e16n]; omega
    have hrem : decide (IoCursor.remaining ⟨buf, 18⟩ < U16.as_usize (UInt16.ofNat (beNat (lb.take 2))) + (16 : Usize)) = false := by
      rw [decide_eq_false_iff_not, lt_iff_toNat, hadd, IoCursor.remaining]
      simp only [e18n]
      rw [UInt64.toNat_ofNat_of_lt' (show _ < 18446744073709551616 by omega)]
      exact hm
    have hadv : (Flow.advance buf (U64.as_usize (IoCursor.position ⟨buf, 18⟩)) : Flow Cursor (ClientAEADCodec CM XR × List UInt8 × RResult (Option (List UInt8)))) = Flow.next (buf.drop 18) := by
      simp [Flow.advance, IoCursor.position, U64.as_usize, e18n, h]
    have hsp : (Flow.split_to (buf.drop 18) (U16.as_usize (UInt16.ofNat (beNat (lb.take 2))) + (16 : Usize)) : Flow _ (ClientAEADCodec CM XR × List UInt8 × RResult (Option (List UInt8)))) =
        Flow.next ((buf.drop 18).drop (rdBE lb + 16), (buf.drop 18).take (rdBE lb + 16)) := by
      rw [split_to_ok _ _ (by have := hadd; simp only [List.length_drop]; omega), hadd]
    have hgu : (Flow.get_u16 lb : Flow _ (ClientAEADCodec CM XR × List UInt8 × RResult (Option (List UInt8)))) = Flow.next (lb.drop 2, UInt16.ofNat (beNat (lb.take 2))) :=
      get_u16_ok lb (by omega)
    have hhead : (hb.head? != some g.session.response_header) = true := by rw [hr.hdr]; simpa using hw
    rw [ClientAEADCodec.Decoder_decode]
    simp only [is_empty_false buf hne, Bool.false_eq_true, if_false, bind_next]
    split
    · simp only [A.kdf16, A.kdfn, e12, hr.key, hr.iv, salt_resp_len_key, salt_resp_len_iv, salt_resp_key, salt_resp_iv, hg1, hg2, question_ok,
        bind_next, addOk_2_16, arith_true, rem_lt18 buf hl, h18, decide_false, Bool.false_eq_true, if_false, io_copy18' buf h, d1, d2, hgu,
        haok, hrem, hadv, hsp, hhead, if_true, bind_ret, run_ret, embedU, List.drop_drop]
      congr 3
    · rename_i d hm1; rw [hd] at hm1; cases hm1

/-- later calls (the body decoder exists): one call of the body codec's generated `decode_payload` / `decode_packet` on the
client's session; its panic is the only panic -/
theorem gen_client_some (ov : Bool) (g : ClientAEADCodec CM XR) (d : AEADBodyCodec CM XR) (buf : Bytes)
    (hd : g.body_decoder = some d) (hne : buf ≠ []) (hcmd : g.header.command = .TCP) :
    ClientAEADCodec.Decoder_decode X ov g buf =
      match Octo.VmessBodyGen.AEADBodyCodec.decode_payload X.body ov d buf (.ClientSession g.session) with
      | .panic => .panic
      | .ok (d', src', .ClientSession s', r) => .ok ({ g with body_decoder := some d', session := s' }, src', r)
      | .ok (_, _, .ServerSession _, _) => .panic := by
  rw [ClientAEADCodec.Decoder_decode]
  simp only [is_empty_false buf hne, Bool.false_eq_true, if_false, bind_next]
  split
  · rename_i hm1; rw [hd] at hm1; cases hm1
  · rename_i d0 hm1
    rw [hd] at hm1; cases hm1
    split
    · cases hx : Octo.VmessBodyGen.AEADBodyCodec.decode_payload X.body ov d buf (.ClientSession g.session) with
      | panic => simp only [call_panic, bind_panic, run_panic']
      | ok v =>
        obtain ⟨d', src', ss, r⟩ := v
        cases ss with
        | ClientSession s' => simp only [call_ok, bind_next, as_client_ok, run_ret]
        | ServerSession s' => simp only [call_ok, bind_next, Flow.as_client, bind_panic, run_panic']
    · rename_i hm2; rw [hcmd] at hm2; cases hm2

end client

/-! ## Part 3 — the server's first step: the credential gate -/
section server
variable {CM XR W GCM : Type} {X : Ext CM XR W GCM}

theorem len_lt16 (b : List UInt8) (hl : b.length < 2 ^ 64) : decide (Cursor.len b < (16 : Usize)) = decide (b.length < 16) := by
  rw [decide_eq_decide, lt_iff_toNat, len_toNat b hl, e16n]

/-- fewer than 16 bytes in state `Init`: `Ok(None)`, nothing consumed, the clock is not read, no panic -/
theorem gen_server_short (ov : Bool) (g : ServerAeadCodec CM XR) (w : W) (buf : Bytes) (hs : g.decode_state = .Init)
    (hl : buf.length < 2 ^ 64) (h : buf.length < 16) :
    ServerAeadCodec.Decoder_decode X ov g w buf = PWGen.Res.ok (g, w, buf, RResult.ok none) := by
  rw [ServerAeadCodec.Decoder_decode]
  simp only [hs, len_lt16 buf hl, h, decide_true, if_true, bind_ret, run_ret]

theorem slice16 {ρ : Type} (b : List UInt8) (h : 16 ≤ b.length) :
    (Flow.slice_range b (0 : Usize) (16 : Usize) : Flow _ ρ) = Flow.next (b.take 16) := by
  have e0 : (0 : Usize).toNat = 0 := rfl
  simp [Flow.slice_range, e0, e16n, h]

/-- **the credential gate of the generated server** (C06 at the level of the code): in state `Init` with at least 16 bytes, whatever
`auth_id::matching` answers for the first 16 bytes against the configured key table decides: no key → `Err`, nothing consumed,
state still `Init`, nothing relayed; `Err` (clock) → `Err`; a panic of `matching` is the only panic up to here -/
theorem gen_server_gate (ov : Bool) (g : ServerAeadCodec CM XR) (w : W) (buf : Bytes) (hs : g.decode_state = .Init)
    (hl : buf.length < 2 ^ 64) (h : 16 ≤ buf.length) (w' : W)
    (hmatch : AuthId.matching X ov w (buf.take 16) g.keys = PWGen.Res.ok (w', RResult.ok none)) :
    ServerAeadCodec.Decoder_decode X ov g w buf = PWGen.Res.ok (g, w', buf, RResult.err) := by
  have h16 : ¬ buf.length < 16 := by omega
  rw [ServerAeadCodec.Decoder_decode]
  simp only [hs, len_lt16 buf hl, h16, decide_false, Bool.false_eq_true, if_false, bind_next, slice16 buf h, hmatch, call_ok,
    question_ok, bind_ret, run_ret]

/-- an empty key table matches nothing (and does not read the clock) -/
theorem matching_nil (ov : Bool) (w : W) (a : Bytes) : AuthId.matching X ov w a [] = PWGen.Res.ok (w, RResult.ok none) := by
  simp only [AuthId.matching, Flow.forIn, bind_next, run_ret]

end server

/-! ## the i64 edge of the time window (difference between the code and the model's `authIdMatch`) -/

/-- the window test of the generated `matching` on the timestamp `t` and the clock value `now` (both as i64 bits), release profile -/
def windowRelease (t now : I64) : Bool := I64.le (I64.abs (I64.sub t now)) (I64.ofNat 120)

/-- **difference**: a timestamp exactly 2^63 seconds before the clock value passes the code's window test when overflow checks are
off (`i64::MIN.abs()` wraps to `i64::MIN`, which is `<= 120`), while the model's `(t - now).natAbs ≤ 120` refuses it; with overflow
checks on, the same input is a panic (`I64.absOk` fails).  Instance: clock value 5. -/
theorem window_wrap_difference :
    windowRelease ⟨0x8000000000000005⟩ (I64.ofNat 5) = true ∧
    I64.absOk (I64.sub ⟨0x8000000000000005⟩ (I64.ofNat 5)) = false ∧
    I64.subOk ⟨0x8000000000000005⟩ (I64.ofNat 5) = true ∧
    ¬ (((⟨0x8000000000000005⟩ : I64).toInt - (I64.ofNat 5).toInt).natAbs ≤ Consts.vmessAuthWindow) := by
  refine ⟨by decide, by decide, by decide, by decide⟩

/-- inside the guard `-2^63 < t - now < 2^63` neither the subtraction nor `abs` overflows and the code's test is the model's -/
theorem window_guarded (t now : I64) (h1 : -(2 ^ 63 : Int) < t.toInt - now.toInt) (h2 : t.toInt - now.toInt < 2 ^ 63) :
    I64.subOk t now = true := by
  simp only [I64.subOk, decide_eq_true_eq]; omega

/-! ## witnesses: the assumptions are satisfiable for every `Crypto` -/

/-- externals built from the model's `Crypto` (clock stopped at 0, `new_decoder` refusing: the two are not constrained by `HExtOk`
beyond what is shown) -/
def hextOf (C : Crypto) : Ext (Alg × Bytes) (Bytes × Nat) Unit Bytes where
  body := Octo.VmessBodyGen.extOf C
  utf8_ok := fun _ => true
  kdf16 := fun k p => Vmess.kdf16 C k p
  kdfn := fun n k p => Vmess.kdfn C n.toNat k p
  gcm_new := fun k => if k.length = 16 then RResult.ok k else RResult.err
  gcm_decrypt := fun g n m ad => match C.openB .aes128gcm g n ad m with
    | some p => RResult.ok p
    | none => RResult.err
  gcm_decrypt_in_place := fun g n ad b => match C.openB .aes128gcm g n ad b with
    | some p => (p, RResult.ok ())
    | none => (b, RResult.err)
  ecb_decrypt := fun k b => PWGen.Res.ok (C.aesDec k b)
  crc32 := fun b => UInt32.ofNat (C.crc32 b % 2 ^ 32)
  fnv1a32 := fun b => UInt32.ofNat (C.fnv1a32 b % 2 ^ 32)
  now := fun w => (w, RResult.ok (I64.ofNat 0))
  server_session_new := fun iv key rh => ⟨iv, key, (C.sha256 iv).take 16, (C.sha256 key).take 16, rh⟩
  new_decoder := fun _ s => (s, RResult.err)
  log_enabled := true

/-- `HExtOk` holds for them whenever the model's checksums are 32-bit values -/
def hextOf_ok (C : Crypto) (hcrc : ∀ b, C.crc32 b < 2 ^ 32) (hfnv : ∀ b, C.fnv1a32 b < 2 ^ 32) : HExtOk (hextOf C) C where
  gcmKey := id
  nowOf := fun _ => 0
  kdf16 := fun _ _ => rfl
  kdfn := fun _ _ _ => rfl
  gcm_new := by intro k hk; exact ⟨k, by simp [hextOf, hk], rfl⟩
  dec_ok := by intro g n ad b p h; simp only [hextOf, id] at h ⊢; rw [h]
  dec_err := by intro g n ad b h; simp only [hextOf, id] at h ⊢; rw [h]
  decip_ok := by intro g n ad b p h; simp only [hextOf, id] at h ⊢; rw [h]
  decip_err := by intro g n ad b h; simp only [hextOf, id] at h ⊢; rw [h]
  ecb := fun _ _ _ _ => rfl
  crc := by
    intro b; simp only [hextOf]
    rw [Nat.mod_eq_of_lt (hcrc b), UInt32.toNat_ofNat_of_lt' (by have := hcrc b; simp only [UInt32.size]; omega)]
  fnv := by
    intro b; simp only [hextOf]
    rw [Nat.mod_eq_of_lt (hfnv b), UInt32.toNat_ofNat_of_lt' (by have := hfnv b; simp only [UInt32.size]; omega)]
  now := fun w => ⟨w, rfl, rfl⟩
  now_lt := fun _ => by decide
  new_dec_client := fun _ s => ⟨s, RResult.err, rfl⟩
  new_dec_server := fun _ s => ⟨s, RResult.err, rfl⟩

/-- a generated client value for a model session -/
def clientOf (C : Crypto) (s : Session) (hdr : RequestHeader) : ClientAEADCodec (Alg × Bytes) (Bytes × Nat) :=
  { header := hdr, session := ⟨s.reqIv, s.reqKey, s.respIv C, s.respKey C, s.respHeader⟩, body_encoder := none, body_decoder := none }

theorem crel_clientOf (C : Crypto) (s : Session) (hdr : RequestHeader) : CRel (C := C) (clientOf C s hdr) s := ⟨rfl, rfl, rfl⟩

end Octo.VmessHdrGen
