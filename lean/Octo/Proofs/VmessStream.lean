import Octo.Proofs.VmessBody
import Octo.Proofs.TrojanStream
import Octo.Proofs.SsCall
import Octo.Props.C14
/-!
# VMess AEAD: the request / response *header* layer around the body codec

`Client.encodeFirst` / `Client.encodeNext` → `Server.decode`, and `Server.encode` → `Client.decode`,
at the level of the `Decoder::decode` calls under `FramedRead` (`frLoop` / `frFeed`).
The body codec itself is in `Octo/Proofs/VmessBody.lean`.
-/
namespace Octo.Vmess
open Octo.Fr
open Octo.Trojan (evItems evData evClean feedAll feedAll_nil feedAll_cons feedAll_append evItems_append evData_append
  evData_item evItems_item evItems_nil evData_nil evClean_nil evClean_append evClean_cons_item frLoop_more frLoop_ok
  frLoop_err prefix_eq_take append_split)

/-! ## 1. the sealed request header: `open_header ∘ seal_header` -/

theorem sealHeader_length (C : Crypto) (hC : C.Lawful) (key header authId connNonce : Bytes) :
    (sealHeader C key header authId connNonce).length = authId.length + 18 + connNonce.length + (header.length + 16) := by
  simp only [sealHeader, List.length_append, hC.seal_len, be16_length]

/-- the four slices `open_header` takes of `authId ‖ len ‖ nonce ‖ rest` -/
theorem slices (a l n rest : Bytes) (ha : a.length = 16) (hl : l.length = 18) (hn : n.length = 8) :
    (a ++ l ++ n ++ rest).take 16 = a ∧ ((a ++ l ++ n ++ rest).drop 16).take 18 = l ∧
      ((a ++ l ++ n ++ rest).drop 34).take 8 = n ∧ (a ++ l ++ n ++ rest).drop 42 = rest := by
  have h34 : (a ++ l).length = 34 := by simp only [List.length_append, ha, hl]
  have h42 : (a ++ l ++ n).length = 42 := by simp only [List.length_append, ha, hl, hn]
  refine ⟨?_, ?_, ?_, ?_⟩
  · rw [List.append_assoc, List.append_assoc]; exact List.take_left' ha
  · rw [List.append_assoc, List.append_assoc, List.drop_left' ha]; exact List.take_left' hl
  · rw [List.append_assoc (a ++ l), List.drop_left' h34]; exact List.take_left' hn
  · exact List.drop_left' h42

/-- **header round trip**: what the client sealed (under `key`, with a 16-byte auth id and an 8-byte
connection nonce), followed by anything, opens under the same key to exactly the header, and exactly
the sealed header is consumed.  `header.length < 65536` is the exact bound: the length travels as
`be16`. -/
theorem openHeader_sealHeader (C : Crypto) (hC : C.Lawful) (key header authId connNonce tail : Bytes)
    (ha : authId.length = 16) (hn : connNonce.length = 8) (hl : header.length < 65536) :
    openHeader C key (sealHeader C key header authId connNonce ++ tail) =
      .ok (header, (sealHeader C key header authId connNonce).length) := by
  have hlen := sealHeader_length C hC key header authId connNonce
  rw [ha, hn] at hlen
  rw [hlen]
  unfold sealHeader at *
  simp only []
  generalize hL : C.sealB .aes128gcm (kdf16 C key [saltLengthKey, authId, connNonce])
    (kdfn C 12 key [saltLengthIv, authId, connNonce]) authId (be16 header.length) = L
  generalize hP : C.sealB .aes128gcm (kdf16 C key [saltPayloadKey, authId, connNonce])
    (kdfn C 12 key [saltPayloadIv, authId, connNonce]) authId header = P
  have hLl : L.length = 18 := by rw [← hL, hC.seal_len]; rfl
  have hPl : P.length = header.length + 16 := by rw [← hP, hC.seal_len]
  rw [List.append_assoc (authId ++ L ++ connNonce) P tail]
  obtain ⟨s1, s2, s3, s4⟩ := slices authId L connNonce (P ++ tail) ha hLl hn
  unfold openHeader
  rw [if_neg (by simp only [List.length_append, ha, hLl, hn, hPl]; omega)]
  simp only [s1, s2, s3, s4]
  have oL := hC.open_seal .aes128gcm (kdf16 C key [saltLengthKey, authId, connNonce])
    (kdfn C 12 key [saltLengthIv, authId, connNonce]) authId (be16 header.length)
  have oP := hC.open_seal .aes128gcm (kdf16 C key [saltPayloadKey, authId, connNonce])
    (kdfn C 12 key [saltPayloadIv, authId, connNonce]) authId header
  rw [hL] at oL
  rw [hP] at oP
  rw [oL]
  simp only [rdBE_be16 _ hl]
  rw [if_neg (by simp only [List.length_append, ha, hLl, hn, hPl]; omega)]
  rw [List.take_left' hPl, oP]
  simp only [Res.ok.injEq, Prod.mk.injEq, true_and]
  omega

/-- **stability**: on every proper prefix of the sealed header `open_header` (same key) answers
`Ok(None)`: nothing is decided before the header is complete -/
theorem openHeader_prefix (C : Crypto) (hC : C.Lawful) (key header authId connNonce : Bytes)
    (ha : authId.length = 16) (hn : connNonce.length = 8) (hl : header.length < 65536)
    (n : Nat) (hlt : n < (sealHeader C key header authId connNonce).length) :
    openHeader C key ((sealHeader C key header authId connNonce).take n) = .more := by
  have hlen := sealHeader_length C hC key header authId connNonce
  rw [ha, hn] at hlen
  rw [hlen] at hlt
  have htl : ((sealHeader C key header authId connNonce).take n).length = n := by
    rw [List.length_take, hlen]; omega
  unfold sealHeader at *
  simp only [] at *
  generalize hL : C.sealB .aes128gcm (kdf16 C key [saltLengthKey, authId, connNonce])
    (kdfn C 12 key [saltLengthIv, authId, connNonce]) authId (be16 header.length) = L at *
  generalize hP : C.sealB .aes128gcm (kdf16 C key [saltPayloadKey, authId, connNonce])
    (kdfn C 12 key [saltPayloadIv, authId, connNonce]) authId header = P at *
  have hLl : L.length = 18 := by rw [← hL, hC.seal_len]; rfl
  obtain ⟨s1, s2, s3, _⟩ := slices authId L connNonce P ha hLl hn
  unfold openHeader
  rw [htl]
  by_cases h58 : n < 16 + 18 + 8 + 16
  · rw [if_pos h58]
  · rw [if_neg h58]
    simp only [List.take_take, List.drop_take]
    rw [Nat.min_eq_left (by omega), Nat.min_eq_left (by omega), Nat.min_eq_left (by omega)]
    simp only [s1, s2, s3]
    have oL := hC.open_seal .aes128gcm (kdf16 C key [saltLengthKey, authId, connNonce])
      (kdfn C 12 key [saltLengthIv, authId, connNonce]) authId (be16 header.length)
    rw [hL] at oL
    rw [oL]
    simp only [rdBE_be16 _ hl]
    rw [if_pos (by omega)]

/-! ## 2. the auth id -/

/-- the test `auth_id::matching` applies to one registered key -/
def authIdAccepts (C : Crypto) (authId : Bytes) (now : Nat) (key : Bytes) : Bool :=
  let cur := C.aesDec (kdf16 C key [saltAuthId]) authId
  let t := i64 (cur.take 8)
  decide (rdBE (cur.drop 12) = C.crc32 (cur.take 12)) && decide ((t - (now : Int)).natAbs ≤ Consts.vmessAuthWindow)

theorem authIdMatch_eq (C : Crypto) (authId : Bytes) (keys : List Bytes) (now : Nat) :
    authIdMatch C authId keys now = keys.find? (authIdAccepts C authId now) := rfl

theorem authIdCreate_length (C : Crypto) (hC : C.Lawful) (key : Bytes) (t : Nat) (rand : Bytes) :
    (authIdCreate C key t rand).length = 16 := by
  simp only [authIdCreate, hC.aes_enc_len]

/-- the key that made the auth id accepts it within the window -/
theorem authIdAccepts_create (C : Crypto) (hC : C.Lawful) (key : Bytes) (t now : Nat) (rand : Bytes)
    (hr : 4 ≤ rand.length) (ht : t < 2 ^ 63) (hw1 : t ≤ now + Consts.vmessAuthWindow) (hw2 : now ≤ t + Consts.vmessAuthWindow)
    (hcrc : C.crc32 (be64 t ++ rand.take 4) < 4294967296) :
    authIdAccepts C (authIdCreate C key t rand) now key = true := by
  have hbuf : (be64 t ++ rand.take 4).length = 12 := by
    simp only [List.length_append, be64_length, List.length_take]; omega
  have h16 : (be64 t ++ rand.take 4 ++ be32 (C.crc32 (be64 t ++ rand.take 4))).length = 16 := by
    simp only [List.length_append, be32_length, hbuf]
  unfold authIdAccepts authIdCreate
  simp only []
  rw [hC.aes_dec_enc _ _ h16]
  have h8 : (be64 t ++ rand.take 4 ++ be32 (C.crc32 (be64 t ++ rand.take 4))).take 8 = be64 t := by
    rw [List.append_assoc]; exact List.take_left' (be64_length t)
  have h12 : (be64 t ++ rand.take 4 ++ be32 (C.crc32 (be64 t ++ rand.take 4))).take 12 = be64 t ++ rand.take 4 :=
    List.take_left' hbuf
  have hd12 : (be64 t ++ rand.take 4 ++ be32 (C.crc32 (be64 t ++ rand.take 4))).drop 12 =
      be32 (C.crc32 (be64 t ++ rand.take 4)) := List.drop_left' hbuf
  rw [h8, h12, hd12, rdBE_be32 _ hcrc]
  have hi : i64 (be64 t) = (t : Int) := by
    unfold i64
    simp only [rdBE_be64 t (by omega)]
    rw [if_pos ht]
  rw [hi]
  simp only [decide_true, Bool.true_and, decide_eq_true_eq]
  omega

/-- **auth id**: the server finds the client's key, provided no *earlier* registered key also accepts
the token (a collision of AES-under-another-key with a valid CRC-32 and an in-window timestamp; for
a single registered user `pre = []` and the condition is vacuous) -/
theorem authIdMatch_create (C : Crypto) (hC : C.Lawful) (key : Bytes) (t now : Nat) (rand : Bytes) (pre post : List Bytes)
    (hr : 4 ≤ rand.length) (ht : t < 2 ^ 63) (hw1 : t ≤ now + Consts.vmessAuthWindow) (hw2 : now ≤ t + Consts.vmessAuthWindow)
    (hcrc : C.crc32 (be64 t ++ rand.take 4) < 4294967296)
    (hpre : ∀ k' ∈ pre, authIdAccepts C (authIdCreate C key t rand) now k' = false) :
    authIdMatch C (authIdCreate C key t rand) (pre ++ key :: post) now = some key := by
  rw [authIdMatch_eq, List.find?_append]
  have h1 : pre.find? (authIdAccepts C (authIdCreate C key t rand) now) = none := by
    rw [List.find?_eq_none]
    intro k' hk'
    rw [hpre k' hk']; simp
  rw [h1, List.find?_cons, authIdAccepts_create C hC key t now rand hr ht hw1 hw2 hcrc]
  rfl

/-! ## 3a. the request instruction: `parseRequest ∘ requestHeader` -/

/-- the instruction without its FNV-1a trailer -/
def reqBody (s : Session) (mask : Nat) (sec : Security) (cmd : Cmd) (addrBytes padding : Bytes) : Bytes :=
  [(1 : UInt8)] ++ s.reqIv ++ s.reqKey ++ [s.respHeader] ++ [u8 mask] ++ [u8 (padding.length * 16 + sec.toByte)] ++
    [(0 : UInt8)] ++ [u8 cmd.toByte] ++ addrBytes ++ padding

theorem requestHeader_eq (C : Crypto) (s : Session) (mask : Nat) (sec : Security) (cmd : Cmd) (ab padding : Bytes) :
    requestHeader C s mask sec cmd ab padding =
      reqBody s mask sec cmd ab padding ++ be32 (C.fnv1a32 (reqBody s mask sec cmd ab padding)) := rfl

theorem reqBody_shape (s : Session) (mask : Nat) (sec : Security) (cmd : Cmd) (ab padding x : Bytes) :
    reqBody s mask sec cmd ab padding ++ x =
      ([(1 : UInt8)] ++ s.reqIv ++ s.reqKey) ++
        (s.respHeader :: u8 mask :: u8 (padding.length * 16 + sec.toByte) :: (0 : UInt8) :: u8 cmd.toByte ::
          (ab ++ (padding ++ x))) := by
  simp only [reqBody, List.append_assoc, List.cons_append, List.nil_append]

theorem getD_append_right' (a b : Bytes) (i k : Nat) (h : a.length = k) : (a ++ b).getD (k + i) 0 = b.getD i 0 := by
  rw [List.getD_eq_getElem?_getD, List.getD_eq_getElem?_getD, List.getElem?_append_right (by omega)]
  congr 2; omega

theorem vmessAddr_write_length (ad : Addr) (ha : ad.Accepted) (ab : Bytes) (h : VmessAddr.write ad = .ok ab) :
    3 ≤ ab.length ∧ ab.length ≤ 259 := by
  cases ad with
  | domain host p =>
    obtain ⟨h1, h2, _⟩ := ha
    simp only [VmessAddr.write, Nat.ne_of_gt h1, if_false, Res.ok.injEq] at h
    subst h; simp; omega
  | v4 ip p =>
    simp only [VmessAddr.write, Res.ok.injEq] at h
    subst h; simp [ha.1]
  | v6 ip p =>
    simp only [VmessAddr.write, Res.ok.injEq] at h
    subst h; simp [ha.1]

theorem requestHeader_length (C : Crypto) (s : Session) (mask : Nat) (sec : Security) (cmd : Cmd) (ab padding : Bytes)
    (hiv : s.reqIv.length = 16) (hkey : s.reqKey.length = 16) :
    (requestHeader C s mask sec cmd ab padding).length = 38 + ab.length + padding.length + 4 := by
  simp only [requestHeader_eq, reqBody, List.length_append, List.length_cons, List.length_nil, hiv, hkey, be32_length]

/-- **the instruction parses back** to exactly the session, the option byte, the cipher, the command
and the target (every accepted address whose name, if any, is valid UTF-8; up to 15 bytes of random
padding), provided the FNV-1a value fits the 4 bytes it is written in -/
theorem parseRequest_requestHeader (C : Crypto) (utf8Ok : Bytes → Bool) (s : Session) (mask : Nat) (sec : Security)
    (cmd : Cmd) (ad : Addr) (ab padding : Bytes)
    (hiv : s.reqIv.length = 16) (hkey : s.reqKey.length = 16) (hpad : padding.length ≤ 15)
    (ha : ad.Accepted) (hu : ∀ host p, ad = .domain host p → utf8Ok host = true)
    (hab : VmessAddr.write ad = .ok ab)
    (hfnv : C.fnv1a32 (reqBody s mask sec cmd ab padding) < 4294967296) :
    parseRequest C utf8Ok (requestHeader C s mask sec cmd ab padding) = .ok (s, mask % 256, sec, cmd, ad) := by
  have hlen := requestHeader_length C s mask sec cmd ab padding hiv hkey
  obtain ⟨hab3, hab259⟩ := vmessAddr_write_length ad ha ab hab
  obtain ⟨w, hw1, hw2⟩ := c14_vmess_roundtrip utf8Ok ad (padding ++ be32 (C.fnv1a32 (reqBody s mask sec cmd ab padding))) ha hu
  rw [hab] at hw1
  cases hw1
  have hP : ([(1 : UInt8)] ++ s.reqIv ++ s.reqKey).length = 33 := by
    simp only [List.length_append, List.length_cons, List.length_nil, hiv, hkey]
  generalize hsum : be32 (C.fnv1a32 (reqBody s mask sec cmd ab padding)) = sum at *
  have hsuml : sum.length = 4 := by rw [← hsum]; rfl
  have hsumv : rdBE sum = C.fnv1a32 (reqBody s mask sec cmd ab padding) := by rw [← hsum]; exact rdBE_be32 _ hfnv
  have hshape := reqBody_shape s mask sec cmd ab padding sum
  have hbyte : (u8 (padding.length * 16 + sec.toByte)).toNat = padding.length * 16 + sec.toByte := by
    apply u8_toNat_lt
    cases sec <;> simp only [Security.toByte] <;> omega
  have hsecb : sec.toByte = 3 ∨ sec.toByte = 4 := by cases sec <;> simp [Security.toByte]
  have g : ∀ i, (requestHeader C s mask sec cmd ab padding).getD (33 + i) 0 =
      (s.respHeader :: u8 mask :: u8 (padding.length * 16 + sec.toByte) :: (0 : UInt8) :: u8 cmd.toByte ::
          (ab ++ (padding ++ sum))).getD i 0 := by
    intro i
    rw [requestHeader_eq, hsum, hshape]
    exact getD_append_right' _ _ i 33 hP
  have g33 := g 0
  have g34 := g 1
  have g35 := g 2
  have g37 := g 4
  have g40 := g 7
  have g41 := g 8
  simp only [List.getD_cons_zero, List.getD_cons_succ, Nat.add_zero, Nat.reduceAdd] at g33 g34 g35 g37 g40 g41
  have d1 : ((requestHeader C s mask sec cmd ab padding).drop 1).take 16 = s.reqIv := by
    rw [requestHeader_eq, hsum, hshape]
    simp only [List.append_assoc, List.cons_append, List.nil_append, List.drop_succ_cons, List.drop_zero]
    exact List.take_left' hiv
  have d17 : ((requestHeader C s mask sec cmd ab padding).drop 17).take 16 = s.reqKey := by
    rw [requestHeader_eq, hsum, hshape]
    have h17 : ([(1 : UInt8)] ++ s.reqIv).length = 17 := by simp [hiv]
    rw [List.append_assoc ([1] ++ s.reqIv), List.drop_left' h17]
    exact List.take_left' hkey
  have d38 : (requestHeader C s mask sec cmd ab padding).drop 38 = ab ++ (padding ++ sum) := by
    rw [requestHeader_eq, hsum, hshape]
    rw [show 38 = 33 + 5 from rfl, ← List.drop_drop, List.drop_left' hP]
    rfl
  have dt : (requestHeader C s mask sec cmd ab padding).take ((requestHeader C s mask sec cmd ab padding).length - 4) =
      reqBody s mask sec cmd ab padding := by
    rw [requestHeader_eq, hsum]
    apply List.take_left'
    simp only [List.length_append, hsuml]; omega
  have hmaskb : (u8 mask).toNat = mask % 256 := u8_toNat mask
  rw [hlen] at dt
  generalize requestHeader C s mask sec cmd ab padding = h at *
  unfold parseRequest
  rw [if_neg (by omega)]
  have hdiv : (padding.length * 16 + sec.toByte) / 16 = padding.length := by omega
  have hmod : (padding.length * 16 + sec.toByte) % 16 = sec.toByte := by omega
  have hsec : Security.ofByte sec.toByte = sec := by cases sec <;> rfl
  have hcmd : (u8 cmd.toByte).toNat = cmd.toByte := by cases cmd <;> rfl
  have hcmd2 : (if cmd.toByte = 1 then Cmd.tcp else Cmd.udp) = cmd := by cases cmd <;> rfl
  have hcmd3 : ¬ (cmd.toByte ≠ 1 ∧ cmd.toByte ≠ 2) := by cases cmd <;> simp [Cmd.toByte]
  have hrd : rdBE (List.take 4 (List.drop padding.length (padding ++ sum))) = C.fnv1a32 (reqBody s mask sec cmd ab padding) := by
    rw [List.drop_left, List.take_of_length_le (by omega), hsumv]
  simp only [g33, g34, g35, g37, g40, g41, d1, d17, d38, dt, hlen, hbyte, hmaskb, hdiv, hmod, hsec, hcmd, hcmd2, hcmd3,
    hw2, hrd, if_false, ne_eq, not_true_eq_false]
  have hal : ∃ al, (if (List.getD (ab ++ (padding ++ sum)) 2 0).toNat = 1 then some 4
      else
        if (List.getD (ab ++ (padding ++ sum)) 2 0).toNat = 2 then
          if 38 + List.length ab + List.length padding + 4 > 41 then
            some (1 + (List.getD (ab ++ (padding ++ sum)) 3 0).toNat)
          else none
        else if (List.getD (ab ++ (padding ++ sum)) 2 0).toNat = 3 then some 16 else none) = some al ∧
      ab.length = 3 + al := by
    cases ad with
    | domain host p =>
      obtain ⟨h1, h2, _⟩ := ha
      have hl : (u8 host.length).toNat = host.length := u8_toNat_lt _ (by omega)
      simp only [VmessAddr.write, Nat.ne_of_gt h1, if_false, Res.ok.injEq] at hab
      subst hab
      refine ⟨1 + host.length, ?_, by simp [be16]; omega⟩
      simp [be16, hl]; omega
    | v4 ip p =>
      simp only [VmessAddr.write, Res.ok.injEq] at hab
      subst hab
      exact ⟨4, by simp [be16], by simp [be16, ha.1]⟩
    | v6 ip p =>
      simp only [VmessAddr.write, Res.ok.injEq] at hab
      subst hab
      exact ⟨16, by simp [be16], by simp [be16, ha.1]⟩
  obtain ⟨al, hal1, hal2⟩ := hal
  rw [hal1]
  simp only
  rw [if_neg (by omega)]

/-! ## a decoder with a header phase and a (TCP) body phase under `FramedRead` -/

/-- outcome of a body-phase `decode` call, from the outcome of the unit-level run -/
def bodyRes (R : Out Body UInt8) : Res Item :=
  if R.failed then .err else if R.out.isEmpty then .more else .ok ⟨.data, R.out, none⟩

/-- the events one read produces in the body phase -/
def bodyEvs (R : Out Body UInt8) : List FrEv :=
  if R.failed then [.err, .ended] else if R.out.isEmpty then [] else [.item ⟨.data, R.out, none⟩]

/-- outcome of the call that completes the header: the server always hands out its `ConnectTcp`
(`emit0 = true`), the client only hands out non-empty data -/
def firstRes (emit0 : Bool) (kind0 : ItemKind) (addr0 : Option Addr) (R : Out Body UInt8) : Res Item :=
  if R.failed then .err else if !emit0 && R.out.isEmpty then .more else .ok ⟨kind0, R.out, addr0⟩

def firstEvs (emit0 : Bool) (kind0 : ItemKind) (addr0 : Option Addr) (R : Out Body UInt8) : List FrEv :=
  if R.failed then [.err, .ended] else if !emit0 && R.out.isEmpty then [] else [.item ⟨kind0, R.out, addr0⟩]

/-- what the two VMess stream decoders have in common: nothing happens on a proper prefix of the
header `H`; the call that sees the whole header starts the body decoder `body0` on what follows it;
afterwards every call is one run of the body decoder -/
structure TwoPhase (C : Crypto) {σ : Type} (dec : σ → Bytes → Call σ) (s0 : σ) (mk : Body → σ) (H : Bytes) (body0 : Body)
    (emit0 : Bool) (kind0 : ItemKind) (addr0 : Option Addr) : Prop where
  hdr_more : ∀ n, n < H.length → dec s0 (H.take n) = ⟨s0, H.take n, .more⟩
  hdr_done : ∀ x, dec s0 (H ++ x) =
    ⟨mk (run (Body.unit C) body0 x).st, (run (Body.unit C) body0 x).buf, firstRes emit0 kind0 addr0 (run (Body.unit C) body0 x)⟩
  body : ∀ d b, (b = [] → Body.unit C d [] = .need) → dec (mk d) b =
    ⟨mk (run (Body.unit C) d b).st, (run (Body.unit C) d b).buf, bodyRes (run (Body.unit C) d b)⟩

section twoPhase
variable {C : Crypto} {σ : Type} {dec : σ → Bytes → Call σ} {s0 : σ} {mk : Body → σ} {H : Bytes} {body0 : Body}
  {emit0 : Bool} {kind0 : ItemKind} {addr0 : Option Addr}

/-- a call on a quiescent buffer: `Ok(None)`, nothing changes -/
theorem TwoPhase.idle (P : TwoPhase C dec s0 mk H body0 emit0 kind0 addr0) (d : Body) (b : Bytes)
    (hq : Body.unit C d b = .need) : dec (mk d) b = ⟨mk d, b, .more⟩ := by
  rw [P.body d b (fun h => by subst h; exact hq), run_need _ _ _ hq]
  rfl

theorem TwoPhase.frLoop_body (P : TwoPhase C dec s0 mk H body0 emit0 kind0 addr0) (fuel : Nat) (d : Body) (b : Bytes)
    (hq : b = [] → Body.unit C d [] = .need) :
    frLoop dec (fuel + 2) ⟨mk d, b, false⟩ =
      (⟨mk (run (Body.unit C) d b).st, (run (Body.unit C) d b).buf, (run (Body.unit C) d b).failed⟩,
        bodyEvs (run (Body.unit C) d b)) := by
  have G := body_unit_good C
  rw [frLoop, P.body d b hq]
  simp only [bodyRes, bodyEvs]
  cases hf : (run (Body.unit C) d b).failed with
  | true => simp
  | false =>
    simp only [Bool.false_eq_true, if_false]
    by_cases ho : (run (Body.unit C) d b).out.isEmpty = true
    · simp [ho]
    · simp only [ho]
      have hqq := run_quiescent _ G _ d b (Nat.lt_succ_self _) hf
      rw [frLoop, P.idle _ _ hqq]
      simp

theorem TwoPhase.frFeed_body (P : TwoPhase C dec s0 mk H body0 emit0 kind0 addr0) (d : Body) (b piece : Bytes)
    (hq : Body.unit C d b = .need) :
    frFeed dec ⟨mk d, b, false⟩ piece =
      (⟨mk (run (Body.unit C) d (b ++ piece)).st, (run (Body.unit C) d (b ++ piece)).buf,
          (run (Body.unit C) d (b ++ piece)).failed⟩,
        bodyEvs (run (Body.unit C) d (b ++ piece))) := by
  simp only [frFeed, Bool.false_eq_true, if_false]
  refine P.frLoop_body _ d (b ++ piece) ?_
  intro h
  have hb : b = [] := (List.append_eq_nil_iff.mp h).1
  subst hb; exact hq

theorem bodyEvs_ok (R : Out Body UInt8) (hnf : R.failed = false) :
    evClean (bodyEvs R) ∧ (∀ i ∈ evItems (bodyEvs R), i.kind = .data ∧ i.addr = none) ∧ evData (bodyEvs R) = R.out := by
  unfold bodyEvs
  rw [hnf]
  by_cases ho : R.out.isEmpty = true
  · have : R.out = [] := List.isEmpty_iff.mp ho
    simp [this, evClean_nil]
  · simp only [Bool.false_eq_true, if_false, ho]
    refine ⟨evClean_cons_item _ evClean_nil, ?_, by simp⟩
    intro i hi
    simp only [evItems_item, evItems_nil, List.mem_singleton] at hi
    subst hi; exact ⟨rfl, rfl⟩

/-- body phase, any segmentation, as long as the unit-level run on the bytes does not fail -/
theorem TwoPhase.feedAll_body (P : TwoPhase C dec s0 mk H body0 emit0 kind0 addr0) (pieces : List Bytes) :
    ∀ (d : Body) (b : Bytes), Body.unit C d b = .need →
      (run (Body.unit C) d (b ++ pieces.flatten)).failed = false →
      (feedAll dec ⟨mk d, b, false⟩ pieces).1 =
          ⟨mk (run (Body.unit C) d (b ++ pieces.flatten)).st, (run (Body.unit C) d (b ++ pieces.flatten)).buf, false⟩ ∧
        evClean (feedAll dec ⟨mk d, b, false⟩ pieces).2 ∧
        (∀ i ∈ evItems (feedAll dec ⟨mk d, b, false⟩ pieces).2, i.kind = .data ∧ i.addr = none) ∧
        evData (feedAll dec ⟨mk d, b, false⟩ pieces).2 = (run (Body.unit C) d (b ++ pieces.flatten)).out := by
  have G := body_unit_good C
  induction pieces with
  | nil =>
    intro d b hq _
    simp only [List.flatten_nil, List.append_nil, run_need _ _ _ hq, feedAll_nil]
    exact ⟨trivial, evClean_nil, (by intro i hi; cases hi), rfl⟩
  | cons p ps ih =>
    intro d b hq hnf
    simp only [List.flatten_cons, ← List.append_assoc] at hnf ⊢
    obtain ⟨hf1, hrun⟩ := Ss.run_append_ok _ G d (b ++ p) ps.flatten hnf
    have hq1 := run_quiescent _ G _ d (b ++ p) (Nat.lt_succ_self _) hf1
    rw [hrun] at hnf
    obtain ⟨i1, i2, i3, i4⟩ := ih _ _ hq1 hnf
    obtain ⟨e1, e2, e3⟩ := bodyEvs_ok _ hf1
    rw [feedAll_cons, P.frFeed_body d b p hq, hf1, hrun]
    refine ⟨i1, evClean_append e1 i2, ?_, ?_⟩
    · intro i hi
      rw [evItems_append, List.mem_append] at hi
      rcases hi with hi | hi
      · exact e2 i hi
      · exact i3 i hi
    · rw [evData_append, e3, i4]

/-- header phase, the read does not complete the header: no event, everything is kept -/
theorem TwoPhase.frFeed_hdr_more (P : TwoPhase C dec s0 mk H body0 emit0 kind0 addr0) (b p : Bytes) (n : Nat)
    (hn : n < H.length) (h : b ++ p = H.take n) :
    frFeed dec ⟨s0, b, false⟩ p = (⟨s0, b ++ p, false⟩, []) := by
  have hd := P.hdr_more n hn
  simp only [frFeed, Bool.false_eq_true, if_false]
  show frLoop _ ((b.length + p.length + 1) + 1) _ = _
  rw [frLoop_more _ _ _ (by simp only [h, hd])]
  simp only [h, hd]

/-- header phase, the read completes the header -/
theorem TwoPhase.frFeed_hdr_done (P : TwoPhase C dec s0 mk H body0 emit0 kind0 addr0) (b p x : Bytes)
    (h : b ++ p = H ++ x) (hnf : (run (Body.unit C) body0 x).failed = false) :
    frFeed dec ⟨s0, b, false⟩ p =
      (⟨mk (run (Body.unit C) body0 x).st, (run (Body.unit C) body0 x).buf, false⟩,
        firstEvs emit0 kind0 addr0 (run (Body.unit C) body0 x)) := by
  have G := body_unit_good C
  have hd := P.hdr_done x
  have hqq := run_quiescent _ G _ body0 x (Nat.lt_succ_self _) hnf
  simp only [frFeed, Bool.false_eq_true, if_false, h]
  show frLoop _ ((b.length + p.length) + 1 + 1) _ = _
  rw [frLoop]
  simp only [hd, firstRes, firstEvs, hnf, Bool.false_eq_true, if_false]
  by_cases ho : (!emit0 && (run (Body.unit C) body0 x).out.isEmpty) = true
  · simp [ho]
  · simp only [ho]
    rw [frLoop, P.idle _ _ hqq]
    simp

theorem firstEvs_ok (R : Out Body UInt8) (hnf : R.failed = false) :
    evClean (firstEvs emit0 kind0 addr0 R) ∧
      ((evItems (firstEvs emit0 kind0 addr0 R) = [] ∧ emit0 = false) ∨
        ∃ d0, evItems (firstEvs emit0 kind0 addr0 R) = [⟨kind0, d0, addr0⟩]) ∧
      evData (firstEvs emit0 kind0 addr0 R) = R.out := by
  unfold firstEvs
  rw [hnf]
  by_cases ho : (!emit0 && R.out.isEmpty) = true
  · have h1 : emit0 = false := by cases emit0 <;> simp_all
    have h2 : R.out = [] := by
      rw [h1] at ho; exact List.isEmpty_iff.mp (by simpa using ho)
    simp [h1, h2, evClean_nil]
  · simp only [Bool.false_eq_true, if_false, ho]
    exact ⟨evClean_cons_item _ evClean_nil, Or.inr ⟨_, rfl⟩, by simp⟩

/-- the stream after reading `T`, a prefix of `H ‖ W` (`F` = stream state and events so far):
* while `T` does not cover the header: initial state, every byte kept, **no event at all**;
* afterwards, with `R` the unit-level run of the body decoder over what followed the header: the
  state and buffer are those of `R`, not ended, only item events; the items are the header-completing
  item (always there if `emit0`, otherwise only if it has data) followed by `data` items; the data
  handed out is exactly the output of `R`. -/
def After (C : Crypto) {σ : Type} (s0 : σ) (mk : Body → σ) (H : Bytes) (body0 : Body)
    (emit0 : Bool) (kind0 : ItemKind) (addr0 : Option Addr) (T : Bytes) (F : FrSt σ × List FrEv) : Prop :=
  (T.length < H.length ∧ F = (⟨s0, T, false⟩, [])) ∨
  (∃ x, T = H ++ x ∧ (run (Body.unit C) body0 x).failed = false ∧
    F.1 = ⟨mk (run (Body.unit C) body0 x).st, (run (Body.unit C) body0 x).buf, false⟩ ∧ evClean F.2 ∧
    (∃ hd rest, evItems F.2 = hd ++ rest ∧ (∀ i ∈ rest, i.kind = .data ∧ i.addr = none) ∧
      ((hd = [] ∧ emit0 = false) ∨ ∃ d0, hd = [⟨kind0, d0, addr0⟩])) ∧
    evData F.2 = (run (Body.unit C) body0 x).out)

/-- **any segmentation of any prefix of `H ‖ W`** (`W` a byte string on which the body decoder does
not fail), started anywhere inside the header -/
theorem TwoPhase.feedAll_stream (P : TwoPhase C dec s0 mk H body0 emit0 kind0 addr0) (W t2 : Bytes)
    (hW : (run (Body.unit C) body0 W).failed = false) (pieces : List Bytes) :
    ∀ b : Bytes, b.length < H.length → b ++ pieces.flatten ++ t2 = H ++ W →
      After C s0 mk H body0 emit0 kind0 addr0 (b ++ pieces.flatten) (feedAll dec ⟨s0, b, false⟩ pieces) := by
  have G := body_unit_good C
  induction pieces with
  | nil =>
    intro b hb _
    simp only [List.flatten_nil, List.append_nil, feedAll_nil]
    exact Or.inl ⟨hb, rfl⟩
  | cons p ps ih =>
    intro b hb h
    have h' : (b ++ p) ++ (ps.flatten ++ t2) = H ++ W := by
      rw [← h]; simp only [List.flatten_cons, List.append_assoc]
    have hT : b ++ (p :: ps).flatten = (b ++ p) ++ ps.flatten := by
      simp only [List.flatten_cons, List.append_assoc]
    rw [hT]
    by_cases hlt : (b ++ p).length < H.length
    · have ht := prefix_eq_take h' (by omega)
      rw [feedAll_cons, P.frFeed_hdr_more b p _ hlt ht]
      have := ih (b ++ p) hlt (by rw [← h']; simp only [List.append_assoc])
      simpa using this
    · obtain ⟨x0, h1, h2⟩ := append_split h' (by omega)
      rw [h2, ← List.append_assoc] at hW
      obtain ⟨hx, _⟩ := Ss.run_append_ok _ G body0 (x0 ++ ps.flatten) t2 hW
      obtain ⟨hf0, hrun⟩ := Ss.run_append_ok _ G body0 x0 ps.flatten hx
      have hq0 := run_quiescent _ G _ body0 x0 (Nat.lt_succ_self _) hf0
      rw [hrun] at hx
      obtain ⟨i1, i2, i3, i4⟩ := P.feedAll_body ps _ _ hq0 hx
      obtain ⟨e1, e2, e3⟩ := firstEvs_ok (emit0 := emit0) (kind0 := kind0) (addr0 := addr0) _ hf0
      rw [feedAll_cons, P.frFeed_hdr_done b p x0 h1 hf0]
      refine Or.inr ⟨x0 ++ ps.flatten, by rw [h1, List.append_assoc], ?_, ?_, evClean_append e1 i2, ?_, ?_⟩
      · rw [hrun]; exact hx
      · rw [hrun]; exact i1
      · refine ⟨_, _, evItems_append _ _, i3, ?_⟩
        rcases e2 with ⟨e2, e2'⟩ | ⟨d0, e2⟩
        · exact Or.inl ⟨e2, e2'⟩
        · exact Or.inr ⟨d0, e2⟩
      · rw [hrun, evData_append, e3, i4]

/-- in every state described by `After` the next `decode` returns `Ok(None)` and leaves state and
buffer alone: everything decodable has been handed out -/
theorem TwoPhase.after_idle (P : TwoPhase C dec s0 mk H body0 emit0 kind0 addr0) (T t2 W : Bytes) (hT : T ++ t2 = H ++ W)
    (F : FrSt σ × List FrEv) (h : After C s0 mk H body0 emit0 kind0 addr0 T F) :
    dec F.1.st F.1.buf = ⟨F.1.st, F.1.buf, .more⟩ := by
  have G := body_unit_good C
  rcases h with ⟨hlt, hF⟩ | ⟨x, _, hnf, hF, _⟩
  · rw [hF]
    have ht := prefix_eq_take hT (by omega)
    simp only
    rw [ht]
    exact P.hdr_more _ hlt
  · rw [hF]
    exact P.idle _ _ (run_quiescent _ G _ body0 x (Nat.lt_succ_self _) hnf)

end twoPhase
/-! ## 3b. the server's decoder on an honest request -/

theorem hasOpt_mod32 (mask bit : Nat) (hb : bit = 16 ∨ bit = 8 ∨ bit = 4) : hasOpt (mask % 32) bit = hasOpt mask bit := by
  unfold hasOpt
  have : (mask % 32 / bit) % 2 = (mask / bit) % 2 := by
    rcases hb with rfl | rfl | rfl <;> omega
  rw [this]

/-- only the five known option bits reach the body codec -/
theorem Body.new_mask_mod32 (C : Crypto) (mask : Nat) (sec : Security) (key iv : Bytes) (s : Session) :
    Body.new C (mask % 32) sec key iv s = Body.new C mask sec key iv s := by
  unfold Body.new
  simp only [hasOpt_mod32 mask optAuthLen (Or.inl rfl), hasOpt_mod32 mask optChunkMasking (Or.inr (Or.inr rfl)),
    hasOpt_mod32 mask optGlobalPadding (Or.inr (Or.inl rfl))]

theorem Body.new_st (C : Crypto) (mask : Nat) (sec : Security) (key iv : Bytes) (s : Session) :
    (Body.new C mask sec key iv s).st = .padding := rfl

/-- `key` is registered and no key registered before it accepts the token (decidable) -/
def FirstMatch (C : Crypto) (authId : Bytes) (now : Nat) (key : Bytes) (keys : List Bytes) : Prop :=
  key ∈ keys ∧ ∀ k' ∈ keys.takeWhile (fun k => k != key), authIdAccepts C authId now k' = false

instance (C : Crypto) (authId : Bytes) (now : Nat) (key : Bytes) (keys : List Bytes) :
    Decidable (FirstMatch C authId now key keys) := by unfold FirstMatch; infer_instance

theorem dropWhile_ne_of_mem (key : Bytes) (keys : List Bytes) (h : key ∈ keys) :
    ∃ post, keys.dropWhile (fun k => k != key) = key :: post := by
  induction keys with
  | nil => cases h
  | cons k ks ih =>
    by_cases hk : k = key
    · subst hk; exact ⟨ks, by simp⟩
    · have : key ∈ ks := by
        rcases List.mem_cons.mp h with h | h
        · exact absurd h.symm hk
        · exact h
      obtain ⟨post, hp⟩ := ih this
      exact ⟨post, by simp [hk, hp]⟩

theorem FirstMatch.split {C : Crypto} {authId : Bytes} {now : Nat} {key : Bytes} {keys : List Bytes}
    (h : FirstMatch C authId now key keys) :
    ∃ pre post, keys = pre ++ key :: post ∧ ∀ k' ∈ pre, authIdAccepts C authId now k' = false := by
  obtain ⟨post, hp⟩ := dropWhile_ne_of_mem key keys h.1
  refine ⟨keys.takeWhile (fun k => k != key), post, ?_, h.2⟩
  rw [← hp, List.takeWhile_append_dropWhile]

theorem firstMatch_single (C : Crypto) (authId : Bytes) (now : Nat) (key : Bytes) : FirstMatch C authId now key [key] := by
  refine ⟨List.mem_singleton.mpr rfl, ?_⟩
  simp

/-- everything the request-direction theorems assume about the client's first write (`c` the client
configuration, `r` its randomness) and the server (`keys` the registered users' command keys, `now`
its clock, `utf8Ok` its UTF-8 validator) -/
structure ReqOk (C : Crypto) (utf8Ok : Bytes → Bool) (now : Nat) (keys : List Bytes) (c : Client) (r : ClientRand) : Prop where
  /-- the target passed the client's local handshake (a name has 1..=255 bytes) -/
  addr_ok : c.addr.Accepted
  /-- VMess reads a name with `String::from_utf8` -/
  utf8 : ∀ host p, c.addr = .domain host p → utf8Ok host = true
  iv_len : r.session.reqIv.length = 16
  key_len : r.session.reqKey.length = 16
  /-- the padding length travels in a nibble -/
  pad_len : r.headerPadding.length ≤ 15
  rand_len : 4 ≤ r.authRand.length
  nonce_len : r.connNonce.length = 8
  /-- the timestamp is read back as an `i64` -/
  time_lt : r.authTime < 2 ^ 63
  win1 : r.authTime ≤ now + Consts.vmessAuthWindow
  win2 : now ≤ r.authTime + Consts.vmessAuthWindow
  /-- the two checksums fit the four bytes they are written in (true of the real CRC-32 / FNV-1a;
  `Crypto` leaves them uninterpreted) -/
  crc_fits : C.crc32 (be64 r.authTime ++ r.authRand.take 4) < 4294967296
  fnv_fits : ∀ ab, VmessAddr.write c.addr = .ok ab →
    C.fnv1a32 (reqBody r.session c.mask c.sec c.cmd ab r.headerPadding) < 4294967296
  /-- the user is registered and no user registered before it accepts the auth id -/
  registered : FirstMatch C (authIdCreate C c.key r.authTime r.authRand) now c.key keys

/-- the bytes of the target address in the instruction -/
def addrBytes (ad : Addr) : Bytes :=
  match VmessAddr.write ad with
  | .ok ab => ab
  | _ => []

theorem write_addrBytes (ad : Addr) (ha : ad.Accepted) : VmessAddr.write ad = .ok (addrBytes ad) := by
  obtain ⟨w, hw, _⟩ := c14_vmess_roundtrip (fun _ => true) ad [] ha (fun _ _ _ => rfl)
  simp only [addrBytes, hw]

/-- the sealed request header of the first write -/
def reqSealed (C : Crypto) (c : Client) (r : ClientRand) : Bytes :=
  sealHeader C c.key (requestHeader C r.session c.mask c.sec c.cmd (addrBytes c.addr) r.headerPadding)
    (authIdCreate C c.key r.authTime r.authRand) r.connNonce

/-- the server state once the request header has been decoded -/
def srvReady (keys : List Bytes) (cmd : Cmd) (mask : Nat) (sec : Security) (ad : Addr) (s : Session) (d : Body) : Server :=
  ⟨keys, some ⟨cmd, mask, sec, ad, s, d, none⟩⟩

section request
variable {C : Crypto} {utf8Ok : Bytes → Bool} {now : Nat} {keys : List Bytes} {c : Client} {r : ClientRand}

theorem reqHeader_lt (ok : ReqOk C utf8Ok now keys c r) : (requestHeader C r.session c.mask c.sec c.cmd (addrBytes c.addr) r.headerPadding).length < 65536 := by
  have := vmessAddr_write_length c.addr ok.addr_ok _ (write_addrBytes c.addr ok.addr_ok)
  have := ok.pad_len
  rw [requestHeader_length C _ _ _ _ _ _ ok.iv_len ok.key_len]; omega

theorem reqSealed_length (hC : C.Lawful) (ok : ReqOk C utf8Ok now keys c r) :
    (reqSealed C c r).length = 58 + (requestHeader C r.session c.mask c.sec c.cmd (addrBytes c.addr) r.headerPadding).length := by
  rw [reqSealed, sealHeader_length C hC, authIdCreate_length C hC, ok.nonce_len]; omega

theorem reqSealed_take16 (hC : C.Lawful) (c : Client) (r : ClientRand) (x : Bytes) : (reqSealed C c r ++ x).take 16 = authIdCreate C c.key r.authTime r.authRand := by
  unfold reqSealed sealHeader
  simp only [List.append_assoc]
  exact List.take_left' (authIdCreate_length C hC _ _ _)

theorem srv_authIdMatch (hC : C.Lawful) (ok : ReqOk C utf8Ok now keys c r) : authIdMatch C (authIdCreate C c.key r.authTime r.authRand) keys now = some c.key := by
  obtain ⟨pre, post, hk, hpre⟩ := ok.registered.split
  rw [hk]
  exact authIdMatch_create C hC c.key r.authTime now r.authRand pre post ok.rand_len ok.time_lt ok.win1 ok.win2
    ok.crc_fits hpre

/-- nothing happens before the sealed header is complete -/
theorem srv_hdr_more (hC : C.Lawful) (ok : ReqOk C utf8Ok now keys c r) (n : Nat) (hn : n < (reqSealed C c r).length) :
    Server.decode C utf8Ok now ⟨keys, none⟩ ((reqSealed C c r).take n) = ⟨⟨keys, none⟩, (reqSealed C c r).take n, .more⟩ := by
  have hlen : ((reqSealed C c r).take n).length = n := by rw [List.length_take]; omega
  unfold Server.decode
  simp only [hlen]
  by_cases h16 : n < 16
  · rw [if_pos h16]
  · rw [if_neg h16]
    have ht : ((reqSealed C c r).take n).take 16 = authIdCreate C c.key r.authTime r.authRand := by
      rw [List.take_take, Nat.min_eq_left (by omega)]
      have := reqSealed_take16 hC c r []
      rwa [List.append_nil] at this
    rw [ht, srv_authIdMatch hC ok]
    simp only
    rw [reqSealed, openHeader_prefix C hC _ _ _ _ (authIdCreate_length C hC _ _ _) ok.nonce_len
      (reqHeader_lt ok) n hn]

theorem knownMask_u8 (mask : Nat) : knownMask (mask % 256) = mask % 32 := by
  unfold knownMask; omega

/-- the call that sees the whole sealed header: the request is accepted, the body decoder is created
with the client's parameters and run on whatever followed the header -/
theorem srv_hdr_open (hC : C.Lawful) (ok : ReqOk C utf8Ok now keys c r) (x : Bytes) :
    authIdMatch C ((reqSealed C c r ++ x).take 16) keys now = some c.key ∧
      openHeader C c.key (reqSealed C c r ++ x) =
        .ok (requestHeader C r.session c.mask c.sec c.cmd (addrBytes c.addr) r.headerPadding, (reqSealed C c r).length) ∧
      parseRequest C utf8Ok (requestHeader C r.session c.mask c.sec c.cmd (addrBytes c.addr) r.headerPadding) =
        .ok (r.session, c.mask % 256, c.sec, c.cmd, c.addr) := by
  refine ⟨?_, ?_, ?_⟩
  · rw [reqSealed_take16 hC c r x, srv_authIdMatch hC ok]
  · exact openHeader_sealHeader C hC _ _ _ _ x (authIdCreate_length C hC _ _ _) ok.nonce_len (reqHeader_lt ok)
  · exact parseRequest_requestHeader C utf8Ok _ _ _ _ _ _ _ ok.iv_len ok.key_len ok.pad_len ok.addr_ok ok.utf8
      (write_addrBytes _ ok.addr_ok) (ok.fnv_fits _ (write_addrBytes _ ok.addr_ok))

theorem srv_hdr_done_tcp (hC : C.Lawful) (ok : ReqOk C utf8Ok now keys c r) (hcmd : c.cmd = .tcp) (x : Bytes) :
    Server.decode C utf8Ok now ⟨keys, none⟩ (reqSealed C c r ++ x) =
      ⟨srvReady keys .tcp (c.mask % 32) c.sec c.addr r.session
          (run (Body.unit C) (Body.new C c.mask c.sec r.session.reqKey r.session.reqIv r.session) x).st,
        (run (Body.unit C) (Body.new C c.mask c.sec r.session.reqKey r.session.reqIv r.session) x).buf,
        firstRes true .connect (some c.addr)
          (run (Body.unit C) (Body.new C c.mask c.sec r.session.reqKey r.session.reqIv r.session) x)⟩ := by
  obtain ⟨h1, h2, h3⟩ := srv_hdr_open hC ok x
  have hlen := reqSealed_length hC ok
  unfold Server.decode
  simp only
  rw [if_neg (by simp only [List.length_append]; omega), h1]
  simp only [h2, h3, List.drop_left]
  rw [hcmd]
  simp only [knownMask_u8, Body.new_mask_mod32, firstRes, srvReady]
  split <;> simp

theorem bodyDecode_tcp (C : Crypto) (d : Body) (b : Bytes) :
    bodyDecode C .tcp d b = ((run (Body.unit C) d b).st, (run (Body.unit C) d b).buf,
      if (run (Body.unit C) d b).failed then .err else if (run (Body.unit C) d b).out.isEmpty then .more
        else .ok (run (Body.unit C) d b).out) := by
  simp only [bodyDecode]
  split
  · rfl
  · split <;> rfl

/-- body phase of the server (TCP): one `decode` call is one run of the body decoder -/
theorem srv_body_tcp (C : Crypto) (utf8Ok : Bytes → Bool) (now : Nat) (keys : List Bytes) (mask : Nat) (sec : Security)
    (ad : Addr) (s : Session) (d : Body) (b : Bytes) (hq : b = [] → Body.unit C d [] = .need) :
    Server.decode C utf8Ok now (srvReady keys .tcp mask sec ad s d) b =
      ⟨srvReady keys .tcp mask sec ad s (run (Body.unit C) d b).st, (run (Body.unit C) d b).buf,
        bodyRes (run (Body.unit C) d b)⟩ := by
  by_cases hb : b = []
  · subst hb
    rw [run_need _ _ _ (hq rfl)]
    simp [Server.decode, srvReady, bodyRes]
  · have he : b.isEmpty = false := by cases b <;> simp_all
    simp only [Server.decode, srvReady, he, bodyDecode_tcp, bodyRes, Bool.false_eq_true, if_false]
    cases hf : (run (Body.unit C) d b).failed with
    | true => simp
    | false =>
      by_cases ho : (run (Body.unit C) d b).out.isEmpty = true
      · simp [ho]
      · simp [ho]

theorem srv_twoPhase (hC : C.Lawful) (ok : ReqOk C utf8Ok now keys c r) (hcmd : c.cmd = .tcp) :
    TwoPhase C (Server.decode C utf8Ok now) ⟨keys, none⟩ (srvReady keys .tcp (c.mask % 32) c.sec c.addr r.session)
      (reqSealed C c r) (Body.new C c.mask c.sec r.session.reqKey r.session.reqIv r.session)
      true .connect (some c.addr) where
  hdr_more := srv_hdr_more hC ok
  hdr_done := srv_hdr_done_tcp hC ok hcmd
  body := srv_body_tcp C utf8Ok now keys _ _ _ _

end request
/-! ## 3c. the honest sender: several items through `encodePayloadP` -/

/-- the items (each with its per-chunk padding lists) encoded one after the other with the evolving
encoder state, fuel as in the driver -/
def Body.encodeAllP (C : Crypto) : Body → List (Bytes × List Bytes) → Bytes × Body
  | b, [] => ([], b)
  | b, (src, pads) :: ws =>
    let (w, b) := Body.encodePayloadP C (src.length + 1) b src pads
    let (r, b) := Body.encodeAllP C b ws
    (w ++ r, b)

/-- `PadsOk` for every item, each from the encoder state the previous items left -/
def Body.PadsOkAll (C : Crypto) : Body → List (Bytes × List Bytes) → Prop
  | _, [] => True
  | b, (src, pads) :: ws =>
    Body.PadsOk C (src.length + 1) b src pads ∧
      Body.PadsOkAll C (Body.encodePayloadP C (src.length + 1) b src pads).2 ws

instance Body.decPadsOk (C : Crypto) : ∀ (fuel : Nat) (b : Body) (src : Bytes) (pads : List Bytes),
    Decidable (Body.PadsOk C fuel b src pads)
  | 0, _, _, _ => isTrue trivial
  | fuel+1, b, src, pads =>
    have := Body.decPadsOk C fuel (b.encodeChunk C src (pads.headD [])).2.2 (b.encodeChunk C src (pads.headD [])).2.1 pads.tail
    inferInstanceAs (Decidable (src = [] ∨ ((b.nextPadding C).1 ≤ (pads.headD []).length ∧
      Body.PadsOk C fuel (b.encodeChunk C src (pads.headD [])).2.2 (b.encodeChunk C src (pads.headD [])).2.1 pads.tail)))

instance Body.decPadsOkAll (C : Crypto) : ∀ (b : Body) (ws : List (Bytes × List Bytes)), Decidable (Body.PadsOkAll C b ws)
  | _, [] => isTrue trivial
  | b, (src, pads) :: ws =>
    have := Body.decPadsOkAll C (Body.encodePayloadP C (src.length + 1) b src pads).2 ws
    inferInstanceAs (Decidable (Body.PadsOk C (src.length + 1) b src pads ∧
      Body.PadsOkAll C (Body.encodePayloadP C (src.length + 1) b src pads).2 ws))

theorem Body.encodePayloadP_globalPadding (C : Crypto) : ∀ (fuel : Nat) (e : Body) (src : Bytes) (pads : List Bytes),
    (Body.encodePayloadP C fuel e src pads).2.globalPadding = e.globalPadding := by
  intro fuel
  induction fuel with
  | zero => intro e src pads; rfl
  | succ fuel ih =>
    intro e src pads
    cases src with
    | nil => rfl
    | cons x xs =>
      simp only [Body.encodePayloadP, List.isEmpty_cons, Bool.false_eq_true, if_false]
      rw [ih, Body.encodeChunk_globalPadding]

/-- without global padding (option bit 8 clear) nothing is required of the padding lists -/
theorem Body.padsOkAll_of_noPadding (C : Crypto) (ws : List (Bytes × List Bytes)) : ∀ (e : Body),
    e.globalPadding = false → Body.PadsOkAll C e ws := by
  induction ws with
  | nil => intro e _; trivial
  | cons w ws ih =>
    intro e hg
    obtain ⟨src, pads⟩ := w
    exact ⟨Body.padsOk_of_noPadding C _ e src pads hg, ih _ (by rw [Body.encodePayloadP_globalPadding, hg])⟩

/-- **several writes at once**: the decoder yields the concatenation of the items, consumes the whole
wire, does not fail, and ends synchronised with the encoder -/
theorem body_allP_roundtrip (C : Crypto) (hC : C.Lawful) (ws : List (Bytes × List Bytes)) : ∀ (e d : Body),
    Body.Sync e d → Body.PadsOkAll C e ws →
    ∃ d', Body.Sync (Body.encodeAllP C e ws).2 d' ∧
      run (Body.unit C) d (Body.encodeAllP C e ws).1 = ⟨d', [], (ws.map Prod.fst).flatten, false⟩ := by
  have G := body_unit_good C
  induction ws with
  | nil =>
    intro e d hs _
    have hst : d.st = .padding := ((Body.sync_iff e d).mp hs).2.2.2.2.2.2.2.2.2.2.2
    exact ⟨d, hs, run_need _ _ _ (Body.unit_nil C d hst)⟩
  | cons w ws ih =>
    intro e d hs hp
    obtain ⟨src, pads⟩ := w
    obtain ⟨d1, hs1, hrun1⟩ := body_payloadP_roundtrip_fuel C hC (src.length + 1) e d src pads hs
      (Nat.lt_succ_self _) hp.1
    obtain ⟨d', hs', hrun'⟩ := ih (Body.encodePayloadP C (src.length + 1) e src pads).2 d1 hs1 hp.2
    refine ⟨d', hs', ?_⟩
    simp only [Body.encodeAllP]
    rw [Ss.run_concat _ G _ _ _ _ _ hrun1, hrun']
    simp

/-! ### the client's writes -/

/-- later items of a connection through `ClientAEADCodec::encode` -/
def Client.encodeRest (C : Crypto) : Client → List (Bytes × List Bytes) → Res (Bytes × Client)
  | c, [] => .ok ([], c)
  | c, (item, pads) :: ws =>
    match c.encodeNext C item pads with
    | .ok (w, c') =>
      match Client.encodeRest C c' ws with
      | .ok (r, c'') => .ok (w ++ r, c'')
      | .more => .more
      | .err => .err
      | .panic => .panic
    | .more => .more
    | .err => .err
    | .panic => .panic

/-- everything a client writes on one connection: the first item (with the sealed request header in
front), then the others -/
def Client.encodeAll (C : Crypto) (c : Client) (r : ClientRand) (w : Bytes × List Bytes) (ws : List (Bytes × List Bytes)) :
    Res (Bytes × Client) :=
  match c.encodeFirst C w.1 r w.2 with
  | .ok (b, c') =>
    match Client.encodeRest C c' ws with
    | .ok (bs, c'') => .ok (b ++ bs, c'')
    | .more => .more
    | .err => .err
    | .panic => .panic
  | .more => .more
  | .err => .err
  | .panic => .panic

theorem Client.encodeRest_tcp (C : Crypto) (ws : List (Bytes × List Bytes)) : ∀ (c : Client) (e : Body),
    c.cmd = .tcp → c.enc = some e →
    Client.encodeRest C c ws = .ok ((Body.encodeAllP C e ws).1, { c with enc := some (Body.encodeAllP C e ws).2 }) := by
  induction ws with
  | nil =>
    intro c e _ he
    simp only [Client.encodeRest, Body.encodeAllP]
    rw [← he]
  | cons w ws ih =>
    intro c e hc he
    obtain ⟨item, pads⟩ := w
    simp only [Client.encodeRest, Client.encodeNext, he, hc, Body.encodeAllP]
    rw [ih _ _ rfl rfl]

theorem Client.encodeAll_tcp (C : Crypto) (c : Client) (r : ClientRand) (w : Bytes × List Bytes)
    (ws : List (Bytes × List Bytes)) (ha : c.addr.Accepted) (hc : c.cmd = .tcp) :
    Client.encodeAll C c r w ws =
      .ok (reqSealed C c r ++
          (Body.encodeAllP C (Body.new C c.mask c.sec r.session.reqKey r.session.reqIv r.session) (w :: ws)).1,
        { c with session := some r.session,
                 enc := some (Body.encodeAllP C (Body.new C c.mask c.sec r.session.reqKey r.session.reqIv r.session) (w :: ws)).2 }) := by
  obtain ⟨item, pads⟩ := w
  simp only [Client.encodeAll, Client.encodeFirst, write_addrBytes c.addr ha, hc]
  rw [Client.encodeRest_tcp C ws _ _ rfl rfl]
  simp only [Body.encodeAllP, reqSealed, hc, List.append_assoc]

/-! ## 3d. request direction: any segmentation of any prefix of the client's writes -/

theorem srv_request_stream {C : Crypto} {utf8Ok : Bytes → Bool} {now : Nat} {keys : List Bytes} {c : Client} {r : ClientRand}
    (hC : C.Lawful) (ok : ReqOk C utf8Ok now keys c r) (hcmd : c.cmd = .tcp)
    (ws : List (Bytes × List Bytes))
    (hp : Body.PadsOkAll C (Body.new C c.mask c.sec r.session.reqKey r.session.reqIv r.session) ws)
    (pre post : List Bytes)
    (hcut : (pre ++ post).flatten = reqSealed C c r ++
      (Body.encodeAllP C (Body.new C c.mask c.sec r.session.reqKey r.session.reqIv r.session) ws).1) :
    After C (⟨keys, none⟩ : Server) (srvReady keys .tcp (c.mask % 32) c.sec c.addr r.session) (reqSealed C c r)
      (Body.new C c.mask c.sec r.session.reqKey r.session.reqIv r.session) true .connect (some c.addr)
      pre.flatten (feedAll (Server.decode C utf8Ok now) ⟨⟨keys, none⟩, [], false⟩ pre) := by
  obtain ⟨d', _, hrun⟩ := body_allP_roundtrip C hC ws _ _ (Body.new_sync C c.mask c.sec _ _ r.session) hp
  have hlen := reqSealed_length hC ok
  have := (srv_twoPhase hC ok hcmd).feedAll_stream _ post.flatten (by rw [hrun]) pre []
    (by simp only [List.length_nil]; omega) (by rw [← hcut]; simp)
  simpa using this

/-- the whole of the client's writes, any segmentation -/
theorem srv_request_complete {C : Crypto} {utf8Ok : Bytes → Bool} {now : Nat} {keys : List Bytes} {c : Client} {r : ClientRand}
    (hC : C.Lawful) (ok : ReqOk C utf8Ok now keys c r) (hcmd : c.cmd = .tcp)
    (ws : List (Bytes × List Bytes))
    (hp : Body.PadsOkAll C (Body.new C c.mask c.sec r.session.reqKey r.session.reqIv r.session) ws)
    (pieces : List Bytes)
    (hcut : pieces.flatten = reqSealed C c r ++
      (Body.encodeAllP C (Body.new C c.mask c.sec r.session.reqKey r.session.reqIv r.session) ws).1) :
    ∃ d', Body.Sync (Body.encodeAllP C (Body.new C c.mask c.sec r.session.reqKey r.session.reqIv r.session) ws).2 d' ∧
      (feedAll (Server.decode C utf8Ok now) ⟨⟨keys, none⟩, [], false⟩ pieces).1 =
        ⟨srvReady keys .tcp (c.mask % 32) c.sec c.addr r.session d', [], false⟩ ∧
      evClean (feedAll (Server.decode C utf8Ok now) ⟨⟨keys, none⟩, [], false⟩ pieces).2 ∧
      (∃ d0 rest, evItems (feedAll (Server.decode C utf8Ok now) ⟨⟨keys, none⟩, [], false⟩ pieces).2 =
          ⟨.connect, d0, some c.addr⟩ :: rest ∧ ∀ i ∈ rest, i.kind = .data ∧ i.addr = none) ∧
      evData (feedAll (Server.decode C utf8Ok now) ⟨⟨keys, none⟩, [], false⟩ pieces).2 = (ws.map Prod.fst).flatten := by
  obtain ⟨d', hs', hrun⟩ := body_allP_roundtrip C hC ws _ _ (Body.new_sync C c.mask c.sec _ _ r.session) hp
  have h := srv_request_stream hC ok hcmd ws hp pieces [] (by simpa using hcut)
  rw [hcut] at h
  rcases h with ⟨hlt, _⟩ | ⟨x, hx, _, hF, hcl, ⟨hd, rest, hi, hrest, hhd⟩, hdat⟩
  · simp only [List.length_append] at hlt; omega
  · have hx' := List.append_cancel_left hx
    subst hx'
    rw [hrun] at hF hdat
    refine ⟨d', hs', hF, hcl, ?_, hdat⟩
    rcases hhd with ⟨_, h0⟩ | ⟨d0, h0⟩
    · cases h0
    · exact ⟨d0, rest, by rw [hi, h0]; rfl, hrest⟩

/-! ## 4. the response direction -/

/-- the two sealed blocks the server writes in front of its first response chunk -/
def respLenBlock (C : Crypto) (s : Session) : Bytes :=
  C.sealB .aes128gcm (kdf16 C (s.respKey C) [saltRespLenKey]) (kdfn C 12 (s.respIv C) [saltRespLenIv]) [] (be16 4)

def respHdrBlock (C : Crypto) (s : Session) (mask : Nat) : Bytes :=
  C.sealB .aes128gcm (kdf16 C (s.respKey C) [saltRespKey]) (kdfn C 12 (s.respIv C) [saltRespIv]) []
    [s.respHeader, u8 mask, 0, 0]

def respHeader (C : Crypto) (s : Session) (mask : Nat) : Bytes := respLenBlock C s ++ respHdrBlock C s mask

theorem respLenBlock_length (C : Crypto) (hC : C.Lawful) (s : Session) : (respLenBlock C s).length = 18 := by
  rw [respLenBlock, hC.seal_len]; rfl

theorem respHdrBlock_length (C : Crypto) (hC : C.Lawful) (s : Session) (mask : Nat) : (respHdrBlock C s mask).length = 20 := by
  rw [respHdrBlock, hC.seal_len]; rfl

theorem respHeader_length (C : Crypto) (hC : C.Lawful) (s : Session) (mask : Nat) : (respHeader C s mask).length = 38 := by
  rw [respHeader, List.length_append, respLenBlock_length C hC, respHdrBlock_length C hC]

/-- the client once its body decoder exists -/
def cliReady (c : Client) (d : Body) : Client := { c with dec := some d }

/-- `Client.finish` (TCP) is one run of the body decoder -/
theorem cli_finish_tcp (C : Crypto) (c : Client) (hc : c.cmd = .tcp) (d : Body) (b : Bytes)
    (hq : b = [] → Body.unit C d [] = .need) :
    Client.finish C (cliReady c d) d b =
      ⟨cliReady c (run (Body.unit C) d b).st, (run (Body.unit C) d b).buf, bodyRes (run (Body.unit C) d b)⟩ := by
  by_cases hb : b = []
  · subst hb
    rw [run_need _ _ _ (hq rfl)]
    simp [Client.finish, bodyRes]
  · have he : b.isEmpty = false := by cases b <;> simp_all
    simp only [Client.finish, cliReady, he, hc, bodyDecode_tcp, bodyRes, Bool.false_eq_true, if_false, if_true]
    cases hf : (run (Body.unit C) d b).failed with
    | true => simp
    | false =>
      by_cases ho : (run (Body.unit C) d b).out.isEmpty = true
      · simp [ho]
      · simp [ho]

theorem cli_body_tcp (C : Crypto) (c : Client) (hc : c.cmd = .tcp) (d : Body) (b : Bytes)
    (hq : b = [] → Body.unit C d [] = .need) :
    Client.decode C (cliReady c d) b =
      ⟨cliReady c (run (Body.unit C) d b).st, (run (Body.unit C) d b).buf, bodyRes (run (Body.unit C) d b)⟩ := by
  by_cases hb : b = []
  · subst hb
    rw [run_need _ _ _ (hq rfl)]
    simp [Client.decode, bodyRes]
  · have he : b.isEmpty = false := by cases b <;> simp_all
    have := cli_finish_tcp C c hc d b hq
    simp only [Client.decode, he, Bool.false_eq_true, if_false]
    simpa [cliReady] using this

/-- nothing happens before the response header is complete (whatever option byte the server echoes) -/
theorem cli_hdr_more (C : Crypto) (hC : C.Lawful) (c : Client) (s : Session) (hs : c.session = some s) (hd : c.dec = none)
    (mask : Nat) (n : Nat) (hn : n < (respHeader C s mask).length) :
    Client.decode C c ((respHeader C s mask).take n) = ⟨c, (respHeader C s mask).take n, .more⟩ := by
  have hL := respLenBlock_length C hC s
  have hH := respHeader_length C hC s mask
  have hlen : ((respHeader C s mask).take n).length = n := by rw [List.length_take]; omega
  unfold Client.decode
  split
  · rfl
  · simp only [hd, hs, hlen]
    by_cases h18 : n < 18
    · rw [if_pos h18]
    · rw [if_neg h18]
      have ht : ((respHeader C s mask).take n).take 18 = respLenBlock C s := by
        rw [List.take_take, Nat.min_eq_left (by omega), respHeader]
        exact List.take_left' hL
      have ho := hC.open_seal .aes128gcm (kdf16 C (s.respKey C) [saltRespLenKey]) (kdfn C 12 (s.respIv C) [saltRespLenIv]) [] (be16 4)
      rw [ht, respLenBlock, ho]
      simp only [rdBE_be16 4 (by omega)]
      rw [if_pos (by omega)]

/-- the call that sees the whole response header: its first byte is the session's response
authentication byte, the body decoder is created and handed what follows -/
theorem cli_hdr_open (C : Crypto) (hC : C.Lawful) (c : Client) (s : Session) (hs : c.session = some s)
    (hd : c.dec = none) (mask : Nat) (x : Bytes) :
    Client.decode C c (respHeader C s mask ++ x) =
      Client.finish C (cliReady c (Body.new C c.mask c.sec (s.respKey C) (s.respIv C) s))
        (Body.new C c.mask c.sec (s.respKey C) (s.respIv C) s) x := by
  have hL := respLenBlock_length C hC s
  have hP := respHdrBlock_length C hC s mask
  have hH := respHeader_length C hC s mask
  have hne : (respHeader C s mask ++ x).isEmpty = false := by
    cases h : respHeader C s mask ++ x with
    | nil => have := congrArg List.length h; simp only [List.length_append, List.length_nil] at this; omega
    | cons _ _ => rfl
  have t18 : (respHeader C s mask ++ x).take 18 = respLenBlock C s := by
    rw [respHeader, List.append_assoc]; exact List.take_left' hL
  have t20 : ((respHeader C s mask ++ x).drop 18).take 20 = respHdrBlock C s mask := by
    rw [respHeader, List.append_assoc, List.drop_left' hL]; exact List.take_left' hP
  have d38 : (respHeader C s mask ++ x).drop 38 = x := List.drop_left' hH
  have ho1 := hC.open_seal .aes128gcm (kdf16 C (s.respKey C) [saltRespLenKey]) (kdfn C 12 (s.respIv C) [saltRespLenIv]) [] (be16 4)
  have ho2 := hC.open_seal .aes128gcm (kdf16 C (s.respKey C) [saltRespKey]) (kdfn C 12 (s.respIv C) [saltRespIv]) []
    [s.respHeader, u8 mask, 0, 0]
  unfold Client.decode
  simp only [hne, Bool.false_eq_true, if_false, hd, hs, t18]
  rw [if_neg (by simp only [List.length_append, hH]; omega)]
  rw [respLenBlock, ho1]
  simp only [rdBE_be16 4 (by omega), Nat.reduceAdd, t20, d38]
  rw [if_neg (by simp only [List.length_append, hH]; omega)]
  rw [respHdrBlock, ho2]
  simp only [List.head?_cons, ne_eq, not_true_eq_false, if_false]
  have hrec : ∀ B : Body, (Client.mk c.key c.mask c.sec c.cmd c.addr (some s) c.enc (some B)) = cliReady c B := by
    intro B; rw [← hs]; rfl
  rw [hrec]

theorem cli_hdr_done (C : Crypto) (hC : C.Lawful) (c : Client) (hc : c.cmd = .tcp) (s : Session) (hs : c.session = some s)
    (hd : c.dec = none) (mask : Nat) (x : Bytes) :
    Client.decode C c (respHeader C s mask ++ x) =
      ⟨cliReady c (run (Body.unit C) (Body.new C c.mask c.sec (s.respKey C) (s.respIv C) s) x).st,
        (run (Body.unit C) (Body.new C c.mask c.sec (s.respKey C) (s.respIv C) s) x).buf,
        firstRes false .data none (run (Body.unit C) (Body.new C c.mask c.sec (s.respKey C) (s.respIv C) s) x)⟩ := by
  rw [cli_hdr_open C hC c s hs hd mask x, cli_finish_tcp C c hc _ x
    (fun _ => Body.unit_nil C _ (Body.new_st C _ _ _ _ _))]
  simp [firstRes, bodyRes]

theorem cli_twoPhase (C : Crypto) (hC : C.Lawful) (c : Client) (hc : c.cmd = .tcp) (s : Session) (hs : c.session = some s)
    (hd : c.dec = none) (mask : Nat) :
    TwoPhase C (Client.decode C) c (cliReady c) (respHeader C s mask) (Body.new C c.mask c.sec (s.respKey C) (s.respIv C) s)
      false .data none where
  hdr_more := cli_hdr_more C hC c s hs hd mask
  hdr_done := cli_hdr_done C hC c hc s hs hd mask
  body := cli_body_tcp C c hc

/-! ### the server's writes -/

/-- everything the server writes on one connection, item after item -/
def Server.encodeAll (C : Crypto) : Server → List (Bytes × List Bytes) → Res Bytes × Server
  | sv, [] => (.ok [], sv)
  | sv, (item, pads) :: ws =>
    match Server.encode C sv item pads with
    | (.ok b, sv') =>
      match Server.encodeAll C sv' ws with
      | (.ok bs, sv'') => (.ok (b ++ bs), sv'')
      | (e, sv'') => (e, sv'')
    | (e, sv') => (e, sv')

/-- the server state with the response encoder in place -/
def srvReadyEnc (keys : List Bytes) (cmd : Cmd) (mask : Nat) (sec : Security) (ad : Addr) (s : Session) (d e : Body) : Server :=
  ⟨keys, some ⟨cmd, mask, sec, ad, s, d, some e⟩⟩

theorem Server.encodeAll_tcp_next (C : Crypto) (keys : List Bytes) (mask : Nat) (sec : Security) (ad : Addr) (s : Session)
    (d : Body) (ws : List (Bytes × List Bytes)) : ∀ e : Body,
    Server.encodeAll C (srvReadyEnc keys .tcp mask sec ad s d e) ws =
      (.ok (Body.encodeAllP C e ws).1, srvReadyEnc keys .tcp mask sec ad s d (Body.encodeAllP C e ws).2) := by
  induction ws with
  | nil => intro e; rfl
  | cons w ws ih =>
    intro e
    obtain ⟨item, pads⟩ := w
    simp only [Server.encodeAll, Server.encode, srvReadyEnc, Body.encodeAllP, List.nil_append]
    have := ih (Body.encodePayloadP C (item.length + 1) e item pads).2
    simp only [srvReadyEnc] at this
    rw [this]

/-- the first response item goes out behind the response header; the body encoder is built from
the response key / IV of the session -/
theorem Server.encodeAll_tcp (C : Crypto) (keys : List Bytes) (mask : Nat) (sec : Security) (ad : Addr) (s : Session)
    (d : Body) (w : Bytes × List Bytes) (ws : List (Bytes × List Bytes)) :
    Server.encodeAll C (srvReady keys .tcp mask sec ad s d) (w :: ws) =
      (.ok (respHeader C s mask ++ (Body.encodeAllP C (Body.new C mask sec (s.respKey C) (s.respIv C) s) (w :: ws)).1),
        srvReadyEnc keys .tcp mask sec ad s d (Body.encodeAllP C (Body.new C mask sec (s.respKey C) (s.respIv C) s) (w :: ws)).2) := by
  obtain ⟨item, pads⟩ := w
  simp only [Server.encodeAll, Server.encode, srvReady, Body.encodeAllP]
  have := Server.encodeAll_tcp_next C keys mask sec ad s d ws
    (Body.encodePayloadP C (item.length + 1) (Body.new C mask sec (s.respKey C) (s.respIv C) s) item pads).2
  simp only [srvReadyEnc] at this
  rw [this]
  simp only [respHeader, respLenBlock, respHdrBlock, srvReadyEnc, List.append_assoc]

theorem Body.new_mask_congr (C : Crypto) (m1 m2 : Nat) (h : m1 % 32 = m2 % 32) (sec : Security) (key iv : Bytes) (s : Session) :
    Body.new C m1 sec key iv s = Body.new C m2 sec key iv s := by
  rw [← Body.new_mask_mod32 C m1, ← Body.new_mask_mod32 C m2, h]

/-- response direction: any segmentation of any prefix of the server's writes.  `mask`, `sec` are
the server's view of the options (`mask` agrees with the client's on the five known bits). -/
theorem cli_response_stream (C : Crypto) (hC : C.Lawful) (c : Client) (hc : c.cmd = .tcp) (s : Session)
    (hs : c.session = some s) (hd : c.dec = none) (mask : Nat) (hmask : mask % 32 = c.mask % 32)
    (ws : List (Bytes × List Bytes))
    (hp : Body.PadsOkAll C (Body.new C c.mask c.sec (s.respKey C) (s.respIv C) s) ws)
    (pre post : List Bytes)
    (hcut : (pre ++ post).flatten = respHeader C s mask ++
      (Body.encodeAllP C (Body.new C mask c.sec (s.respKey C) (s.respIv C) s) ws).1) :
    After C c (cliReady c) (respHeader C s mask) (Body.new C c.mask c.sec (s.respKey C) (s.respIv C) s) false .data none
      pre.flatten (feedAll (Client.decode C) ⟨c, [], false⟩ pre) := by
  rw [Body.new_mask_congr C mask c.mask hmask] at hcut
  obtain ⟨d', _, hrun⟩ := body_allP_roundtrip C hC ws _ _ (Body.new_sync C c.mask c.sec _ _ s) hp
  have hlen := respHeader_length C hC s mask
  have := (cli_twoPhase C hC c hc s hs hd mask).feedAll_stream _ post.flatten (by rw [hrun]) pre []
    (by simp only [List.length_nil]; omega) (by rw [← hcut]; simp)
  simpa using this

/-- the whole of the server's writes, any segmentation -/
theorem cli_response_complete (C : Crypto) (hC : C.Lawful) (c : Client) (hc : c.cmd = .tcp) (s : Session)
    (hs : c.session = some s) (hd : c.dec = none) (mask : Nat) (hmask : mask % 32 = c.mask % 32)
    (ws : List (Bytes × List Bytes))
    (hp : Body.PadsOkAll C (Body.new C c.mask c.sec (s.respKey C) (s.respIv C) s) ws)
    (pieces : List Bytes)
    (hcut : pieces.flatten = respHeader C s mask ++
      (Body.encodeAllP C (Body.new C mask c.sec (s.respKey C) (s.respIv C) s) ws).1) :
    ∃ d', Body.Sync (Body.encodeAllP C (Body.new C mask c.sec (s.respKey C) (s.respIv C) s) ws).2 d' ∧
      (feedAll (Client.decode C) ⟨c, [], false⟩ pieces).1 = ⟨cliReady c d', [], false⟩ ∧
      evClean (feedAll (Client.decode C) ⟨c, [], false⟩ pieces).2 ∧
      (∀ i ∈ evItems (feedAll (Client.decode C) ⟨c, [], false⟩ pieces).2, i.kind = .data ∧ i.addr = none) ∧
      evData (feedAll (Client.decode C) ⟨c, [], false⟩ pieces).2 = (ws.map Prod.fst).flatten := by
  have h := cli_response_stream C hC c hc s hs hd mask hmask ws hp pieces [] (by simpa using hcut)
  rw [Body.new_mask_congr C mask c.mask hmask] at hcut ⊢
  obtain ⟨d', hs', hrun⟩ := body_allP_roundtrip C hC ws _ _ (Body.new_sync C c.mask c.sec _ _ s) hp
  have hlen := respHeader_length C hC s mask
  rw [hcut] at h
  rcases h with ⟨hlt, _⟩ | ⟨x, hx, _, hF, hcl, ⟨hd, rest, hi, hrest, hhd⟩, hdat⟩
  · simp only [List.length_append] at hlt; omega
  · have hx' := List.append_cancel_left hx
    subst hx'
    rw [hrun] at hF hdat
    refine ⟨d', hs', hF, hcl, ?_, hdat⟩
    intro i hi'
    rw [hi, List.mem_append] at hi'
    rcases hi' with hi' | hi'
    · rcases hhd with ⟨h0, _⟩ | ⟨d0, h0⟩
      · rw [h0] at hi'; cases hi'
      · rw [h0, List.mem_singleton] at hi'; subst hi'; exact ⟨rfl, rfl⟩
    · exact hrest i hi'

/-! ### a response built for another session -/

theorem feedAll_ended {σ : Type} (dec : σ → Bytes → Call σ) (f : FrSt σ) (h : f.ended = true) (pieces : List Bytes) :
    feedAll dec f pieces = (f, []) := by
  induction pieces with
  | nil => rfl
  | cons p ps ih =>
    have : frFeed dec f p = (f, []) := by simp [frFeed, h]
    rw [feedAll_cons, this, ih]
    rfl

/-- a decoder that waits on every proper prefix of `H` and rejects `H ‖ anything`: whatever the
segmentation, the only events are the one `Err` and the end of the stream — **no item** -/
theorem feedAll_hdr_err {σ : Type} (dec : σ → Bytes → Call σ) (s0 : σ) (H : Bytes)
    (hm : ∀ n, n < H.length → dec s0 (H.take n) = ⟨s0, H.take n, .more⟩)
    (he : ∀ x, (dec s0 (H ++ x)).res = .err) (W : Bytes) (pieces : List Bytes) :
    ∀ b : Bytes, b.length < H.length → b ++ pieces.flatten = H ++ W →
      (feedAll dec ⟨s0, b, false⟩ pieces).2 = [.err, .ended] ∧ (feedAll dec ⟨s0, b, false⟩ pieces).1.ended = true := by
  induction pieces with
  | nil =>
    intro b hb h
    have := congrArg List.length h
    simp only [List.flatten_nil, List.append_nil, List.length_append] at this
    omega
  | cons p ps ih =>
    intro b hb h
    rw [List.flatten_cons, ← List.append_assoc] at h
    by_cases hlt : (b ++ p).length < H.length
    · have ht := prefix_eq_take h (by omega)
      have hf : ∀ n, n < H.length → b ++ p = H.take n → frFeed dec ⟨s0, b, false⟩ p = (⟨s0, b ++ p, false⟩, []) := by
        intro n hn ht
        have hd := hm n hn
        simp only [frFeed, Bool.false_eq_true, if_false]
        show frLoop _ ((b.length + p.length + 1) + 1) _ = _
        rw [frLoop_more _ _ _ (by simp only [ht, hd])]
        simp only [ht, hd]
      rw [feedAll_cons, hf _ hlt ht]
      have := ih (b ++ p) hlt h
      simpa using this
    · obtain ⟨x0, h1, _⟩ := append_split h (by omega)
      have hd := he x0
      have hf : frFeed dec ⟨s0, b, false⟩ p =
          (⟨(dec s0 (H ++ x0)).st, (dec s0 (H ++ x0)).buf, true⟩, [.err, .ended]) := by
        simp only [frFeed, Bool.false_eq_true, if_false]
        show frLoop _ ((b.length + p.length + 1) + 1) _ = _
        rw [frLoop_err _ _ _ (by show (dec s0 (b ++ p)).res = .err; rw [h1]; exact hd)]
        show ((⟨(dec s0 (b ++ p)).st, (dec s0 (b ++ p)).buf, true⟩ : FrSt σ), _) = _
        rw [h1]
      rw [feedAll_cons, hf, feedAll_ended _ _ rfl]
      exact ⟨rfl, rfl⟩

/-- **wrong response authentication byte** (unconditional): a client whose session has the same
request key / IV — so the response header opens — but another `respHeader` byte rejects the header -/
theorem cli_hdr_wrong_byte (C : Crypto) (hC : C.Lawful) (c : Client) (s s' : Session) (hs : c.session = some s')
    (hd : c.dec = none) (hk : s'.reqKey = s.reqKey) (hi : s'.reqIv = s.reqIv) (hb : s'.respHeader ≠ s.respHeader)
    (mask : Nat) (x : Bytes) :
    Client.decode C c (respHeader C s mask ++ x) = ⟨c, x, .err⟩ := by
  have hL := respLenBlock_length C hC s
  have hP := respHdrBlock_length C hC s mask
  have hH := respHeader_length C hC s mask
  have hne : (respHeader C s mask ++ x).isEmpty = false := by
    cases h : respHeader C s mask ++ x with
    | nil => have := congrArg List.length h; simp only [List.length_append, List.length_nil] at this; omega
    | cons _ _ => rfl
  have t18 : (respHeader C s mask ++ x).take 18 = respLenBlock C s := by
    rw [respHeader, List.append_assoc]; exact List.take_left' hL
  have t20 : ((respHeader C s mask ++ x).drop 18).take 20 = respHdrBlock C s mask := by
    rw [respHeader, List.append_assoc, List.drop_left' hL]; exact List.take_left' hP
  have d38 : (respHeader C s mask ++ x).drop 38 = x := List.drop_left' hH
  have hrk : s'.respKey C = s.respKey C := by simp only [Session.respKey, hk]
  have hri : s'.respIv C = s.respIv C := by simp only [Session.respIv, hi]
  have ho1 := hC.open_seal .aes128gcm (kdf16 C (s.respKey C) [saltRespLenKey]) (kdfn C 12 (s.respIv C) [saltRespLenIv]) [] (be16 4)
  have ho2 := hC.open_seal .aes128gcm (kdf16 C (s.respKey C) [saltRespKey]) (kdfn C 12 (s.respIv C) [saltRespIv]) []
    [s.respHeader, u8 mask, 0, 0]
  unfold Client.decode
  simp only [hne, Bool.false_eq_true, if_false, hd, hs, t18, hrk, hri]
  rw [if_neg (by simp only [List.length_append, hH]; omega)]
  rw [respLenBlock, ho1]
  simp only [rdBE_be16 4 (by omega), Nat.reduceAdd, t20, d38]
  rw [if_neg (by simp only [List.length_append, hH]; omega)]
  rw [respHdrBlock, ho2]
  simp only [List.head?_cons, ne_eq, Option.some.injEq]
  rw [if_pos (fun h => hb h.symm)]

/-- the same client still waits on every proper prefix of that header -/
theorem cli_hdr_more' (C : Crypto) (hC : C.Lawful) (c : Client) (s s' : Session) (hs : c.session = some s')
    (hd : c.dec = none) (hk : s'.reqKey = s.reqKey) (hi : s'.reqIv = s.reqIv)
    (mask : Nat) (n : Nat) (hn : n < (respHeader C s mask).length) :
    Client.decode C c ((respHeader C s mask).take n) = ⟨c, (respHeader C s mask).take n, .more⟩ := by
  have hrk : s'.respKey C = s.respKey C := by simp only [Session.respKey, hk]
  have hri : s'.respIv C = s.respIv C := by simp only [Session.respIv, hi]
  have hL := respLenBlock_length C hC s
  have hH := respHeader_length C hC s mask
  have hlen : ((respHeader C s mask).take n).length = n := by rw [List.length_take]; omega
  unfold Client.decode
  split
  · rfl
  · simp only [hd, hs, hlen, hrk, hri]
    by_cases h18 : n < 18
    · rw [if_pos h18]
    · rw [if_neg h18]
      have ht : ((respHeader C s mask).take n).take 18 = respLenBlock C s := by
        rw [List.take_take, Nat.min_eq_left (by omega), respHeader]
        exact List.take_left' hL
      have ho := hC.open_seal .aes128gcm (kdf16 C (s.respKey C) [saltRespLenKey]) (kdfn C 12 (s.respIv C) [saltRespLenIv]) [] (be16 4)
      rw [ht, respLenBlock, ho]
      simp only [rdBE_be16 4 (by omega)]
      rw [if_pos (by omega)]

/-- **other request key / IV**: if the length block the server sealed does not authenticate under
the client's response keys (integrity of the AEAD, as a hypothesis about these two key sets), the
client rejects as soon as it has the 18 bytes and keeps the buffer -/
theorem cli_hdr_wrong_keys (C : Crypto) (hC : C.Lawful) (c : Client) (s s' : Session) (hs : c.session = some s')
    (hd : c.dec = none)
    (hrej : C.openB .aes128gcm (kdf16 C (s'.respKey C) [saltRespLenKey]) (kdfn C 12 (s'.respIv C) [saltRespLenIv]) []
      (respLenBlock C s) = none) (x : Bytes) :
    Client.decode C c (respLenBlock C s ++ x) = ⟨c, respLenBlock C s ++ x, .err⟩ := by
  have hL := respLenBlock_length C hC s
  have hne : (respLenBlock C s ++ x).isEmpty = false := by
    cases h : respLenBlock C s ++ x with
    | nil => have := congrArg List.length h; simp only [List.length_append, List.length_nil] at this; omega
    | cons _ _ => rfl
  unfold Client.decode
  simp only [hne, Bool.false_eq_true, if_false, hd, hs]
  rw [if_neg (by simp only [List.length_append, hL]; omega), List.take_left' hL, hrej]

theorem cli_len_more (C : Crypto) (hC : C.Lawful) (c : Client) (s s' : Session) (hs : c.session = some s')
    (hd : c.dec = none) (n : Nat) (hn : n < (respLenBlock C s).length) :
    Client.decode C c ((respLenBlock C s).take n) = ⟨c, (respLenBlock C s).take n, .more⟩ := by
  have hL := respLenBlock_length C hC s
  have hlen : ((respLenBlock C s).take n).length = n := by rw [List.length_take]; omega
  unfold Client.decode
  split
  · rfl
  · simp only [hd, hs, hlen]
    rw [if_pos (by omega)]

/-! ## 6. datagrams: one chunk per datagram, boundaries preserved -/

/-- the body decoder unit with the output grouped by chunk: a completed chunk contributes its
plaintext as one element (an empty datagram is an empty element), a size step contributes nothing -/
def Body.unitP (C : Crypto) (d : Body) (b : Bytes) : Step Body Bytes :=
  match Body.unit C d b with
  | .need => .need
  | .fail s n => .fail s n
  | .take s n o => .take s n (if s.st = .padding then [o] else [])

theorem Body.unitP_need (C : Crypto) (d : Body) (b : Bytes) (h : Body.unit C d b = .need) : Body.unitP C d b = .need := by
  simp only [Body.unitP, h]

theorem Body.unitP_fail (C : Crypto) (d : Body) (b : Bytes) (s : Body) (n : Nat) (h : Body.unit C d b = .fail s n) :
    Body.unitP C d b = .fail s n := by
  simp only [Body.unitP, h]

theorem Body.unitP_take (C : Crypto) (d : Body) (b : Bytes) (s : Body) (n : Nat) (o : Bytes)
    (h : Body.unit C d b = .take s n o) :
    Body.unitP C d b = .take s n (if s.st = .padding then [o] else []) := by
  simp only [Body.unitP, h]

theorem Body.unitP_need_inv (C : Crypto) (d : Body) (b : Bytes) (h : Body.unitP C d b = .need) : Body.unit C d b = .need := by
  unfold Body.unitP at h
  cases hu : Body.unit C d b <;> simp [hu] at h ⊢

theorem Body.unitP_take_inv (C : Crypto) (d : Body) (b : Bytes) (s : Body) (n : Nat) (o : List Bytes)
    (h : Body.unitP C d b = .take s n o) : ∃ o', Body.unit C d b = .take s n o' := by
  unfold Body.unitP at h
  cases hu : Body.unit C d b with
  | need => simp [hu] at h
  | fail s' n' => simp [hu] at h
  | take s' n' o' =>
    simp only [hu, Step.take.injEq] at h
    obtain ⟨rfl, rfl, _⟩ := h
    exact ⟨o', rfl⟩

theorem Body.unitP_fail_inv (C : Crypto) (d : Body) (b : Bytes) (s : Body) (n : Nat)
    (h : Body.unitP C d b = .fail s n) : Body.unit C d b = .fail s n := by
  unfold Body.unitP at h
  cases hu : Body.unit C d b with
  | need => simp [hu] at h
  | fail s' n' => simpa [hu] using h
  | take s' n' o' => simp [hu] at h

theorem body_unitP_good (C : Crypto) : Good (Body.unitP C) where
  progress := by
    intro s b s' n o h
    obtain ⟨o', h'⟩ := Body.unitP_take_inv C s b s' n o h
    exact (body_unit_good C).progress s b s' n o' h'
  stable_take := by
    intro s b t s' n o h
    obtain ⟨o', h'⟩ := Body.unitP_take_inv C s b s' n o h
    have := (body_unit_good C).stable_take s b t s' n o' h'
    rw [Body.unitP_take C _ _ _ _ _ this]
    rw [Body.unitP_take C _ _ _ _ _ h'] at h
    exact h
  stable_fail := by
    intro s b t s' n h
    have h' := Body.unitP_fail_inv C s b s' n h
    exact Body.unitP_fail C _ _ _ _ ((body_unit_good C).stable_fail s b t s' n h')
  fail_le := by
    intro s b s' n h
    exact (body_unit_good C).fail_le s b s' n (Body.unitP_fail_inv C s b s' n h)

/-- a `take` out of a body state ends at a chunk boundary, any other `take` ends in a body state -/
theorem Body.unit_take_st (C : Crypto) (d : Body) (b : Bytes) (d' : Body) (n : Nat) (o : Bytes)
    (h : Body.unit C d b = .take d' n o) :
    ((∃ pl len, d.st = .body pl len) ∧ d'.st = .padding) ∨ ((∀ pl len, d.st ≠ .body pl len) ∧ ∃ pl len, d'.st = .body pl len) := by
  cases hs : d.st with
  | padding =>
    rw [Body.unit_padding C d b hs] at h
    split at h
    · cases h
    · split at h <;> cases h
      exact Or.inr ⟨by intro pl len; simp, _, _, rfl⟩
  | length pl =>
    rw [Body.unit_length C d b pl hs] at h
    split at h
    · cases h
    · split at h <;> cases h
      exact Or.inr ⟨by intro pl len; simp, _, _, rfl⟩
  | body pl len =>
    rw [Body.unit_body C d b pl len hs] at h
    split at h
    · cases h
    · split at h
      · cases h
      · split at h <;> cases h
        exact Or.inl ⟨⟨_, _, rfl⟩, rfl⟩

/-- **one `decode_packet` call** against the chunk-grouped run -/
theorem drainPacket_run (C : Crypto) (d : Body) (b : Bytes) :
    match bodyDrainPacket C 3 d b with
    | (d1, b1, .more) => run (Body.unitP C) d b = ⟨d1, b1, [], false⟩
    | (d1, b1, .err) => run (Body.unitP C) d b = ⟨d1, b1, [], true⟩
    | (d1, b1, .ok o) => d1.st = .padding ∧ b1.length < b.length ∧
        run (Body.unitP C) d b = ⟨(run (Body.unitP C) d1 b1).st, (run (Body.unitP C) d1 b1).buf,
          o :: (run (Body.unitP C) d1 b1).out, (run (Body.unitP C) d1 b1).failed⟩
    | (_, _, .panic) => False := by
  have G := body_unitP_good C
  have G0 := body_unit_good C
  cases hu : Body.unit C d b with
  | need =>
    simp only [bodyDrainPacket, hu]
    exact run_need _ _ _ (Body.unitP_need C d b hu)
  | fail d' n =>
    simp only [bodyDrainPacket, hu]
    exact run_fail _ _ _ _ _ (Body.unitP_fail C d b d' n hu)
  | take d' n o =>
    have hp1 := G0.progress d b d' n o hu
    by_cases hp : d'.st = .padding
    · simp only [bodyDrainPacket, hu, hp, if_true]
      refine ⟨trivial, by simp only [List.length_drop]; omega, ?_⟩
      rw [run_take _ G _ _ _ _ _ (Body.unitP_take C d b d' n o hu)]
      simp [hp]
    · have hst : ∃ pl len, d'.st = .body pl len := by
        rcases Body.unit_take_st C d b d' n o hu with ⟨_, h⟩ | ⟨_, h⟩
        · exact absurd h hp
        · exact h
      have h1 := run_take _ G _ _ _ _ _ (Body.unitP_take C d b d' n o hu)
      simp only [hp, if_false, List.nil_append] at h1
      cases hu2 : Body.unit C d' (b.drop n) with
      | need =>
        simp only [bodyDrainPacket, hu, hp, if_false, hu2]
        rw [h1, run_need _ _ _ (Body.unitP_need C _ _ hu2)]
      | fail d'' m =>
        simp only [bodyDrainPacket, hu, hp, if_false, hu2]
        rw [h1, run_fail _ _ _ _ _ (Body.unitP_fail C _ _ d'' m hu2)]
      | take d'' m o' =>
        have hp2 := G0.progress d' (b.drop n) d'' m o' hu2
        have hst2 : d''.st = .padding := by
          rcases Body.unit_take_st C d' (b.drop n) d'' m o' hu2 with ⟨_, h⟩ | ⟨h, _⟩
          · exact h
          · obtain ⟨pl, len, hb⟩ := hst
            exact absurd hb (h pl len)
        simp only [bodyDrainPacket, hu, hp, if_false, hu2, hst2, if_true]
        refine ⟨trivial, by simp only [List.length_drop] at hp2 ⊢; omega, ?_⟩
        rw [h1, run_take _ G _ _ _ _ _ (Body.unitP_take C _ _ d'' m o' hu2)]
        simp [hst2]

/-! ### a decoder with a header phase and a datagram body phase under `FramedRead` -/

/-- a `decode` call that ran `decode_packet`: state, buffer, and the datagram (if one completed) as an item -/
def callOf {σ : Type} (mk : Body → σ) (item : Bytes → Item) (r : Body × Bytes × Res Bytes) : Call σ :=
  ⟨mk r.1, r.2.1, match r.2.2 with
    | .ok o => .ok (item o)
    | .more => .more
    | _ => .err⟩

/-- the events of a chunk-grouped run: one item per datagram, in order; an error ends the stream -/
def pktEvs (item : Bytes → Item) (R : Out Body Bytes) : List FrEv :=
  R.out.map (fun o => FrEv.item (item o)) ++ (if R.failed then [.err, .ended] else [])

structure TwoPhaseU (C : Crypto) {σ : Type} (dec : σ → Bytes → Call σ) (s0 : σ) (mk : Body → σ) (H : Bytes) (body0 : Body)
    (item : Bytes → Item) : Prop where
  hdr_more : ∀ n, n < H.length → dec s0 (H.take n) = ⟨s0, H.take n, .more⟩
  hdr_done : ∀ x, dec s0 (H ++ x) = callOf mk item (bodyDrainPacket C 3 body0 x)
  body : ∀ d b, b ≠ [] → dec (mk d) b = callOf mk item (bodyDrainPacket C 3 d b)
  body_nil : ∀ d, dec (mk d) [] = ⟨mk d, [], .more⟩

section twoPhaseU
variable {C : Crypto} {σ : Type} {dec : σ → Bytes → Call σ} {s0 : σ} {mk : Body → σ} {H : Bytes} {body0 : Body}
  {item : Bytes → Item}

/-- the poll loop, started at a call that runs `decode_packet` on `(d, b)`: exactly the chunk-grouped
run of the body decoder over `b`, one item per completed chunk -/
theorem TwoPhaseU.loop (P : TwoPhaseU C dec s0 mk H body0 item) : ∀ (fuel : Nat) (f : FrSt σ) (d : Body) (b : Bytes),
    b.length + 2 ≤ fuel → f.ended = false → dec f.st f.buf = callOf mk item (bodyDrainPacket C 3 d b) →
    frLoop dec fuel f =
      (⟨mk (run (Body.unitP C) d b).st, (run (Body.unitP C) d b).buf, (run (Body.unitP C) d b).failed⟩,
        pktEvs item (run (Body.unitP C) d b)) := by
  intro fuel
  induction fuel with
  | zero => intro f d b h; omega
  | succ fuel ih =>
    intro f d b hfuel he hcall
    have hU := drainPacket_run C d b
    obtain ⟨d1, b1, res, hdr⟩ : ∃ d1 b1 res, bodyDrainPacket C 3 d b = (d1, b1, res) := ⟨_, _, _, rfl⟩
    rw [hdr] at hU hcall
    cases res with
    | more =>
      simp only at hU
      rw [frLoop_more _ _ _ (by rw [hcall]; rfl), hcall, hU]
      obtain ⟨fst, fbuf, fe⟩ := f
      simp only at he
      subst he
      rfl
    | err =>
      simp only at hU
      rw [frLoop_err _ _ _ (by rw [hcall]; rfl), hcall, hU]
      rfl
    | panic => exact absurd hU (by simp)
    | ok o =>
      simp only at hU
      obtain ⟨hst, hlt, hrun⟩ := hU
      rw [frLoop_ok _ _ _ (item o) (by rw [hcall]; rfl), hcall]
      simp only [callOf]
      have hnext : dec (mk d1) b1 = callOf mk item (bodyDrainPacket C 3 d1 b1) := by
        by_cases hb : b1 = []
        · subst hb
          rw [P.body_nil]
          simp only [bodyDrainPacket, Body.unit_nil C d1 hst, callOf]
        · exact P.body d1 b1 hb
      rw [ih ⟨mk d1, b1, f.ended⟩ d1 b1 (by omega) he hnext, hrun]
      simp only [pktEvs, List.map_cons, List.cons_append]

theorem TwoPhaseU.call_body (P : TwoPhaseU C dec s0 mk H body0 item) (d : Body) (b : Bytes)
    (hq : b = [] → Body.unit C d [] = .need) :
    dec (mk d) b = callOf mk item (bodyDrainPacket C 3 d b) := by
  by_cases hb : b = []
  · subst hb
    rw [P.body_nil]
    simp only [bodyDrainPacket, hq rfl, callOf]
  · exact P.body d b hb

/-- a call on a quiescent buffer: `Ok(None)`, nothing changes -/
theorem TwoPhaseU.idle (P : TwoPhaseU C dec s0 mk H body0 item) (d : Body) (b : Bytes)
    (hq : Body.unit C d b = .need) : dec (mk d) b = ⟨mk d, b, .more⟩ := by
  rw [P.call_body d b (fun h => by subst h; exact hq)]
  simp only [bodyDrainPacket, hq, callOf]

theorem TwoPhaseU.frFeed_body (P : TwoPhaseU C dec s0 mk H body0 item) (d : Body) (b piece : Bytes)
    (hq : Body.unit C d b = .need) :
    frFeed dec ⟨mk d, b, false⟩ piece =
      (⟨mk (run (Body.unitP C) d (b ++ piece)).st, (run (Body.unitP C) d (b ++ piece)).buf,
          (run (Body.unitP C) d (b ++ piece)).failed⟩,
        pktEvs item (run (Body.unitP C) d (b ++ piece))) := by
  simp only [frFeed, Bool.false_eq_true, if_false]
  refine P.loop _ ⟨mk d, b ++ piece, false⟩ d (b ++ piece) (by simp only [List.length_append]; omega) rfl ?_
  refine P.call_body d (b ++ piece) ?_
  intro h
  have hb : b = [] := (List.append_eq_nil_iff.mp h).1
  subst hb; exact hq

theorem pktEvs_ok (item : Bytes → Item) (R : Out Body Bytes) (hnf : R.failed = false) :
    pktEvs item R = R.out.map (fun o => FrEv.item (item o)) := by
  simp [pktEvs, hnf]

/-- datagram phase, any segmentation: exactly one item per completed chunk, in order -/
theorem TwoPhaseU.feedAll_body (P : TwoPhaseU C dec s0 mk H body0 item) (pieces : List Bytes) :
    ∀ (d : Body) (b : Bytes), Body.unit C d b = .need →
      (run (Body.unitP C) d (b ++ pieces.flatten)).failed = false →
      feedAll dec ⟨mk d, b, false⟩ pieces =
        (⟨mk (run (Body.unitP C) d (b ++ pieces.flatten)).st, (run (Body.unitP C) d (b ++ pieces.flatten)).buf, false⟩,
          (run (Body.unitP C) d (b ++ pieces.flatten)).out.map (fun o => FrEv.item (item o))) := by
  have G := body_unitP_good C
  induction pieces with
  | nil =>
    intro d b hq _
    simp only [List.flatten_nil, List.append_nil, run_need _ _ _ (Body.unitP_need C d b hq), feedAll_nil, List.map_nil]
  | cons p ps ih =>
    intro d b hq hnf
    simp only [List.flatten_cons, ← List.append_assoc] at hnf ⊢
    obtain ⟨hf1, hrun⟩ := Ss.run_append_ok _ G d (b ++ p) ps.flatten hnf
    have hq1 := Body.unitP_need_inv C _ _ (run_quiescent _ G _ d (b ++ p) (Nat.lt_succ_self _) hf1)
    rw [hrun] at hnf
    rw [feedAll_cons, P.frFeed_body d b p hq, hf1, ih _ _ hq1 hnf, hrun, pktEvs_ok item _ hf1]
    simp only [List.map_append]

/-- header phase, the read completes the header: the datagrams that came along are decoded at once -/
theorem TwoPhaseU.frFeed_hdr_done (P : TwoPhaseU C dec s0 mk H body0 item) (b p x : Bytes)
    (h : b ++ p = H ++ x) :
    frFeed dec ⟨s0, b, false⟩ p =
      (⟨mk (run (Body.unitP C) body0 x).st, (run (Body.unitP C) body0 x).buf, (run (Body.unitP C) body0 x).failed⟩,
        pktEvs item (run (Body.unitP C) body0 x)) := by
  simp only [frFeed, Bool.false_eq_true, if_false]
  have hl := congrArg List.length h
  simp only [List.length_append] at hl
  refine P.loop _ ⟨s0, b ++ p, false⟩ body0 x (by omega) rfl ?_
  show dec s0 (b ++ p) = _
  rw [h, P.hdr_done]

theorem TwoPhaseU.frFeed_hdr_more (P : TwoPhaseU C dec s0 mk H body0 item) (b p : Bytes) (n : Nat)
    (hn : n < H.length) (h : b ++ p = H.take n) :
    frFeed dec ⟨s0, b, false⟩ p = (⟨s0, b ++ p, false⟩, []) := by
  have hd := P.hdr_more n hn
  simp only [frFeed, Bool.false_eq_true, if_false]
  show frLoop _ ((b.length + p.length + 1) + 1) _ = _
  rw [frLoop_more _ _ _ (by simp only [h, hd])]
  simp only [h, hd]

/-- the datagram stream after reading `T`, a prefix of `H ‖ W`: nothing while the header is
incomplete; afterwards state and buffer are those of the chunk-grouped run `R` over what followed
the header, and the events are **exactly** one item per completed chunk, in order -/
def AfterU (C : Crypto) {σ : Type} (s0 : σ) (mk : Body → σ) (H : Bytes) (body0 : Body) (item : Bytes → Item)
    (T : Bytes) (F : FrSt σ × List FrEv) : Prop :=
  (T.length < H.length ∧ F = (⟨s0, T, false⟩, [])) ∨
  (∃ x, T = H ++ x ∧ (run (Body.unitP C) body0 x).failed = false ∧
    F = (⟨mk (run (Body.unitP C) body0 x).st, (run (Body.unitP C) body0 x).buf, false⟩,
      (run (Body.unitP C) body0 x).out.map (fun o => FrEv.item (item o))))

theorem TwoPhaseU.feedAll_stream (P : TwoPhaseU C dec s0 mk H body0 item) (W t2 : Bytes)
    (hW : (run (Body.unitP C) body0 W).failed = false) (pieces : List Bytes) :
    ∀ b : Bytes, b.length < H.length → b ++ pieces.flatten ++ t2 = H ++ W →
      AfterU C s0 mk H body0 item (b ++ pieces.flatten) (feedAll dec ⟨s0, b, false⟩ pieces) := by
  have G := body_unitP_good C
  induction pieces with
  | nil =>
    intro b hb _
    simp only [List.flatten_nil, List.append_nil, feedAll_nil]
    exact Or.inl ⟨hb, rfl⟩
  | cons p ps ih =>
    intro b hb h
    have h' : (b ++ p) ++ (ps.flatten ++ t2) = H ++ W := by
      rw [← h]; simp only [List.flatten_cons, List.append_assoc]
    have hT : b ++ (p :: ps).flatten = (b ++ p) ++ ps.flatten := by
      simp only [List.flatten_cons, List.append_assoc]
    rw [hT]
    by_cases hlt : (b ++ p).length < H.length
    · have ht := prefix_eq_take h' (by omega)
      rw [feedAll_cons, P.frFeed_hdr_more b p _ hlt ht]
      have := ih (b ++ p) hlt (by rw [← h']; simp only [List.append_assoc])
      simpa using this
    · obtain ⟨x0, h1, h2⟩ := append_split h' (by omega)
      rw [h2, ← List.append_assoc] at hW
      obtain ⟨hx, _⟩ := Ss.run_append_ok _ G body0 (x0 ++ ps.flatten) t2 hW
      obtain ⟨hf0, hrun⟩ := Ss.run_append_ok _ G body0 x0 ps.flatten hx
      have hq0 := Body.unitP_need_inv C _ _ (run_quiescent _ G _ body0 x0 (Nat.lt_succ_self _) hf0)
      have hx' := hx
      rw [hrun] at hx'
      rw [feedAll_cons, P.frFeed_hdr_done b p x0 h1, hf0, P.feedAll_body ps _ _ hq0 hx', pktEvs_ok item _ hf0]
      refine Or.inr ⟨x0 ++ ps.flatten, by rw [h1, List.append_assoc], hx, ?_⟩
      rw [hrun]
      simp only [List.map_append]

theorem TwoPhaseU.after_idle (P : TwoPhaseU C dec s0 mk H body0 item) (T t2 W : Bytes) (hT : T ++ t2 = H ++ W)
    (F : FrSt σ × List FrEv) (h : AfterU C s0 mk H body0 item T F) :
    dec F.1.st F.1.buf = ⟨F.1.st, F.1.buf, .more⟩ := by
  have G := body_unitP_good C
  rcases h with ⟨hlt, hF⟩ | ⟨x, _, hnf, hF⟩
  · rw [hF]
    have ht := prefix_eq_take hT (by omega)
    simp only
    rw [ht]
    exact P.hdr_more _ hlt
  · rw [hF]
    exact P.idle _ _ (Body.unitP_need_inv C _ _ (run_quiescent _ G _ body0 x (Nat.lt_succ_self _) hnf))

end twoPhaseU
/-! ### the honest datagram sender -/

/-- datagrams (each with its padding source) through `encode_packet`, one chunk each; `none` as soon
as one does not fit -/
def Body.encodePackets (C : Crypto) : Body → List (Bytes × Bytes) → Option (Bytes × Body)
  | b, [] => some ([], b)
  | b, (src, pad) :: ds =>
    match b.encodePacket C src pad with
    | none => none
    | some (w, b') =>
      match Body.encodePackets C b' ds with
      | none => none
      | some (ws, b'') => some (w ++ ws, b'')

/-- every datagram fits one chunk and finds its padding -/
def Body.PacketsOk (C : Crypto) : Body → List (Bytes × Bytes) → Prop
  | _, [] => True
  | e, (src, pad) :: ds =>
    src.length ≤ e.packetLimit ∧ (e.nextPadding C).1 ≤ pad.length ∧ Body.PacketsOk C (e.encodeChunk C src pad).2.2 ds

instance Body.decPacketsOk (C : Crypto) : ∀ (e : Body) (ds : List (Bytes × Bytes)), Decidable (Body.PacketsOk C e ds)
  | _, [] => isTrue trivial
  | e, (src, pad) :: ds =>
    have := Body.decPacketsOk C (e.encodeChunk C src pad).2.2 ds
    inferInstanceAs (Decidable (src.length ≤ e.packetLimit ∧ (e.nextPadding C).1 ≤ pad.length ∧
      Body.PacketsOk C (e.encodeChunk C src pad).2.2 ds))

/-- **datagram round trip**: every datagram is accepted, and the chunk-grouped run of the decoder
over the wire yields exactly the datagrams, in order, boundaries preserved (empty ones included),
consumes everything and ends synchronised with the encoder -/
theorem body_packets_roundtrip (C : Crypto) (hC : C.Lawful) (ds : List (Bytes × Bytes)) : ∀ (e d : Body),
    Body.Sync e d → Body.PacketsOk C e ds →
    ∃ w e' d', Body.encodePackets C e ds = some (w, e') ∧ Body.Sync e' d' ∧
      run (Body.unitP C) d w = ⟨d', [], ds.map Prod.fst, false⟩ := by
  have G := body_unitP_good C
  induction ds with
  | nil =>
    intro e d hs _
    have hst : d.st = .padding := ((Body.sync_iff e d).mp hs).2.2.2.2.2.2.2.2.2.2.2
    exact ⟨[], e, d, rfl, hs, run_need _ _ _ (Body.unitP_need C d [] (Body.unit_nil C d hst))⟩
  | cons x ds ih =>
    intro e d hs hp
    obtain ⟨src, pad⟩ := x
    obtain ⟨hfit, hpad, hrest⟩ := hp
    obtain ⟨dm0, d1, hs1, _, _, _, _⟩ := body_chunk_steps C hC e d hs src pad [] hpad
    obtain ⟨w2, e2, d2, henc2, hs2, hrun2⟩ := ih _ d1 hs1 hrest
    obtain ⟨dm, d1', hs1', hdmst, u1, u2, hd⟩ := body_chunk_steps C hC e d hs src pad w2 hpad
    have hdd : d1' = d1 := by
      rw [show d1' = _ from hs1', show d1 = _ from hs1]
    subst hdd
    have hn := Body.chunkLen_packet C e src hfit
    rw [hn, List.take_length] at u2
    rw [hn] at hd
    have hst1 : d1'.st = .padding := ((Body.sync_iff _ d1').mp hs1').2.2.2.2.2.2.2.2.2.2.2
    have hdm : dm.st ≠ .padding := by rw [hdmst]; simp
    refine ⟨(e.encodeChunk C src pad).1 ++ w2, e2, d2, ?_, hs2, ?_⟩
    · simp only [Body.encodePackets, Body.encodePacket_some C e src pad hfit, henc2]
    · rw [run_take _ G _ _ _ _ _ (Body.unitP_take C _ _ _ _ _ u1),
        run_take _ G _ _ _ _ _ (Body.unitP_take C _ _ _ _ _ u2), hd, hrun2]
      simp [hdm, hst1]

/-! ### the server and the client in UDP mode -/

section requestU
variable {C : Crypto} {utf8Ok : Bytes → Bool} {now : Nat} {keys : List Bytes} {c : Client} {r : ClientRand}

theorem srv_hdr_done_udp (hC : C.Lawful) (ok : ReqOk C utf8Ok now keys c r) (hcmd : c.cmd = .udp) (x : Bytes) :
    Server.decode C utf8Ok now ⟨keys, none⟩ (reqSealed C c r ++ x) =
      callOf (srvReady keys .udp (c.mask % 32) c.sec c.addr r.session) (fun o => ⟨.udp, o, some c.addr⟩)
        (bodyDrainPacket C 3 (Body.new C c.mask c.sec r.session.reqKey r.session.reqIv r.session) x) := by
  obtain ⟨h1, h2, h3⟩ := srv_hdr_open hC ok x
  have hlen := reqSealed_length hC ok
  unfold Server.decode
  simp only
  rw [if_neg (by simp only [List.length_append]; omega), h1]
  simp only [h2, h3, List.drop_left]
  rw [hcmd]
  simp only [knownMask_u8, Body.new_mask_mod32, bodyDecode, callOf, srvReady]
  obtain ⟨d1, b1, res, hdr⟩ : ∃ d1 b1 res, bodyDrainPacket C 3
    (Body.new C c.mask c.sec r.session.reqKey r.session.reqIv r.session) x = (d1, b1, res) := ⟨_, _, _, rfl⟩
  rw [hdr]
  cases res <;> rfl

theorem srv_body_udp (C : Crypto) (utf8Ok : Bytes → Bool) (now : Nat) (keys : List Bytes) (mask : Nat) (sec : Security)
    (ad : Addr) (s : Session) (d : Body) (b : Bytes) (hb : b ≠ []) :
    Server.decode C utf8Ok now (srvReady keys .udp mask sec ad s d) b =
      callOf (srvReady keys .udp mask sec ad s) (fun o => ⟨.udp, o, some ad⟩) (bodyDrainPacket C 3 d b) := by
  have he : b.isEmpty = false := by cases b <;> simp_all
  simp only [Server.decode, srvReady, he, bodyDecode, callOf, Bool.false_eq_true, if_false]
  obtain ⟨d1, b1, res, hdr⟩ : ∃ d1 b1 res, bodyDrainPacket C 3 d b = (d1, b1, res) := ⟨_, _, _, rfl⟩
  rw [hdr]
  cases res <;> simp

theorem srv_twoPhaseU (hC : C.Lawful) (ok : ReqOk C utf8Ok now keys c r) (hcmd : c.cmd = .udp) :
    TwoPhaseU C (Server.decode C utf8Ok now) ⟨keys, none⟩ (srvReady keys .udp (c.mask % 32) c.sec c.addr r.session)
      (reqSealed C c r) (Body.new C c.mask c.sec r.session.reqKey r.session.reqIv r.session)
      (fun o => ⟨.udp, o, some c.addr⟩) where
  hdr_more := srv_hdr_more hC ok
  hdr_done := srv_hdr_done_udp hC ok hcmd
  body := srv_body_udp C utf8Ok now keys _ _ _ _
  body_nil := fun d => by simp [Server.decode, srvReady]

end requestU

theorem cli_finish_udp (C : Crypto) (c : Client) (hc : c.cmd = .udp) (d : Body) (b : Bytes) (hb : b ≠ []) :
    Client.finish C (cliReady c d) d b =
      callOf (cliReady c) (fun o => ⟨.udp, o, none⟩) (bodyDrainPacket C 3 d b) := by
  have he : b.isEmpty = false := by cases b <;> simp_all
  simp only [Client.finish, cliReady, he, hc, bodyDecode, callOf, Bool.false_eq_true, if_false]
  obtain ⟨d1, b1, res, hdr⟩ : ∃ d1 b1 res, bodyDrainPacket C 3 d b = (d1, b1, res) := ⟨_, _, _, rfl⟩
  rw [hdr]
  cases res <;> simp

theorem cli_twoPhaseU (C : Crypto) (hC : C.Lawful) (c : Client) (hc : c.cmd = .udp) (s : Session) (hs : c.session = some s)
    (hd : c.dec = none) (mask : Nat) :
    TwoPhaseU C (Client.decode C) c (cliReady c) (respHeader C s mask) (Body.new C c.mask c.sec (s.respKey C) (s.respIv C) s)
      (fun o => ⟨.udp, o, none⟩) where
  hdr_more := cli_hdr_more C hC c s hs hd mask
  hdr_done := by
    intro x
    rw [cli_hdr_open C hC c s hs hd mask x]
    by_cases hx : x = []
    · subst hx
      simp only [Client.finish, List.isEmpty_nil, if_true, bodyDrainPacket,
        Body.unit_nil C _ (Body.new_st C c.mask c.sec (s.respKey C) (s.respIv C) s), callOf]
    · exact cli_finish_udp C c hc _ x hx
  body := by
    intro d b hb
    have he : b.isEmpty = false := by cases b <;> simp_all
    have := cli_finish_udp C c hc d b hb
    simp only [Client.decode, he, Bool.false_eq_true, if_false]
    simpa [cliReady] using this
  body_nil := fun d => by simp [Client.decode]

/-! ### the datagram senders -/

/-- the padding source `encode_packet` sees for each item of the call-level encoders -/
def toPackets (ws : List (Bytes × List Bytes)) : List (Bytes × Bytes) := ws.map fun x => (x.1, x.2.headD [])

theorem toPackets_fst (ws : List (Bytes × List Bytes)) : (toPackets ws).map Prod.fst = ws.map Prod.fst := by
  simp [toPackets, List.map_map, Function.comp_def]

theorem Body.encodePackets_cons_some (C : Crypto) (e : Body) (src pad : Bytes) (ds : List (Bytes × Bytes)) (W : Bytes) (e' : Body)
    (h : Body.encodePackets C e ((src, pad) :: ds) = some (W, e')) :
    ∃ w1 e1 w2, e.encodePacket C src pad = some (w1, e1) ∧ Body.encodePackets C e1 ds = some (w2, e') ∧ W = w1 ++ w2 := by
  rw [Body.encodePackets] at h
  cases h1 : e.encodePacket C src pad with
  | none => rw [h1] at h; cases h
  | some p1 =>
    obtain ⟨w1, e1⟩ := p1
    rw [h1] at h
    simp only at h
    cases h2 : Body.encodePackets C e1 ds with
    | none => rw [h2] at h; cases h
    | some p2 =>
      obtain ⟨w2, e2⟩ := p2
      rw [h2] at h
      simp only [Option.some.injEq, Prod.mk.injEq] at h
      obtain ⟨rfl, rfl⟩ := h
      exact ⟨w1, e1, w2, rfl, h2, rfl⟩

theorem toPackets_cons (item : Bytes) (pads : List Bytes) (ws : List (Bytes × List Bytes)) :
    toPackets ((item, pads) :: ws) = (item, pads.headD []) :: toPackets ws := rfl

theorem Client.encodeRest_udp (C : Crypto) (ws : List (Bytes × List Bytes)) : ∀ (c : Client) (e : Body) (W : Bytes) (e' : Body),
    c.cmd = .udp → c.enc = some e → Body.encodePackets C e (toPackets ws) = some (W, e') →
    Client.encodeRest C c ws = .ok (W, { c with enc := some e' }) := by
  induction ws with
  | nil =>
    intro c e W e' _ he h
    simp only [toPackets, List.map_nil, Body.encodePackets, Option.some.injEq, Prod.mk.injEq] at h
    obtain ⟨rfl, rfl⟩ := h
    simp only [Client.encodeRest]
    rw [← he]
  | cons w ws ih =>
    intro c e W e' hc he h
    obtain ⟨item, pads⟩ := w
    rw [toPackets_cons] at h
    obtain ⟨w1, e1, w2, h1, h2, rfl⟩ := Body.encodePackets_cons_some C e _ _ _ W e' h
    simp only [Client.encodeRest, Client.encodeNext, he, hc, h1]
    rw [ih _ e1 w2 e' rfl rfl h2]

theorem Client.encodeAll_udp (C : Crypto) (c : Client) (r : ClientRand) (w : Bytes × List Bytes)
    (ws : List (Bytes × List Bytes)) (ha : c.addr.Accepted) (hc : c.cmd = .udp) (W : Bytes) (e' : Body)
    (h : Body.encodePackets C (Body.new C c.mask c.sec r.session.reqKey r.session.reqIv r.session) (toPackets (w :: ws)) =
      some (W, e')) :
    Client.encodeAll C c r w ws = .ok (reqSealed C c r ++ W, { c with session := some r.session, enc := some e' }) := by
  obtain ⟨item, pads⟩ := w
  rw [toPackets_cons] at h
  obtain ⟨w1, e1, w2, h1, h2, rfl⟩ := Body.encodePackets_cons_some C _ _ _ _ W e' h
  simp only [Client.encodeAll, Client.encodeFirst, write_addrBytes c.addr ha, hc, h1]
  rw [Client.encodeRest_udp C ws _ e1 w2 e' rfl rfl h2]
  simp only [reqSealed, hc, List.append_assoc]

theorem Server.encodeAll_udp_next (C : Crypto) (keys : List Bytes) (mask : Nat) (sec : Security) (ad : Addr) (s : Session)
    (d : Body) (ws : List (Bytes × List Bytes)) : ∀ (e : Body) (W : Bytes) (e' : Body),
    Body.encodePackets C e (toPackets ws) = some (W, e') →
    Server.encodeAll C (srvReadyEnc keys .udp mask sec ad s d e) ws = (.ok W, srvReadyEnc keys .udp mask sec ad s d e') := by
  induction ws with
  | nil =>
    intro e W e' h
    simp only [toPackets, List.map_nil, Body.encodePackets, Option.some.injEq, Prod.mk.injEq] at h
    obtain ⟨rfl, rfl⟩ := h
    rfl
  | cons w ws ih =>
    intro e W e' h
    obtain ⟨item, pads⟩ := w
    rw [toPackets_cons] at h
    obtain ⟨w1, e1, w2, h1, h2, rfl⟩ := Body.encodePackets_cons_some C e _ _ _ W e' h
    have := ih e1 w2 e' h2
    simp only [srvReadyEnc] at this
    simp only [Server.encodeAll, Server.encode, srvReadyEnc, h1, List.nil_append, this]

theorem Server.encodeAll_udp (C : Crypto) (keys : List Bytes) (mask : Nat) (sec : Security) (ad : Addr) (s : Session)
    (d : Body) (w : Bytes × List Bytes) (ws : List (Bytes × List Bytes)) (W : Bytes) (e' : Body)
    (h : Body.encodePackets C (Body.new C mask sec (s.respKey C) (s.respIv C) s) (toPackets (w :: ws)) = some (W, e')) :
    Server.encodeAll C (srvReady keys .udp mask sec ad s d) (w :: ws) =
      (.ok (respHeader C s mask ++ W), srvReadyEnc keys .udp mask sec ad s d e') := by
  obtain ⟨item, pads⟩ := w
  rw [toPackets_cons] at h
  obtain ⟨w1, e1, w2, h1, h2, rfl⟩ := Body.encodePackets_cons_some C _ _ _ _ W e' h
  have := Server.encodeAll_udp_next C keys mask sec ad s d ws e1 w2 e' h2
  simp only [srvReadyEnc] at this
  simp only [Server.encodeAll, Server.encode, srvReady, h1, this]
  simp only [respHeader, respLenBlock, respHdrBlock, srvReadyEnc, List.append_assoc]

/-! ### datagrams, any segmentation -/

theorem srv_request_udp_stream {C : Crypto} {utf8Ok : Bytes → Bool} {now : Nat} {keys : List Bytes} {c : Client} {r : ClientRand}
    (hC : C.Lawful) (ok : ReqOk C utf8Ok now keys c r) (hcmd : c.cmd = .udp) (ds : List (Bytes × Bytes))
    (hp : Body.PacketsOk C (Body.new C c.mask c.sec r.session.reqKey r.session.reqIv r.session) ds)
    (W : Bytes) (e' : Body)
    (hW : Body.encodePackets C (Body.new C c.mask c.sec r.session.reqKey r.session.reqIv r.session) ds = some (W, e'))
    (pre post : List Bytes) (hcut : (pre ++ post).flatten = reqSealed C c r ++ W) :
    AfterU C (⟨keys, none⟩ : Server) (srvReady keys .udp (c.mask % 32) c.sec c.addr r.session) (reqSealed C c r)
      (Body.new C c.mask c.sec r.session.reqKey r.session.reqIv r.session) (fun o => ⟨.udp, o, some c.addr⟩)
      pre.flatten (feedAll (Server.decode C utf8Ok now) ⟨⟨keys, none⟩, [], false⟩ pre) := by
  obtain ⟨w, e2, d', henc, _, hrun⟩ := body_packets_roundtrip C hC ds _ _ (Body.new_sync C c.mask c.sec _ _ r.session) hp
  rw [hW] at henc
  simp only [Option.some.injEq, Prod.mk.injEq] at henc
  obtain ⟨rfl, rfl⟩ := henc
  have hlen := reqSealed_length hC ok
  have := (srv_twoPhaseU hC ok hcmd).feedAll_stream _ post.flatten (by rw [hrun]) pre []
    (by simp only [List.length_nil]; omega) (by rw [← hcut]; simp)
  simpa using this

theorem srv_request_udp_complete {C : Crypto} {utf8Ok : Bytes → Bool} {now : Nat} {keys : List Bytes} {c : Client} {r : ClientRand}
    (hC : C.Lawful) (ok : ReqOk C utf8Ok now keys c r) (hcmd : c.cmd = .udp) (ds : List (Bytes × Bytes))
    (hp : Body.PacketsOk C (Body.new C c.mask c.sec r.session.reqKey r.session.reqIv r.session) ds)
    (W : Bytes) (e' : Body)
    (hW : Body.encodePackets C (Body.new C c.mask c.sec r.session.reqKey r.session.reqIv r.session) ds = some (W, e'))
    (pieces : List Bytes) (hcut : pieces.flatten = reqSealed C c r ++ W) :
    ∃ d', Body.Sync e' d' ∧
      feedAll (Server.decode C utf8Ok now) ⟨⟨keys, none⟩, [], false⟩ pieces =
        (⟨srvReady keys .udp (c.mask % 32) c.sec c.addr r.session d', [], false⟩,
          ds.map (fun x => FrEv.item ⟨.udp, x.1, some c.addr⟩)) := by
  have h := srv_request_udp_stream hC ok hcmd ds hp W e' hW pieces [] (by simpa using hcut)
  obtain ⟨w, e2, d', henc, hs', hrun⟩ := body_packets_roundtrip C hC ds _ _ (Body.new_sync C c.mask c.sec _ _ r.session) hp
  rw [hW] at henc
  simp only [Option.some.injEq, Prod.mk.injEq] at henc
  obtain ⟨rfl, rfl⟩ := henc
  rw [hcut] at h
  rcases h with ⟨hlt, _⟩ | ⟨x, hx, _, hF⟩
  · simp only [List.length_append] at hlt; omega
  · have hx' := List.append_cancel_left hx
    subst hx'
    rw [hrun] at hF
    refine ⟨d', hs', ?_⟩
    rw [hF]
    simp only [List.map_map, Function.comp_def]

theorem cli_response_udp_stream (C : Crypto) (hC : C.Lawful) (c : Client) (hc : c.cmd = .udp) (s : Session)
    (hs : c.session = some s) (hd : c.dec = none) (mask : Nat) (hmask : mask % 32 = c.mask % 32)
    (ds : List (Bytes × Bytes))
    (hp : Body.PacketsOk C (Body.new C c.mask c.sec (s.respKey C) (s.respIv C) s) ds)
    (W : Bytes) (e' : Body)
    (hW : Body.encodePackets C (Body.new C mask c.sec (s.respKey C) (s.respIv C) s) ds = some (W, e'))
    (pre post : List Bytes) (hcut : (pre ++ post).flatten = respHeader C s mask ++ W) :
    AfterU C c (cliReady c) (respHeader C s mask) (Body.new C c.mask c.sec (s.respKey C) (s.respIv C) s)
      (fun o => ⟨.udp, o, none⟩) pre.flatten (feedAll (Client.decode C) ⟨c, [], false⟩ pre) := by
  rw [Body.new_mask_congr C mask c.mask hmask] at hW
  obtain ⟨w, e2, d', henc, _, hrun⟩ := body_packets_roundtrip C hC ds _ _ (Body.new_sync C c.mask c.sec _ _ s) hp
  rw [hW] at henc
  simp only [Option.some.injEq, Prod.mk.injEq] at henc
  obtain ⟨rfl, rfl⟩ := henc
  have hlen := respHeader_length C hC s mask
  have := (cli_twoPhaseU C hC c hc s hs hd mask).feedAll_stream _ post.flatten (by rw [hrun]) pre []
    (by simp only [List.length_nil]; omega) (by rw [← hcut]; simp)
  simpa using this

theorem cli_response_udp_complete (C : Crypto) (hC : C.Lawful) (c : Client) (hc : c.cmd = .udp) (s : Session)
    (hs : c.session = some s) (hd : c.dec = none) (mask : Nat) (hmask : mask % 32 = c.mask % 32)
    (ds : List (Bytes × Bytes))
    (hp : Body.PacketsOk C (Body.new C c.mask c.sec (s.respKey C) (s.respIv C) s) ds)
    (W : Bytes) (e' : Body)
    (hW : Body.encodePackets C (Body.new C mask c.sec (s.respKey C) (s.respIv C) s) ds = some (W, e'))
    (pieces : List Bytes) (hcut : pieces.flatten = respHeader C s mask ++ W) :
    ∃ d', Body.Sync e' d' ∧
      feedAll (Client.decode C) ⟨c, [], false⟩ pieces =
        (⟨cliReady c d', [], false⟩, ds.map (fun x => FrEv.item ⟨.udp, x.1, none⟩)) := by
  have h := cli_response_udp_stream C hC c hc s hs hd mask hmask ds hp W e' hW pieces [] (by simpa using hcut)
  rw [Body.new_mask_congr C mask c.mask hmask] at hW
  obtain ⟨w, e2, d', henc, hs', hrun⟩ := body_packets_roundtrip C hC ds _ _ (Body.new_sync C c.mask c.sec _ _ s) hp
  rw [hW] at henc
  simp only [Option.some.injEq, Prod.mk.injEq] at henc
  obtain ⟨rfl, rfl⟩ := henc
  have hlen := respHeader_length C hC s mask
  rw [hcut] at h
  rcases h with ⟨hlt, _⟩ | ⟨x, hx, _, hF⟩
  · simp only [List.length_append] at hlt; omega
  · have hx' := List.append_cancel_left hx
    subst hx'
    rw [hrun] at hF
    refine ⟨d', hs', ?_⟩
    rw [hF]
    simp only [List.map_map, Function.comp_def]

/-- whether the datagrams are accepted does not depend on the run: `PacketsOk` suffices -/
theorem Body.encodePackets_isSome (C : Crypto) (hC : C.Lawful) (e : Body) (ds : List (Bytes × Bytes))
    (hp : Body.PacketsOk C e ds) : ∃ W e', Body.encodePackets C e ds = some (W, e') := by
  obtain ⟨w, e', _, h, _, _⟩ := body_packets_roundtrip C hC ds e _ rfl hp
  exact ⟨w, e', h⟩

end Octo.Vmess
