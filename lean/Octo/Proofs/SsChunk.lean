import Octo.Model.Ss
import Octo.Proofs.Framed
import Octo.Proofs.Bytes
/-! The Shadowsocks chunk layer: the decoder unit is `Good`; encoder ∘ decoder round trip. -/
namespace Octo.Ss
open Octo.Fr

theorem take_app (a b : Bytes) (n : Nat) (h : n ≤ a.length) : (a ++ b).take n = a.take n :=
  List.take_append_of_le_length h

theorem chunkUnit_good (C : Crypto) (hC : C.Lawful) : Good (chunkUnit C) where
  progress := by
    intro s b s' n o h
    cases hs : s.st <;> simp only [chunkUnit, hs] at h
    · split at h
      · cases h
      · split at h <;> cases h
        omega
    · split at h
      · cases h
      · rename_i m hlen
        split at h <;> cases h
        rename_i p a heq
        have := hC.open_len _ _ _ _ _ _ (by simpa [Auth.openB] using congrArg Prod.fst heq)
        simp only [List.length_take] at this
        omega
  stable_take := by
    intro s b t s' n o h
    cases hs : s.st <;> simp only [chunkUnit, hs] at h ⊢
    · split at h
      · cases h
      · rw [if_neg (by simp only [List.length_append]; omega), take_app _ _ _ (by omega)]
        exact h
    · split at h
      · cases h
      · rw [if_neg (by simp only [List.length_append]; omega), take_app _ _ _ (by omega)]
        exact h
  stable_fail := by
    intro s b t s' n h
    cases hs : s.st <;> simp only [chunkUnit, hs] at h ⊢
    · split at h
      · cases h
      · rw [if_neg (by simp only [List.length_append]; omega), take_app _ _ _ (by omega)]
        exact h
    · split at h
      · cases h
      · rw [if_neg (by simp only [List.length_append]; omega), take_app _ _ _ (by omega)]
        exact h
  fail_le := by
    intro s b s' n h
    cases hs : s.st <;> simp only [chunkUnit, hs] at h
    · split at h
      · cases h
      · split at h <;> cases h
        omega
    · split at h
      · cases h
      · split at h <;> cases h
        omega

/-- sealing and then opening with authenticators in the same state gives the plaintext back and
leaves both in the same state -/
theorem open_seal_auth (C : Crypto) (hC : C.Lawful) (a : Auth) (p : Bytes) :
    a.openB C (a.sealB C p).1 = (some p, (a.sealB C p).2) := by
  simp [Auth.openB, Auth.sealB, hC.open_seal]

theorem sealB_len (C : Crypto) (hC : C.Lawful) (a : Auth) (p : Bytes) :
    ((a.sealB C p).1).length = p.length + 16 := by
  simp [Auth.sealB, hC.seal_len]

/-- round trip of any number of chunks, whatever follows them in the buffer being left alone -/
theorem chunks_roundtrip (C : Crypto) (hC : C.Lawful) (ps : List Bytes) (hps : ∀ p ∈ ps, p.length < 65536) :
    ∀ (a : Auth), run (chunkUnit C) ⟨a, .length⟩ (encChunks C a ps).1 =
      ⟨⟨(encChunks C a ps).2, .length⟩, [], ps.flatten, false⟩ := by
  have G := chunkUnit_good C hC
  induction ps with
  | nil =>
    intro a
    exact run_need _ _ _ (by simp [chunkUnit, encChunks])
  | cons p ps ih =>
    intro a
    have hp := hps p List.mem_cons_self
    -- name the pieces
    obtain ⟨l, a1, hl⟩ : ∃ l a1, a.sealB C (be16 p.length) = (l, a1) := ⟨_, _, rfl⟩
    obtain ⟨c, a2, hc⟩ : ∃ c a2, a1.sealB C p = (c, a2) := ⟨_, _, rfl⟩
    have hll : l.length = 18 := by have := sealB_len C hC a (be16 p.length); rw [hl] at this; simpa using this
    have hcl : c.length = p.length + 16 := by have := sealB_len C hC a1 p; rw [hc] at this; exact this
    have ho1 : a.openB C l = (some (be16 p.length), a1) := by
      have := open_seal_auth C hC a (be16 p.length); rw [hl] at this; exact this
    have ho2 : a1.openB C c = (some p, a2) := by
      have := open_seal_auth C hC a1 p; rw [hc] at this; exact this
    have henc : encChunks C a (p :: ps) = (l ++ c ++ (encChunks C a2 ps).1, (encChunks C a2 ps).2) := by
      simp [encChunks, encChunk, hl, hc]
    rw [henc]
    simp only
    have u1 : chunkUnit C ⟨a, .length⟩ (l ++ c ++ (encChunks C a2 ps).1) =
        .take ⟨a1, .payload (p.length + 16)⟩ 18 [] := by
      simp only [chunkUnit, List.append_assoc]
      rw [if_neg (by simp only [List.length_append, hll]; omega)]
      rw [take_app _ _ _ (by omega), List.take_of_length_le (by omega), ho1]
      simp only [rdBE_be16 _ hp]
    have d1 : (l ++ c ++ (encChunks C a2 ps).1).drop 18 = c ++ (encChunks C a2 ps).1 := by
      rw [List.append_assoc, ← hll, List.drop_left]
    have u2 : chunkUnit C ⟨a1, .payload (p.length + 16)⟩ (c ++ (encChunks C a2 ps).1) =
        .take ⟨a2, .length⟩ (p.length + 16) p := by
      simp only [chunkUnit]
      rw [if_neg (by simp only [List.length_append, hcl]; omega)]
      rw [take_app _ _ _ (by omega), List.take_of_length_le (by omega), ho2]
    have d2 : (c ++ (encChunks C a2 ps).1).drop (p.length + 16) = (encChunks C a2 ps).1 := by
      rw [← hcl, List.drop_left]
    rw [run_take _ G _ _ _ _ _ u1, d1, run_take _ G _ _ _ _ _ u2, d2,
      ih (fun q hq => hps q (List.mem_cons_of_mem _ hq)) a2]
    simp

/-- `splitChunks` loses nothing and respects the limit -/
theorem splitChunks_flatten (limit : Nat) (hl : 0 < limit) (p : Bytes) : (splitChunks limit p).flatten = p := by
  fun_induction splitChunks limit p with
  | case1 p hc =>
    rcases hc with hc | hc
    · omega
    · simp [hc]
  | case2 p hc ih =>
    simp only [List.flatten_cons, ih]
    exact List.take_append_drop limit p

theorem splitChunks_le (limit : Nat) (p : Bytes) : ∀ q ∈ splitChunks limit p, q.length ≤ limit := by
  fun_induction splitChunks limit p with
  | case1 p hc => simp
  | case2 p hc ih =>
    intro q hq
    simp only [List.mem_cons] at hq
    rcases hq with rfl | hq
    · simp [List.length_take]; omega
    · exact ih q hq

/-- a payload limit under which every chunk length fits the 16-bit length field -/
def GoodLimit (l : Nat) : Prop := 34 < l ∧ l ≤ 65535 + 34

theorem payloadLimit_good (k : Kind) : GoodLimit k.payloadLimit := by
  cases k <;> simp [Kind.payloadLimit, Kind.is2022, GoodLimit] <;> decide

/-- `encode_payload` followed by the chunk decoder: the payload comes back, nothing is left,
encoder and decoder authenticators end in the same state -/
theorem payload_roundtrip (C : Crypto) (hC : C.Lawful) (a : Auth) (l : Nat) (hl : GoodLimit l) (p : Bytes) :
    run (chunkUnit C) ⟨a, .length⟩ (encPayload C a l p).1 =
      ⟨⟨(encPayload C a l p).2, .length⟩, [], p, false⟩ := by
  unfold encPayload
  have h := chunks_roundtrip C hC (splitChunks (chunkLimit l) p)
    (fun q hq => by have := splitChunks_le _ p q hq; unfold chunkLimit at this; unfold GoodLimit at hl; omega) a
  rw [h, splitChunks_flatten _ (by unfold chunkLimit; unfold GoodLimit at hl; omega)]

/-- sender limits of the specifications: a legacy chunk carries at most 0x3FFF bytes (SIP004), a
2022 chunk at most 0xFFFF (SIP022) -/
theorem chunk_limit_respected (k : Kind) (p : Bytes) :
    ∀ q ∈ splitChunks (chunkLimit k.payloadLimit) p, q.length ≤ (if k.is2022 then 0xffff else 0x3fff) := by
  intro q hq
  have := splitChunks_le _ p q hq
  have hl : chunkLimit k.payloadLimit ≤ (if k.is2022 then 0xffff else 0x3fff) := by
    cases k <;> simp [Kind.payloadLimit, Kind.is2022, chunkLimit] <;> decide
  omega

end Octo.Ss
