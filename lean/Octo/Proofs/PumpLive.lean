import Octo.Props.C15
/-!
# Helper theory for liveness of the relay pumps (C01 / C15)

The pump model (`Octo.Pump`) is a pair of `forward` futures under `try_join!`.  Its state after a
schedule is completely determined by *how many polls of each direction took effect*: all polls up
to and including the poll at which one of the two futures returns (the *effective* prefix of the
schedule); later polls do nothing.  This file proves that closed form:

* `Dir.poll k d` — `k` polls of one direction; `poll_proj`: from a fresh direction with script `s`
  it has delivered `(itemsBeforeEnd s).take k`, has returned iff `rets s k`, has closed its sink iff
  `closes s k`.
* `effFrom` / `effective` — the prefix of a schedule that takes effect; `run_live` / `run_fresh`:
  the flow after `sched` is `⟨poll (eff.count .up) up, poll (eff.count .down) down, torn⟩`.
* `effFrom_prefix`, `effFrom_live`, `effFrom_full_or_torn` — the specification of `effective`,
  independent of `Flow.step`: it is a prefix of the schedule, after each of its proper prefixes
  neither direction has returned, and either it is the whole schedule or a direction has returned
  at its end.
-/
namespace Octo.Pump

/-! ## one direction -/

/-- an event that ends a direction: `eof` or `fail` -/
def Src.isEnd : Src → Bool
  | .item _ => false
  | _ => true

/-- the script contains an `eof` or a `fail` -/
def hasEnd (s : List Src) : Bool := s.any Src.isEnd

theorem hasEnd_iff (s : List Src) : hasEnd s = true ↔ (Src.eof ∈ s ∨ Src.fail ∈ s) := by
  induction s with
  | nil => simp [hasEnd]
  | cons e r ih =>
    simp only [hasEnd, List.any_cons, Bool.or_eq_true] at ih ⊢
    rw [ih]
    cases e <;> simp [Src.isEnd]

/-- the first `eof`/`fail` of a script -/
def firstEnd : List Src → Option Src
  | [] => none
  | .item _ :: r => firstEnd r
  | e :: _ => some e

theorem firstEnd_shape (its : List Bytes) (e : Src) (he : e.isEnd = true) (r : List Src) :
    firstEnd (its.map Src.item ++ e :: r) = some e := by
  induction its with
  | nil => cases e <;> simp_all [firstEnd, Src.isEnd]
  | cons x its ih => simpa [firstEnd] using ih

theorem itemsBeforeEnd_shape (its : List Bytes) (e : Src) (he : e.isEnd = true) (r : List Src) :
    itemsBeforeEnd (its.map Src.item ++ e :: r) = its := by
  induction its with
  | nil => cases e <;> simp_all [itemsBeforeEnd, Src.isEnd]
  | cons x its ih => simpa [itemsBeforeEnd] using ih

/-- the `forward` future over script `s` has returned after `k` polls: `k` exceeds the number of
items in front of the first `eof`/`fail` -/
def rets : List Src → Nat → Bool
  | [], _ => false
  | _ :: _, 0 => false
  | .item _ :: r, k + 1 => rets r k
  | .eof :: _, _ + 1 => true
  | .fail :: _, _ + 1 => true

/-- the sink has been closed after `k` polls: the future has returned, and through `eof` -/
def closes : List Src → Nat → Bool
  | [], _ => false
  | _ :: _, 0 => false
  | .item _ :: r, k + 1 => closes r k
  | .eof :: _, _ + 1 => true
  | .fail :: _, _ + 1 => false

@[simp] theorem rets_zero (s : List Src) : rets s 0 = false := by cases s <;> simp [rets]
@[simp] theorem closes_zero (s : List Src) : closes s 0 = false := by cases s <;> simp [closes]

theorem rets_mono : ∀ (s : List Src) (k k' : Nat), k ≤ k' → rets s k = true → rets s k' = true := by
  intro s
  induction s with
  | nil => intro k k' _ h; simp [rets] at h
  | cons e r ih =>
    intro k k' hk h
    cases k with
    | zero => simp at h
    | succ k =>
      cases k' with
      | zero => omega
      | succ k' =>
        cases e with
        | item b => simp only [rets] at h ⊢; exact ih k k' (by omega) h
        | eof => simp [rets]
        | fail => simp [rets]

/-- a returned future has handed over everything in front of the end -/
theorem rets_len : ∀ (s : List Src) (k : Nat), rets s k = true → (itemsBeforeEnd s).length < k := by
  intro s
  induction s with
  | nil => intro k h; simp [rets] at h
  | cons e r ih =>
    intro k h
    cases k with
    | zero => simp at h
    | succ k =>
      cases e with
      | item b => simp only [rets] at h; have := ih k h; simp only [itemsBeforeEnd, List.length_cons]; omega
      | eof => simp [itemsBeforeEnd]
      | fail => simp [itemsBeforeEnd]

/-- conversely: one poll more than the number of items in front of the end, and the script has an end -/
theorem rets_iff : ∀ (s : List Src) (k : Nat),
    rets s k = true ↔ (hasEnd s = true ∧ (itemsBeforeEnd s).length < k) := by
  intro s
  induction s with
  | nil => intro k; simp [rets, hasEnd]
  | cons e r ih =>
    intro k
    cases k with
    | zero => simp
    | succ k =>
      cases e with
      | item b =>
        simp only [rets, itemsBeforeEnd, List.length_cons, Nat.add_lt_add_iff_right]
        rw [ih k]; simp [hasEnd, Src.isEnd]
      | eof => simp [rets, hasEnd, Src.isEnd, itemsBeforeEnd]
      | fail => simp [rets, hasEnd, Src.isEnd, itemsBeforeEnd]

theorem rets_hasEnd (s : List Src) (k : Nat) (h : rets s k = true) : hasEnd s = true := ((rets_iff s k).mp h).1

theorem itemsBeforeEnd_length_lt : ∀ (s : List Src), hasEnd s = true → (itemsBeforeEnd s).length < s.length := by
  intro s
  induction s with
  | nil => intro h; simp [hasEnd] at h
  | cons e r ih =>
    intro h
    cases e with
    | item b =>
      have : hasEnd r = true := by simpa [hasEnd, Src.isEnd] using h
      have := ih this
      simp only [itemsBeforeEnd, List.length_cons]; omega
    | eof => simp [itemsBeforeEnd]
    | fail => simp [itemsBeforeEnd]

theorem itemsBeforeEnd_length_le (s : List Src) : (itemsBeforeEnd s).length ≤ s.length := by
  induction s with
  | nil => simp [itemsBeforeEnd]
  | cons e r ih => cases e <;> simp [itemsBeforeEnd]; omega

/-- a script with an end, polled once per event, has returned -/
theorem rets_of_fair (s : List Src) (k : Nat) (he : hasEnd s = true) (hk : s.length ≤ k) : rets s k = true :=
  (rets_iff s k).mpr ⟨he, by have := itemsBeforeEnd_length_lt s he; omega⟩

theorem rets_false_of_noEnd (s : List Src) (k : Nat) (he : hasEnd s = false) : rets s k = false := by
  cases h : rets s k with
  | false => rfl
  | true => rw [rets_hasEnd s k h] at he; cases he

/-- without an end, every item is "before the end" -/
theorem itemsBeforeEnd_of_noEnd : ∀ (s : List Src), hasEnd s = false → itemsBeforeEnd s = items s := by
  intro s
  induction s with
  | nil => intro _; rfl
  | cons e r ih =>
    intro h
    cases e with
    | item b =>
      have : hasEnd r = false := by simpa [hasEnd, Src.isEnd] using h
      simp [itemsBeforeEnd, items, ih this]
    | eof => simp [hasEnd, Src.isEnd] at h
    | fail => simp [hasEnd, Src.isEnd] at h

theorem closes_le_rets : ∀ (s : List Src) (k : Nat), closes s k = true → rets s k = true := by
  intro s
  induction s with
  | nil => intro k h; simp [closes] at h
  | cons e r ih =>
    intro k h
    cases k with
    | zero => simp at h
    | succ k =>
      cases e with
      | item b => simp only [closes] at h; simp only [rets]; exact ih k h
      | eof => simp [rets]
      | fail => simp [closes] at h

theorem closes_false_of_noEnd (s : List Src) (k : Nat) (he : hasEnd s = false) : closes s k = false := by
  cases h : closes s k with
  | false => rfl
  | true => rw [rets_hasEnd s k (closes_le_rets s k h)] at he; cases he

/-- once returned, the sink is closed exactly when the end was an `eof` -/
theorem closes_of_rets : ∀ (s : List Src) (k : Nat), rets s k = true →
    closes s k = (firstEnd s == some Src.eof) := by
  intro s
  induction s with
  | nil => intro k h; simp [rets] at h
  | cons e r ih =>
    intro k h
    cases k with
    | zero => simp at h
    | succ k =>
      cases e with
      | item b => simp only [rets] at h; simp only [closes, firstEnd]; exact ih k h
      | eof => simp [closes, firstEnd]
      | fail => simp [closes, firstEnd]

/-- `k` polls of one direction -/
def Dir.poll : Nat → Dir → Dir
  | 0, d => d
  | k + 1, d => Dir.poll k d.step

theorem Dir.poll_eq_repeat (k : Nat) : ∀ d : Dir, Dir.poll k d = Nat.repeat Dir.step k d := by
  induction k with
  | zero => intro d; rfl
  | succ k ih =>
    intro d
    have hstep : ∀ (m : Nat) (d : Dir), Nat.repeat Dir.step (m + 1) d = Nat.repeat Dir.step m d.step := by
      intro m; induction m with
      | zero => intro d; rfl
      | succ m ihm => intro d; simp only [Nat.repeat] at ihm ⊢; rw [ihm]
    rw [hstep, ← ih]; rfl

theorem Dir.poll_succ (k : Nat) : ∀ d : Dir, Dir.poll (k + 1) d = (Dir.poll k d).step := by
  induction k with
  | zero => intro d; rfl
  | succ k ih => intro d; show Dir.poll (k + 1) d.step = _; rw [ih]; rfl

theorem Dir.poll_returned (k : Nat) : ∀ d : Dir, d.returned = true → Dir.poll k d = d := by
  induction k with
  | zero => intro d _; rfl
  | succ k ih =>
    intro d h
    have : d.step = d := by unfold Dir.step; simp [h]
    show Dir.poll k d.step = d
    rw [this]; exact ih d h

/-- **closed form of one direction**: after `k` polls a fresh direction over script `s` has
delivered the first `k` of the items in front of the end, has returned iff `rets s k`, has closed
its sink iff `closes s k` -/
theorem Dir.poll_proj (k : Nat) : ∀ (s : List Src) (pre : List Bytes),
    (Dir.poll k ⟨s, pre, false, false⟩).delivered = pre ++ (itemsBeforeEnd s).take k ∧
    (Dir.poll k ⟨s, pre, false, false⟩).sinkClosed = closes s k ∧
    (Dir.poll k ⟨s, pre, false, false⟩).returned = rets s k := by
  induction k with
  | zero => intro s pre; simp [Dir.poll]
  | succ k ih =>
    intro s pre
    cases s with
    | nil =>
      have : (Dir.mk [] pre false false).step = ⟨[], pre, false, false⟩ := by simp [Dir.step]
      rw [show Dir.poll (k + 1) (Dir.mk [] pre false false) = Dir.poll k (Dir.mk [] pre false false).step from rfl, this]
      have := ih [] pre
      simpa [itemsBeforeEnd, closes, rets] using this
    | cons e r =>
      cases e with
      | item b =>
        have : (Dir.mk (.item b :: r) pre false false).step = ⟨r, pre ++ [b], false, false⟩ := by simp [Dir.step]
        rw [show Dir.poll (k + 1) (Dir.mk (.item b :: r) pre false false) = Dir.poll k (Dir.mk (.item b :: r) pre false false).step from rfl, this]
        have := ih r (pre ++ [b])
        simpa [itemsBeforeEnd, closes, rets, List.append_assoc] using this
      | eof =>
        have : (Dir.mk (.eof :: r) pre false false).step = ⟨r, pre, true, true⟩ := by simp [Dir.step]
        rw [show Dir.poll (k + 1) (Dir.mk (.eof :: r) pre false false) = Dir.poll k (Dir.mk (.eof :: r) pre false false).step from rfl, this, Dir.poll_returned k _ rfl]
        simp [itemsBeforeEnd, closes, rets]
      | fail =>
        have : (Dir.mk (.fail :: r) pre false false).step = ⟨r, pre, false, true⟩ := by simp [Dir.step]
        rw [show Dir.poll (k + 1) (Dir.mk (.fail :: r) pre false false) = Dir.poll k (Dir.mk (.fail :: r) pre false false).step from rfl, this, Dir.poll_returned k _ rfl]
        simp [itemsBeforeEnd, closes, rets]

/-- a fresh direction over a script -/
def Dir.fresh (s : List Src) : Dir := ⟨s, [], false, false⟩

theorem Dir.poll_delivered (s : List Src) (k : Nat) : (Dir.poll k (Dir.fresh s)).delivered = (itemsBeforeEnd s).take k := by
  simpa [Dir.fresh] using (Dir.poll_proj k s []).1
theorem Dir.poll_sinkClosed (s : List Src) (k : Nat) : (Dir.poll k (Dir.fresh s)).sinkClosed = closes s k :=
  (Dir.poll_proj k s []).2.1
theorem Dir.poll_rets (s : List Src) (k : Nat) : (Dir.poll k (Dir.fresh s)).returned = rets s k :=
  (Dir.poll_proj k s []).2.2

/-! ## the flow: the effective prefix of a schedule -/

/-- a fresh flow over two scripts -/
def Flow.fresh (up down : List Src) : Flow := ⟨Dir.fresh up, Dir.fresh down, false⟩

theorem Flow.fresh_eq (up down : List Src) :
    Flow.fresh up down = Flow.mk ⟨up, [], false, false⟩ ⟨down, [], false, false⟩ false := rfl

/-- the polls of a schedule that take effect when `ku` / `kd` polls of the two directions took
effect before: everything up to and including the poll at which a direction returns -/
def effFrom (up down : List Src) : Nat → Nat → List Pick → List Pick
  | _, _, [] => []
  | ku, kd, .up :: s => if rets up (ku + 1) then [.up] else .up :: effFrom up down (ku + 1) kd s
  | ku, kd, .down :: s => if rets down (kd + 1) then [.down] else .down :: effFrom up down ku (kd + 1) s

/-- the polls of a schedule that take effect on a fresh flow -/
def effective (up down : List Src) (sched : List Pick) : List Pick := effFrom up down 0 0 sched

theorem Flow.run_torn (f : Flow) (h : f.tornDown = true) (s : List Pick) : f.run s = f :=
  (c15_torn_down_is_final f h s).1

theorem Flow.run_cons (f : Flow) (p : Pick) (s : List Pick) : f.run (p :: s) = (f.step p).run s := rfl

theorem Flow.run_append (f : Flow) (s t : List Pick) : f.run (s ++ t) = (f.run s).run t := by
  simp [Flow.run, List.foldl_append]

/-- **closed form of the flow** (from any live state reached by polling) -/
theorem run_live (up down : List Src) : ∀ (sched : List Pick) (ku kd : Nat),
    rets up ku = false → rets down kd = false →
    (Flow.mk (Dir.poll ku (Dir.fresh up)) (Dir.poll kd (Dir.fresh down)) false).run sched =
      ⟨Dir.poll (ku + (effFrom up down ku kd sched).count .up) (Dir.fresh up),
       Dir.poll (kd + (effFrom up down ku kd sched).count .down) (Dir.fresh down),
       rets up (ku + (effFrom up down ku kd sched).count .up) ||
         rets down (kd + (effFrom up down ku kd sched).count .down)⟩ := by
  intro sched
  induction sched with
  | nil => intro ku kd hu hd; simp [effFrom, Flow.run, hu, hd]
  | cons p s ih =>
    intro ku kd hu hd
    rw [Flow.run_cons]
    cases p with
    | up =>
      by_cases hr : rets up (ku + 1) = true
      · have hstep : (Flow.mk (Dir.poll ku (Dir.fresh up)) (Dir.poll kd (Dir.fresh down)) false).step .up =
            ⟨Dir.poll (ku + 1) (Dir.fresh up), Dir.poll kd (Dir.fresh down), true⟩ := by
          simp [Flow.step, ← Dir.poll_succ, Dir.poll_rets, hr]
        rw [hstep, Flow.run_torn _ rfl]
        simp [effFrom, hr]
      · have hr' : rets up (ku + 1) = false := by simpa using hr
        have hstep : (Flow.mk (Dir.poll ku (Dir.fresh up)) (Dir.poll kd (Dir.fresh down)) false).step .up =
            ⟨Dir.poll (ku + 1) (Dir.fresh up), Dir.poll kd (Dir.fresh down), false⟩ := by
          simp [Flow.step, ← Dir.poll_succ, Dir.poll_rets, hr', hd]
        rw [hstep, ih (ku + 1) kd hr' hd]
        simp [effFrom, hr', Nat.add_assoc, Nat.add_comm 1]
    | down =>
      by_cases hr : rets down (kd + 1) = true
      · have hstep : (Flow.mk (Dir.poll ku (Dir.fresh up)) (Dir.poll kd (Dir.fresh down)) false).step .down =
            ⟨Dir.poll ku (Dir.fresh up), Dir.poll (kd + 1) (Dir.fresh down), true⟩ := by
          simp [Flow.step, ← Dir.poll_succ, Dir.poll_rets, hr]
        rw [hstep, Flow.run_torn _ rfl]
        simp [effFrom, hr]
      · have hr' : rets down (kd + 1) = false := by simpa using hr
        have hstep : (Flow.mk (Dir.poll ku (Dir.fresh up)) (Dir.poll kd (Dir.fresh down)) false).step .down =
            ⟨Dir.poll ku (Dir.fresh up), Dir.poll (kd + 1) (Dir.fresh down), false⟩ := by
          simp [Flow.step, ← Dir.poll_succ, Dir.poll_rets, hr', hu]
        rw [hstep, ih ku (kd + 1) hu hr']
        simp [effFrom, hr', Nat.add_assoc, Nat.add_comm 1]

/-- **closed form of the flow**: after any schedule, each direction has been polled exactly as
often as it occurs in the effective prefix, and the flow is torn down iff a direction has returned -/
theorem run_fresh (up down : List Src) (sched : List Pick) :
    (Flow.fresh up down).run sched =
      ⟨Dir.poll ((effective up down sched).count .up) (Dir.fresh up),
       Dir.poll ((effective up down sched).count .down) (Dir.fresh down),
       rets up ((effective up down sched).count .up) || rets down ((effective up down sched).count .down)⟩ := by
  have := run_live up down sched 0 0 (rets_zero _) (rets_zero _)
  simpa [effective, Flow.fresh, Dir.poll] using this

/-! ## specification of the effective prefix, independent of `Flow.step` -/

theorem effFrom_prefix (up down : List Src) : ∀ (s : List Pick) (ku kd : Nat),
    ∃ post, effFrom up down ku kd s ++ post = s := by
  intro s
  induction s with
  | nil => intro ku kd; exact ⟨[], rfl⟩
  | cons p s ih =>
    intro ku kd
    cases p with
    | up =>
      simp only [effFrom]
      split
      · exact ⟨s, rfl⟩
      · obtain ⟨post, h⟩ := ih (ku + 1) kd; exact ⟨post, by simp [h]⟩
    | down =>
      simp only [effFrom]
      split
      · exact ⟨s, rfl⟩
      · obtain ⟨post, h⟩ := ih ku (kd + 1); exact ⟨post, by simp [h]⟩

/-- after every *proper* prefix of the effective prefix, neither direction has returned -/
theorem effFrom_live (up down : List Src) : ∀ (s : List Pick) (ku kd : Nat),
    rets up ku = false → rets down kd = false →
    ∀ q r, q ++ r = effFrom up down ku kd s → r ≠ [] →
      rets up (ku + q.count .up) = false ∧ rets down (kd + q.count .down) = false := by
  intro s
  induction s with
  | nil => intro ku kd _ _ q r h hr; simp [effFrom] at h; exact absurd h.2 hr
  | cons p s ih =>
    intro ku kd hu hd q r h hr
    cases q with
    | nil => simpa using ⟨hu, hd⟩
    | cons p' q =>
      cases p with
      | up =>
        simp only [effFrom] at h
        split at h
        · simp only [List.cons_append, List.cons.injEq, List.append_eq_nil_iff] at h
          exact absurd h.2.2 hr
        · rename_i hr1
          simp only [List.cons_append, List.cons.injEq] at h
          have := ih (ku + 1) kd (by simpa using hr1) hd q r h.2 hr
          rw [h.1]
          simpa [Nat.add_assoc, Nat.add_comm 1] using this
      | down =>
        simp only [effFrom] at h
        split at h
        · simp only [List.cons_append, List.cons.injEq, List.append_eq_nil_iff] at h
          exact absurd h.2.2 hr
        · rename_i hr1
          simp only [List.cons_append, List.cons.injEq] at h
          have := ih ku (kd + 1) hu (by simpa using hr1) q r h.2 hr
          rw [h.1]
          simpa [Nat.add_assoc, Nat.add_comm 1] using this

/-- the effective prefix is the whole schedule unless a direction has returned at its end -/
theorem effFrom_full_or_torn (up down : List Src) : ∀ (s : List Pick) (ku kd : Nat),
    effFrom up down ku kd s = s ∨
      (rets up (ku + (effFrom up down ku kd s).count .up) ||
        rets down (kd + (effFrom up down ku kd s).count .down)) = true := by
  intro s
  induction s with
  | nil => intro ku kd; exact Or.inl rfl
  | cons p s ih =>
    intro ku kd
    cases p with
    | up =>
      simp only [effFrom]
      split
      · rename_i h; right; simp [h]
      · rcases ih (ku + 1) kd with h | h
        · left; rw [h]
        · right; simpa [Nat.add_assoc, Nat.add_comm 1] using h
    | down =>
      simp only [effFrom]
      split
      · rename_i h; right; simp [h]
      · rcases ih ku (kd + 1) with h | h
        · left; rw [h]
        · right; simpa [Nat.add_assoc, Nat.add_comm 1] using h

theorem effective_prefix (up down : List Src) (sched : List Pick) :
    ∃ post, effective up down sched ++ post = sched := effFrom_prefix up down sched 0 0

theorem effective_live (up down : List Src) (sched : List Pick) (q r : List Pick)
    (h : q ++ r = effective up down sched) (hr : r ≠ []) :
    rets up (q.count .up) = false ∧ rets down (q.count .down) = false := by
  simpa using effFrom_live up down sched 0 0 (rets_zero _) (rets_zero _) q r h hr

theorem effective_full_or_torn (up down : List Src) (sched : List Pick) :
    effective up down sched = sched ∨
      (rets up ((effective up down sched).count .up) || rets down ((effective up down sched).count .down)) = true := by
  simpa [effective] using effFrom_full_or_torn up down sched 0 0

/-- the flow is torn down iff a direction has returned at the end of the effective prefix -/
theorem run_tornDown (up down : List Src) (sched : List Pick) :
    ((Flow.fresh up down).run sched).tornDown =
      (rets up ((effective up down sched).count .up) || rets down ((effective up down sched).count .down)) := by
  rw [run_fresh]

/-- the effective prefix of an effective prefix is itself -/
theorem effFrom_idem (up down : List Src) : ∀ (s : List Pick) (ku kd : Nat),
    effFrom up down ku kd (effFrom up down ku kd s) = effFrom up down ku kd s := by
  intro s
  induction s with
  | nil => intro ku kd; rfl
  | cons p s ih =>
    intro ku kd
    cases p with
    | up =>
      by_cases h : rets up (ku + 1) = true
      · simp [effFrom, h]
      · simp only [effFrom, h, Bool.false_eq_true, if_false]; rw [ih]
    | down =>
      by_cases h : rets down (kd + 1) = true
      · simp [effFrom, h]
      · simp only [effFrom, h, Bool.false_eq_true, if_false]; rw [ih]

/-- polls after the effective prefix do nothing -/
theorem run_effective (up down : List Src) (sched : List Pick) :
    (Flow.fresh up down).run (effective up down sched) = (Flow.fresh up down).run sched := by
  rw [run_fresh, run_fresh]
  simp only [effective, effFrom_idem]

theorem count_le_of_append {p : Pick} {a b c : List Pick} (h : a ++ b = c) : a.count p ≤ c.count p := by
  rw [← h, List.count_append]; omega

end Octo.Pump
