import Octo.Gen.NonceGen
import Octo.Proofs.PacketWindowGen
import Octo.Proofs.Nonce
/-!
  The generated code (`Octo.NonceGen`, written by `translate_nonce.py` from `codec/aead.rs`) equals the
  hand-written model `Octo.Nonce` (`incInit`, `incStep`, `counting`).

  Part 1: the `Flow.Post` calculus of `Octo/Proofs/PacketWindowGen.lean`, extended by the rules of the new
          run-time operations (byte arrays, `a[..k]`, `copy_from_slice`, loops with `break`).
  Part 2: `IncreasingNonceGenerator` — `init`, one `generate`, the n-th call.
  Part 3: `CountingNonceGenerator` — `new`, one `generate` (result, buffer, state), panics, the n-th call.
-/
namespace Octo.NonceGen
open Octo Octo.PWGen

/-! ## Part 1 — rules for the additional run-time operations -/
section wp
variable {σ ρ τ : Type}

theorem post_index8 (a : Array UInt8) (i : Usize) (Qn : UInt8 → Prop) (Qr : ρ → Prop) :
    (Flow.index a i : Flow UInt8 ρ).Post Qn Qr ↔ i.toNat < a.size ∧ Qn (a.getD i.toNat 0) := by
  unfold Flow.index
  by_cases h : i.toNat < a.size
  · simp [h, Flow.Post, Array.getD_eq_getD_getElem?]
  · simp [h, Flow.Post]

theorem post_store_g (a : Array τ) (i : Usize) (v : τ) (Qn : Array τ → Prop) (Qr : ρ → Prop) :
    (Flow.store a i v : Flow (Array τ) ρ).Post Qn Qr ↔ i.toNat < a.size ∧ Qn (a.setIfInBounds i.toNat v) := by
  unfold Flow.store
  by_cases h : i.toNat < a.size <;> simp [h, Flow.Post]

theorem post_sliceTo (a : Array τ) (k : Usize) (Qn : Array τ → Prop) (Qr : ρ → Prop) :
    (Flow.sliceTo a k : Flow (Array τ) ρ).Post Qn Qr ↔ k.toNat ≤ a.size ∧ Qn (a.extract 0 k.toNat) := by
  unfold Flow.sliceTo
  by_cases h : k.toNat ≤ a.size <;> simp [h, Flow.Post]

theorem post_copyFromSlice (dst src : Array τ) (Qn : Array τ → Prop) (Qr : ρ → Prop) :
    (Flow.copyFromSlice dst src : Flow (Array τ) ρ).Post Qn Qr ↔ src.size = dst.size ∧ Qn src := by
  unfold Flow.copyFromSlice
  by_cases h : src.size = dst.size <;> simp [h, Flow.Post]

theorem post_unwrap (o : Option τ) (Qn : τ → Prop) (Qr : ρ → Prop) :
    (Flow.unwrap o : Flow τ ρ).Post Qn Qr ↔ ∃ v, o = some v ∧ Qn v := by
  cases o <;> simp [Flow.unwrap, Flow.Post]

/-- postcondition of a loop body that may `break`: `break` must establish the loop's postcondition -/
def LoopExit.Post (Qn : σ → Prop) (Qr : ρ → Prop) : LoopExit σ ρ → Prop
  | .brk s => Qn s
  | .ret r => Qr r

theorem post_brk (s : σ) (Qn : σ → Prop) (Qr : ρ → Prop) : LoopExit.Post Qn Qr (LoopExit.brk s) ↔ Qn s := Iff.rfl
theorem post_lret (r : ρ) (Qn : σ → Prop) (Qr : ρ → Prop) : LoopExit.Post Qn Qr (LoopExit.ret r : LoopExit σ ρ) ↔ Qr r := Iff.rfl

theorem post_catchBreak (x : Flow σ (LoopExit σ ρ)) (Qn : σ → Prop) (Qr : ρ → Prop) :
    (Flow.catchBreak x).Post Qn Qr ↔ x.Post Qn (LoopExit.Post Qn Qr) := by
  cases x with
  | next s => rfl
  | ret e => cases e <;> rfl
  | panic => rfl

/-- loop rule for `for x in lo..hi` with `break`: `I k` holds after `k` full iterations; a `break`
establishes the postcondition directly -/
theorem post_forExclB (lo hi : UInt64) (body : UInt64 → σ → Flow σ (LoopExit σ ρ)) (s : σ)
    (I : Nat → σ → Prop) (Qn : σ → Prop) (Qr : ρ → Prop) (h0 : I 0 s)
    (hstep : ∀ k s, k < hi.toNat - lo.toNat → I k s →
      (body (lo + UInt64.ofNat k) s).Post (I (k + 1)) (LoopExit.Post Qn Qr))
    (hend : ∀ s, I (hi.toNat - lo.toNat) s → Qn s) :
    (Flow.forExclB lo hi body s).Post Qn Qr := by
  unfold Flow.forExclB
  rw [post_catchBreak]
  exact post_forExcl lo hi body s I Qn _ h0 hstep hend

theorem post_forInclB (lo hi : UInt64) (body : UInt64 → σ → Flow σ (LoopExit σ ρ)) (s : σ)
    (I : Nat → σ → Prop) (Qn : σ → Prop) (Qr : ρ → Prop) (h0 : I 0 s)
    (hstep : ∀ k s, k < hi.toNat + 1 - lo.toNat → I k s →
      (body (lo + UInt64.ofNat k) s).Post (I (k + 1)) (LoopExit.Post Qn Qr))
    (hend : ∀ s, I (hi.toNat + 1 - lo.toNat) s → Qn s) :
    (Flow.forInclB lo hi body s).Post Qn Qr := by
  unfold Flow.forInclB
  rw [post_catchBreak]
  exact post_forIncl lo hi body s I Qn _ h0 hstep hend

/-- a function body that panics -/
theorem run_panic (x : Flow Empty ρ) (h : x = Flow.panic) : Flow.run x = PWGen.Res.panic := by
  subst h; rfl

end wp

/-- symbolic execution of a generated `Flow` program against a postcondition -/
macro "wpn_simp" "[" ts:Lean.Parser.Tactic.simpLemma,* "]" : tactic =>
  `(tactic| simp only [ite_next, post_bind, post_ite, post_next, post_ret, post_panic, post_arith, post_check,
      post_index8, post_store_g, post_sliceTo, post_copyFromSlice, post_brk, post_lret,
      decide_eq_true_eq, true_imp_iff, false_imp_iff, not_true_eq_false,
      not_false_eq_true, implies_true, and_true, true_and, and_self, $ts,*])

/-! ## Part 2 — `IncreasingNonceGenerator` -/

theorem u8_overflowing_add (a b : UInt8) : (U8.overflowing_add a b).1 = a + b := rfl
theorem u16_overflowing_add (a b : UInt16) : (U16.overflowing_add a b).1 = a + b := rfl

/-- `init()` never panics and gives the state whose bytes are `Nonce.incInit` -/
theorem increasing_init (ov : Bool) :
    IncreasingNonceGenerator.init ov = PWGen.Res.ok ⟨Nonce.incInit.toArray⟩ := by
  unfold IncreasingNonceGenerator.init Nonce.incInit
  simp only [Flow.run, U8.MAX, List.toArray_replicate]

theorem increasing_init_wf : (⟨Nonce.incInit.toArray⟩ : IncreasingNonceGenerator).WF := by
  show _ = _; rfl

theorem incStep_length (b : Bytes) : (Nonce.incStep b).length = b.length := by
  induction b with
  | nil => rfl
  | cons x r ih => simp only [Nonce.incStep]; split <;> simp [ih]

/-- the carry loop, one position at a time: with the first `k` bytes already done, position `k` either
carries (and the loop goes on) or ends the increment -/
theorem incStep_at (l : Bytes) (k : Nat) (h : k < l.length) :
    l.take k ++ Nonce.incStep (l.drop k) =
      if l[k] + 1 = 0 then (l.set k 0).take (k + 1) ++ Nonce.incStep ((l.set k 0).drop (k + 1))
      else l.set k (l[k] + 1) := by
  induction l generalizing k with
  | nil => simp at h
  | cons x r ih =>
    cases k with
    | zero => simp only [List.take_zero, List.drop_zero, List.nil_append, Nonce.incStep, List.getElem_cons_zero,
        List.set_cons_zero, List.take_succ_cons, List.drop_succ_cons, List.cons_append]
    | succ k =>
      have hk : k < r.length := by simpa using h
      have := ih k hk
      simp only [List.take_succ_cons, List.drop_succ_cons, List.cons_append, List.getElem_cons_succ,
        List.set_cons_succ, this]
      split <;> rfl

theorem loop_index (k : Nat) (hk : k < 2 ^ 64) : ((0 : Usize) + UInt64.ofNat k).toNat = k := by
  rw [UInt64.zero_add, UInt64.toNat_ofNat_of_lt' hk]

theorem increasing_generate_post (ov : Bool) (g : IncreasingNonceGenerator) (h : g.WF) :
    ∃ r, g.generate ov = PWGen.Res.ok r ∧
      (r.1.nonce.toList = Nonce.incStep g.nonce.toList ∧ r.2 = r.1.nonce) := by
  unfold IncreasingNonceGenerator.generate
  apply run_of_post
  have hsz : g.nonce.size = 12 := h
  have hlen : (Slice.len g.nonce).toNat = 12 := by rw [Slice.len, hsz]; rfl
  rw [post_bind]
  apply post_forExclB _ _ _ _ (fun k s => s.nonce.size = 12 ∧
      Nonce.incStep g.nonce.toList = s.nonce.toList.take k ++ Nonce.incStep (s.nonce.toList.drop k))
  · exact ⟨hsz, rfl⟩
  · intro k s hk ⟨hs, hinv⟩
    rw [hlen] at hk
    have hk12 : k < 12 := by simpa using hk
    have hi := loop_index k (by omega)
    obtain ⟨a⟩ := s
    simp only at hs hinv
    wpn_simp [hi, hs, hk12, Array.size_setIfInBounds, u8_overflowing_add]
    have hl : k < a.toList.length := by simpa [hs] using hk12
    have hget : a.getD k 0 = a.toList[k] := by
      simp [Array.getD_eq_getD_getElem?, hs, hk12]
    have hget' : (a.setIfInBounds k (a.toList[k] + 1)).getD k 0 = a.toList[k] + 1 := by
      simp [Array.getD_eq_getD_getElem?, hs, hk12]
    have hat := incStep_at a.toList k hl
    rw [hget, hget', hinv, hat, Array.toList_setIfInBounds]
    by_cases hc : a.toList[k] + 1 = 0
    · simp only [hc, bne_self_eq_false, Bool.false_eq_true, false_imp_iff, not_false_eq_true, true_imp_iff,
        if_true, true_and]
    · simp only [bne_iff_ne, ne_eq, hc, not_false_eq_true, true_imp_iff, not_true_eq_false, false_imp_iff,
        if_false, and_true]
  · intro s ⟨hs, hinv⟩
    rw [hlen] at hinv
    have hl : s.nonce.toList.length = 12 := by simpa using hs
    have e : 12 - UInt64.toNat 0 = s.nonce.toList.length := by rw [hl]; rfl
    rw [e, List.take_length, List.drop_length] at hinv
    wpn_simp []
    simp [hinv, Nonce.incStep]

/-- **one `generate`** of the generated `IncreasingNonceGenerator`, on any state of the Rust type (12 bytes),
in both build profiles: no panic; the returned slice and the new state are both `Nonce.incStep` of the
old bytes. -/
theorem increasing_generate (ov : Bool) (g : IncreasingNonceGenerator) (h : g.WF) :
    g.generate ov = PWGen.Res.ok (⟨(Nonce.incStep g.nonce.toList).toArray⟩, (Nonce.incStep g.nonce.toList).toArray) := by
  obtain ⟨⟨⟨a⟩, r⟩, h1, h2, h3⟩ := increasing_generate_post ov g h
  simp only at h2 h3
  rw [h1, h3, ← h2]

/-- the same, starting from a byte list of length 12 -/
theorem increasing_generate_bytes (ov : Bool) (b : Bytes) (hb : b.length = 12) :
    (⟨b.toArray⟩ : IncreasingNonceGenerator).generate ov
      = PWGen.Res.ok (⟨(Nonce.incStep b).toArray⟩, (Nonce.incStep b).toArray) :=
  increasing_generate ov ⟨b.toArray⟩ (by show b.toArray.size = 12; simpa using hb)

/-- the new state again has the Rust type (so `generate` can be called again) -/
theorem increasing_generate_wf (g : IncreasingNonceGenerator) (h : g.WF) :
    (⟨(Nonce.incStep g.nonce.toList).toArray⟩ : IncreasingNonceGenerator).WF := by
  show (Nonce.incStep g.nonce.toList).toArray.size = 12
  have : g.nonce.size = 12 := h
  simp [incStep_length, this]

/-- call number `n` (0-based) of a generator used `n + 1` times in a row: (state after it, slice it returned);
`panic` as soon as one call panics -/
def increasingCall (ov : Bool) : Nat → IncreasingNonceGenerator → PWGen.Res (IncreasingNonceGenerator × Array UInt8)
  | 0, g => g.generate ov
  | n + 1, g =>
    match g.generate ov with
    | .ok (g', _) => increasingCall ov n g'
    | .panic => .panic

/-- … starting from `IncreasingNonceGenerator::init()` -/
def increasingNth (ov : Bool) (n : Nat) : PWGen.Res (IncreasingNonceGenerator × Array UInt8) :=
  match IncreasingNonceGenerator.init ov with
  | .ok g => increasingCall ov n g
  | .panic => .panic

theorem repeat_comm {α : Type} (f : α → α) (n : Nat) (a : α) : Nat.repeat f n (f a) = f (Nat.repeat f n a) := by
  induction n with
  | zero => rfl
  | succ n ih => simp only [Nat.repeat, ih]

theorem increasingCall_eq (ov : Bool) (n : Nat) : ∀ (g : IncreasingNonceGenerator), g.WF →
    increasingCall ov n g = PWGen.Res.ok (⟨(Nat.repeat Nonce.incStep (n + 1) g.nonce.toList).toArray⟩,
      (Nat.repeat Nonce.incStep (n + 1) g.nonce.toList).toArray) := by
  induction n with
  | zero => intro g h; exact increasing_generate ov g h
  | succ n ih =>
    intro g h
    rw [increasingCall, increasing_generate ov g h]
    simp only
    rw [ih _ (increasing_generate_wf g h)]
    simp only [repeat_comm, Nat.repeat]

/-- **the n-th call** (n = 0, 1, …) after `init()` returns the 12-byte little-endian encoding of `n`
(`Nonce.le 12 n`, i.e. `n mod 2^96`) and leaves exactly these bytes as the state -/
theorem increasingNth_eq (ov : Bool) (n : Nat) :
    increasingNth ov n = PWGen.Res.ok (⟨(Nonce.le 12 n).toArray⟩, (Nonce.le 12 n).toArray) := by
  rw [increasingNth, increasing_init]
  simp only
  rw [increasingCall_eq ov n _ increasing_init_wf]
  simp only [Nonce.nth_nonce]

/-! ## Part 3 — `CountingNonceGenerator` -/

theorem counting_new (ov : Bool) (size : Usize) :
    CountingNonceGenerator.new ov size = PWGen.Res.ok ⟨0, size⟩ := rfl

/-- `count.to_be_bytes()` is `be16 count` -/
theorem to_be_bytes_toList (c : UInt16) : (U16.to_be_bytes c).toList = be16 c.toNat := by
  have := UInt16.toNat_lt c
  simp only [U16.to_be_bytes, be16, u8, List.cons.injEq, and_true]
  constructor
  · apply UInt8.toNat_inj.mp
    simp [UInt16.toNat_shiftRight, Nat.shiftRight_eq_div_pow]
  · apply UInt8.toNat_inj.mp
    simp

/-- the caller's buffer after a `generate` with counter value `c` -/
def countingBuf (c : UInt16) (buf : Array UInt8) : Array UInt8 := U16.to_be_bytes c ++ buf.extract 2 buf.size

theorem countingBuf_toList (c : UInt16) (buf : Array UInt8) :
    (countingBuf c buf).toList = be16 c.toNat ++ buf.toList.drop 2 := by
  simp only [countingBuf, Array.toList_append, to_be_bytes_toList, Array.toList_extract, List.extract_eq_take_drop]
  rw [List.take_of_length_le (by simp)]

theorem countingBuf_size (c : UInt16) (buf : Array UInt8) (h : 2 ≤ buf.size) : (countingBuf c buf).size = buf.size := by
  simp [countingBuf, U16.to_be_bytes]; omega

theorem counting_generate_post (ov : Bool) (g : CountingNonceGenerator) (buf : Array UInt8)
    (h2 : 2 ≤ buf.size) (hn : g.nonce_size.toNat ≤ buf.size) :
    ∃ r, g.generate ov buf = PWGen.Res.ok r ∧
      r = (⟨g.count + 1, g.nonce_size⟩, countingBuf g.count buf, (countingBuf g.count buf).extract 0 g.nonce_size.toNat) := by
  unfold CountingNonceGenerator.generate
  apply run_of_post
  have hs2 : Mem.size_of_u16.toNat = 2 := rfl
  have hsz := countingBuf_size g.count buf h2
  wpn_simp [hs2, h2, u16_overflowing_add]
  have hput : Slice.putTo buf Mem.size_of_u16 (U16.to_be_bytes g.count) = countingBuf g.count buf := rfl
  rw [hput, hsz]
  refine ⟨?_, hn, rfl⟩
  simp [U16.to_be_bytes]; omega

/-- **one `generate`** of the generated `CountingNonceGenerator` on a caller buffer that is long enough
(`2 ≤ buf.len()`, `nonce_size ≤ buf.len()`), in both build profiles: no panic; `count` steps to `count + 1`
in `u16` (i.e. mod 65536), the caller's buffer gets the big-endian count over its first two bytes, and the
returned slice is the first `nonce_size` bytes of that buffer. -/
theorem counting_generate (ov : Bool) (g : CountingNonceGenerator) (buf : Array UInt8)
    (h2 : 2 ≤ buf.size) (hn : g.nonce_size.toNat ≤ buf.size) :
    g.generate ov buf = PWGen.Res.ok (⟨g.count + 1, g.nonce_size⟩, countingBuf g.count buf,
      (countingBuf g.count buf).extract 0 g.nonce_size.toNat) := by
  obtain ⟨r, h1, h3⟩ := counting_generate_post ov g buf h2 hn
  rw [h1, h3]

/-- the returned slice is the hand model's `Nonce.counting` -/
theorem counting_returned (c : UInt16) (buf : Array UInt8) (size : Nat) :
    ((countingBuf c buf).extract 0 size).toList = Nonce.counting buf.toList c.toNat size := by
  have := UInt16.toNat_lt c
  rw [Array.toList_extract, List.extract_eq_take_drop, List.drop_zero, countingBuf_toList, Nonce.counting,
    Nat.mod_eq_of_lt (by omega), Nat.sub_zero]

/-- the counter steps mod 65536 -/
theorem counting_step (c : UInt16) : (c + 1).toNat = (c.toNat + 1) % 65536 := by
  rw [UInt16.toNat_add]; rfl

/-- `nonce[..2]` panics on a buffer shorter than two bytes -/
theorem counting_generate_short_buffer (ov : Bool) (g : CountingNonceGenerator) (buf : Array UInt8)
    (h : buf.size < 2) : g.generate ov buf = PWGen.Res.panic := by
  unfold CountingNonceGenerator.generate
  apply run_panic
  have : ¬ Mem.size_of_u16.toNat ≤ buf.size := by
    have hs2 : Mem.size_of_u16.toNat = 2 := rfl
    omega
  simp only [Flow.sliceTo, this, if_false, Flow.bind]

/-- `&nonce[..self.nonce_size]` panics when `nonce_size` exceeds the buffer (after the first two bytes
and the counter have already been written — but a panic gives the caller nothing back) -/
theorem counting_generate_size_too_large (ov : Bool) (g : CountingNonceGenerator) (buf : Array UInt8)
    (h2 : 2 ≤ buf.size) (hn : buf.size < g.nonce_size.toNat) : g.generate ov buf = PWGen.Res.panic := by
  unfold CountingNonceGenerator.generate
  apply run_panic
  have hs2 : Mem.size_of_u16.toNat = 2 := rfl
  have h1 : Mem.size_of_u16.toNat ≤ buf.size := by omega
  have h3 : (U16.to_be_bytes g.count).size = (buf.extract 0 Mem.size_of_u16.toNat).size := by
    simp [U16.to_be_bytes, hs2]; omega
  have hput : Slice.putTo buf Mem.size_of_u16 (U16.to_be_bytes g.count) = countingBuf g.count buf := rfl
  have h4 : ¬ g.nonce_size.toNat ≤ (countingBuf g.count buf).size := by
    rw [countingBuf_size _ _ h2]; omega
  simp only [Flow.sliceTo, h1, if_true, Flow.bind, Flow.copyFromSlice, h3, hput, h4, if_false]

/-- call number `n` (0-based) of a generator used `n + 1` times in a row on the same caller buffer:
(state after it, buffer after it, slice it returned) -/
def countingCall (ov : Bool) : Nat → CountingNonceGenerator → Array UInt8 →
    PWGen.Res (CountingNonceGenerator × Array UInt8 × Array UInt8)
  | 0, g, buf => g.generate ov buf
  | n + 1, g, buf =>
    match g.generate ov buf with
    | .ok (g', buf', _) => countingCall ov n g' buf'
    | .panic => .panic

/-- … starting from `CountingNonceGenerator::new(size)` -/
def countingNth (ov : Bool) (size : Usize) (iv : Array UInt8) (n : Nat) :
    PWGen.Res (CountingNonceGenerator × Array UInt8 × Array UInt8) :=
  match CountingNonceGenerator.new ov size with
  | .ok g => countingCall ov n g iv
  | .panic => .panic

theorem countingBuf_again (c d : UInt16) (buf : Array UInt8) :
    countingBuf d (countingBuf c buf) = countingBuf d buf := by
  apply Array.toList_inj.mp
  rw [countingBuf_toList, countingBuf_toList, countingBuf_toList]
  simp [be16]

theorem countingCall_eq (ov : Bool) (n : Nat) : ∀ (g : CountingNonceGenerator) (buf : Array UInt8),
    2 ≤ buf.size → g.nonce_size.toNat ≤ buf.size →
    countingCall ov n g buf = PWGen.Res.ok (⟨g.count + UInt16.ofNat n + 1, g.nonce_size⟩,
      countingBuf (g.count + UInt16.ofNat n) buf,
      (countingBuf (g.count + UInt16.ofNat n) buf).extract 0 g.nonce_size.toNat) := by
  induction n with
  | zero =>
    intro g buf h2 hn
    have : g.count + UInt16.ofNat 0 = g.count := by simp
    rw [this]
    exact counting_generate ov g buf h2 hn
  | succ n ih =>
    intro g buf h2 hn
    rw [countingCall, counting_generate ov g buf h2 hn]
    simp only
    rw [ih _ _ (by rw [countingBuf_size _ _ h2]; exact h2) (by rw [countingBuf_size _ _ h2]; exact hn)]
    have e : g.count + 1 + UInt16.ofNat n = g.count + UInt16.ofNat (n + 1) := by
      apply UInt16.toNat_inj.mp
      simp [UInt16.toNat_add, UInt16.toNat_ofNat']
      omega
    simp only [e, countingBuf_again]

/-- **the n-th call** (n = 0, 1, …) after `new(size)`, all on the caller's buffer `iv` (`2 ≤ iv.len()`,
`size ≤ iv.len()`): no call panics; call `n` returns `Nonce.counting iv n size` — the count handed out is
`n mod 65536` — and leaves `count = (n + 1) mod 65536`. -/
theorem countingNth_eq (ov : Bool) (size : Usize) (iv : Array UInt8) (n : Nat)
    (h2 : 2 ≤ iv.size) (hn : size.toNat ≤ iv.size) :
    ∃ g buf r, countingNth ov size iv n = PWGen.Res.ok (g, buf, r) ∧
      r.toList = Nonce.counting iv.toList n size.toNat ∧
      buf.toList = be16 (n % 65536) ++ iv.toList.drop 2 ∧
      g.count.toNat = (n + 1) % 65536 ∧ g.nonce_size = size := by
  rw [countingNth, counting_new]
  simp only
  rw [countingCall_eq ov n _ _ h2 hn]
  refine ⟨_, _, _, rfl, ?_, ?_, ?_, rfl⟩
  · rw [counting_returned]
    simp only [UInt16.zero_add, UInt16.toNat_ofNat']
    rw [Nonce.counting, Nonce.counting]; simp
  · rw [countingBuf_toList]; simp
  · simp [UInt16.toNat_add]
end Octo.NonceGen
