import Octo.Gen.Socks5Gen
import Octo.Proofs.AddrGen
import Octo.Model.Socks5
import Octo.Model.Handshake
/-!
  The generated code (`Octo.Socks5Gen`, written by `translate_socks5.py` from `protocol/socks5.rs`,
  `protocol/socks5/message.rs`, `protocol/socks5/codec.rs`) equals the hand-written model `Octo.Socks5`
  (`Octo/Model/Socks5.lean`), and the handshake rebuilt from the generated decoders equals `Hs.socks5Handshake`.

  Part 1: the byte ↔ enum conversions (`new` / `try_from` of the four field-less enums), in closed form.
  Part 2: evaluation rules for the support added by the translator (`Flow.call`, `Flow.forEach`, loops).
  Part 3: the message encoders and `Socks5UdpCodec::encode` = the model's byte strings.
  Part 4: the four message decoders and `Socks5UdpCodec::decode`: the exact result on every buffer (`*_eval`, including the
          cursor after an `Err`), hence = the model (`*_decode_eq`), for both overflow profiles.
  Part 5: `socks5HandshakeGen` = `Hs.socks5Handshake`.

  The one hypothesis, `b.length < 2 ^ 64`, is the fact about Rust buffers that a Lean list does not carry (`len()` is a
  `usize`); `Cursor.len` is `UInt64.ofNat b.length` and wraps without it.
-/
set_option linter.unusedSimpArgs false
namespace Octo.Socks5Gen
open Octo Octo.PWGen Octo.AddrGen

/-! ## Part 1 — the byte ↔ enum conversions -/

def authOfByte (v : UInt8) : RResult Socks5AuthMethod :=
  if v = 0 then .ok .NoAuth else if v = 1 then .ok .Gssapi else if v = 2 then .ok .Password
  else if v = 255 then .ok .Unaccepted else .err

def cmdOfByte (v : UInt8) : RResult Socks5CommandType :=
  if v = 1 then .ok .Connect else if v = 2 then .ok .Bind else if v = 3 then .ok .UdpAssociate else .err

def statusOfByte (v : UInt8) : RResult Socks5CommandStatus :=
  if v = 0 then .ok .Success else if v = 1 then .ok .Failure else .err

def atypOfByte (v : UInt8) : RResult Socks5AddressType :=
  if v = 1 then .ok .Ipv4 else if v = 3 then .ok .Domain else if v = 4 then .ok .Ipv6 else .err

theorem auth_new_eval (ov : Bool) (v : UInt8) : Socks5AuthMethod.new ov v = PWGen.Res.ok (authOfByte v) := by
  simp only [Socks5AuthMethod.new, Socks5AuthMethod.as_u8, authOfByte, run_ite, run_ret, beq_iff_eq, @eq_comm UInt8 _ v]
  repeat' split
  all_goals first | rfl | (exfalso; simp_all)

theorem cmd_new_eval (ov : Bool) (v : UInt8) : Socks5CommandType.new ov v = PWGen.Res.ok (cmdOfByte v) := by
  simp only [Socks5CommandType.new, Socks5CommandType.as_u8, cmdOfByte, run_ite, run_ret, beq_iff_eq, @eq_comm UInt8 _ v]
  repeat' split
  all_goals first | rfl | (exfalso; simp_all)

theorem status_try_from_eval (ov : Bool) (v : UInt8) : Socks5CommandStatus.try_from ov v = PWGen.Res.ok (statusOfByte v) := by
  simp only [Socks5CommandStatus.try_from, Socks5CommandStatus.as_u8, statusOfByte, run_ite, run_ret, beq_iff_eq, @eq_comm UInt8 _ v]
  repeat' split
  all_goals first | rfl | (exfalso; simp_all)

theorem atyp_try_from_eval (ov : Bool) (v : UInt8) : Socks5AddressType.try_from ov v = PWGen.Res.ok (atypOfByte v) := by
  simp only [Socks5AddressType.try_from, Socks5AddressType.as_u8, atypOfByte, run_ite, run_ret, beq_iff_eq, @eq_comm UInt8 _ v]
  repeat' split
  all_goals first | rfl | (exfalso; simp_all)


/-- a byte `Socks5AuthMethod::new` accepts is exactly one the model accepts, and the enum's discriminant is that byte -/
theorem authOfByte_ok (v : UInt8) (m : Socks5AuthMethod) (h : authOfByte v = .ok m) : m.as_u8 = v ∧ Socks5.authMethodOk v = true := by
  unfold authOfByte at h
  repeat' split at h
  all_goals first | (cases h; subst_vars; exact ⟨rfl, by decide⟩) | cases h

theorem authOfByte_err (v : UInt8) (h : authOfByte v = .err) : Socks5.authMethodOk v = false := by
  unfold authOfByte at h
  repeat' split at h
  all_goals first | cases h | skip
  simp [Socks5.authMethodOk, *]

theorem authOfByte_as_u8 (m : Socks5AuthMethod) : authOfByte m.as_u8 = .ok m := by cases m <;> rfl

/-- the method of an accepted byte (any method for the others: never used) -/
def authOf (v : UInt8) : Socks5AuthMethod := match authOfByte v with | .ok m => m | .err => .NoAuth

theorem authOf_as_u8 (v : UInt8) (h : Socks5.authMethodOk v = true) : (authOf v).as_u8 = v := by
  unfold authOf
  cases hv : authOfByte v with
  | ok m => exact (authOfByte_ok v m hv).1
  | err => rw [authOfByte_err v hv] at h; cases h

theorem authOfByte_of_ok (v : UInt8) (h : Socks5.authMethodOk v = true) : authOfByte v = .ok (authOf v) := by
  unfold authOf
  cases hv : authOfByte v with
  | ok m => rfl
  | err => rw [authOfByte_err v hv] at h; cases h

theorem cmdOfByte_ok (v : UInt8) (c : Socks5CommandType) (h : cmdOfByte v = .ok c) : c.as_u8 = v ∧ (v = 1 ∨ v = 2 ∨ v = 3) := by
  unfold cmdOfByte at h
  repeat' split at h
  all_goals first | (cases h; subst_vars; exact ⟨rfl, by decide⟩) | cases h

theorem cmdOfByte_err (v : UInt8) (h : cmdOfByte v = .err) : v ≠ 1 ∧ v ≠ 2 ∧ v ≠ 3 := by
  unfold cmdOfByte at h
  repeat' split at h
  all_goals first | cases h | skip
  simp [*]

theorem statusOfByte_ok (v : UInt8) (c : Socks5CommandStatus) (h : statusOfByte v = .ok c) : c.as_u8 = v ∧ (v = 0 ∨ v = 1) := by
  unfold statusOfByte at h
  repeat' split at h
  all_goals first | (cases h; subst_vars; exact ⟨rfl, by decide⟩) | cases h

theorem statusOfByte_err (v : UInt8) (h : statusOfByte v = .err) : v ≠ 0 ∧ v ≠ 1 := by
  unfold statusOfByte at h
  repeat' split at h
  all_goals first | cases h | skip
  simp [*]

/-- the address-type enum translated from `socks5.rs` is the one `translate_addr.py` has built in -/
def atypToAddrGen : Socks5AddressType → AddrGen.Socks5AddressType
  | .Ipv4 => .Ipv4
  | .Domain => .Domain
  | .Ipv6 => .Ipv6

theorem atyp_as_u8_agrees (t : Socks5AddressType) : (atypToAddrGen t).as_u8 = t.as_u8 := by cases t <;> rfl

theorem atyp_try_from_agrees (ov : Bool) (v : UInt8) :
    Socks5AddressType.try_from ov v = PWGen.Res.ok (match AddrGen.Socks5AddressType.try_from v with
      | .ok t => (match t with | .Ipv4 => .ok .Ipv4 | .Domain => .ok .Domain | .Ipv6 => .ok .Ipv6)
      | .err => .err) := by
  rw [atyp_try_from_eval]
  by_cases h1 : v = 1
  · subst h1; rfl
  by_cases h3 : v = 3
  · subst h3; rfl
  by_cases h4 : v = 4
  · subst h4; rfl
  rw [try_from_other v h1 h3 h4]
  simp [atypOfByte, h1, h3, h4]

/-! ## Part 2 — evaluation rules for the added support -/
section eval
variable {α β ρ σ τ : Type}
theorem call_ok (v : τ) : (Flow.call (PWGen.Res.ok v) : Flow τ ρ) = Flow.next v := rfl
theorem call_panic : (Flow.call (PWGen.Res.panic : PWGen.Res τ) : Flow τ ρ) = Flow.panic := rfl
theorem forEach_nil (body : τ → σ → Flow σ ρ) (s : σ) : Flow.forEach [] body s = Flow.next s := rfl
theorem forEach_cons (x : τ) (r : List τ) (body : τ → σ → Flow σ ρ) (s : σ) :
    Flow.forEach (x :: r) body s = (body x s).bind (Flow.forEach r body) := rfl
theorem iter_zero (body : UInt64 → σ → Flow σ ρ) (lo : UInt64) (s : σ) : Flow.iter body lo 0 s = Flow.next s := rfl
theorem iter_succ (body : UInt64 → σ → Flow σ ρ) (lo : UInt64) (n : Nat) (s : σ) :
    Flow.iter body lo (n + 1) s = (Flow.iter body lo n s).bind (body (lo + UInt64.ofNat n)) := rfl
end eval

theorem len_lt (b : List UInt8) (h : b.length < 2 ^ 64) (k : UInt64) : Cursor.len b < k ↔ b.length < k.toNat := by
  rw [UInt64.lt_iff_toNat_lt, Cursor.len, UInt64.toNat_ofNat_of_lt' (show _ < 18446744073709551616 by omega)]

/-- a loop that appends one byte per element -/
theorem forEach_put {τ ρ : Type} (f : τ → UInt8) (body : τ → Cursor → Flow Cursor ρ)
    (hbody : ∀ x dst, body x dst = Flow.next (dst ++ [f x])) (l : List τ) (dst : Cursor) :
    Flow.forEach l body dst = Flow.next (dst ++ l.map f) := by
  induction l generalizing dst with
  | nil => simp [forEach_nil]
  | cons x r ih => rw [forEach_cons, hbody, bind_next, ih]; simp

/-! ## Part 3 — the encoders -/

theorem initial_request_encode_eq (ov : Bool) (r : Socks5InitialRequest) (dst : List UInt8) :
    Socks5InitialRequest.encode ov r dst =
      PWGen.Res.ok (dst ++ Socks5.encodeInitialRequest (r.auth_methods.map Socks5AuthMethod.as_u8), ()) := by
  simp only [Socks5InitialRequest.encode]
  rw [forEach_put Socks5AuthMethod.as_u8]
  · simp only [bind_next, run_ret, Cursor.put_u8, VERSION, Vec.len, usize_as_u8, Socks5.encodeInitialRequest, List.length_map,
      List.append_assoc, List.cons_append, List.nil_append]
  · intro x dst; rfl

theorem initial_response_encode_eq (ov : Bool) (r : Socks5InitialResponse) (dst : List UInt8) :
    Socks5InitialResponse.encode ov r dst = PWGen.Res.ok (dst ++ Socks5.encodeInitialResponse r.auth_method.as_u8, ()) := by
  simp only [Socks5InitialResponse.encode, run_ret, Cursor.put_u8, VERSION, Socks5.encodeInitialResponse,
    List.append_assoc, List.cons_append, List.nil_append]

theorem u8_toNat_self (x : UInt8) : u8 x.toNat = x := by
  apply UInt8.toNat_inj.mp
  have := x.toNat_lt
  rw [u8, UInt8.toNat_ofNat']; omega

theorem command_request_encode_eq (ov : Bool) (r : Socks5CommandRequest) (dst : List UInt8) :
    Socks5CommandRequest.encode ov r dst =
      PWGen.Res.ok (dst ++ Socks5.encodeCommandRequest r.command_type.as_u8.toNat (toAddr r.dst_addr), ()) := by
  simp only [Socks5CommandRequest.encode, encode_eq, call_ok, bind_next, run_ret, Cursor.put_u8, VERSION, Socks5.encodeCommandRequest,
    u8_toNat_self, List.append_assoc, List.cons_append, List.nil_append]

theorem command_response_encode_eq (ov : Bool) (r : Socks5CommandResponse) (dst : List UInt8) :
    Socks5CommandResponse.encode ov r dst =
      PWGen.Res.ok (dst ++ Socks5.encodeCommandResponse r.command_status.as_u8.toNat (toAddr r.bnd_addr), ()) := by
  simp only [Socks5CommandResponse.encode, encode_eq, call_ok, bind_next, run_ret, Cursor.put_u8, VERSION, Socks5.encodeCommandResponse,
    u8_toNat_self, List.append_assoc, List.cons_append, List.nil_append]

theorem udp_encode_eq (ov : Bool) (payload : List UInt8) (a : Address) (dst : List UInt8) :
    Socks5UdpCodec.encode ov (payload, a) dst = PWGen.Res.ok (dst ++ Socks5.udpEncode payload (toAddr a), RResult.ok ()) := by
  simp only [Socks5UdpCodec.encode, encode_eq, call_ok, bind_next, run_ret, Cursor.extend_from_slice, Socks5.udpEncode,
    List.append_assoc, List.cons_append, List.nil_append]


/-! ## Part 4 — the decoders -/

theorem two_toNat : (2 : UInt64).toNat = 2 := rfl
theorem five_toNat : (5 : UInt64).toNat = 5 := rfl
theorem three_toNat : (3 : UInt64).toNat = 3 := rfl

/-! ### `Socks5InitialResponseDecoder` -/

/-- the exact result on every buffer, including where the cursor stands after an `Err` -/
theorem initial_response_decode_eval (ov : Bool) (b : List UInt8) (h : b.length < 2 ^ 64) :
    Socks5InitialResponseDecoder.decode ov b =
      if b.length < 2 then PWGen.Res.ok (b, RResult.ok none)
      else if b.getD 0 0 ≠ 5 then PWGen.Res.ok (b.drop 1, RResult.err)
      else match authOfByte (b.getD 1 0) with
        | .ok m => PWGen.Res.ok (b.drop 2, RResult.ok (some ⟨m⟩))
        | .err => PWGen.Res.ok (b.drop 2, RResult.err) := by
  match b, h with
  | [], h => simp [Socks5InitialResponseDecoder.decode, len_lt _ h, two_toNat, bind_ret, run_ret]
  | [x], h => simp [Socks5InitialResponseDecoder.decode, len_lt _ h, two_toNat, bind_ret, run_ret]
  | x :: y :: r, h =>
    have hl : ¬ (x :: y :: r).length < 2 := by simp
    simp only [Socks5InitialResponseDecoder.decode, len_lt _ h, two_toNat, hl, decide_false, if_false, bind_next, get_u8_cons,
      auth_new_eval, call_ok, Bool.false_eq_true, List.getD_cons_zero, List.getD_cons_succ, List.drop_succ_cons, List.drop_zero, VERSION,
      bne_iff_ne, ne_eq]
    by_cases hv : x = 5
    · subst hv
      simp only [not_true_eq_false, if_false, bind_next]
      cases authOfByte y with
      | ok m => simp only [question_ok, bind_next, Socks5InitialResponse.new, run_ret, call_ok]
      | err => simp only [question_err, bind_ret, run_ret]
    · have hv' : ¬ (5 : UInt8) = x := fun e => hv e.symm
      simp only [hv, hv', not_false_eq_true, if_true, bind_ret, run_ret]


/-! ### `Socks5InitialRequestDecoder` -/

/-- bytes consumed when the methods loop stops at the first byte that is not a method (that byte included) -/
def badPos : List UInt8 → Nat
  | [] => 0
  | x :: r => if Socks5.authMethodOk x then badPos r + 1 else 1

theorem badPos_append_bad (l m : List UInt8) (h : l.all Socks5.authMethodOk = false) : badPos (l ++ m) = badPos l := by
  induction l with
  | nil => simp at h
  | cons x r ih =>
    by_cases hx : Socks5.authMethodOk x = true
    · simp only [List.all_cons, hx, Bool.true_and] at h
      simp [badPos, hx, ih h]
    · simp [badPos, hx]

theorem badPos_append_ok (l m : List UInt8) (h : l.all Socks5.authMethodOk = true) : badPos (l ++ m) = l.length + badPos m := by
  induction l with
  | nil => simp
  | cons x r ih =>
    simp only [List.all_cons, Bool.and_eq_true] at h
    simp [badPos, h.1, ih h.2]; omega

/-- the methods loop of the generated decoder: `n` rounds over a cursor holding at least `n` bytes, for any loop body that
behaves like the generated one (`hbody`) -/
theorem iter_methods {ρ' : Type} (E : Cursor → ρ')
    (body : UInt64 → Cursor × List Socks5AuthMethod → Flow (Cursor × List Socks5AuthMethod) ρ') (lo : UInt64)
    (hbody : ∀ i x r acc, body i (x :: r, acc) =
      match authOfByte x with | .ok m => Flow.next (r, acc ++ [m]) | .err => Flow.ret (E r))
    (n : Nat) (src : Cursor) (acc : List Socks5AuthMethod) (hn : n ≤ src.length) :
    Flow.iter body lo n (src, acc) =
      if (src.take n).all Socks5.authMethodOk = true then Flow.next (src.drop n, acc ++ (src.take n).map authOf)
      else Flow.ret (E (src.drop (badPos (src.take n)))) := by
  induction n with
  | zero => simp [iter_zero]
  | succ n ih =>
    have hlt : n < src.length := by omega
    rw [iter_succ, ih (by omega)]
    have htake : src.take (n + 1) = src.take n ++ [src[n]] := by
      rw [List.take_add_one, List.getElem?_eq_getElem hlt]; rfl
    have hdrop : src.drop n = src[n] :: src.drop (n + 1) := List.drop_eq_getElem_cons hlt
    by_cases hall : (src.take n).all Socks5.authMethodOk = true
    · rw [if_pos hall, bind_next, hdrop, hbody, htake]
      by_cases hx : Socks5.authMethodOk src[n] = true
      · rw [authOfByte_of_ok _ hx]
        simp only [List.all_append, List.all_cons, List.all_nil, hall, hx, Bool.and_true, if_true, List.map_append, List.map_cons,
          List.map_nil, List.append_assoc]
      · have hx' : Socks5.authMethodOk src[n] = false := by simpa using hx
        have he : authOfByte src[n] = .err := by
          cases hv : authOfByte src[n] with
          | ok m => rw [(authOfByte_ok _ m hv).2] at hx'; cases hx'
          | err => rfl
        rw [he]
        have hl : (src.take n).length = n := by rw [List.length_take]; omega
        simp only [List.all_append, List.all_cons, List.all_nil, hall, hx', Bool.and_false, Bool.false_eq_true, if_false,
          badPos_append_ok _ _ hall, badPos, hl, Bool.and_true]
    · have hall' : (src.take n).all Socks5.authMethodOk = false := by simpa using hall
      rw [if_neg hall, bind_ret, htake]
      simp only [List.all_append, hall', Bool.false_and, Bool.false_eq_true, if_false, badPos_append_bad _ _ hall']


theorem byteAt_one_cons {ρ : Type} (x y : UInt8) (r : List UInt8) : (Flow.byteAt (x :: y :: r) 1 : Flow _ ρ) = .next y := rfl
theorem byteAt_two_cons {ρ : Type} (x y z : UInt8) (r : List UInt8) : (Flow.byteAt (x :: y :: z :: r) 2 : Flow _ ρ) = .next z := rfl

theorem two_plus_toNat (n : UInt8) : ((2 : Usize) + U8.as_usize n).toNat = 2 + n.toNat := by
  have := n.toNat_lt
  rw [UInt64.toNat_add, u8_as_usize_toNat]; show (2 + n.toNat) % 2 ^ 64 = _; omega

theorem two_plus_ok (n : UInt8) : U64.addOk (2 : Usize) (U8.as_usize n) = true := by
  have := n.toNat_lt
  simp [U64.addOk, u8_as_usize_toNat]; omega

theorem vec_with_capacity_u8 {τ ρ : Type} (n : UInt8) :
    (Flow.vec_with_capacity 1 (U8.as_usize n) : Flow (List τ) ρ) = Flow.next [] := by
  have := n.toNat_lt
  have : (U8.as_usize n).toNat * 1 < 2 ^ 63 := by rw [u8_as_usize_toNat]; omega
  rw [Flow.vec_with_capacity, if_pos this]

/-- the exact result on every buffer, including where the cursor stands after an `Err` -/
theorem initial_request_decode_eval (ov : Bool) (b : List UInt8) (h : b.length < 2 ^ 64) :
    Socks5InitialRequestDecoder.decode ov b =
      if b.length < 2 ∨ b.length < 2 + (b.getD 1 0).toNat then PWGen.Res.ok (b, RResult.ok none)
      else if b.getD 0 0 ≠ 5 then PWGen.Res.ok (b.drop 1, RResult.err)
      else
        if ((b.drop 2).take (b.getD 1 0).toNat).all Socks5.authMethodOk = true then
          PWGen.Res.ok (b.drop (2 + (b.getD 1 0).toNat), RResult.ok (some ⟨((b.drop 2).take (b.getD 1 0).toNat).map authOf⟩))
        else PWGen.Res.ok (b.drop (2 + badPos ((b.drop 2).take (b.getD 1 0).toNat)), RResult.err) := by
  match b, h with
  | [], h => simp [Socks5InitialRequestDecoder.decode, len_lt _ h, two_toNat, bind_ret, run_ret, bind_next]
  | [x], h => simp [Socks5InitialRequestDecoder.decode, len_lt _ h, two_toNat, bind_ret, run_ret, bind_next]
  | x :: n :: r, h =>
    have hl : ¬ (x :: n :: r).length < 2 := by simp
    simp only [Socks5InitialRequestDecoder.decode, len_lt _ h, two_toNat, hl, decide_false, if_false, bind_next, byteAt_one_cons,
      two_plus_ok, arith_true, two_plus_toNat, Bool.false_eq_true, false_or, List.getD_cons_zero, List.getD_cons_succ,
      List.drop_succ_cons, List.drop_zero]
    by_cases hm : (x :: n :: r).length < 2 + n.toNat
    · simp only [hm, decide_true, if_true, bind_ret, run_ret]
    · simp only [hm, decide_false, if_false, Bool.false_eq_true, bind_next, get_u8_cons, VERSION, bne_iff_ne, ne_eq]
      by_cases hv : x = 5
      · subst hv
        simp only [not_true_eq_false, if_false, bind_next, vec_with_capacity_u8]
        have hcnt : (U8.as_usize n).toNat - (0 : UInt64).toNat = n.toNat := by rw [u8_as_usize_toNat]; rfl
        have hn : n.toNat ≤ r.length := by simp only [List.length_cons] at hm; omega
        rw [Flow.forExcl, hcnt, iter_methods (fun c => (c, RResult.err)) _ _ _ _ _ _ hn]
        · by_cases hall : (List.take n.toNat r).all Socks5.authMethodOk = true
          · simp only [hall, if_true, bind_next, Socks5InitialRequest.new, run_ret, call_ok, List.nil_append]
            rw [show 2 + n.toNat = n.toNat + 1 + 1 by omega]; rfl
          · simp only [hall, if_false, Bool.false_eq_true, bind_ret, run_ret]
            rw [show 2 + badPos (List.take n.toNat r) = badPos (List.take n.toNat r) + 1 + 1 by omega]; rfl
        · intro i x r acc
          simp only [get_u8_cons, bind_next, auth_new_eval, call_ok, Vec.push]
          cases authOfByte x with
          | ok m => simp only [question_ok, bind_next]
          | err => simp only [question_err, bind_ret]
      · have hv' : ¬ (5 : UInt8) = x := fun e => hv e.symm
        simp only [hv, hv', not_false_eq_true, if_true, bind_ret, run_ret]


/-! ### `Socks5CommandRequestDecoder` / `Socks5CommandResponseDecoder` -/

theorem shape3 (b : List UInt8) (h : 3 ≤ b.length) : ∃ x0 x1 x2 r, b = x0 :: x1 :: x2 :: r := by
  match b, h with
  | [], h => simp at h
  | [_], h => simp at h
  | [_, _], h => simp at h
  | x0 :: x1 :: x2 :: r, _ => exact ⟨x0, x1, x2, r, rfl⟩

theorem tryDecodeAt_le (b : List UInt8) (i v : Nat) (h : Socks5Addr.tryDecodeAt b i = .ok v) : v ≤ 259 := by
  unfold Socks5Addr.tryDecodeAt at h
  split at h
  · cases h
  · split at h
    · cases h; omega
    · split at h
      · split at h
        · cases h
        · rename_i l _; cases h; have := l.toNat_lt; omega
      · split at h
        · cases h; omega
        · cases h

theorem try_decode_at_le (ov : Bool) (b : List UInt8) (i al : Usize) (h : b.length < 2 ^ 64)
    (ht : AddrGen.try_decode_at ov b i = PWGen.Res.ok (RResult.ok al)) : al.toNat ≤ 259 := by
  have := try_decode_at_eq ov b i h
  rw [ht] at this
  exact tryDecodeAt_le b i.toNat al.toNat this.symm

theorem three_plus_toNat (al : Usize) (h : al.toNat ≤ 259) : ((3 : Usize) + al).toNat = 3 + al.toNat := by
  rw [UInt64.toNat_add]; show (3 + al.toNat) % 2 ^ 64 = _; omega

theorem three_plus_ok (al : Usize) (h : al.toNat ≤ 259) : U64.addOk (3 : Usize) al = true := by
  simp [U64.addOk]; omega

theorem advance_one_cons {ρ : Type} (x : UInt8) (r : List UInt8) : (Flow.advance (x :: r) 1 : Flow _ ρ) = .next r := by
  simp [Flow.advance]

/-- the exact result on every buffer, in terms of the two functions generated from `address.rs` -/
theorem command_request_decode_eval (ov : Bool) (b : List UInt8) (h : b.length < 2 ^ 64) :
    Socks5CommandRequestDecoder.decode ov b =
      if b.length < 5 then PWGen.Res.ok (b, RResult.ok none) else
      match AddrGen.try_decode_at ov b 3 with
      | .panic => PWGen.Res.panic
      | .ok .err => PWGen.Res.ok (b, RResult.err)
      | .ok (.ok al) =>
        if b.length < 3 + al.toNat then PWGen.Res.ok (b, RResult.ok none) else
        if b.getD 0 0 ≠ 5 then PWGen.Res.ok (b.drop 1, RResult.err) else
        match cmdOfByte (b.getD 1 0) with
        | .err => PWGen.Res.ok (b.drop 2, RResult.err)
        | .ok ct =>
          match AddrGen.decode ov (b.drop 3) with
          | .panic => PWGen.Res.panic
          | .ok (rest, .err) => PWGen.Res.ok (rest, RResult.err)
          | .ok (rest, .ok a) => PWGen.Res.ok (rest, RResult.ok (some ⟨ct, a⟩)) := by
  by_cases hl : b.length < 5
  · simp only [Socks5CommandRequestDecoder.decode, len_lt b h, five_toNat, hl, decide_true, if_true, bind_next, bind_ret, run_ret]
  · simp only [Socks5CommandRequestDecoder.decode, len_lt b h, five_toNat, hl, decide_false, if_false, Bool.false_eq_true]
    cases ht : AddrGen.try_decode_at ov b 3 with
    | panic => simp only [call_panic, bind_panic, run_panic']
    | ok res =>
      cases res with
      | err => simp only [call_ok, bind_next, question_err, bind_ret, run_ret]
      | ok al =>
        have hal := try_decode_at_le ov b 3 al h ht
        simp only [call_ok, bind_next, question_ok, three_plus_ok al hal, arith_true, three_plus_toNat al hal]
        by_cases hm : b.length < 3 + al.toNat
        · simp only [hm, decide_true, if_true, bind_ret, run_ret]
        · obtain ⟨x0, x1, x2, r, rfl⟩ := shape3 b (by omega)
          simp only [hm, decide_false, if_false, Bool.false_eq_true, bind_next, get_u8_cons, VERSION, bne_iff_ne, ne_eq,
            List.getD_cons_zero, List.getD_cons_succ, List.drop_succ_cons, List.drop_zero, cmd_new_eval, call_ok]
          by_cases hv : x0 = 5
          · subst hv
            simp only [not_true_eq_false, if_false, bind_next]
            cases cmdOfByte x1 with
            | err => simp only [question_err, bind_ret, run_ret]
            | ok ct =>
              simp only [question_ok, bind_next, advance_one_cons]
              cases hd : AddrGen.decode ov r with
              | panic => simp only [call_panic, bind_panic, run_panic']
              | ok res =>
                obtain ⟨rest, ra⟩ := res
                cases ra with
                | err => simp only [call_ok, bind_next, question_err, bind_ret, run_ret]
                | ok a => simp only [call_ok, bind_next, question_ok, Socks5CommandRequest.new, run_ret]
          · have hv' : ¬ (5 : UInt8) = x0 := fun e => hv e.symm
            simp only [hv, hv', not_false_eq_true, if_true, bind_ret, run_ret]

theorem command_response_decode_eval (ov : Bool) (b : List UInt8) (h : b.length < 2 ^ 64) :
    Socks5CommandResponseDecoder.decode ov b =
      if b.length < 5 then PWGen.Res.ok (b, RResult.ok none) else
      match AddrGen.try_decode_at ov b 3 with
      | .panic => PWGen.Res.panic
      | .ok .err => PWGen.Res.ok (b, RResult.err)
      | .ok (.ok al) =>
        if b.length < 3 + al.toNat then PWGen.Res.ok (b, RResult.ok none) else
        if b.getD 0 0 ≠ 5 then PWGen.Res.ok (b.drop 1, RResult.err) else
        match statusOfByte (b.getD 1 0) with
        | .err => PWGen.Res.ok (b.drop 2, RResult.err)
        | .ok st =>
          match AddrGen.decode ov (b.drop 3) with
          | .panic => PWGen.Res.panic
          | .ok (rest, .err) => PWGen.Res.ok (rest, RResult.err)
          | .ok (rest, .ok a) => PWGen.Res.ok (rest, RResult.ok (some ⟨st, a⟩)) := by
  by_cases hl : b.length < 5
  · simp only [Socks5CommandResponseDecoder.decode, len_lt b h, five_toNat, hl, decide_true, if_true, bind_next, bind_ret, run_ret]
  · simp only [Socks5CommandResponseDecoder.decode, len_lt b h, five_toNat, hl, decide_false, if_false, Bool.false_eq_true]
    cases ht : AddrGen.try_decode_at ov b 3 with
    | panic => simp only [call_panic, bind_panic, run_panic']
    | ok res =>
      cases res with
      | err => simp only [call_ok, bind_next, question_err, bind_ret, run_ret]
      | ok al =>
        have hal := try_decode_at_le ov b 3 al h ht
        simp only [call_ok, bind_next, question_ok, three_plus_ok al hal, arith_true, three_plus_toNat al hal]
        by_cases hm : b.length < 3 + al.toNat
        · simp only [hm, decide_true, if_true, bind_ret, run_ret]
        · obtain ⟨x0, x1, x2, r, rfl⟩ := shape3 b (by omega)
          simp only [hm, decide_false, if_false, Bool.false_eq_true, bind_next, get_u8_cons, VERSION, bne_iff_ne, ne_eq,
            List.getD_cons_zero, List.getD_cons_succ, List.drop_succ_cons, List.drop_zero, status_try_from_eval, call_ok]
          by_cases hv : x0 = 5
          · subst hv
            simp only [not_true_eq_false, if_false, bind_next]
            cases statusOfByte x1 with
            | err => simp only [question_err, bind_ret, run_ret]
            | ok ct =>
              simp only [question_ok, bind_next, advance_one_cons]
              cases hd : AddrGen.decode ov r with
              | panic => simp only [call_panic, bind_panic, run_panic']
              | ok res =>
                obtain ⟨rest, ra⟩ := res
                cases ra with
                | err => simp only [call_ok, bind_next, question_err, bind_ret, run_ret]
                | ok a => simp only [call_ok, bind_next, question_ok, Socks5CommandResponse.new, run_ret]
          · have hv' : ¬ (5 : UInt8) = x0 := fun e => hv e.symm
            simp only [hv, hv', not_false_eq_true, if_true, bind_ret, run_ret]

/-! ### `Socks5UdpCodec::decode` -/

theorem split_off_zero {ρ : Type} (b : List UInt8) : (Flow.split_off b 0 : Flow _ ρ) = .next ([], b) := by
  simp [Flow.split_off]

theorem advance_three_cons {ρ : Type} (x y z : UInt8) (r : List UInt8) : (Flow.advance (x :: y :: z :: r) 3 : Flow _ ρ) = .next r := by
  simp [Flow.advance]

/-- the exact result on every datagram: the buffer handed in is always left empty (nothing of a refused datagram stays) -/
theorem udp_decode_eval (ov : Bool) (b : List UInt8) (h : b.length < 2 ^ 64) :
    Socks5UdpCodec.decode ov b =
      if b.isEmpty then PWGen.Res.ok (b, RResult.ok none) else
      if b.length < 5 then PWGen.Res.ok ([], RResult.err) else
      if b.getD 2 0 ≠ 0 then PWGen.Res.ok ([], RResult.err) else
      match AddrGen.decode ov (b.drop 3) with
      | .panic => PWGen.Res.panic
      | .ok (_, .err) => PWGen.Res.ok ([], RResult.err)
      | .ok (rest, .ok a) => PWGen.Res.ok ([], RResult.ok (some (rest, a))) := by
  by_cases he : b.isEmpty = true
  · simp only [Socks5UdpCodec.decode, Cursor.is_empty, he, if_true, bind_ret, run_ret]
  · simp only [Socks5UdpCodec.decode, Cursor.is_empty, he, if_false, Bool.false_eq_true, bind_next, split_off_zero, remaining_lt b h, five_toNat]
    by_cases hl : b.length < 5
    · simp only [hl, decide_true, if_true, bind_ret, run_ret]
    · obtain ⟨x0, x1, x2, r, rfl⟩ := shape3 b (by omega)
      simp only [hl, decide_false, if_false, Bool.false_eq_true, bind_next, byteAt_two_cons, bne_iff_ne, ne_eq,
        List.getD_cons_zero, List.getD_cons_succ, List.drop_succ_cons, List.drop_zero]
      by_cases hf : x2 = 0
      · subst hf
        simp only [not_true_eq_false, if_false, bind_next, advance_three_cons]
        cases hd : AddrGen.decode ov r with
        | panic => simp only [call_panic, bind_panic, run_panic']
        | ok res =>
          obtain ⟨rest, ra⟩ := res
          cases ra with
          | err => simp only [call_ok, bind_next, question_err, bind_ret, run_ret]
          | ok a => simp only [call_ok, bind_next, question_ok, run_ret]
      · simp only [hf, not_false_eq_true, if_true, bind_ret, run_ret]


/-! ### the model's reading of the results, and the equivalences -/

theorem map_as_u8_authOf (l : List UInt8) (h : l.all Socks5.authMethodOk = true) :
    (l.map authOf).map Socks5AuthMethod.as_u8 = l := by
  induction l with
  | nil => rfl
  | cons x r ih =>
    simp only [List.all_cons, Bool.and_eq_true] at h
    simp only [List.map_cons, authOf_as_u8 x h.1, ih h.2]

theorem u8_toNat_eq (v w : UInt8) : v.toNat = w.toNat ↔ v = w := UInt8.toNat_inj

/-- the model's reading of a result of the generated `Socks5InitialRequestDecoder::decode`: the methods as bytes -/
def embedInitialRequest : PWGen.Res (Cursor × RResult (Option Socks5InitialRequest)) → Octo.Res (Bytes × Bytes)
  | .ok (rest, .ok (some r)) => .ok (r.auth_methods.map Socks5AuthMethod.as_u8, rest)
  | .ok (_, .ok none) => .more
  | .ok (_, .err) => .err
  | .panic => .panic

/-- **`Socks5InitialRequestDecoder::decode`** = the model's `decodeInitialRequest`, in both profiles, on every buffer content:
same outcome class (item / `Ok(None)` / `Err` / no panic), same methods, same unread rest -/
theorem initial_request_decode_eq (ov : Bool) (b : List UInt8) (h : b.length < 2 ^ 64) :
    embedInitialRequest (Socks5InitialRequestDecoder.decode ov b) = Socks5.decodeInitialRequest b := by
  rw [initial_request_decode_eval ov b h]
  unfold Socks5.decodeInitialRequest
  by_cases c1 : b.length < 2 ∨ b.length < 2 + (b.getD 1 0).toNat
  · simp only [c1, if_true]; rfl
  · simp only [c1, if_false]
    by_cases c2 : b.getD 0 0 ≠ 5
    · simp only [if_pos c2]; rfl
    · simp only [if_neg c2]
      by_cases hall : ((b.drop 2).take (b.getD 1 0).toNat).all Socks5.authMethodOk = true
      · simp only [hall, if_true, embedInitialRequest, map_as_u8_authOf _ hall]
      · simp only [hall, if_false, Bool.false_eq_true, embedInitialRequest]

/-- the model's reading of a result of the generated `Socks5InitialResponseDecoder::decode` -/
def embedInitialResponse : PWGen.Res (Cursor × RResult (Option Socks5InitialResponse)) → Octo.Res (UInt8 × Bytes)
  | .ok (rest, .ok (some r)) => .ok (r.auth_method.as_u8, rest)
  | .ok (_, .ok none) => .more
  | .ok (_, .err) => .err
  | .panic => .panic

/-- **`Socks5InitialResponseDecoder::decode`** = the model's `decodeInitialResponse` -/
theorem initial_response_decode_eq (ov : Bool) (b : List UInt8) (h : b.length < 2 ^ 64) :
    embedInitialResponse (Socks5InitialResponseDecoder.decode ov b) = Socks5.decodeInitialResponse b := by
  rw [initial_response_decode_eval ov b h]
  unfold Socks5.decodeInitialResponse
  by_cases c1 : b.length < 2
  · simp only [c1, if_true]; rfl
  · simp only [c1, if_false]
    by_cases c2 : b.getD 0 0 ≠ 5
    · simp only [if_pos c2]; rfl
    · simp only [if_neg c2]
      cases hv : authOfByte (b.getD 1 0) with
      | ok m =>
        obtain ⟨e1, e2⟩ := authOfByte_ok _ m hv
        simp only [e2, if_true, embedInitialResponse, e1]
      | err => simp only [authOfByte_err _ hv, Bool.false_eq_true, if_false, embedInitialResponse]

/-- the model's reading of a result of the generated `Socks5CommandRequestDecoder::decode`: command byte, address, rest -/
def embedCommandRequest : PWGen.Res (Cursor × RResult (Option Socks5CommandRequest)) → Octo.Res (Nat × Addr × Bytes)
  | .ok (rest, .ok (some r)) => .ok (r.command_type.as_u8.toNat, toAddr r.dst_addr, rest)
  | .ok (_, .ok none) => .more
  | .ok (_, .err) => .err
  | .panic => .panic

theorem drop_length_lt (b : List UInt8) (n : Nat) (h : b.length < 2 ^ 64) : (b.drop n).length < 2 ^ 64 := by
  rw [List.length_drop]; omega

/-- **`Socks5CommandRequestDecoder::decode`** = the model's `decodeCommandRequest`, in both profiles, on every buffer content:
same outcome class — including that neither ever panics —, same command, same address, same unread rest -/
theorem command_request_decode_eq (ov : Bool) (b : List UInt8) (h : b.length < 2 ^ 64) :
    embedCommandRequest (Socks5CommandRequestDecoder.decode ov b) = Socks5.decodeCommandRequest b := by
  rw [command_request_decode_eval ov b h]
  unfold Socks5.decodeCommandRequest
  by_cases hl : b.length < 5
  · simp only [hl, if_true]; rfl
  · simp only [hl, if_false]
    have ht := try_decode_at_eq ov b 3 h
    rw [three_toNat] at ht
    rw [← ht]
    cases AddrGen.try_decode_at ov b 3 with
    | panic => rfl
    | ok res =>
      cases res with
      | err => rfl
      | ok al =>
        simp only [embedTry]
        by_cases hm : b.length < 3 + al.toNat
        · simp only [hm, if_true]; rfl
        · simp only [hm, if_false]
          by_cases c2 : b.getD 0 0 ≠ 5
          · simp only [if_pos c2]; rfl
          · simp only [if_neg c2]
            cases hc : cmdOfByte (b.getD 1 0) with
            | err =>
              obtain ⟨n1, n2, n3⟩ := cmdOfByte_err _ hc
              have m1 : (b.getD 1 0).toNat ≠ 1 := fun e => n1 ((u8_toNat_eq _ 1).mp e)
              have m2 : (b.getD 1 0).toNat ≠ 2 := fun e => n2 ((u8_toNat_eq _ 2).mp e)
              have m3 : (b.getD 1 0).toNat ≠ 3 := fun e => n3 ((u8_toNat_eq _ 3).mp e)
              simp only [m1, m2, m3, ne_eq, not_false_eq_true, and_self, if_true, embedCommandRequest]
            | ok ct =>
              obtain ⟨e1, e2⟩ := cmdOfByte_ok _ ct hc
              have m : ¬ ((b.getD 1 0).toNat ≠ 1 ∧ (b.getD 1 0).toNat ≠ 2 ∧ (b.getD 1 0).toNat ≠ 3) := by
                rcases e2 with e | e | e <;> rw [e] <;> decide
              simp only [m, if_false]
              rw [← decode_eq ov (b.drop 3) (drop_length_lt b 3 h)]
              cases AddrGen.decode ov (b.drop 3) with
              | panic => rfl
              | ok res =>
                obtain ⟨rest, ra⟩ := res
                cases ra with
                | err => rfl
                | ok a => simp only [embedDecode, embedCommandRequest, e1]

/-- the model's reading of a result of the generated `Socks5CommandResponseDecoder::decode`: status byte, address, rest -/
def embedCommandResponse : PWGen.Res (Cursor × RResult (Option Socks5CommandResponse)) → Octo.Res (Nat × Addr × Bytes)
  | .ok (rest, .ok (some r)) => .ok (r.command_status.as_u8.toNat, toAddr r.bnd_addr, rest)
  | .ok (_, .ok none) => .more
  | .ok (_, .err) => .err
  | .panic => .panic

/-- **`Socks5CommandResponseDecoder::decode`** = the model's `decodeCommandResponse` -/
theorem command_response_decode_eq (ov : Bool) (b : List UInt8) (h : b.length < 2 ^ 64) :
    embedCommandResponse (Socks5CommandResponseDecoder.decode ov b) = Socks5.decodeCommandResponse b := by
  rw [command_response_decode_eval ov b h]
  unfold Socks5.decodeCommandResponse
  by_cases hl : b.length < 5
  · simp only [hl, if_true]; rfl
  · simp only [hl, if_false]
    have ht := try_decode_at_eq ov b 3 h
    rw [three_toNat] at ht
    rw [← ht]
    cases AddrGen.try_decode_at ov b 3 with
    | panic => rfl
    | ok res =>
      cases res with
      | err => rfl
      | ok al =>
        simp only [embedTry]
        by_cases hm : b.length < 3 + al.toNat
        · simp only [hm, if_true]; rfl
        · simp only [hm, if_false]
          by_cases c2 : b.getD 0 0 ≠ 5
          · simp only [if_pos c2]; rfl
          · simp only [if_neg c2]
            cases hc : statusOfByte (b.getD 1 0) with
            | err =>
              obtain ⟨n0, n1⟩ := statusOfByte_err _ hc
              have m0 : (b.getD 1 0).toNat ≠ 0 := fun e => n0 ((u8_toNat_eq _ 0).mp e)
              have m1 : (b.getD 1 0).toNat ≠ 1 := fun e => n1 ((u8_toNat_eq _ 1).mp e)
              simp only [m0, m1, ne_eq, not_false_eq_true, and_self, if_true, embedCommandResponse]
            | ok st =>
              obtain ⟨e1, e2⟩ := statusOfByte_ok _ st hc
              have m : ¬ ((b.getD 1 0).toNat ≠ 0 ∧ (b.getD 1 0).toNat ≠ 1) := by
                rcases e2 with e | e <;> rw [e] <;> decide
              simp only [m, if_false]
              rw [← decode_eq ov (b.drop 3) (drop_length_lt b 3 h)]
              cases AddrGen.decode ov (b.drop 3) with
              | panic => rfl
              | ok res =>
                obtain ⟨rest, ra⟩ := res
                cases ra with
                | err => rfl
                | ok a => simp only [embedDecode, embedCommandResponse, e1]

/-- the model's reading of a result of the generated `Socks5UdpCodec::decode`: the `Call` record (buffer left behind, item) -/
def embedUdp : PWGen.Res (Cursor × RResult (Option (Cursor × Address))) → Call Unit
  | .ok (buf, .ok (some (p, a))) => ⟨(), buf, .ok ⟨.udp, p, some (toAddr a)⟩⟩
  | .ok (buf, .ok none) => ⟨(), buf, .more⟩
  | .ok (buf, .err) => ⟨(), buf, .err⟩
  | .panic => ⟨(), [], .panic⟩

/-- **`Socks5UdpCodec::decode`** = the model's `udpDecode`: same outcome, same payload and address, and the same (empty)
buffer left behind -/
theorem udp_decode_eq (ov : Bool) (b : List UInt8) (h : b.length < 2 ^ 64) :
    embedUdp (Socks5UdpCodec.decode ov b) = Socks5.udpDecode b := by
  rw [udp_decode_eval ov b h]
  unfold Socks5.udpDecode
  by_cases he : b.isEmpty = true
  · have : b = [] := List.isEmpty_iff.mp he
    subst this; rfl
  · simp only [he, if_false, Bool.false_eq_true]
    by_cases hl : b.length < 5
    · simp only [hl, if_true]; rfl
    · simp only [hl, if_false]
      by_cases hf : b.getD 2 0 ≠ 0
      · simp only [if_pos hf]; rfl
      · simp only [if_neg hf]
        rw [← decode_eq ov (b.drop 3) (drop_length_lt b 3 h)]
        cases AddrGen.decode ov (b.drop 3) with
        | panic => rfl
        | ok res =>
          obtain ⟨rest, ra⟩ := res
          cases ra with
          | err => rfl
          | ok a => rfl

/-! ### `Ok(None)` leaves the buffer as it was (what `FramedRead` relies on when it calls `decode` again on the grown buffer) -/

theorem initial_request_more_untouched (ov : Bool) (b b' : List UInt8) (h : b.length < 2 ^ 64)
    (hd : Socks5InitialRequestDecoder.decode ov b = PWGen.Res.ok (b', RResult.ok none)) : b' = b := by
  rw [initial_request_decode_eval ov b h] at hd
  repeat' split at hd
  all_goals first | (cases hd; rfl) | cases hd

theorem initial_response_more_untouched (ov : Bool) (b b' : List UInt8) (h : b.length < 2 ^ 64)
    (hd : Socks5InitialResponseDecoder.decode ov b = PWGen.Res.ok (b', RResult.ok none)) : b' = b := by
  rw [initial_response_decode_eval ov b h] at hd
  repeat' split at hd
  all_goals first | (cases hd; rfl) | cases hd

theorem command_request_more_untouched (ov : Bool) (b b' : List UInt8) (h : b.length < 2 ^ 64)
    (hd : Socks5CommandRequestDecoder.decode ov b = PWGen.Res.ok (b', RResult.ok none)) : b' = b := by
  rw [command_request_decode_eval ov b h] at hd
  repeat' split at hd
  all_goals first | (cases hd; rfl) | cases hd

theorem command_response_more_untouched (ov : Bool) (b b' : List UInt8) (h : b.length < 2 ^ 64)
    (hd : Socks5CommandResponseDecoder.decode ov b = PWGen.Res.ok (b', RResult.ok none)) : b' = b := by
  rw [command_response_decode_eval ov b h] at hd
  repeat' split at hd
  all_goals first | (cases hd; rfl) | cases hd


/-! ### what a decoded item says about the buffer (read off the `*_eval` forms) -/

theorem command_request_decode_ok_inv (ov : Bool) (b rest : List UInt8) (req : Socks5CommandRequest) (h : b.length < 2 ^ 64)
    (hd : Socks5CommandRequestDecoder.decode ov b = PWGen.Res.ok (rest, RResult.ok (some req))) :
    AddrGen.decode ov (b.drop 3) = PWGen.Res.ok (rest, RResult.ok req.dst_addr) ∧
      cmdOfByte (b.getD 1 0) = RResult.ok req.command_type := by
  rw [command_request_decode_eval ov b h] at hd
  repeat' split at hd
  all_goals first | (cases hd; exact ⟨by assumption, by assumption⟩) | cases hd

theorem command_response_decode_ok_inv (ov : Bool) (b rest : List UInt8) (rsp : Socks5CommandResponse) (h : b.length < 2 ^ 64)
    (hd : Socks5CommandResponseDecoder.decode ov b = PWGen.Res.ok (rest, RResult.ok (some rsp))) :
    AddrGen.decode ov (b.drop 3) = PWGen.Res.ok (rest, RResult.ok rsp.bnd_addr) ∧
      statusOfByte (b.getD 1 0) = RResult.ok rsp.command_status := by
  rw [command_response_decode_eval ov b h] at hd
  repeat' split at hd
  all_goals first | (cases hd; exact ⟨by assumption, by assumption⟩) | cases hd

/-- the buffer handed to `Socks5UdpCodec::decode` is left empty whenever the call returns at all -/
theorem udp_decode_leaves_empty (ov : Bool) (b buf : List UInt8) (r : RResult (Option (Cursor × Address))) (h : b.length < 2 ^ 64)
    (hd : Socks5UdpCodec.decode ov b = PWGen.Res.ok (buf, r)) : buf = [] := by
  rw [udp_decode_eval ov b h] at hd
  repeat' split at hd
  all_goals first | (cases hd; first | rfl | (rename_i he; exact List.isEmpty_iff.mp he)) | cases hd

/-! ## Part 5 — the handshake rebuilt from the generated decoders and encoders -/

/-- the bytes an encoder call appended to an empty buffer -/
def outBytes : PWGen.Res (Cursor × Unit) → Bytes
  | .ok (b, _) => b
  | .panic => []

/-- `Hs.socks5Handshake` (`Octo/Model/Handshake.lean`: the decision of `socks5::handshake::server::no_auth` as a function of the
bytes of the two client messages received so far) with every decoder and encoder of the model replaced by the generated one:
the same composition, over `Socks5InitialRequestDecoder::decode`, `Socks5CommandRequestDecoder::decode`,
`Socks5InitialResponse::encode`, `Socks5CommandResponse::encode`.  `bound` is the Rust value handed to `no_auth`. -/
def socks5HandshakeGen (ov : Bool) (greeting request : Bytes) (bound : Address) : Hs.Outcome :=
  match Socks5InitialRequestDecoder.decode ov greeting with
  | .ok (_, .ok none) => .wait
  | .ok (_, .ok (some _)) =>
    (match Socks5CommandRequestDecoder.decode ov request with
     | .ok (_, .ok none) => .wait
     | .ok (rest, .ok (some req)) =>
       let reply := outBytes (Socks5InitialResponse.encode ov ⟨.NoAuth⟩ []) ++
         outBytes (Socks5CommandResponse.encode ov ⟨.Success, bound⟩ [])
       if req.command_type ≠ .Connect then .refused reply else      -- only CONNECT opens a tunnel
       (match toAddr req.dst_addr with
        | .domain h p =>
          (match Hs.admitHost h p with
           | some a => .tunnel a (greeting.length + request.length - rest.length) reply
           | none => .refused reply)
        | a => .tunnel a (greeting.length + request.length - rest.length) reply)
     | _ => .refused (outBytes (Socks5InitialResponse.encode ov ⟨.NoAuth⟩ [])))
  | _ => .refused []

theorem outBytes_initial_response (ov : Bool) :
    outBytes (Socks5InitialResponse.encode ov ⟨.NoAuth⟩ []) = Socks5.encodeInitialResponse 0 := by
  rw [initial_response_encode_eq]; rfl

theorem outBytes_command_response (ov : Bool) (bound : Address) :
    outBytes (Socks5CommandResponse.encode ov ⟨.Success, bound⟩ []) = Socks5.encodeCommandResponse 0 (toAddr bound) := by
  rw [command_response_encode_eq]; rfl

/-- **the handshake over the generated code is the model's handshake**, for all greeting and request bytes, both profiles -/
theorem socks5HandshakeGen_eq (ov : Bool) (greeting request : Bytes) (bound : Address)
    (hg : greeting.length < 2 ^ 64) (hr : request.length < 2 ^ 64) :
    socks5HandshakeGen ov greeting request bound = Hs.socks5Handshake greeting request (toAddr bound) := by
  unfold socks5HandshakeGen Hs.socks5Handshake
  rw [← initial_request_decode_eq ov greeting hg, ← command_request_decode_eq ov request hr,
    outBytes_initial_response, outBytes_command_response]
  cases Socks5InitialRequestDecoder.decode ov greeting with
  | panic => rfl
  | ok x =>
    obtain ⟨rest0, res0⟩ := x
    cases res0 with
    | err => rfl
    | ok o =>
      cases o with
      | none => rfl
      | some req0 =>
        simp only [embedInitialRequest]
        cases Socks5CommandRequestDecoder.decode ov request with
        | panic => rfl
        | ok y =>
          obtain ⟨rest, res⟩ := y
          cases res with
          | err => rfl
          | ok o2 =>
            cases o2 with
            | none => rfl
            | some req =>
              obtain ⟨ct, da⟩ := req
              simp only [embedCommandRequest]
              cases ct with
              | Connect =>
                have e : (Socks5CommandType.Connect.as_u8.toNat ≠ 1) = False := by simp [Socks5CommandType.as_u8]
                simp only [ne_eq, not_true_eq_false, if_false, e]
                cases toAddr da <;> rfl
              | Bind =>
                have e : (Socks5CommandType.Bind.as_u8.toNat ≠ 1) = True := by simp [Socks5CommandType.as_u8]
                simp only [ne_eq, reduceCtorEq, not_false_eq_true, if_true, e]
              | UdpAssociate =>
                have e : (Socks5CommandType.UdpAssociate.as_u8.toNat ≠ 1) = True := by simp [Socks5CommandType.as_u8]
                simp only [ne_eq, reduceCtorEq, not_false_eq_true, if_true, e]

end Octo.Socks5Gen
