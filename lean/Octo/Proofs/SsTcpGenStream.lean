import Octo.Proofs.SsTcpGenEih
import Octo.Proofs.SsStream
import Octo.Proofs.SsCall
/-!
  `Octo.SsTcpGen` (generated from `codec/shadowsocks/tcp.rs`) against the hand model — EVERY `decode` call:
  later calls (`Some(decoder)`: one `decode_payload` of the chunk layer), the legacy first call (salt split off, `new_decoder`,
  `decode` again on the rest), the 2022 first calls of Parts 2-4, under one statement (`AgreeAny`); then the generated decoder
  under the `FramedRead` loop model (`frFeed`) in lock step with the model's `clientCall`.
-/
set_option linter.unusedSimpArgs false
set_option linter.unusedVariables false
namespace Octo.SsTcpGen
open Octo Octo.PWGen Octo.AddrGen

/-! ### the chunk decoder state survives the `usize` representation -/

def Bnd (cd : Ss.ChunkDec) : Prop := ∀ n, cd.st = .payload n → n < 2 ^ 64

theorem toCD_bnd (g : ChunkDecoder MT) : Bnd (toCD g) := by
  intro n h
  cases hs : g.state with
  | Length => simp [toCD, toState, hs] at h
  | Payload m => simp only [toCD, toState, hs, Ss.ChunkSt.payload.injEq] at h; rw [← h]; exact m.toNat_lt

theorem toCD_ofCD (cd : Ss.ChunkDec) (h : Bnd cd) : toCD (ofCD cd) = cd := by
  obtain ⟨a, st⟩ := cd
  cases st with
  | length => rfl
  | payload n =>
    have := h n rfl
    simp only [toCD, ofCD, ofState, toState]
    rw [UInt64.toNat_ofNat_of_lt' (by simpa [UInt64.size] using this)]

theorem chunkUnit_take_bnd (C : Crypto) (hO : ∀ a key n ad c p, C.openB a key n ad c = some p → c.length = p.length + 16)
    (d d' : Ss.ChunkDec) (b : Bytes) (n : Nat) (o : Bytes) (h : Ss.chunkUnit C d b = .take d' n o) : Bnd d' := by
  unfold Ss.chunkUnit at h
  cases hs : d.st with
  | length =>
    simp only [hs] at h
    split at h
    · cases h
    · rename_i hlen
      split at h
      · cases h
      · rename_i l a hop
        cases h
        intro m hm
        simp only [Ss.ChunkSt.payload.injEq] at hm
        have h18 : (b.take 18).length = 18 := by rw [List.length_take]; omega
        have := hO _ _ _ _ _ _ (congrArg Prod.fst hop)
        have hl : l.length = 2 := by omega
        have : rdBE l < 256 ^ l.length := beNat_lt l
        rw [hl] at this
        omega
  | payload k =>
    simp only [hs] at h
    split at h
    · cases h
    · split at h
      · cases h
      · cases h; intro m hm; cases hm

theorem chunkUnit_fail_bnd (C : Crypto) (d d' : Ss.ChunkDec) (b : Bytes) (n : Nat) (hd : Bnd d)
    (h : Ss.chunkUnit C d b = .fail d' n) : Bnd d' := by
  unfold Ss.chunkUnit at h
  cases hs : d.st with
  | length =>
    simp only [hs] at h
    split at h
    · cases h
    · split at h
      · cases h; intro m hm; cases hm
      · cases h
  | payload k =>
    simp only [hs] at h
    split at h
    · cases h
    · split at h
      · cases h; intro m hm; cases hm; exact hd _ hs
      · cases h

theorem drain_bnd (C : Crypto) (hO : ∀ a key n ad c p, C.openB a key n ad c = some p → c.length = p.length + 16) :
    ∀ (fuel : Nat) (d : Ss.ChunkDec) (b : Bytes), Bnd d → Bnd (Fr.drain (Ss.chunkUnit C) fuel d b).st := by
  intro fuel
  induction fuel with
  | zero => intro d b hd; exact hd
  | succ fuel ih =>
    intro d b hd
    cases hu : Ss.chunkUnit C d b with
    | need => simp only [Fr.drain, hu]; exact hd
    | fail d' n => simp only [Fr.drain, hu]; exact chunkUnit_fail_bnd C d d' b n hd hu
    | take d' n o => simp only [Fr.drain, hu]; exact ih d' (b.drop n) (chunkUnit_take_bnd C hO d d' b n o hu)

/-! ### one statement for every call -/

def evRes : Octo.Res (List Ss.Ev) → Octo.Res Bytes
  | .ok o => .ok (Ss.Ev.bytes o)
  | .more => .more
  | .err => .err
  | .panic => .panic

def genRes : RResult (Option Cursor) → Octo.Res Bytes
  | .ok (some v) => .ok v
  | .ok none => .more
  | .err => .err

/-- agreement of one generated `decode` call - whatever the decoder state, mode and cipher - with the model's `cipherDecode` -/
structure AgreeAny (E : MEnv) (k : Ss.Kind) (codec : AEADCipherCodec MT) (context : Context MT) (session : Session) (src : Bytes)
    (out : AEADCipherCodec MT × Context MT × Session × Cursor × RResult (Option Cursor)) : Prop where
  dec : out.1.decoder.map toCD = (Ss.cipherDecode E.C (toCtx k context) (envOf E context.nonce_cache)
      ⟨codec.decoder.map toCD, toSess session⟩ src).1.chunk
  buf : out.2.2.2.1 = (Ss.cipherDecode E.C (toCtx k context) (envOf E context.nonce_cache)
      ⟨codec.decoder.map toCD, toSess session⟩ src).2.1
  res : genRes out.2.2.2.2 = evRes (Ss.cipherDecode E.C (toCtx k context) (envOf E context.nonce_cache)
      ⟨codec.decoder.map toCD, toSess session⟩ src).2.2
  sess : (∃ v, out.2.2.2.2 = .ok (some v)) → toSess out.2.2.1 = (Ss.cipherDecode E.C (toCtx k context)
      (envOf E context.nonce_cache) ⟨codec.decoder.map toCD, toSess session⟩ src).1.sess
  frame : out.2.2.1.mode = session.mode ∧ out.2.2.1.identity.salt = session.identity.salt ∧ out.1.encoder = codec.encoder
  static : out.2.1.key = context.key ∧ out.2.1.identity_keys = context.identity_keys ∧ out.2.1.kind = context.kind ∧
    out.2.1.user_manager = context.user_manager

theorem agreeAny_of_call (E : MEnv) (k : Ss.Kind) (self : AEADCipherCodec MT) (context : Context MT) (session : Session)
    (src : Bytes) (out : AEADCipherCodec MT × Context MT × Session × Cursor × RResult (Option Cursor))
    (hself : self.decoder = none) (h : AgreeCall E k self context session src out) : AgreeAny E k self context session src out := by
  obtain ⟨hv, hs, hf, hst⟩ := h
  obtain ⟨enc, dec⟩ := self
  simp only at hself
  subst hself
  simp only [Option.map_none] at *
  have h1 := congrArg (fun x => x.1.chunk) hv
  have h2 := congrArg (fun x => x.2.1) hv
  have h3 := congrArg (fun x => evRes x.2.2) hv
  simp only at h1 h2 h3
  refine ⟨h1, h2, ?_, fun ⟨v, hvv⟩ => hs v hvv, hf, hst⟩
  simp only [Option.map_none]
  rw [← h3]
  cases hr : out.2.2.2.2 with
  | err => rfl
  | ok o => cases o <;> simp [genRes, absRes, evRes, Ss.Ev.bytes]

/-- the model on a later call: one run of the chunk unit -/
theorem cipherDecode_later (C : Crypto) (ctx : Ss.Ctx) (env : Ss.DecEnv) (cd : Ss.ChunkDec) (s : Ss.Sess) (b : Bytes) (hne : b ≠ []) :
    Ss.cipherDecode C ctx env ⟨some cd, s⟩ b =
      (⟨some (Fr.run (Ss.chunkUnit C) cd b).st, s⟩, (Fr.run (Ss.chunkUnit C) cd b).buf,
        if (Fr.run (Ss.chunkUnit C) cd b).failed then .err
        else if (Fr.run (Ss.chunkUnit C) cd b).out.isEmpty then .more
        else .ok ((Fr.run (Ss.chunkUnit C) cd b).out.map .byte)) := by
  have he : b.isEmpty = false := by cases b <;> simp_all
  simp only [Ss.cipherDecode, he, Bool.false_eq_true, if_false, Option.isNone_some, false_and, Ss.run_lift, Ss.liftOut,
    Ss.Ev.bytes_map_byte]
  split
  · rfl
  · split <;> rfl

/-- **later calls = the model** (every mode, every cipher) -/
theorem decode_later_is_model (ov : Bool) (E : MEnv) (k : Ss.Kind) (N : Usize) (self : AEADCipherCodec MT) (context : Context MT)
    (session : Session) (src : List UInt8) (g : ChunkDecoder MT) (hg : self.decoder = some g) (hne : src ≠ [])
    (hopen : ∀ a key n ad c p, E.C.openB a key n ad c = some p → c.length = p.length + 16) :
    ∃ out, AEADCipherCodec.decode ov (XM E) N self context session src = PWGen.Res.ok out ∧
      AgreeAny E k self context session src out := by
  have hm := cipherDecode_later E.C (toCtx k context) (envOf E context.nonce_cache) (toCD g) (toSess session) src hne
  have hb := drain_bnd E.C hopen (src.length + 1) (toCD g) src (toCD_bnd g)
  have hrt : toCD (ofCD (Fr.run (Ss.chunkUnit E.C) (toCD g) src).st) = (Fr.run (Ss.chunkUnit E.C) (toCD g) src).st :=
    toCD_ofCD _ hb
  obtain ⟨enc, dec⟩ := self
  simp only at hg
  subst hg
  cases hfl : (Fr.run (Ss.chunkUnit E.C) (toCD g) src).failed
  · have hx : (XM E).ChunkDecoder_decode_payload g src [] =
        PWGen.Res.ok (ofCD (Fr.run (Ss.chunkUnit E.C) (toCD g) src).st, (Fr.run (Ss.chunkUnit E.C) (toCD g) src).buf,
          (Fr.run (Ss.chunkUnit E.C) (toCD g) src).out, RResult.ok ()) := by
      simp [XM, hfl]
    refine ⟨_, decode_some ov (XM E) N _ context session src g _ _ _ _ rfl hne hx, ?_⟩
    rw [hfl] at hm
    refine ⟨by dsimp only [Option.map_some]; rw [hm]; dsimp only [Option.map_some]; rw [hrt],
      by dsimp only [Option.map_some]; rw [hm], ?_, fun _ => by dsimp only [Option.map_some]; rw [hm],
      ⟨rfl, rfl, rfl⟩, ⟨rfl, rfl, rfl, rfl⟩⟩
    dsimp only [Option.map_some]
    rw [hm]
    by_cases ho : (Fr.run (Ss.chunkUnit E.C) (toCD g) src).out.isEmpty = true
    · simp [ho, genRes, evRes]
    · simp [ho, genRes, evRes]
  · have hx : (XM E).ChunkDecoder_decode_payload g src [] =
        PWGen.Res.ok (ofCD (Fr.run (Ss.chunkUnit E.C) (toCD g) src).st, (Fr.run (Ss.chunkUnit E.C) (toCD g) src).buf,
          (Fr.run (Ss.chunkUnit E.C) (toCD g) src).out, RResult.err) := by
      simp [XM, hfl]
    refine ⟨_, decode_some ov (XM E) N _ context session src g _ _ _ _ rfl hne hx, ?_⟩
    rw [hfl] at hm
    refine ⟨by dsimp only [Option.map_some]; rw [hm]; dsimp only [Option.map_some]; rw [hrt],
      by dsimp only [Option.map_some]; rw [hm], ?_, fun ⟨v, hv⟩ => by simp at hv,
      ⟨rfl, rfl, rfl⟩, ⟨rfl, rfl, rfl, rfl⟩⟩
    dsimp only [Option.map_some]
    rw [hm]
    simp [genRes, evRes]


/-! ### the legacy first call -/

/-- the model on a legacy first call with the salt buffered: the salt step, then the chunks behind it -/
theorem cipherDecode_legacy_first (C : Crypto) (hC : C.Lawful) (ctx : Ss.Ctx) (env : Ss.DecEnv) (s : Ss.Sess) (b : Bytes)
    (hk : ctx.kind.is2022 = false) (hn : ctx.kind.n ≤ b.length) :
    Ss.cipherDecode C ctx env ⟨none, s⟩ b =
      if b.drop ctx.kind.n = [] then
        (⟨some ⟨Ss.newAuth C ctx.kind ctx.key (b.take ctx.kind.n), .length⟩, s⟩, [], .more)
      else Ss.cipherDecode C ctx env ⟨some ⟨Ss.newAuth C ctx.kind ctx.key (b.take ctx.kind.n), .length⟩, s⟩ (b.drop ctx.kind.n) := by
  have hpos := Ss.kind_n_pos ctx.kind
  have G := Ss.unit_good_legacy C hC ctx env hk
  have hu : Ss.unit C ctx env ⟨none, s⟩ b =
      .take ⟨some ⟨Ss.newAuth C ctx.kind ctx.key (b.take ctx.kind.n), .length⟩, s⟩ ctx.kind.n [] := by
    simp only [Ss.unit, hk, Bool.false_eq_true, if_false]
    rw [if_neg (by omega)]
  have hq : b = [] → Ss.unit C ctx env ⟨none, s⟩ [] = .need := by
    intro hb; subst hb; simp at hn; omega
  rw [Ss.cipherDecode_legacy C ctx env hk _ b hq, Fr.run_take _ G _ b _ _ _ hu]
  by_cases hr : b.drop ctx.kind.n = []
  · rw [if_pos hr, hr]
    have hneed : Ss.unit C ctx env ⟨some ⟨Ss.newAuth C ctx.kind ctx.key (b.take ctx.kind.n), .length⟩, s⟩ [] = .need := by
      simp [Ss.unit, Ss.chunkUnit]
    rw [Fr.run_need _ _ _ hneed]
    simp [Ss.runRes, Ss.Ev.bytes]
  · rw [if_neg hr, Ss.cipherDecode_legacy C ctx env hk _ (b.drop ctx.kind.n) (fun h => absurd h hr)]
    simp [Ss.runRes]

/-- **the legacy first call = the model** (either mode): empty buffer / salt not yet there → `Ok(None)`; else the salt is split
off, the decoder derived from it (`super::aead::new_decoder`), and `decode` runs again - once - on the rest -/
theorem decode_legacy_first (ov : Bool) (E : MEnv) (k : Ss.Kind) (N : Usize) (self : AEADCipherCodec MT) (context : Context MT)
    (session : Session) (src : List UInt8)
    (hk : toKind context.kind = some k) (hleg : k.is2022 = false) (hN : N.toNat = k.n)
    (hsalt : session.identity.salt.length = N.toNat) (hself : self.decoder = none) (hb : src.length < 2 ^ 64)
    (hC : E.C.Lawful) :
    ∃ out, AEADCipherCodec.decode ov (XM E) N self context session src = PWGen.Res.ok out ∧
      AgreeAny E k self context session src out := by
  have hctx : (toCtx k context).kind.is2022 = false := hleg
  have hkn : (toCtx k context).kind.n = k.n := rfl
  obtain ⟨enc, dec⟩ := self
  simp only at hself
  subst hself
  by_cases he : src = []
  · subst he
    refine ⟨_, decode_empty ov (XM E) N _ context session, ?_⟩
    have hm : Ss.cipherDecode E.C (toCtx k context) (envOf E context.nonce_cache) ⟨none, toSess session⟩ [] =
        (⟨none, toSess session⟩, [], .more) := by simp [Ss.cipherDecode]
    exact ⟨by dsimp only [Option.map_none]; rw [hm], by dsimp only [Option.map_none]; rw [hm],
      by dsimp only [Option.map_none]; rw [hm]; rfl, fun ⟨v, hv⟩ => by simp at hv, ⟨rfl, rfl, rfl⟩, ⟨rfl, rfl, rfl, rfl⟩⟩
  · have hie : Cursor.is_empty src = false := by cases src <;> simp_all [Cursor.is_empty]
    have hsl : (Cursor.len session.identity.salt).toNat = k.n := by rw [Cursor.len, hsalt, UInt64.ofNat_toNat, hN]
    rw [AEADCipherCodec.decode]
    simp only [hie, Bool.false_eq_true, if_false, bind_next]
    rw [AEADCipherCodec.init_payload_decoder]
    by_cases hshort : src.length < k.n
    · simp only [remaining_lt src hb, hsl, hshort, decide_true, if_true, bind_ret, run_ret, call_ok, bind_next]
      refine ⟨_, rfl, ?_⟩
      have hm : Ss.cipherDecode E.C (toCtx k context) (envOf E context.nonce_cache) ⟨none, toSess session⟩ src =
          (⟨none, toSess session⟩, src, .more) := by
        apply Ss.cipherDecode_quiescent _ _ _ hctx
        simp only [Ss.unit, hctx, Bool.false_eq_true, if_false]
        rw [if_pos (Or.inl (by rw [hkn]; exact hshort))]
      exact ⟨by dsimp only [Option.map_none]; rw [hm], by dsimp only [Option.map_none]; rw [hm],
        by dsimp only [Option.map_none]; rw [hm]; rfl, fun ⟨v, hv⟩ => by simp at hv, ⟨rfl, rfl, rfl⟩, ⟨rfl, rfl, rfl, rfl⟩⟩
    · have hnl : k.n ≤ src.length := by omega
      simp only [remaining_lt src hb, hsl, hshort, decide_false, Bool.false_eq_true, if_false, bind_next,
        is_aead_2022_eval ov _ k hk, hleg, call_ok]
      rw [split_to_eval src _ (by rw [hsl]; exact hnl)]
      simp only [bind_next, hsl, XM, hk, call_ok, q_ok]
      have hmf := cipherDecode_legacy_first E.C hC (toCtx k context) (envOf E context.nonce_cache) (toSess session) src hctx hnl
      have hcd : toCD (⟨Ss.Auth.new k.alg (E.C.hkdfSha1 (src.take k.n) context.key Ss.ssSubkeyInfo (src.take k.n).length),
          DecodeState.Length⟩ : ChunkDecoder MT) = ⟨Ss.newAuth E.C k context.key (src.take k.n), .length⟩ := by
        simp [toCD, toState, Ss.newAuth, hleg]
      by_cases hr : src.drop k.n = []
      · rw [hr, decode_empty]
        simp only [call_ok, bind_next, run_ret]
        refine ⟨_, rfl, ?_⟩
        rw [hkn, if_pos hr] at hmf
        exact ⟨by dsimp only [Option.map_none, Option.map_some]; rw [hmf, hcd]; rfl,
          by dsimp only [Option.map_none]; rw [hmf],
          by dsimp only [Option.map_none]; rw [hmf]; rfl, fun ⟨v, hv⟩ => by simp at hv, ⟨rfl, rfl, rfl⟩, ⟨rfl, rfl, rfl, rfl⟩⟩
      · obtain ⟨out, ho, ha⟩ := decode_later_is_model ov E k N
          ⟨enc, some ⟨Ss.Auth.new k.alg (E.C.hkdfSha1 (src.take k.n) context.key Ss.ssSubkeyInfo (src.take k.n).length), .Length⟩⟩
          context session (src.drop k.n) _ rfl hr hC.open_len
        simp only [XM] at ho
        rw [ho]
        simp only [call_ok, bind_next, run_ret]
        refine ⟨_, rfl, ?_⟩
        rw [hkn, if_neg hr] at hmf
        obtain ⟨a1, a2, a3, a4, a5, a6⟩ := ha
        dsimp only [Option.map_some] at a1 a2 a3 a4
        rw [hcd] at a1 a2 a3 a4
        exact ⟨by dsimp only [Option.map_none]; rw [hmf]; exact a1, by dsimp only [Option.map_none]; rw [hmf]; exact a2,
          by dsimp only [Option.map_none]; rw [hmf]; exact a3, fun hv => by dsimp only [Option.map_none]; rw [hmf]; exact a4 hv,
          a5, a6⟩


/-! ### the generated decoder under the `FramedRead` loop model, in lock step with the model's `clientCall` -/

/-- the state the generated `decode` works on -/
abbrev GenSt := AEADCipherCodec MT × Context MT × Session

/-- one `Decoder::decode` call of the client's `PayloadCodec` over the generated `AEADCipherCodec::decode` -/
def genCall (ov : Bool) (E : MEnv) (N : Usize) (g : GenSt) (b : Bytes) : Call GenSt :=
  match AEADCipherCodec.decode ov (XM E) N g.1 g.2.1 g.2.2 b with
  | .ok (c, ctx, s, b', .ok (some v)) => ⟨(c, ctx, s), b', .ok ⟨.data, v, none⟩⟩
  | .ok (c, ctx, s, b', .ok none) => ⟨(c, ctx, s), b', .more⟩
  | .ok (c, ctx, s, b', .err) => ⟨(c, ctx, s), b', .err⟩
  | .panic => ⟨g, b, .panic⟩

/-- generic lock step of two decoders under `frLoop`: same buffers and results call by call, the relation kept while the
stream goes on -/
theorem frLoop_sim {σ τ : Type} (f : σ → Bytes → Call σ) (g : τ → Bytes → Call τ) (R : σ → τ → Prop)
    (hstep : ∀ s t b, R s t → (f s b).buf = (g t b).buf ∧ (f s b).res = (g t b).res ∧ R (f s b).st (g t b).st) :
    ∀ (fuel : Nat) (F : FrSt σ) (G : FrSt τ), R F.st G.st → F.buf = G.buf → F.ended = G.ended →
      (frLoop f fuel F).2 = (frLoop g fuel G).2 ∧ (frLoop f fuel F).1.buf = (frLoop g fuel G).1.buf ∧
      (frLoop f fuel F).1.ended = (frLoop g fuel G).1.ended ∧ R (frLoop f fuel F).1.st (frLoop g fuel G).1.st := by
  intro fuel
  induction fuel with
  | zero => intro F G hR hb he; exact ⟨rfl, hb, he, hR⟩
  | succ fuel ih =>
    intro F G hR hb he
    obtain ⟨h1, h2, h3⟩ := hstep F.st G.st F.buf hR
    simp only [frLoop]
    rw [← hb, ← h2]
    cases hres : (f F.st F.buf).res with
    | ok i =>
      simp only
      obtain ⟨i1, i2, i3, i4⟩ := ih { F with st := (f F.st F.buf).st, buf := (f F.st F.buf).buf }
        { G with st := (g G.st F.buf).st, buf := (g G.st F.buf).buf } h3 h1 he
      exact ⟨by rw [i1], i2, i3, i4⟩
    | more => exact ⟨rfl, h1, he, h3⟩
    | err => exact ⟨rfl, h1, rfl, h3⟩
    | panic => exact ⟨rfl, h1, rfl, h3⟩

theorem frFeed_sim {σ τ : Type} (f : σ → Bytes → Call σ) (g : τ → Bytes → Call τ) (R : σ → τ → Prop)
    (hstep : ∀ s t b, R s t → (f s b).buf = (g t b).buf ∧ (f s b).res = (g t b).res ∧ R (f s b).st (g t b).st)
    (F : FrSt σ) (G : FrSt τ) (piece : Bytes) (hR : R F.st G.st) (hb : F.buf = G.buf) (he : F.ended = G.ended) :
    (frFeed f F piece).2 = (frFeed g G piece).2 ∧ (frFeed f F piece).1.buf = (frFeed g G piece).1.buf ∧
      (frFeed f F piece).1.ended = (frFeed g G piece).1.ended ∧ R (frFeed f F piece).1.st (frFeed g G piece).1.st := by
  unfold frFeed
  rw [← he, ← hb]
  cases hE : F.ended
  · simp only [Bool.false_eq_true, if_false]
    exact frLoop_sim f g R hstep _ _ _ hR (by simp [hb]) (by simp [he, hE] )
  · simp only [if_true]; exact ⟨by simp, hb, he, hR⟩

theorem feedAll_sim {σ τ : Type} (f : σ → Bytes → Call σ) (g : τ → Bytes → Call τ) (R : σ → τ → Prop)
    (hstep : ∀ s t b, R s t → (f s b).buf = (g t b).buf ∧ (f s b).res = (g t b).res ∧ R (f s b).st (g t b).st)
    (pieces : List Bytes) : ∀ (F : FrSt σ) (G : FrSt τ), R F.st G.st → F.buf = G.buf → F.ended = G.ended →
    (Ss.feedAll f F pieces).2 = (Ss.feedAll g G pieces).2 ∧ (Ss.feedAll f F pieces).1.buf = (Ss.feedAll g G pieces).1.buf ∧
      (Ss.feedAll f F pieces).1.ended = (Ss.feedAll g G pieces).1.ended ∧ R (Ss.feedAll f F pieces).1.st (Ss.feedAll g G pieces).1.st := by
  induction pieces with
  | nil => intro F G hR hb he; exact ⟨rfl, hb, he, hR⟩
  | cons p ps ih =>
    intro F G hR hb he
    obtain ⟨s1, s2, s3, s4⟩ := frFeed_sim f g R hstep F G p hR hb he
    obtain ⟨i1, i2, i3, i4⟩ := ih _ _ s4 s2 s3
    rw [Ss.feedAll_cons, Ss.feedAll_cons]
    exact ⟨by rw [s1, i1], i2, i3, i4⟩

/-- the relation of the lock step once the handshake is over: a decoder is installed, and the model's state is its image -/
def RLater (g : GenSt) (d : Ss.Dec) : Prop := ∃ cd, g.1.decoder = some cd ∧ d = ⟨some (toCD cd), toSess g.2.2⟩

theorem genCall_step_later (ov : Bool) (E : MEnv) (k : Ss.Kind) (N : Usize) (ctx : Ss.Ctx) (env : Ss.DecEnv)
    (hopen : ∀ a key n ad c p, E.C.openB a key n ad c = some p → c.length = p.length + 16)
    (g : GenSt) (d : Ss.Dec) (b : Bytes) (hR : RLater g d) :
    (genCall ov E N g b).buf = (Ss.clientCall E.C ctx env d b).buf ∧ (genCall ov E N g b).res = (Ss.clientCall E.C ctx env d b).res ∧
      RLater (genCall ov E N g b).st (Ss.clientCall E.C ctx env d b).st := by
  obtain ⟨c, cx, s⟩ := g
  obtain ⟨cd, hcd, rfl⟩ := hR
  simp only at hcd
  by_cases hb : b = []
  · subst hb
    have hm : Ss.cipherDecode E.C ctx env ⟨some (toCD cd), toSess s⟩ [] = (⟨some (toCD cd), toSess s⟩, [], .more) := by
      simp [Ss.cipherDecode]
    simp only [genCall, decode_empty, Ss.clientCall, hm]
    exact ⟨by simp, by simp, cd, hcd, rfl⟩
  · obtain ⟨out, ho, ha⟩ := decode_later_is_model ov E k N c cx s b cd hcd hb hopen
    obtain ⟨c', cx', s', b', r⟩ := out
    obtain ⟨a1, a2, a3, a4, a5, a6⟩ := ha
    simp only at a1 a2 a3 a4 a5 a6
    rw [hcd] at a1 a2 a3 a4
    simp only [Option.map_some] at a1 a2 a3 a4
    have hm := cipherDecode_later E.C (toCtx k cx) (envOf E cx.nonce_cache) (toCD cd) (toSess s) b hb
    have hm' := cipherDecode_later E.C ctx env (toCD cd) (toSess s) b hb
    rw [hm] at a1 a2 a3
    -- the session is untouched by a later call of the generated code
    have hs' : s' = s := by
      have := decode_some ov (XM E) N c cx s b cd
      rw [AEADCipherCodec.decode] at ho
      have hie : Cursor.is_empty b = false := by cases b <;> simp_all [Cursor.is_empty]
      simp only [hie, Bool.false_eq_true, if_false, bind_next] at ho
      split at ho
      · rename_i v hv
        simp only [XM, call_ok, bind_next] at ho
        split at ho <;> (try split at ho) <;> simp only [q_ok, q_err, bind_next, bind_ret, run_ret, PWGen.Res.ok.injEq, Prod.mk.injEq] at ho <;>
          first | exact ho.2.2.1.symm | (split at ho <;> simp only [run_ret, PWGen.Res.ok.injEq, Prod.mk.injEq] at ho <;> exact ho.2.2.1.symm)
      · rename_i hv; rw [hcd] at hv; cases hv
    subst hs'
    obtain ⟨cd', hcd'⟩ : ∃ cd', c'.decoder = some cd' := by
      cases hd : c'.decoder with
      | none => rw [hd] at a1; simp at a1
      | some x => exact ⟨x, rfl⟩
    rw [hcd'] at a1
    simp only [Option.map_some, Option.some.injEq] at a1
    simp only [genCall, ho, Ss.clientCall, hm']
    cases hr : r with
    | err =>
      rw [hr] at a3
      by_cases hf : (Fr.run (Ss.chunkUnit E.C) (toCD cd) b).failed = true
      · simp only [hf, if_true] at a3 ⊢
        exact ⟨a2, by simp, cd', hcd', by rw [a1]⟩
      · by_cases hoe : (Fr.run (Ss.chunkUnit E.C) (toCD cd) b).out.isEmpty = true <;> simp [hf, hoe, genRes, evRes] at a3
    | ok o =>
      rw [hr] at a3
      by_cases hf : (Fr.run (Ss.chunkUnit E.C) (toCD cd) b).failed = true
      · cases o <;> simp [hf, genRes, evRes] at a3
      · by_cases hoe : (Fr.run (Ss.chunkUnit E.C) (toCD cd) b).out.isEmpty = true
        · cases o with
          | none => simp only [hf, hoe, if_true, Bool.false_eq_true, if_false]; exact ⟨a2, by simp, cd', hcd', by rw [a1]⟩
          | some v => simp [hf, hoe, genRes, evRes] at a3
        · cases o with
          | none => simp [hf, hoe, genRes, evRes] at a3
          | some v =>
            simp only [hf, hoe, Bool.false_eq_true, if_false, genRes, evRes, Ss.Ev.bytes_map_byte, Octo.Res.ok.injEq] at a3 ⊢
            exact ⟨a2, by rw [a3], cd', hcd', by rw [a1]⟩

/-- **whole stream after the handshake, lock step**: from any state in which the generated codec has its decoder, for every
sequence of reads (any segmentation) the generated `decode` under the `FramedRead` loop and the model's `clientCall` produce
the same events (items, errors, end), keep the same buffer, and stay related - every mode, every cipher -/
theorem feedAll_later_lockstep (ov : Bool) (E : MEnv) (k : Ss.Kind) (N : Usize) (ctx : Ss.Ctx) (env : Ss.DecEnv)
    (hopen : ∀ a key n ad c p, E.C.openB a key n ad c = some p → c.length = p.length + 16)
    (pieces : List Bytes) (F : FrSt GenSt) (G : FrSt Ss.Dec) (hR : RLater F.st G.st) (hb : F.buf = G.buf) (he : F.ended = G.ended) :
    (Ss.feedAll (genCall ov E N) F pieces).2 = (Ss.feedAll (Ss.clientCall E.C ctx env) G pieces).2 ∧
      (Ss.feedAll (genCall ov E N) F pieces).1.buf = (Ss.feedAll (Ss.clientCall E.C ctx env) G pieces).1.buf ∧
      (Ss.feedAll (genCall ov E N) F pieces).1.ended = (Ss.feedAll (Ss.clientCall E.C ctx env) G pieces).1.ended ∧
      RLater (Ss.feedAll (genCall ov E N) F pieces).1.st (Ss.feedAll (Ss.clientCall E.C ctx env) G pieces).1.st :=
  feedAll_sim _ _ RLater (fun s t b h => genCall_step_later ov E k N ctx env hopen s t b h) pieces F G hR hb he

end Octo.SsTcpGen
