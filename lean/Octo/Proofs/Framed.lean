import Octo.Model.Framed
/-! Generic framing lemmas: any segmentation gives the same result as the whole stream at once;
after a run that did not fail nothing decodable is left in the buffer. -/
namespace Octo.Fr

variable {σ ο : Type}

theorem drain_fuel (unit : σ → Bytes → Step σ ο) (G : Good unit) : ∀ (f1 f2 : Nat) (s : σ) (b : Bytes),
    b.length < f1 → b.length < f2 → drain unit f1 s b = drain unit f2 s b := by
  intro f1
  induction f1 with
  | zero => intro f2 s b h; omega
  | succ f1 ih =>
    intro f2 s b h1 h2
    cases f2 with
    | zero => omega
    | succ f2 =>
      simp only [drain]
      cases hu : unit s b with
      | need => rfl
      | fail s' n => rfl
      | take s' n o =>
        have ⟨hn, hle⟩ := G.progress s b s' n o hu
        have hl : (b.drop n).length < f1 := by simp [List.length_drop]; omega
        have hl2 : (b.drop n).length < f2 := by simp [List.length_drop]; omega
        simp only [ih f2 s' (b.drop n) hl hl2]

theorem run_need (unit : σ → Bytes → Step σ ο) (s : σ) (b : Bytes) (hu : unit s b = .need) :
    run unit s b = ⟨s, b, [], false⟩ := by
  unfold run; rw [drain]; simp only [hu]

theorem run_fail (unit : σ → Bytes → Step σ ο) (s : σ) (b : Bytes) (s' : σ) (n : Nat) (hu : unit s b = .fail s' n) :
    run unit s b = ⟨s', b.drop n, [], true⟩ := by
  unfold run; rw [drain]; simp only [hu]

theorem run_take (unit : σ → Bytes → Step σ ο) (G : Good unit) (s : σ) (b : Bytes) (s' : σ) (n : Nat) (o : List ο)
    (hu : unit s b = .take s' n o) :
    run unit s b = ⟨(run unit s' (b.drop n)).st, (run unit s' (b.drop n)).buf,
                 o ++ (run unit s' (b.drop n)).out, (run unit s' (b.drop n)).failed⟩ := by
  have ⟨hn, hle⟩ := G.progress s b s' n o hu
  unfold run; rw [drain]; simp only [hu]
  rw [drain_fuel unit G b.length ((b.drop n).length + 1) s' (b.drop n)
    (by simp only [List.length_drop]; omega) (by omega)]

/-- feeding `b` then `t` = feeding `b ++ t`; a failure is sticky -/
theorem run_append (unit : σ → Bytes → Step σ ο) (G : Good unit) : ∀ (fuel : Nat) (s : σ) (b t : Bytes), b.length < fuel →
    (run unit s (b ++ t)) =
      (if (run unit s b).failed then
         ⟨(run unit s b).st, (run unit s b).buf ++ t, (run unit s b).out, true⟩
       else
         ⟨(run unit (run unit s b).st ((run unit s b).buf ++ t)).st,
          (run unit (run unit s b).st ((run unit s b).buf ++ t)).buf,
          (run unit s b).out ++ (run unit (run unit s b).st ((run unit s b).buf ++ t)).out,
          (run unit (run unit s b).st ((run unit s b).buf ++ t)).failed⟩) := by
  intro fuel
  induction fuel with
  | zero => intro s b t h; omega
  | succ fuel ih =>
    intro s b t hlen
    cases hu : unit s b with
    | need => simp [run_need unit s b hu]
    | fail s' n =>
      have hle := G.fail_le s b s' n hu
      simp [run_fail unit s b s' n hu, run_fail unit s (b ++ t) s' n (G.stable_fail s b t s' n hu),
        List.drop_append_of_le_length hle]
    | take s' n o =>
      have ⟨hn, hle⟩ := G.progress s b s' n o hu
      have hu' := G.stable_take s b t s' n o hu
      have hdrop : (b ++ t).drop n = b.drop n ++ t := List.drop_append_of_le_length hle
      have hih := ih s' (b.drop n) t (by simp only [List.length_drop]; omega)
      rw [run_take unit G s (b ++ t) s' n o hu', hdrop, hih, run_take unit G s b s' n o hu]
      cases hf : (run unit s' (b.drop n)).failed <;> simp [List.append_assoc]

/-- after a run that did not fail nothing more is decodable: the driver is quiescent -/
theorem run_quiescent (unit : σ → Bytes → Step σ ο) (G : Good unit) : ∀ (fuel : Nat) (s : σ) (b : Bytes), b.length < fuel →
    (run unit s b).failed = false → unit (run unit s b).st (run unit s b).buf = .need := by
  intro fuel
  induction fuel with
  | zero => intro s b h; omega
  | succ fuel ih =>
    intro s b hlen hnf
    cases hu : unit s b with
    | need => simp [run_need unit s b hu, hu]
    | fail s' n => simp [run_fail unit s b s' n hu] at hnf
    | take s' n o =>
      have ⟨hn, hle⟩ := G.progress s b s' n o hu
      rw [run_take unit G s b s' n o hu] at hnf ⊢
      exact ih s' (b.drop n) (by simp only [List.length_drop]; omega) hnf

/-- any segmentation: folding `feed` over the pieces = one run over the concatenation -/
theorem feed_pieces (unit : σ → Bytes → Step σ ο) (G : Good unit) (pieces : List Bytes) : ∀ (s : σ) (b : Bytes),
    pieces.foldl (feed unit) (run unit s b) = run unit s (b ++ pieces.flatten) := by
  induction pieces with
  | nil => intro s b; simp
  | cons p ps ih =>
    intro s b
    have h := run_append unit G (b.length + 1) s b p (by omega)
    simp only [List.foldl_cons, List.flatten_cons, ← List.append_assoc]
    rw [← ih s (b ++ p), h]
    congr 1

end Octo.Fr
