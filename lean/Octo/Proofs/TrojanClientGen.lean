import Octo.Gen.TrojanClientGen
import Octo.Proofs.TrojanGen
import Octo.Props.C04Trojan
import Octo.Props.C02
import Octo.Props.C03
import Octo.Props.C07
/-!
  The generated code (`Octo.TrojanClientGen`, written by `translate_trojanclient.py` from
  `octo-squirrel-client/src/client/trojan.rs` and the files it names) equals the hand-written model `Octo.Trojan`
  (`Octo/Model/Trojan.lean`: `clientEncodeTcp`, `clientEncodeUdp`, `clientDecodeTcp`, `clientDecodeUdp`).

  Part 1: `tcp::ClientCodec::encode`, `udp::ClientCodec::encode` (both codec states), then the equality with the model under
          the two facts `ClientCodec::new` (skipped by the translator) establishes: `key = hex(sha224 password)` and the
          command byte (1 = CONNECT for `tcp::new_codec`, 3 = UDP ASSOCIATE for the `udp::new_*_outbound` functions).
  Part 2: `tcp::ClientCodec::decode`.
  Part 3: `udp::ClientCodec::decode`, case by case, then `udp_decode_spec`.
  Part 4: the generated decoders under the `FramedRead` loop model run in lock step with the model's.
  Part 5: a datagram of 65536 bytes or more (C02): the generated encoder does not refuse it, writes `len mod 65536` in the
          length field, and the peer's generated decoder (`Octo.TrojanGen.ServerCodec.decode_packet`) gets another datagram.
  The one hypothesis about buffers, `b.length < 2 ^ 64`, is what a Lean list does not carry and a `BytesMut` does.
  Lemmas of `Octo/Proofs/TrojanGen.lean` that do not mention the server's generated constants are reused as they are.
-/
set_option linter.unusedSimpArgs false
namespace Octo.TrojanClientGen
open Octo Octo.PWGen Octo.AddrGen
open Octo.TrojanGen (rem_lt_true rem_lt_false add_toNat addOk_of sub_toNat subOk_of u16_as_usize_toNat take2_of_get
  drop_eq_cons tryDecodeAt_bounds tryDecodeAt_decode try_of_model_ok try_of_model_err decode_of_model_ok len_toNat
  remaining_toNat as_u16_len tryDecodeAt_ne_more isEmpty_false_of_len)

/-! ## evaluation rules -/
section flow
variable {α ρ : Type}
theorem call_ok (a : α) : (Flow.call (PWGen.Res.ok a) : Flow α ρ) = Flow.next a := rfl
theorem call_panic : (Flow.call (PWGen.Res.panic : PWGen.Res α) : Flow α ρ) = Flow.panic := rfl
end flow

theorem len_crlf : Cursor.len CR_LF = 2 := rfl
theorem crlf_eq : CR_LF = Trojan.crlf := rfl

theorem from_be_bytes_toNat (x y : UInt8) : (U16.from_be_bytes [x, y]).toNat = rdBE [x, y] := by
  rw [U16.from_be_bytes]; exact port_toNat [x, y] rfl

/-! ## Part 1 — `encode` -/

/-- the request header as the generated encoders write it: the codec's `key`, CRLF, its `command`, its address, CRLF -/
def hdrBytes (key : List UInt8) (cmd : UInt8) (a : Address) : Bytes :=
  key ++ Trojan.crlf ++ [cmd] ++ Socks5Addr.encode (toAddr a) ++ Trojan.crlf

/-- what an encoder in state `st` writes before the item -/
def hdrIf (st : CodecState) (key : List UInt8) (cmd : UInt8) (a : Address) : Bytes :=
  match st with
  | .Header => hdrBytes key cmd a
  | .Body => []

/-- **`tcp::ClientCodec::encode`, evaluated** (both profiles, every codec value, every item and buffer, no side condition):
never panics, never `Err`; appends the header iff `status` is `Header`, then the item; `status` becomes `Body`, the other
fields are unchanged -/
theorem tcp_encode_eval (ov : Bool) (s : TcpClientCodec) (item dst : List UInt8) :
    TcpClientCodec.encode ov s item dst
      = PWGen.Res.ok ({ s with status := .Body }, dst ++ (hdrIf s.status s.key s.command s.address ++ item), RResult.ok ()) := by
  obtain ⟨k, cmd, a, st⟩ := s
  cases st with
  | Header =>
    simp only [TcpClientCodec.encode, Octo.AddrGen.encode_eq, call_ok, bind_next, run_ret, Cursor.extend_from_slice, Cursor.put_u8,
      hdrIf, hdrBytes, crlf_eq, List.append_assoc, ↓reduceIte]
  | Body =>
    simp only [TcpClientCodec.encode, bind_next, run_ret, Cursor.extend_from_slice, hdrIf, List.nil_append, Bool.false_eq_true,
      ↓reduceIte]

/-- the frame one datagram becomes: its own address, `len mod 65536` as 16 bits, CRLF, payload (= `Trojan.packet`) -/
theorem frame_eq (a : Address) (p : List UInt8) :
    Socks5Addr.encode (toAddr a) ++ (beBytes 2 (Usize.as_u16 (Cursor.len p)).toNat ++ (Trojan.crlf ++ p)) = Trojan.packet (toAddr a) p := by
  rw [beBytes_two, as_u16_len]
  simp only [Trojan.packet, List.append_assoc]

/-- **`udp::ClientCodec::encode`, evaluated** (both profiles, every codec value, every datagram and buffer, no side
condition): never panics, never `Err` — *also for a payload of 65536 bytes or more*; appends the header iff `status` is
`Header`, then the frame `address(item.1) ‖ (len(item.0) mod 65536 as u16) ‖ CRLF ‖ item.0` -/
theorem udp_encode_eval (ov : Bool) (s : UdpClientCodec) (p : List UInt8) (to : Address) (dst : List UInt8) :
    UdpClientCodec.encode ov s (p, to) dst
      = PWGen.Res.ok ({ s with status := .Body },
          dst ++ (hdrIf s.status s.key s.command s.address ++ Trojan.packet (toAddr to) p), RResult.ok ()) := by
  obtain ⟨k, cmd, a, st⟩ := s
  cases st with
  | Header =>
    simp only [UdpClientCodec.encode, Octo.AddrGen.encode_eq, call_ok, bind_next, run_ret, Cursor.extend_from_slice, Cursor.put_u8,
      Cursor.put_u16, Cursor.new, hdrIf, hdrBytes, crlf_eq, List.append_assoc, List.nil_append, ↓reduceIte, frame_eq]
  | Body =>
    simp only [UdpClientCodec.encode, Octo.AddrGen.encode_eq, call_ok, bind_next, run_ret, Cursor.extend_from_slice,
      Cursor.put_u16, Cursor.new, hdrIf, crlf_eq, List.append_assoc, List.nil_append, Bool.false_eq_true, ↓reduceIte, frame_eq]

/-- the model's name of an encoder state -/
def toEnc : CodecState → Trojan.ClientEnc
  | .Header => ⟨false⟩
  | .Body => ⟨true⟩

theorem hdrIf_model (C : Crypto) (pw : Bytes) (st : CodecState) (key : List UInt8) (cmd : UInt8) (n : Nat) (a : Address)
    (hkey : key = Trojan.keyHex C pw) (hcmd : cmd = u8 n) :
    hdrIf st key cmd a = (if (toEnc st).headerSent then [] else Trojan.header C pw n (toAddr a)) := by
  cases st with
  | Header => simp only [hdrIf, hdrBytes, toEnc, Trojan.header, hkey, hcmd, Bool.false_eq_true, ↓reduceIte]
  | Body => simp only [hdrIf, toEnc, ↓reduceIte]

/-- **(1) `tcp::ClientCodec::encode` = `Trojan.clientEncodeTcp`** for a codec as `new_codec` builds it (`key` the hex of
SHA-224 of the password, `command` = 1): bytes appended and new state are the model's -/
theorem tcp_encode_eq (ov : Bool) (C : Crypto) (pw : Bytes) (s : TcpClientCodec) (item dst : List UInt8)
    (hkey : s.key = Trojan.keyHex C pw) (hcmd : s.command = 1) :
    TcpClientCodec.encode ov s item dst
      = PWGen.Res.ok ({ s with status := .Body },
          dst ++ (Trojan.clientEncodeTcp C pw (toAddr s.address) (toEnc s.status) item).1, RResult.ok ()) ∧
    (Trojan.clientEncodeTcp C pw (toAddr s.address) (toEnc s.status) item).2 = toEnc .Body := by
  refine ⟨?_, rfl⟩
  rw [tcp_encode_eval, hdrIf_model C pw s.status s.key s.command 1 s.address hkey (by rw [hcmd]; rfl)]
  rfl

/-- **(1) `udp::ClientCodec::encode` = `Trojan.clientEncodeUdp`** for a codec as `new_*_outbound` build it (`command` = 3) -/
theorem udp_encode_eq (ov : Bool) (C : Crypto) (pw : Bytes) (s : UdpClientCodec) (p : List UInt8) (to : Address) (dst : List UInt8)
    (hkey : s.key = Trojan.keyHex C pw) (hcmd : s.command = 3) :
    UdpClientCodec.encode ov s (p, to) dst
      = PWGen.Res.ok ({ s with status := .Body },
          dst ++ (Trojan.clientEncodeUdp C pw (toAddr s.address) (toEnc s.status) p (toAddr to)).1, RResult.ok ()) ∧
    (Trojan.clientEncodeUdp C pw (toAddr s.address) (toEnc s.status) p (toAddr to)).2 = toEnc .Body := by
  refine ⟨?_, rfl⟩
  rw [udp_encode_eval, hdrIf_model C pw s.status s.key s.command 3 s.address hkey (by rw [hcmd]; rfl)]
  rfl

/-- the first bytes a fresh generated TCP codec writes are the specification's Trojan request (`c03_trojan_request`) -/
theorem tcp_first_is_spec (ov : Bool) (C : Crypto) (pw : Bytes) (a : Address) (item : List UInt8) :
    TcpClientCodec.encode ov ⟨Trojan.keyHex C pw, 1, a, .Header⟩ item []
      = PWGen.Res.ok (⟨Trojan.keyHex C pw, 1, a, .Body⟩, Spec.trojanRequest C pw 1 (Socks5Addr.encode (toAddr a)) item, RResult.ok ()) := by
  have h := (tcp_encode_eq ov C pw ⟨Trojan.keyHex C pw, 1, a, .Header⟩ item [] rfl rfl).1
  rw [h]
  have hm := c03_trojan_request C pw (toAddr a) item
  simp only [List.nil_append, toEnc]
  rw [show (⟨false⟩ : Trojan.ClientEnc) = {} from rfl, hm]

/-- the first bytes a fresh generated UDP codec writes: the request with command 3, whose "payload" is the first frame, which
for a payload below 64 KiB is the specification's frame (`c03_trojan_udp_frame`) -/
theorem udp_first_is_spec (ov : Bool) (C : Crypto) (pw : Bytes) (a to : Address) (p : List UInt8) (hp : p.length < 65536) :
    UdpClientCodec.encode ov ⟨Trojan.keyHex C pw, 3, a, .Header⟩ (p, to) []
      = PWGen.Res.ok (⟨Trojan.keyHex C pw, 3, a, .Body⟩,
          Spec.trojanRequest C pw 3 (Socks5Addr.encode (toAddr a)) (Spec.trojanUdpFrame (Socks5Addr.encode (toAddr to)) p), RResult.ok ()) := by
  rw [udp_encode_eval, ← c03_trojan_udp_frame (toAddr to) p hp]
  simp [hdrIf, hdrBytes, Trojan.keyHex, Trojan.crlf, Spec.trojanRequest, u8]

/-! ## Part 2 — `tcp::ClientCodec::decode` -/

/-- the model's view of what the generated TCP decoder returned -/
def embedTcp : RResult (Option Cursor) → Octo.Res Item
  | .ok none => .more
  | .ok (some d) => .ok ⟨.data, d, none⟩
  | .err => .err

theorem tcp_decode_nil (ov : Bool) (s : TcpClientCodec) :
    TcpClientCodec.decode ov s [] = PWGen.Res.ok (s, [], RResult.ok none) := by
  have h : (!(Cursor.is_empty ([] : List UInt8))) = false := rfl
  simp only [TcpClientCodec.decode, h, run_ret, Bool.false_eq_true, ↓reduceIte]

theorem tcp_decode_cons (ov : Bool) (s : TcpClientCodec) (b : Bytes) (hlen : b.length < 2 ^ 64) (hne : b ≠ []) :
    TcpClientCodec.decode ov s b = PWGen.Res.ok (s, [], RResult.ok (some b)) := by
  have he : (!(Cursor.is_empty b)) = true := by
    cases b with
    | nil => exact absurd rfl hne
    | cons x r => rfl
  have spl := split_to_ok (ρ := TcpClientCodec × Cursor × RResult (Option Cursor)) b (Cursor.len b) (by rw [len_toNat b hlen]; omega)
  rw [len_toNat b hlen, List.drop_length, List.take_length] at spl
  simp only [TcpClientCodec.decode, he, spl, bind_next, run_ret, ↓reduceIte]

/-- **(2) `tcp::ClientCodec::decode` = `Trojan.clientDecodeTcp`**: no panic, codec untouched, and buffer / outcome are the
model's (everything buffered is handed out; `Ok(None)` on an empty buffer) -/
theorem tcp_decode_spec (ov : Bool) (s : TcpClientCodec) (b : Bytes) (hlen : b.length < 2 ^ 64) :
    ∃ buf r, TcpClientCodec.decode ov s b = PWGen.Res.ok (s, buf, r) ∧ buf.length ≤ b.length ∧
      Trojan.clientDecodeTcp b = ⟨(), buf, embedTcp r⟩ ∧ (r = RResult.ok none → buf = b) := by
  by_cases hne : b = []
  · subst hne
    exact ⟨[], _, tcp_decode_nil ov s, Nat.le_refl _, rfl, fun _ => rfl⟩
  · refine ⟨[], _, tcp_decode_cons ov s b hlen hne, Nat.zero_le _, ?_, fun h => by cases h⟩
    cases b with
    | nil => exact absurd rfl hne
    | cons x r => rfl

/-! ## Part 3 — `udp::ClientCodec::decode` -/

/-- the model's view of what the generated UDP decoder returned: the frame's own address is the item's address -/
def embedUdp : RResult (Option (Cursor × Address)) → Octo.Res Item
  | .ok none => .more
  | .ok (some (d, a)) => .ok ⟨.udp, d, some (toAddr a)⟩
  | .err => .err

theorem not_is_empty {b : Bytes} (h : b ≠ []) : (!(Cursor.is_empty b)) = true := by
  cases b with
  | nil => exact absurd rfl h
  | cons x r => rfl

theorem ne_nil_of_len {b : Bytes} (h : ¬ b.length < 2) : b ≠ [] := by
  intro e; rw [e] at h; simp at h

theorem udp_decode_nil (ov : Bool) (s : UdpClientCodec) :
    UdpClientCodec.decode ov s [] = PWGen.Res.ok (s, [], RResult.ok none) := by
  have h : (!(Cursor.is_empty ([] : List UInt8))) = false := rfl
  simp only [UdpClientCodec.decode, h, run_ret, Bool.false_eq_true, ↓reduceIte]

theorem udp_decode_short (ov : Bool) (s : UdpClientCodec) (b : Bytes) (hlen : b.length < 2 ^ 64) (hne : b ≠ []) (h : b.length < 2) :
    UdpClientCodec.decode ov s b = PWGen.Res.ok (s, b, RResult.ok none) := by
  have he := not_is_empty hne
  have g0 := rem_lt_true b hlen 2 h
  simp only [UdpClientCodec.decode, he, g0, bind_ret, run_ret, ↓reduceIte]

theorem udp_decode_err (ov : Bool) (s : UdpClientCodec) (b : Bytes) (hlen : b.length < 2 ^ 64) (h : ¬ b.length < 2)
    (ht : Octo.AddrGen.try_decode_at ov b 0 = PWGen.Res.ok RResult.err) :
    UdpClientCodec.decode ov s b = PWGen.Res.ok (s, b, RResult.err) := by
  have he := not_is_empty (ne_nil_of_len h)
  have g0 := rem_lt_false b hlen 2 h
  simp only [UdpClientCodec.decode, he, g0, ht, call_ok, question_err, bind_next, bind_ret, run_ret, Bool.false_eq_true, ↓reduceIte]

/-- facts about the header length `n + 2 + 2` of a datagram frame whose address has `n` bytes -/
theorem hl_facts (n : Usize) (hn : n.toNat ≤ 259) :
    U64.addOk n 2 = true ∧ U64.addOk (n + 2) (Cursor.len CR_LF) = true ∧ (n + 2 + Cursor.len CR_LF).toNat = n.toNat + 4 :=
  Octo.TrojanGen.hl_facts n hn

/-- the frame header is not yet complete: wait, nothing consumed -/
theorem udp_decode_wait1 (ov : Bool) (s : UdpClientCodec) (b : Bytes) (n : Usize) (hlen : b.length < 2 ^ 64)
    (h2 : ¬ b.length < 2) (ht : Octo.AddrGen.try_decode_at ov b 0 = PWGen.Res.ok (RResult.ok n)) (hn : n.toNat ≤ 259)
    (h : b.length < n.toNat + 4) :
    UdpClientCodec.decode ov s b = PWGen.Res.ok (s, b, RResult.ok none) := by
  have he := not_is_empty (ne_nil_of_len h2)
  obtain ⟨c1, c2, eH⟩ := hl_facts n hn
  have g0 := rem_lt_false b hlen 2 h2
  have g1 := rem_lt_true b hlen (n + 2 + Cursor.len CR_LF) (by rw [eH]; exact h)
  simp only [UdpClientCodec.decode, he, g0, g1, ht, call_ok, question_ok, bind_next, bind_ret, run_ret, c1, c2, arith_true,
    Bool.false_eq_true, ↓reduceIte]

/-- the header is complete, the payload it announces is not: wait, nothing consumed -/
theorem udp_decode_wait2 (ov : Bool) (s : UdpClientCodec) (b : Bytes) (n : Usize) (x y : UInt8) (hlen : b.length < 2 ^ 64)
    (h2 : ¬ b.length < 2) (ht : Octo.AddrGen.try_decode_at ov b 0 = PWGen.Res.ok (RResult.ok n)) (hn : n.toNat ≤ 259)
    (h : ¬ b.length < n.toNat + 4) (hx : b[n.toNat]? = some x) (hy : b[n.toNat + 1]? = some y)
    (hp : b.length < n.toNat + 4 + rdBE [x, y]) :
    UdpClientCodec.decode ov s b = PWGen.Res.ok (s, b, RResult.ok none) := by
  have he := not_is_empty (ne_nil_of_len h2)
  have e3 : (3 : Usize).toNat = 3 := rfl
  have e4 : (4 : Usize).toNat = 4 := rfl
  obtain ⟨c1, c2, eH⟩ := hl_facts n hn
  have s4 := subOk_of (n + 2 + Cursor.len CR_LF) 4 (by rw [eH, e4]; omega)
  have s3 := subOk_of (n + 2 + Cursor.len CR_LF) 3 (by rw [eH, e3]; omega)
  have i4 : (n + 2 + Cursor.len CR_LF - 4).toNat = n.toNat := by rw [sub_toNat _ _ (by rw [eH, e4]; omega), eH, e4]; omega
  have i3 : (n + 2 + Cursor.len CR_LF - 3).toNat = n.toNat + 1 := by rw [sub_toNat _ _ (by rw [eH, e3]; omega), eH, e3]; omega
  have bx := byteAt_some (ρ := UdpClientCodec × Cursor × RResult (Option (Cursor × Address))) b (n + 2 + Cursor.len CR_LF - 4) x (by rw [i4]; exact hx)
  have by_ := byteAt_some (ρ := UdpClientCodec × Cursor × RResult (Option (Cursor × Address))) b (n + 2 + Cursor.len CR_LF - 3) y (by rw [i3]; exact hy)
  have eW : (U16.as_usize (U16.from_be_bytes [x, y])).toNat = rdBE [x, y] := by rw [u16_as_usize_toNat, from_be_bytes_toNat]
  have hW : rdBE [x, y] < 65536 := by rw [← from_be_bytes_toNat]; exact (U16.from_be_bytes [x, y]).toNat_lt
  have c3 := addOk_of (n + 2 + Cursor.len CR_LF) (U16.as_usize (U16.from_be_bytes [x, y])) (by rw [eH, eW]; omega)
  have eHW : (n + 2 + Cursor.len CR_LF + U16.as_usize (U16.from_be_bytes [x, y])).toNat = n.toNat + 4 + rdBE [x, y] := by
    rw [add_toNat _ _ (by rw [eH, eW]; omega), eH, eW]
  have g0 := rem_lt_false b hlen 2 h2
  have g1 := rem_lt_false b hlen (n + 2 + Cursor.len CR_LF) (by rw [eH]; exact h)
  have g2 := rem_lt_true b hlen (n + 2 + Cursor.len CR_LF + U16.as_usize (U16.from_be_bytes [x, y])) (by rw [eHW]; exact hp)
  simp only [UdpClientCodec.decode, he, g0, g1, g2, ht, call_ok, question_ok, bind_next, bind_ret, run_ret, c1, c2, arith_true,
    s4, s3, bx, by_, c3, Bool.false_eq_true, ↓reduceIte]

/-- the whole frame is buffered: one datagram with exactly the announced payload and the frame's own address, the frame consumed -/
theorem udp_decode_frame (ov : Bool) (s : UdpClientCodec) (b : Bytes) (n : Usize) (x y : UInt8) (a : Address)
    (hlen : b.length < 2 ^ 64)
    (h2 : ¬ b.length < 2) (ht : Octo.AddrGen.try_decode_at ov b 0 = PWGen.Res.ok (RResult.ok n)) (hn : n.toNat ≤ 259)
    (h : ¬ b.length < n.toNat + 4) (hx : b[n.toNat]? = some x) (hy : b[n.toNat + 1]? = some y)
    (hp : ¬ b.length < n.toNat + 4 + rdBE [x, y])
    (hd : Octo.AddrGen.decode ov b = PWGen.Res.ok (b.drop n.toNat, RResult.ok a)) :
    UdpClientCodec.decode ov s b = PWGen.Res.ok (s, b.drop (n.toNat + 4 + rdBE [x, y]),
      RResult.ok (some ((b.drop (n.toNat + 4)).take (rdBE [x, y]), a))) := by
  have he := not_is_empty (ne_nil_of_len h2)
  have eC : (Cursor.len CR_LF).toNat = 2 := rfl
  have e3 : (3 : Usize).toNat = 3 := rfl
  have e4 : (4 : Usize).toNat = 4 := rfl
  obtain ⟨c1, c2, eH⟩ := hl_facts n hn
  have s4 := subOk_of (n + 2 + Cursor.len CR_LF) 4 (by rw [eH, e4]; omega)
  have s3 := subOk_of (n + 2 + Cursor.len CR_LF) 3 (by rw [eH, e3]; omega)
  have i4 : (n + 2 + Cursor.len CR_LF - 4).toNat = n.toNat := by rw [sub_toNat _ _ (by rw [eH, e4]; omega), eH, e4]; omega
  have i3 : (n + 2 + Cursor.len CR_LF - 3).toNat = n.toNat + 1 := by rw [sub_toNat _ _ (by rw [eH, e3]; omega), eH, e3]; omega
  have bx := byteAt_some (ρ := UdpClientCodec × Cursor × RResult (Option (Cursor × Address))) b (n + 2 + Cursor.len CR_LF - 4) x (by rw [i4]; exact hx)
  have by_ := byteAt_some (ρ := UdpClientCodec × Cursor × RResult (Option (Cursor × Address))) b (n + 2 + Cursor.len CR_LF - 3) y (by rw [i3]; exact hy)
  have eW : (U16.as_usize (U16.from_be_bytes [x, y])).toNat = rdBE [x, y] := by rw [u16_as_usize_toNat, from_be_bytes_toNat]
  have hW : rdBE [x, y] < 65536 := by rw [← from_be_bytes_toNat]; exact (U16.from_be_bytes [x, y]).toNat_lt
  have c3 := addOk_of (n + 2 + Cursor.len CR_LF) (U16.as_usize (U16.from_be_bytes [x, y])) (by rw [eH, eW]; omega)
  have eHW : (n + 2 + Cursor.len CR_LF + U16.as_usize (U16.from_be_bytes [x, y])).toNat = n.toNat + 4 + rdBE [x, y] := by
    rw [add_toNat _ _ (by rw [eH, eW]; omega), eH, eW]
  have ht2 : (b.drop n.toNat).take 2 = [x, y] := take2_of_get b n.toNat x y hx hy
  have hl1 : (b.drop n.toNat).length = b.length - n.toNat := List.length_drop
  have g16 := get_u16_ok (ρ := UdpClientCodec × Cursor × RResult (Option (Cursor × Address))) (b.drop n.toNat) (by omega)
  rw [ht2] at g16
  have eL : (U16.as_usize (UInt16.ofNat (beNat [x, y]))).toNat = rdBE [x, y] := by
    rw [u16_as_usize_toNat]; exact port_toNat [x, y] rfl
  have hl2 : ((b.drop n.toNat).drop 2).length = b.length - n.toNat - 2 := by rw [List.length_drop, hl1]
  have adv : (Flow.advance ((b.drop n.toNat).drop 2) (Cursor.len CR_LF) : Flow Cursor (UdpClientCodec × Cursor × RResult (Option (Cursor × Address))))
      = Flow.next (((b.drop n.toNat).drop 2).drop 2) := by
    simp [Flow.advance, eC, hl2]; omega
  have hl3 : (((b.drop n.toNat).drop 2).drop 2).length = b.length - n.toNat - 4 := by rw [List.length_drop, hl2]; omega
  have spl := split_to_ok (ρ := UdpClientCodec × Cursor × RResult (Option (Cursor × Address))) (((b.drop n.toNat).drop 2).drop 2)
    (U16.as_usize (UInt16.ofNat (beNat [x, y]))) (by rw [eL, hl3]; omega)
  rw [eL] at spl
  have g0 := rem_lt_false b hlen 2 h2
  have g1 := rem_lt_false b hlen (n + 2 + Cursor.len CR_LF) (by rw [eH]; exact h)
  have g2 := rem_lt_false b hlen (n + 2 + Cursor.len CR_LF + U16.as_usize (U16.from_be_bytes [x, y])) (by rw [eHW]; exact hp)
  simp only [UdpClientCodec.decode, he, g0, g1, g2, ht, call_ok, question_ok, bind_next, bind_ret, run_ret, c1, c2, arith_true,
    s4, s3, bx, by_, c3, hd, g16, adv, spl, Bool.false_eq_true, ↓reduceIte]
  simp only [List.drop_drop]

theorem clientDecodeUdp_eq (b : Bytes) : Trojan.clientDecodeUdp b = Trojan.pktCall () b := rfl

/-- **(2) `udp::ClientCodec::decode` = `Trojan.clientDecodeUdp`** (both profiles, every codec value, every buffer a `BytesMut`
can hold): never panics, leaves the codec untouched, never grows the buffer, and buffer and outcome are those of the model —
same item (payload and the frame's own address), same bytes consumed; when the outcome is not an item (`Ok(None)` or `Err`)
nothing at all has been consumed -/
theorem udp_decode_spec (ov : Bool) (s : UdpClientCodec) (b : Bytes) (hlen : b.length < 2 ^ 64) :
    ∃ buf r, UdpClientCodec.decode ov s b = PWGen.Res.ok (s, buf, r) ∧ buf.length ≤ b.length ∧
      Trojan.clientDecodeUdp b = ⟨(), buf, embedUdp r⟩ ∧ ((∀ d, r ≠ RResult.ok (some d)) → buf = b) := by
  rw [clientDecodeUdp_eq]
  by_cases hnil : b = []
  · subst hnil
    exact ⟨[], _, udp_decode_nil ov s, Nat.le_refl _, rfl, fun _ => rfl⟩
  by_cases h2 : b.length < 2
  · refine ⟨b, RResult.ok none, udp_decode_short ov s b hlen hnil h2, Nat.le_refl _, ?_, fun _ => rfl⟩
    simp [Trojan.pktCall, Trojan.decodePacket, h2, embedUdp]
  have hne := isEmpty_false_of_len h2
  have e0 : (0 : Usize).toNat = 0 := rfl
  cases hm : Socks5Addr.tryDecodeAt b 0 with
  | panic => exact absurd hm (c07_tryDecodeAt_total b 0 (by omega))
  | more => exact absurd hm (tryDecodeAt_ne_more b 0)
  | err =>
    refine ⟨b, RResult.err, udp_decode_err ov s b hlen h2 (try_of_model_err ov b 0 hlen (by rw [e0]; exact hm)), Nat.le_refl _, ?_,
      fun _ => rfl⟩
    simp [Trojan.pktCall, Trojan.decodePacket, h2, hm, hne, embedUdp]
  | ok al =>
    obtain ⟨n, ht, hn⟩ := try_of_model_ok ov b 0 al hlen (by rw [e0]; exact hm)
    obtain ⟨hal4, hal⟩ := tryDecodeAt_bounds b 0 al hm
    by_cases h : b.length < al + 4
    · refine ⟨b, RResult.ok none, udp_decode_wait1 ov s b n hlen h2 ht (by omega) (by rw [hn]; exact h), Nat.le_refl _, ?_, fun _ => rfl⟩
      have h3 : b.length < al + 2 + 2 := by omega
      simp [Trojan.pktCall, Trojan.decodePacket, h2, hm, hne, h3, embedUdp]
    have hx : b[al]? = some b[al] := List.getElem?_eq_getElem (by omega)
    have hy : b[al + 1]? = some b[al + 1] := List.getElem?_eq_getElem (by omega)
    have ht2 := take2_of_get b al _ _ hx hy
    by_cases hp : b.length < al + 4 + rdBE [b[al], b[al + 1]]
    · refine ⟨b, RResult.ok none, udp_decode_wait2 ov s b n _ _ hlen h2 ht (by omega) (by rw [hn]; exact h)
        (by rw [hn]; exact hx) (by rw [hn]; exact hy) (by rw [hn]; exact hp), Nat.le_refl _, ?_, fun _ => rfl⟩
      have h3 : ¬ b.length < al + 2 + 2 := by omega
      have hp3 : b.length < al + 2 + 2 + rdBE [b[al], b[al + 1]] := by omega
      simp [Trojan.pktCall, Trojan.decodePacket, h2, hm, hne, h3, ht2, hp3, embedUdp]
    · obtain ⟨a, hdm⟩ := tryDecodeAt_decode b 0 al hm (by omega)
      simp only [List.drop_zero, Nat.zero_add] at hdm
      obtain ⟨xa, hdg, hxa⟩ := decode_of_model_ok ov b _ a hlen hdm
      refine ⟨_, _, udp_decode_frame ov s b n _ _ xa hlen h2 ht (by omega) (by rw [hn]; exact h)
        (by rw [hn]; exact hx) (by rw [hn]; exact hy) (by rw [hn]; exact hp) (by rw [hn]; exact hdg),
        by rw [List.length_drop]; omega, ?_, fun hno => absurd rfl (hno _)⟩
      have h3 : ¬ b.length < al + 2 + 2 := by omega
      have hp3 : ¬ b.length < al + 2 + 2 + rdBE [b[al], b[al + 1]] := by omega
      have e1 : al + (4 + rdBE [b[al], b[al + 1]]) = al + 4 + rdBE [b[al], b[al + 1]] := by omega
      simp [Trojan.pktCall, Trojan.decodePacket, h2, hm, hne, h3, ht2, hp3, hdm, embedUdp, hxa, hn, List.drop_drop, e1]

/-- **(3)** the generated UDP decoder never panics, whatever is buffered (any cut of any input) -/
theorem udp_decode_no_panic (ov : Bool) (s : UdpClientCodec) (b : Bytes) (hlen : b.length < 2 ^ 64) :
    UdpClientCodec.decode ov s b ≠ PWGen.Res.panic := by
  obtain ⟨buf, r, h, -⟩ := udp_decode_spec ov s b hlen
  rw [h]; simp

/-- **(3)** the generated TCP decoder never panics -/
theorem tcp_decode_no_panic (ov : Bool) (s : TcpClientCodec) (b : Bytes) (hlen : b.length < 2 ^ 64) :
    TcpClientCodec.decode ov s b ≠ PWGen.Res.panic := by
  obtain ⟨buf, r, h, -⟩ := tcp_decode_spec ov s b hlen
  rw [h]; simp

/-! ## Part 4 — the generated decoders under the `FramedRead` loop

Both client decoders never change the codec value, so the model's decoder state is `Unit`.  The simulation is proved once,
for any decoder `g` over any state type that, started in `s0`, stays in `s0`, never grows the buffer and agrees with a
`Unit`-state model decoder `m` on buffer and outcome. -/
section sim
variable {σ : Type} (g : σ → Bytes → Call σ) (m : Unit → Bytes → Call Unit) (s0 : σ)

/-- the model's view of a `FramedRead` over a generated client codec -/
def mapFr (f : FrSt σ) : FrSt Unit := ⟨(), f.buf, f.ended⟩

theorem frLoop_sim
    (hg : ∀ b : Bytes, b.length < 2 ^ 64 →
      (g s0 b).st = s0 ∧ (g s0 b).buf.length ≤ b.length ∧ m () b = ⟨(), (g s0 b).buf, (g s0 b).res⟩) :
    ∀ (fuel : Nat) (f : FrSt σ), f.st = s0 → f.buf.length < 2 ^ 64 →
      mapFr (frLoop g fuel f).1 = (frLoop m fuel (mapFr f)).1 ∧
      (frLoop g fuel f).2 = (frLoop m fuel (mapFr f)).2 ∧
      (frLoop g fuel f).1.st = s0 ∧ (frLoop g fuel f).1.buf.length ≤ f.buf.length := by
  intro fuel
  induction fuel with
  | zero => intro f hk hl; exact ⟨rfl, rfl, hk, Nat.le_refl _⟩
  | succ fuel ih =>
    intro f hk hl
    have hg' := hg f.buf hl
    rw [← hk] at hg'
    obtain ⟨gk, gb, gm⟩ := hg'
    have hm : m (mapFr f).st (mapFr f).buf = ⟨(), (g f.st f.buf).buf, (g f.st f.buf).res⟩ := gm
    have hmres : (m (mapFr f).st (mapFr f).buf).res = (g f.st f.buf).res := by rw [hm]
    have hmbuf : (m (mapFr f).st (mapFr f).buf).buf = (g f.st f.buf).buf := by rw [hm]
    cases hres : (g f.st f.buf).res with
    | ok i =>
      have ihf := ih { f with st := (g f.st f.buf).st, buf := (g f.st f.buf).buf } (gk.trans hk)
        (by show (g f.st f.buf).buf.length < 2 ^ 64; omega)
      rw [Trojan.frLoop_ok _ _ _ i hres, Trojan.frLoop_ok _ _ _ i (hmres.trans hres), hmbuf]
      exact ⟨ihf.1, by rw [ihf.2.1]; rfl, ihf.2.2.1, Nat.le_trans ihf.2.2.2 gb⟩
    | more =>
      rw [Trojan.frLoop_more _ _ _ hres, Trojan.frLoop_more _ _ _ (hmres.trans hres), hmbuf]
      exact ⟨rfl, rfl, gk.trans hk, gb⟩
    | err =>
      rw [Trojan.frLoop_err _ _ _ hres, Trojan.frLoop_err _ _ _ (hmres.trans hres), hmbuf]
      exact ⟨rfl, rfl, gk.trans hk, gb⟩
    | panic =>
      have e1 : frLoop g (fuel + 1) f
          = ({ st := (g f.st f.buf).st, buf := (g f.st f.buf).buf, ended := true }, [.panic]) := by
        simp only [frLoop, hres]
      have e2 : frLoop m (fuel + 1) (mapFr f)
          = ({ st := (), buf := (g f.st f.buf).buf, ended := true }, [.panic]) := by
        simp only [frLoop, hm, hres]
      rw [e1, e2]
      exact ⟨rfl, rfl, gk.trans hk, gb⟩

theorem frFeed_sim
    (hg : ∀ b : Bytes, b.length < 2 ^ 64 →
      (g s0 b).st = s0 ∧ (g s0 b).buf.length ≤ b.length ∧ m () b = ⟨(), (g s0 b).buf, (g s0 b).res⟩)
    (f : FrSt σ) (p : Bytes) (hk : f.st = s0) (hl : f.buf.length + p.length < 2 ^ 64) :
    mapFr (frFeed g f p).1 = (frFeed m (mapFr f) p).1 ∧
    (frFeed g f p).2 = (frFeed m (mapFr f) p).2 ∧
    (frFeed g f p).1.st = s0 ∧ (frFeed g f p).1.buf.length ≤ f.buf.length + p.length := by
  obtain ⟨st, buf, ended⟩ := f
  cases ended with
  | true => exact ⟨rfl, rfl, hk, Nat.le_add_right _ _⟩
  | false =>
    have := frLoop_sim g m s0 hg (buf.length + p.length + 2) ⟨st, buf ++ p, false⟩ hk
      (by simp only [List.length_append]; exact hl)
    have h4 := this.2.2.2
    simp only [List.length_append] at h4
    exact ⟨this.1, this.2.1, this.2.2.1, h4⟩

/-- **every segmentation**: reading the pieces one by one through `FramedRead`, the generated decoder and the model produce the
same events, leave the same buffer, have ended or not alike; the codec value is still `s0` — for every stream that fits a `usize` -/
theorem feedAll_sim
    (hg : ∀ b : Bytes, b.length < 2 ^ 64 →
      (g s0 b).st = s0 ∧ (g s0 b).buf.length ≤ b.length ∧ m () b = ⟨(), (g s0 b).buf, (g s0 b).res⟩) :
    ∀ (pieces : List Bytes) (f : FrSt σ), f.st = s0 → f.buf.length + pieces.flatten.length < 2 ^ 64 →
      mapFr (Trojan.feedAll g f pieces).1 = (Trojan.feedAll m (mapFr f) pieces).1 ∧
      (Trojan.feedAll g f pieces).2 = (Trojan.feedAll m (mapFr f) pieces).2 ∧
      (Trojan.feedAll g f pieces).1.st = s0 := by
  intro pieces
  induction pieces with
  | nil => intro f hk _; exact ⟨rfl, rfl, hk⟩
  | cons p ps ih =>
    intro f hk hl
    simp only [List.flatten_cons, List.length_append] at hl
    obtain ⟨s1, s2, s3, s4⟩ := frFeed_sim g m s0 hg f p hk (by omega)
    have ihf := ih (frFeed g f p).1 s3 (by omega)
    simp only [Trojan.feedAll]
    rw [← s1]
    exact ⟨ihf.1, by rw [s2, ihf.2.1], ihf.2.2⟩

end sim

/-- one generated `tcp::ClientCodec::decode` call in the shape `frLoop` / `frFeed` take: the state is the codec value itself -/
def genTcp (ov : Bool) (s : TcpClientCodec) (b : Bytes) : Call TcpClientCodec :=
  match TcpClientCodec.decode ov s b with
  | .ok (s', buf, r) => ⟨s', buf, embedTcp r⟩
  | .panic => ⟨s, b, .panic⟩

/-- one generated `udp::ClientCodec::decode` call in the shape `frLoop` / `frFeed` take -/
def genUdp (ov : Bool) (s : UdpClientCodec) (b : Bytes) : Call UdpClientCodec :=
  match UdpClientCodec.decode ov s b with
  | .ok (s', buf, r) => ⟨s', buf, embedUdp r⟩
  | .panic => ⟨s, b, .panic⟩

theorem genTcp_spec (ov : Bool) (s : TcpClientCodec) (b : Bytes) (hlen : b.length < 2 ^ 64) :
    (genTcp ov s b).st = s ∧ (genTcp ov s b).buf.length ≤ b.length ∧
    Trojan.cTcp () b = ⟨(), (genTcp ov s b).buf, (genTcp ov s b).res⟩ := by
  obtain ⟨buf, r, hd, hb, hm, -⟩ := tcp_decode_spec ov s b hlen
  simp only [genTcp, hd]
  exact ⟨trivial, hb, hm⟩

theorem genUdp_spec (ov : Bool) (s : UdpClientCodec) (b : Bytes) (hlen : b.length < 2 ^ 64) :
    (genUdp ov s b).st = s ∧ (genUdp ov s b).buf.length ≤ b.length ∧
    Trojan.cUdp () b = ⟨(), (genUdp ov s b).buf, (genUdp ov s b).res⟩ := by
  obtain ⟨buf, r, hd, hb, hm, -⟩ := udp_decode_spec ov s b hlen
  simp only [genUdp, hd]
  exact ⟨trivial, hb, hm⟩

/-- **(4) TCP, lock step with the model under `FramedRead`, every segmentation** -/
theorem tcp_framed_eq_model (ov : Bool) (s : TcpClientCodec) (pieces : List Bytes) (hlen : pieces.flatten.length < 2 ^ 64) :
    (Trojan.feedAll (genTcp ov) ⟨s, [], false⟩ pieces).2 = (Trojan.feedAll Trojan.cTcp ⟨(), [], false⟩ pieces).2 ∧
    (Trojan.feedAll (genTcp ov) ⟨s, [], false⟩ pieces).1.buf = (Trojan.feedAll Trojan.cTcp ⟨(), [], false⟩ pieces).1.buf ∧
    (Trojan.feedAll (genTcp ov) ⟨s, [], false⟩ pieces).1.ended = (Trojan.feedAll Trojan.cTcp ⟨(), [], false⟩ pieces).1.ended ∧
    (Trojan.feedAll (genTcp ov) ⟨s, [], false⟩ pieces).1.st = s := by
  obtain ⟨h1, h2, h3⟩ := feedAll_sim (genTcp ov) Trojan.cTcp s (fun b hb => genTcp_spec ov s b hb) pieces ⟨s, [], false⟩ rfl
    (by simpa using hlen)
  exact ⟨h2, congrArg FrSt.buf h1, congrArg FrSt.ended h1, h3⟩

/-- **(4) UDP, lock step with the model under `FramedRead`, every segmentation** -/
theorem udp_framed_eq_model (ov : Bool) (s : UdpClientCodec) (pieces : List Bytes) (hlen : pieces.flatten.length < 2 ^ 64) :
    (Trojan.feedAll (genUdp ov) ⟨s, [], false⟩ pieces).2 = (Trojan.feedAll Trojan.cUdp ⟨(), [], false⟩ pieces).2 ∧
    (Trojan.feedAll (genUdp ov) ⟨s, [], false⟩ pieces).1.buf = (Trojan.feedAll Trojan.cUdp ⟨(), [], false⟩ pieces).1.buf ∧
    (Trojan.feedAll (genUdp ov) ⟨s, [], false⟩ pieces).1.ended = (Trojan.feedAll Trojan.cUdp ⟨(), [], false⟩ pieces).1.ended ∧
    (Trojan.feedAll (genUdp ov) ⟨s, [], false⟩ pieces).1.st = s := by
  obtain ⟨h1, h2, h3⟩ := feedAll_sim (genUdp ov) Trojan.cUdp s (fun b hb => genUdp_spec ov s b hb) pieces ⟨s, [], false⟩ rfl
    (by simpa using hlen)
  exact ⟨h2, congrArg FrSt.buf h1, congrArg FrSt.ended h1, h3⟩

/-! ## Part 5 — a datagram of 65536 bytes or more (C02) -/

/-- the model's frame decoder on a frame with *any* payload length: it delivers the first `len mod 65536` bytes and leaves the
rest of the payload in the stream -/
theorem pktCall_any {σ : Type} (st : σ) (a : Addr) (p tail : Bytes) (ha : a.Accepted) :
    Trojan.pktCall st (Trojan.packet a p ++ tail)
      = ⟨st, p.drop (p.length % 65536) ++ tail, .ok ⟨.udp, p.take (p.length % 65536), some a⟩⟩ := by
  have hpos := Trojan.packet_length_pos a p
  have hne : (Trojan.packet a p ++ tail).isEmpty = false := by
    cases h : Trojan.packet a p ++ tail with
    | nil =>
      have := congrArg List.length h
      simp only [List.length_append, List.length_nil] at this
      omega
    | cons _ _ => rfl
  unfold Trojan.pktCall
  rw [hne, Trojan.decodePacket_packet_any a _ tail ha]
  simp

theorem take_mod_ne (p : Bytes) (h : 65536 ≤ p.length) : p.take (p.length % 65536) ≠ p := by
  intro e
  have := congrArg List.length e
  rw [List.length_take] at this
  have : p.length % 65536 < 65536 := Nat.mod_lt _ (by decide)
  omega

/-- **(5) C02: an over-long datagram is not refused, it is truncated on the wire.**  For a payload of any length the generated
`udp::ClientCodec::encode` returns `Ok(())` and writes the frame whose length field is `len mod 65536` (`item.0.len() as u16`)
followed by *all* `len` payload bytes.  The peer — the generated Trojan server decoder `ServerCodec::decode_packet` — reads
that frame as a datagram of `len mod 65536` bytes for the same address and keeps the other bytes of the payload in the stream,
where they are parsed as the next frames.  When `len ≥ 65536` the datagram delivered is not the datagram sent. -/
theorem udp_oversize (ov : Bool) (k : List UInt8) (cmd : UInt8) (ad to : Address) (s2 : Octo.TrojanGen.ServerCodec)
    (p tail : List UInt8) (hacc : (toAddr to).Accepted)
    (hlen : (Trojan.packet (toAddr to) p ++ tail).length < 2 ^ 64) :
    UdpClientCodec.encode ov ⟨k, cmd, ad, .Body⟩ (p, to) []
      = PWGen.Res.ok (⟨k, cmd, ad, .Body⟩,
          Socks5Addr.encode (toAddr to) ++ be16 (p.length % 65536) ++ Trojan.crlf ++ p, RResult.ok ()) ∧
    (∃ a', Octo.TrojanGen.ServerCodec.decode_packet ov s2 (Trojan.packet (toAddr to) p ++ tail)
        = PWGen.Res.ok (s2, p.drop (p.length % 65536) ++ tail,
            RResult.ok (some (Octo.TrojanGen.InboundIn.RelayUdp (p.take (p.length % 65536)) a'))) ∧ toAddr a' = toAddr to) ∧
    (65536 ≤ p.length → p.take (p.length % 65536) ≠ p) := by
  refine ⟨by rw [udp_encode_eval]; rfl, ?_, take_mod_ne p⟩
  obtain ⟨buf, r, hd, -, hm⟩ := Octo.TrojanGen.decode_packet_spec ov s2 (Trojan.packet (toAddr to) p ++ tail) hlen
  have hmod := hm ()
  rw [pktCall_any () _ p tail hacc] at hmod
  rw [hd]
  injection hmod with _ hb hr
  subst hb
  cases r with
  | err => simp [Octo.TrojanGen.embedRes] at hr
  | ok o =>
    cases o with
    | none => simp [Octo.TrojanGen.embedRes] at hr
    | some it =>
      cases it with
      | ConnectTcp dd aa => simp [Octo.TrojanGen.embedRes] at hr
      | RelayTcp dd => simp [Octo.TrojanGen.embedRes] at hr
      | RelayUdp dd aa =>
        simp only [Octo.TrojanGen.embedRes, Octo.Res.ok.injEq, Item.mk.injEq, Option.some.injEq, true_and] at hr
        exact ⟨aa, by rw [hr.1], hr.2.symm⟩

/-- the same frame read by the client's own generated decoder (the reply direction has the same frame format): any payload
length, what is delivered is the first `len mod 65536` bytes -/
theorem udp_decode_frame_any (ov : Bool) (s : UdpClientCodec) (a : Addr) (p tail : List UInt8) (hacc : a.Accepted)
    (hlen : (Trojan.packet a p ++ tail).length < 2 ^ 64) :
    ∃ a', UdpClientCodec.decode ov s (Trojan.packet a p ++ tail)
        = PWGen.Res.ok (s, p.drop (p.length % 65536) ++ tail, RResult.ok (some (p.take (p.length % 65536), a'))) ∧ toAddr a' = a := by
  obtain ⟨buf, r, hd, -, hm, -⟩ := udp_decode_spec ov s (Trojan.packet a p ++ tail) hlen
  rw [clientDecodeUdp_eq, pktCall_any () a p tail hacc] at hm
  rw [hd]
  injection hm with _ hb hr
  subst hb
  cases r with
  | err => simp [embedUdp] at hr
  | ok o =>
    cases o with
    | none => simp [embedUdp] at hr
    | some it =>
      obtain ⟨dd, aa⟩ := it
      simp only [embedUdp, Octo.Res.ok.injEq, Item.mk.injEq, Option.some.injEq, true_and] at hr
      exact ⟨aa, by rw [hr.1], hr.2.symm⟩

/-- **round trip below 64 KiB, generated server encoder → generated client decoder**: what `ServerCodec::encode` writes for a
datagram from `addr`, followed by anything, is decoded by `udp::ClientCodec::decode` to exactly that datagram, that address, and
that rest -/
theorem server_to_client_roundtrip (ov : Bool) (ss : Octo.TrojanGen.ServerCodec) (s : UdpClientCodec) (content tail : List UInt8)
    (addr : SocketAddr) (hp : content.length < 65536)
    (hlen : (Trojan.serverEncodeUdp content (toAddr (Address.Socket addr)) ++ tail).length < 2 ^ 64) :
    ∃ w, Octo.TrojanGen.ServerCodec.encode ov ss (Octo.TrojanGen.OutboundIn.Udp (content, addr)) [] = PWGen.Res.ok (ss, w, RResult.ok ()) ∧
      ∃ a', UdpClientCodec.decode ov s (w ++ tail) = PWGen.Res.ok (s, tail, RResult.ok (some (content, a'))) ∧
        toAddr a' = toAddr (Address.Socket addr) := by
  refine ⟨_, by simpa using Octo.TrojanGen.encode_udp_eq ov ss content [] addr, ?_⟩
  have hacc : (toAddr (Address.Socket addr)).Accepted := by
    cases addr with
    | V4 x => exact toAddr_wf (Address.Socket (.V4 x))
    | V6 x => exact toAddr_wf (Address.Socket (.V6 x))
  obtain ⟨a', h, ha⟩ := udp_decode_frame_any ov s _ content tail hacc hlen
  have hm : content.length % 65536 = content.length := Nat.mod_eq_of_lt hp
  rw [hm, List.drop_length, List.take_length, List.nil_append] at h
  exact ⟨a', h, ha⟩

/-! ## Part 6 — the model-level framed theorems, transferred -/

open Octo.Trojan in
/-- **(4) TCP, server → client, generated decoder**: `c04_trojan_client_tcp_framed` through the lock step -/
theorem tcp_framed (ov : Bool) (s : TcpClientCodec) (items pieces : List Bytes)
    (hcut : pieces.flatten = (items.map serverEncodeTcp).flatten) (hlen : pieces.flatten.length < 2 ^ 64) :
    let r := feedAll (genTcp ov) ⟨s, [], false⟩ pieces
    evClean r.2 ∧ r.2 = dataEvs pieces ∧
    (∀ i ∈ evItems r.2, i.kind = .data ∧ i.addr = none) ∧
    evData r.2 = items.flatten ∧
    r.1.buf = [] ∧ r.1.ended = false ∧ r.1.st = s ∧
    TcpClientCodec.decode ov r.1.st r.1.buf = PWGen.Res.ok (s, [], RResult.ok none) := by
  intro r
  obtain ⟨e1, e2, e3, e4⟩ := tcp_framed_eq_model ov s pieces hlen
  obtain ⟨m1, m2, m3, m4, m5, m6, -⟩ := c04_trojan_client_tcp_framed items pieces hcut
  have hr2 : r.2 = _ := e1
  have hbuf : r.1.buf = [] := e2.trans m5
  have hst : r.1.st = s := e4
  refine ⟨by rw [hr2]; exact m1, hr2.trans m2, by rw [hr2]; exact m3, by rw [hr2]; exact m4, hbuf, e3.trans m6, hst, ?_⟩
  rw [hbuf, hst]; exact tcp_decode_nil ov s

open Octo.Trojan in
/-- **(4) UDP over the stream, server → client, generated decoder**: `c04_trojan_client_udp_framed` through the lock step -/
theorem udp_framed (ov : Bool) (s : UdpClientCodec) (ds : List Dgram) (hv : ∀ x ∈ ds, x.Ok) (pieces : List Bytes)
    (hcut : pieces.flatten = (ds.map fun x => serverEncodeUdp x.1 x.2).flatten) (hlen : pieces.flatten.length < 2 ^ 64) :
    let r := feedAll (genUdp ov) ⟨s, [], false⟩ pieces
    r.2 = ds.map udpEv ∧ evClean r.2 ∧
    evItems r.2 = ds.map (fun x => ⟨.udp, x.1, some x.2⟩) ∧
    r.1.buf = [] ∧ r.1.ended = false ∧ r.1.st = s ∧
    UdpClientCodec.decode ov r.1.st r.1.buf = PWGen.Res.ok (s, [], RResult.ok none) := by
  intro r
  obtain ⟨e1, e2, e3, e4⟩ := udp_framed_eq_model ov s pieces hlen
  obtain ⟨m1, m2, m3, m4, m5, -⟩ := c04_trojan_client_udp_framed ds hv pieces hcut
  have hr2 : r.2 = _ := e1
  have hbuf : r.1.buf = [] := e2.trans m4
  have hst : r.1.st = s := e4
  refine ⟨hr2.trans m1, by rw [hr2]; exact m2, by rw [hr2]; exact m3, hbuf, e3.trans m5, hst, ?_⟩
  rw [hbuf, hst]; exact udp_decode_nil ov s

/-- **round trip below 64 KiB, generated client encoder → generated server decoder** -/
theorem client_to_server_roundtrip (ov : Bool) (k : List UInt8) (cmd : UInt8) (ad to : Address) (s2 : Octo.TrojanGen.ServerCodec)
    (p tail : List UInt8) (hacc : (toAddr to).Accepted) (hp : p.length < 65536)
    (hlen : (Trojan.packet (toAddr to) p ++ tail).length < 2 ^ 64) :
    ∃ w, UdpClientCodec.encode ov ⟨k, cmd, ad, .Body⟩ (p, to) [] = PWGen.Res.ok (⟨k, cmd, ad, .Body⟩, w, RResult.ok ()) ∧
      ∃ a', Octo.TrojanGen.ServerCodec.decode_packet ov s2 (w ++ tail)
          = PWGen.Res.ok (s2, tail, RResult.ok (some (Octo.TrojanGen.InboundIn.RelayUdp p a'))) ∧ toAddr a' = toAddr to := by
  obtain ⟨h1, ⟨a', h2, h3⟩, -⟩ := udp_oversize ov k cmd ad to s2 p tail hacc hlen
  have hm : p.length % 65536 = p.length := Nat.mod_eq_of_lt hp
  rw [hm, List.drop_length, List.take_length, List.nil_append] at h2
  refine ⟨_, h1, a', ?_, h3⟩
  rw [← h2]
  simp only [Trojan.packet, hm, List.append_assoc]

/-- **the bound `b.length < 2 ^ 64` of `tcp_decode_spec` is needed**: on a buffer of exactly `2^64` bytes (which no `BytesMut` can
hold) `src.len()` wraps to 0, the generated `decode` hands out an empty item and consumes nothing, the model hands out all -/
theorem tcp_decode_needs_bound (ov : Bool) (s : TcpClientCodec) (b : Bytes) (hlen : b.length = 2 ^ 64) :
    TcpClientCodec.decode ov s b = PWGen.Res.ok (s, b, RResult.ok (some [])) ∧
    Trojan.clientDecodeTcp b = ⟨(), [], .ok ⟨.data, b, none⟩⟩ := by
  have hne : b ≠ [] := by intro h; rw [h] at hlen; simp at hlen
  have he := not_is_empty hne
  have hz : (Cursor.len b).toNat = 0 := by rw [Cursor.len, UInt64.toNat_ofNat', hlen]
  have spl := split_to_ok (ρ := TcpClientCodec × Cursor × RResult (Option Cursor)) b (Cursor.len b) (by rw [hz]; omega)
  rw [hz, List.drop_zero, List.take_zero] at spl
  constructor
  · simp only [TcpClientCodec.decode, he, spl, bind_next, run_ret, ↓reduceIte]
  · cases b with
    | nil => exact absurd rfl hne
    | cons x r => rfl

end Octo.TrojanClientGen
