/-
  `aead_2022::udp::make_eih` / `with_eih` of the code translated in `Octo.Gen.Ss2022AuxGen` (the indexed `for i in 0..len` loop with its
  `len - 1`, `i + 1` and `identity_keys[i]` checks) = the model's `SsUdp.withEih`, for every chain of identity keys.  This turns the last
  assumed external of the datagram encoder (`SsUdpGen.Ext.udp_with_eih`) into a theorem.
-/
import Octo.Proofs.Ss2022AuxGen
import Octo.Proofs.PacketWindowGen
namespace Octo.Ss2022AuxGen
open Octo Octo.PWGen Octo.AddrGen
set_option linter.unusedSimpArgs false
set_option linter.unusedVariables false

theorem xor_zip_eq : ∀ (a b : Bytes), a.length ≤ b.length → Bytes.xor_zip a b = xorBytes a b
  | [], b, _ => by simp [Bytes.xor_zip, xorBytes]
  | x :: a, [], h => by simp at h
  | x :: a, y :: b, h => by
    have := xor_zip_eq a b (by simpa using h)
    simp [Bytes.xor_zip, xorBytes] at this ⊢; exact this

theorem udp_make_eih_eval (ov : Bool) (E : SsTcpGen.MEnv) (hC : E.C.Lawful) (kind : SsTcpGen.CipherKind) (k : Ss.Kind)
    (hk : SsTcpGen.toKind kind = some k) (he : k.supportEih = true) (ipsk ipskn sp : Bytes) (hkl : ipsk.length = k.alg.keyLen)
    (hsp : 16 ≤ sp.length) :
    udp_make_eih ov (XA E) kind ipsk ipskn sp (List.replicate (16 : Usize).toNat (0 : UInt8)) =
      .ok (E.C.aesEnc ipsk (xorBytes ((E.C.blake3Hash ipskn).take 16) sp), .ok ()) := by
  have hh := hC.blake3h_len ipskn
  have h16 : (16 : Usize).toNat = 16 := by decide
  have hb : ((E.C.blake3Hash ipskn).take 16).length = 16 := by simp only [List.length_take]; omega
  have hx : Bytes.xor_zip ((E.C.blake3Hash ipskn).take 16) sp = xorBytes ((E.C.blake3Hash ipskn).take 16) sp :=
    xor_zip_eq _ _ (by omega)
  have hxl : (xorBytes ((E.C.blake3Hash ipskn).take 16) sp).length = 16 := by
    simp only [xorBytes, List.length_zipWith, hb]; omega
  simp [udp_make_eih, xa_hash, call_ok, bind_next, Flow.slice_to, Flow.copy_from_slice, hh, h16, hx,
    udp_aes_encrypt_in_place_eval ov E kind k hk he ipsk _ hkl hxl, run_ret]

/-- unfolding of the model's chain at position `n` -/
theorem withEih_drop (C : Crypto) (key sp : Bytes) (iks : List Bytes) (n : Nat) (hn : n < iks.length) :
    SsUdp.withEih C key sp (iks.drop n) =
      C.aesEnc iks[n] (xorBytes ((C.blake3Hash (if h : n + 1 < iks.length then iks[n + 1] else key)).take 16) sp)
        ++ SsUdp.withEih C key sp (iks.drop (n + 1)) := by
  rw [List.drop_eq_getElem_cons hn]
  by_cases h : n + 1 < iks.length
  · rw [List.drop_eq_getElem_cons h]; simp [SsUdp.withEih, h]
  · have : iks.drop (n + 1) = [] := List.drop_eq_nil_of_le (by omega)
    simp [this, SsUdp.withEih, h]

theorem run_bind_post {σ ρ : Type} (x : Flow σ ρ) (k : σ → Flow Empty ρ) (v : σ) (r : PWGen.Res ρ)
    (h : x.Post (fun s => s = v) (fun _ => False)) (hk : Flow.run (k v) = r) : Flow.run (x.bind k) = r := by
  cases x with
  | next s => cases (show s = v from h); exact hk
  | ret r => exact h.elim
  | panic => exact h.elim

/-- DISCHARGES `SsUdpGen.Ext.udp_with_eih`: the translated `aead_2022::udp::with_eih` appends the model's chain of identity headers -/
theorem udp_with_eih_eval (ov : Bool) (E : SsTcpGen.MEnv) (hC : E.C.Lawful) (kind : SsTcpGen.CipherKind) (k : Ss.Kind)
    (hk : SsTcpGen.toKind kind = some k) (he : k.supportEih = true) (key sp dst : Bytes) (iks : List Bytes)
    (hlen : iks.length < 2 ^ 64) (hkl : ∀ ik ∈ iks, ik.length = k.alg.keyLen) (hsp : 16 ≤ sp.length) :
    udp_with_eih ov (XA E) kind key iks sp dst = .ok (dst ++ SsUdp.withEih E.C key sp iks, .ok ()) := by
  have hL : (Keys.len iks).toNat = iks.length := by simp [Keys.len, UInt64.toNat_ofNat', Nat.mod_eq_of_lt hlen]
  unfold udp_with_eih
  dsimp only
  apply run_bind_post _ _ (dst ++ SsUdp.withEih E.C key sp iks) _ ?_ rfl
  · apply post_mono (Q1 := fun s => s = dst ++ SsUdp.withEih E.C key sp iks) _ (fun s hs => hs)
    apply post_forExcl _ _ _ _ (fun n s => n ≤ iks.length ∧ s ++ SsUdp.withEih E.C key sp (iks.drop n) = dst ++ SsUdp.withEih E.C key sp iks)
    · simp
    · intro n s hn ⟨_, hI⟩
      have hn' : n < iks.length := by simpa [hL] using hn
      have hi : ((0 : Usize) + UInt64.ofNat n).toNat = n := by
        simp [UInt64.toNat_ofNat', Nat.mod_eq_of_lt (show n < 2 ^ 64 by omega)]
      have hsub : U64.subOk (Keys.len iks) (1 : Usize) = true := by simp [U64.subOk, hL]; omega
      have hl1 : (Keys.len iks - (1 : Usize)).toNat = iks.length - 1 := by
        rw [UInt64.toNat_sub_of_le _ _ (by rw [UInt64.le_iff_toNat_le, hL]; simp; omega), hL]; rfl
      have hne : ((0 : Usize) + UInt64.ofNat n ≠ Keys.len iks - (1 : Usize)) ↔ n + 1 < iks.length := by
        rw [Ne, ← UInt64.toNat_inj, hi, hl1]; omega
      have hget : iks[((0 : Usize) + UInt64.ofNat n).toNat]? = some iks[n] := by rw [hi]; exact List.getElem?_eq_getElem hn'
      rw [withEih_drop E.C key sp iks n hn'] at hI
      by_cases h1 : n + 1 < iks.length
      · have hadd : U64.addOk ((0 : Usize) + UInt64.ofNat n) (1 : Usize) = true := by simp [U64.addOk, hi]; omega
        have hi1 : ((0 : Usize) + UInt64.ofNat n + (1 : Usize)).toNat = n + 1 := by
          rw [UInt64.toNat_add, hi]; simp; omega
        have hget1 : iks[((0 : Usize) + UInt64.ofNat n + (1 : Usize)).toNat]? = some iks[n + 1] := by rw [hi1]; exact List.getElem?_eq_getElem h1
        simp only [hsub, arith_true, bind_next, hne, h1, decide_true, if_true, Flow.list_index, hget, hget1, hadd,
          udp_make_eih_eval ov E hC kind k hk he iks[n] _ sp (hkl _ (List.getElem_mem hn')) hsp, call_ok, q_ok,
          Cursor.extend_from_slice, post_next]
        simp only [h1, dif_pos] at hI
        exact ⟨by omega, by rw [← hI, List.append_assoc]⟩
      · simp only [hsub, arith_true, bind_next, hne, h1, decide_false, if_false, Flow.list_index, hget, Bool.false_eq_true,
          udp_make_eih_eval ov E hC kind k hk he iks[n] _ sp (hkl _ (List.getElem_mem hn')) hsp, call_ok, q_ok,
          Cursor.extend_from_slice, post_next]
        simp only [h1, dif_neg, not_false_eq_true] at hI
        exact ⟨by omega, by rw [← hI, List.append_assoc]⟩
    · intro s ⟨_, hI⟩
      have : iks.drop ((Keys.len iks).toNat - (0 : Usize).toNat) = [] := List.drop_eq_nil_of_le (by simp [hL])
      rw [this] at hI
      simpa [SsUdp.withEih] using hI

end Octo.Ss2022AuxGen
