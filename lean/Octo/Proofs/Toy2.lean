import Octo.Proofs.Toy
/-!
  `Crypto.toy`'s hashes are prefix truncations (`fixLen n m`), so an HMAC over them ignores the message
  and the VMess KDF is the same for every key: with `Crypto.toy` every registered VMess user matches
  every auth id.  `Crypto.toy2` replaces SHA-256 by a (FNV-1a style) checksum of the *whole* message, so that
  examples with two users can tell them apart.  Still lawful, still no security.
-/
namespace Octo

def Toy.fnv (s x : Nat) : Nat := (Nat.xor s x * 1099511628211) % 18446744073709551616

def Toy.mix (m : Bytes) : Bytes :=
  let s := m.foldl (fun a x => Toy.fnv a x.toNat) 14695981039346656037
  (List.range 32).map fun i => UInt8.ofNat (Toy.fnv (Toy.fnv (s + i * 11400714819323198485) i) (i + 1) / 4294967296)

def Crypto.toy2 : Crypto := { Crypto.toy with sha256 := Toy.mix }

theorem Crypto.toy2_lawful : Crypto.toy2.Lawful where
  open_seal := Crypto.toy_lawful.open_seal
  seal_len := Crypto.toy_lawful.seal_len
  open_len := Crypto.toy_lawful.open_len
  aes_dec_enc := Crypto.toy_lawful.aes_dec_enc
  aes_enc_len := Crypto.toy_lawful.aes_enc_len
  aes_dec_len := Crypto.toy_lawful.aes_dec_len
  blake3_len := Crypto.toy_lawful.blake3_len
  blake3h_len := Crypto.toy_lawful.blake3h_len
  md5_len := Crypto.toy_lawful.md5_len
  sha224_len := Crypto.toy_lawful.sha224_len
  sha256_len := fun m => by simp [Crypto.toy2, Toy.mix]
  hkdf_len := Crypto.toy_lawful.hkdf_len
  shake_len := Crypto.toy_lawful.shake_len

end Octo
