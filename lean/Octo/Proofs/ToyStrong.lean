import Octo.Proofs.Toy
/-!
  A second lawful toy instance, `Crypto.toyS`: the xor "stream" of `Crypto.toy` with an
  encrypt-then-MAC tag — a 128-bit polynomial hash of key, nonce, associated data and *ciphertext*.
  It offers no security against somebody who knows the key-independent hash, but no string opens by
  accident, so for concrete streams the "no forgery in the received bytes" hypotheses of C05 can be
  evaluated (and hold on honest, flipped, truncated, swapped, replayed … streams); and because the tag
  is checked before anything is decrypted, evaluating `openB` on a non-matching block is cheap.
  It is the non-vacuity witness that `Lawful` and the C05 hypotheses are jointly satisfiable.
-/
namespace Octo

namespace ToyS

def stp (a : Nat) (x : UInt8) : Nat := a * 257 + x.toNat + 1

/-- polynomial hash of key, nonce, associated data (each closed by a separator) and ciphertext body,
reduced to 128 bits at the end (written as nested folds so that it evaluates quickly) -/
def mac (k n ad c : Bytes) : Nat :=
  c.foldl stp (stp (ad.foldl stp (stp (n.foldl stp (stp (k.foldl stp 5) 255)) 255)) 255) %
    340282366920938463463374607431768211456

/-- 16 little-endian bytes of a number -/
def le16 : Nat → Nat → Bytes
  | 0, _ => []
  | n+1, m => u8 m :: le16 n (m / 256)

theorem le16_length (n m : Nat) : (le16 n m).length = n := by
  induction n generalizing m with
  | zero => rfl
  | succ n ih => simp [le16, ih]

def tag (k n ad c : Bytes) : Bytes := le16 16 (mac k n ad c)

theorem tag_length (k n ad c : Bytes) : (tag k n ad c).length = 16 := le16_length _ _

def sealB (_ : Alg) (k n ad p : Bytes) : Bytes :=
  xorBytes p (Toy.pad k n p.length) ++ tag k n ad (xorBytes p (Toy.pad k n p.length))

def openB (_ : Alg) (k n ad x : Bytes) : Option Bytes :=
  if x.length < 16 then none else
  if x.drop (x.length - 16) = tag k n ad (x.take (x.length - 16)) then
    some (xorBytes (x.take (x.length - 16)) (Toy.pad k n (x.length - 16)))
  else none

theorem body_length (k n p : Bytes) : (xorBytes p (Toy.pad k n p.length)).length = p.length := by
  rw [xorBytes_length, Toy.pad_length]; omega

theorem seal_len (a : Alg) (k n ad p : Bytes) : (sealB a k n ad p).length = p.length + 16 := by
  simp only [sealB, List.length_append, body_length, tag_length]

theorem open_seal (a : Alg) (k n ad p : Bytes) : openB a k n ad (sealB a k n ad p) = some p := by
  have hx := body_length k n p
  have hl := seal_len a k n ad p
  have ht : (sealB a k n ad p).take p.length = xorBytes p (Toy.pad k n p.length) := by
    unfold sealB; exact List.take_left' hx
  have hd : (sealB a k n ad p).drop p.length = tag k n ad (xorBytes p (Toy.pad k n p.length)) := by
    unfold sealB; exact List.drop_left' hx
  unfold openB
  rw [if_neg (by omega), hl]
  simp only [Nat.add_sub_cancel]
  rw [ht, hd, if_pos rfl, xorBytes_cancel p _ (by rw [Toy.pad_length]; omega)]

theorem open_len (a : Alg) (k n ad c p : Bytes) (h : openB a k n ad c = some p) : c.length = p.length + 16 := by
  unfold openB at h
  split at h
  · cases h
  · split at h
    · cases h
      simp only [xorBytes_length, Toy.pad_length, List.length_take]; omega
    · cases h

/-- what `toyS` adds to lawfulness: only seals open (the tag is a function of the ciphertext body) -/
theorem open_eq_seal (a : Alg) (k n ad c p : Bytes) (h : openB a k n ad c = some p) : c = sealB a k n ad p := by
  unfold openB at h
  split at h
  · cases h
  · rename_i hl
    split at h
    · rename_i htag
      cases h
      have hb : xorBytes (xorBytes (c.take (c.length - 16)) (Toy.pad k n (c.length - 16))) (Toy.pad k n (c.length - 16)) =
          c.take (c.length - 16) :=
        xorBytes_cancel _ _ (by rw [Toy.pad_length, List.length_take]; omega)
      have hlen : (xorBytes (c.take (c.length - 16)) (Toy.pad k n (c.length - 16))).length = c.length - 16 := by
        rw [xorBytes_length, Toy.pad_length, List.length_take]; omega
      unfold sealB
      rw [hlen, hb, ← htag, List.take_append_drop]
    · cases h

end ToyS

def Crypto.toyS : Crypto := { Crypto.toy with sealB := ToyS.sealB, openB := ToyS.openB }

theorem Crypto.toyS_lawful : Crypto.toyS.Lawful where
  open_seal := ToyS.open_seal
  seal_len := ToyS.seal_len
  open_len := ToyS.open_len
  aes_dec_enc := Toy.blk_blk
  aes_enc_len := Toy.blk_len
  aes_dec_len := Toy.blk_len
  blake3_len := fun _ _ => Toy.fixLen_length _ _
  blake3h_len := fun _ => Toy.fixLen_length _ _
  md5_len := fun _ => Toy.fixLen_length _ _
  sha224_len := fun _ => Toy.fixLen_length _ _
  sha256_len := fun _ => Toy.fixLen_length _ _
  hkdf_len := fun _ _ _ _ => Toy.fixLen_length _ _
  shake_len := fun _ _ => Toy.fixLen_length _ _

end Octo
