import Octo.Model.Loops
/-!
  What follows from the classification of a loop's sites (`Octo.Model.Loops`): generic theorems, for all loops, all paths
  and all oracles, by induction over the site list; and the shapes of the code before the repairs as counterexamples.
-/
namespace Octo.Loops

/-! ## one site -/

/-- at a site that does not violate the criterion - or at which the adversary does nothing - the loop goes on or is back at
    the top -/
theorem stepSite_safe (s : Site) (c : Choice) (h : s.violates = false ∨ c = .pass) :
    stepSite s c = .next ∨ stepSite s c = .out .backAtTop := by
  rcases s with ⟨line, kind, op, text, inSpawn, inPushed, perFlow, handled, service, fallible, selectHead, cause⟩
  rcases h with h | h
  · cases kind <;> cases service <;> cases perFlow <;> cases handled <;> cases fallible <;> cases c <;>
      simp_all [stepSite, Site.violates]
  · subst h
    cases kind <;> cases service <;> cases perFlow <;> cases handled <;> cases fallible <;>
      simp [stepSite]

/-! ## one iteration -/

/-- the general statement: if on the path taken the adversary does nothing at the violating sites, the iteration ends at
    the top of the loop -/
theorem runFrom_backAtTop (path : Nat → Bool) (oracle : Nat → Choice) :
    ∀ (sites : List Site) (i : Nat),
      (∀ k (h : k < sites.length), path (i + k) = true → (sites[k]).violates = true → oracle (i + k) = .pass) →
      runFrom path oracle i sites = .backAtTop := by
  intro sites
  induction sites with
  | nil => intro i _; rfl
  | cons s rest ih =>
    intro i h
    have hrest : runFrom path oracle (i + 1) rest = .backAtTop := by
      apply ih
      intro k hk hp hv
      have := h (k + 1) (by simpa using hk) (by simpa [Nat.add_assoc, Nat.add_comm 1 k] using hp) (by simpa using hv)
      simpa [Nat.add_assoc, Nat.add_comm 1 k] using this
    unfold runFrom
    by_cases hp : path i = true
    · simp only [hp, if_true]
      have hs : s.violates = false ∨ oracle i = .pass := by
        cases hv : s.violates with
        | false => exact Or.inl rfl
        | true => exact Or.inr (by simpa using h 0 (by simp) (by simpa using hp) (by simpa using hv))
      rcases stepSite_safe s (oracle i) hs with e | e
      · rw [e]; exact hrest
      · rw [e]
    · simp only [hp]
      exact hrest

theorem all_not_violates_get {sites : List Site} (h : sites.all (fun s => !s.violates) = true)
    (k : Nat) (hk : k < sites.length) : (sites[k]).violates = false := by
  have := (List.all_eq_true.mp h) (sites[k]) (List.getElem_mem hk)
  simpa using this

/-- **isolated ⇒ back at the top**, for every loop, every path through its sites, every adversary -/
theorem iteration_backAtTop_of_isolated (l : Loop) (h : l.isolated = true) (path : Nat → Bool) (oracle : Nat → Choice) :
    iteration l path oracle = .backAtTop := by
  unfold iteration
  apply runFrom_backAtTop
  intro k hk _ hv
  have := all_not_violates_get (sites := l.level) h k hk
  rw [this] at hv
  cases hv

/-- an adversary that is quiet at the violating sites of a loop (which need not be isolated) -/
def Iter.quietAt (l : Loop) (it : Iter) : Prop :=
  ∀ k (h : k < l.level.length), (l.level[k]).violates = true → it.oracle k = .pass

theorem iteration_backAtTop_of_quiet (l : Loop) (it : Iter) (h : it.quietAt l) :
    iteration l it.path it.oracle = .backAtTop := by
  unfold iteration
  apply runFrom_backAtTop
  intro k hk _ hv
  simpa using h k hk hv

/-! ## any finite sequence of iterations -/

theorem runIters_serving_of_quiet (l : Loop) (its : List Iter) (h : ∀ it ∈ its, it.quietAt l) :
    runIters l .serving its = .serving := by
  unfold runIters
  induction its with
  | nil => rfl
  | cons it rest ih =>
    have h0 := iteration_backAtTop_of_quiet l it (h it (by simp))
    simp only [List.foldl_cons, h0, Service.after]
    exact ih (fun it' hm => h it' (by simp [hm]))

/-- **isolated ⇒ still serving after any finite sequence of adversarial iterations** -/
theorem runIters_serving_of_isolated (l : Loop) (h : l.isolated = true) (its : List Iter) :
    runIters l .serving its = .serving := by
  apply runIters_serving_of_quiet
  intro it _ k hk hv
  have := all_not_violates_get (sites := l.level) h k hk
  rw [this] at hv
  cases hv

/-- for an isolated loop the outcome of an iteration does not depend on what the flows do -/
theorem iteration_independent_of_isolated (l : Loop) (h : l.isolated = true) (path₁ path₂ : Nat → Bool)
    (o₁ o₂ : Nat → Choice) : iteration l path₁ o₁ = iteration l path₂ o₂ := by
  rw [iteration_backAtTop_of_isolated l h, iteration_backAtTop_of_isolated l h]

theorem isolated_iff_no_residual (l : Loop) : l.isolated = true ↔ nonIsolatedSites l = [] := by
  unfold Loop.isolated nonIsolatedSites
  rw [List.filter_eq_nil_iff, List.all_eq_true]
  constructor
  · intro h s hs; simpa using h s hs
  · intro h s hs; simpa using h s hs

/-! ## loops of one association -/

theorem stepSiteAssoc_not_ended (s : Site) (c : Choice) (h : s.endsOnDatagram = false)
    (hj : (s.kind = .break_ ∨ s.kind = .return_) →
      (s.cause = .svcClosed ∨ s.cause = .svcError ∨ s.cause = .localState) → c ≠ .take) :
    stepSiteAssoc s c ≠ .out .ended := by
  rcases s with ⟨line, kind, op, text, inSpawn, inPushed, perFlow, handled, service, fallible, selectHead, cause⟩
  cases kind <;> cases cause <;> cases service <;> cases perFlow <;> cases handled <;> cases c <;>
    simp_all [stepSiteAssoc, Site.endsOnDatagram]

theorem runFromAssoc_not_ended (path : Nat → Bool) (oracle : Nat → Choice) :
    ∀ (sites : List Site) (i : Nat),
      (∀ k (h : k < sites.length), (sites[k]).endsOnDatagram = false) →
      (∀ k (h : k < sites.length), ((sites[k]).kind = .break_ ∨ (sites[k]).kind = .return_) →
        ((sites[k]).cause = .svcClosed ∨ (sites[k]).cause = .svcError ∨ (sites[k]).cause = .localState) →
        oracle (i + k) ≠ .take) →
      runFromAssoc path oracle i sites ≠ .ended := by
  intro sites
  induction sites with
  | nil => intro i _ _; simp [runFromAssoc]
  | cons s rest ih =>
    intro i h1 h2
    have hrest : runFromAssoc path oracle (i + 1) rest ≠ .ended := by
      apply ih
      · intro k hk
        have := h1 (k + 1) (by simpa using hk)
        simp only [List.getElem_cons_succ] at this
        exact this
      · intro k hk hkind hcause
        have := h2 (k + 1) (by simpa using hk) (by simpa using hkind) (by simpa using hcause)
        simpa [Nat.add_assoc, Nat.add_comm 1 k] using this
    unfold runFromAssoc
    by_cases hp : path i = true
    · simp only [hp, if_true]
      have hs0 : s.endsOnDatagram = false := by
        have := h1 0 (by simp)
        simp only [List.getElem_cons_zero] at this
        exact this
      have hs := stepSiteAssoc_not_ended s (oracle i) hs0
        (by intro a b; simpa using h2 0 (by simp) (by simpa using a) (by simpa using b))
      cases e : stepSiteAssoc s (oracle i) with
      | next => simpa using hrest
      | out o =>
        cases o with
        | ended => exact absurd e hs
        | backAtTop => simp
        | stuck => simp
    · simp only [hp]
      exact hrest

/-- **a datagram-level fault never ends an association**: in a loop all of whose `break`/`return` are caused by the close or
    failure of the association's own channel / socket or by its own state, and that has no `?`/`unwrap` on flow data, an
    iteration in which none of those causes occurs does not end the loop -/
theorem iterationAssoc_not_ended (l : Loop) (h : l.assocOk = true) (path : Nat → Bool) (oracle : Nat → Choice)
    (hd : datagramLevel l.level oracle) : iterationAssoc l path oracle ≠ .ended := by
  unfold iterationAssoc
  apply runFromAssoc_not_ended
  · intro k hk
    have := (List.all_eq_true.mp h) (l.level[k]) (List.getElem_mem hk)
    simpa using this
  · intro k hk hkind hcause
    simpa using hd k hk hkind hcause

/-- and conversely every `continue` brings it back to the top (any cause) -/
theorem stepSiteAssoc_continue (s : Site) (h : s.kind = .continue_) : stepSiteAssoc s .take = .out .backAtTop := by
  simp [stepSiteAssoc, h]

/-! ## the shapes of the code before the repairs: each violates the statement (concrete site lists) -/

private def site (line : Nat) (kind : SiteKind) (op text : String) (perFlow handled service fallible : Bool)
    (cause : Cause := .none) : Site :=
  { line, kind, op, text, inSpawn := false, inPushedFuture := false, perFlow, handled, service, fallible, selectHead := false, cause }

/-- the TLS handshake awaited in the accept loop itself (before 'tls handshake in the connection's own task') -/
def oldTlsInline : Loop :=
  { name := "old_tls_inline", file := "server.rs", fn := "startup_tcp", role := .service, line := 0,
    sites := [
      site 1 .await_ "accept" "listener.accept()" false true true true,
      site 2 .await_ "accept" "tls_acceptor.accept(inbound)" true true false false,
      site 3 .spawn "spawn" "tokio::spawn(relay(inbound, codec))" true false false false ] }

theorem oldTlsInline_not_isolated : oldTlsInline.isolated = false := by decide
/-- a peer that never finishes its TLS handshake: the accept loop is stuck -/
theorem oldTlsInline_stuck : iteration oldTlsInline (fun _ => true) (fun _ => .stall) = .stuck := by decide
theorem oldTlsInline_blocked :
    runIters oldTlsInline .serving [⟨fun _ => true, fun _ => .stall⟩, ⟨fun _ => true, fun _ => .pass⟩] = .blocked := by decide

/-- `inbound.peer_addr()?` in the accept loop -/
def oldPeerAddrQuestion : Loop :=
  { name := "old_peer_addr", file := "server.rs", fn := "startup_tcp", role := .service, line := 0,
    sites := [
      site 1 .await_ "accept" "listener.accept()" false true true true,
      site 2 .question "peer_addr" "inbound.peer_addr()" true false false false,
      site 3 .spawn "spawn" "tokio::spawn(relay(inbound, codec))" true false false false ] }

theorem oldPeerAddrQuestion_not_isolated : oldPeerAddrQuestion.isolated = false := by decide
/-- a connection that is already reset when it is accepted: the listener is over -/
theorem oldPeerAddrQuestion_ended : iteration oldPeerAddrQuestion (fun _ => true) (fun _ => .fail) = .ended := by decide

/-- `assoc.try_send(..).await` on the bounded channel of one association, in the loop that serves all of them -/
def oldAssocSendAwait : Loop :=
  { name := "old_assoc_send", file := "shadowsocks.rs", fn := "startup_udp", role := .service, line := 0,
    sites := [
      { site 1 .await_ "recv" "rx.recv()" false true true false with selectHead := true },
      { site 2 .await_ "recv_from" "inbound.recv_from(&mut buf)" false true true true with selectHead := true },
      site 3 .await_ "try_send" "assoc.try_send((content, peer_addr, session))" true true false false ] }

theorem oldAssocSendAwait_not_isolated : oldAssocSendAwait.isolated = false := by decide
/-- an association whose queue is full: the loop waits for room in it and serves nobody -/
theorem oldAssocSendAwait_stuck :
    iteration oldAssocSendAwait (fun k => k != 0) (fun k => if k = 2 then .stall else .pass) = .stuck := by decide

/-- `while let Ok(..) = listener.accept().await`: an accept error ends the listener -/
def oldWhileLetAccept : Loop :=
  { name := "old_while_let_accept", file := "server.rs", fn := "startup_tcp", role := .service, line := 0,
    sites := [
      site 1 .await_ "accept" "listener.accept()" false false true true,
      site 1 .break_ "while" "while let Ok(..) = .. : pattern stops matching" true false false false .svcError,
      site 2 .spawn "spawn" "tokio::spawn(relay(inbound, codec))" true false false false ] }

theorem oldWhileLetAccept_not_isolated : oldWhileLetAccept.isolated = false := by decide
theorem oldWhileLetAccept_ended : iteration oldWhileLetAccept (fun _ => true) (fun _ => .fail) = .ended := by decide

/-- a replayed packet id `break`s the association (before 'a duplicate or stale packet is dropped, the association lives on') -/
def oldReplayBreak : Loop :=
  { name := "old_replay_break", file := "shadowsocks.rs", fn := "relay", role := .assoc, line := 0,
    sites := [
      { site 1 .await_ "recv" "receiver.recv()" false true true false with selectHead := true },
      site 2 .break_ "break" "break" true false false false .flowData,
      site 3 .break_ "break" "break" false false false false .svcClosed ] }

theorem oldReplayBreak_not_assocOk : oldReplayBreak.assocOk = false := by decide
/-- the oracle takes only the jump caused by flow data (it is datagram-level), and the association is over -/
theorem oldReplayBreak_ended :
    iterationAssoc oldReplayBreak (fun _ => true) (fun k => if k = 1 then .take else .pass) = .ended := by decide

/-- the client's `transfer_udp` before 'opens and writes each udp binding in a future of its own' (9c60c4d): `new_out(..).await`,
    `new_binding(..).await` and `value.sink.send(..).await` in the body of the datagram arm of the loop that serves every
    binding (the site list that `translate_loops.py` extracted from 1fcb424, `perFlow` awaits at loop level) -/
def oldClientBindingInline : Loop :=
  { name := "old_client_binding_inline", file := "template.rs", fn := "transfer_udp", role := .service, line := 0,
    sites := [
      { site 209 .await_ "tick" "cleanup_timer.tick()" false true true false with selectHead := true },
      { site 213 .await_ "recv" "client_local_rx.recv()" false true true false with selectHead := true },
      site 223 .await_ "send" "client_local.send(item)" true true true true,
      { site 226 .await_ "next" "local_client.next()" false true true true with selectHead := true },
      site 233 .continue_ "continue" "continue" true false false false .svcError,
      site 242 .await_ "new_out" "new_out(&target, &context)" true true false false,
      site 243 .await_ "new_binding" "new_binding(server_addr, client_local_tx.clone(), ..)" true true false false,
      site 256 .await_ "new_out" "new_out(&target, &context)" true true false false,
      site 257 .await_ "new_binding" "new_binding(server_addr, client_local_tx.clone(), ..)" true true false false,
      site 270 .await_ "send" "value.sink.send(to_outbound_send((content, target), server_addr))" true true false false,
      site 280 .break_ "break" "break" false false false false .svcClosed ] }

theorem oldClientBindingInline_not_isolated : oldClientBindingInline.isolated = false := by decide
theorem oldClientBindingInline_residual :
    (nonIsolatedSites oldClientBindingInline).map (fun s => (s.kind, s.op)) =
      [(.await_, "new_out"), (.await_, "new_binding"), (.await_, "new_out"), (.await_, "new_binding"), (.await_, "send")] := by decide
/-- a binding whose connection to the server stalls in its handshake: the loop serves no other binding meanwhile -/
theorem oldClientBindingInline_stuck :
    iteration oldClientBindingInline (fun _ => true) (fun k => if k = 5 then .stall else .pass) = .stuck := by decide

end Octo.Loops
