import Octo.Gen.SsTcpGen
import Octo.Proofs.AddrGen
import Octo.Model.Ss
import Octo.Model.SaltCache
import Octo.Props.C14
/-!
  The generated code (`Octo.SsTcpGen`, written by `translate_sstcp.py` from `octo-squirrel/src/codec/shadowsocks/tcp.rs`
  and the files it names) against the hand-written model `Octo.Ss` (`Octo/Model/Ss.lean`).

  Part 0: the instantiation `XM` of the assumed externals by the hand model's functions (`Auth.openB`, `newAuth`,
          `findUser`, `SaltCache.get/insert`, the run of `chunkUnit`), the abstraction maps generated state → model state.
  Part 1: evaluation of the small translated functions (`Mode::expect_u8`, `CipherKind::{is_aead_2022, support_eih}`,
          `validate_timestamp`, `Context::{check_nonce, set_nonce}`) and of the `bytes` / cursor primitives.
  Part 2: `init_aead_2022_payload_decoder`, server mode without identity header, guard by guard.
  Part 3: `init_payload_decoder` / `decode` (the recursive group) for the 2022 first call and for later calls.
-/
set_option linter.unusedSimpArgs false
set_option linter.unusedVariables false
namespace Octo.SsTcpGen
open Octo Octo.PWGen Octo.AddrGen

/-! ## Part 0 — the externals, instantiated by the hand model -/

/-- `CipherKind` of the source ↦ `Kind` of the model (`Unknown` has none) -/
def toKind : CipherKind → Option Ss.Kind
  | .Aes128Gcm => some .aes128
  | .Aes256Gcm => some .aes256
  | .ChaCha20Poly1305 => some .chacha20
  | .Aead2022Blake3Aes128Gcm => some .b3aes128
  | .Aead2022Blake3Aes256Gcm => some .b3aes256
  | .Aead2022Blake3ChaCha8Poly1305 => some .b3chacha8
  | .Aead2022Blake3ChaCha20Poly1305 => some .b3chacha20
  | .Unknown => none

def toMode : Mode → Ss.Mode
  | .Client => .client
  | .Server => .server

/-- a registered user (`ServerUser`) as the model sees it; the name plays no role in any decision -/
def toUser (u : ServerUser) : Ss.User := ⟨String.ofList (u.name.bytes.map fun b => Char.ofNat b.toNat), u.key, u.identity_hash⟩

/-- the types behind the externals: the model's authenticator, the list of registered users, the model's salt cache -/
@[reducible] def MT : ExtTypes := ⟨Ss.Auth, List ServerUser, SaltCache.Cache⟩

def toState : DecodeState → Ss.ChunkSt
  | .Length => .length
  | .Payload n => .payload n.toNat
def ofState : Ss.ChunkSt → DecodeState
  | .length => .Length
  | .payload n => .Payload (UInt64.ofNat n)

def toCD (d : ChunkDecoder MT) : Ss.ChunkDec := ⟨d.auth, toState d.state⟩
def ofCD (d : Ss.ChunkDec) : ChunkDecoder MT := ⟨d.auth, ofState d.st⟩

/-- `Session` + `Identity` ↦ the model's `Sess` -/
def toSess (s : Session) : Ss.Sess :=
  ⟨toMode s.mode, s.identity.salt, s.identity.request_salt, s.identity.user.map toUser, s.address.map toAddr⟩

/-- the static part of `Context` ↦ the model's `Ctx` -/
def toCtx (k : Ss.Kind) (c : Context MT) : Ss.Ctx := ⟨k, c.key, c.identity_keys, (c.user_manager.getD []).map toUser⟩

/-- the session subkey authenticator of `aead_2022::new_decoder` / `new_encoder` -/
def auth2022 (C : Crypto) (k : Ss.Kind) (key salt : Bytes) : Ss.Auth :=
  Ss.Auth.new k.alg (C.blake3Derive Ss.sessionSubkeyCtx (key ++ salt))

theorem newAuth_2022 (C : Crypto) (k : Ss.Kind) (key salt : Bytes) (h : k.is2022 = true) :
    Ss.newAuth C k key salt = auth2022 C k key salt := by simp [Ss.newAuth, auth2022, h]

/-- environment of the instantiation: crypto, clock (seconds / milliseconds), cache parameters, log level -/
structure MEnv where
  C : Crypto
  now : Nat
  nowMs : Nat
  ttl : Nat
  cap : Nat
  trace : Bool
  /-- randomness of the encoder -/
  padLen : Nat
  padding : Bytes

def optUnit (b : Bool) : Option Unit := if b then some () else none

/-- the assumed externals, instantiated by the functions of the hand model -/
def XM (E : MEnv) : Ext MT where
  aead_2022_new_decoder kind key salt := match toKind kind with
    | some k => .ok ⟨auth2022 E.C k key salt, .Length⟩
    | none => .panic
  aead_2022_new_encoder kind key salt := match toKind kind with
    | some k => .ok ⟨UInt64.ofNat Consts.ss2022PayloadLimit, auth2022 E.C k key salt⟩
    | none => .panic
  aead_2022_next_padding_length msg := .ok (if msg.isEmpty then UInt16.ofNat E.padLen else 0)
  aead_2022_now := .ok (.ok (UInt64.ofNat E.now))
  aead_2022_tcp_new_header a msg mode rs :=
    let r := Ss.newHeader E.C a msg (toMode mode) rs E.now
    .ok (r.2.2, r.2.1, .ok (r.1.take (1 + 8 + (rs.getD []).length + 2 + 16), r.1.drop (1 + 8 + (rs.getD []).length + 2 + 16)))
  aead_2022_tcp_new_decoder_with_eih kind key salt eih identity users := match toKind kind with
    | some k =>
      if k.supportEih then
        let sub := E.C.blake3Derive Ss.identitySubkeyCtx (key ++ salt)
        let h := E.C.aesDec (sub.take k.alg.keyLen) (eih.take 16)
        match users.find? (fun u => u.identity_hash = h) with
        | some u => .ok ({ identity with user := some u }, .ok ⟨auth2022 E.C k u.key salt, .Length⟩)
        | none => .ok (identity, .err)
      else .ok (identity, .err)
    | none => .panic
  aead_2022_tcp_with_eih kind key iks salt dst := match toKind kind with
    | some k => .ok (dst ++ Ss.withEih E.C k key salt iks, ())
    | none => .panic
  aead_new_decoder kind key salt := match toKind kind with
    | some k => .ok (.ok ⟨Ss.Auth.new k.alg (E.C.hkdfSha1 salt key Ss.ssSubkeyInfo salt.length), .Length⟩)
    | none => .panic
  aead_new_encoder kind key salt := match toKind kind with
    | some k => .ok (.ok ⟨UInt64.ofNat Consts.ssLegacyPayloadLimit, Ss.Auth.new k.alg (E.C.hkdfSha1 salt key Ss.ssSubkeyInfo salt.length)⟩)
    | none => .panic
  dice_roll_bytes n := .ok (E.padding.take n.toNat)
  Authenticator_open a buf := match Ss.Auth.openB E.C a buf with
    | (some p, a') => .ok (a', p, .ok ())
    | (none, a') => .ok (a', buf, .err)
  ChunkDecoder_decode_payload d src dst :=
    let r := Fr.run (Ss.chunkUnit E.C) (toCD d) src
    .ok (ofCD r.st, r.buf, dst ++ r.out, if r.failed then .err else .ok ())
  ChunkEncoder_encode_payload e src dst :=
    let r := Ss.encPayload E.C e.auth e.payload_limit.toNat src
    .ok (⟨e.payload_limit, r.2⟩, dst ++ r.1, .ok ())
  ServerUserManager_user_count m := .ok (UInt64.ofNat m.length)
  CipherKind_tag_size kind := match toKind kind with
    | some _ => .ok 16
    | none => .panic
  LruCache_get c k := .ok ((SaltCache.get E.ttl E.nowMs c k).2, optUnit (SaltCache.get E.ttl E.nowMs c k).1)
  LruCache_insert c k _ := .ok ((SaltCache.insert E.ttl E.cap E.nowMs c k).2, optUnit (SaltCache.insert E.ttl E.cap E.nowMs c k).1)
  trace_enabled := E.trace

/-- the model's view of the replay cache: `check_nonce` -/
def envOf (E : MEnv) (c : SaltCache.Cache) : Ss.DecEnv := ⟨E.now, fun s => (SaltCache.get E.ttl E.nowMs c s).1⟩

/-! ## Part 1 — evaluation of the small functions and of the primitives -/

section flow
variable {α β ρ : Type}
theorem bind_next (a : α) (k : α → Flow β ρ) : (Flow.next a : Flow α ρ).bind k = k a := rfl
theorem bind_ret (r : ρ) (k : α → Flow β ρ) : (Flow.ret r : Flow α ρ).bind k = Flow.ret r := rfl
theorem bind_panic (k : α → Flow β ρ) : (Flow.panic : Flow α ρ).bind k = Flow.panic := rfl
theorem run_ret (r : ρ) : Flow.run (Flow.ret r : Flow Empty ρ) = PWGen.Res.ok r := rfl
theorem run_panic : Flow.run (Flow.panic : Flow Empty ρ) = PWGen.Res.panic := rfl
theorem call_ok (a : α) : (Flow.call (PWGen.Res.ok a) : Flow α ρ) = Flow.next a := rfl
theorem call_panic : (Flow.call (PWGen.Res.panic : PWGen.Res α) : Flow α ρ) = Flow.panic := rfl
theorem unwrap_some (a : α) : (Flow.unwrap (some a) : Flow α ρ) = Flow.next a := rfl
theorem arith_true (ov : Bool) : (Flow.arith ov true : Flow Unit ρ) = Flow.next () := by cases ov <;> rfl
theorem q_ok (v : α) (e : ρ) : (Flow.question (RResult.ok v) e : Flow α ρ) = Flow.next v := rfl
theorem q_err (e : ρ) : (Flow.question (RResult.err : RResult α) e : Flow α ρ) = Flow.ret e := rfl
end flow

theorem expect_u8_eval (ov : Bool) (m : Mode) : Mode.expect_u8 ov m = PWGen.Res.ok (toMode m).expectU8 := by
  cases m <;> rfl

theorem is_aead_2022_eval (ov : Bool) (kind : CipherKind) (k : Ss.Kind) (h : toKind kind = some k) :
    CipherKind.is_aead_2022 ov kind = PWGen.Res.ok k.is2022 := by
  cases kind <;> simp [toKind] at h <;> subst h <;> rfl

theorem support_eih_eval (ov : Bool) (kind : CipherKind) (k : Ss.Kind) (h : toKind kind = some k) :
    CipherKind.support_eih ov kind = PWGen.Res.ok k.supportEih := by
  cases kind <;> simp [toKind] at h <;> subst h <;> rfl

theorem tag_size_eval (E : MEnv) (kind : CipherKind) (k : Ss.Kind) (h : toKind kind = some k) :
    (XM E).CipherKind_tag_size kind = PWGen.Res.ok 16 := by simp [XM, h]

theorem window_eq : SERVER_STREAM_TIMESTAMP_MAX_DIFF.toNat = Consts.ssMaxTimeDiff := by decide

theorem abs_diff_toNat (a b : UInt64) : (U64.abs_diff a b).toNat = Ss.absDiff a.toNat b.toNat := by
  unfold U64.abs_diff Ss.absDiff
  by_cases h : a ≤ b
  · have h' : a.toNat ≤ b.toNat := UInt64.le_iff_toNat_le.mp h
    rw [if_pos h, if_pos h', UInt64.toNat_sub_of_le _ _ h]
  · have h' : ¬ a.toNat ≤ b.toNat := fun x => h (UInt64.le_iff_toNat_le.mpr x)
    have h2 : b ≤ a := UInt64.le_iff_toNat_le.mpr (by omega)
    rw [if_neg h, if_neg h', UInt64.toNat_sub_of_le _ _ h2]

/-- `validate_timestamp` is the model's window test (clock `E.now`, the constant read from the source) -/
theorem validate_timestamp_eval (ov : Bool) (E : MEnv) (ts : UInt64) (hnow : E.now < 2 ^ 64) :
    validate_timestamp ov (XM E) ts =
      PWGen.Res.ok (if Ss.absDiff E.now ts.toNat > Consts.ssMaxTimeDiff then RResult.err else RResult.ok ()) := by
  have e1 : (UInt64.ofNat E.now).toNat = E.now := by simp [UInt64.toNat_ofNat']; omega
  have e2 : (U64.abs_diff (UInt64.ofNat E.now) ts > SERVER_STREAM_TIMESTAMP_MAX_DIFF) ↔
      Ss.absDiff E.now ts.toNat > Consts.ssMaxTimeDiff := by
    rw [GT.gt, UInt64.lt_iff_toNat_lt, abs_diff_toNat, e1, window_eq]
  unfold validate_timestamp
  simp only [XM, call_ok, bind_next, q_ok]
  by_cases h : Ss.absDiff E.now ts.toNat > Consts.ssMaxTimeDiff
  · rw [if_pos h, decide_eq_true (e2.mpr h)]; rfl
  · rw [if_neg h, decide_eq_false (fun x => h (e2.mp x))]; rfl

theorem check_nonce_eval (ov : Bool) (E : MEnv) (N : Usize) (c : Context MT) (s : List UInt8) (hs : s ≠ []) :
    Context.check_nonce ov (XM E) N c s =
      PWGen.Res.ok ({ c with nonce_cache := (SaltCache.get E.ttl E.nowMs c.nonce_cache s).2 },
        (SaltCache.get E.ttl E.nowMs c.nonce_cache s).1) := by
  unfold Context.check_nonce
  have he : Cursor.is_empty s = false := by cases s <;> simp_all [Cursor.is_empty]
  simp only [he, XM, call_ok, bind_next, optUnit]
  cases (SaltCache.get E.ttl E.nowMs c.nonce_cache s).1 <;> rfl

theorem set_nonce_eval (ov : Bool) (E : MEnv) (N : Usize) (c : Context MT) (s : List UInt8) :
    Context.set_nonce ov (XM E) N c s =
      PWGen.Res.ok ({ c with nonce_cache := (SaltCache.insert E.ttl E.cap E.nowMs c.nonce_cache s).2 },
        !(SaltCache.insert E.ttl E.cap E.nowMs c.nonce_cache s).1) := by
  unfold Context.set_nonce
  simp only [XM, call_ok, bind_next, optUnit]
  cases (SaltCache.insert E.ttl E.cap E.nowMs c.nonce_cache s).1 <;> rfl

/-- a salt that `get` did not find is not found by the `insert` that follows (the lock is one atomic step) -/
theorem insert_after_get (ttl cap now : Nat) (c : SaltCache.Cache) (k : Bytes) (h : (SaltCache.get ttl now c k).1 = false) :
    (SaltCache.insert ttl cap now (SaltCache.get ttl now c k).2 k).1 = false := by
  unfold SaltCache.get at h ⊢
  by_cases ha : (SaltCache.expire ttl now c).any (fun e => e.key = k) = true
  · simp [ha] at h
  · simp only [ha, Bool.false_eq_true, if_false] at h ⊢
    unfold SaltCache.insert
    have : SaltCache.expire ttl now (SaltCache.expire ttl now c) = SaltCache.expire ttl now c := by
      simp [SaltCache.expire, List.filter_filter]
    simp only [this, ha, Bool.false_eq_true, if_false]

/-! ## Part 2 — `init_aead_2022_payload_decoder` -/

theorem remaining_toNat (b : List UInt8) (hb : b.length < 2 ^ 64) : (Cursor.remaining b).toNat = b.length := by
  simp [Cursor.remaining, UInt64.toNat_ofNat']; omega

theorem remaining_lt (b : List UInt8) (hb : b.length < 2 ^ 64) (x : Usize) :
    decide (Cursor.remaining b < x) = decide (b.length < x.toNat) := by
  rw [decide_eq_decide, UInt64.lt_iff_toNat_lt, remaining_toNat b hb]

theorem user_count_eval (E : MEnv) (m : List ServerUser) :
    (XM E).ServerUserManager_user_count m = PWGen.Res.ok (UInt64.ofNat m.length) := rfl

theorem io_slice_eval {ρ : Type} (b : List UInt8) (pos n : Usize) (h : n.toNat ≤ b.length - pos.toNat) :
    (Flow.io_copy_to_slice ⟨b, pos⟩ n : Flow _ ρ) = Flow.next (⟨b, pos + n⟩, (b.drop pos.toNat).take n.toNat) := by
  simp [Flow.io_copy_to_slice, h]
theorem io_bytes_eval {ρ : Type} (b : List UInt8) (pos n : Usize) (h : n.toNat ≤ b.length - pos.toNat) :
    (Flow.io_copy_to_bytes ⟨b, pos⟩ n : Flow _ ρ) = Flow.next (⟨b, pos + n⟩, (b.drop pos.toNat).take n.toNat) := by
  simp [Flow.io_copy_to_bytes, h]
theorem get_u8_eval {ρ : Type} (h : List UInt8) (hl : 1 ≤ h.length) :
    (Flow.get_u8 h : Flow _ ρ) = Flow.next (h.drop 1, h.headD 0) := by
  cases h with
  | nil => simp at hl
  | cons x r => rfl
theorem get_u64_eval {ρ : Type} (h : List UInt8) (hl : 8 ≤ h.length) :
    (Flow.get_u64 h : Flow _ ρ) = Flow.next (h.drop 8, UInt64.ofNat (beNat (h.take 8))) := by simp [Flow.get_u64, hl]
theorem get_u16_eval {ρ : Type} (h : List UInt8) (hl : 2 ≤ h.length) :
    (Flow.get_u16 h : Flow _ ρ) = Flow.next (h.drop 2, UInt16.ofNat (beNat (h.take 2))) := by simp [Flow.get_u16, hl]
theorem advance_eval {ρ : Type} (b : List UInt8) (n : Usize) (h : n.toNat ≤ b.length) :
    (Flow.advance b n : Flow _ ρ) = Flow.next (b.drop n.toNat) := by simp [Flow.advance, h]
theorem split_to_eval {ρ : Type} (b : List UInt8) (n : Usize) (h : n.toNat ≤ b.length) :
    (Flow.split_to b n : Flow _ ρ) = Flow.next (b.drop n.toNat, b.take n.toNat) := by simp [Flow.split_to, h]

theorem beNat_take_lt (h : List UInt8) (n : Nat) : beNat (h.take n) < 256 ^ n := by
  have := beNat_lt (h.take n)
  have hl : (h.take n).length ≤ n := by simp [List.length_take]; omega
  exact Nat.lt_of_lt_of_le this (Nat.pow_le_pow_right (by decide) hl)

theorem u64_of_be8 (h : List UInt8) : (UInt64.ofNat (beNat (h.take 8))).toNat = rdBE (h.take 8) := by
  have := beNat_take_lt h 8
  rw [UInt64.toNat_ofNat_of_lt' (Nat.lt_of_lt_of_le this (by decide))]; rfl

theorem u16_len (h : List UInt8) : (U16.as_usize (UInt16.ofNat (beNat (h.take 2)))).toNat = rdBE (h.take 2) := by
  have := beNat_take_lt h 2
  have e : (UInt16.ofNat (beNat (h.take 2))).toNat = beNat (h.take 2) := UInt16.toNat_ofNat_of_lt' (Nat.lt_of_lt_of_le this (by decide))
  have e2 : (UInt64.ofNat (beNat (h.take 2))).toNat = beNat (h.take 2) := UInt64.toNat_ofNat_of_lt' (Nat.lt_of_lt_of_le this (by decide))
  rw [U16.as_usize, e, e2]; rfl

/-- how one first call of the generated code is compared with the model's step -/
def absRes (salt : Bytes) : RResult (Option Cursor) → Octo.Res (List Ss.Ev)
  | .ok (some via) => .ok (Ss.Ev.accepted salt :: via.map Ss.Ev.byte)
  | .ok none => .more
  | .err => .err

/-- the model's step as `cipherDecode` reads it: new state, remaining buffer, outcome -/
def stepView (d : Ss.Dec) (b : Bytes) : Fr.Step Ss.Dec Ss.Ev → Ss.Dec × Bytes × Octo.Res (List Ss.Ev)
  | .need => (d, b, .more)
  | .fail d' n => (d', b.drop n, .err)
  | .take d' n o => (d', b.drop n, .ok o)

/-- the cache after the call, read off the model's step: `check_nonce` ran iff the fixed header was complete, `set_nonce`
ran iff the step consumed bytes (i.e. the whole variable header was present) -/
def cacheAfter (E : MEnv) (c : SaltCache.Cache) (salt : Bytes) (short : Bool) : Fr.Step Ss.Dec Ss.Ev → SaltCache.Cache
  | .need => (SaltCache.get E.ttl E.nowMs c salt).2
  | .fail _ 0 => if short then c else (SaltCache.get E.ttl E.nowMs c salt).2
  | .fail _ (_ + 1) => (SaltCache.insert E.ttl E.cap E.nowMs (SaltCache.get E.ttl E.nowMs c salt).2 salt).2
  | .take _ _ _ => (SaltCache.insert E.ttl E.cap E.nowMs (SaltCache.get E.ttl E.nowMs c salt).2 salt).2

def isTake : Fr.Step Ss.Dec Ss.Ev → Bool
  | .take _ _ _ => true
  | _ => false

/-- agreement of one call of the generated `init_aead_2022_payload_decoder` with the model's `init2022` -/
structure Agree (E : MEnv) (k : Ss.Kind) (self : AEADCipherCodec MT) (context : Context MT) (session : Session) (src : Bytes)
    (out : AEADCipherCodec MT × Context MT × Session × Cursor × RResult (Option Cursor)) : Prop where
  /-- decoder state, remaining buffer, outcome (bytes handed out, `Ok(None)`, `Err`) -/
  view : (({ chunk := out.1.decoder.map toCD, sess := (stepView ⟨none, toSess session⟩ src
            (Ss.init2022 E.C (toCtx k context) (envOf E context.nonce_cache) ⟨none, toSess session⟩ src)).1.sess } : Ss.Dec),
          out.2.2.2.1, absRes (src.take k.n) out.2.2.2.2) =
      stepView ⟨none, toSess session⟩ src (Ss.init2022 E.C (toCtx k context) (envOf E context.nonce_cache) ⟨none, toSess session⟩ src)
  /-- on acceptance the session is the model's session -/
  sess : isTake (Ss.init2022 E.C (toCtx k context) (envOf E context.nonce_cache) ⟨none, toSess session⟩ src) = true →
      toSess out.2.2.1 = (stepView ⟨none, toSess session⟩ src
        (Ss.init2022 E.C (toCtx k context) (envOf E context.nonce_cache) ⟨none, toSess session⟩ src)).1.sess
  /-- always: mode and own salt are untouched -/
  frame : out.2.2.1.mode = session.mode ∧ out.2.2.1.identity.salt = session.identity.salt ∧ out.1.encoder = self.encoder
  /-- the cache operations -/
  cache : out.2.1 = { context with nonce_cache := (cacheAfter E context.nonce_cache (src.take k.n)
      (decide (src.length < k.n + ((if Ss.requireEih (toCtx k context) (toSess session) then 16 else 0) + 1 + 8 +
        (if (toSess session).mode = .server then 0 else k.n) + 2 + 16)))
      (Ss.init2022 E.C (toCtx k context) (envOf E context.nonce_cache) ⟨none, toSess session⟩ src)) }


theorem addOk_u16 (x : UInt16) : U64.addOk (U16.as_usize x) 16 = true := by
  have := x.toNat_lt
  have e : (U16.as_usize x).toNat = x.toNat := by
    rw [U16.as_usize]; exact UInt64.toNat_ofNat_of_lt' (Nat.lt_trans this (by decide))
  simp only [U64.addOk, e, UInt64.reduceToNat, decide_eq_true_eq]; omega

theorem addOk_u16' (x : UInt16) : decide ((U16.as_usize x).toNat + 16 < 18446744073709551616) = true := by
  have := x.toNat_lt
  have e : (U16.as_usize x).toNat = x.toNat := by
    rw [U16.as_usize]; exact UInt64.toNat_ofNat_of_lt' (Nat.lt_trans this (by decide))
  rw [e, decide_eq_true_eq]; omega

theorem len_add16 (h : List UInt8) : (U16.as_usize (UInt16.ofNat (beNat (h.take 2))) + 16).toNat = rdBE (h.take 2) + 16 := by
  have := beNat_take_lt h 2
  rw [UInt64.toNat_add, u16_len]
  show (rdBE (h.take 2) + 16) % 2 ^ 64 = _
  have : rdBE (h.take 2) = beNat (h.take 2) := rfl
  omega

theorem io_remaining_ge (b : List UInt8) (pos x : Usize) (hb : b.length < 2 ^ 64) :
    decide (IoCursor.remaining ⟨b, pos⟩ ≥ x) = decide (x.toNat ≤ b.length - pos.toNat) := by
  have e : (IoCursor.remaining ⟨b, pos⟩).toNat = b.length - pos.toNat := by
    simp only [IoCursor.remaining]; exact UInt64.toNat_ofNat_of_lt' (by simp [UInt64.size]; omega)
  rw [decide_eq_decide, ge_iff_le, UInt64.le_iff_toNat_le, e]


theorem model_decode_rest_le (b r : Bytes) (a : Addr) (h : Socks5Addr.decode b = .ok (a, r)) : r.length ≤ b.length := by
  match b with
  | [] => simp [model_decode_nil] at h
  | t :: rest =>
    by_cases h1 : t = 1
    · subst h1; rw [model_decode_v4] at h
      split at h
      · cases h
      · cases h; simp only [List.length_drop, List.length_cons]; omega
    by_cases h4 : t = 4
    · subst h4; rw [model_decode_v6] at h
      split at h
      · cases h
      · cases h; simp only [List.length_drop, List.length_cons]; omega
    by_cases h3 : t = 3
    · subst h3
      match rest with
      | [] => rw [model_decode_domain_nil] at h; cases h
      | l :: r' =>
        rw [model_decode_domain] at h
        split at h
        · cases h
        · cases h; simp only [List.length_drop, List.length_cons]; omega
    · rw [model_decode_other t rest h1 h3 h4] at h; cases h

theorem cacheAfter_fail_pos (E : MEnv) (c : SaltCache.Cache) (salt : Bytes) (short : Bool) (d : Ss.Dec) (n : Nat) (hn : 0 < n) :
    cacheAfter E c salt short (.fail d n) =
      (SaltCache.insert E.ttl E.cap E.nowMs (SaltCache.get E.ttl E.nowMs c salt).2 salt).2 := by
  cases n with
  | zero => cases hn
  | succ m => rfl

theorem kn_cases (k : Ss.Kind) (N : Usize) (h : N.toNat = k.n) : (N = 16 ∧ k.n = 16) ∨ (N = 32 ∧ k.n = 32) := by
  cases k <;> simp [Ss.Kind.n] at h ⊢ <;> exact UInt64.toNat_inj.mp h

theorem open_eval (E : MEnv) (a : Ss.Auth) (buf : Bytes) :
    (XM E).Authenticator_open a buf = match Ss.Auth.openB E.C a buf with
      | (some p, a') => PWGen.Res.ok (a', p, RResult.ok ())
      | (none, a') => PWGen.Res.ok (a', buf, RResult.err) := rfl

theorem new_decoder_eval (E : MEnv) (kind : CipherKind) (k : Ss.Kind) (hk : toKind kind = some k) (key salt : Bytes) :
    (XM E).aead_2022_new_decoder kind key salt = PWGen.Res.ok ⟨auth2022 E.C k key salt, .Length⟩ := by simp [XM, hk]


theorem init2022_server_psk (ov : Bool) (E : MEnv) (k : Ss.Kind) (N : Usize) (self : AEADCipherCodec MT) (context : Context MT)
    (session : Session) (src : List UInt8)
    (hk : toKind context.kind = some k) (h22 : k.is2022 = true) (hN : N.toNat = k.n)
    (hm : session.mode = .Server)
    (hreq : (k.supportEih && decide ((context.user_manager.getD []).length > 0)) = false)
    (hself : self.decoder = none)
    (hb : src.length < 2 ^ 64) (hn : k.n ≤ src.length) (hnow : E.now < 2 ^ 64)
    (hopen : ∀ a key n ad c p, E.C.openB a key n ad c = some p → c.length = p.length + 16) :
    ∃ out, AEADCipherCodec.init_aead_2022_payload_decoder ov (XM E) N self context session src = PWGen.Res.ok out ∧
      Agree E k self context session src out := by
  unfold AEADCipherCodec.init_aead_2022_payload_decoder
  have hr : k.supportEih = false ∨ context.user_manager = none ∨ context.user_manager = some [] := by
    cases hse : k.supportEih
    · exact Or.inl rfl
    · cases hum : context.user_manager with
      | none => exact Or.inr (Or.inl rfl)
      | some m =>
        have : m.length = 0 := by simpa [hse, hum, Option.getD] using hreq
        have := List.length_eq_zero_iff.mp this
        subst this
        exact Or.inr (Or.inr rfl)
  have hmm : (toSess session).mode = .server := by simp [toSess, hm, toMode]
  have hR : Ss.requireEih (toCtx k context) (toSess session) = false := by
    simp only [Ss.requireEih, hmm, decide_true, Bool.true_and]
    show (k.supportEih && decide (((context.user_manager.getD []).map toUser).length > 0)) = false
    rw [List.length_map]; exact hreq
  have hR' := hR
  simp only [toCtx] at hR'
  simp only [tag_size_eval E _ k hk, call_ok, bind_next, hm, support_eih_eval ov _ k hk, user_count_eval]
  rcases kn_cases k N hN with ⟨rfl, hkn⟩ | ⟨rfl, hkn⟩
  · rcases hr with hr | hr | hr
    all_goals
      simp only [hr, if_true, Bool.not_false, Bool.not_true, Bool.false_eq_true, if_false, bind_next, call_ok, List.length_nil,
        U64.addOk, UInt64.reduceAdd, UInt64.reduceToNat, UInt64.reduceOfNat, Nat.reduceAdd, Nat.reducePow, Nat.reduceLT, decide_true, arith_true,
        remaining_lt src hb, gt_iff_lt, UInt64.lt_irrefl, decide_false, ite_self]
    all_goals
      by_cases g1 : src.length < 43
      · simp only [g1, decide_true, if_true, bind_ret, run_ret]
        refine ⟨_, rfl, ?_⟩
        have hM : Ss.init2022 E.C (toCtx k context) (envOf E context.nonce_cache) ⟨none, toSess session⟩ src = .fail ⟨none, toSess session⟩ 0 := by
          simp only [Ss.init2022, hR, hR', hmm, if_true, Bool.false_eq_true, if_false, toCtx, hkn]
          rw [if_neg (by omega), if_pos (by omega)]
        constructor
        · simp [hM, stepView, absRes, hself]
        · simp [hM, isTake]
        · exact ⟨rfl, rfl, rfl⟩
        · simp [hM, cacheAfter, hR, hmm, hkn, g1]
      · simp only [g1, decide_false, Bool.false_eq_true, if_false, bind_next, IoCursor.new, Cursor.len, List.length_replicate,
          UInt64.reduceOfNat]
        rw [io_slice_eval src 0 16 (by simp; omega)]
        simp only [bind_next, UInt64.reduceToNat, List.drop_zero, UInt64.reduceAdd]
        have hsne : src.take 16 ≠ [] := by
          intro h
          have h16 : (src.take 16).length = 16 := by rw [List.length_take]; omega
          rw [h] at h16; simp at h16
        rw [check_nonce_eval ov E 16 context (src.take 16) hsne]
        simp only [call_ok, bind_next]
        by_cases g2 : (SaltCache.get E.ttl E.nowMs context.nonce_cache (src.take 16)).1 = true
        · simp only [g2, if_true, bind_ret, run_ret]
          refine ⟨_, rfl, ?_⟩
          have hM : Ss.init2022 E.C (toCtx k context) (envOf E context.nonce_cache) ⟨none, toSess session⟩ src = .fail ⟨none, toSess session⟩ 0 := by
            simp only [Ss.init2022, hR, hR', hmm, if_true, Bool.false_eq_true, if_false, toCtx, hkn]
            rw [if_neg (by omega), if_neg (by omega), if_pos (by simpa [envOf] using g2)]
          constructor
          · simp [hM, stepView, absRes, hself]
          · simp [hM, isTake]
          · exact ⟨rfl, rfl, rfl⟩
          · simp [hM, cacheAfter, hR, hmm, hkn, g1]
        · simp only [g2, Bool.false_eq_true, if_false, bind_next]
          rw [io_bytes_eval src 16 27 (by simp; omega)]
          simp only [bind_next, UInt64.reduceToNat, UInt64.reduceAdd, new_decoder_eval E _ k hk, call_ok, open_eval]
          have g2' : (envOf E context.nonce_cache).saltSeen (src.take 16) = false := by simpa [envOf] using g2
          have hlt : ((src.drop 16).take 27).length = 27 := by rw [List.length_take, List.length_drop]; omega
          cases hop : Ss.Auth.openB E.C (auth2022 E.C k context.key (src.take 16)) ((src.drop 16).take 27) with
          | mk o a1 =>
          cases o with
          | none =>
            simp only [call_ok, bind_next, q_err, bind_ret, run_ret]
            refine ⟨_, rfl, ?_⟩
            have hM : Ss.init2022 E.C (toCtx k context) (envOf E context.nonce_cache) ⟨none, toSess session⟩ src =
                .fail ⟨none, { toSess session with requestSalt := some (src.take 16) }⟩ 0 := by
              simp only [Ss.init2022, hR, hR', hmm, if_true, Bool.false_eq_true, if_false, toCtx, hkn, Ss.init2022Key]
              rw [if_neg (by omega), if_neg (by omega), if_neg (by simp [g2'])]
              simp only [newAuth_2022 _ _ _ _ h22, List.drop_zero, hop]
            exact ⟨by simp [hM, stepView, absRes, hself], by simp [hM, isTake], ⟨by simp [hm], rfl, rfl⟩,
              by simp [hM, cacheAfter, hR, hmm, hkn, g1]⟩
          | some h =>
            have hl : h.length = 11 := by
              have := hopen _ _ _ _ _ _ (congrArg Prod.fst hop)
              omega
            simp only [call_ok, bind_next, q_ok]
            rw [get_u8_eval h (by omega)]
            simp only [bind_next, expect_u8_eval, call_ok, toMode, Ss.Mode.expectU8]
            have hM0 : Ss.init2022 E.C (toCtx k context) (envOf E context.nonce_cache) ⟨none, toSess session⟩ src =
                Ss.init2022Tail E.C (envOf E context.nonce_cache) ⟨none, { toSess session with requestSalt := some (src.take 16) }⟩
                  { toSess session with requestSalt := some (src.take 16) } src 16 27 0 (src.take 16) a1 h := by
              simp only [Ss.init2022, hR, hR', hmm, if_true, Bool.false_eq_true, if_false, toCtx, hkn, Ss.init2022Key]
              rw [if_neg (by omega), if_neg (by omega), if_neg (by simp [g2'])]
              simp only [newAuth_2022 _ _ _ _ h22, List.drop_zero, hop]
            have hs1 : ({ toSess session with requestSalt := some (src.take 16) } : Ss.Sess).mode = .server := hmm
            by_cases g3 : h.headD 0 = 0
            · simp only [g3, bne_self_eq_false, Bool.false_eq_true, if_false, bind_next]
              rw [get_u64_eval (h.drop 1) (by rw [List.length_drop]; omega)]
              simp only [bind_next, validate_timestamp_eval ov E _ hnow, call_ok, u64_of_be8]
              by_cases g4 : Ss.absDiff E.now (rdBE ((h.drop 1).take 8)) > Consts.ssMaxTimeDiff
              · simp only [g4, if_true, q_err, bind_ret, run_ret]
                refine ⟨_, rfl, ?_⟩
                have hM : Ss.init2022 E.C (toCtx k context) (envOf E context.nonce_cache) ⟨none, toSess session⟩ src =
                    .fail ⟨none, { toSess session with requestSalt := some (src.take 16) }⟩ 0 := by
                  rw [hM0]; simp only [Ss.init2022Tail, hmm, envOf]; rw [if_neg (fun hne => hne g3), if_pos g4]
                exact ⟨by simp [hM, stepView, absRes, hself], by simp [hM, isTake], ⟨by simp [hm], rfl, rfl⟩,
                  by simp [hM, cacheAfter, hR, hmm, hkn, g1]⟩
              · simp only [g4, if_false, q_ok, bind_next, Bool.false_eq_true]
                rw [get_u16_eval ((h.drop 1).drop 8) (by simp only [List.length_drop]; omega)]
                simp only [bind_next]
                rw [io_remaining_ge src 43 _ hb]
                simp only [addOk_u16, addOk_u16', arith_true, bind_next, len_add16, UInt64.reduceToNat, List.drop_drop, Nat.reduceAdd]
                have hdl : (src.drop 43).length = src.length - 43 := List.length_drop
                by_cases g5 : (src.drop 43).length < rdBE ((h.drop 9).take 2) + 16
                · have e5 : ¬ (rdBE ((h.drop 9).take 2) + 16 ≤ src.length - 43) := by omega
                  simp only [e5, decide_false, Bool.false_eq_true, if_false, bind_next, run_ret]
                  refine ⟨_, rfl, ?_⟩
                  have hM : Ss.init2022 E.C (toCtx k context) (envOf E context.nonce_cache) ⟨none, toSess session⟩ src = .need := by
                    rw [hM0]; simp only [Ss.init2022Tail, hmm, envOf]
                    rw [if_neg (fun hne => hne g3), if_neg g4, if_neg (by simp), if_pos g5]
                  exact ⟨by simp [hM, stepView, absRes, hself], by simp [hM, isTake], ⟨by simp [hm], rfl, rfl⟩,
                    by simp [hM, cacheAfter, hkn]⟩
                · have e5 : (rdBE ((h.drop 9).take 2) + 16 ≤ src.length - 43) := by omega
                  simp only [e5, decide_true, if_true, set_nonce_eval, call_ok, bind_next,
                    insert_after_get _ _ _ _ _ (by simpa using g2), Bool.not_false, Bool.not_true, Bool.false_eq_true, if_false,
                    IoCursor.position, U64.as_usize]
                  rw [advance_eval src 43 (by simp; omega)]
                  simp only [bind_next, addOk_u16, addOk_u16', arith_true, UInt64.reduceToNat]
                  rw [split_to_eval (src.drop 43) _ (by rw [len_add16]; omega)]
                  simp only [bind_next, len_add16, List.drop_drop, open_eval]
                  have g2f : (SaltCache.get E.ttl E.nowMs context.nonce_cache (src.take 16)).1 = false := by simpa using g2
                  have hMt : Ss.init2022 E.C (toCtx k context) (envOf E context.nonce_cache) ⟨none, toSess session⟩ src =
                      (match Ss.Auth.openB E.C a1 ((src.drop 43).take (rdBE ((h.drop 9).take 2) + 16)) with
                       | (none, _) => .fail ⟨none, { toSess session with requestSalt := some (src.take 16) }⟩
                           (16 + 27 + rdBE ((h.drop 9).take 2) + 16)
                       | (some via, a) =>
                         if (toSess session).address.isNone then
                           match Socks5Addr.decode via with
                           | .ok (addr, via) =>
                             if via.length < 2 then .fail ⟨some ⟨a, .length⟩, { toSess session with requestSalt := some (src.take 16) }⟩
                               (16 + 27 + rdBE ((h.drop 9).take 2) + 16) else
                             if via.length < 2 + rdBE (via.take 2) then
                               .fail ⟨some ⟨a, .length⟩, { toSess session with requestSalt := some (src.take 16) }⟩
                                 (16 + 27 + rdBE ((h.drop 9).take 2) + 16) else
                             .take ⟨some ⟨a, .length⟩, { toSess session with requestSalt := some (src.take 16), address := some addr }⟩
                               (16 + 27 + rdBE ((h.drop 9).take 2) + 16)
                               (.accepted (src.take 16) :: (via.drop (2 + rdBE (via.take 2))).map .byte)
                           | _ => .fail ⟨some ⟨a, .length⟩, { toSess session with requestSalt := some (src.take 16) }⟩
                               (16 + 27 + rdBE ((h.drop 9).take 2) + 16)
                         else .take ⟨some ⟨a, .length⟩, { toSess session with requestSalt := some (src.take 16) }⟩
                           (16 + 27 + rdBE ((h.drop 9).take 2) + 16) (.accepted (src.take 16) :: via.map .byte)) := by
                    rw [hM0]; simp only [Ss.init2022Tail, hmm, envOf]
                    rw [if_neg (fun hne => hne g3), if_neg g4, if_neg (by simp), if_neg g5]
                    simp only [Nat.add_zero, Nat.reduceAdd, reduceCtorEq, if_false, true_and]
                    rfl
                  have hc : 43 + (rdBE ((h.drop 9).take 2) + 16) = 16 + 27 + rdBE ((h.drop 9).take 2) + 16 := by omega
                  rw [hc]
                  have hctl : ((src.drop 43).take (rdBE ((h.drop 9).take 2) + 16)).length = rdBE ((h.drop 9).take 2) + 16 := by
                    rw [List.length_take]; omega
                  have hL : rdBE ((h.drop 9).take 2) < 65536 := beNat_take_lt (h.drop 9) 2
                  cases hop2 : Ss.Auth.openB E.C a1 ((src.drop 43).take (rdBE ((h.drop 9).take 2) + 16)) with
                  | mk o2 a2 =>
                  rw [hop2] at hMt
                  cases o2 with
                  | none =>
                    simp only [call_ok, bind_next, q_err, bind_ret, run_ret]
                    refine ⟨_, rfl, ?_⟩
                    exact ⟨by simp [hMt, stepView, absRes, hself], by simp [hMt, isTake], ⟨by simp [hm], rfl, rfl⟩,
                      by rw [hMt, cacheAfter_fail_pos _ _ _ _ _ _ (by omega), hkn]⟩
                  | some via =>
                    have hvl : via.length < 65536 := by
                      have := hopen _ _ _ _ _ _ (congrArg Prod.fst hop2)
                      omega
                    simp only [call_ok, bind_next, q_ok, Bool.true_and]
                    cases hadr : session.address with
                    | some ad =>
                      have hta : (toSess session).address = some (toAddr ad) := by simp [toSess, hadr]
                      simp only [hta, Option.isNone_some, Bool.false_eq_true, if_false] at hMt
                      simp only [Option.isNone_some, Bool.false_eq_true, if_false, bind_next, run_ret]
                      refine ⟨_, rfl, ?_⟩
                      exact ⟨by simp [hMt, stepView, absRes, toCD, toState, hkn], by intro _; rw [hMt]; simp [stepView, toSess, hm, hadr, toMode],
                        ⟨by simp [hm], rfl, rfl⟩, by rw [hMt]; simp [cacheAfter, hkn]⟩
                    | none =>
                      have hta : (toSess session).address = none := by simp [toSess, hadr]
                      simp only [hta, Option.isNone_none, if_true] at hMt
                      simp only [Option.isNone_none, if_true]
                      have hde := decode_eq ov via (Nat.lt_trans hvl (by decide))
                      cases hdc : AddrGen.decode ov via with
                      | panic =>
                        rw [hdc] at hde
                        exact absurd hde.symm (c14_socks5_decode_total via)
                      | ok r =>
                        obtain ⟨b', ra⟩ := r
                        cases ra with
                        | err =>
                          rw [hdc] at hde
                          simp only [embedDecode] at hde
                          rw [← hde] at hMt
                          simp only [call_ok, bind_next, q_err, bind_ret, run_ret]
                          refine ⟨_, rfl, ?_⟩
                          exact ⟨by simp [hMt, stepView, absRes, toCD, toState], by simp [hMt, isTake],
                            ⟨by simp [hm], rfl, rfl⟩, by rw [hMt, cacheAfter_fail_pos _ _ _ _ _ _ (by omega), hkn]⟩
                        | ok a =>
                          rw [hdc] at hde
                          simp only [embedDecode] at hde
                          rw [← hde] at hMt
                          simp only [] at hMt
                          have hb' : b'.length < 2 ^ 64 := by
                            have := model_decode_rest_le via b' (toAddr a) hde.symm
                            omega
                          simp only [call_ok, bind_next, q_ok, remaining_lt b' hb', UInt64.reduceToNat]
                          by_cases p1 : b'.length < 2
                          · simp only [p1, if_true] at hMt
                            simp only [p1, decide_true, if_true, bind_ret, run_ret]
                            refine ⟨_, rfl, ?_⟩
                            exact ⟨by simp [hMt, stepView, absRes, toCD, toState], by simp [hMt, isTake],
                              ⟨by simp [hm], rfl, rfl⟩, by rw [hMt, cacheAfter_fail_pos _ _ _ _ _ _ (by omega), hkn]⟩
                          · simp only [p1, if_false] at hMt
                            simp only [p1, decide_false, Bool.false_eq_true, if_false, bind_next]
                            rw [get_u16_eval b' (by omega)]
                            have hb2 : (b'.drop 2).length < 2 ^ 64 := by rw [List.length_drop]; omega
                            simp only [bind_next, remaining_lt _ hb2, u16_len]
                            have hd2 : (b'.drop 2).length = b'.length - 2 := List.length_drop
                            by_cases p2 : (b'.drop 2).length < rdBE (b'.take 2)
                            · rw [if_pos (by omega)] at hMt
                              simp only [p2, decide_true, if_true, bind_ret, run_ret]
                              refine ⟨_, rfl, ?_⟩
                              exact ⟨by simp [hMt, stepView, absRes, toCD, toState], by simp [hMt, isTake],
                                ⟨by simp [hm], rfl, rfl⟩, by rw [hMt, cacheAfter_fail_pos _ _ _ _ _ _ (by omega), hkn]⟩
                            · rw [if_neg (by omega)] at hMt
                              simp only [p2, decide_false, Bool.false_eq_true, if_false, bind_next]
                              rw [advance_eval (b'.drop 2) _ (by rw [u16_len]; omega)]
                              simp only [bind_next, u16_len, List.drop_drop, run_ret]
                              refine ⟨_, rfl, ?_⟩
                              exact ⟨by simp [hMt, stepView, absRes, toCD, toState, hkn],
                                by intro _; rw [hMt]; simp [stepView, toSess, hm, hadr, toMode],
                                ⟨by simp [hm], rfl, rfl⟩, by rw [hMt]; simp [cacheAfter, hkn]⟩
            · have g3' : (h.headD 0 != 0) = true := by simpa using g3
              simp only [g3', if_true, bind_ret, run_ret]
              refine ⟨_, rfl, ?_⟩
              have hM : Ss.init2022 E.C (toCtx k context) (envOf E context.nonce_cache) ⟨none, toSess session⟩ src =
                  .fail ⟨none, { toSess session with requestSalt := some (src.take 16) }⟩ 0 := by
                rw [hM0]; simp only [Ss.init2022Tail, hmm, envOf]; rw [if_pos (show h.headD 0 ≠ Ss.Mode.server.expectU8 from g3)]
              exact ⟨by simp [hM, stepView, absRes, hself], by simp [hM, isTake], ⟨by simp [hm], rfl, rfl⟩,
                by simp [hM, cacheAfter, hR, hmm, hkn, g1]⟩
  · rcases hr with hr | hr | hr
    all_goals
      simp only [hr, if_true, Bool.not_false, Bool.not_true, Bool.false_eq_true, if_false, bind_next, call_ok, List.length_nil,
        U64.addOk, UInt64.reduceAdd, UInt64.reduceToNat, UInt64.reduceOfNat, Nat.reduceAdd, Nat.reducePow, Nat.reduceLT, decide_true, arith_true,
        remaining_lt src hb, gt_iff_lt, UInt64.lt_irrefl, decide_false, ite_self]
    all_goals
      by_cases g1 : src.length < 59
      · simp only [g1, decide_true, if_true, bind_ret, run_ret]
        refine ⟨_, rfl, ?_⟩
        have hM : Ss.init2022 E.C (toCtx k context) (envOf E context.nonce_cache) ⟨none, toSess session⟩ src = .fail ⟨none, toSess session⟩ 0 := by
          simp only [Ss.init2022, hR, hR', hmm, if_true, Bool.false_eq_true, if_false, toCtx, hkn]
          rw [if_neg (by omega), if_pos (by omega)]
        constructor
        · simp [hM, stepView, absRes, hself]
        · simp [hM, isTake]
        · exact ⟨rfl, rfl, rfl⟩
        · simp [hM, cacheAfter, hR, hmm, hkn, g1]
      · simp only [g1, decide_false, Bool.false_eq_true, if_false, bind_next, IoCursor.new, Cursor.len, List.length_replicate,
          UInt64.reduceOfNat]
        rw [io_slice_eval src 0 32 (by simp; omega)]
        simp only [bind_next, UInt64.reduceToNat, List.drop_zero, UInt64.reduceAdd]
        have hsne : src.take 32 ≠ [] := by
          intro h
          have h32 : (src.take 32).length = 32 := by rw [List.length_take]; omega
          rw [h] at h32; simp at h32
        rw [check_nonce_eval ov E 32 context (src.take 32) hsne]
        simp only [call_ok, bind_next]
        by_cases g2 : (SaltCache.get E.ttl E.nowMs context.nonce_cache (src.take 32)).1 = true
        · simp only [g2, if_true, bind_ret, run_ret]
          refine ⟨_, rfl, ?_⟩
          have hM : Ss.init2022 E.C (toCtx k context) (envOf E context.nonce_cache) ⟨none, toSess session⟩ src = .fail ⟨none, toSess session⟩ 0 := by
            simp only [Ss.init2022, hR, hR', hmm, if_true, Bool.false_eq_true, if_false, toCtx, hkn]
            rw [if_neg (by omega), if_neg (by omega), if_pos (by simpa [envOf] using g2)]
          constructor
          · simp [hM, stepView, absRes, hself]
          · simp [hM, isTake]
          · exact ⟨rfl, rfl, rfl⟩
          · simp [hM, cacheAfter, hR, hmm, hkn, g1]
        · simp only [g2, Bool.false_eq_true, if_false, bind_next]
          rw [io_bytes_eval src 32 27 (by simp; omega)]
          simp only [bind_next, UInt64.reduceToNat, UInt64.reduceAdd, new_decoder_eval E _ k hk, call_ok, open_eval]
          have g2' : (envOf E context.nonce_cache).saltSeen (src.take 32) = false := by simpa [envOf] using g2
          have hlt : ((src.drop 32).take 27).length = 27 := by rw [List.length_take, List.length_drop]; omega
          cases hop : Ss.Auth.openB E.C (auth2022 E.C k context.key (src.take 32)) ((src.drop 32).take 27) with
          | mk o a1 =>
          cases o with
          | none =>
            simp only [call_ok, bind_next, q_err, bind_ret, run_ret]
            refine ⟨_, rfl, ?_⟩
            have hM : Ss.init2022 E.C (toCtx k context) (envOf E context.nonce_cache) ⟨none, toSess session⟩ src =
                .fail ⟨none, { toSess session with requestSalt := some (src.take 32) }⟩ 0 := by
              simp only [Ss.init2022, hR, hR', hmm, if_true, Bool.false_eq_true, if_false, toCtx, hkn, Ss.init2022Key]
              rw [if_neg (by omega), if_neg (by omega), if_neg (by simp [g2'])]
              simp only [newAuth_2022 _ _ _ _ h22, List.drop_zero, hop]
            exact ⟨by simp [hM, stepView, absRes, hself], by simp [hM, isTake], ⟨by simp [hm], rfl, rfl⟩,
              by simp [hM, cacheAfter, hR, hmm, hkn, g1]⟩
          | some h =>
            have hl : h.length = 11 := by
              have := hopen _ _ _ _ _ _ (congrArg Prod.fst hop)
              omega
            simp only [call_ok, bind_next, q_ok]
            rw [get_u8_eval h (by omega)]
            simp only [bind_next, expect_u8_eval, call_ok, toMode, Ss.Mode.expectU8]
            have hM0 : Ss.init2022 E.C (toCtx k context) (envOf E context.nonce_cache) ⟨none, toSess session⟩ src =
                Ss.init2022Tail E.C (envOf E context.nonce_cache) ⟨none, { toSess session with requestSalt := some (src.take 32) }⟩
                  { toSess session with requestSalt := some (src.take 32) } src 32 27 0 (src.take 32) a1 h := by
              simp only [Ss.init2022, hR, hR', hmm, if_true, Bool.false_eq_true, if_false, toCtx, hkn, Ss.init2022Key]
              rw [if_neg (by omega), if_neg (by omega), if_neg (by simp [g2'])]
              simp only [newAuth_2022 _ _ _ _ h22, List.drop_zero, hop]
            have hs1 : ({ toSess session with requestSalt := some (src.take 32) } : Ss.Sess).mode = .server := hmm
            by_cases g3 : h.headD 0 = 0
            · simp only [g3, bne_self_eq_false, Bool.false_eq_true, if_false, bind_next]
              rw [get_u64_eval (h.drop 1) (by rw [List.length_drop]; omega)]
              simp only [bind_next, validate_timestamp_eval ov E _ hnow, call_ok, u64_of_be8]
              by_cases g4 : Ss.absDiff E.now (rdBE ((h.drop 1).take 8)) > Consts.ssMaxTimeDiff
              · simp only [g4, if_true, q_err, bind_ret, run_ret]
                refine ⟨_, rfl, ?_⟩
                have hM : Ss.init2022 E.C (toCtx k context) (envOf E context.nonce_cache) ⟨none, toSess session⟩ src =
                    .fail ⟨none, { toSess session with requestSalt := some (src.take 32) }⟩ 0 := by
                  rw [hM0]; simp only [Ss.init2022Tail, hmm, envOf]; rw [if_neg (fun hne => hne g3), if_pos g4]
                exact ⟨by simp [hM, stepView, absRes, hself], by simp [hM, isTake], ⟨by simp [hm], rfl, rfl⟩,
                  by simp [hM, cacheAfter, hR, hmm, hkn, g1]⟩
              · simp only [g4, if_false, q_ok, bind_next, Bool.false_eq_true]
                rw [get_u16_eval ((h.drop 1).drop 8) (by simp only [List.length_drop]; omega)]
                simp only [bind_next]
                rw [io_remaining_ge src 59 _ hb]
                simp only [addOk_u16, addOk_u16', arith_true, bind_next, len_add16, UInt64.reduceToNat, List.drop_drop, Nat.reduceAdd]
                have hdl : (src.drop 59).length = src.length - 59 := List.length_drop
                by_cases g5 : (src.drop 59).length < rdBE ((h.drop 9).take 2) + 16
                · have e5 : ¬ (rdBE ((h.drop 9).take 2) + 16 ≤ src.length - 59) := by omega
                  simp only [e5, decide_false, Bool.false_eq_true, if_false, bind_next, run_ret]
                  refine ⟨_, rfl, ?_⟩
                  have hM : Ss.init2022 E.C (toCtx k context) (envOf E context.nonce_cache) ⟨none, toSess session⟩ src = .need := by
                    rw [hM0]; simp only [Ss.init2022Tail, hmm, envOf]
                    rw [if_neg (fun hne => hne g3), if_neg g4, if_neg (by simp), if_pos g5]
                  exact ⟨by simp [hM, stepView, absRes, hself], by simp [hM, isTake], ⟨by simp [hm], rfl, rfl⟩,
                    by simp [hM, cacheAfter, hkn]⟩
                · have e5 : (rdBE ((h.drop 9).take 2) + 16 ≤ src.length - 59) := by omega
                  simp only [e5, decide_true, if_true, set_nonce_eval, call_ok, bind_next,
                    insert_after_get _ _ _ _ _ (by simpa using g2), Bool.not_false, Bool.not_true, Bool.false_eq_true, if_false,
                    IoCursor.position, U64.as_usize]
                  rw [advance_eval src 59 (by simp; omega)]
                  simp only [bind_next, addOk_u16, addOk_u16', arith_true, UInt64.reduceToNat]
                  rw [split_to_eval (src.drop 59) _ (by rw [len_add16]; omega)]
                  simp only [bind_next, len_add16, List.drop_drop, open_eval]
                  have g2f : (SaltCache.get E.ttl E.nowMs context.nonce_cache (src.take 32)).1 = false := by simpa using g2
                  have hMt : Ss.init2022 E.C (toCtx k context) (envOf E context.nonce_cache) ⟨none, toSess session⟩ src =
                      (match Ss.Auth.openB E.C a1 ((src.drop 59).take (rdBE ((h.drop 9).take 2) + 16)) with
                       | (none, _) => .fail ⟨none, { toSess session with requestSalt := some (src.take 32) }⟩
                           (32 + 27 + rdBE ((h.drop 9).take 2) + 16)
                       | (some via, a) =>
                         if (toSess session).address.isNone then
                           match Socks5Addr.decode via with
                           | .ok (addr, via) =>
                             if via.length < 2 then .fail ⟨some ⟨a, .length⟩, { toSess session with requestSalt := some (src.take 32) }⟩
                               (32 + 27 + rdBE ((h.drop 9).take 2) + 16) else
                             if via.length < 2 + rdBE (via.take 2) then
                               .fail ⟨some ⟨a, .length⟩, { toSess session with requestSalt := some (src.take 32) }⟩
                                 (32 + 27 + rdBE ((h.drop 9).take 2) + 16) else
                             .take ⟨some ⟨a, .length⟩, { toSess session with requestSalt := some (src.take 32), address := some addr }⟩
                               (32 + 27 + rdBE ((h.drop 9).take 2) + 16)
                               (.accepted (src.take 32) :: (via.drop (2 + rdBE (via.take 2))).map .byte)
                           | _ => .fail ⟨some ⟨a, .length⟩, { toSess session with requestSalt := some (src.take 32) }⟩
                               (32 + 27 + rdBE ((h.drop 9).take 2) + 16)
                         else .take ⟨some ⟨a, .length⟩, { toSess session with requestSalt := some (src.take 32) }⟩
                           (32 + 27 + rdBE ((h.drop 9).take 2) + 16) (.accepted (src.take 32) :: via.map .byte)) := by
                    rw [hM0]; simp only [Ss.init2022Tail, hmm, envOf]
                    rw [if_neg (fun hne => hne g3), if_neg g4, if_neg (by simp), if_neg g5]
                    simp only [Nat.add_zero, Nat.reduceAdd, reduceCtorEq, if_false, true_and]
                    rfl
                  have hc : 59 + (rdBE ((h.drop 9).take 2) + 16) = 32 + 27 + rdBE ((h.drop 9).take 2) + 16 := by omega
                  rw [hc]
                  have hctl : ((src.drop 59).take (rdBE ((h.drop 9).take 2) + 16)).length = rdBE ((h.drop 9).take 2) + 16 := by
                    rw [List.length_take]; omega
                  have hL : rdBE ((h.drop 9).take 2) < 65536 := beNat_take_lt (h.drop 9) 2
                  cases hop2 : Ss.Auth.openB E.C a1 ((src.drop 59).take (rdBE ((h.drop 9).take 2) + 16)) with
                  | mk o2 a2 =>
                  rw [hop2] at hMt
                  cases o2 with
                  | none =>
                    simp only [call_ok, bind_next, q_err, bind_ret, run_ret]
                    refine ⟨_, rfl, ?_⟩
                    exact ⟨by simp [hMt, stepView, absRes, hself], by simp [hMt, isTake], ⟨by simp [hm], rfl, rfl⟩,
                      by rw [hMt, cacheAfter_fail_pos _ _ _ _ _ _ (by omega), hkn]⟩
                  | some via =>
                    have hvl : via.length < 65536 := by
                      have := hopen _ _ _ _ _ _ (congrArg Prod.fst hop2)
                      omega
                    simp only [call_ok, bind_next, q_ok, Bool.true_and]
                    cases hadr : session.address with
                    | some ad =>
                      have hta : (toSess session).address = some (toAddr ad) := by simp [toSess, hadr]
                      simp only [hta, Option.isNone_some, Bool.false_eq_true, if_false] at hMt
                      simp only [Option.isNone_some, Bool.false_eq_true, if_false, bind_next, run_ret]
                      refine ⟨_, rfl, ?_⟩
                      exact ⟨by simp [hMt, stepView, absRes, toCD, toState, hkn], by intro _; rw [hMt]; simp [stepView, toSess, hm, hadr, toMode],
                        ⟨by simp [hm], rfl, rfl⟩, by rw [hMt]; simp [cacheAfter, hkn]⟩
                    | none =>
                      have hta : (toSess session).address = none := by simp [toSess, hadr]
                      simp only [hta, Option.isNone_none, if_true] at hMt
                      simp only [Option.isNone_none, if_true]
                      have hde := decode_eq ov via (Nat.lt_trans hvl (by decide))
                      cases hdc : AddrGen.decode ov via with
                      | panic =>
                        rw [hdc] at hde
                        exact absurd hde.symm (c14_socks5_decode_total via)
                      | ok r =>
                        obtain ⟨b', ra⟩ := r
                        cases ra with
                        | err =>
                          rw [hdc] at hde
                          simp only [embedDecode] at hde
                          rw [← hde] at hMt
                          simp only [call_ok, bind_next, q_err, bind_ret, run_ret]
                          refine ⟨_, rfl, ?_⟩
                          exact ⟨by simp [hMt, stepView, absRes, toCD, toState], by simp [hMt, isTake],
                            ⟨by simp [hm], rfl, rfl⟩, by rw [hMt, cacheAfter_fail_pos _ _ _ _ _ _ (by omega), hkn]⟩
                        | ok a =>
                          rw [hdc] at hde
                          simp only [embedDecode] at hde
                          rw [← hde] at hMt
                          simp only [] at hMt
                          have hb' : b'.length < 2 ^ 64 := by
                            have := model_decode_rest_le via b' (toAddr a) hde.symm
                            omega
                          simp only [call_ok, bind_next, q_ok, remaining_lt b' hb', UInt64.reduceToNat]
                          by_cases p1 : b'.length < 2
                          · simp only [p1, if_true] at hMt
                            simp only [p1, decide_true, if_true, bind_ret, run_ret]
                            refine ⟨_, rfl, ?_⟩
                            exact ⟨by simp [hMt, stepView, absRes, toCD, toState], by simp [hMt, isTake],
                              ⟨by simp [hm], rfl, rfl⟩, by rw [hMt, cacheAfter_fail_pos _ _ _ _ _ _ (by omega), hkn]⟩
                          · simp only [p1, if_false] at hMt
                            simp only [p1, decide_false, Bool.false_eq_true, if_false, bind_next]
                            rw [get_u16_eval b' (by omega)]
                            have hb2 : (b'.drop 2).length < 2 ^ 64 := by rw [List.length_drop]; omega
                            simp only [bind_next, remaining_lt _ hb2, u16_len]
                            have hd2 : (b'.drop 2).length = b'.length - 2 := List.length_drop
                            by_cases p2 : (b'.drop 2).length < rdBE (b'.take 2)
                            · rw [if_pos (by omega)] at hMt
                              simp only [p2, decide_true, if_true, bind_ret, run_ret]
                              refine ⟨_, rfl, ?_⟩
                              exact ⟨by simp [hMt, stepView, absRes, toCD, toState], by simp [hMt, isTake],
                                ⟨by simp [hm], rfl, rfl⟩, by rw [hMt, cacheAfter_fail_pos _ _ _ _ _ _ (by omega), hkn]⟩
                            · rw [if_neg (by omega)] at hMt
                              simp only [p2, decide_false, Bool.false_eq_true, if_false, bind_next]
                              rw [advance_eval (b'.drop 2) _ (by rw [u16_len]; omega)]
                              simp only [bind_next, u16_len, List.drop_drop, run_ret]
                              refine ⟨_, rfl, ?_⟩
                              exact ⟨by simp [hMt, stepView, absRes, toCD, toState, hkn],
                                by intro _; rw [hMt]; simp [stepView, toSess, hm, hadr, toMode],
                                ⟨by simp [hm], rfl, rfl⟩, by rw [hMt]; simp [cacheAfter, hkn]⟩
            · have g3' : (h.headD 0 != 0) = true := by simpa using g3
              simp only [g3', if_true, bind_ret, run_ret]
              refine ⟨_, rfl, ?_⟩
              have hM : Ss.init2022 E.C (toCtx k context) (envOf E context.nonce_cache) ⟨none, toSess session⟩ src =
                  .fail ⟨none, { toSess session with requestSalt := some (src.take 32) }⟩ 0 := by
                rw [hM0]; simp only [Ss.init2022Tail, hmm, envOf]; rw [if_pos (show h.headD 0 ≠ Ss.Mode.server.expectU8 from g3)]
              exact ⟨by simp [hM, stepView, absRes, hself], by simp [hM, isTake], ⟨by simp [hm], rfl, rfl⟩,
                by simp [hM, cacheAfter, hR, hmm, hkn, g1]⟩


/-! ## Part 3 — `init_payload_decoder` and `decode` (the recursive group) against `cipherDecode` -/

/-- the model's `cipherDecode` on a first 2022 call is the view of `init2022` -/
theorem cipherDecode_2022 (C : Crypto) (ctx : Ss.Ctx) (env : Ss.DecEnv) (s : Ss.Sess) (b : Bytes) (h22 : ctx.kind.is2022 = true) :
    Ss.cipherDecode C ctx env ⟨none, s⟩ b =
      if b.isEmpty then (⟨none, s⟩, b, .more) else stepView ⟨none, s⟩ b (Ss.init2022 C ctx env ⟨none, s⟩ b) := by
  unfold Ss.cipherDecode
  by_cases he : b.isEmpty = true
  · simp [he]
  · simp only [he, Bool.false_eq_true, if_false, Option.isNone_none, h22, and_self, if_true]
    cases Ss.init2022 C ctx env ⟨none, s⟩ b <;> rfl

theorem init2022_short (C : Crypto) (ctx : Ss.Ctx) (env : Ss.DecEnv) (d : Ss.Dec) (b : Bytes) (h : b.length < ctx.kind.n) :
    Ss.init2022 C ctx env d b = .need := by
  simp only [Ss.init2022, h, if_true]

/-- agreement of one `decode` call (no decoder yet, 2022 cipher) with the model's `cipherDecode` -/
structure AgreeCall (E : MEnv) (k : Ss.Kind) (self : AEADCipherCodec MT) (context : Context MT) (session : Session) (src : Bytes)
    (out : AEADCipherCodec MT × Context MT × Session × Cursor × RResult (Option Cursor)) : Prop where
  /-- decoder state, remaining buffer, outcome -/
  view : (({ chunk := out.1.decoder.map toCD, sess := (Ss.cipherDecode E.C (toCtx k context) (envOf E context.nonce_cache)
            ⟨none, toSess session⟩ src).1.sess } : Ss.Dec), out.2.2.2.1, absRes (src.take k.n) out.2.2.2.2) =
      Ss.cipherDecode E.C (toCtx k context) (envOf E context.nonce_cache) ⟨none, toSess session⟩ src
  /-- when bytes are handed out, the session is the model's -/
  sess : ∀ via, out.2.2.2.2 = .ok (some via) → toSess out.2.2.1 =
      (Ss.cipherDecode E.C (toCtx k context) (envOf E context.nonce_cache) ⟨none, toSess session⟩ src).1.sess
  frame : out.2.2.1.mode = session.mode ∧ out.2.2.1.identity.salt = session.identity.salt ∧ out.1.encoder = self.encoder
  /-- the cache is touched only through `check_nonce` / `set_nonce` -/
  static : out.2.1.key = context.key ∧ out.2.1.identity_keys = context.identity_keys ∧ out.2.1.kind = context.kind ∧
    out.2.1.user_manager = context.user_manager

theorem isTake_of_some (E : MEnv) (k : Ss.Kind) (self : AEADCipherCodec MT) (context : Context MT) (session : Session) (src : Bytes)
    (out : AEADCipherCodec MT × Context MT × Session × Cursor × RResult (Option Cursor)) (via : Cursor)
    (h : Agree E k self context session src out) (hv : out.2.2.2.2 = .ok (some via)) :
    isTake (Ss.init2022 E.C (toCtx k context) (envOf E context.nonce_cache) ⟨none, toSess session⟩ src) = true := by
  obtain ⟨this, _, _, _⟩ := h
  rw [hv] at this
  cases hs : Ss.init2022 E.C (toCtx k context) (envOf E context.nonce_cache) ⟨none, toSess session⟩ src with
  | need => rw [hs] at this; simp [stepView, absRes] at this
  | fail d n => rw [hs] at this; simp [stepView, absRes] at this
  | take d n o => rfl

/-- **one `decode` call, Shadowsocks 2022, server, pre-shared key**: never panics, terminates, and is the model's
`cipherDecode` -/
theorem decode_2022_server_psk (ov : Bool) (E : MEnv) (k : Ss.Kind) (N : Usize) (self : AEADCipherCodec MT) (context : Context MT)
    (session : Session) (src : List UInt8)
    (hk : toKind context.kind = some k) (h22 : k.is2022 = true) (hN : N.toNat = k.n)
    (hsalt : session.identity.salt.length = N.toNat)
    (hm : session.mode = .Server)
    (hreq : (k.supportEih && decide ((context.user_manager.getD []).length > 0)) = false)
    (hself : self.decoder = none)
    (hb : src.length < 2 ^ 64) (hnow : E.now < 2 ^ 64)
    (hopen : ∀ a key n ad c p, E.C.openB a key n ad c = some p → c.length = p.length + 16) :
    ∃ out, AEADCipherCodec.decode ov (XM E) N self context session src = PWGen.Res.ok out ∧
      AgreeCall E k self context session src out := by
  have hctx : (toCtx k context).kind.is2022 = true := h22
  rw [AEADCipherCodec.decode]
  by_cases he : src.isEmpty = true
  · simp only [Cursor.is_empty, he, if_true, bind_ret, run_ret]
    refine ⟨_, rfl, ?_⟩
    have hc := cipherDecode_2022 E.C (toCtx k context) (envOf E context.nonce_cache) (toSess session) src hctx
    rw [if_pos he] at hc
    exact ⟨by simp [hc, absRes, hself], by intro via hv; simp at hv, ⟨rfl, rfl, rfl⟩, ⟨rfl, rfl, rfl, rfl⟩⟩
  · simp only [Cursor.is_empty, he, Bool.false_eq_true, if_false, bind_next]
    have hc := cipherDecode_2022 E.C (toCtx k context) (envOf E context.nonce_cache) (toSess session) src hctx
    rw [if_neg he] at hc
    -- `match self.decoder`: `None`
    split
    · rename_i v hv; rw [hself] at hv; cases hv
    · rw [AEADCipherCodec.init_payload_decoder]
      have hsl : (Cursor.len session.identity.salt).toNat = k.n := by
        rw [Cursor.len, hsalt, UInt64.ofNat_toNat, hN]
      by_cases hshort : src.length < k.n
      · simp only [remaining_lt src hb, hsl, hshort, decide_true, if_true, bind_ret, run_ret, call_ok, bind_next]
        refine ⟨_, rfl, ?_⟩
        rw [init2022_short _ _ _ _ _ hshort] at hc
        exact ⟨by simp [hc, stepView, absRes, hself], by intro via hv; simp at hv, ⟨rfl, rfl, rfl⟩, ⟨rfl, rfl, rfl, rfl⟩⟩
      · simp only [remaining_lt src hb, hsl, hshort, decide_false, Bool.false_eq_true, if_false, bind_next,
          is_aead_2022_eval ov _ k hk, h22, call_ok, if_true]
        obtain ⟨out, ho, ha⟩ := init2022_server_psk ov E k N self context session src hk h22 hN hm hreq hself hb (by omega) hnow hopen
        rw [ho]
        simp only [call_ok, bind_next, run_ret]
        refine ⟨_, rfl, ?_⟩
        have hT := fun via hv => isTake_of_some E k self context session src out via ha hv
        obtain ⟨hview, hsess, hframe, hcache⟩ := ha
        refine ⟨?_, ?_, hframe, ?_⟩
        · rw [hc]; exact hview
        · intro via hv
          rw [hc]
          exact hsess (hT via hv)
        · rw [hcache]; exact ⟨rfl, rfl, rfl, rfl⟩


/-! ### model-side facts used by the property statements -/

/-- first-read exemption in the model: salt present, fixed header incomplete → the call fails, nothing consumed -/
theorem init2022_header_short (C : Crypto) (ctx : Ss.Ctx) (env : Ss.DecEnv) (d : Ss.Dec) (b : Bytes)
    (h1 : ctx.kind.n ≤ b.length)
    (h2 : b.length < ctx.kind.n + ((if Ss.requireEih ctx d.sess then 16 else 0) + 1 + 8 +
      (if d.sess.mode = .server then 0 else ctx.kind.n) + 2 + 16)) :
    Ss.init2022 C ctx env d b = .fail d 0 := by
  simp only [Ss.init2022]
  rw [if_neg (by omega), if_pos h2]

/-- a salt the cache knows is refused before anything is opened -/
theorem init2022_replayed (C : Crypto) (ctx : Ss.Ctx) (env : Ss.DecEnv) (d : Ss.Dec) (b : Bytes)
    (h2 : ¬ b.length < ctx.kind.n + ((if Ss.requireEih ctx d.sess then 16 else 0) + 1 + 8 +
      (if d.sess.mode = .server then 0 else ctx.kind.n) + 2 + 16))
    (hs : env.saltSeen (b.take ctx.kind.n) = true) :
    Ss.init2022 C ctx env d b = .fail d 0 := by
  simp only [Ss.init2022]
  rw [if_neg (by omega), if_neg h2, if_pos hs]

/-- later calls (a decoder exists): the generated `decode` hands the buffer to `ChunkDecoder::decode_payload` (whatever it is:
`X` is arbitrary here), keeps its state, and turns an empty result into `Ok(None)`; no recursion, no panic of its own -/
theorem decode_some (ov : Bool) {T : ExtTypes} (X : Ext T) (N : Usize) (self : AEADCipherCodec T) (context : Context T)
    (session : Session) (src : List UInt8) (d d' : ChunkDecoder T) (src' dst : Cursor) (r : RResult Unit)
    (hd : self.decoder = some d) (hne : src ≠ [])
    (hx : X.ChunkDecoder_decode_payload d src [] = PWGen.Res.ok (d', src', dst, r)) :
    AEADCipherCodec.decode ov X N self context session src =
      PWGen.Res.ok ({ self with decoder := some d' }, context, session, src',
        match r with
        | .err => RResult.err
        | .ok () => if dst.isEmpty then RResult.ok none else RResult.ok (some dst)) := by
  rw [AEADCipherCodec.decode]
  have he : Cursor.is_empty src = false := by cases src <;> simp_all [Cursor.is_empty]
  simp only [he, Bool.false_eq_true, if_false, bind_next]
  split
  · rename_i v hv
    rw [hd] at hv; cases hv
    simp only [hx, call_ok, bind_next]
    cases r with
    | err => simp only [q_err, bind_ret, run_ret]
    | ok u =>
      cases u
      simp only [q_ok, bind_next, Cursor.is_empty]
      by_cases hdst : dst.isEmpty = true
      · simp only [hdst, if_true, run_ret]
      · simp only [hdst, Bool.false_eq_true, if_false, run_ret]
  · rename_i hv; rw [hd] at hv; cases hv

/-- a panic of the external is the only way a later call panics -/
theorem decode_some_panic (ov : Bool) {T : ExtTypes} (X : Ext T) (N : Usize) (self : AEADCipherCodec T) (context : Context T)
    (session : Session) (src : List UInt8) (d : ChunkDecoder T) (hd : self.decoder = some d) (hne : src ≠ [])
    (hx : X.ChunkDecoder_decode_payload d src [] = PWGen.Res.panic) :
    AEADCipherCodec.decode ov X N self context session src = PWGen.Res.panic := by
  rw [AEADCipherCodec.decode]
  have he : Cursor.is_empty src = false := by cases src <;> simp_all [Cursor.is_empty]
  simp only [he, Bool.false_eq_true, if_false, bind_next]
  split
  · rename_i v hv
    rw [hd] at hv; cases hv
    simp only [hx, call_panic, bind_panic, run_panic]
  · rename_i hv; rw [hd] at hv; cases hv

/-- an empty buffer: `Ok(None)`, nothing changes (any externals) -/
theorem decode_empty (ov : Bool) {T : ExtTypes} (X : Ext T) (N : Usize) (self : AEADCipherCodec T) (context : Context T)
    (session : Session) :
    AEADCipherCodec.decode ov X N self context session [] = PWGen.Res.ok (self, context, session, [], RResult.ok none) := by
  rw [AEADCipherCodec.decode]; rfl

/-! ## Part 4 — client mode (the response): echoed request salt, `expect_u8`, timestamp -/

theorem copy_to_slice_eval {ρ : Type} (b : List UInt8) (n : Usize) (h : n.toNat ≤ b.length) :
    (Flow.copy_to_slice b n : Flow _ ρ) = Flow.next (b.drop n.toNat, b.take n.toNat) := by simp [Flow.copy_to_slice, h]

theorem init2022_client (ov : Bool) (E : MEnv) (k : Ss.Kind) (N : Usize) (self : AEADCipherCodec MT) (context : Context MT)
    (session : Session) (src : List UInt8)
    (hk : toKind context.kind = some k) (h22 : k.is2022 = true) (hN : N.toNat = k.n)
    (hm : session.mode = .Client)
    (hself : self.decoder = none)
    (hb : src.length < 2 ^ 64) (hn : k.n ≤ src.length) (hnow : E.now < 2 ^ 64)
    (hopen : ∀ a key n ad c p, E.C.openB a key n ad c = some p → c.length = p.length + 16) :
    ∃ out, AEADCipherCodec.init_aead_2022_payload_decoder ov (XM E) N self context session src = PWGen.Res.ok out ∧
      Agree E k self context session src out := by
  unfold AEADCipherCodec.init_aead_2022_payload_decoder
  have hmm : (toSess session).mode = .client := by simp [toSess, hm, toMode]
  have hR : Ss.requireEih (toCtx k context) (toSess session) = false := by
    simp [Ss.requireEih, hmm]
  have hR' := hR
  simp only [toCtx] at hR'
  simp only [tag_size_eval E _ k hk, call_ok, bind_next, hm]
  rcases kn_cases k N hN with ⟨rfl, hkn⟩ | ⟨rfl, hkn⟩
  · simp only [if_true, Bool.not_false, Bool.not_true, Bool.false_eq_true, if_false, bind_next, call_ok,
      U64.addOk, UInt64.reduceAdd, UInt64.reduceToNat, UInt64.reduceOfNat, Nat.reduceAdd, Nat.reducePow, Nat.reduceLT, decide_true, arith_true,
      remaining_lt src hb, ite_self]
    by_cases g1 : src.length < 59
    · simp only [g1, decide_true, if_true, bind_ret, run_ret]
      refine ⟨_, rfl, ?_⟩
      have hM : Ss.init2022 E.C (toCtx k context) (envOf E context.nonce_cache) ⟨none, toSess session⟩ src = .fail ⟨none, toSess session⟩ 0 := by
        simp only [Ss.init2022, hR, hR', hmm, if_true, Bool.false_eq_true, if_false, toCtx, hkn, reduceCtorEq]
        rw [if_neg (by omega), if_pos (by omega)]
      exact ⟨by simp [hM, stepView, absRes, hself], by simp [hM, isTake], ⟨by simp [hm], rfl, rfl⟩,
        by simp [hM, cacheAfter, hR, hmm, hkn, g1]⟩
    · simp only [g1, decide_false, Bool.false_eq_true, if_false, bind_next, IoCursor.new, Cursor.len, List.length_replicate,
        UInt64.reduceOfNat]
      rw [io_slice_eval src 0 16 (by simp; omega)]
      simp only [bind_next, UInt64.reduceToNat, List.drop_zero, UInt64.reduceAdd]
      have h16 : (src.take 16).length = 16 := by rw [List.length_take]; omega
      have hsne : src.take 16 ≠ [] := by
        intro h; rw [h] at h16; simp at h16
      rw [check_nonce_eval ov E 16 context (src.take 16) hsne]
      simp only [call_ok, bind_next]
      by_cases g2 : (SaltCache.get E.ttl E.nowMs context.nonce_cache (src.take 16)).1 = true
      · simp only [g2, if_true, bind_ret, run_ret]
        refine ⟨_, rfl, ?_⟩
        have hM : Ss.init2022 E.C (toCtx k context) (envOf E context.nonce_cache) ⟨none, toSess session⟩ src = .fail ⟨none, toSess session⟩ 0 := by
          simp only [Ss.init2022, hR, hR', hmm, if_true, Bool.false_eq_true, if_false, toCtx, hkn, reduceCtorEq]
          rw [if_neg (by omega), if_neg (by omega), if_pos (by simpa [envOf] using g2)]
        exact ⟨by simp [hM, stepView, absRes, hself], by simp [hM, isTake], ⟨by simp [hm], rfl, rfl⟩,
          by simp [hM, cacheAfter, hR, hmm, hkn, g1]⟩
      · simp only [g2, Bool.false_eq_true, if_false, bind_next]
        rw [io_bytes_eval src 16 43 (by simp; omega)]
        simp only [bind_next, UInt64.reduceToNat, UInt64.reduceAdd, new_decoder_eval E _ k hk, call_ok, open_eval]
        have g2' : (envOf E context.nonce_cache).saltSeen (src.take 16) = false := by simpa [envOf] using g2
        have hlt : ((src.drop 16).take 43).length = 43 := by rw [List.length_take, List.length_drop]; omega
        cases hop : Ss.Auth.openB E.C (auth2022 E.C k context.key (src.take 16)) ((src.drop 16).take 43) with
        | mk o a1 =>
        cases o with
        | none =>
          simp only [call_ok, bind_next, q_err, bind_ret, run_ret]
          refine ⟨_, rfl, ?_⟩
          have hM : Ss.init2022 E.C (toCtx k context) (envOf E context.nonce_cache) ⟨none, toSess session⟩ src =
              .fail ⟨none, { toSess session with requestSalt := some (src.take 16) }⟩ 0 := by
            simp only [Ss.init2022, hR, hR', hmm, if_true, Bool.false_eq_true, if_false, toCtx, hkn, Ss.init2022Key, reduceCtorEq]
            rw [if_neg (by omega), if_neg (by omega), if_neg (by simp [g2'])]
            simp only [newAuth_2022 _ _ _ _ h22, List.drop_zero, hop]
          exact ⟨by simp [hM, stepView, absRes, hself], by simp [hM, isTake], ⟨by simp [hm], rfl, rfl⟩,
            by simp [hM, cacheAfter, hR, hmm, hkn, g1]⟩
        | some h =>
          have hl : h.length = 27 := by
            have := hopen _ _ _ _ _ _ (congrArg Prod.fst hop)
            omega
          simp only [call_ok, bind_next, q_ok]
          rw [get_u8_eval h (by omega)]
          simp only [bind_next, expect_u8_eval, call_ok, toMode, Ss.Mode.expectU8]
          have hM0 : Ss.init2022 E.C (toCtx k context) (envOf E context.nonce_cache) ⟨none, toSess session⟩ src =
              Ss.init2022Tail E.C (envOf E context.nonce_cache) ⟨none, { toSess session with requestSalt := some (src.take 16) }⟩
                { toSess session with requestSalt := some (src.take 16) } src 16 43 16 (src.take 16) a1 h := by
            simp only [Ss.init2022, hR, hR', hmm, if_true, Bool.false_eq_true, if_false, toCtx, hkn, Ss.init2022Key, reduceCtorEq]
            rw [if_neg (by omega), if_neg (by omega), if_neg (by simp [g2'])]
            simp only [newAuth_2022 _ _ _ _ h22, List.drop_zero, hop]
          by_cases g3 : h.headD 0 = 1
          · simp only [g3, bne_self_eq_false, Bool.false_eq_true, if_false, bind_next]
            rw [get_u64_eval (h.drop 1) (by rw [List.length_drop]; omega)]
            simp only [bind_next, validate_timestamp_eval ov E _ hnow, call_ok, u64_of_be8]
            by_cases g4 : Ss.absDiff E.now (rdBE ((h.drop 1).take 8)) > Consts.ssMaxTimeDiff
            · simp only [g4, if_true, q_err, bind_ret, run_ret]
              refine ⟨_, rfl, ?_⟩
              have hM : Ss.init2022 E.C (toCtx k context) (envOf E context.nonce_cache) ⟨none, toSess session⟩ src =
                  .fail ⟨none, { toSess session with requestSalt := some (src.take 16) }⟩ 0 := by
                rw [hM0]; simp only [Ss.init2022Tail, hmm, envOf]; rw [if_neg (fun hne => hne g3), if_pos g4]
              exact ⟨by simp [hM, stepView, absRes, hself], by simp [hM, isTake], ⟨by simp [hm], rfl, rfl⟩,
                by simp [hM, cacheAfter, hR, hmm, hkn, g1]⟩
            · simp only [g4, if_false, q_ok, bind_next, Bool.false_eq_true, if_true, unwrap_some, List.drop_drop, Nat.reduceAdd]
              rw [h16, copy_to_slice_eval (h.drop 9) _ (by simp; omega)]
              simp only [UInt64.reduceOfNat, bind_next, ite_self, UInt64.reduceToNat, List.drop_drop, Nat.reduceAdd]
              have hts : (toSess session).salt = session.identity.salt := rfl
              by_cases g6 : (h.drop 9).take 16 = session.identity.salt
              · have g6' : (some ((h.drop 9).take 16) != some session.identity.salt) = false := by simp [g6]
                simp only [g6', Bool.false_eq_true, if_false, bind_next]
                rw [get_u16_eval (h.drop 25) (by simp only [List.length_drop]; omega)]
                simp only [bind_next]
                rw [io_remaining_ge src 59 _ hb]
                simp only [addOk_u16, addOk_u16', arith_true, bind_next, len_add16, UInt64.reduceToNat, List.drop_drop, Nat.reduceAdd]
                have hdl : (src.drop 59).length = src.length - 59 := List.length_drop
                by_cases g5 : (src.drop 59).length < rdBE ((h.drop 25).take 2) + 16
                · have e5 : ¬ (rdBE ((h.drop 25).take 2) + 16 ≤ src.length - 59) := by omega
                  simp only [e5, decide_false, Bool.false_eq_true, if_false, bind_next, run_ret]
                  refine ⟨_, rfl, ?_⟩
                  have hM : Ss.init2022 E.C (toCtx k context) (envOf E context.nonce_cache) ⟨none, toSess session⟩ src = .need := by
                    rw [hM0]; simp only [Ss.init2022Tail, hmm, envOf]
                    rw [if_neg (fun hne => hne g3), if_neg g4, if_neg (by rw [hts]; exact fun hx => hx.2 g6), if_pos g5]
                  exact ⟨by simp [hM, stepView, absRes, hself], by simp [hM, isTake], ⟨by simp [hm], rfl, rfl⟩,
                    by simp [hM, cacheAfter, hkn]⟩
                · have e5 : (rdBE ((h.drop 25).take 2) + 16 ≤ src.length - 59) := by omega
                  simp only [e5, decide_true, if_true, set_nonce_eval, call_ok, bind_next,
                    insert_after_get _ _ _ _ _ (by simpa using g2), Bool.not_false, Bool.not_true, Bool.false_eq_true, if_false,
                    IoCursor.position, U64.as_usize]
                  rw [advance_eval src 59 (by simp; omega)]
                  simp only [bind_next, addOk_u16, addOk_u16', arith_true, UInt64.reduceToNat]
                  rw [split_to_eval (src.drop 59) _ (by rw [len_add16]; omega)]
                  simp only [bind_next, len_add16, List.drop_drop, open_eval]
                  have hMt : Ss.init2022 E.C (toCtx k context) (envOf E context.nonce_cache) ⟨none, toSess session⟩ src =
                      (match Ss.Auth.openB E.C a1 ((src.drop 59).take (rdBE ((h.drop 25).take 2) + 16)) with
                       | (none, _) => .fail ⟨none, { toSess session with requestSalt := some ((h.drop 9).take 16) }⟩
                           (16 + 43 + rdBE ((h.drop 25).take 2) + 16)
                       | (some via, a) => .take ⟨some ⟨a, .length⟩, { toSess session with requestSalt := some ((h.drop 9).take 16) }⟩
                           (16 + 43 + rdBE ((h.drop 25).take 2) + 16) (.accepted (src.take 16) :: via.map .byte)) := by
                    rw [hM0]; simp only [Ss.init2022Tail, hmm, envOf]
                    rw [if_neg (fun hne => hne g3), if_neg g4, if_neg (by rw [hts]; exact fun hx => hx.2 g6), if_neg g5]
                    simp only [Nat.reduceAdd, reduceCtorEq, if_false, if_true, false_and]
                    rfl
                  have hc : 59 + (rdBE ((h.drop 25).take 2) + 16) = 16 + 43 + rdBE ((h.drop 25).take 2) + 16 := by omega
                  rw [hc]
                  cases hop2 : Ss.Auth.openB E.C a1 ((src.drop 59).take (rdBE ((h.drop 25).take 2) + 16)) with
                  | mk o2 a2 =>
                  rw [hop2] at hMt
                  cases o2 with
                  | none =>
                    simp only [call_ok, bind_next, q_err, bind_ret, run_ret]
                    refine ⟨_, rfl, ?_⟩
                    exact ⟨by simp [hMt, stepView, absRes, hself], by simp [hMt, isTake], ⟨by simp [hm], rfl, rfl⟩,
                      by rw [hMt, cacheAfter_fail_pos _ _ _ _ _ _ (by omega), hkn]⟩
                  | some via =>
                    simp only [call_ok, bind_next, q_ok, Bool.false_and, Bool.false_eq_true, if_false, run_ret]
                    refine ⟨_, rfl, ?_⟩
                    exact ⟨by simp [hMt, stepView, absRes, toCD, toState, hkn],
                      by intro _; rw [hMt]; simp [stepView, toSess, hm, toMode],
                      ⟨by simp [hm], rfl, rfl⟩, by rw [hMt]; simp [cacheAfter, hkn]⟩
              · have g6' : (some ((h.drop 9).take 16) != some session.identity.salt) = true := by simp [g6]
                simp only [g6', if_true, bind_ret, run_ret]
                refine ⟨_, rfl, ?_⟩
                have hM : Ss.init2022 E.C (toCtx k context) (envOf E context.nonce_cache) ⟨none, toSess session⟩ src =
                    .fail ⟨none, { toSess session with requestSalt := some (src.take 16) }⟩ 0 := by
                  rw [hM0]; simp only [Ss.init2022Tail, hmm, envOf]
                  rw [if_neg (fun hne => hne g3), if_neg g4, if_pos (by rw [hts]; exact ⟨trivial, g6⟩)]
                exact ⟨by simp [hM, stepView, absRes, hself], by simp [hM, isTake], ⟨by simp [hm], rfl, rfl⟩,
                  by simp [hM, cacheAfter, hR, hmm, hkn, g1]⟩
          · have g3' : (h.headD 0 != 1) = true := by simpa using g3
            simp only [g3', if_true, bind_ret, run_ret]
            refine ⟨_, rfl, ?_⟩
            have hM : Ss.init2022 E.C (toCtx k context) (envOf E context.nonce_cache) ⟨none, toSess session⟩ src =
                .fail ⟨none, { toSess session with requestSalt := some (src.take 16) }⟩ 0 := by
              rw [hM0]; simp only [Ss.init2022Tail, hmm, envOf]; rw [if_pos (show h.headD 0 ≠ Ss.Mode.client.expectU8 from g3)]
            exact ⟨by simp [hM, stepView, absRes, hself], by simp [hM, isTake], ⟨by simp [hm], rfl, rfl⟩,
              by simp [hM, cacheAfter, hR, hmm, hkn, g1]⟩
  · simp only [if_true, Bool.not_false, Bool.not_true, Bool.false_eq_true, if_false, bind_next, call_ok,
      U64.addOk, UInt64.reduceAdd, UInt64.reduceToNat, UInt64.reduceOfNat, Nat.reduceAdd, Nat.reducePow, Nat.reduceLT, decide_true, arith_true,
      remaining_lt src hb, ite_self]
    by_cases g1 : src.length < 91
    · simp only [g1, decide_true, if_true, bind_ret, run_ret]
      refine ⟨_, rfl, ?_⟩
      have hM : Ss.init2022 E.C (toCtx k context) (envOf E context.nonce_cache) ⟨none, toSess session⟩ src = .fail ⟨none, toSess session⟩ 0 := by
        simp only [Ss.init2022, hR, hR', hmm, if_true, Bool.false_eq_true, if_false, toCtx, hkn, reduceCtorEq]
        rw [if_neg (by omega), if_pos (by omega)]
      exact ⟨by simp [hM, stepView, absRes, hself], by simp [hM, isTake], ⟨by simp [hm], rfl, rfl⟩,
        by simp [hM, cacheAfter, hR, hmm, hkn, g1]⟩
    · simp only [g1, decide_false, Bool.false_eq_true, if_false, bind_next, IoCursor.new, Cursor.len, List.length_replicate,
        UInt64.reduceOfNat]
      rw [io_slice_eval src 0 32 (by simp; omega)]
      simp only [bind_next, UInt64.reduceToNat, List.drop_zero, UInt64.reduceAdd]
      have h32 : (src.take 32).length = 32 := by rw [List.length_take]; omega
      have hsne : src.take 32 ≠ [] := by
        intro h; rw [h] at h32; simp at h32
      rw [check_nonce_eval ov E 32 context (src.take 32) hsne]
      simp only [call_ok, bind_next]
      by_cases g2 : (SaltCache.get E.ttl E.nowMs context.nonce_cache (src.take 32)).1 = true
      · simp only [g2, if_true, bind_ret, run_ret]
        refine ⟨_, rfl, ?_⟩
        have hM : Ss.init2022 E.C (toCtx k context) (envOf E context.nonce_cache) ⟨none, toSess session⟩ src = .fail ⟨none, toSess session⟩ 0 := by
          simp only [Ss.init2022, hR, hR', hmm, if_true, Bool.false_eq_true, if_false, toCtx, hkn, reduceCtorEq]
          rw [if_neg (by omega), if_neg (by omega), if_pos (by simpa [envOf] using g2)]
        exact ⟨by simp [hM, stepView, absRes, hself], by simp [hM, isTake], ⟨by simp [hm], rfl, rfl⟩,
          by simp [hM, cacheAfter, hR, hmm, hkn, g1]⟩
      · simp only [g2, Bool.false_eq_true, if_false, bind_next]
        rw [io_bytes_eval src 32 59 (by simp; omega)]
        simp only [bind_next, UInt64.reduceToNat, UInt64.reduceAdd, new_decoder_eval E _ k hk, call_ok, open_eval]
        have g2' : (envOf E context.nonce_cache).saltSeen (src.take 32) = false := by simpa [envOf] using g2
        have hlt : ((src.drop 32).take 59).length = 59 := by rw [List.length_take, List.length_drop]; omega
        cases hop : Ss.Auth.openB E.C (auth2022 E.C k context.key (src.take 32)) ((src.drop 32).take 59) with
        | mk o a1 =>
        cases o with
        | none =>
          simp only [call_ok, bind_next, q_err, bind_ret, run_ret]
          refine ⟨_, rfl, ?_⟩
          have hM : Ss.init2022 E.C (toCtx k context) (envOf E context.nonce_cache) ⟨none, toSess session⟩ src =
              .fail ⟨none, { toSess session with requestSalt := some (src.take 32) }⟩ 0 := by
            simp only [Ss.init2022, hR, hR', hmm, if_true, Bool.false_eq_true, if_false, toCtx, hkn, Ss.init2022Key, reduceCtorEq]
            rw [if_neg (by omega), if_neg (by omega), if_neg (by simp [g2'])]
            simp only [newAuth_2022 _ _ _ _ h22, List.drop_zero, hop]
          exact ⟨by simp [hM, stepView, absRes, hself], by simp [hM, isTake], ⟨by simp [hm], rfl, rfl⟩,
            by simp [hM, cacheAfter, hR, hmm, hkn, g1]⟩
        | some h =>
          have hl : h.length = 43 := by
            have := hopen _ _ _ _ _ _ (congrArg Prod.fst hop)
            omega
          simp only [call_ok, bind_next, q_ok]
          rw [get_u8_eval h (by omega)]
          simp only [bind_next, expect_u8_eval, call_ok, toMode, Ss.Mode.expectU8]
          have hM0 : Ss.init2022 E.C (toCtx k context) (envOf E context.nonce_cache) ⟨none, toSess session⟩ src =
              Ss.init2022Tail E.C (envOf E context.nonce_cache) ⟨none, { toSess session with requestSalt := some (src.take 32) }⟩
                { toSess session with requestSalt := some (src.take 32) } src 32 59 32 (src.take 32) a1 h := by
            simp only [Ss.init2022, hR, hR', hmm, if_true, Bool.false_eq_true, if_false, toCtx, hkn, Ss.init2022Key, reduceCtorEq]
            rw [if_neg (by omega), if_neg (by omega), if_neg (by simp [g2'])]
            simp only [newAuth_2022 _ _ _ _ h22, List.drop_zero, hop]
          by_cases g3 : h.headD 0 = 1
          · simp only [g3, bne_self_eq_false, Bool.false_eq_true, if_false, bind_next]
            rw [get_u64_eval (h.drop 1) (by rw [List.length_drop]; omega)]
            simp only [bind_next, validate_timestamp_eval ov E _ hnow, call_ok, u64_of_be8]
            by_cases g4 : Ss.absDiff E.now (rdBE ((h.drop 1).take 8)) > Consts.ssMaxTimeDiff
            · simp only [g4, if_true, q_err, bind_ret, run_ret]
              refine ⟨_, rfl, ?_⟩
              have hM : Ss.init2022 E.C (toCtx k context) (envOf E context.nonce_cache) ⟨none, toSess session⟩ src =
                  .fail ⟨none, { toSess session with requestSalt := some (src.take 32) }⟩ 0 := by
                rw [hM0]; simp only [Ss.init2022Tail, hmm, envOf]; rw [if_neg (fun hne => hne g3), if_pos g4]
              exact ⟨by simp [hM, stepView, absRes, hself], by simp [hM, isTake], ⟨by simp [hm], rfl, rfl⟩,
                by simp [hM, cacheAfter, hR, hmm, hkn, g1]⟩
            · simp only [g4, if_false, q_ok, bind_next, Bool.false_eq_true, if_true, unwrap_some, List.drop_drop, Nat.reduceAdd]
              rw [h32, copy_to_slice_eval (h.drop 9) _ (by simp; omega)]
              simp only [UInt64.reduceOfNat, bind_next, ite_self, UInt64.reduceToNat, List.drop_drop, Nat.reduceAdd]
              have hts : (toSess session).salt = session.identity.salt := rfl
              by_cases g6 : (h.drop 9).take 32 = session.identity.salt
              · have g6' : (some ((h.drop 9).take 32) != some session.identity.salt) = false := by simp [g6]
                simp only [g6', Bool.false_eq_true, if_false, bind_next]
                rw [get_u16_eval (h.drop 41) (by simp only [List.length_drop]; omega)]
                simp only [bind_next]
                rw [io_remaining_ge src 91 _ hb]
                simp only [addOk_u16, addOk_u16', arith_true, bind_next, len_add16, UInt64.reduceToNat, List.drop_drop, Nat.reduceAdd]
                have hdl : (src.drop 91).length = src.length - 91 := List.length_drop
                by_cases g5 : (src.drop 91).length < rdBE ((h.drop 41).take 2) + 16
                · have e5 : ¬ (rdBE ((h.drop 41).take 2) + 16 ≤ src.length - 91) := by omega
                  simp only [e5, decide_false, Bool.false_eq_true, if_false, bind_next, run_ret]
                  refine ⟨_, rfl, ?_⟩
                  have hM : Ss.init2022 E.C (toCtx k context) (envOf E context.nonce_cache) ⟨none, toSess session⟩ src = .need := by
                    rw [hM0]; simp only [Ss.init2022Tail, hmm, envOf]
                    rw [if_neg (fun hne => hne g3), if_neg g4, if_neg (by rw [hts]; exact fun hx => hx.2 g6), if_pos g5]
                  exact ⟨by simp [hM, stepView, absRes, hself], by simp [hM, isTake], ⟨by simp [hm], rfl, rfl⟩,
                    by simp [hM, cacheAfter, hkn]⟩
                · have e5 : (rdBE ((h.drop 41).take 2) + 16 ≤ src.length - 91) := by omega
                  simp only [e5, decide_true, if_true, set_nonce_eval, call_ok, bind_next,
                    insert_after_get _ _ _ _ _ (by simpa using g2), Bool.not_false, Bool.not_true, Bool.false_eq_true, if_false,
                    IoCursor.position, U64.as_usize]
                  rw [advance_eval src 91 (by simp; omega)]
                  simp only [bind_next, addOk_u16, addOk_u16', arith_true, UInt64.reduceToNat]
                  rw [split_to_eval (src.drop 91) _ (by rw [len_add16]; omega)]
                  simp only [bind_next, len_add16, List.drop_drop, open_eval]
                  have hMt : Ss.init2022 E.C (toCtx k context) (envOf E context.nonce_cache) ⟨none, toSess session⟩ src =
                      (match Ss.Auth.openB E.C a1 ((src.drop 91).take (rdBE ((h.drop 41).take 2) + 16)) with
                       | (none, _) => .fail ⟨none, { toSess session with requestSalt := some ((h.drop 9).take 32) }⟩
                           (32 + 59 + rdBE ((h.drop 41).take 2) + 16)
                       | (some via, a) => .take ⟨some ⟨a, .length⟩, { toSess session with requestSalt := some ((h.drop 9).take 32) }⟩
                           (32 + 59 + rdBE ((h.drop 41).take 2) + 16) (.accepted (src.take 32) :: via.map .byte)) := by
                    rw [hM0]; simp only [Ss.init2022Tail, hmm, envOf]
                    rw [if_neg (fun hne => hne g3), if_neg g4, if_neg (by rw [hts]; exact fun hx => hx.2 g6), if_neg g5]
                    simp only [Nat.reduceAdd, reduceCtorEq, if_false, if_true, false_and]
                    rfl
                  have hc : 91 + (rdBE ((h.drop 41).take 2) + 16) = 32 + 59 + rdBE ((h.drop 41).take 2) + 16 := by omega
                  rw [hc]
                  cases hop2 : Ss.Auth.openB E.C a1 ((src.drop 91).take (rdBE ((h.drop 41).take 2) + 16)) with
                  | mk o2 a2 =>
                  rw [hop2] at hMt
                  cases o2 with
                  | none =>
                    simp only [call_ok, bind_next, q_err, bind_ret, run_ret]
                    refine ⟨_, rfl, ?_⟩
                    exact ⟨by simp [hMt, stepView, absRes, hself], by simp [hMt, isTake], ⟨by simp [hm], rfl, rfl⟩,
                      by rw [hMt, cacheAfter_fail_pos _ _ _ _ _ _ (by omega), hkn]⟩
                  | some via =>
                    simp only [call_ok, bind_next, q_ok, Bool.false_and, Bool.false_eq_true, if_false, run_ret]
                    refine ⟨_, rfl, ?_⟩
                    exact ⟨by simp [hMt, stepView, absRes, toCD, toState, hkn],
                      by intro _; rw [hMt]; simp [stepView, toSess, hm, toMode],
                      ⟨by simp [hm], rfl, rfl⟩, by rw [hMt]; simp [cacheAfter, hkn]⟩
              · have g6' : (some ((h.drop 9).take 32) != some session.identity.salt) = true := by simp [g6]
                simp only [g6', if_true, bind_ret, run_ret]
                refine ⟨_, rfl, ?_⟩
                have hM : Ss.init2022 E.C (toCtx k context) (envOf E context.nonce_cache) ⟨none, toSess session⟩ src =
                    .fail ⟨none, { toSess session with requestSalt := some (src.take 32) }⟩ 0 := by
                  rw [hM0]; simp only [Ss.init2022Tail, hmm, envOf]
                  rw [if_neg (fun hne => hne g3), if_neg g4, if_pos (by rw [hts]; exact ⟨trivial, g6⟩)]
                exact ⟨by simp [hM, stepView, absRes, hself], by simp [hM, isTake], ⟨by simp [hm], rfl, rfl⟩,
                  by simp [hM, cacheAfter, hR, hmm, hkn, g1]⟩
          · have g3' : (h.headD 0 != 1) = true := by simpa using g3
            simp only [g3', if_true, bind_ret, run_ret]
            refine ⟨_, rfl, ?_⟩
            have hM : Ss.init2022 E.C (toCtx k context) (envOf E context.nonce_cache) ⟨none, toSess session⟩ src =
                .fail ⟨none, { toSess session with requestSalt := some (src.take 32) }⟩ 0 := by
              rw [hM0]; simp only [Ss.init2022Tail, hmm, envOf]; rw [if_pos (show h.headD 0 ≠ Ss.Mode.client.expectU8 from g3)]
            exact ⟨by simp [hM, stepView, absRes, hself], by simp [hM, isTake], ⟨by simp [hm], rfl, rfl⟩,
              by simp [hM, cacheAfter, hR, hmm, hkn, g1]⟩
/-- from the header parser to the whole `decode` call (2022 cipher, no decoder yet), whatever the mode: the empty-buffer
and short-salt returns, the dispatch on `is_aead_2022`, the recursion-free path through the recursive group -/
theorem decode_2022_of_init (ov : Bool) (E : MEnv) (k : Ss.Kind) (N : Usize) (self : AEADCipherCodec MT) (context : Context MT)
    (session : Session) (src : List UInt8)
    (hk : toKind context.kind = some k) (h22 : k.is2022 = true) (hN : N.toNat = k.n)
    (hsalt : session.identity.salt.length = N.toNat) (hself : self.decoder = none) (hb : src.length < 2 ^ 64)
    (hinit : k.n ≤ src.length → ∃ out, AEADCipherCodec.init_aead_2022_payload_decoder ov (XM E) N self context session src =
      PWGen.Res.ok out ∧ Agree E k self context session src out) :
    ∃ out, AEADCipherCodec.decode ov (XM E) N self context session src = PWGen.Res.ok out ∧
      AgreeCall E k self context session src out := by
  have hctx : (toCtx k context).kind.is2022 = true := h22
  rw [AEADCipherCodec.decode]
  by_cases he : src.isEmpty = true
  · simp only [Cursor.is_empty, he, if_true, bind_ret, run_ret]
    refine ⟨_, rfl, ?_⟩
    have hc := cipherDecode_2022 E.C (toCtx k context) (envOf E context.nonce_cache) (toSess session) src hctx
    rw [if_pos he] at hc
    exact ⟨by simp [hc, absRes, hself], by intro via hv; simp at hv, ⟨rfl, rfl, rfl⟩, ⟨rfl, rfl, rfl, rfl⟩⟩
  · simp only [Cursor.is_empty, he, Bool.false_eq_true, if_false, bind_next]
    have hc := cipherDecode_2022 E.C (toCtx k context) (envOf E context.nonce_cache) (toSess session) src hctx
    rw [if_neg he] at hc
    split
    · rename_i v hv; rw [hself] at hv; cases hv
    · rw [AEADCipherCodec.init_payload_decoder]
      have hsl : (Cursor.len session.identity.salt).toNat = k.n := by
        rw [Cursor.len, hsalt, UInt64.ofNat_toNat, hN]
      by_cases hshort : src.length < k.n
      · simp only [remaining_lt src hb, hsl, hshort, decide_true, if_true, bind_ret, run_ret, call_ok, bind_next]
        refine ⟨_, rfl, ?_⟩
        rw [init2022_short _ _ _ _ _ hshort] at hc
        exact ⟨by simp [hc, stepView, absRes, hself], by intro via hv; simp at hv, ⟨rfl, rfl, rfl⟩, ⟨rfl, rfl, rfl, rfl⟩⟩
      · simp only [remaining_lt src hb, hsl, hshort, decide_false, Bool.false_eq_true, if_false, bind_next,
          is_aead_2022_eval ov _ k hk, h22, call_ok, if_true]
        obtain ⟨out, ho, ha⟩ := hinit (by omega)
        rw [ho]
        simp only [call_ok, bind_next, run_ret]
        refine ⟨_, rfl, ?_⟩
        have hT := fun via hv => isTake_of_some E k self context session src out via ha hv
        obtain ⟨hview, hsess, hframe, hcache⟩ := ha
        refine ⟨?_, ?_, hframe, ?_⟩
        · rw [hc]; exact hview
        · intro via hv
          rw [hc]
          exact hsess (hT via hv)
        · rw [hcache]; exact ⟨rfl, rfl, rfl, rfl⟩

/-- the accepting step of `init2022` is an accepting `init2022Tail` on the opened fixed header -/
theorem init2022_take_tail (C : Crypto) (ctx : Ss.Ctx) (env : Ss.DecEnv) (d : Ss.Dec) (b : Bytes) (d' : Ss.Dec) (n : Nat)
    (o : List Ss.Ev) (h : Ss.init2022 C ctx env d b = .take d' n o) :
    ∃ dd s1 hl salt a hh, Ss.init2022Tail C env dd s1 b ctx.kind.n hl (if d.sess.mode = .server then 0 else ctx.kind.n) salt a hh =
        .take d' n o ∧ s1.mode = d.sess.mode ∧ s1.salt = d.sess.salt := by
  unfold Ss.init2022 at h
  simp only [] at h
  generalize (if d.sess.mode = .server then 0 else ctx.kind.n) = rsl at h ⊢
  generalize Ss.requireEih ctx d.sess = req at h
  generalize (if req = true then 16 else 0) = el at h
  split at h
  · cases h
  split at h
  · cases h
  split at h
  · cases h
  split at h
  · cases h
  · split at h
    · cases h
    · exact ⟨_, _, _, _, _, _, h, rfl, rfl⟩


/-- **one `decode` call, Shadowsocks 2022, client (the response)**: never panics, terminates, and is the model's `cipherDecode` -/
theorem decode_2022_client (ov : Bool) (E : MEnv) (k : Ss.Kind) (N : Usize) (self : AEADCipherCodec MT) (context : Context MT)
    (session : Session) (src : List UInt8)
    (hk : toKind context.kind = some k) (h22 : k.is2022 = true) (hN : N.toNat = k.n)
    (hsalt : session.identity.salt.length = N.toNat)
    (hm : session.mode = .Client)
    (hself : self.decoder = none)
    (hb : src.length < 2 ^ 64) (hnow : E.now < 2 ^ 64)
    (hopen : ∀ a key n ad c p, E.C.openB a key n ad c = some p → c.length = p.length + 16) :
    ∃ out, AEADCipherCodec.decode ov (XM E) N self context session src = PWGen.Res.ok out ∧
      AgreeCall E k self context session src out :=
  decode_2022_of_init ov E k N self context session src hk h22 hN hsalt hself hb
    (fun hn => init2022_client ov E k N self context session src hk h22 hN hm hself hb hn hnow hopen)

end Octo.SsTcpGen
