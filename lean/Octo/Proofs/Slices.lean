import Octo.Base.Bytes
/-!
  The contiguous blocks (infixes) of a byte string, as a list — the finite domain over which the
  "no forgery in the received bytes" hypotheses of C05 quantify, so that for a concrete received
  string they can be checked by evaluation.
-/
namespace Octo

/-- every contiguous block of `s` (with repetitions): `(s.drop i).take l` -/
def slices (s : Bytes) : List Bytes :=
  (List.range (s.length + 1)).flatMap fun i => (List.range (s.length - i + 1)).map fun l => (s.drop i).take l

theorem mem_slices_of_infix {x s : Bytes} (h : x <:+: s) : x ∈ slices s := by
  obtain ⟨a, b, hab⟩ := h
  subst hab
  simp only [slices, List.mem_flatMap, List.mem_map, List.mem_range]
  refine ⟨a.length, by simp only [List.length_append]; omega, x.length, by simp only [List.length_append]; omega, ?_⟩
  rw [List.append_assoc, List.drop_left, List.take_left]

theorem infix_of_mem_slices {x s : Bytes} (h : x ∈ slices s) : x <:+: s := by
  simp only [slices, List.mem_flatMap, List.mem_map, List.mem_range] at h
  obtain ⟨i, _, l, _, rfl⟩ := h
  exact (List.take_prefix l _).isInfix.trans (List.drop_suffix i s).isInfix

/-- a property of all contiguous blocks of `s` can be checked on the finite list `slices s` -/
theorem forall_infix_iff {s : Bytes} {P : Bytes → Prop} : (∀ x, x <:+: s → P x) ↔ ∀ x ∈ slices s, P x :=
  ⟨fun h x hx => h x (infix_of_mem_slices hx), fun h x hx => h x (mem_slices_of_infix hx)⟩

theorem infix_take_drop (s : Bytes) (i l : Nat) : (s.drop i).take l <:+: s :=
  (List.take_prefix l _).isInfix.trans (List.drop_suffix i s).isInfix

end Octo
