import Octo.Proofs.SsStream
import Octo.Proofs.Toy
import Octo.Props.C14
/-!
# Shadowsocks, legacy AEAD ciphers: the call-level decoders under `FramedRead`

`Ss.cipherDecode` / `Ss.clientCall` / `Ss.serverCall` are the models of the real
`Decoder::decode` calls, `frLoop` / `frFeed` the model of `tokio_util::codec::FramedRead`.
This file ties them to the unit-step view (`Fr.run (Ss.unit …)`) for the legacy ciphers and proves
segmentation independence and "never stalls" at the level of the calls.
-/
namespace Octo.Ss
open Octo.Fr

/-! ## events of a `FramedRead` -/

/-- the items among the events, in order -/
def evItems : List FrEv → List Item
  | [] => []
  | .item i :: r => i :: evItems r
  | _ :: r => evItems r

/-- the payload handed out: concatenation of the `data` of all items -/
def evData (e : List FrEv) : Bytes := ((evItems e).map Item.data).flatten

/-- every event is an item: no `.err`, `.panic`, `.ended`, `.spin` -/
def evClean : List FrEv → Bool
  | [] => true
  | .item _ :: r => evClean r
  | _ :: _ => false

@[simp] theorem evItems_nil : evItems [] = [] := rfl
@[simp] theorem evItems_item (i : Item) (r : List FrEv) : evItems (.item i :: r) = i :: evItems r := rfl
@[simp] theorem evData_nil : evData [] = [] := rfl
@[simp] theorem evData_item (i : Item) (r : List FrEv) : evData (.item i :: r) = i.data ++ evData r := by
  simp [evData]
@[simp] theorem evClean_nil : evClean [] = true := rfl
@[simp] theorem evClean_item (i : Item) (r : List FrEv) : evClean (.item i :: r) = evClean r := rfl

theorem evItems_append (a b : List FrEv) : evItems (a ++ b) = evItems a ++ evItems b := by
  induction a with
  | nil => rfl
  | cons x r ih => cases x <;> simp [evItems, ih]

theorem evData_append (a b : List FrEv) : evData (a ++ b) = evData a ++ evData b := by
  simp [evData, evItems_append]

theorem evClean_append (a b : List FrEv) : evClean (a ++ b) = (evClean a && evClean b) := by
  induction a with
  | nil => simp
  | cons x r ih => cases x <;> simp [evClean, ih]

variable {σ : Type}

/-- one more read: the new stream state, the events so far followed by the new ones -/
def feedStep (decode : σ → Bytes → Call σ) (acc : FrSt σ × List FrEv) (piece : Bytes) : FrSt σ × List FrEv :=
  ((frFeed decode acc.1 piece).1, acc.2 ++ (frFeed decode acc.1 piece).2)

/-- `frFeed` folded over the reads, the events accumulated in order -/
def feedAll (decode : σ → Bytes → Call σ) (f : FrSt σ) (pieces : List Bytes) : FrSt σ × List FrEv :=
  pieces.foldl (feedStep decode) (f, [])

theorem feedStep_foldl (decode : σ → Bytes → Call σ) (pieces : List Bytes) : ∀ (f : FrSt σ) (e0 : List FrEv),
    pieces.foldl (feedStep decode) (f, e0) =
      ((pieces.foldl (feedStep decode) (f, [])).1, e0 ++ (pieces.foldl (feedStep decode) (f, [])).2) := by
  induction pieces with
  | nil => intro f e0; simp
  | cons p ps ih =>
    intro f e0
    simp only [List.foldl_cons, feedStep, List.nil_append]
    rw [ih _ (e0 ++ _), ih _ (frFeed decode f p).2]
    simp [List.append_assoc]

@[simp] theorem feedAll_nil (decode : σ → Bytes → Call σ) (f : FrSt σ) : feedAll decode f [] = (f, []) := rfl

theorem feedAll_cons (decode : σ → Bytes → Call σ) (f : FrSt σ) (p : Bytes) (ps : List Bytes) :
    feedAll decode f (p :: ps) =
      ((feedAll decode (frFeed decode f p).1 ps).1,
        (frFeed decode f p).2 ++ (feedAll decode (frFeed decode f p).1 ps).2) := by
  simp only [feedAll, List.foldl_cons, feedStep, List.nil_append]
  rw [feedStep_foldl]

/-! ## the unit step of a legacy cipher never touches the session -/

/-- replace the session of a decoder result -/
def setS (s : Sess) (r : Out Dec Ev) : Out Dec Ev := ⟨⟨r.st.chunk, s⟩, r.buf, r.out, r.failed⟩

def stepSetS (s : Sess) : Step Dec Ev → Step Dec Ev
  | .need => .need
  | .fail d n => .fail ⟨d.chunk, s⟩ n
  | .take d n o => .take ⟨d.chunk, s⟩ n o

theorem unit_sess (C : Crypto) (ctx : Ctx) (env : DecEnv) (hk : ctx.kind.is2022 = false)
    (c : Option ChunkDec) (s s' : Sess) (b : Bytes) :
    unit C ctx env ⟨c, s'⟩ b = stepSetS s' (unit C ctx env ⟨c, s⟩ b) := by
  cases c with
  | none =>
    simp only [unit, hk, Bool.false_eq_true, if_false]
    split <;> rfl
  | some cd =>
    simp only [unit]
    cases chunkUnit C cd b <;> rfl

theorem drain_sess (C : Crypto) (ctx : Ctx) (env : DecEnv) (hk : ctx.kind.is2022 = false) (s' : Sess) :
    ∀ (fuel : Nat) (s : Sess) (c : Option ChunkDec) (b : Bytes),
      drain (unit C ctx env) fuel ⟨c, s'⟩ b = setS s' (drain (unit C ctx env) fuel ⟨c, s⟩ b) := by
  intro fuel
  induction fuel with
  | zero => intro s c b; rfl
  | succ fuel ih =>
    intro s c b
    simp only [drain]
    rw [unit_sess C ctx env hk c s s' b]
    cases hu : unit C ctx env ⟨c, s⟩ b with
    | need => rfl
    | fail d n => rfl
    | take d n o =>
      obtain ⟨dc, dsess⟩ := d
      simp only [stepSetS]
      rw [ih dsess dc (b.drop n)]
      rfl

theorem run_sess (C : Crypto) (ctx : Ctx) (env : DecEnv) (hk : ctx.kind.is2022 = false) (s s' : Sess)
    (c : Option ChunkDec) (b : Bytes) :
    run (unit C ctx env) ⟨c, s'⟩ b = setS s' (run (unit C ctx env) ⟨c, s⟩ b) :=
  drain_sess C ctx env hk s' _ s c b

/-! ## one `decode` call = one `Fr.run` -/

/-- the outcome of a call from the outcome of the run: an error if a unit failed, `Ok(None)` when no
payload byte came out, the payload otherwise -/
def runRes (r : Out Dec Ev) : Res (List Ev) :=
  if r.failed then .err else if Ev.bytes r.out = [] then .more else .ok r.out

/-- `AEADCipherCodec::decode` of a legacy cipher is exactly one `Fr.run` of the unit step.  (The
side condition only excludes the unreachable state "waiting for a 0-byte payload chunk".) -/
theorem cipherDecode_legacy (C : Crypto) (ctx : Ctx) (env : DecEnv) (hk : ctx.kind.is2022 = false)
    (d : Dec) (b : Bytes) (hq : b = [] → unit C ctx env d [] = .need) :
    cipherDecode C ctx env d b =
      ((run (unit C ctx env) d b).st, (run (unit C ctx env) d b).buf, runRes (run (unit C ctx env) d b)) := by
  by_cases hb : b = []
  · subst hb
    rw [run_need _ _ _ (hq rfl)]
    simp [cipherDecode, runRes, Ev.bytes]
  · have he : b.isEmpty = false := by cases b <;> simp_all
    simp only [cipherDecode, he, hk, Bool.false_eq_true, if_false, and_false, runRes, List.isEmpty_iff]
    split
    · rfl
    · split <;> rfl

/-- a call on a quiescent buffer: `Ok(None)`, nothing changes -/
theorem cipherDecode_quiescent (C : Crypto) (ctx : Ctx) (env : DecEnv) (hk : ctx.kind.is2022 = false)
    (d : Dec) (b : Bytes) (hq : unit C ctx env d b = .need) :
    cipherDecode C ctx env d b = (d, b, .more) := by
  rw [cipherDecode_legacy C ctx env hk d b (fun h => by subst h; exact hq), run_need _ _ _ hq]
  simp [runRes, Ev.bytes]

/-! ## bridging lemma, client side -/

theorem clientCall_legacy (C : Crypto) (ctx : Ctx) (env : DecEnv) (hk : ctx.kind.is2022 = false)
    (d : Dec) (b : Bytes) (hq : b = [] → unit C ctx env d [] = .need) :
    clientCall C ctx env d b =
      ⟨(run (unit C ctx env) d b).st, (run (unit C ctx env) d b).buf,
        match runRes (run (unit C ctx env) d b) with
        | .ok o => .ok ⟨.data, Ev.bytes o, none⟩
        | .more => .more
        | .err => .err
        | .panic => .panic⟩ := by
  simp only [clientCall, cipherDecode_legacy C ctx env hk d b hq]
  cases runRes (run (unit C ctx env) d b) <;> rfl

theorem clientCall_quiescent (C : Crypto) (ctx : Ctx) (env : DecEnv) (hk : ctx.kind.is2022 = false)
    (d : Dec) (b : Bytes) (hq : unit C ctx env d b = .need) :
    clientCall C ctx env d b = ⟨d, b, .more⟩ := by
  simp only [clientCall, cipherDecode_quiescent C ctx env hk d b hq]

/-- the events one read produces on the client side, from the outcome of the run -/
def cliEvs (r : Out Dec Ev) : List FrEv :=
  if r.failed then [.err, .ended]
  else if Ev.bytes r.out = [] then []
  else [.item ⟨.data, Ev.bytes r.out, none⟩]

/-- **Bridging lemma (client).**  `FramedRead` polling `clientCall` on a buffer `b` performs exactly one
`Fr.run` of the unit step on `b`: the first `decode` hands out everything decodable, the second sees a
quiescent buffer and returns `Ok(None)`.  Two units of fuel suffice, `.spin` is never reported. -/
theorem frLoop_clientCall (C : Crypto) (hC : C.Lawful) (ctx : Ctx) (env : DecEnv) (hk : ctx.kind.is2022 = false)
    (fuel : Nat) (d : Dec) (b : Bytes) (hq : b = [] → unit C ctx env d [] = .need) :
    frLoop (clientCall C ctx env) (fuel + 2) ⟨d, b, false⟩ =
      (⟨(run (unit C ctx env) d b).st, (run (unit C ctx env) d b).buf, (run (unit C ctx env) d b).failed⟩,
        cliEvs (run (unit C ctx env) d b)) := by
  have G := unit_good_legacy C hC ctx env hk
  rw [frLoop, clientCall_legacy C ctx env hk d b hq]
  simp only [runRes, cliEvs]
  cases hf : (run (unit C ctx env) d b).failed with
  | true => simp
  | false =>
    simp only [Bool.false_eq_true, if_false]
    by_cases ho : Ev.bytes (run (unit C ctx env) d b).out = []
    · simp [ho]
    · simp only [ho, if_false]
      have hqq := run_quiescent _ G _ d b (Nat.lt_succ_self _) hf
      rw [frLoop, clientCall_quiescent C ctx env hk _ _ hqq]

/-- **Bridging lemma (client), one socket read.**  On a stream whose buffer is quiescent (which it is
after every read that did not fail), reading `piece` and polling until pending is one `Fr.run` on
`buf ++ piece`; the fuel `buf.length + piece.length + 2` of `frFeed` is enough. -/
theorem frFeed_clientCall (C : Crypto) (hC : C.Lawful) (ctx : Ctx) (env : DecEnv) (hk : ctx.kind.is2022 = false)
    (d : Dec) (b piece : Bytes) (hq : unit C ctx env d b = .need) :
    frFeed (clientCall C ctx env) ⟨d, b, false⟩ piece =
      (⟨(run (unit C ctx env) d (b ++ piece)).st, (run (unit C ctx env) d (b ++ piece)).buf,
          (run (unit C ctx env) d (b ++ piece)).failed⟩,
        cliEvs (run (unit C ctx env) d (b ++ piece))) := by
  simp only [frFeed, Bool.false_eq_true, if_false]
  refine frLoop_clientCall C hC ctx env hk _ d (b ++ piece) ?_
  intro h
  have hb : b = [] := (List.append_eq_nil_iff.mp h).1
  subst hb; exact hq

/-! ## the SOCKS5 address at the head of the plaintext, seen through a prefix -/

theorem encode_length_ge (ad : Addr) : 3 ≤ (Socks5Addr.encode ad).length := by
  cases ad <;> simp [Socks5Addr.encode] <;> omega

/-- `try_decode_at` on any prefix of at least two bytes of `encode ad ‖ anything` already reports the
full encoded length of the address -/
theorem tryDecodeAt_prefix (ad : Addr) (had : ad.Accepted) (T t2 tail : Bytes)
    (h : T ++ t2 = Socks5Addr.encode ad ++ tail) (h2 : 2 ≤ T.length) :
    Socks5Addr.tryDecodeAt T 0 = .ok (Socks5Addr.encode ad).length := by
  match T, h2 with
  | x :: y :: T', _ =>
    cases ad with
    | domain host p =>
      obtain ⟨_, hh, _⟩ := had
      have hl : (u8 host.length).toNat = host.length := u8_toNat_lt _ (by omega)
      simp only [Socks5Addr.encode, List.cons_append, List.nil_append, List.cons.injEq] at h
      obtain ⟨rfl, rfl, _⟩ := h
      simp [Socks5Addr.tryDecodeAt, Socks5Addr.encode, hl]; omega
    | v4 ip p =>
      simp only [Socks5Addr.encode, List.cons_append, List.nil_append, List.cons.injEq] at h
      obtain ⟨rfl, _⟩ := h
      simp [Socks5Addr.tryDecodeAt, Socks5Addr.encode, had.1]
    | v6 ip p =>
      simp only [Socks5Addr.encode, List.cons_append, List.nil_append, List.cons.injEq] at h
      obtain ⟨rfl, _⟩ := h
      simp [Socks5Addr.tryDecodeAt, Socks5Addr.encode, had.1]

theorem prefix_split (T t2 E tail : Bytes) (h : T ++ t2 = E ++ tail) (hl : E.length ≤ T.length) :
    T = E ++ T.drop E.length := by
  have h1 : T.take E.length = E := by
    have := congrArg (List.take E.length) h
    rwa [List.take_append_of_le_length hl, List.take_left] at this
  conv => lhs; rw [← List.take_append_drop E.length T, h1]

/-- once the prefix covers the address, `decode` returns it and what follows it -/
theorem decode_prefix (ad : Addr) (had : ad.Accepted) (T t2 tail : Bytes)
    (h : T ++ t2 = Socks5Addr.encode ad ++ tail) (hl : (Socks5Addr.encode ad).length ≤ T.length) :
    Socks5Addr.decode T = .ok (ad, T.drop (Socks5Addr.encode ad).length) := by
  conv => lhs; rw [prefix_split T t2 _ tail h hl]
  exact c14_socks5_roundtrip ad _ had

/-! ## bridging lemma, server side -/

theorem run_st_sess (C : Crypto) (ctx : Ctx) (env : DecEnv) (hk : ctx.kind.is2022 = false)
    (c : Option ChunkDec) (s : Sess) (b : Bytes) :
    (run (unit C ctx env) ⟨c, s⟩ b).st = ⟨(run (unit C ctx env) ⟨c, s⟩ b).st.chunk, s⟩ :=
  congrArg Out.st (run_sess C ctx env hk s s c b)

theorem serverCall_quiescent (C : Crypto) (ctx : Ctx) (env : DecEnv) (hk : ctx.kind.is2022 = false)
    (s : SrvDec) (b : Bytes) (hq : unit C ctx env s.dec b = .need) :
    serverCall C ctx env s b = ⟨s, b, .more⟩ := by
  simp only [serverCall, cipherDecode_quiescent C ctx env hk s.dec b hq]

/-- `State::Body`: the server call is the client call with another item constructor -/
theorem serverCall_body (C : Crypto) (ctx : Ctx) (env : DecEnv) (hk : ctx.kind.is2022 = false)
    (s : SrvDec) (hh : s.header = false) (b : Bytes) (hq : b = [] → unit C ctx env s.dec [] = .need) :
    serverCall C ctx env s b =
      ⟨{ s with dec := (run (unit C ctx env) s.dec b).st }, (run (unit C ctx env) s.dec b).buf,
        match runRes (run (unit C ctx env) s.dec b) with
        | .ok o => .ok ⟨.data, Ev.bytes o, none⟩
        | .more => .more
        | .err => .err
        | .panic => .panic⟩ := by
  simp only [serverCall, cipherDecode_legacy C ctx env hk s.dec b hq]
  cases runRes (run (unit C ctx env) s.dec b) <;> simp [hh]

/-- `State::Header`, honest client: nothing is handed out while the address is incomplete (the
plaintext is kept in `pending`); as soon as it is complete the `ConnectTcp` item carries what
follows the address -/
theorem serverCall_header (C : Crypto) (ctx : Ctx) (env : DecEnv) (hk : ctx.kind.is2022 = false)
    (c : Option ChunkDec) (sess : Sess) (pend b : Bytes)
    (hsess : sess.address = none) (hq : b = [] → unit C ctx env ⟨c, sess⟩ [] = .need)
    (ad : Addr) (had : ad.Accepted) (tail t2 : Bytes)
    (hp : pend.length < (Socks5Addr.encode ad).length)
    (hnf : (run (unit C ctx env) ⟨c, sess⟩ b).failed = false)
    (hT : pend ++ Ev.bytes (run (unit C ctx env) ⟨c, sess⟩ b).out ++ t2 = Socks5Addr.encode ad ++ tail) :
    serverCall C ctx env ⟨⟨c, sess⟩, true, pend⟩ b =
      if (pend ++ Ev.bytes (run (unit C ctx env) ⟨c, sess⟩ b).out).length < (Socks5Addr.encode ad).length then
        ⟨⟨⟨(run (unit C ctx env) ⟨c, sess⟩ b).st.chunk, sess⟩, true,
            pend ++ Ev.bytes (run (unit C ctx env) ⟨c, sess⟩ b).out⟩,
          (run (unit C ctx env) ⟨c, sess⟩ b).buf, .more⟩
      else
        ⟨⟨⟨(run (unit C ctx env) ⟨c, sess⟩ b).st.chunk, { sess with address := some ad }⟩, false, []⟩,
          (run (unit C ctx env) ⟨c, sess⟩ b).buf,
          .ok ⟨.connect, (pend ++ Ev.bytes (run (unit C ctx env) ⟨c, sess⟩ b).out).drop (Socks5Addr.encode ad).length,
            some ad⟩⟩ := by
  have hst := run_st_sess C ctx env hk c sess b
  have hL := encode_length_ge ad
  simp only [serverCall, cipherDecode_legacy C ctx env hk ⟨c, sess⟩ b hq, runRes, hnf]
  generalize run (unit C ctx env) ⟨c, sess⟩ b = r at *
  obtain ⟨⟨rc, rs⟩, rbuf, rout, rfailed⟩ := r
  simp only [Dec.mk.injEq, true_and] at hst hnf hT ⊢
  subst hst
  by_cases ho : Ev.bytes rout = []
  · simp [ho, hp]
  · simp only [Bool.false_eq_true, if_false, ho, hsess, not_true_eq_false]
    by_cases h2 : (pend ++ Ev.bytes rout).length < 2
    · rw [if_pos h2, if_pos (by omega)]
    · rw [if_neg h2, tryDecodeAt_prefix ad had _ t2 tail hT (by omega)]
      simp only
      by_cases h3 : (pend ++ Ev.bytes rout).length < (Socks5Addr.encode ad).length
      · rw [if_pos h3, if_pos h3]
      · rw [if_neg h3, if_neg h3, decode_prefix ad had _ t2 tail hT (by omega)]

/-- **Bridging lemma (server, `State::Body`).** -/
theorem frLoop_serverCall_body (C : Crypto) (hC : C.Lawful) (ctx : Ctx) (env : DecEnv) (hk : ctx.kind.is2022 = false)
    (fuel : Nat) (s : SrvDec) (hh : s.header = false) (b : Bytes) (hq : b = [] → unit C ctx env s.dec [] = .need) :
    frLoop (serverCall C ctx env) (fuel + 2) ⟨s, b, false⟩ =
      (⟨{ s with dec := (run (unit C ctx env) s.dec b).st }, (run (unit C ctx env) s.dec b).buf,
          (run (unit C ctx env) s.dec b).failed⟩,
        cliEvs (run (unit C ctx env) s.dec b)) := by
  have G := unit_good_legacy C hC ctx env hk
  rw [frLoop, serverCall_body C ctx env hk s hh b hq]
  simp only [runRes, cliEvs]
  cases hf : (run (unit C ctx env) s.dec b).failed with
  | true => simp
  | false =>
    simp only [Bool.false_eq_true, if_false]
    by_cases ho : Ev.bytes (run (unit C ctx env) s.dec b).out = []
    · simp [ho]
    · simp only [ho, if_false]
      have hqq := run_quiescent _ G _ s.dec b (Nat.lt_succ_self _) hf
      rw [frLoop, serverCall_quiescent C ctx env hk _ _ hqq]

theorem frFeed_serverCall_body (C : Crypto) (hC : C.Lawful) (ctx : Ctx) (env : DecEnv) (hk : ctx.kind.is2022 = false)
    (s : SrvDec) (hh : s.header = false) (b piece : Bytes) (hq : unit C ctx env s.dec b = .need) :
    frFeed (serverCall C ctx env) ⟨s, b, false⟩ piece =
      (⟨{ s with dec := (run (unit C ctx env) s.dec (b ++ piece)).st }, (run (unit C ctx env) s.dec (b ++ piece)).buf,
          (run (unit C ctx env) s.dec (b ++ piece)).failed⟩,
        cliEvs (run (unit C ctx env) s.dec (b ++ piece))) := by
  simp only [frFeed, Bool.false_eq_true, if_false]
  refine frLoop_serverCall_body C hC ctx env hk _ s hh (b ++ piece) ?_
  intro h
  have hb : b = [] := (List.append_eq_nil_iff.mp h).1
  subst hb; exact hq

/-- **Bridging lemma (server, `State::Header`, honest client).**  One `Fr.run` on the buffer; no
item while the address is incomplete, then the `ConnectTcp` item and a second call that returns
`Ok(None)`. -/
theorem frLoop_serverCall_header (C : Crypto) (hC : C.Lawful) (ctx : Ctx) (env : DecEnv) (hk : ctx.kind.is2022 = false)
    (fuel : Nat) (c : Option ChunkDec) (sess : Sess) (pend b : Bytes)
    (hsess : sess.address = none) (hq : b = [] → unit C ctx env ⟨c, sess⟩ [] = .need)
    (ad : Addr) (had : ad.Accepted) (tail t2 : Bytes)
    (hp : pend.length < (Socks5Addr.encode ad).length)
    (hnf : (run (unit C ctx env) ⟨c, sess⟩ b).failed = false)
    (hT : pend ++ Ev.bytes (run (unit C ctx env) ⟨c, sess⟩ b).out ++ t2 = Socks5Addr.encode ad ++ tail) :
    frLoop (serverCall C ctx env) (fuel + 2) ⟨⟨⟨c, sess⟩, true, pend⟩, b, false⟩ =
      if (pend ++ Ev.bytes (run (unit C ctx env) ⟨c, sess⟩ b).out).length < (Socks5Addr.encode ad).length then
        (⟨⟨⟨(run (unit C ctx env) ⟨c, sess⟩ b).st.chunk, sess⟩, true,
            pend ++ Ev.bytes (run (unit C ctx env) ⟨c, sess⟩ b).out⟩,
          (run (unit C ctx env) ⟨c, sess⟩ b).buf, false⟩, [])
      else
        (⟨⟨⟨(run (unit C ctx env) ⟨c, sess⟩ b).st.chunk, { sess with address := some ad }⟩, false, []⟩,
          (run (unit C ctx env) ⟨c, sess⟩ b).buf, false⟩,
          [.item ⟨.connect, (pend ++ Ev.bytes (run (unit C ctx env) ⟨c, sess⟩ b).out).drop (Socks5Addr.encode ad).length,
            some ad⟩]) := by
  have G := unit_good_legacy C hC ctx env hk
  rw [frLoop, serverCall_header C ctx env hk c sess pend b hsess hq ad had tail t2 hp hnf hT]
  by_cases hlt : (pend ++ Ev.bytes (run (unit C ctx env) ⟨c, sess⟩ b).out).length < (Socks5Addr.encode ad).length
  · simp only [if_pos hlt]
  · simp only [if_neg hlt]
    have hqq := run_quiescent _ G _ ⟨c, sess⟩ b (Nat.lt_succ_self _) hnf
    rw [run_st_sess C ctx env hk c sess b] at hqq
    have hq2 : unit C ctx env ⟨(run (unit C ctx env) ⟨c, sess⟩ b).st.chunk, { sess with address := some ad }⟩
        (run (unit C ctx env) ⟨c, sess⟩ b).buf = .need := by
      rw [unit_sess C ctx env hk _ sess, hqq]; rfl
    rw [frLoop, serverCall_quiescent C ctx env hk _ _ hq2]

theorem frFeed_serverCall_header (C : Crypto) (hC : C.Lawful) (ctx : Ctx) (env : DecEnv) (hk : ctx.kind.is2022 = false)
    (c : Option ChunkDec) (sess : Sess) (pend b piece : Bytes)
    (hsess : sess.address = none) (hq : unit C ctx env ⟨c, sess⟩ b = .need)
    (ad : Addr) (had : ad.Accepted) (tail t2 : Bytes)
    (hp : pend.length < (Socks5Addr.encode ad).length)
    (hnf : (run (unit C ctx env) ⟨c, sess⟩ (b ++ piece)).failed = false)
    (hT : pend ++ Ev.bytes (run (unit C ctx env) ⟨c, sess⟩ (b ++ piece)).out ++ t2 = Socks5Addr.encode ad ++ tail) :
    frFeed (serverCall C ctx env) ⟨⟨⟨c, sess⟩, true, pend⟩, b, false⟩ piece =
      if (pend ++ Ev.bytes (run (unit C ctx env) ⟨c, sess⟩ (b ++ piece)).out).length < (Socks5Addr.encode ad).length then
        (⟨⟨⟨(run (unit C ctx env) ⟨c, sess⟩ (b ++ piece)).st.chunk, sess⟩, true,
            pend ++ Ev.bytes (run (unit C ctx env) ⟨c, sess⟩ (b ++ piece)).out⟩,
          (run (unit C ctx env) ⟨c, sess⟩ (b ++ piece)).buf, false⟩, [])
      else
        (⟨⟨⟨(run (unit C ctx env) ⟨c, sess⟩ (b ++ piece)).st.chunk, { sess with address := some ad }⟩, false, []⟩,
          (run (unit C ctx env) ⟨c, sess⟩ (b ++ piece)).buf, false⟩,
          [.item ⟨.connect,
            (pend ++ Ev.bytes (run (unit C ctx env) ⟨c, sess⟩ (b ++ piece)).out).drop (Socks5Addr.encode ad).length,
            some ad⟩]) := by
  simp only [frFeed, Bool.false_eq_true, if_false]
  refine frLoop_serverCall_header C hC ctx env hk _ c sess pend (b ++ piece) hsess ?_ ad had tail t2 hp hnf hT
  intro h
  have hb : b = [] := (List.append_eq_nil_iff.mp h).1
  subst hb; exact hq

/-! ## a run that does not fail, cut in two -/

theorem run_append_ok {σ ο : Type} (unit : σ → Bytes → Step σ ο) (G : Good unit) (s : σ) (b t : Bytes)
    (h : (run unit s (b ++ t)).failed = false) :
    (run unit s b).failed = false ∧
      run unit s (b ++ t) =
        ⟨(run unit (run unit s b).st ((run unit s b).buf ++ t)).st,
          (run unit (run unit s b).st ((run unit s b).buf ++ t)).buf,
          (run unit s b).out ++ (run unit (run unit s b).st ((run unit s b).buf ++ t)).out,
          (run unit (run unit s b).st ((run unit s b).buf ++ t)).failed⟩ := by
  have ha := run_append unit G (b.length + 1) s b t (by omega)
  cases hf : (run unit s b).failed with
  | true => rw [ha, hf] at h; simp at h
  | false => rw [ha, hf]; simp

/-! ## client side: any segmentation -/

theorem cliEvs_ok (r : Out Dec Ev) (hnf : r.failed = false) :
    evClean (cliEvs r) = true ∧ (∀ i ∈ evItems (cliEvs r), i.kind = .data ∧ i.addr = none) ∧
      evData (cliEvs r) = Ev.bytes r.out := by
  unfold cliEvs
  rw [hnf]
  by_cases ho : Ev.bytes r.out = []
  · simp [ho]
  · simp [ho]

/-- feeding any pieces through `FramedRead` + `clientCall`, as long as the unit-level run on the bytes
does not fail: the stream state is the state of that run, the events are `data` items whose
concatenation is exactly the payload the run produced -/
theorem feedAll_clientCall (C : Crypto) (hC : C.Lawful) (ctx : Ctx) (env : DecEnv) (hk : ctx.kind.is2022 = false)
    (pieces : List Bytes) : ∀ (d : Dec) (b : Bytes), unit C ctx env d b = .need →
      (run (unit C ctx env) d (b ++ pieces.flatten)).failed = false →
      (feedAll (clientCall C ctx env) ⟨d, b, false⟩ pieces).1 =
          ⟨(run (unit C ctx env) d (b ++ pieces.flatten)).st, (run (unit C ctx env) d (b ++ pieces.flatten)).buf, false⟩ ∧
        evClean (feedAll (clientCall C ctx env) ⟨d, b, false⟩ pieces).2 = true ∧
        (∀ i ∈ evItems (feedAll (clientCall C ctx env) ⟨d, b, false⟩ pieces).2, i.kind = .data ∧ i.addr = none) ∧
        evData (feedAll (clientCall C ctx env) ⟨d, b, false⟩ pieces).2 =
          Ev.bytes (run (unit C ctx env) d (b ++ pieces.flatten)).out := by
  have G := unit_good_legacy C hC ctx env hk
  induction pieces with
  | nil =>
    intro d b hq _
    simp [run_need _ _ _ hq, Ev.bytes]
  | cons p ps ih =>
    intro d b hq hnf
    simp only [List.flatten_cons, ← List.append_assoc] at hnf ⊢
    obtain ⟨hf1, hrun⟩ := run_append_ok _ G d (b ++ p) ps.flatten hnf
    have hq1 := run_quiescent _ G _ d (b ++ p) (Nat.lt_succ_self _) hf1
    rw [hrun] at hnf
    obtain ⟨i1, i2, i3, i4⟩ := ih _ _ hq1 hnf
    obtain ⟨e1, e2, e3⟩ := cliEvs_ok _ hf1
    rw [feedAll_cons, frFeed_clientCall C hC ctx env hk d b p hq, hf1, hrun]
    refine ⟨i1, ?_, ?_, ?_⟩
    · rw [evClean_append, e1, i2]; rfl
    · intro i hi
      rw [evItems_append, List.mem_append] at hi
      rcases hi with hi | hi
      · exact e2 i hi
      · exact i3 i hi
    · rw [evData_append, e3, i4, Ev.bytes_append]

/-! ## the honest legacy stream at unit level (both directions) -/

/-- what a legacy sender puts in front of its first payload: the client the target address, the
server nothing -/
def hdrBytes (s : Sess) : Bytes :=
  match s.mode with
  | .client =>
    match s.address with
    | some ad => Socks5Addr.encode ad
    | none => []
  | .server => []

theorem hdrBytes_server (s : Sess) (h : s.mode = .server) : hdrBytes s = [] := by simp [hdrBytes, h]
theorem hdrBytes_client (s : Sess) (ad : Addr) (h : s.mode = .client) (ha : s.address = some ad) :
    hdrBytes s = Socks5Addr.encode ad := by simp [hdrBytes, h, ha]

/-- everything a legacy session writes, run through the unit-level decoder at once -/
theorem legacy_stream_run (C : Crypto) (hC : C.Lawful) (ctx : Ctx) (hk : ctx.kind.is2022 = false)
    (s ds : Sess) (env : DecEnv) (hs : s.salt.length = ctx.kind.n)
    (w : Bytes × EncRand) (ws : List (Bytes × EncRand)) :
    ∃ a', run (unit C ctx env) ⟨none, ds⟩ (encodeAll C ctx s {} (w :: ws)).1 =
      ⟨⟨some ⟨a', .length⟩, ds⟩, [], (hdrBytes s ++ ((w :: ws).map Prod.fst).flatten).map .byte, false⟩ := by
  have G := unit_good_legacy C hC ctx env hk
  have hne := kind_legacy_noEih _ hk
  obtain ⟨wb, wr⟩ := w
  let a0 := newAuth C ctx.kind ctx.key s.salt
  have henc : encode C ctx s {} wb wr =
      (s.salt ++ (encPayload C a0 ctx.kind.payloadLimit (hdrBytes s ++ wb)).1,
        ⟨some (encPayload C a0 ctx.kind.payloadLimit (hdrBytes s ++ wb)).2⟩) := by
    cases hm : s.mode <;> cases ha : s.address <;> simp [encode, hk, hne, hm, ha, a0, hdrBytes]
  obtain ⟨a', h2, h3⟩ := encodeAll_some_roundtrip C hC ctx s ws (encPayload C a0 ctx.kind.payloadLimit (hdrBytes s ++ wb)).2
  have hall : (encodeAll C ctx s {} ((wb, wr) :: ws)).1 =
      s.salt ++ ((encPayload C a0 ctx.kind.payloadLimit (hdrBytes s ++ wb)).1 ++
        (encodeAll C ctx s ⟨some (encPayload C a0 ctx.kind.payloadLimit (hdrBytes s ++ wb)).2⟩ ws).1) := by
    simp [encodeAll, henc]
  have hn := kind_n_pos ctx.kind
  have u0 : ∀ t, unit C ctx env ⟨none, ds⟩ (s.salt ++ t) = .take ⟨some ⟨a0, .length⟩, ds⟩ ctx.kind.n [] := by
    intro t
    simp only [unit, hk, Bool.false_eq_true, if_false]
    rw [if_neg (by simp only [List.length_append]; omega)]
    rw [← hs, List.take_left]
  have hd : ∀ t, (s.salt ++ t).drop ctx.kind.n = t := by intro t; rw [← hs, List.drop_left]
  refine ⟨a', ?_⟩
  rw [hall, run_take _ G _ _ _ _ _ (u0 _), hd, run_lift,
    run_concat _ (chunkUnit_good C hC) _ _ _ _ _ (payload_roundtrip C hC a0 _ (payloadLimit_good ctx.kind) _), h3]
  simp [liftOut, List.append_assoc]

/-! ## server side: any segmentation -/

/-- `State::Body`: as on the client side -/
theorem feedAll_serverCall_body (C : Crypto) (hC : C.Lawful) (ctx : Ctx) (env : DecEnv) (hk : ctx.kind.is2022 = false)
    (pieces : List Bytes) : ∀ (s : SrvDec) (b : Bytes), s.header = false → unit C ctx env s.dec b = .need →
      (run (unit C ctx env) s.dec (b ++ pieces.flatten)).failed = false →
      (feedAll (serverCall C ctx env) ⟨s, b, false⟩ pieces).1 =
          ⟨{ s with dec := (run (unit C ctx env) s.dec (b ++ pieces.flatten)).st },
            (run (unit C ctx env) s.dec (b ++ pieces.flatten)).buf, false⟩ ∧
        evClean (feedAll (serverCall C ctx env) ⟨s, b, false⟩ pieces).2 = true ∧
        (∀ i ∈ evItems (feedAll (serverCall C ctx env) ⟨s, b, false⟩ pieces).2, i.kind = .data ∧ i.addr = none) ∧
        evData (feedAll (serverCall C ctx env) ⟨s, b, false⟩ pieces).2 =
          Ev.bytes (run (unit C ctx env) s.dec (b ++ pieces.flatten)).out := by
  have G := unit_good_legacy C hC ctx env hk
  induction pieces with
  | nil =>
    intro s b hh hq _
    simp [run_need _ _ _ hq, Ev.bytes]
  | cons p ps ih =>
    intro s b hh hq hnf
    simp only [List.flatten_cons, ← List.append_assoc] at hnf ⊢
    obtain ⟨hf1, hrun⟩ := run_append_ok _ G s.dec (b ++ p) ps.flatten hnf
    have hq1 := run_quiescent _ G _ s.dec (b ++ p) (Nat.lt_succ_self _) hf1
    rw [hrun] at hnf
    obtain ⟨i1, i2, i3, i4⟩ := ih { s with dec := (run (unit C ctx env) s.dec (b ++ p)).st } _ hh hq1 hnf
    obtain ⟨e1, e2, e3⟩ := cliEvs_ok _ hf1
    rw [feedAll_cons, frFeed_serverCall_body C hC ctx env hk s hh b p hq, hf1, hrun]
    refine ⟨i1, ?_, ?_, ?_⟩
    · rw [evClean_append, e1, i2]; rfl
    · intro i hi
      rw [evItems_append, List.mem_append] at hi
      rcases hi with hi | hi
      · exact e2 i hi
      · exact i3 i hi
    · rw [evData_append, e3, i4, Ev.bytes_append]

/-- The server stream after the unit-level run `R` over everything read so far, `T` being the
plaintext decrypted so far (`encode ad ‖ payload`, possibly cut anywhere):
* the buffer is the run's buffer (the incomplete chunk), the stream has not ended, no error events;
* while `T` does not cover the address: still `State::Header`, `pending = T`, **no event at all**;
* afterwards: `State::Body`, the session knows the address, the first item is the one `ConnectTcp`
  carrying it, all other items are `data`, and address ‖ data handed out = `T`. -/
def SrvAfter (ad : Addr) (sess : Sess) (R : Out Dec Ev) (T : Bytes) (F : FrSt SrvDec × List FrEv) : Prop :=
  F.1.buf = R.buf ∧ F.1.ended = false ∧ evClean F.2 = true ∧
  ((T.length < (Socks5Addr.encode ad).length ∧ F.1.st = ⟨⟨R.st.chunk, sess⟩, true, T⟩ ∧ F.2 = []) ∨
   ((Socks5Addr.encode ad).length ≤ T.length ∧
     F.1.st = ⟨⟨R.st.chunk, { sess with address := some ad }⟩, false, []⟩ ∧
     ∃ d0 rest, evItems F.2 = ⟨.connect, d0, some ad⟩ :: rest ∧
       (∀ i ∈ rest, i.kind = .data ∧ i.addr = none) ∧ Socks5Addr.encode ad ++ evData F.2 = T))

theorem feedAll_serverCall_header (C : Crypto) (hC : C.Lawful) (ctx : Ctx) (env : DecEnv) (hk : ctx.kind.is2022 = false)
    (ad : Addr) (had : ad.Accepted) (tail : Bytes) (pieces : List Bytes) :
    ∀ (c : Option ChunkDec) (sess : Sess) (pend b t2 : Bytes), sess.address = none →
      unit C ctx env ⟨c, sess⟩ b = .need → pend.length < (Socks5Addr.encode ad).length →
      (run (unit C ctx env) ⟨c, sess⟩ (b ++ pieces.flatten)).failed = false →
      pend ++ Ev.bytes (run (unit C ctx env) ⟨c, sess⟩ (b ++ pieces.flatten)).out ++ t2 = Socks5Addr.encode ad ++ tail →
      SrvAfter ad sess (run (unit C ctx env) ⟨c, sess⟩ (b ++ pieces.flatten))
        (pend ++ Ev.bytes (run (unit C ctx env) ⟨c, sess⟩ (b ++ pieces.flatten)).out)
        (feedAll (serverCall C ctx env) ⟨⟨⟨c, sess⟩, true, pend⟩, b, false⟩ pieces) := by
  have G := unit_good_legacy C hC ctx env hk
  induction pieces with
  | nil =>
    intro c sess pend b t2 hsess hq hp _ _
    simp only [List.flatten_nil, List.append_nil, run_need _ _ _ hq, Ev.bytes, feedAll_nil]
    exact ⟨rfl, rfl, rfl, Or.inl ⟨hp, rfl, rfl⟩⟩
  | cons p ps ih =>
    intro c sess pend b t2 hsess hq hp hnf hT
    simp only [List.flatten_cons, ← List.append_assoc] at hnf hT ⊢
    obtain ⟨hf1, hrun⟩ := run_append_ok _ G ⟨c, sess⟩ (b ++ p) ps.flatten hnf
    have hq1 := run_quiescent _ G _ ⟨c, sess⟩ (b ++ p) (Nat.lt_succ_self _) hf1
    have hst1 := run_st_sess C ctx env hk c sess (b ++ p)
    rw [hrun] at hnf hT ⊢
    simp only [Ev.bytes_append] at hT ⊢
    have hT1 : pend ++ Ev.bytes (run (unit C ctx env) ⟨c, sess⟩ (b ++ p)).out ++
        (Ev.bytes (run (unit C ctx env) (run (unit C ctx env) ⟨c, sess⟩ (b ++ p)).st
          ((run (unit C ctx env) ⟨c, sess⟩ (b ++ p)).buf ++ ps.flatten)).out ++ t2) =
        Socks5Addr.encode ad ++ tail := by
      rw [← hT]; simp only [List.append_assoc]
    have hfeed := frFeed_serverCall_header C hC ctx env hk c sess pend b p hsess hq ad had tail _ hp hf1 hT1
    rw [feedAll_cons, hfeed]
    generalize run (unit C ctx env) ⟨c, sess⟩ (b ++ p) = r1 at *
    obtain ⟨⟨rc, rs⟩, rbuf, rout, rf⟩ := r1
    simp only [Dec.mk.injEq, true_and] at hst1
    subst hst1
    simp only at hf1 hq1 hnf hT hT1 ⊢
    by_cases hlt : (pend ++ Ev.bytes rout).length < (Socks5Addr.encode ad).length
    · -- still in the header
      simp only [if_pos hlt, List.nil_append]
      have := ih rc rs (pend ++ Ev.bytes rout) rbuf t2 hsess hq1 hlt hnf (by rw [← hT]; simp only [List.append_assoc])
      simp only [SrvAfter, List.append_assoc] at this ⊢
      exact this
    · -- the address is complete: `ConnectTcp`, then the body
      simp only [if_neg hlt]
      have hq2 : unit C ctx env ⟨rc, { rs with address := some ad }⟩ rbuf = .need := by
        rw [unit_sess C ctx env hk _ rs, hq1]; rfl
      have hrs := run_sess C ctx env hk rs { rs with address := some ad } rc (rbuf ++ ps.flatten)
      obtain ⟨i1, i2, i3, i4⟩ := feedAll_serverCall_body C hC ctx env hk ps
        ⟨⟨rc, { rs with address := some ad }⟩, false, []⟩ rbuf rfl hq2 (by rw [hrs]; exact hnf)
      rw [hrs] at i1 i4
      simp only [setS] at i1 i4
      have hsplit := prefix_split _ _ _ tail hT1 (Nat.le_of_not_lt hlt)
      refine ⟨by rw [i1], by rw [i1], by simpa using i2, Or.inr ⟨?_, by rw [i1], _, _, rfl, i3, ?_⟩⟩
      · simp only [List.length_append] at hlt ⊢; omega
      · simp only [List.cons_append, List.nil_append, evData_item, i4]
        rw [← List.append_assoc, ← hsplit, List.append_assoc]

/-! ## from the simulation lemmas to the stream-level statements -/

theorem unit_init_need (C : Crypto) (ctx : Ctx) (env : DecEnv) (hk : ctx.kind.is2022 = false) (ds : Sess) :
    unit C ctx env ⟨none, ds⟩ [] = .need := by
  have := kind_n_pos ctx.kind
  simp only [unit, hk, Bool.false_eq_true, if_false, List.length_nil]
  rw [if_pos (Or.inl this)]

/-- a prefix of a stream that does not fail does not fail, and its plaintext is a prefix -/
theorem run_prefix_ok {σ ο : Type} (unit : σ → Bytes → Step σ ο) (G : Good unit) (s : σ) (pre post : List Bytes)
    (h : (run unit s (pre ++ post).flatten).failed = false) :
    (run unit s pre.flatten).failed = false ∧
      ∃ o2, (run unit s (pre ++ post).flatten).out = (run unit s pre.flatten).out ++ o2 := by
  rw [List.flatten_append] at h ⊢
  obtain ⟨h1, h2⟩ := run_append_ok unit G s pre.flatten post.flatten h
  exact ⟨h1, _, by rw [h2]⟩

/-- client, core: any byte stream on which the unit-level run does not fail -/
theorem client_framed_core (C : Crypto) (hC : C.Lawful) (ctx : Ctx) (env : DecEnv) (hk : ctx.kind.is2022 = false)
    (ds : Sess) (pieces : List Bytes) (hnf : (run (unit C ctx env) ⟨none, ds⟩ pieces.flatten).failed = false) :
    (feedAll (clientCall C ctx env) ⟨⟨none, ds⟩, [], false⟩ pieces).1 =
        ⟨(run (unit C ctx env) ⟨none, ds⟩ pieces.flatten).st, (run (unit C ctx env) ⟨none, ds⟩ pieces.flatten).buf, false⟩ ∧
      evClean (feedAll (clientCall C ctx env) ⟨⟨none, ds⟩, [], false⟩ pieces).2 = true ∧
      (∀ i ∈ evItems (feedAll (clientCall C ctx env) ⟨⟨none, ds⟩, [], false⟩ pieces).2, i.kind = .data ∧ i.addr = none) ∧
      evData (feedAll (clientCall C ctx env) ⟨⟨none, ds⟩, [], false⟩ pieces).2 =
        Ev.bytes (run (unit C ctx env) ⟨none, ds⟩ pieces.flatten).out ∧
      clientCall C ctx env (feedAll (clientCall C ctx env) ⟨⟨none, ds⟩, [], false⟩ pieces).1.st
          (feedAll (clientCall C ctx env) ⟨⟨none, ds⟩, [], false⟩ pieces).1.buf =
        ⟨(feedAll (clientCall C ctx env) ⟨⟨none, ds⟩, [], false⟩ pieces).1.st,
          (feedAll (clientCall C ctx env) ⟨⟨none, ds⟩, [], false⟩ pieces).1.buf, .more⟩ := by
  have G := unit_good_legacy C hC ctx env hk
  have h := feedAll_clientCall C hC ctx env hk pieces ⟨none, ds⟩ [] (unit_init_need C ctx env hk ds)
    (by simpa using hnf)
  simp only [List.nil_append] at h
  obtain ⟨h1, h2, h3, h4⟩ := h
  refine ⟨h1, h2, h3, h4, ?_⟩
  rw [h1]
  exact clientCall_quiescent C ctx env hk _ _ (run_quiescent _ G _ _ _ (Nat.lt_succ_self _) hnf)

/-- in a state described by `SrvAfter` the next `decode` call returns `Ok(None)` and leaves state and
buffer alone: everything decodable has been handed out (or, for address bytes, kept in `pending`) -/
theorem SrvAfter.idle (C : Crypto) (ctx : Ctx) (env : DecEnv) (hk : ctx.kind.is2022 = false)
    {ad : Addr} {sess : Sess} {R : Out Dec Ev} {T : Bytes} {F : FrSt SrvDec × List FrEv}
    (h : SrvAfter ad sess R T F) (hq : unit C ctx env ⟨R.st.chunk, sess⟩ R.buf = .need) :
    serverCall C ctx env F.1.st F.1.buf = ⟨F.1.st, F.1.buf, .more⟩ := by
  obtain ⟨hb, _, _, hc⟩ := h
  apply serverCall_quiescent C ctx env hk
  rw [hb]
  rcases hc with ⟨_, hs, _⟩ | ⟨_, hs, _⟩
  · rw [hs]; exact hq
  · rw [hs]; simp only; rw [unit_sess C ctx env hk _ sess, hq]; rfl

/-- every decrypted byte is accounted for: kept as incomplete address, or consumed as the address, or
handed out as data -/
theorem SrvAfter.accounts {ad : Addr} {sess : Sess} {R : Out Dec Ev} {T : Bytes} {F : FrSt SrvDec × List FrEv}
    (h : SrvAfter ad sess R T F) :
    T = F.1.st.pending ++ (if F.1.st.header then [] else Socks5Addr.encode ad) ++ evData F.2 := by
  obtain ⟨_, _, _, hc⟩ := h
  rcases hc with ⟨_, hs, he⟩ | ⟨_, hs, _, _, _, _, he⟩
  · rw [hs, he]; simp
  · rw [hs, ← he]; simp

/-- server, core: any byte stream that the unit-level decoder turns, without failure, into
`encode ad ‖ payload` — however the sender cut the plaintext into chunks — in any segmentation -/
theorem server_framed_core (C : Crypto) (hC : C.Lawful) (ctx : Ctx) (env : DecEnv) (hk : ctx.kind.is2022 = false)
    (ds : Sess) (hds : ds.address = none) (ad : Addr) (had : ad.Accepted) (payload : Bytes)
    (pre post : List Bytes)
    (hnf : (run (unit C ctx env) ⟨none, ds⟩ (pre ++ post).flatten).failed = false)
    (hout : Ev.bytes (run (unit C ctx env) ⟨none, ds⟩ (pre ++ post).flatten).out = Socks5Addr.encode ad ++ payload) :
    (run (unit C ctx env) ⟨none, ds⟩ pre.flatten).failed = false ∧
    SrvAfter ad ds (run (unit C ctx env) ⟨none, ds⟩ pre.flatten)
      (Ev.bytes (run (unit C ctx env) ⟨none, ds⟩ pre.flatten).out)
      (feedAll (serverCall C ctx env) ⟨⟨⟨none, ds⟩, true, []⟩, [], false⟩ pre) ∧
    serverCall C ctx env (feedAll (serverCall C ctx env) ⟨⟨⟨none, ds⟩, true, []⟩, [], false⟩ pre).1.st
        (feedAll (serverCall C ctx env) ⟨⟨⟨none, ds⟩, true, []⟩, [], false⟩ pre).1.buf =
      ⟨(feedAll (serverCall C ctx env) ⟨⟨⟨none, ds⟩, true, []⟩, [], false⟩ pre).1.st,
        (feedAll (serverCall C ctx env) ⟨⟨⟨none, ds⟩, true, []⟩, [], false⟩ pre).1.buf, .more⟩ := by
  have G := unit_good_legacy C hC ctx env hk
  obtain ⟨hnf1, o2, ho2⟩ := run_prefix_ok _ G _ pre post hnf
  have hL := encode_length_ge ad
  have h := feedAll_serverCall_header C hC ctx env hk ad had payload pre none ds [] [] (Ev.bytes o2) hds
    (unit_init_need C ctx env hk ds) (by simp only [List.length_nil]; omega) (by simpa using hnf1)
    (by simp only [List.nil_append]; rw [← hout, ho2, Ev.bytes_append])
  simp only [List.nil_append] at h
  refine ⟨hnf1, h, h.idle C ctx env hk ?_⟩
  rw [← run_st_sess C ctx env hk none ds]
  exact run_quiescent _ G _ _ _ (Nat.lt_succ_self _) hnf1

/-! ## requests: byte streams that decrypt to `address ‖ payload` -/

/-- `wire` is a complete legacy request for `ad` with payload `payload`: the unit-level decoder
consumes it entirely, without failure, and the plaintext is `encode ad ‖ payload`.  Nothing is said
about how the sender cut the plaintext into chunks. -/
def LegacyReq (C : Crypto) (ctx : Ctx) (env : DecEnv) (ds : Sess) (ad : Addr) (payload wire : Bytes) : Prop :=
  (run (unit C ctx env) ⟨none, ds⟩ wire).failed = false ∧ (run (unit C ctx env) ⟨none, ds⟩ wire).buf = [] ∧
    Ev.bytes (run (unit C ctx env) ⟨none, ds⟩ wire).out = Socks5Addr.encode ad ++ payload

/-- what this repo's client writes is such a request -/
theorem legacyReq_encodeAll (C : Crypto) (hC : C.Lawful) (ctx : Ctx) (hk : ctx.kind.is2022 = false)
    (cs ds : Sess) (env : DecEnv) (ad : Addr)
    (hm : cs.mode = .client) (ha : cs.address = some ad) (hs : cs.salt.length = ctx.kind.n)
    (w : Bytes × EncRand) (ws : List (Bytes × EncRand)) :
    LegacyReq C ctx env ds ad (((w :: ws).map Prod.fst).flatten) (encodeAll C ctx cs {} (w :: ws)).1 := by
  obtain ⟨a', h⟩ := legacy_stream_run C hC ctx hk cs ds env hs w ws
  unfold LegacyReq
  rw [h, hdrBytes_client cs ad hm ha]
  refine ⟨rfl, rfl, ?_⟩
  simp only [Ev.bytes_map_byte]

/-- so is the stream of *any* sender that seals `encode ad ‖ payload` in chunks of its own choosing
(the address may straddle chunks, chunks may be empty) -/
theorem legacyReq_chunks (C : Crypto) (hC : C.Lawful) (ctx : Ctx) (hk : ctx.kind.is2022 = false)
    (ds : Sess) (env : DecEnv) (ad : Addr) (salt payload : Bytes) (hs : salt.length = ctx.kind.n)
    (ps : List Bytes) (hps : ∀ p ∈ ps, p.length < 65536) (hflat : ps.flatten = Socks5Addr.encode ad ++ payload) :
    LegacyReq C ctx env ds ad payload (salt ++ (encChunks C (newAuth C ctx.kind ctx.key salt) ps).1) := by
  have G := unit_good_legacy C hC ctx env hk
  have hn := kind_n_pos ctx.kind
  have u0 : unit C ctx env ⟨none, ds⟩ (salt ++ (encChunks C (newAuth C ctx.kind ctx.key salt) ps).1) =
      .take ⟨some ⟨newAuth C ctx.kind ctx.key salt, .length⟩, ds⟩ ctx.kind.n [] := by
    simp only [unit, hk, Bool.false_eq_true, if_false]
    rw [if_neg (by simp only [List.length_append]; omega)]
    rw [← hs, List.take_left]
  have hd : (salt ++ (encChunks C (newAuth C ctx.kind ctx.key salt) ps).1).drop ctx.kind.n =
      (encChunks C (newAuth C ctx.kind ctx.key salt) ps).1 := by rw [← hs, List.drop_left]
  unfold LegacyReq
  rw [run_take _ G _ _ _ _ _ u0, hd, run_lift, chunks_roundtrip C hC ps hps]
  refine ⟨rfl, rfl, ?_⟩
  simp only [liftOut, List.nil_append, Ev.bytes_map_byte, hflat]

/-- the initial stream states: nothing read, no chunk decoder, (server) `State::Header` -/
@[reducible] def cliInit (ds : Sess) : FrSt Dec := ⟨⟨none, ds⟩, [], false⟩
@[reducible] def srvInit (ds : Sess) : FrSt SrvDec := ⟨⟨⟨none, ds⟩, true, []⟩, [], false⟩

/-- server side, a complete request in any segmentation -/
theorem server_framed_of_req (C : Crypto) (hC : C.Lawful) (ctx : Ctx) (env : DecEnv) (hk : ctx.kind.is2022 = false)
    (ds : Sess) (hds : ds.address = none) (ad : Addr) (had : ad.Accepted) (payload wire : Bytes)
    (hreq : LegacyReq C ctx env ds ad payload wire) (pieces : List Bytes) (hcut : pieces.flatten = wire) :
    let F := feedAll (serverCall C ctx env) (srvInit ds) pieces
    evClean F.2 = true ∧
      (∃ d0 rest, evItems F.2 = ⟨.connect, d0, some ad⟩ :: rest ∧ ∀ i ∈ rest, i.kind = .data ∧ i.addr = none) ∧
      evData F.2 = payload ∧
      F.1.buf = [] ∧ F.1.ended = false ∧
      F.1.st.header = false ∧ F.1.st.pending = [] ∧ F.1.st.dec.sess = { ds with address := some ad } ∧
      serverCall C ctx env F.1.st F.1.buf = ⟨F.1.st, [], .more⟩ := by
  intro F
  obtain ⟨r1, r2, r3⟩ := hreq
  subst hcut
  obtain ⟨_, hA, hidle⟩ := server_framed_core C hC ctx env hk ds hds ad had payload pieces []
    (by simpa using r1) (by simpa using r3)
  rw [r3] at hA
  obtain ⟨hb, he, hc, hd⟩ := hA
  rw [r2] at hb
  rcases hd with ⟨hlt, _, _⟩ | ⟨_, hs, d0, rest, hi, hr, hdat⟩
  · simp only [List.length_append] at hlt; omega
  · refine ⟨hc, ⟨d0, rest, hi, hr⟩, List.append_cancel_left hdat, hb, he, ?_, ?_, ?_, ?_⟩
    · show F.1.st.header = false
      rw [hs]
    · show F.1.st.pending = []
      rw [hs]
    · show F.1.st.dec.sess = _
      rw [hs]
    · have hb' : F.1.buf = [] := hb
      have := hidle
      rw [hb] at this
      rw [hb']
      exact this

/-- what this repo's server writes (legacy cipher), at unit level: consumed entirely, no failure, the
plaintext is the concatenation of the writes.  An empty write contributes nothing (`encode_payload`
emits no chunk for an empty item; if it is the first write only the salt goes out), and with no
write at all the wire is empty. -/
theorem legacyResp_encodeAll (C : Crypto) (hC : C.Lawful) (ctx : Ctx) (hk : ctx.kind.is2022 = false)
    (ss ds : Sess) (env : DecEnv) (hm : ss.mode = .server) (hs : ss.salt.length = ctx.kind.n)
    (ws : List (Bytes × EncRand)) :
    (run (unit C ctx env) ⟨none, ds⟩ (encodeAll C ctx ss {} ws).1).failed = false ∧
      (run (unit C ctx env) ⟨none, ds⟩ (encodeAll C ctx ss {} ws).1).buf = [] ∧
      Ev.bytes (run (unit C ctx env) ⟨none, ds⟩ (encodeAll C ctx ss {} ws).1).out = (ws.map Prod.fst).flatten := by
  cases ws with
  | nil =>
    rw [show (encodeAll C ctx ss {} []).1 = [] from rfl, run_need _ _ _ (unit_init_need C ctx env hk ds)]
    exact ⟨rfl, rfl, rfl⟩
  | cons w ws =>
    obtain ⟨a', h⟩ := legacy_stream_run C hC ctx hk ss ds env hs w ws
    rw [h, hdrBytes_server ss hm]
    refine ⟨rfl, rfl, ?_⟩
    simp only [List.nil_append, Ev.bytes_map_byte]

end Octo.Ss
