import Octo.Proofs.SsUdpGen
/-!
  The CLIENT direction of the generated datagram decoder (`Octo.SsUdpGen.AEADCipherCodec.decode` with
  `context.stream_type = Mode::Client`, i.e. `decode_server_packet_aead_2022` and its nested `decrypt_message`) against the
  hand model `SsUdp.decode .. .client`, under the model instantiation `XM E` of the externals.  (`Octo/Proofs/SsUdpGen.lean`
  proves the SERVER direction; this file adds what `Octo/Proofs/SsClientGen.lean` needs to discharge its hypothesis on the
  inner decoder.)

  Part A: datagrams shorter than the fixed header, every 2022 cipher.
  Part B: the AES kinds (`2022-blake3-aes-128-gcm`, `2022-blake3-aes-256-gcm`), every datagram.
-/
set_option linter.unusedSimpArgs false
set_option linter.unusedVariables false
namespace Octo.SsUdpGen
open Octo Octo.PWGen Octo.AddrGen Octo.Addr

/-- the AES branch of `decrypt_message`: header block, session cipher, detached open, tag cut off -/
theorem inner_decrypt_message_aes (ov : Bool) (E : MEnv) (N : Usize) (kind : CipherKind) (c : Context MT) (b : List UInt8) (k : Ss.Kind)
    (hk : toKind kind = some k) (hx : SsUdp.xAlg k = none) (h22 : k.is2022 = true)
    (hb : b.length < 2 ^ 64) (hlen : 32 ≤ b.length)
    (hopen : ∀ a key n ad ct p, E.C.openB a key n ad ct = some p → ct.length = p.length + 16)
    (haes : ∀ key x, (E.C.aesDec key x).length = 16) :
    AEADCipherCodec.decode_server_packet_aead_2022.decrypt_message ov (XM E) N kind b c =
      match E.C.openB k.alg (SsUdp.aesSessionKey E.C k c.key (rdBE ((E.C.aesDec c.key (b.take 16)).take 8)))
          ((E.C.aesDec c.key (b.take 16)).drop 4) [] (b.drop 16) with
      | none => PWGen.Res.ok (E.C.aesDec c.key (b.take 16) ++ b.drop 16, RResult.err)
      | some p => PWGen.Res.ok (E.C.aesDec c.key (b.take 16) ++ (p ++ (b.drop 16).drop ((b.drop 16).length - 16)),
          RResult.ok (UInt64.ofNat (beNat ((E.C.aesDec c.key (b.take 16)).take 8)),
            UInt64.ofNat (beNat ((E.C.aesDec c.key (b.take 16)).drop 8)), p)) := by
  have he : k.supportEih = true := by cases k <;> simp_all [SsUdp.xAlg, Ss.Kind.is2022, Ss.Kind.supportEih]
  have hkk : kind = .Aead2022Blake3Aes128Gcm ∨ kind = .Aead2022Blake3Aes256Gcm := by
    cases hkd : kind <;> simp [hkd, toKind] at hk <;> subst hk <;> simp_all [SsUdp.xAlg, Ss.Kind.is2022]
  unfold AEADCipherCodec.decode_server_packet_aead_2022.decrypt_message
  simp only [tag_size_eval E _ k hk, call_ok, bind_next]
  rcases hkk with hkd | hkd
  all_goals
    simp only [hkd]
    rw [split_at_eval b 16 (by show 16 ≤ b.length; omega)]
    simp only [bind_next, ← hkd, aes_dec_eval E _ k hk he, call_ok, q_ok, IoCursor.new]
    rw [io_get_u64_eval _ 0 (by rw [haes]; decide)]
    simp only [bind_next]
    rw [io_get_u64_eval _ _ (by rw [haes]; decide)]
    simp only [bind_next]
    rw [slice_eval _ 4 16 (by decide) (by rw [haes]; decide)]
    simp only [bind_next, get_cipher_aes_eval E _ k hk h22 hx, call_ok]
    rw [dipd_eval E _ _ _ _ (by simp only [List.length_drop, UInt64.reduceToNat]; omega)]
    simp only [UInt64.reduceToNat, UInt64.reduceAdd, List.drop_zero, List.take_zero, u64_of_be8,
      List.take_of_length_le (Nat.le_of_eq (haes _ _))]
    cases ho : E.C.openB k.alg (SsUdp.aesSessionKey E.C k c.key (rdBE (List.take 8 (E.C.aesDec c.key (List.take 16 b)))))
        (List.drop 4 (E.C.aesDec c.key (List.take 16 b))) [] (List.drop 16 b) with
    | none => simp only [call_ok, bind_next, q_err, bind_ret, Flow.run]
    | some p =>
      have hp : p.length + 16 = b.length - 16 := by have := hopen _ _ _ _ _ _ ho; simp only [List.length_drop] at this; omega
      simp only [call_ok, bind_next, q_ok]
      have htag : (List.drop ((List.drop 16 b).length - 16) (List.drop 16 b)).length = 16 := by
        simp only [List.length_drop]; omega
      have hlen2 : (Cursor.len (p ++ List.drop ((List.drop 16 b).length - 16) (List.drop 16 b))).toNat = p.length + 16 := by
        simp only [Cursor.len, List.length_append, htag, UInt64.toNat_ofNat']; omega
      have hsub : (Cursor.len (p ++ List.drop ((List.drop 16 b).length - 16) (List.drop 16 b)) - 16).toNat = p.length := by
        rw [UInt64.toNat_sub_of_le _ _ (by rw [UInt64.le_iff_toNat_le, hlen2]; simp), hlen2]; simp
      have hok : U64.subOk (Cursor.len (p ++ List.drop ((List.drop 16 b).length - 16) (List.drop 16 b))) 16 = true := by
        simp only [U64.subOk, hlen2, decide_eq_true_eq]; simp
      rw [hok, arith_true, bind_next, slice_eval _ _ _ (by rw [hsub]; simp) (by rw [hsub]; simp)]
      simp only [bind_next, hsub, List.take_left', List.drop_zero, UInt64.reduceToNat, Flow.run,
        List.take_of_length_le (show (List.drop 8 (E.C.aesDec c.key (List.take 16 b))).length ≤ 8 by simp [haes])]

/-- **`decode_server_packet_aead_2022` (what the CLIENT runs on a reply), AES kinds** = the model's `decode` in client mode:
same outcome class (never a panic of its own), same payload, address, client session id, server session id, packet id -/
theorem inner_decode_server_aes_eq (ov : Bool) (E : MEnv) (N : Usize) (codec : AEADCipherCodec) (c : Context MT) (b : List UInt8) (k : Ss.Kind)
    (hk : toKind codec.kind = some k) (hx : SsUdp.xAlg k = none) (h22 : k.is2022 = true) (hm : c.stream_type = Mode.Client)
    (hb : b.length < 2 ^ 64) (hnow : E.now < 2 ^ 64)
    (hopen : ∀ a key n ad ct p, E.C.openB a key n ad ct = some p → ct.length = p.length + 16)
    (haes : ∀ key x, (E.C.aesDec key x).length = 16) :
    embed (AEADCipherCodec.decode_server_packet_aead_2022 ov (XM E) N codec c b) =
      SsUdp.decode E.C (toCtx k c) .client E.now b := by
  have hnl : SsUdp.nonceLen k = 0 := by simp [SsUdp.nonceLen, hx]
  unfold AEADCipherCodec.decode_server_packet_aead_2022 SsUdp.decode
  simp only [nonce_length_eval E _ k hk h22, tag_size_eval E _ k hk, hnl, h22, call_ok, bind_next, toCtx, hx,
    U64.addOk, UInt64.reduceAdd, UInt64.reduceOfNat, UInt64.reduceToNat, Nat.reduceAdd, Nat.reduceLT, Nat.reducePow, decide_true,
    arith_true, remaining_lt b hb, not_true_eq_false, if_false, reduceCtorEq, false_and, if_true]
  by_cases g1 : b.length < 51
  · simp only [g1, decide_true, if_true, bind_ret, Flow.run, embed]
  simp only [g1, decide_false, Bool.false_eq_true, if_false, bind_next]
  rw [inner_decrypt_message_aes ov E N codec.kind c b k hk hx h22 hb (by omega) hopen haes]
  cases ho : E.C.openB k.alg (SsUdp.aesSessionKey E.C k c.key (rdBE ((E.C.aesDec c.key (b.take 16)).take 8)))
      ((E.C.aesDec c.key (b.take 16)).drop 4) [] (b.drop 16) with
  | none => simp only [call_ok, bind_next, q_err, bind_ret, Flow.run, embed, Option.map_none]
  | some p =>
    have hp : p.length + 16 = b.length - 16 := by have := hopen _ _ _ _ _ _ ho; simp only [List.length_drop] at this; omega
    simp only [call_ok, bind_next, q_ok, Option.map_some, Cursor.extend_from_slice, List.nil_append, hm, expect_u8_eval, toMode]
    generalize E.C.aesDec c.key (List.take 16 b) ++ (p ++ List.drop ((List.drop 16 b).length - 16) (List.drop 16 b)) = src
    have hp19 : 19 ≤ p.length := by omega
    have hp2 : p.length < 2 ^ 64 := by omega
    rw [get_u8_eval p (by omega)]
    simp only [bind_next, Ss.Mode.expectU8]
    by_cases g2' : ¬ p.headD 0 = 1
    · simp only [g2', bne_iff_ne, ne_eq, not_false_eq_true, if_true, bind_ret, Flow.run, embed]
    have g2 : p.headD 0 = 1 := Classical.not_not.mp g2'
    simp only [g2, bne_self_eq_false, Bool.false_eq_true, if_false, bind_next, ne_eq, not_true_eq_false]
    rw [get_u64_eval _ (by simp only [List.length_drop]; omega)]
    simp only [bind_next, validate_timestamp_eval ov E _ hnow, call_ok, u64_of_be8]
    by_cases g3 : Consts.ssMaxTimeDiff < Ss.absDiff E.now (rdBE (List.take 8 (List.drop 1 p)))
    · simp only [gt_iff_lt, g3, if_true, q_err, bind_ret, Flow.run, embed]
    simp only [gt_iff_lt, g3, if_false, q_ok, bind_next]
    rw [get_u64_eval _ (by simp only [List.length_drop]; omega)]
    simp only [bind_next, List.drop_drop, Nat.reduceAdd]
    rw [get_u16_eval _ (by simp only [List.length_drop]; omega)]
    simp only [bind_next, List.drop_drop, Nat.reduceAdd]
    rw [remaining_lt _ (by simp only [List.length_drop]; omega), u16_len]
    by_cases g4 : (List.drop 17 p).length < 2 + rdBE (List.take 2 (List.drop 17 p))
    · have : (List.drop 19 p).length < rdBE (List.take 2 (List.drop 17 p)) := by simp only [List.length_drop] at g4 ⊢; omega
      simp only [this, g4, decide_true, if_true, bind_ret, Flow.run, embed]
    have g4' : ¬ (List.drop 19 p).length < rdBE (List.take 2 (List.drop 17 p)) := by simp only [List.length_drop] at g4 ⊢; omega
    simp only [g4, g4', decide_false, Bool.false_eq_true, if_false, bind_next]
    have hadv : (if decide (0 < UInt16.ofNat (beNat (List.take 2 (List.drop 17 p)))) = true then
          (Flow.advance (List.drop 19 p) (U16.as_usize (UInt16.ofNat (beNat (List.take 2 (List.drop 17 p)))))).bind fun packet => Flow.next packet
        else (Flow.next (List.drop 19 p) : Flow (List UInt8) (Cursor × RResult (Cursor × Address × Session)))) =
        Flow.next (List.drop (17 + (2 + rdBE (List.take 2 (List.drop 17 p)))) p) := by
      have e : List.drop (17 + (2 + rdBE (List.take 2 (List.drop 17 p)))) p =
          List.drop (rdBE (List.take 2 (List.drop 17 p))) (List.drop 19 p) := by
        rw [List.drop_drop]; congr 1; omega
      rw [e]
      split
      · rw [advance_eval _ _ (by rw [u16_len]; omega), u16_len]; rfl
      · rename_i h0
        have : rdBE (List.take 2 (List.drop 17 p)) = 0 := by
          rw [← u16_len]
          have : UInt16.ofNat (beNat (List.take 2 (List.drop 17 p))) = 0 := by
            simp only [decide_eq_true_eq] at h0
            exact UInt16.le_antisymm (UInt16.not_lt.mp h0) (by simp [UInt16.le_iff_toNat_le])
          rw [this]; rfl
        rw [this]; rfl
    rw [hadv]
    simp only [bind_next, Session.new, Flow.run, call_ok]
    have hl : (List.drop (17 + (2 + rdBE (List.take 2 (List.drop 17 p)))) p).length < 2 ^ 64 := by
      simp only [List.length_drop]; omega
    rw [← decode_eq ov _ hl]
    have e8 : List.take 8 (List.drop 8 (E.C.aesDec c.key (List.take 16 b))) = List.drop 8 (E.C.aesDec c.key (List.take 16 b)) :=
      List.take_of_length_le (by simp [haes])
    have e9 : (UInt64.ofNat (beNat (List.drop 8 (E.C.aesDec c.key (List.take 16 b))))).toNat =
        rdBE (List.drop 8 (E.C.aesDec c.key (List.take 16 b))) := by rw [← e8]; exact u64_of_be8 _
    cases hd : decode ov (List.drop (17 + (2 + rdBE (List.take 2 (List.drop 17 p)))) p) with
    | panic => simp only [call_panic, bind_panic, embed, embedDecode]
    | ok v =>
      obtain ⟨r, res⟩ := v
      cases res with
      | err => simp only [call_ok, bind_next, bind_ret, q_err, embed, embedDecode]
      | ok a => simp only [call_ok, bind_next, q_ok, embed, embedDecode, toSession, u64_of_be8, e9, Option.map_none]

theorem run_call_ret {α β : Type} (r : PWGen.Res (α × β)) :
    Flow.run ((Flow.call r).bind fun x => Flow.ret (x.1, x.2)) = r := by
  cases r with
  | panic => rfl
  | ok v => rfl

/-- **`AEADCipherCodec::decode` as the client runs it** (`stream_type = Mode::Client`: the dispatch takes
`decode_server_packet_aead_2022`), AES kinds = the model's `decode` in client mode -/
theorem decode_client_dir_aes_eq (ov : Bool) (E : MEnv) (N : Usize) (codec : AEADCipherCodec) (c : Context MT) (b : List UInt8) (k : Ss.Kind)
    (hk : toKind codec.kind = some k) (hx : SsUdp.xAlg k = none) (h22 : k.is2022 = true) (hm : c.stream_type = Mode.Client)
    (hb : b.length < 2 ^ 64) (hnow : E.now < 2 ^ 64)
    (hopen : ∀ a key n ad ct p, E.C.openB a key n ad ct = some p → ct.length = p.length + 16)
    (haes : ∀ key x, (E.C.aesDec key x).length = 16) :
    embed (AEADCipherCodec.decode ov (XM E) N codec c b) = SsUdp.decode E.C (toCtx k c) .client E.now b := by
  rw [← inner_decode_server_aes_eq ov E N codec c b k hk hx h22 hm hb hnow hopen haes]
  unfold AEADCipherCodec.decode
  simp only [is_aead_2022_eval ov _ k hk, h22, call_ok, bind_next, hm]
  rw [run_call_ret]

end Octo.SsUdpGen
