import Octo.Gen.TrojanGen
import Octo.Proofs.AddrGen
import Octo.Proofs.TrojanStream
import Octo.Props.C07
/-!
  The generated code (`Octo.TrojanGen`, written by `translate_trojan.py` from `octo-squirrel-server/src/server/trojan.rs`
  and the files it names) equals the hand-written model `Octo.Trojan` (`Octo/Model/Trojan.lean`).

  Part 0: `hex::encode` (table read from util.rs) = the model's `hexBytes`; `Socks5CommandType::new`.
  Part 1: model-level facts (`tryDecodeAt` announces exactly what `decode` consumes) and the transfer of the equivalences of
          `Octo/Proofs/AddrGen.lean` to the call sites.
  Part 2: `decode_packet`, case by case, then `decode_packet_spec`.
  Part 3: `decode`, state by state and - in state `Header` - guard by guard, then `decode_spec` / `decode_eq`.
  Part 4: `encode`.
  Part 5: the generated decoder under the `FramedRead` loop model (`frLoop` / `frFeed` / `feedAll`) runs in lock step
          with the model (`feedAll_sim`).
  The one hypothesis about buffers, `b.length < 2 ^ 64`, is what a Lean list does not carry and a `BytesMut` does
  (`remaining()` is a `usize`); without it the statements are false for the generated code (`remaining()` wraps).
-/
set_option linter.unusedSimpArgs false
namespace Octo.TrojanGen
open Octo Octo.PWGen Octo.AddrGen

theorem hex_pair (n : Nat) (h : n < 256) :
    (HEX_BYTES.drop (2 * n)).take 2 = [hexDigitByte (n / 16), hexDigitByte (n % 16)] := by
  revert n
  decide +kernel

theorem hexLower_eq_hexBytes (k : List UInt8) : hexLower k = hexBytes k := by
  induction k with
  | nil => rfl
  | cons x r ih =>
    simp only [hexLower, hexBytes, List.flatMap_cons] at ih ⊢
    rw [ih, hex_pair x.toNat x.toNat_lt]

theorem cmd_new_eval (ov : Bool) (x : UInt8) : Socks5CommandType.new ov x =
    PWGen.Res.ok (if x = 1 then RResult.ok .Connect else if x = 2 then RResult.ok .Bind
      else if x = 3 then RResult.ok .UdpAssociate else RResult.err) := by
  simp only [Socks5CommandType.new, Socks5CommandType.as_u8]
  by_cases h1 : x = 1
  · subst h1; rfl
  by_cases h2 : x = 2
  · subst h2; rfl
  by_cases h3 : x = 3
  · subst h3; rfl
  simp [h1, h2, h3, Ne.symm h1, Ne.symm h2, Ne.symm h3, run_ret, run_ite]

/-! ## model-level facts about the address at an offset -/

theorem tryDecodeAt_bounds (b : Bytes) (k al : Nat) (h : Socks5Addr.tryDecodeAt b k = .ok al) : 4 ≤ al ∧ al ≤ 259 := by
  unfold Socks5Addr.tryDecodeAt at h
  split at h
  · cases h
  · split at h
    · cases h; omega
    · split at h
      · split at h
        · cases h
        · rename_i l _
          have := l.toNat_lt
          cases h; omega
      · split at h
        · cases h; omega
        · cases h

theorem drop_eq_cons (b : Bytes) (k : Nat) (t : UInt8) (h : b[k]? = some t) : b.drop k = t :: b.drop (k + 1) := by
  rcases List.getElem?_eq_some_iff.mp h with ⟨hlt, he⟩
  rw [List.drop_eq_getElem_cons hlt, he]

/-- an address announced by `tryDecodeAt` and wholly buffered is decoded, and `decode` consumes exactly the announced length -/
theorem tryDecodeAt_decode (b : Bytes) (k al : Nat) (h : Socks5Addr.tryDecodeAt b k = .ok al) (hl : k + al ≤ b.length) :
    ∃ a, Socks5Addr.decode (b.drop k) = .ok (a, b.drop (k + al)) := by
  unfold Socks5Addr.tryDecodeAt at h
  split at h
  · cases h
  · rename_i t ht
    have hd := drop_eq_cons b k t ht
    have hlen : (b.drop (k + 1)).length = b.length - (k + 1) := List.length_drop
    split at h
    · rename_i h1; subst h1; cases h
      have hn : ¬ (b.drop (k + 1)).length < 6 := by omega
      rw [hd, model_decode_v4, if_neg hn]
      apply Exists.intro
      rw [Octo.Res.ok.injEq, Prod.mk.injEq]
      refine ⟨rfl, ?_⟩
      simp only [List.drop_drop] <;> (congr 1; omega)
    · split at h
      · rename_i h3; subst h3
        split at h
        · cases h
        · rename_i l hl2
          cases h
          have hd2 := drop_eq_cons b (k + 1) l hl2
          have hlen2 : (b.drop (k + 1 + 1)).length = b.length - (k + 1 + 1) := List.length_drop
          have hn : ¬ (b.drop (k + 1 + 1)).length < l.toNat + 2 := by omega
          rw [hd, hd2, model_decode_domain, if_neg hn]
          apply Exists.intro
          rw [Octo.Res.ok.injEq, Prod.mk.injEq]
          refine ⟨rfl, ?_⟩
          simp only [List.drop_drop] <;> (congr 1; omega)
      · split at h
        · rename_i h4; subst h4; cases h
          have hn : ¬ (b.drop (k + 1)).length < 18 := by omega
          rw [hd, model_decode_v6, if_neg hn]
          apply Exists.intro
          rw [Octo.Res.ok.injEq, Prod.mk.injEq]
          refine ⟨rfl, ?_⟩
          simp only [List.drop_drop] <;> (congr 1; omega)
        · cases h

/-! ## from the equivalences of `Octo/Proofs/AddrGen.lean`: the generated callee's value from the model's -/

theorem try_of_model_ok (ov : Bool) (b : Bytes) (i : Usize) (al : Nat) (h : b.length < 2 ^ 64)
    (hm : Socks5Addr.tryDecodeAt b i.toNat = .ok al) :
    ∃ n : Usize, Octo.AddrGen.try_decode_at ov b i = PWGen.Res.ok (RResult.ok n) ∧ n.toNat = al := by
  have he := try_decode_at_eq ov b i h
  rw [hm] at he
  cases hr : Octo.AddrGen.try_decode_at ov b i with
  | panic => rw [hr] at he; simp [embedTry] at he
  | ok r =>
    cases r with
    | err => rw [hr] at he; simp [embedTry] at he
    | ok n => rw [hr] at he; simp only [embedTry, Octo.Res.ok.injEq] at he; exact ⟨n, rfl, he⟩

theorem try_of_model_err (ov : Bool) (b : Bytes) (i : Usize) (h : b.length < 2 ^ 64)
    (hm : Socks5Addr.tryDecodeAt b i.toNat = .err) :
    Octo.AddrGen.try_decode_at ov b i = PWGen.Res.ok RResult.err := by
  have he := try_decode_at_eq ov b i h
  rw [hm] at he
  cases hr : Octo.AddrGen.try_decode_at ov b i with
  | panic => rw [hr] at he; simp [embedTry] at he
  | ok r =>
    cases r with
    | err => rfl
    | ok n => rw [hr] at he; simp [embedTry] at he

theorem decode_of_model_ok (ov : Bool) (b rest : Bytes) (a : Addr) (h : b.length < 2 ^ 64)
    (hm : Socks5Addr.decode b = .ok (a, rest)) :
    ∃ x : Address, Octo.AddrGen.decode ov b = PWGen.Res.ok (rest, RResult.ok x) ∧ toAddr x = a := by
  have he := decode_eq ov b h
  rw [hm] at he
  cases hr : Octo.AddrGen.decode ov b with
  | panic => rw [hr] at he; simp [embedDecode] at he
  | ok r =>
    obtain ⟨rest', res⟩ := r
    cases res with
    | err => rw [hr] at he; simp [embedDecode] at he
    | ok x =>
      rw [hr] at he
      simp only [embedDecode, Octo.Res.ok.injEq, Prod.mk.injEq] at he
      exact ⟨x, by rw [he.2], he.1⟩

/-! ## evaluation rules -/
section flow
variable {α ρ : Type}
theorem call_ok (a : α) : (Flow.call (PWGen.Res.ok a) : Flow α ρ) = Flow.next a := rfl
theorem call_panic : (Flow.call (PWGen.Res.panic : PWGen.Res α) : Flow α ρ) = Flow.panic := rfl
end flow

theorem len_crlf : Cursor.len CR_LF = 2 := rfl

theorem usize_lit_toNat (k : Nat) (h : k < 2 ^ 64) : (OfNat.ofNat k : Usize).toNat = k := by
  show (UInt64.ofNat k).toNat = k
  exact UInt64.toNat_ofNat_of_lt' (by simpa using h)

theorem remaining_toNat (b : List UInt8) (h : b.length < 2 ^ 64) : (Cursor.remaining b).toNat = b.length := by
  rw [Cursor.remaining, UInt64.toNat_ofNat_of_lt' (show _ < 18446744073709551616 by omega)]

theorem len_toNat (b : List UInt8) (h : b.length < 2 ^ 64) : (Cursor.len b).toNat = b.length := by
  rw [Cursor.len, UInt64.toNat_ofNat_of_lt' (show _ < 18446744073709551616 by omega)]

/-- the guard `src.remaining() < k` as a decision on the length -/
theorem remaining_lt_dec (b : List UInt8) (h : b.length < 2 ^ 64) (k : Usize) :
    decide (Cursor.remaining b < k) = decide (b.length < k.toNat) := by
  rw [decide_eq_decide]; exact remaining_lt b h k

theorem rem_lt_true (b : List UInt8) (hl : b.length < 2 ^ 64) (k : Usize) (h : b.length < k.toNat) :
    decide (Cursor.remaining b < k) = true := decide_eq_true ((remaining_lt b hl k).mpr h)
theorem rem_lt_false (b : List UInt8) (hl : b.length < 2 ^ 64) (k : Usize) (h : ¬ b.length < k.toNat) :
    decide (Cursor.remaining b < k) = false := decide_eq_false (fun hh => h ((remaining_lt b hl k).mp hh))

theorem add_toNat (a c : Usize) (h : a.toNat + c.toNat < 2 ^ 64) : (a + c).toNat = a.toNat + c.toNat := by
  rw [UInt64.toNat_add]; exact Nat.mod_eq_of_lt h

theorem addOk_of (a c : Usize) (h : a.toNat + c.toNat < 2 ^ 64) : U64.addOk a c = true := by
  simp [U64.addOk]; omega

theorem sub_toNat (a c : Usize) (h : c.toNat ≤ a.toNat) : (a - c).toNat = a.toNat - c.toNat :=
  UInt64.toNat_sub_of_le _ _ (UInt64.le_iff_toNat_le.mpr h)

theorem subOk_of (a c : Usize) (h : c.toNat ≤ a.toNat) : U64.subOk a c = true := by
  simp [U64.subOk]; omega

theorem u16_as_usize_toNat (v : UInt16) : (U16.as_usize v).toNat = v.toNat := by
  have := v.toNat_lt
  rw [U16.as_usize, UInt64.toNat_ofNat_of_lt' (Nat.lt_trans this (by decide))]

theorem from_be_bytes_toNat (x y : UInt8) : (U16.from_be_bytes [x, y]).toNat = rdBE [x, y] := by
  rw [U16.from_be_bytes]; exact port_toNat [x, y] rfl

theorem take2_of_get (b : Bytes) (k : Nat) (x y : UInt8) (hx : b[k]? = some x) (hy : b[k + 1]? = some y) :
    (b.drop k).take 2 = [x, y] := by
  rw [drop_eq_cons b k x hx, drop_eq_cons b (k + 1) y hy]; rfl

/-! ## `decode_packet` -/

/-- the model's view of what a generated decoder returned -/
def embedRes : RResult (Option InboundIn) → Octo.Res Item
  | .ok none => .more
  | .ok (some (.ConnectTcp d a)) => .ok ⟨.connect, d, some (toAddr a)⟩
  | .ok (some (.RelayTcp d)) => .ok ⟨.data, d, none⟩
  | .ok (some (.RelayUdp d a)) => .ok ⟨.udp, d, some (toAddr a)⟩
  | .err => .err

theorem decode_packet_short (ov : Bool) (s : ServerCodec) (b : Bytes) (hlen : b.length < 2 ^ 64) (h : b.length < 2) :
    ServerCodec.decode_packet ov s b = PWGen.Res.ok (s, b, RResult.ok none) := by
  have g0 := rem_lt_true b hlen 2 h
  simp only [ServerCodec.decode_packet, g0, bind_ret, run_ret, ↓reduceIte]

theorem decode_packet_err (ov : Bool) (s : ServerCodec) (b : Bytes) (hlen : b.length < 2 ^ 64) (h : ¬ b.length < 2)
    (ht : Octo.AddrGen.try_decode_at ov b 0 = PWGen.Res.ok RResult.err) :
    ServerCodec.decode_packet ov s b = PWGen.Res.ok (s, b, RResult.err) := by
  have g0 := rem_lt_false b hlen 2 h
  simp only [ServerCodec.decode_packet, g0, ht, call_ok, question_err, bind_next, bind_ret, run_ret, Bool.false_eq_true, ↓reduceIte]

/-- facts about the header length `n + 2 + 2` of a datagram frame whose address has `n` bytes -/
theorem hl_facts (n : Usize) (hn : n.toNat ≤ 259) :
    U64.addOk n 2 = true ∧ U64.addOk (n + 2) (Cursor.len CR_LF) = true ∧ (n + 2 + Cursor.len CR_LF).toNat = n.toNat + 4 := by
  rw [len_crlf]
  have e2 : (2 : Usize).toNat = 2 := rfl
  have a1 : (n + 2).toNat = n.toNat + 2 := by rw [add_toNat _ _ (by rw [e2]; omega), e2]
  refine ⟨addOk_of _ _ (by rw [e2]; omega), addOk_of _ _ (by rw [a1, e2]; omega), ?_⟩
  rw [add_toNat _ _ (by rw [a1, e2]; omega), a1, e2]

/-- the frame header is not yet complete: wait -/
theorem decode_packet_wait1 (ov : Bool) (s : ServerCodec) (b : Bytes) (n : Usize) (hlen : b.length < 2 ^ 64)
    (h2 : ¬ b.length < 2) (ht : Octo.AddrGen.try_decode_at ov b 0 = PWGen.Res.ok (RResult.ok n)) (hn : n.toNat ≤ 259)
    (h : b.length < n.toNat + 4) :
    ServerCodec.decode_packet ov s b = PWGen.Res.ok (s, b, RResult.ok none) := by
  have e2 : (2 : Usize).toNat = 2 := rfl
  have eC : (Cursor.len CR_LF).toNat = 2 := rfl
  obtain ⟨c1, c2, eH⟩ := hl_facts n hn
  have g0 := rem_lt_false b hlen 2 h2
  have g1 := rem_lt_true b hlen (n + 2 + Cursor.len CR_LF) (by rw [eH]; exact h)
  simp only [ServerCodec.decode_packet, g0, g1, ht, call_ok, question_ok, bind_next, bind_ret, run_ret, c1, c2, arith_true,
    Bool.false_eq_true, ↓reduceIte]

/-- the header is complete, the payload it announces is not: wait -/
theorem decode_packet_wait2 (ov : Bool) (s : ServerCodec) (b : Bytes) (n : Usize) (x y : UInt8) (hlen : b.length < 2 ^ 64)
    (h2 : ¬ b.length < 2) (ht : Octo.AddrGen.try_decode_at ov b 0 = PWGen.Res.ok (RResult.ok n)) (hn : n.toNat ≤ 259)
    (h : ¬ b.length < n.toNat + 4) (hx : b[n.toNat]? = some x) (hy : b[n.toNat + 1]? = some y)
    (hp : b.length < n.toNat + 4 + rdBE [x, y]) :
    ServerCodec.decode_packet ov s b = PWGen.Res.ok (s, b, RResult.ok none) := by
  have e2 : (2 : Usize).toNat = 2 := rfl
  have eC : (Cursor.len CR_LF).toNat = 2 := rfl
  have e3 : (3 : Usize).toNat = 3 := rfl
  have e4 : (4 : Usize).toNat = 4 := rfl
  obtain ⟨c1, c2, eH⟩ := hl_facts n hn
  have s4 := subOk_of (n + 2 + Cursor.len CR_LF) 4 (by rw [eH, e4]; omega)
  have s3 := subOk_of (n + 2 + Cursor.len CR_LF) 3 (by rw [eH, e3]; omega)
  have i4 : (n + 2 + Cursor.len CR_LF - 4).toNat = n.toNat := by rw [sub_toNat _ _ (by rw [eH, e4]; omega), eH, e4]; omega
  have i3 : (n + 2 + Cursor.len CR_LF - 3).toNat = n.toNat + 1 := by rw [sub_toNat _ _ (by rw [eH, e3]; omega), eH, e3]; omega
  have bx := byteAt_some (ρ := ServerCodec × Cursor × RResult (Option InboundIn)) b (n + 2 + Cursor.len CR_LF - 4) x (by rw [i4]; exact hx)
  have by_ := byteAt_some (ρ := ServerCodec × Cursor × RResult (Option InboundIn)) b (n + 2 + Cursor.len CR_LF - 3) y (by rw [i3]; exact hy)
  have eW : (U16.as_usize (U16.from_be_bytes [x, y])).toNat = rdBE [x, y] := by rw [u16_as_usize_toNat, from_be_bytes_toNat]
  have hW : rdBE [x, y] < 65536 := by rw [← from_be_bytes_toNat]; exact (U16.from_be_bytes [x, y]).toNat_lt
  have c3 := addOk_of (n + 2 + Cursor.len CR_LF) (U16.as_usize (U16.from_be_bytes [x, y])) (by rw [eH, eW]; omega)
  have eHW : (n + 2 + Cursor.len CR_LF + U16.as_usize (U16.from_be_bytes [x, y])).toNat = n.toNat + 4 + rdBE [x, y] := by
    rw [add_toNat _ _ (by rw [eH, eW]; omega), eH, eW]
  have g0 := rem_lt_false b hlen 2 h2
  have g1 := rem_lt_false b hlen (n + 2 + Cursor.len CR_LF) (by rw [eH]; exact h)
  have g2 := rem_lt_true b hlen (n + 2 + Cursor.len CR_LF + U16.as_usize (U16.from_be_bytes [x, y])) (by rw [eHW]; exact hp)
  simp only [ServerCodec.decode_packet, g0, g1, g2, ht, call_ok, question_ok, bind_next, bind_ret, run_ret, c1, c2, arith_true,
    s4, s3, bx, by_, c3, Bool.false_eq_true, ↓reduceIte]

/-- the whole frame is buffered: one `RelayUdp` with exactly the announced payload, the frame consumed -/
theorem decode_packet_frame (ov : Bool) (s : ServerCodec) (b : Bytes) (n : Usize) (x y : UInt8) (a : Address)
    (hlen : b.length < 2 ^ 64)
    (h2 : ¬ b.length < 2) (ht : Octo.AddrGen.try_decode_at ov b 0 = PWGen.Res.ok (RResult.ok n)) (hn : n.toNat ≤ 259)
    (h : ¬ b.length < n.toNat + 4) (hx : b[n.toNat]? = some x) (hy : b[n.toNat + 1]? = some y)
    (hp : ¬ b.length < n.toNat + 4 + rdBE [x, y])
    (hd : Octo.AddrGen.decode ov b = PWGen.Res.ok (b.drop n.toNat, RResult.ok a)) :
    ServerCodec.decode_packet ov s b = PWGen.Res.ok (s, b.drop (n.toNat + 4 + rdBE [x, y]),
      RResult.ok (some (InboundIn.RelayUdp ((b.drop (n.toNat + 4)).take (rdBE [x, y])) a))) := by
  have e2 : (2 : Usize).toNat = 2 := rfl
  have eC : (Cursor.len CR_LF).toNat = 2 := rfl
  have e3 : (3 : Usize).toNat = 3 := rfl
  have e4 : (4 : Usize).toNat = 4 := rfl
  obtain ⟨c1, c2, eH⟩ := hl_facts n hn
  have s4 := subOk_of (n + 2 + Cursor.len CR_LF) 4 (by rw [eH, e4]; omega)
  have s3 := subOk_of (n + 2 + Cursor.len CR_LF) 3 (by rw [eH, e3]; omega)
  have i4 : (n + 2 + Cursor.len CR_LF - 4).toNat = n.toNat := by rw [sub_toNat _ _ (by rw [eH, e4]; omega), eH, e4]; omega
  have i3 : (n + 2 + Cursor.len CR_LF - 3).toNat = n.toNat + 1 := by rw [sub_toNat _ _ (by rw [eH, e3]; omega), eH, e3]; omega
  have bx := byteAt_some (ρ := ServerCodec × Cursor × RResult (Option InboundIn)) b (n + 2 + Cursor.len CR_LF - 4) x (by rw [i4]; exact hx)
  have by_ := byteAt_some (ρ := ServerCodec × Cursor × RResult (Option InboundIn)) b (n + 2 + Cursor.len CR_LF - 3) y (by rw [i3]; exact hy)
  have eW : (U16.as_usize (U16.from_be_bytes [x, y])).toNat = rdBE [x, y] := by rw [u16_as_usize_toNat, from_be_bytes_toNat]
  have hW : rdBE [x, y] < 65536 := by rw [← from_be_bytes_toNat]; exact (U16.from_be_bytes [x, y]).toNat_lt
  have c3 := addOk_of (n + 2 + Cursor.len CR_LF) (U16.as_usize (U16.from_be_bytes [x, y])) (by rw [eH, eW]; omega)
  have eHW : (n + 2 + Cursor.len CR_LF + U16.as_usize (U16.from_be_bytes [x, y])).toNat = n.toNat + 4 + rdBE [x, y] := by
    rw [add_toNat _ _ (by rw [eH, eW]; omega), eH, eW]
  have ht2 : (b.drop n.toNat).take 2 = [x, y] := take2_of_get b n.toNat x y hx hy
  have hl1 : (b.drop n.toNat).length = b.length - n.toNat := List.length_drop
  have g16 := get_u16_ok (ρ := ServerCodec × Cursor × RResult (Option InboundIn)) (b.drop n.toNat) (by omega)
  rw [ht2] at g16
  have eL : (U16.as_usize (UInt16.ofNat (beNat [x, y]))).toNat = rdBE [x, y] := by
    rw [u16_as_usize_toNat]; exact port_toNat [x, y] rfl
  have hl2 : ((b.drop n.toNat).drop 2).length = b.length - n.toNat - 2 := by rw [List.length_drop, hl1]
  have adv : (Flow.advance ((b.drop n.toNat).drop 2) (Cursor.len CR_LF) : Flow Cursor (ServerCodec × Cursor × RResult (Option InboundIn)))
      = Flow.next (((b.drop n.toNat).drop 2).drop 2) := by
    simp [Flow.advance, eC, hl2]; omega
  have hl3 : (((b.drop n.toNat).drop 2).drop 2).length = b.length - n.toNat - 4 := by rw [List.length_drop, hl2]; omega
  have spl := split_to_ok (ρ := ServerCodec × Cursor × RResult (Option InboundIn)) (((b.drop n.toNat).drop 2).drop 2)
    (U16.as_usize (UInt16.ofNat (beNat [x, y]))) (by rw [eL, hl3]; omega)
  rw [eL] at spl
  have g0 := rem_lt_false b hlen 2 h2
  have g1 := rem_lt_false b hlen (n + 2 + Cursor.len CR_LF) (by rw [eH]; exact h)
  have g2 := rem_lt_false b hlen (n + 2 + Cursor.len CR_LF + U16.as_usize (U16.from_be_bytes [x, y])) (by rw [eHW]; exact hp)
  simp only [ServerCodec.decode_packet, g0, g1, g2, ht, call_ok, question_ok, bind_next, bind_ret, run_ret, c1, c2, arith_true,
    s4, s3, bx, by_, c3, hd, g16, adv, spl, Bool.false_eq_true, ↓reduceIte]
  simp only [List.drop_drop]

theorem tryDecodeAt_ne_more (b : Bytes) (k : Nat) : Socks5Addr.tryDecodeAt b k ≠ .more := by
  unfold Socks5Addr.tryDecodeAt
  repeat' split
  all_goals simp

theorem isEmpty_false_of_len {b : Bytes} (h : ¬ b.length < 2) : b.isEmpty = false := by
  cases b with
  | nil => simp at h
  | cons x r => rfl

/-- **`decode_packet`** (both profiles, every codec value, every buffer a `BytesMut` can hold): never panics, leaves the codec
untouched, and buffer and outcome are those of the model's `decodePacket` (as packaged by `pktCall`) -/
theorem decode_packet_spec (ov : Bool) (s : ServerCodec) (b : Bytes) (hlen : b.length < 2 ^ 64) :
    ∃ buf r, ServerCodec.decode_packet ov s b = PWGen.Res.ok (s, buf, r) ∧ buf.length ≤ b.length ∧
      ∀ {σ : Type} (st : σ), Trojan.pktCall st b = ⟨st, buf, embedRes r⟩ := by
  by_cases h2 : b.length < 2
  · refine ⟨b, RResult.ok none, decode_packet_short ov s b hlen h2, Nat.le_refl _, ?_⟩
    intro σ st
    simp [Trojan.pktCall, Trojan.decodePacket, h2, embedRes]
  have hne := isEmpty_false_of_len h2
  have e0 : (0 : Usize).toNat = 0 := rfl
  cases hm : Socks5Addr.tryDecodeAt b 0 with
  | panic => exact absurd hm (c07_tryDecodeAt_total b 0 (by omega))
  | more => exact absurd hm (tryDecodeAt_ne_more b 0)
  | err =>
    refine ⟨b, RResult.err, decode_packet_err ov s b hlen h2 (try_of_model_err ov b 0 hlen (by rw [e0]; exact hm)), Nat.le_refl _, ?_⟩
    intro σ st
    simp [Trojan.pktCall, Trojan.decodePacket, h2, hm, hne, embedRes]
  | ok al =>
    obtain ⟨n, ht, hn⟩ := try_of_model_ok ov b 0 al hlen (by rw [e0]; exact hm)
    obtain ⟨hal4, hal⟩ := tryDecodeAt_bounds b 0 al hm
    by_cases h : b.length < al + 4
    · refine ⟨b, RResult.ok none, decode_packet_wait1 ov s b n hlen h2 ht (by omega) (by rw [hn]; exact h), Nat.le_refl _, ?_⟩
      intro σ st
      have h3 : b.length < al + 2 + 2 := by omega
      simp [Trojan.pktCall, Trojan.decodePacket, h2, hm, hne, h3, embedRes]
    have hx : b[al]? = some b[al] := List.getElem?_eq_getElem (by omega)
    have hy : b[al + 1]? = some b[al + 1] := List.getElem?_eq_getElem (by omega)
    have ht2 := take2_of_get b al _ _ hx hy
    by_cases hp : b.length < al + 4 + rdBE [b[al], b[al + 1]]
    · refine ⟨b, RResult.ok none, decode_packet_wait2 ov s b n _ _ hlen h2 ht (by omega) (by rw [hn]; exact h)
        (by rw [hn]; exact hx) (by rw [hn]; exact hy) (by rw [hn]; exact hp), Nat.le_refl _, ?_⟩
      intro σ st
      have h3 : ¬ b.length < al + 2 + 2 := by omega
      have hp3 : b.length < al + 2 + 2 + rdBE [b[al], b[al + 1]] := by omega
      simp [Trojan.pktCall, Trojan.decodePacket, h2, hm, hne, h3, ht2, hp3, embedRes]
    · obtain ⟨a, hdm⟩ := tryDecodeAt_decode b 0 al hm (by omega)
      simp only [List.drop_zero, Nat.zero_add] at hdm
      obtain ⟨xa, hdg, hxa⟩ := decode_of_model_ok ov b _ a hlen hdm
      refine ⟨_, _, decode_packet_frame ov s b n _ _ xa hlen h2 ht (by omega) (by rw [hn]; exact h)
        (by rw [hn]; exact hx) (by rw [hn]; exact hy) (by rw [hn]; exact hp) (by rw [hn]; exact hdg),
        by rw [List.length_drop]; omega, ?_⟩
      intro σ st
      have h3 : ¬ b.length < al + 2 + 2 := by omega
      have hp3 : ¬ b.length < al + 2 + 2 + rdBE [b[al], b[al + 1]] := by omega
      have e1 : al + (4 + rdBE [b[al], b[al + 1]]) = al + 4 + rdBE [b[al], b[al + 1]] := by omega
      simp [Trojan.pktCall, Trojan.decodePacket, h2, hm, hne, h3, ht2, hp3, hdm, embedRes, hxa, hn, List.drop_drop, e1]

/-- `decode_packet` never panics -/
theorem decode_packet_no_panic (ov : Bool) (s : ServerCodec) (b : Bytes) (hlen : b.length < 2 ^ 64) :
    ServerCodec.decode_packet ov s b ≠ PWGen.Res.panic := by
  obtain ⟨buf, r, h, -, -⟩ := decode_packet_spec ov s b hlen
  rw [h]; simp

/-! ## `decode` -/

theorem advance_ok {ρ : Type} (r : List UInt8) (k : Usize) (h : k.toNat ≤ r.length) :
    (Flow.advance r k : Flow Cursor ρ) = Flow.next (r.drop k.toNat) := by simp [Flow.advance, h]

theorem has_remaining_cons (x : UInt8) (r : List UInt8) : (!(Cursor.has_remaining (x :: r))) = false := rfl

theorem decode_nil (ov : Bool) (s : ServerCodec) : ServerCodec.decode ov s [] = PWGen.Res.ok (s, [], RResult.ok none) := by
  have h : (!(Cursor.has_remaining ([] : List UInt8))) = true := rfl
  simp only [ServerCodec.decode, h, bind_ret, run_ret, ↓reduceIte]

theorem not_has_remaining {b : Bytes} (h : b ≠ []) : (!(Cursor.has_remaining b)) = false := by
  cases b with
  | nil => exact absurd rfl h
  | cons x r => rfl

/-- state `Tcp`: everything buffered is one `RelayTcp` -/
theorem decode_tcp (ov : Bool) (k : List UInt8) (b : Bytes) (hlen : b.length < 2 ^ 64) (hne : b ≠ []) :
    ServerCodec.decode ov ⟨k, .Tcp⟩ b = PWGen.Res.ok (⟨k, .Tcp⟩, [], RResult.ok (some (InboundIn.RelayTcp b))) := by
  have hr := not_has_remaining hne
  have he : Cursor.is_empty b = false := by
    cases b with
    | nil => exact absurd rfl hne
    | cons x r => rfl
  have spl := split_to_ok (ρ := ServerCodec × Cursor × RResult (Option InboundIn)) b (Cursor.len b) (by rw [len_toNat b hlen]; omega)
  rw [len_toNat b hlen, List.drop_length, List.take_length] at spl
  simp only [ServerCodec.decode, hr, he, spl, bind_next, run_ret, Bool.false_eq_true, Bool.not_false, Bool.not_true, ↓reduceIte]

/-- state `Udp`: `decode_packet` -/
theorem decode_udp (ov : Bool) (k : List UInt8) (b : Bytes) (hne : b ≠ []) :
    ServerCodec.decode ov ⟨k, .Udp⟩ b = ServerCodec.decode_packet ov ⟨k, .Udp⟩ b := by
  have hr := not_has_remaining hne
  cases hX : ServerCodec.decode_packet ov ⟨k, .Udp⟩ b with
  | panic => simp only [ServerCodec.decode, hr, hX, call_panic, bind_next, bind_panic, run_panic', Bool.false_eq_true, ↓reduceIte]
  | ok v =>
    obtain ⟨s', buf, r⟩ := v
    simp only [ServerCodec.decode, hr, hX, call_ok, bind_next, run_ret, Bool.false_eq_true, ↓reduceIte]

/-! ### state `Header` -/

/-- fewer than 61 bytes: wait -/
theorem decode_header_short (ov : Bool) (k : List UInt8) (b : Bytes) (hlen : b.length < 2 ^ 64) (hne : b ≠ [])
    (h : b.length < 61) :
    ServerCodec.decode ov ⟨k, .Header⟩ b = PWGen.Res.ok (⟨k, .Header⟩, b, RResult.ok none) := by
  have hr := not_has_remaining hne
  have g := rem_lt_true b hlen 61 h
  simp only [ServerCodec.decode, hr, g, bind_next, bind_ret, run_ret, Bool.false_eq_true, ↓reduceIte]

/-- the byte at 59 is no address type: error, nothing consumed -/
theorem decode_header_badtype (ov : Bool) (k : List UInt8) (b : Bytes) (hlen : b.length < 2 ^ 64) (hne : b ≠ [])
    (h : ¬ b.length < 61) (ht : Octo.AddrGen.try_decode_at ov b 59 = PWGen.Res.ok RResult.err) :
    ServerCodec.decode ov ⟨k, .Header⟩ b = PWGen.Res.ok (⟨k, .Header⟩, b, RResult.err) := by
  have hr := not_has_remaining hne
  have g := rem_lt_false b hlen 61 h
  simp only [ServerCodec.decode, hr, g, ht, call_ok, question_err, bind_next, bind_ret, run_ret, Bool.false_eq_true, ↓reduceIte]

/-- facts about the request length `59 + n + 2` when the address has `n` bytes -/
theorem hdr_facts (n : Usize) (hn : n.toNat ≤ 259) :
    U64.addOk 59 n = true ∧ U64.addOk (59 + n) (Cursor.len CR_LF) = true ∧ (59 + n + Cursor.len CR_LF).toNat = 61 + n.toNat := by
  rw [len_crlf]
  have e2 : (2 : Usize).toNat = 2 := rfl
  have e59 : (59 : Usize).toNat = 59 := rfl
  have a1 : (59 + n).toNat = 59 + n.toNat := by rw [add_toNat _ _ (by rw [e59]; omega), e59]
  refine ⟨addOk_of _ _ (by rw [e59]; omega), addOk_of _ _ (by rw [a1, e2]; omega), ?_⟩
  rw [add_toNat _ _ (by rw [a1, e2]; omega), a1, e2]; omega

/-- the request is not complete yet: wait -/
theorem decode_header_wait (ov : Bool) (k : List UInt8) (b : Bytes) (n : Usize) (hlen : b.length < 2 ^ 64) (hne : b ≠ [])
    (h : ¬ b.length < 61) (ht : Octo.AddrGen.try_decode_at ov b 59 = PWGen.Res.ok (RResult.ok n)) (hn : n.toNat ≤ 259)
    (hw : b.length < 61 + n.toNat) :
    ServerCodec.decode ov ⟨k, .Header⟩ b = PWGen.Res.ok (⟨k, .Header⟩, b, RResult.ok none) := by
  have hr := not_has_remaining hne
  have g := rem_lt_false b hlen 61 h
  obtain ⟨c1, c2, eH⟩ := hdr_facts n hn
  have g1 := rem_lt_true b hlen (59 + n + Cursor.len CR_LF) (by rw [eH]; exact hw)
  simp only [ServerCodec.decode, hr, g, g1, ht, call_ok, question_ok, bind_next, bind_ret, run_ret, c1, c2, arith_true,
    Bool.false_eq_true, ↓reduceIte]

/-- byte 56 is not CR: error, nothing consumed -/
theorem decode_header_nocr (ov : Bool) (k : List UInt8) (b : Bytes) (n : Usize) (c : UInt8) (hlen : b.length < 2 ^ 64) (hne : b ≠ [])
    (h : ¬ b.length < 61) (ht : Octo.AddrGen.try_decode_at ov b 59 = PWGen.Res.ok (RResult.ok n)) (hn : n.toNat ≤ 259)
    (hw : ¬ b.length < 61 + n.toNat) (hc : b[56]? = some c) (hcr : c ≠ 13) :
    ServerCodec.decode ov ⟨k, .Header⟩ b = PWGen.Res.ok (⟨k, .Header⟩, b, RResult.err) := by
  have hr := not_has_remaining hne
  have g := rem_lt_false b hlen 61 h
  obtain ⟨c1, c2, eH⟩ := hdr_facts n hn
  have g1 := rem_lt_false b hlen (59 + n + Cursor.len CR_LF) (by rw [eH]; exact hw)
  have b56 := byteAt_some (ρ := ServerCodec × Cursor × RResult (Option InboundIn)) b 56 c hc
  have hb : (c != (13 : UInt8)) = true := by simp [hcr]
  simp only [ServerCodec.decode, hr, g, g1, ht, call_ok, question_ok, bind_next, bind_ret, run_ret, c1, c2, arith_true,
    b56, hb, Bool.false_eq_true, ↓reduceIte]

/-- the 56 bytes are not the hex of the key: error, the 56 bytes consumed -/
theorem decode_header_badkey (ov : Bool) (k : List UInt8) (b : Bytes) (n : Usize) (hlen : b.length < 2 ^ 64) (hne : b ≠ [])
    (h : ¬ b.length < 61) (ht : Octo.AddrGen.try_decode_at ov b 59 = PWGen.Res.ok (RResult.ok n)) (hn : n.toNat ≤ 259)
    (hw : ¬ b.length < 61 + n.toNat) (hc : b[56]? = some 13) (hk : hexLower k ≠ b.take 56) :
    ServerCodec.decode ov ⟨k, .Header⟩ b = PWGen.Res.ok (⟨k, .Header⟩, b.drop 56, RResult.err) := by
  have hr := not_has_remaining hne
  have g := rem_lt_false b hlen 61 h
  obtain ⟨c1, c2, eH⟩ := hdr_facts n hn
  have g1 := rem_lt_false b hlen (59 + n + Cursor.len CR_LF) (by rw [eH]; exact hw)
  have b56 := byteAt_some (ρ := ServerCodec × Cursor × RResult (Option InboundIn)) b 56 13 hc
  have hb : ((13 : UInt8) != (13 : UInt8)) = false := rfl
  have spl : (Flow.split_to b (56 : Usize) : Flow (Cursor × Cursor) (ServerCodec × Cursor × RResult (Option InboundIn)))
      = Flow.next (b.drop 56, b.take 56) := split_to_ok b 56 (by show 56 ≤ b.length; omega)
  have hkb : (RString.as_bytes (hex_encode k) != b.take 56) = true := by
    show (hexLower k != b.take 56) = true
    simp [hk]
  simp only [ServerCodec.decode, hr, g, g1, ht, call_ok, question_ok, bind_next, bind_ret, run_ret, c1, c2, arith_true,
    b56, hb, spl, hkb, Bool.false_eq_true, ↓reduceIte]

/-- everything the arms after the key check share: the reads up to and including the command byte -/
theorem hdr_reads (b : Bytes) (n : Usize) (m : UInt8) (hw : ¬ b.length < 61 + n.toNat) (hm : b[58]? = some m) :
    let ρ := ServerCodec × Cursor × RResult (Option InboundIn)
    (Flow.split_to b (56 : Usize) : Flow (Cursor × Cursor) ρ) = Flow.next (b.drop 56, b.take 56) ∧
    (Flow.advance (b.drop 56) (Cursor.len CR_LF) : Flow Cursor ρ) = Flow.next (b.drop 58) ∧
    (Flow.get_u8 (b.drop 58) : Flow (Cursor × UInt8) ρ) = Flow.next (b.drop 59, m) := by
  intro ρ
  refine ⟨split_to_ok b 56 (by show 56 ≤ b.length; omega), ?_, ?_⟩
  · rw [advance_ok _ _ (by show 2 ≤ (b.drop 56).length; rw [List.length_drop]; omega)]
    show Flow.next ((b.drop 56).drop 2) = _
    rw [List.drop_drop]
  · rw [drop_eq_cons b 58 m hm]; rfl

/-- the command byte is none of 1, 2, 3: error, 59 bytes consumed -/
theorem decode_header_badcmd (ov : Bool) (k : List UInt8) (b : Bytes) (n : Usize) (m : UInt8) (hlen : b.length < 2 ^ 64) (hne : b ≠ [])
    (h : ¬ b.length < 61) (ht : Octo.AddrGen.try_decode_at ov b 59 = PWGen.Res.ok (RResult.ok n)) (hn : n.toNat ≤ 259)
    (hw : ¬ b.length < 61 + n.toNat) (hc : b[56]? = some 13) (hk : hexLower k = b.take 56)
    (hm : b[58]? = some m) (h1 : m ≠ 1) (h2 : m ≠ 2) (h3 : m ≠ 3) :
    ServerCodec.decode ov ⟨k, .Header⟩ b = PWGen.Res.ok (⟨k, .Header⟩, b.drop 59, RResult.err) := by
  have hr := not_has_remaining hne
  have g := rem_lt_false b hlen 61 h
  obtain ⟨c1, c2, eH⟩ := hdr_facts n hn
  have g1 := rem_lt_false b hlen (59 + n + Cursor.len CR_LF) (by rw [eH]; exact hw)
  have b56 := byteAt_some (ρ := ServerCodec × Cursor × RResult (Option InboundIn)) b 56 13 hc
  have hb : ((13 : UInt8) != (13 : UInt8)) = false := rfl
  obtain ⟨spl, adv, gu8⟩ := hdr_reads b n m hw hm
  have hkb : (RString.as_bytes (hex_encode k) != b.take 56) = false := by
    show (hexLower k != b.take 56) = false
    simp [hk]
  simp only [ServerCodec.decode, hr, g, g1, ht, call_ok, question_ok, question_err, bind_next, bind_ret, run_ret, c1, c2, arith_true,
    b56, hb, spl, hkb, adv, gu8, cmd_new_eval, h1, h2, h3, Bool.false_eq_true, ↓reduceIte]

/-- a whole `CONNECT` request: the state becomes `Tcp`, everything after the request is the first payload -/
theorem decode_header_connect (ov : Bool) (k : List UInt8) (b : Bytes) (n : Usize) (a : Address) (hlen : b.length < 2 ^ 64) (hne : b ≠ [])
    (h : ¬ b.length < 61) (ht : Octo.AddrGen.try_decode_at ov b 59 = PWGen.Res.ok (RResult.ok n)) (hn : n.toNat ≤ 259)
    (hw : ¬ b.length < 61 + n.toNat) (hc : b[56]? = some 13) (hk : hexLower k = b.take 56)
    (hm : b[58]? = some 1)
    (hd : Octo.AddrGen.decode ov (b.drop 59) = PWGen.Res.ok (b.drop (59 + n.toNat), RResult.ok a)) :
    ServerCodec.decode ov ⟨k, .Header⟩ b
      = PWGen.Res.ok (⟨k, .Tcp⟩, [], RResult.ok (some (InboundIn.ConnectTcp (b.drop (61 + n.toNat)) a))) := by
  have hr := not_has_remaining hne
  have g := rem_lt_false b hlen 61 h
  obtain ⟨c1, c2, eH⟩ := hdr_facts n hn
  have g1 := rem_lt_false b hlen (59 + n + Cursor.len CR_LF) (by rw [eH]; exact hw)
  have b56 := byteAt_some (ρ := ServerCodec × Cursor × RResult (Option InboundIn)) b 56 13 hc
  have hb : ((13 : UInt8) != (13 : UInt8)) = false := rfl
  obtain ⟨spl, adv, gu8⟩ := hdr_reads b n 1 hw hm
  have hkb : (RString.as_bytes (hex_encode k) != b.take 56) = false := by
    show (hexLower k != b.take 56) = false
    simp [hk]
  have adv2 : (Flow.advance (b.drop (59 + n.toNat)) (Cursor.len CR_LF) : Flow Cursor (ServerCodec × Cursor × RResult (Option InboundIn)))
      = Flow.next (b.drop (61 + n.toNat)) := by
    rw [advance_ok _ _ (by show 2 ≤ (b.drop (59 + n.toNat)).length; rw [List.length_drop]; omega)]
    show Flow.next ((b.drop (59 + n.toNat)).drop 2) = _
    rw [List.drop_drop]; congr 2; omega
  have hl : (b.drop (61 + n.toNat)).length < 2 ^ 64 := by rw [List.length_drop]; omega
  have spl2 := split_to_ok (ρ := ServerCodec × Cursor × RResult (Option InboundIn)) (b.drop (61 + n.toNat))
    (Cursor.remaining (b.drop (61 + n.toNat))) (by rw [remaining_toNat _ hl]; omega)
  rw [remaining_toNat _ hl, List.drop_length, List.take_length] at spl2
  simp only [ServerCodec.decode, hr, g, g1, ht, call_ok, question_ok, question_err, bind_next, bind_ret, run_ret, c1, c2, arith_true,
    b56, hb, spl, hkb, adv, gu8, cmd_new_eval, hd, adv2, spl2, Bool.false_eq_true, ↓reduceIte]

/-- a whole `BIND` request: error (unsupported), the request consumed -/
theorem decode_header_bind (ov : Bool) (k : List UInt8) (b : Bytes) (n : Usize) (a : Address) (hlen : b.length < 2 ^ 64) (hne : b ≠ [])
    (h : ¬ b.length < 61) (ht : Octo.AddrGen.try_decode_at ov b 59 = PWGen.Res.ok (RResult.ok n)) (hn : n.toNat ≤ 259)
    (hw : ¬ b.length < 61 + n.toNat) (hc : b[56]? = some 13) (hk : hexLower k = b.take 56)
    (hm : b[58]? = some 2)
    (hd : Octo.AddrGen.decode ov (b.drop 59) = PWGen.Res.ok (b.drop (59 + n.toNat), RResult.ok a)) :
    ServerCodec.decode ov ⟨k, .Header⟩ b = PWGen.Res.ok (⟨k, .Header⟩, b.drop (61 + n.toNat), RResult.err) := by
  have hr := not_has_remaining hne
  have g := rem_lt_false b hlen 61 h
  obtain ⟨c1, c2, eH⟩ := hdr_facts n hn
  have g1 := rem_lt_false b hlen (59 + n + Cursor.len CR_LF) (by rw [eH]; exact hw)
  have b56 := byteAt_some (ρ := ServerCodec × Cursor × RResult (Option InboundIn)) b 56 13 hc
  have hb : ((13 : UInt8) != (13 : UInt8)) = false := rfl
  obtain ⟨spl, adv, gu8⟩ := hdr_reads b n 2 hw hm
  have hkb : (RString.as_bytes (hex_encode k) != b.take 56) = false := by
    show (hexLower k != b.take 56) = false
    simp [hk]
  have adv2 : (Flow.advance (b.drop (59 + n.toNat)) (Cursor.len CR_LF) : Flow Cursor (ServerCodec × Cursor × RResult (Option InboundIn)))
      = Flow.next (b.drop (61 + n.toNat)) := by
    rw [advance_ok _ _ (by show 2 ≤ (b.drop (59 + n.toNat)).length; rw [List.length_drop]; omega)]
    show Flow.next ((b.drop (59 + n.toNat)).drop 2) = _
    rw [List.drop_drop]; congr 2; omega
  have e21 : ((2 : UInt8) = 1) = False := by decide
  simp only [ServerCodec.decode, hr, g, g1, ht, call_ok, question_ok, question_err, bind_next, bind_ret, run_ret, c1, c2, arith_true,
    b56, hb, spl, hkb, adv, gu8, cmd_new_eval, hd, adv2, e21, Bool.false_eq_true, ↓reduceIte]

/-- a whole `UDP ASSOCIATE` request: the state becomes `Udp` and `decode_packet` runs on what follows the request -/
theorem decode_header_udp (ov : Bool) (k : List UInt8) (b : Bytes) (n : Usize) (a : Address) (hlen : b.length < 2 ^ 64) (hne : b ≠ [])
    (h : ¬ b.length < 61) (ht : Octo.AddrGen.try_decode_at ov b 59 = PWGen.Res.ok (RResult.ok n)) (hn : n.toNat ≤ 259)
    (hw : ¬ b.length < 61 + n.toNat) (hc : b[56]? = some 13) (hk : hexLower k = b.take 56)
    (hm : b[58]? = some 3)
    (hd : Octo.AddrGen.decode ov (b.drop 59) = PWGen.Res.ok (b.drop (59 + n.toNat), RResult.ok a)) :
    ServerCodec.decode ov ⟨k, .Header⟩ b = ServerCodec.decode_packet ov ⟨k, .Udp⟩ (b.drop (61 + n.toNat)) := by
  have hr := not_has_remaining hne
  have g := rem_lt_false b hlen 61 h
  obtain ⟨c1, c2, eH⟩ := hdr_facts n hn
  have g1 := rem_lt_false b hlen (59 + n + Cursor.len CR_LF) (by rw [eH]; exact hw)
  have b56 := byteAt_some (ρ := ServerCodec × Cursor × RResult (Option InboundIn)) b 56 13 hc
  have hb : ((13 : UInt8) != (13 : UInt8)) = false := rfl
  obtain ⟨spl, adv, gu8⟩ := hdr_reads b n 3 hw hm
  have hkb : (RString.as_bytes (hex_encode k) != b.take 56) = false := by
    show (hexLower k != b.take 56) = false
    simp [hk]
  have adv2 : (Flow.advance (b.drop (59 + n.toNat)) (Cursor.len CR_LF) : Flow Cursor (ServerCodec × Cursor × RResult (Option InboundIn)))
      = Flow.next (b.drop (61 + n.toNat)) := by
    rw [advance_ok _ _ (by show 2 ≤ (b.drop (59 + n.toNat)).length; rw [List.length_drop]; omega)]
    show Flow.next ((b.drop (59 + n.toNat)).drop 2) = _
    rw [List.drop_drop]; congr 2; omega
  have e31 : ((3 : UInt8) = 1) = False := by decide
  have e32 : ((3 : UInt8) = 2) = False := by decide
  cases hX : ServerCodec.decode_packet ov ⟨k, .Udp⟩ (b.drop (61 + n.toNat)) with
  | panic =>
    simp only [ServerCodec.decode, hr, g, g1, ht, call_ok, question_ok, question_err, bind_next, bind_ret, run_ret, c1, c2, arith_true,
      b56, hb, spl, hkb, adv, gu8, cmd_new_eval, hd, adv2, e31, e32, hX, call_panic, bind_panic, run_panic', Bool.false_eq_true, ↓reduceIte]
  | ok v =>
    obtain ⟨s', buf, r⟩ := v
    simp only [ServerCodec.decode, hr, g, g1, ht, call_ok, question_ok, question_err, bind_next, bind_ret, run_ret, c1, c2, arith_true,
      b56, hb, spl, hkb, adv, gu8, cmd_new_eval, hd, adv2, e31, e32, hX, Bool.false_eq_true, ↓reduceIte]

/-! ## `decode` = `Trojan.serverDecode` -/

/-- the model's name of a codec state -/
def toSt : CodecState → Trojan.SrvSt
  | .Header => .header
  | .Tcp => .tcp
  | .Udp => .udp

/-- the model's view (`Call`) of what one generated `decode` call returned; `st0` / `b0` are state and buffer before the call
(the model's convention for a panic: nothing has changed) -/
def embedCall (st0 : Trojan.SrvSt) (b0 : Bytes) :
    PWGen.Res (ServerCodec × Cursor × RResult (Option InboundIn)) → Call Trojan.SrvSt
  | .ok (s, buf, r) => ⟨toSt s.state, buf, embedRes r⟩
  | .panic => ⟨st0, b0, .panic⟩

theorem getD_of_get (b : Bytes) (k : Nat) (c : UInt8) (h : b[k]? = some c) : b.getD k 0 = c := by
  rw [List.getD_eq_getElem?_getD, h]; rfl

/-- the tail of the model's `UdpAssociate` arm is `pktCall` -/
theorem model_udp_tail (rest : Bytes) :
    (if rest.isEmpty then (⟨Trojan.SrvSt.udp, rest, .more⟩ : Call Trojan.SrvSt) else
      match Trojan.decodePacket rest with
      | .ok (a, p, rest') => ⟨.udp, rest', .ok ⟨.udp, p, some a⟩⟩
      | .more => ⟨.udp, rest, .more⟩
      | .panic => ⟨.udp, rest, .panic⟩
      | .err => ⟨.udp, rest, .err⟩) = Trojan.pktCall .udp rest := rfl

/-- **`decode` in state `Header`** -/
theorem decode_eq_header (ov : Bool) (C : Crypto) (pw : Bytes) (k : List UInt8) (b : Bytes) (hlen : b.length < 2 ^ 64)
    (hkey : Trojan.keyHex C pw = hexLower k) (hne : b ≠ []) :
    ∃ s' buf r, ServerCodec.decode ov ⟨k, .Header⟩ b = PWGen.Res.ok (s', buf, r) ∧ s'.key = k ∧ buf.length ≤ b.length ∧
      Trojan.serverDecode C pw .header b = ⟨toSt s'.state, buf, embedRes r⟩ := by
  have hemp : b.isEmpty = false := by
    cases b with
    | nil => exact absurd rfl hne
    | cons x r => rfl
  by_cases h61 : b.length < 61
  · refine ⟨_, _, _, decode_header_short ov k b hlen hne h61, rfl, by simp, ?_⟩
    simp [Trojan.serverDecode, hemp, h61, toSt, embedRes]
  have e59 : (59 : Usize).toNat = 59 := rfl
  cases hm : Socks5Addr.tryDecodeAt b 59 with
  | panic => exact absurd hm (c07_tryDecodeAt_total b 59 (by omega))
  | more => exact absurd hm (tryDecodeAt_ne_more b 59)
  | err =>
    refine ⟨_, _, _, decode_header_badtype ov k b hlen hne h61 (try_of_model_err ov b 59 hlen (by rw [e59]; exact hm)), rfl, by simp, ?_⟩
    simp [Trojan.serverDecode, hemp, h61, hm, toSt, embedRes]
  | ok al =>
    obtain ⟨n, ht, hn⟩ := try_of_model_ok ov b 59 al hlen (by rw [e59]; exact hm)
    obtain ⟨hal4, hal⟩ := tryDecodeAt_bounds b 59 al hm
    have hn' : n.toNat ≤ 259 := by omega
    by_cases hw : b.length < 59 + al + 2
    · refine ⟨_, _, _, decode_header_wait ov k b n hlen hne h61 ht hn' (by rw [hn]; omega), rfl, by simp, ?_⟩
      simp [Trojan.serverDecode, hemp, h61, hm, hw, toSt, embedRes]
    have hw' : ¬ b.length < 61 + n.toNat := by rw [hn]; omega
    have hc : b[56]? = some b[56] := List.getElem?_eq_getElem (by omega)
    have hgd := getD_of_get b 56 _ hc
    by_cases hcr : ¬ b[56] = 13
    · refine ⟨_, _, _, decode_header_nocr ov k b n _ hlen hne h61 ht hn' hw' hc hcr, rfl, by simp, ?_⟩
      simp [Trojan.serverDecode, hemp, h61, hm, hw, hc, hcr, toSt, embedRes]
    have hcr : b[56] = 13 := Classical.not_not.mp hcr
    rw [hcr] at hc hgd
    by_cases hk : ¬ b.take 56 = Trojan.keyHex C pw
    · refine ⟨_, _, _, decode_header_badkey ov k b n hlen hne h61 ht hn' hw' hc (by rw [← hkey]; exact fun e => hk e.symm), rfl, by simp, ?_⟩
      simp [Trojan.serverDecode, hemp, h61, hm, hw, hc, hk, toSt, embedRes]
    have hk : b.take 56 = Trojan.keyHex C pw := Classical.not_not.mp hk
    have hk' : hexLower k = b.take 56 := by rw [← hkey, hk]
    have hm58 : b[58]? = some b[58] := List.getElem?_eq_getElem (by omega)
    have hgd58 := getD_of_get b 58 _ hm58
    -- the address behind the command byte
    obtain ⟨a, hdm⟩ := tryDecodeAt_decode b 59 al hm (by omega)
    have hl59 : (b.drop 59).length < 2 ^ 64 := by rw [List.length_drop]; omega
    obtain ⟨xa, hdg, hxa⟩ := decode_of_model_ok ov (b.drop 59) _ a hl59 hdm
    rw [← hn] at hdg
    have erest : (b.drop (59 + al)).drop 2 = b.drop (61 + n.toNat) := by rw [List.drop_drop, hn]; congr 1; omega
    by_cases h1 : b[58] = 1
    · rw [h1] at hm58 hgd58
      refine ⟨_, _, _, decode_header_connect ov k b n xa hlen hne h61 ht hn' hw' hc hk' hm58 hdg, rfl, by simp, ?_⟩
      simp [Trojan.serverDecode, hemp, h61, hm, hw, hc, hk, hm58, hdm, erest, toSt, embedRes, hxa]
    by_cases h2 : b[58] = 2
    · rw [h2] at hm58 hgd58
      refine ⟨_, _, _, decode_header_bind ov k b n xa hlen hne h61 ht hn' hw' hc hk' hm58 hdg, rfl, by simp, ?_⟩
      simp [Trojan.serverDecode, hemp, h61, hm, hw, hc, hk, hm58, hdm, erest, toSt, embedRes]
    by_cases h3 : b[58] = 3
    · rw [h3] at hm58 hgd58
      have hlr : (b.drop (61 + n.toNat)).length < 2 ^ 64 := by rw [List.length_drop]; omega
      obtain ⟨buf, r, hdp, hble, hmod⟩ := decode_packet_spec ov ⟨k, .Udp⟩ (b.drop (61 + n.toNat)) hlr
      refine ⟨_, _, _, (decode_header_udp ov k b n xa hlen hne h61 ht hn' hw' hc hk' hm58 hdg).trans hdp, rfl,
        by rw [List.length_drop] at hble; omega, ?_⟩
      have hp := hmod Trojan.SrvSt.udp
      simp only [Trojan.pktCall] at hp
      simp [Trojan.serverDecode, hemp, h61, hm, hw, hc, hk, hm58, hdm, erest, toSt]
      simp at hp
      exact hp
    · have hv : ¬ ((b[58]).toNat = 1) ∧ ¬ ((b[58]).toNat = 2) ∧ ¬ ((b[58]).toNat = 3) := by
        refine ⟨fun e => h1 ?_, fun e => h2 ?_, fun e => h3 ?_⟩ <;> exact UInt8.toNat_inj.mp e
      refine ⟨_, _, _, decode_header_badcmd ov k b n _ hlen hne h61 ht hn' hw' hc hk' hm58 h1 h2 h3, rfl, by simp, ?_⟩
      simp [Trojan.serverDecode, hemp, h61, hm, hw, hc, hk, hm58, hv, toSt, embedRes]

/-- **one `decode` call, every state** (both profiles, every key, every buffer a `BytesMut` can hold): the generated `decode`
does not panic, keeps the key, never grows the buffer, and new state / new buffer / outcome are exactly those of the model's
`serverDecode` whose key is the lower-case hex of the codec's key -/
theorem decode_spec (ov : Bool) (C : Crypto) (pw : Bytes) (s : ServerCodec) (b : Bytes) (hlen : b.length < 2 ^ 64)
    (hkey : Trojan.keyHex C pw = hexLower s.key) :
    ∃ s' buf r, ServerCodec.decode ov s b = PWGen.Res.ok (s', buf, r) ∧ s'.key = s.key ∧ buf.length ≤ b.length ∧
      Trojan.serverDecode C pw (toSt s.state) b = ⟨toSt s'.state, buf, embedRes r⟩ := by
  obtain ⟨k, st⟩ := s
  by_cases hne : b = []
  · subst hne
    exact ⟨_, _, _, decode_nil ov _, rfl, Nat.le_refl _, by simp [Trojan.serverDecode, embedRes]⟩
  have hemp : b.isEmpty = false := by
    cases b with
    | nil => exact absurd rfl hne
    | cons x r => rfl
  cases st with
  | Header => exact decode_eq_header ov C pw k b hlen hkey hne
  | Tcp =>
    exact ⟨_, _, _, decode_tcp ov k b hlen hne, rfl, by simp, by simp [Trojan.serverDecode, hemp, toSt, embedRes]⟩
  | Udp =>
    obtain ⟨buf, r, hdp, hble, hmod⟩ := decode_packet_spec ov ⟨k, .Udp⟩ b hlen
    refine ⟨_, _, _, (decode_udp ov k b hne).trans hdp, rfl, hble, ?_⟩
    show Trojan.serverDecode C pw .udp b = _
    rw [Trojan.serverDecode_udp, hmod]; rfl

/-- **(a) `decode_eq`**: read through `embedCall`, the generated `decode` *is* the model's `serverDecode` -/
theorem decode_eq (ov : Bool) (C : Crypto) (pw : Bytes) (s : ServerCodec) (b : Bytes) (hlen : b.length < 2 ^ 64)
    (hkey : Trojan.keyHex C pw = hexLower s.key) :
    embedCall (toSt s.state) b (ServerCodec.decode ov s b) = Trojan.serverDecode C pw (toSt s.state) b := by
  obtain ⟨s', buf, r, hd, -, -, hm⟩ := decode_spec ov C pw s b hlen hkey
  rw [hd, hm]; rfl

/-- a `Crypto` whose SHA-224 of anything is `k`: the model instance for a codec whose key is `k` -/
def keyCrypto (k : List UInt8) : Crypto := { Crypto.toy with sha224 := fun _ => k }

theorem keyCrypto_keyHex (k pw : List UInt8) : Trojan.keyHex (keyCrypto k) pw = hexLower k :=
  (hexLower_eq_hexBytes k).symm

theorem keyCrypto_lawful (k : List UInt8) (hk : k.length = 28) : (keyCrypto k).Lawful :=
  { Crypto.toy_lawful with sha224_len := fun _ => hk }

/-- the codec `new_codec` builds: `key = SHA-224(password)` -/
theorem keyHex_of_sha (C : Crypto) (pw : Bytes) : Trojan.keyHex C pw = hexLower (C.sha224 pw) :=
  (hexLower_eq_hexBytes _).symm

/-- the generated `decode` never panics: every key, every state, every buffer a `BytesMut` can hold, both profiles -/
theorem decode_no_panic (ov : Bool) (s : ServerCodec) (b : Bytes) (hlen : b.length < 2 ^ 64) :
    ServerCodec.decode ov s b ≠ PWGen.Res.panic := by
  obtain ⟨s', buf, r, hd, -⟩ := decode_spec ov (keyCrypto s.key) [] s b hlen (keyCrypto_keyHex _ _)
  rw [hd]; simp

/-- `decode` never changes the key and never grows the buffer -/
theorem decode_key (ov : Bool) (s s' : ServerCodec) (b buf : Bytes) (r : RResult (Option InboundIn)) (hlen : b.length < 2 ^ 64)
    (h : ServerCodec.decode ov s b = PWGen.Res.ok (s', buf, r)) : s'.key = s.key ∧ buf.length ≤ b.length := by
  obtain ⟨s2, buf2, r2, hd, hk, hb, -⟩ := decode_spec ov (keyCrypto s.key) [] s b hlen (keyCrypto_keyHex _ _)
  rw [hd] at h
  simp only [PWGen.Res.ok.injEq, Prod.mk.injEq] at h
  rw [← h.1, ← h.2.1]; exact ⟨hk, hb⟩

/-! ## `encode` -/

theorem as_u16_len (content : List UInt8) : (Usize.as_u16 (Cursor.len content)).toNat = content.length % 65536 := by
  rw [Usize.as_u16, Cursor.len, UInt16.toNat_ofNat', UInt64.toNat_ofNat']
  omega

/-- **(c) `encode_eq`, TCP item**: appended as it is; the codec is untouched, no panic, never `Err` -/
theorem encode_tcp_eq (ov : Bool) (s : ServerCodec) (item dst : List UInt8) :
    ServerCodec.encode ov s (OutboundIn.Tcp item) dst
      = PWGen.Res.ok (s, dst ++ Trojan.serverEncodeTcp item, RResult.ok ()) := by
  simp only [ServerCodec.encode, Cursor.extend_from_slice, run_ret, Trojan.serverEncodeTcp]

/-- **(c) `encode_eq`, UDP item**: the model's frame (address, 16-bit length = `len mod 65536`, CRLF, payload) for the model's
view of the socket address; the codec is untouched, no panic, never `Err` -/
theorem encode_udp_eq (ov : Bool) (s : ServerCodec) (content dst : List UInt8) (addr : SocketAddr) :
    ServerCodec.encode ov s (OutboundIn.Udp (content, addr)) dst
      = PWGen.Res.ok (s, dst ++ Trojan.serverEncodeUdp content (toAddr (Address.Socket addr)), RResult.ok ()) := by
  have hfrom : Address.from_SocketAddr ov addr = PWGen.Res.ok (Address.Socket addr) := rfl
  simp only [ServerCodec.encode, hfrom, call_ok, bind_next, Octo.AddrGen.encode_eq, Cursor.put_u16, Cursor.extend_from_slice, run_ret,
    Trojan.serverEncodeUdp, Trojan.packet, beBytes_two, as_u16_len, List.append_assoc]
  rfl

/-! ## the generated decoder under the `FramedRead` loop -/

/-- one generated `decode` call in the shape `frLoop` / `frFeed` take: the state is the generated codec value itself -/
def genCall (ov : Bool) (s : ServerCodec) (b : Bytes) : Call ServerCodec :=
  match ServerCodec.decode ov s b with
  | .ok (s', buf, r) => ⟨s', buf, embedRes r⟩
  | .panic => ⟨s, b, .panic⟩

/-- the model's view of a `FramedRead` over the generated codec -/
def mapFr (f : FrSt ServerCodec) : FrSt Trojan.SrvSt := ⟨toSt f.st.state, f.buf, f.ended⟩

theorem genCall_spec (ov : Bool) (C : Crypto) (pw : Bytes) (s : ServerCodec) (b : Bytes) (hlen : b.length < 2 ^ 64)
    (hkey : Trojan.keyHex C pw = hexLower s.key) :
    (genCall ov s b).st.key = s.key ∧ (genCall ov s b).buf.length ≤ b.length ∧
    Trojan.serverDecode C pw (toSt s.state) b = ⟨toSt (genCall ov s b).st.state, (genCall ov s b).buf, (genCall ov s b).res⟩ := by
  obtain ⟨s', buf, r, hd, hk, hb, hm⟩ := decode_spec ov C pw s b hlen hkey
  simp only [genCall, hd]
  exact ⟨hk, hb, hm⟩

/-- the `FramedRead` loop over the generated decoder and over the model run in lock step -/
theorem frLoop_sim (ov : Bool) (C : Crypto) (pw : Bytes) (key : List UInt8) (hkey : Trojan.keyHex C pw = hexLower key) :
    ∀ (fuel : Nat) (f : FrSt ServerCodec), f.st.key = key → f.buf.length < 2 ^ 64 →
      mapFr (frLoop (genCall ov) fuel f).1 = (frLoop (Trojan.serverDecode C pw) fuel (mapFr f)).1 ∧
      (frLoop (genCall ov) fuel f).2 = (frLoop (Trojan.serverDecode C pw) fuel (mapFr f)).2 ∧
      (frLoop (genCall ov) fuel f).1.st.key = key ∧ (frLoop (genCall ov) fuel f).1.buf.length ≤ f.buf.length := by
  intro fuel
  induction fuel with
  | zero => intro f hk hl; exact ⟨rfl, rfl, hk, Nat.le_refl _⟩
  | succ fuel ih =>
    intro f hk hl
    obtain ⟨gk, gb, gm⟩ := genCall_spec ov C pw f.st f.buf hl (by rw [hk]; exact hkey)
    have hm : Trojan.serverDecode C pw (mapFr f).st (mapFr f).buf
        = ⟨toSt (genCall ov f.st f.buf).st.state, (genCall ov f.st f.buf).buf, (genCall ov f.st f.buf).res⟩ := gm
    have hmres : (Trojan.serverDecode C pw (mapFr f).st (mapFr f).buf).res = (genCall ov f.st f.buf).res := by rw [hm]
    have hmst : (Trojan.serverDecode C pw (mapFr f).st (mapFr f).buf).st = toSt (genCall ov f.st f.buf).st.state := by rw [hm]
    have hmbuf : (Trojan.serverDecode C pw (mapFr f).st (mapFr f).buf).buf = (genCall ov f.st f.buf).buf := by rw [hm]
    cases hres : (genCall ov f.st f.buf).res with
    | ok i =>
      have ihf := ih { f with st := (genCall ov f.st f.buf).st, buf := (genCall ov f.st f.buf).buf } (by rw [gk, hk])
        (by show (genCall ov f.st f.buf).buf.length < 2 ^ 64; omega)
      rw [Trojan.frLoop_ok _ _ _ i hres, Trojan.frLoop_ok _ _ _ i (hmres.trans hres), hmst, hmbuf]
      exact ⟨ihf.1, by rw [ihf.2.1]; rfl, ihf.2.2.1, Nat.le_trans ihf.2.2.2 gb⟩
    | more =>
      rw [Trojan.frLoop_more _ _ _ hres, Trojan.frLoop_more _ _ _ (hmres.trans hres), hmst, hmbuf]
      exact ⟨rfl, rfl, by rw [gk, hk], gb⟩
    | err =>
      rw [Trojan.frLoop_err _ _ _ hres, Trojan.frLoop_err _ _ _ (hmres.trans hres), hmst, hmbuf]
      exact ⟨rfl, rfl, by rw [gk, hk], gb⟩
    | panic =>
      have e1 : frLoop (genCall ov) (fuel + 1) f
          = ({ st := (genCall ov f.st f.buf).st, buf := (genCall ov f.st f.buf).buf, ended := true }, [.panic]) := by
        simp only [frLoop, hres]
      have e2 : frLoop (Trojan.serverDecode C pw) (fuel + 1) (mapFr f)
          = ({ st := toSt (genCall ov f.st f.buf).st.state, buf := (genCall ov f.st f.buf).buf, ended := true }, [.panic]) := by
        simp only [frLoop, hm, hres]
      rw [e1, e2]
      exact ⟨rfl, rfl, by rw [gk, hk], gb⟩

theorem frFeed_sim (ov : Bool) (C : Crypto) (pw : Bytes) (key : List UInt8) (hkey : Trojan.keyHex C pw = hexLower key)
    (f : FrSt ServerCodec) (p : Bytes) (hk : f.st.key = key) (hl : f.buf.length + p.length < 2 ^ 64) :
    mapFr (frFeed (genCall ov) f p).1 = (frFeed (Trojan.serverDecode C pw) (mapFr f) p).1 ∧
    (frFeed (genCall ov) f p).2 = (frFeed (Trojan.serverDecode C pw) (mapFr f) p).2 ∧
    (frFeed (genCall ov) f p).1.st.key = key ∧ (frFeed (genCall ov) f p).1.buf.length ≤ f.buf.length + p.length := by
  obtain ⟨st, buf, ended⟩ := f
  cases ended with
  | true => exact ⟨rfl, rfl, hk, Nat.le_add_right _ _⟩
  | false =>
    have := frLoop_sim ov C pw key hkey (buf.length + p.length + 2) ⟨st, buf ++ p, false⟩ hk
      (by simp only [List.length_append]; exact hl)
    have h4 := this.2.2.2
    simp only [List.length_append] at h4
    exact ⟨this.1, this.2.1, this.2.2.1, h4⟩

/-- **every segmentation**: reading the pieces one by one through `FramedRead`, the generated decoder and the model produce the
same events, leave the same buffer, end in corresponding states — for every stream that fits a `usize` -/
theorem feedAll_sim (ov : Bool) (C : Crypto) (pw : Bytes) (key : List UInt8) (hkey : Trojan.keyHex C pw = hexLower key) :
    ∀ (pieces : List Bytes) (f : FrSt ServerCodec), f.st.key = key → f.buf.length + pieces.flatten.length < 2 ^ 64 →
      mapFr (Trojan.feedAll (genCall ov) f pieces).1 = (Trojan.feedAll (Trojan.serverDecode C pw) (mapFr f) pieces).1 ∧
      (Trojan.feedAll (genCall ov) f pieces).2 = (Trojan.feedAll (Trojan.serverDecode C pw) (mapFr f) pieces).2 ∧
      (Trojan.feedAll (genCall ov) f pieces).1.st.key = key := by
  intro pieces
  induction pieces with
  | nil => intro f hk _; exact ⟨rfl, rfl, hk⟩
  | cons p ps ih =>
    intro f hk hl
    simp only [List.flatten_cons, List.length_append] at hl
    obtain ⟨s1, s2, s3, s4⟩ := frFeed_sim ov C pw key hkey f p hk (by omega)
    have ihf := ih (frFeed (genCall ov) f p).1 s3 (by omega)
    simp only [Trojan.feedAll]
    rw [← s1]
    exact ⟨ihf.1, by rw [s2, ihf.2.1], ihf.2.2⟩

theorem toSt_inj {a b : CodecState} (h : toSt a = toSt b) : a = b := by
  cases a <;> cases b <;> first | rfl | cases h

end Octo.TrojanGen
