import Octo.Proofs.SsChunk
/-! Stream-level lemmas for the Shadowsocks TCP decoder unit (`Ss.unit`). -/
namespace Octo.Ss
open Octo.Fr

variable {σ ο : Type}

/-- a run that ended cleanly on `a` composes with what follows -/
theorem run_concat (unit : σ → Bytes → Step σ ο) (G : Good unit) (s s1 : σ) (a b : Bytes) (o1 : List ο)
    (h : run unit s a = ⟨s1, [], o1, false⟩) :
    run unit s (a ++ b) = ⟨(run unit s1 b).st, (run unit s1 b).buf, o1 ++ (run unit s1 b).out, (run unit s1 b).failed⟩ := by
  have := run_append unit G (a.length + 1) s a b (by omega)
  rw [this, h]
  simp

def liftOut (sess : Sess) (r : Out ChunkDec UInt8) : Out Dec Ev :=
  ⟨⟨some r.st, sess⟩, r.buf, r.out.map .byte, r.failed⟩

/-- once the chunk decoder exists, `Ss.unit` is the chunk unit -/
theorem drain_lift (C : Crypto) (ctx : Ctx) (env : DecEnv) (sess : Sess) : ∀ (fuel : Nat) (cd : ChunkDec) (b : Bytes),
    drain (unit C ctx env) fuel ⟨some cd, sess⟩ b = liftOut sess (drain (chunkUnit C) fuel cd b) := by
  intro fuel
  induction fuel with
  | zero => intro cd b; rfl
  | succ fuel ih =>
    intro cd b
    simp only [drain, unit]
    cases hu : chunkUnit C cd b with
    | need => simp [liftOut]
    | fail s' n => simp [liftOut]
    | take s' n o =>
      simp only [ih s' (b.drop n)]
      simp [liftOut]

theorem run_lift (C : Crypto) (ctx : Ctx) (env : DecEnv) (sess : Sess) (cd : ChunkDec) (b : Bytes) :
    run (unit C ctx env) ⟨some cd, sess⟩ b = liftOut sess (run (chunkUnit C) cd b) := drain_lift C ctx env sess _ cd b

@[simp] theorem Ev.bytes_map_byte (b : Bytes) : Ev.bytes (b.map Ev.byte) = b := by
  induction b with
  | nil => rfl
  | cons x r ih => simp [Ev.bytes, ih]

theorem Ev.bytes_append (a b : List Ev) : Ev.bytes (a ++ b) = Ev.bytes a ++ Ev.bytes b := by
  induction a with
  | nil => rfl
  | cons x r ih => cases x <;> simp [Ev.bytes, ih]

/-- for a legacy cipher the whole decoder unit (salt step + chunk steps) is `Good` -/
theorem unit_good_legacy (C : Crypto) (hC : C.Lawful) (ctx : Ctx) (env : DecEnv) (hk : ctx.kind.is2022 = false) :
    Good (unit C ctx env) where
  progress := by
    intro s b s' n o h
    cases hc : s.chunk with
    | none =>
      simp only [unit, hc, hk] at h
      simp only [Bool.false_eq_true, if_false] at h
      split at h
      · cases h
      · cases h; omega
    | some cd =>
      simp only [unit, hc] at h
      cases hu : chunkUnit C cd b with
      | need => simp [hu] at h
      | fail a m => simp [hu] at h
      | take cd' m o' =>
        simp only [hu] at h
        cases h
        exact (chunkUnit_good C hC).progress cd b cd' _ o' hu
  stable_take := by
    intro s b t s' n o h
    cases hc : s.chunk with
    | none =>
      simp only [unit, hc, hk] at h ⊢
      simp only [Bool.false_eq_true, if_false] at h ⊢
      split at h
      · cases h
      · rename_i hlen
        rw [if_neg (by simp only [List.length_append]; omega)]
        cases h
        rw [take_app _ _ _ (by omega)]
    | some cd =>
      simp only [unit, hc] at h ⊢
      cases hu : chunkUnit C cd b with
      | need => simp [hu] at h
      | fail a m => simp [hu] at h
      | take cd' m o' =>
        simp only [hu] at h
        cases h
        rw [(chunkUnit_good C hC).stable_take cd b t cd' _ o' hu]
  stable_fail := by
    intro s b t s' n h
    cases hc : s.chunk with
    | none =>
      simp only [unit, hc, hk] at h
      simp only [Bool.false_eq_true, if_false] at h
      split at h <;> cases h
    | some cd =>
      simp only [unit, hc] at h ⊢
      cases hu : chunkUnit C cd b with
      | need => simp [hu] at h
      | take a m o' => simp [hu] at h
      | fail cd' m =>
        simp only [hu] at h
        cases h
        rw [(chunkUnit_good C hC).stable_fail cd b t cd' _ hu]
  fail_le := by
    intro s b s' n h
    cases hc : s.chunk with
    | none =>
      simp only [unit, hc, hk] at h
      simp only [Bool.false_eq_true, if_false] at h
      split at h <;> cases h
    | some cd =>
      simp only [unit, hc] at h
      cases hu : chunkUnit C cd b with
      | need => simp [hu] at h
      | take a m o' => simp [hu] at h
      | fail cd' m =>
        simp only [hu] at h
        cases h
        exact (chunkUnit_good C hC).fail_le cd b cd' _ hu

theorem kind_legacy_noEih (k : Kind) (h : k.is2022 = false) : k.supportEih = false := by
  cases k <;> simp_all [Kind.is2022, Kind.supportEih]

theorem kind_n_pos (k : Kind) : 0 < k.n := by cases k <;> simp [Kind.n]

/-- later writes of a session (the encoder already exists) come back out of the chunk decoder -/
theorem encodeAll_some_roundtrip (C : Crypto) (hC : C.Lawful) (ctx : Ctx) (cs : Sess) (ws : List (Bytes × EncRand)) :
    ∀ (a : Auth), ∃ a', (encodeAll C ctx cs ⟨some a⟩ ws).2 = ⟨some a'⟩ ∧
      run (chunkUnit C) ⟨a, .length⟩ (encodeAll C ctx cs ⟨some a⟩ ws).1 =
        ⟨⟨a', .length⟩, [], (ws.map Prod.fst).flatten, false⟩ := by
  have G := chunkUnit_good C hC
  induction ws with
  | nil =>
    intro a
    exact ⟨a, rfl, run_need _ _ _ (by simp [chunkUnit, encodeAll])⟩
  | cons w ws ih =>
    intro a
    obtain ⟨wb, r⟩ := w
    obtain ⟨a', h2, h3⟩ := ih (encPayload C a ctx.kind.payloadLimit wb).2
    refine ⟨a', ?_, ?_⟩
    · simp only [encodeAll, encode]; exact h2
    · simp only [encodeAll, encode]
      rw [run_concat _ G _ _ _ _ _ (payload_roundtrip C hC a _ (payloadLimit_good ctx.kind) wb), h3]
      simp

end Octo.Ss
