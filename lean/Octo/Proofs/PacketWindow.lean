import Octo.Model.PacketWindow
/-! Helper lemmas for C11 (never property statements). -/
namespace Octo.PW

/-- the set-based specification of the anti-replay window (WireGuard's replay window, as a set) -/
def specAccept (S : List Nat) (id limit : Nat) : Bool :=
  decide (id < limit) && !(S.contains id) && S.all (fun x => decide (x ≤ id + 8128))

def specStep (S : List Nat) (id limit : Nat) : List Nat × Bool :=
  if specAccept S id limit then (id :: S, true) else (S, false)

def runSpec (limit : Nat) : List Nat → List Nat → List Bool
  | _, [] => []
  | S, id :: ids => (specStep S id limit).2 :: runSpec limit (specStep S id limit).1 ids

/-- the accepted set after a history -/
def specSet (limit : Nat) : List Nat → List Nat → List Nat
  | S, [] => S
  | S, id :: ids => specSet limit (specStep S id limit).1 ids

/- constants as extracted from the source today; if the source constants change these fail -/
theorem blockBits_eq : blockBits = 64 := by decide
theorem ringBlocks_eq : ringBlocks = 128 := by decide
theorem windowSize_eq : windowSize = 8128 := by decide
theorem blockMask_eq : blockMask = 127 := by decide
theorem bitMask_eq : bitMask = 63 := by decide
theorem blockBitLog_eq : Consts.blockBitLog = 6 := by decide

theorem shr6 (n : Nat) : n >>> Consts.blockBitLog = n / 64 := by
  rw [blockBitLog_eq, Nat.shiftRight_eq_div_pow]
theorem and127 (n : Nat) : n &&& blockMask = n % 128 := by
  rw [blockMask_eq]; exact Nat.and_two_pow_sub_one_eq_mod n 7
theorem and63 (n : Nat) : n &&& bitMask = n % 64 := by
  rw [bitMask_eq]; exact Nat.and_two_pow_sub_one_eq_mod n 6

theorem testBit_or_bit (a b c : Nat) :
    (a ||| (1 <<< b)).testBit c = (a.testBit c || decide (b = c)) := by
  rw [Nat.testBit_or, Nat.one_shiftLeft, Nat.testBit_two_pow]

theorem or_bit_ne (a b : Nat) : (a != (a ||| (1 <<< b))) = !a.testBit b := by
  cases h : a.testBit b
  · simp only [Bool.not_false, bne_iff_ne, ne_eq]
    intro heq
    have := testBit_or_bit a b b
    rw [← heq, h] at this
    simp at this
  · simp only [Bool.not_true, bne_eq_false_iff_eq]
    apply Eq.symm
    apply Nat.eq_of_testBit_eq
    intro i
    rw [testBit_or_bit]
    by_cases hi : b = i
    · subst hi; simp [h]
    · simp [hi]

theorem getD_set (a : Array Nat) (i j v : Nat) (h : i < a.size) :
    (a.setIfInBounds i v).getD j 0 = if i = j then v else a.getD j 0 := by
  simp only [Array.getD_eq_getD_getElem?, Array.getElem?_setIfInBounds]
  by_cases hij : i = j
  · subst hij; simp [h]
  · simp [hij]

theorem clear_size (r : Array Nat) (cur n : Nat) : (clearBlocks r cur n).size = r.size := by
  induction n with
  | zero => rfl
  | succ n ih => simp [clearBlocks, ih]

theorem clear_hit (r : Array Nat) (hs : r.size = 128) (cur n d : Nat) (h1 : 1 ≤ d) (h2 : d ≤ n) :
    (clearBlocks r cur n).getD ((cur + d) % 128) 0 = 0 := by
  induction n with
  | zero => omega
  | succ n ih =>
    simp only [clearBlocks, and127]
    rw [getD_set _ _ _ _ (by rw [clear_size, hs]; omega)]
    by_cases hd : d = n + 1
    · subst hd; simp
    · split
      · rfl
      · exact ih (by omega)

theorem clear_miss (r : Array Nat) (hs : r.size = 128) (cur n p : Nat)
    (h : ∀ d, 1 ≤ d → d ≤ n → (cur + d) % 128 ≠ p) :
    (clearBlocks r cur n).getD p 0 = r.getD p 0 := by
  induction n with
  | zero => rfl
  | succ n ih =>
    simp only [clearBlocks, and127]
    rw [getD_set _ _ _ _ (by rw [clear_size, hs]; omega)]
    have := h (n+1) (by omega) (by omega)
    simp only [this, if_false]
    exact ih (fun d a b => h d a (by omega))

/-- ring content describes S inside the 128 blocks ending at `last` -/
structure Bits (f : Filter) (S : List Nat) : Prop where
  size : f.ring.size = 128
  bits : ∀ id, id / 64 ≤ f.last / 64 → f.last / 64 - id / 64 < 128 →
          (f.ring.getD ((id / 64) % 128) 0).testBit (id % 64) = decide (id ∈ S)

structure Inv (f : Filter) (S : List Nat) : Prop extends Bits f S where
  empty : S = [] → f.last = 0
  mem : S ≠ [] → f.last ∈ S
  max : ∀ x ∈ S, x ≤ f.last

theorem inv_new : Inv Filter.new [] := by
  refine ⟨⟨by simp [Filter.new, ringBlocks_eq], ?_⟩, fun _ => rfl, fun h => absurd rfl h, by simp⟩
  intro id _ _
  have : (Filter.new.ring.getD ((id / 64) % 128) 0) = 0 := by
    simp only [Filter.new, Array.getD_eq_getD_getElem?]
    rw [Array.getElem?_replicate]
    split <;> rfl
  simp [this]

theorem mark_result (f : Filter) (S : List Nat) (id : Nat) (h : Bits f S)
    (h1 : id / 64 ≤ f.last / 64) (h2 : f.last / 64 - id / 64 < 128) :
    (f.mark id).2 = !decide (id ∈ S) := by
  simp only [Filter.mark, or_bit_ne, shr6, and127, and63, h.bits id h1 h2]

theorem mark_bits (f : Filter) (S : List Nat) (id : Nat) (h : Bits f S)
    (h1 : id / 64 ≤ f.last / 64) (h2 : f.last / 64 - id / 64 < 128) :
    Bits (f.mark id).1 (id :: S) ∧ (f.mark id).1.last = f.last := by
  refine ⟨⟨by simp [Filter.mark, h.size], ?_⟩, rfl⟩
  intro id' h1' h2'
  simp only [Filter.mark, shr6, and127, and63] at h1' h2' ⊢
  rw [getD_set _ _ _ _ (by rw [h.size]; omega)]
  by_cases hb : (id / 64) % 128 = (id' / 64) % 128
  · have hblk : id / 64 = id' / 64 := by omega
    rw [if_pos hb, testBit_or_bit, hb, h.bits id' h1' h2']
    by_cases hid : id = id'
    · subst hid; simp
    · have : ¬ (id % 64 = id' % 64) := by omega
      simp [this, Ne.symm hid]
  · rw [if_neg hb, h.bits id' h1' h2']
    have : id' ≠ id := by intro e; subst e; exact hb rfl
    simp [this]

theorem advance_bits (f : Filter) (S : List Nat) (id : Nat) (h : Inv f S) (hgt : id > f.last) :
    Bits (f.advance id) S ∧ (f.advance id).last = id := by
  refine ⟨⟨by simp [Filter.advance, clear_size, h.size], ?_⟩, rfl⟩
  intro id' h1 h2
  simp only [Filter.advance, shr6, ringBlocks_eq] at h1 h2 ⊢
  by_cases hold : id' / 64 ≤ f.last / 64
  · rw [clear_miss _ h.size]
    · exact h.bits id' hold (by omega)
    · intro d hd1 hd2
      split at hd2 <;> omega
  · have hnot : id' ∉ S := by
      intro hm; have := h.max id' hm
      have : id' / 64 ≤ f.last / 64 := Nat.div_le_div_right this
      exact hold this
    have hw : ∃ d, 1 ≤ d ∧ d ≤ (if id / 64 - f.last / 64 > 128 then 128 else id / 64 - f.last / 64)
        ∧ (f.last / 64 + d) % 128 = (id' / 64) % 128 := by
      refine ⟨(id' / 64 - f.last / 64 - 1) % 128 + 1, by omega, ?_, by omega⟩
      split <;> omega
    obtain ⟨d, hd1, hd2, hd3⟩ := hw
    rw [← hd3, clear_hit _ h.size _ _ d hd1 hd2]
    simp [hnot]

theorem step_refines (f : Filter) (S : List Nat) (id limit : Nat) (h : Inv f S) :
    (f.validate id limit).2 = (specStep S id limit).2 ∧
    Inv (f.validate id limit).1 (specStep S id limit).1 := by
  unfold Filter.validate
  by_cases hlim : id ≥ limit
  · have : specAccept S id limit = false := by simp [specAccept]; omega
    simp [hlim, specStep, this, h]
  rw [if_neg hlim]
  by_cases hgt : id > f.last
  · rw [if_pos hgt]
    obtain ⟨hb, hl⟩ := advance_bits f S id h hgt
    have hnot : id ∉ S := fun hm => by have := h.max id hm; omega
    have hacc : specAccept S id limit = true := by
      simp only [specAccept, Bool.and_eq_true, decide_eq_true_eq, Bool.not_eq_true',
        List.contains_eq_mem, decide_eq_false_iff_not, List.all_eq_true]
      exact ⟨⟨by omega, hnot⟩, fun x hx => by have := h.max x hx; omega⟩
    have hr := mark_result (f.advance id) S id hb (by rw [hl]; exact Nat.le_refl _) (by rw [hl]; omega)
    obtain ⟨hb', hl'⟩ := mark_bits (f.advance id) S id hb (by rw [hl]; exact Nat.le_refl _) (by rw [hl]; omega)
    simp only [specStep, hacc, if_true]
    refine ⟨by rw [hr]; simp [hnot], ⟨hb', by simp, fun _ => by rw [hl', hl]; simp, ?_⟩⟩
    intro x hx
    rw [hl', hl]
    cases hx with
    | head => exact Nat.le_refl _
    | tail _ hx => have := h.max x hx; omega
  rw [if_neg hgt, windowSize_eq]
  by_cases hbehind : f.last - id > 8128
  · rw [if_pos hbehind]
    have hne : S ≠ [] := fun he => by have := h.empty he; omega
    have : specAccept S id limit = false := by
      simp only [specAccept, Bool.and_eq_false_iff, decide_eq_false_iff_not]
      right
      apply Bool.eq_false_iff.mpr
      intro hall
      rw [List.all_eq_true] at hall
      have := hall _ (h.mem hne)
      simp at this; omega
    simp [specStep, this, h]
  rw [if_neg hbehind]
  have h1 : id / 64 ≤ f.last / 64 := Nat.div_le_div_right (by omega)
  have h2 : f.last / 64 - id / 64 < 128 := by omega
  have hr := mark_result f S id h.toBits h1 h2
  obtain ⟨hb', hl'⟩ := mark_bits f S id h.toBits h1 h2
  by_cases hin : id ∈ S
  · have : specAccept S id limit = false := by simp [specAccept, hin]
    simp only [specStep, this]
    refine ⟨by rw [hr]; simp [hin], ⟨⟨hb'.size, ?_⟩, by rw [hl']; exact h.empty, by rw [hl']; exact h.mem, by rw [hl']; exact h.max⟩⟩
    intro id' a b
    rw [hb'.bits id' a b]; simp only [List.mem_cons, decide_eq_decide]
    constructor
    · rintro (rfl | h') <;> assumption
    · exact Or.inr
  · have hacc : specAccept S id limit = true := by
      simp only [specAccept, Bool.and_eq_true, decide_eq_true_eq, Bool.not_eq_true',
        List.contains_eq_mem, decide_eq_false_iff_not, List.all_eq_true]
      exact ⟨⟨by omega, hin⟩, fun x hx => by have := h.max x hx; omega⟩
    simp only [specStep, hacc, if_true]
    refine ⟨by rw [hr]; simp [hin], ⟨hb', by simp, fun _ => ?_, ?_⟩⟩
    · rw [hl']
      by_cases hS : S = []
      · have := h.empty hS; have : id = f.last := by omega
        subst this; simp
      · exact List.mem_cons_of_mem _ (h.mem hS)
    · intro x hx; rw [hl']
      cases hx with
      | head => omega
      | tail _ hx => exact h.max x hx

end Octo.PW
