import Octo.Gen.PacketWindowGen
import Octo.Props.C11
/-!
  The generated code (`Octo.PWGen`, written by `translate_pw.py` from `packet_window.rs`) equals the
  hand-written model `Octo.PW` on the whole domain.

  Part 1: a small weakest-precondition calculus for the `Flow` outcomes of the generated code.
  Part 2: constants, the representation relation, and model-level lemmas phrased over `UInt64`.
  Part 3: one call of `validate_packet_id` (any overflow-check profile) refines `PW.Filter.validate`.
  Part 4: `new`, whole histories, and the C11 corollary `c11_generated_code_refines`.
-/
namespace Octo.PWGen

/-! ## Part 1 — postconditions of `Flow` programs (independent of the generated code) -/

/-- `x` does not panic; if it falls through the state satisfies `Qn`, if it returns the value satisfies `Qr` -/
def Flow.Post {σ ρ : Type} (x : Flow σ ρ) (Qn : σ → Prop) (Qr : ρ → Prop) : Prop :=
  match x with
  | .next s => Qn s
  | .ret r => Qr r
  | .panic => False

section wp
variable {σ ρ α β : Type}

theorem post_next (s : σ) (Qn : σ → Prop) (Qr : ρ → Prop) : (Flow.next s : Flow σ ρ).Post Qn Qr ↔ Qn s := Iff.rfl
theorem post_ret (r : ρ) (Qn : σ → Prop) (Qr : ρ → Prop) : (Flow.ret r : Flow σ ρ).Post Qn Qr ↔ Qr r := Iff.rfl
theorem post_panic (Qn : σ → Prop) (Qr : ρ → Prop) : (Flow.panic : Flow σ ρ).Post Qn Qr ↔ False := Iff.rfl

theorem post_bind (x : Flow α ρ) (k : α → Flow β ρ) (Qn : β → Prop) (Qr : ρ → Prop) :
    (x.bind k).Post Qn Qr ↔ x.Post (fun a => (k a).Post Qn Qr) Qr := by
  cases x <;> rfl

theorem post_mono {x : Flow σ ρ} {Q1 Q2 : σ → Prop} {Qr : ρ → Prop}
    (h : x.Post Q1 Qr) (himp : ∀ s, Q1 s → Q2 s) : x.Post Q2 Qr := by
  cases x with
  | next s => exact himp s h
  | ret r => exact h
  | panic => exact h

theorem post_ite (c : Prop) [Decidable c] (x y : Flow σ ρ) (Qn : σ → Prop) (Qr : ρ → Prop) :
    (if c then x else y).Post Qn Qr ↔ (c → x.Post Qn Qr) ∧ (¬ c → y.Post Qn Qr) := by
  split <;> simp [*]

theorem post_check (c : Bool) (Qn : Unit → Prop) (Qr : ρ → Prop) :
    (Flow.check c : Flow Unit ρ).Post Qn Qr ↔ c = true ∧ Qn () := by
  cases c <;> simp [Flow.check, Flow.Post]

theorem post_arith (ov c : Bool) (Qn : Unit → Prop) (Qr : ρ → Prop) :
    (Flow.arith ov c : Flow Unit ρ).Post Qn Qr ↔ (ov = true → c = true) ∧ Qn () := by
  cases ov <;> cases c <;> simp [Flow.arith, Flow.check, Flow.Post]

theorem post_index (a : Array UInt64) (i : Usize) (Qn : UInt64 → Prop) (Qr : ρ → Prop) :
    (Flow.index a i : Flow UInt64 ρ).Post Qn Qr ↔ i.toNat < a.size ∧ Qn (a.getD i.toNat 0) := by
  unfold Flow.index
  by_cases h : i.toNat < a.size
  · simp [h, Flow.Post, Array.getD_eq_getD_getElem?]
  · simp [h, Flow.Post]

theorem post_store (a : Array UInt64) (i : Usize) (v : UInt64) (Qn : Array UInt64 → Prop) (Qr : ρ → Prop) :
    (Flow.store a i v : Flow (Array UInt64) ρ).Post Qn Qr ↔ i.toNat < a.size ∧ Qn (a.setIfInBounds i.toNat v) := by
  unfold Flow.store
  by_cases h : i.toNat < a.size <;> simp [h, Flow.Post]

/-- loop rule: `I k` holds after `k` iterations -/
theorem post_iter (body : UInt64 → σ → Flow σ ρ) (lo : UInt64) (I : Nat → σ → Prop) (Qr : ρ → Prop)
    (n : Nat) (s : σ) (h0 : I 0 s)
    (hstep : ∀ k s, k < n → I k s → (body (lo + UInt64.ofNat k) s).Post (I (k + 1)) Qr) :
    (Flow.iter body lo n s).Post (I n) Qr := by
  induction n with
  | zero => exact h0
  | succ n ih =>
    rw [Flow.iter, post_bind]
    exact post_mono (ih (fun k s hk => hstep k s (by omega))) (fun s hs => hstep n s (by omega) hs)

theorem post_forIncl (lo hi : UInt64) (body : UInt64 → σ → Flow σ ρ) (s : σ)
    (I : Nat → σ → Prop) (Qn : σ → Prop) (Qr : ρ → Prop) (h0 : I 0 s)
    (hstep : ∀ k s, k < hi.toNat + 1 - lo.toNat → I k s →
      (body (lo + UInt64.ofNat k) s).Post (I (k + 1)) Qr)
    (hend : ∀ s, I (hi.toNat + 1 - lo.toNat) s → Qn s) :
    (Flow.forIncl lo hi body s).Post Qn Qr := by
  unfold Flow.forIncl
  split
  · rename_i hle
    have hle' : lo.toNat ≤ hi.toNat := UInt64.le_iff_toNat_le.mp hle
    have e : hi.toNat - lo.toNat + 1 = hi.toNat + 1 - lo.toNat := by omega
    rw [e]
    exact post_mono (post_iter body lo I Qr _ s h0 hstep) hend
  · rename_i hle
    have hle' : ¬ lo.toNat ≤ hi.toNat := fun h => hle (UInt64.le_iff_toNat_le.mpr h)
    have e : hi.toNat + 1 - lo.toNat = 0 := by omega
    rw [e] at hend
    exact hend s h0

theorem post_forExcl (lo hi : UInt64) (body : UInt64 → σ → Flow σ ρ) (s : σ)
    (I : Nat → σ → Prop) (Qn : σ → Prop) (Qr : ρ → Prop) (h0 : I 0 s)
    (hstep : ∀ k s, k < hi.toNat - lo.toNat → I k s →
      (body (lo + UInt64.ofNat k) s).Post (I (k + 1)) Qr)
    (hend : ∀ s, I (hi.toNat - lo.toNat) s → Qn s) :
    (Flow.forExcl lo hi body s).Post Qn Qr :=
  post_mono (post_iter body lo I Qr _ s h0 hstep) hend

/-- a function body whose postcondition is `Q` returns a value satisfying `Q` (and does not panic) -/
theorem run_of_post (x : Flow Empty ρ) (Q : ρ → Prop) (h : x.Post (fun _ => False) Q) :
    ∃ r, Flow.run x = Res.ok r ∧ Q r := by
  cases x with
  | next e => exact nomatch e
  | ret r => exact ⟨r, rfl, h⟩
  | panic => exact h.elim

end wp

open Octo

/-! ## Part 2 — the constants -/
theorem BLOCK_BIT_LOG_toNat : BLOCK_BIT_LOG.toNat = Consts.blockBitLog := by decide
theorem BLOCK_BITS_toNat : BLOCK_BITS.toNat = PW.blockBits := by decide
theorem RING_BLOCKS_toNat : RING_BLOCKS.toNat = PW.ringBlocks := by decide
theorem WINDOW_SIZE_toNat : WINDOW_SIZE.toNat = PW.windowSize := by decide
theorem BLOCK_MASK_toNat : BLOCK_MASK.toNat = PW.blockMask := by decide
theorem BIT_MASK_toNat : BIT_MASK.toNat = PW.bitMask := by decide
theorem packet_ring_LEN_toNat : PacketWindowFilter.packet_ring_LEN.toNat = PW.ringBlocks := by decide

structure Rep (g : PacketWindowFilter) (f : PW.Filter) : Prop where
  last : g.last_packet_id.toNat = f.last
  size : g.packet_ring.size = PW.ringBlocks
  ring : f.ring = g.packet_ring.map UInt64.toNat

theorem getD_map_toNat (a : Array UInt64) (i : Nat) : (a.map UInt64.toNat).getD i 0 = (a.getD i 0).toNat := by
  simp only [Array.getD_eq_getD_getElem?, Array.getElem?_map]
  cases a[i]? <;> rfl

theorem u64_bne (a b : UInt64) : (a != b) = (a.toNat != b.toNat) := by
  rw [Bool.eq_iff_iff]
  simp only [bne_iff_ne, ne_eq, UInt64.toNat_inj]

/-- block index of an id, as the generated code computes it -/
theorem block_index (x : UInt64) :
    (U64.as_usize (x >>> BLOCK_BIT_LOG &&& BLOCK_MASK)).toNat = (x.toNat >>> Consts.blockBitLog) &&& PW.blockMask := by
  rw [U64.as_usize, UInt64.toNat_and, UInt64.toNat_shiftRight, BLOCK_MASK_toNat, BLOCK_BIT_LOG_toNat]
  rfl

theorem bit_index (x : UInt64) : (x &&& BIT_MASK).toNat = x.toNat &&& PW.bitMask := by
  rw [UInt64.toNat_and, BIT_MASK_toNat]

theorem bit_index_lt (x : UInt64) : (x &&& BIT_MASK).toNat < 64 := by
  rw [bit_index, PW.and63]; omega

theorem one_shl (x : UInt64) : ((1 : UInt64) <<< (x &&& BIT_MASK)).toNat = 1 <<< (x.toNat &&& PW.bitMask) := by
  have h := bit_index_lt x
  have h1 : (1 : UInt64).toNat = 1 := rfl
  rw [UInt64.toNat_shiftLeft, Nat.mod_eq_of_lt h, bit_index, h1] at *
  rw [Nat.one_shiftLeft]
  apply Nat.mod_eq_of_lt
  exact Nat.pow_lt_pow_right (by omega) h

/-- "Check and set bit", on any generated state that represents `f` -/
theorem mark_refines (l : UInt64) (r : Array UInt64) (f : PW.Filter) (x : UInt64) (h : Rep ⟨l, r⟩ f) :
    (U64.as_usize (x >>> BLOCK_BIT_LOG &&& BLOCK_MASK)).toNat < r.size ∧
    U64.shiftOk (x &&& BIT_MASK) = true ∧
    (r.getD (U64.as_usize (x >>> BLOCK_BIT_LOG &&& BLOCK_MASK)).toNat 0 !=
        r.getD (U64.as_usize (x >>> BLOCK_BIT_LOG &&& BLOCK_MASK)).toNat 0 ||| 1 <<< (x &&& BIT_MASK))
      = (f.mark x.toNat).2 ∧
    Rep ⟨l, r.setIfInBounds (U64.as_usize (x >>> BLOCK_BIT_LOG &&& BLOCK_MASK)).toNat
          (r.getD (U64.as_usize (x >>> BLOCK_BIT_LOG &&& BLOCK_MASK)).toNat 0 ||| 1 <<< (x &&& BIT_MASK))⟩
      (f.mark x.toNat).1 := by
  have hsz : r.size = 128 := by rw [← PW.ringBlocks_eq]; exact h.size
  have hr : f.ring = r.map UInt64.toNat := h.ring
  refine ⟨?_, ?_, ?_, ⟨h.last, ?_, ?_⟩⟩
  · rw [block_index, PW.and127, hsz]; omega
  · have := bit_index_lt x
    simp only [U64.shiftOk, decide_eq_true_eq]; exact this
  · simp only [PW.Filter.mark, u64_bne, UInt64.toNat_or, one_shl, block_index, hr, getD_map_toNat]
  · simp only [Array.size_setIfInBounds]; exact h.size
  · simp only [PW.Filter.mark, Array.map_setIfInBounds, UInt64.toNat_or, one_shl, block_index, hr, getD_map_toNat]

theorem loop_var (k : Nat) (hk : k < 2 ^ 63) : ((1 : UInt64) + UInt64.ofNat k).toNat = k + 1 := by
  have h1 : (1 : UInt64).toNat = 1 := rfl
  rw [UInt64.toNat_add, UInt64.toNat_ofNat', h1]
  omega

/-- one iteration of the clearing loop -/
theorem clear_step (cur : UInt64) (hc : cur.toNat < 2 ^ 58) (k : Nat) (hk : k < 128) (r : Array UInt64)
    (hs : r.size = 128) :
    U64.addOk cur (1 + UInt64.ofNat k) = true ∧
    (U64.as_usize (cur + (1 + UInt64.ofNat k) &&& BLOCK_MASK)).toNat < r.size ∧
    (r.setIfInBounds (U64.as_usize (cur + (1 + UInt64.ofNat k) &&& BLOCK_MASK)).toNat 0).map UInt64.toNat
      = (r.map UInt64.toNat).setIfInBounds ((cur.toNat + (k + 1)) &&& PW.blockMask) 0 := by
  have hd := loop_var k (by omega)
  have hidx : (U64.as_usize (cur + (1 + UInt64.ofNat k) &&& BLOCK_MASK)).toNat
      = (cur.toNat + (k + 1)) &&& PW.blockMask := by
    rw [U64.as_usize, UInt64.toNat_and, UInt64.toNat_add, hd, BLOCK_MASK_toNat, Nat.mod_eq_of_lt (by omega)]
  refine ⟨?_, ?_, ?_⟩
  · simp only [U64.addOk, decide_eq_true_eq, hd]; omega
  · rw [hidx, PW.and127, hs]; omega
  · rw [hidx, Array.map_setIfInBounds]; rfl

theorem shr_toNat (x : UInt64) : (x >>> BLOCK_BIT_LOG).toNat = x.toNat >>> Consts.blockBitLog := by
  rw [UInt64.toNat_shiftRight, BLOCK_BIT_LOG_toNat]; rfl

theorem shr_lt (x : UInt64) : (x >>> BLOCK_BIT_LOG).toNat < 2 ^ 58 := by
  have := UInt64.toNat_lt x
  rw [shr_toNat, PW.shr6]; omega

theorem ite_next {σ ρ : Type} (c : Prop) [Decidable c] (a b : σ) :
    (if c then (Flow.next a : Flow σ ρ) else Flow.next b) = Flow.next (if c then a else b) := by
  split <;> rfl

/-- symbolic execution of a `Flow` program against a postcondition, using the given facts to decide tests -/
macro "wp_simp" "[" ts:Lean.Parser.Tactic.simpLemma,* "]" : tactic =>
  `(tactic| simp only [ite_next, post_bind, post_ite, post_next, post_ret, post_panic, post_arith, post_check,
      post_index, post_store, decide_eq_true_eq, true_imp_iff, false_imp_iff, not_true_eq_false,
      not_false_eq_true, implies_true, and_true, true_and, and_self, $ts,*])

/-- the clamped block distance `diff` -/
theorem clamp_toNat (a b : UInt64) (hba : b.toNat ≤ a.toNat) :
    (if a - b > RING_BLOCKS then RING_BLOCKS else a - b).toNat
      = (if a.toNat - b.toNat > PW.ringBlocks then PW.ringBlocks else a.toNat - b.toNat) := by
  have hs : (a - b).toNat = a.toNat - b.toNat := UInt64.toNat_sub_of_le _ _ (UInt64.le_iff_toNat_le.mpr hba)
  simp only [apply_ite UInt64.toNat, gt_iff_lt, UInt64.lt_iff_toNat_lt, hs, RING_BLOCKS_toNat]

/-- the clearing loop, for any loop body that behaves like one `clearBlocks` step -/
theorem clear_loop {ρ : Type} (Qr : ρ → Prop)
    (body : UInt64 → PacketWindowFilter → Flow PacketWindowFilter ρ) (cur N : UInt64) (g : PacketWindowFilter)
    (hN : N.toNat ≤ 128) (hs : g.packet_ring.size = 128)
    (hbody : ∀ k s, k < 128 → s.packet_ring.size = 128 →
      (body (1 + UInt64.ofNat k) s).Post (fun s' => s'.last_packet_id = s.last_packet_id ∧
        s'.packet_ring.size = 128 ∧
        s'.packet_ring.map UInt64.toNat
          = (s.packet_ring.map UInt64.toNat).setIfInBounds ((cur.toNat + (k + 1)) &&& PW.blockMask) 0) Qr) :
    (Flow.forIncl 1 N body g).Post (fun s => s.last_packet_id = g.last_packet_id ∧
        s.packet_ring.size = 128 ∧
        s.packet_ring.map UInt64.toNat = PW.clearBlocks (g.packet_ring.map UInt64.toNat) cur.toNat N.toNat) Qr := by
  have h1 : (1 : UInt64).toNat = 1 := rfl
  apply post_forIncl 1 N body g (fun k s => s.last_packet_id = g.last_packet_id ∧
        s.packet_ring.size = 128 ∧
        s.packet_ring.map UInt64.toNat = PW.clearBlocks (g.packet_ring.map UInt64.toNat) cur.toNat k)
  · exact ⟨rfl, hs, rfl⟩
  · intro k s hk ⟨hl, hsz, hr⟩
    rw [h1] at hk
    refine post_mono (hbody k s (by omega) hsz) ?_
    intro s' ⟨hl', hsz', hr'⟩
    refine ⟨hl'.trans hl, hsz', ?_⟩
    rw [hr', hr]; rfl
  · intro s hI
    rw [h1] at hI
    exact hI

/-! ## Part 3 — one call of the generated `validate_packet_id` against the model -/

set_option linter.unusedSimpArgs false in
/-- Symbolic execution of the generated function along the four paths of the model.  The generated
text is only touched through `wp_simp` (which executes whatever statements are there) and the
model-level lemmas `mark_refines`, `clear_loop`/`clear_step`, `clamp_toNat`. -/
theorem validate_post (ov : Bool) (g : PacketWindowFilter) (f : PW.Filter) (id limit : UInt64) (h : Rep g f) :
    ∃ r, g.validate_packet_id ov id limit = Res.ok r ∧
      (r.2 = (f.validate id.toNat limit.toNat).2 ∧ Rep r.1 (f.validate id.toNat limit.toNat).1) := by
  unfold PacketWindowFilter.validate_packet_id
  apply run_of_post
  have hsz : g.packet_ring.size = 128 := by rw [← PW.ringBlocks_eq]; exact h.size
  by_cases hlim : id ≥ limit
  · have hlim' : id.toNat ≥ limit.toNat := UInt64.le_iff_toNat_le.mp hlim
    wp_simp [hlim]
    simp [PW.Filter.validate, hlim', h]
  have hlim' : ¬ id.toNat ≥ limit.toNat := fun h => hlim (UInt64.le_iff_toNat_le.mpr h)
  have hsh : U64.shiftOk BLOCK_BIT_LOG = true := by decide
  by_cases hgt : id > g.last_packet_id
  · have hgt' : id.toNat > f.last := by rw [← h.last]; exact UInt64.lt_iff_toNat_lt.mp hgt
    have hblk : (g.last_packet_id >>> BLOCK_BIT_LOG).toNat ≤ (id >>> BLOCK_BIT_LOG).toNat := by
      rw [shr_toNat, shr_toNat, PW.shr6, PW.shr6, h.last]; omega
    have hsub : U64.subOk (id >>> BLOCK_BIT_LOG) (g.last_packet_id >>> BLOCK_BIT_LOG) = true := by
      simp only [U64.subOk, decide_eq_true_eq]; exact hblk
    have hclamp := clamp_toNat _ _ hblk
    wp_simp [hlim, hgt, hsh, hsub]
    refine post_mono (clear_loop _ _ (g.last_packet_id >>> BLOCK_BIT_LOG) _ _ ?_ hsz ?_) ?_
    · rw [hclamp, PW.ringBlocks_eq]; split <;> omega
    · intro k s hk hs
      obtain ⟨c1, c2, c3⟩ := clear_step (g.last_packet_id >>> BLOCK_BIT_LOG) (shr_lt _) k hk s.packet_ring hs
      rw [hs] at c2
      wp_simp [c1, c2, c3, Array.size_setIfInBounds, hs]
    · intro s ⟨hl, hs, hr⟩
      have hrep : Rep ⟨id, s.packet_ring⟩ (f.advance id.toNat) := by
        refine ⟨rfl, by rw [PW.ringBlocks_eq]; exact hs, ?_⟩
        rw [hr, hclamp, shr_toNat, shr_toNat, h.last, ← h.ring]; rfl
      have hm := mark_refines id s.packet_ring (f.advance id.toNat) id hrep
      simp only [PW.Filter.validate, hlim', hgt', if_false, if_true]
      simp only [hl, hm.1, hm.2.1, hm.2.2.1, hm.2.2.2, implies_true, and_self]
  have hgt' : ¬ id.toNat > f.last := by rw [← h.last]; exact fun h => hgt (UInt64.lt_iff_toNat_lt.mpr h)
  have hsub : U64.subOk g.last_packet_id id = true := by
    simp only [U64.subOk, decide_eq_true_eq, h.last]; omega
  have hsubv : (g.last_packet_id - id).toNat = f.last - id.toNat := by
    rw [UInt64.toNat_sub_of_le _ _ (UInt64.le_iff_toNat_le.mpr (by rw [h.last]; omega)), h.last]
  by_cases hbehind : g.last_packet_id - id > WINDOW_SIZE
  · have hb' : f.last - id.toNat > PW.windowSize := by
      rw [← hsubv, ← WINDOW_SIZE_toNat]; exact UInt64.lt_iff_toNat_lt.mp hbehind
    wp_simp [hlim, hgt, hsh, hsub, hbehind]
    simp [PW.Filter.validate, hlim', hgt', hb', h]
  · have hb' : ¬ f.last - id.toNat > PW.windowSize := by
      rw [← hsubv, ← WINDOW_SIZE_toNat]; exact fun h => hbehind (UInt64.lt_iff_toNat_lt.mpr h)
    wp_simp [hlim, hgt, hsh, hsub, hbehind]
    have hm := mark_refines g.last_packet_id g.packet_ring f id h
    simp only [PW.Filter.validate, hlim', hgt', hb', if_false]
    simp only [hm.1, hm.2.1, hm.2.2.1, hm.2.2.2, implies_true, and_self]

/-- **one step**: on every state that represents a model state, for every `u64` id and limit and in
both build profiles (`ov = true`: overflow checks on), the generated `validate_packet_id` does not
panic — so no `u64` operation wraps and no index is out of bounds — returns the model's answer, and
its new state represents the model's new state. -/
theorem gen_validate_refines (ov : Bool) (g : PacketWindowFilter) (f : PW.Filter) (id limit : UInt64)
    (h : Rep g f) :
    ∃ g', g.validate_packet_id ov id limit = Res.ok (g', (f.validate id.toNat limit.toNat).2) ∧
      Rep g' (f.validate id.toNat limit.toNat).1 := by
  obtain ⟨⟨g', r⟩, h1, h2, h3⟩ := validate_post ov g f id limit h
  exact ⟨g', by rw [h1]; simp only at h2; rw [h2], h3⟩

/-- the same with ids and limit given as natural numbers below `2^64` -/
theorem gen_validate_refines_nat (ov : Bool) (g : PacketWindowFilter) (f : PW.Filter) (id limit : Nat)
    (h : Rep g f) (hid : id < 2 ^ 64) (hlimit : limit < 2 ^ 64) :
    ∃ g', g.validate_packet_id ov (UInt64.ofNat id) (UInt64.ofNat limit) = Res.ok (g', (f.validate id limit).2) ∧
      Rep g' (f.validate id limit).1 := by
  have := gen_validate_refines ov g f (UInt64.ofNat id) (UInt64.ofNat limit) h
  rwa [UInt64.toNat_ofNat_of_lt' hid, UInt64.toNat_ofNat_of_lt' hlimit] at this

/-! ## Part 4 — `new`, histories -/

theorem new_rep (ov : Bool) : ∃ g, PacketWindowFilter.new ov = Res.ok g ∧ Rep g PW.Filter.new := by
  refine ⟨_, rfl, rfl, ?_, ?_⟩
  · simp only [Array.size_replicate, U64.as_usize, RING_BLOCKS_toNat]
  · simp only [PW.Filter.new, Array.map_replicate, U64.as_usize, RING_BLOCKS_toNat]; rfl

/-- the hypothesis `Rep g f` of `gen_validate_refines` is satisfiable: the initial states, and hence (by the
theorem itself) every state reached from them -/
example : ∃ g, Rep g PW.Filter.new := (new_rep true).elim fun g h => ⟨g, h.2⟩

/-- a concrete step: id 5 on the fresh filter, limit 100, overflow checks on — accepted, word 0 becomes `2^5` -/
example : (PacketWindowFilter.new true) = Res.ok ⟨0, Array.replicate 128 0⟩ ∧
    (PacketWindowFilter.validate_packet_id true ⟨0, Array.replicate 128 0⟩ 5 100)
      = Res.ok (⟨5, (Array.replicate 128 0).setIfInBounds 0 32⟩, true) := by
  decide +kernel

/-- `reset` (not part of the hand model) never panics on a well-formed state: it zeroes `last` and word 0 -/
theorem reset_ok (ov : Bool) (g : PacketWindowFilter) (h : g.WF) :
    ∃ r, g.reset ov = Res.ok r ∧ r = (⟨0, g.packet_ring.setIfInBounds 0 0⟩, ()) := by
  unfold PacketWindowFilter.reset
  apply run_of_post
  have h0 : (0 : Usize).toNat < g.packet_ring.size := by
    rw [h, PacketWindowFilter.packet_ring_LEN_eval]; decide
  wp_simp [h0]
  rfl

/-- a represented state satisfies the length constraints of the Rust struct type -/
theorem Rep.wf {g : PacketWindowFilter} {f : PW.Filter} (h : Rep g f) : g.WF := by
  unfold PacketWindowFilter.WF; rw [packet_ring_LEN_toNat]; exact h.size

/-- every ring word of a represented model state is a `u64` -/
theorem Rep.word_lt {g : PacketWindowFilter} {f : PW.Filter} (h : Rep g f) (i : Nat) :
    f.ring.getD i 0 < 2 ^ 64 := by
  rw [h.ring, getD_map_toNat]; exact UInt64.toNat_lt _

/-- the generated filter run over a history of ids; `panic` as soon as one call panics -/
def runGen (ov : Bool) (limit : UInt64) : PacketWindowFilter → List UInt64 → Res (List Bool)
  | _, [] => .ok []
  | g, id :: ids =>
    match g.validate_packet_id ov id limit with
    | .ok (g', r) =>
      match runGen ov limit g' ids with
      | .ok rs => .ok (r :: rs)
      | .panic => .panic
    | .panic => .panic

/-- … starting from `PacketWindowFilter::new()` -/
def runGenNew (ov : Bool) (limit : UInt64) (ids : List UInt64) : Res (List Bool) :=
  match PacketWindowFilter.new ov with
  | .ok g => runGen ov limit g ids
  | .panic => .panic

theorem runGen_refines (ov : Bool) (limit : UInt64) (ids : List UInt64) :
    ∀ (g : PacketWindowFilter) (f : PW.Filter), Rep g f →
      runGen ov limit g ids = Res.ok (PW.runImpl limit.toNat f (ids.map UInt64.toNat)) := by
  induction ids with
  | nil => intros; rfl
  | cons id ids ih =>
    intro g f h
    obtain ⟨g', h1, h2⟩ := gen_validate_refines ov g f id limit h
    simp only [runGen, h1, ih g' _ h2, List.map_cons, PW.runImpl]

theorem runGenNew_refines (ov : Bool) (limit : UInt64) (ids : List UInt64) :
    runGenNew ov limit ids = Res.ok (PW.runImpl limit.toNat PW.Filter.new (ids.map UInt64.toNat)) := by
  obtain ⟨g, h1, h2⟩ := new_rep ov
  simp only [runGenNew, h1, runGen_refines ov limit ids g _ h2]

theorem map_toNat_ofNat (ids : List Nat) (hids : ∀ x ∈ ids, x < 2 ^ 64) :
    (ids.map UInt64.ofNat).map UInt64.toNat = ids := by
  induction ids with
  | nil => rfl
  | cons a l ih =>
    rw [List.map_cons, List.map_cons, UInt64.toNat_ofNat_of_lt' (hids a (List.mem_cons_self ..)),
      ih (fun x hx => hids x (List.mem_cons_of_mem _ hx))]

end Octo.PWGen
