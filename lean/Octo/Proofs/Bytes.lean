import Octo.Base.Res
/-! Helper lemmas about big-endian codecs and `Buf` reads. -/
namespace Octo

@[simp] theorem u8_toNat (n : Nat) : (u8 n).toNat = n % 256 := by
  simp [u8, UInt8.toNat_ofNat']

theorem u8_toNat_lt (n : Nat) (h : n < 256) : (u8 n).toNat = n := by
  rw [u8_toNat]; omega

@[simp] theorem be16_length (n : Nat) : (be16 n).length = 2 := rfl
@[simp] theorem be32_length (n : Nat) : (be32 n).length = 4 := rfl
@[simp] theorem be64_length (n : Nat) : (be64 n).length = 8 := rfl

theorem rdBE_be16 (n : Nat) (h : n < 65536) : rdBE (be16 n) = n := by
  simp only [be16, rdBE, List.foldl, u8_toNat]; omega

theorem rdBE_be32 (n : Nat) (h : n < 4294967296) : rdBE (be32 n) = n := by
  simp only [be32, rdBE, List.foldl, u8_toNat]; omega

theorem rdBE_be64 (n : Nat) (h : n < 18446744073709551616) : rdBE (be64 n) = n := by
  simp only [be64, be32, rdBE, List.foldl, List.cons_append, List.nil_append, u8_toNat]; omega

namespace Buf

theorem take_append (a t : Bytes) : take a.length (a ++ t) = .ok (a, t) := by
  simp [take]

theorem take_append' (n : Nat) (a t : Bytes) (h : a.length = n) : take n (a ++ t) = .ok (a, t) := by
  subst h; exact take_append a t

theorem getU8_cons (x : UInt8) (t : Bytes) : getU8 (x :: t) = .ok (x, t) := rfl

theorem getBE_append (n : Nat) (a t : Bytes) (h : a.length = n) : getBE n (a ++ t) = .ok (rdBE a, t) := by
  subst h
  simp [getBE]

theorem getU16_be16 (n : Nat) (t : Bytes) (h : n < 65536) : getU16 (be16 n ++ t) = .ok (n, t) := by
  rw [getU16, getBE_append 2 _ _ (be16_length n), rdBE_be16 n h]

theorem getU32_be32 (n : Nat) (t : Bytes) (h : n < 4294967296) : getU32 (be32 n ++ t) = .ok (n, t) := by
  rw [getU32, getBE_append 4 _ _ (be32_length n), rdBE_be32 n h]

theorem getU64_be64 (n : Nat) (t : Bytes) (h : n < 18446744073709551616) : getU64 (be64 n ++ t) = .ok (n, t) := by
  rw [getU64, getBE_append 8 _ _ (be64_length n), rdBE_be64 n h]

end Buf
end Octo
