import Octo.Model.System
/-
  Two hops in a row, every schedule: the client's pumps, the server's pumps and the link between
  them are polled in an arbitrary order (`Act`).  Scenario of C01's last sentence: the application
  keeps its side open, the target answers and closes.  Then whatever the application has received
  is a prefix of the answer, and it sees end-of-stream only after the complete answer.
-/
namespace Octo.System
open Octo.Pump

inductive Act where
  | cUp | cDown | sUp | sDown | link
deriving Repr, DecidableEq

def Chain.act (c : Chain) : Act → Chain
  | .cUp => { c with client := c.client.step .up }
  | .cDown => { c with client := c.client.step .down }
  | .sUp => { c with server := c.server.step .up }
  | .sDown => { c with server := c.server.step .down }
  | .link => link c

def Chain.runActs (c : Chain) (s : List Act) : Chain := s.foldl Chain.act c

def isItem : Src → Bool
  | .item _ => true
  | _ => false

def pureItems (l : List Src) : Bool := l.all isItem
def noFail (l : List Src) : Bool := l.all (fun s => s != .fail)

theorem pureItems_map (xs : List Bytes) : pureItems (xs.map Src.item) = true := by
  induction xs with
  | nil => rfl
  | cons x r ih => simpa [pureItems, isItem] using ih

theorem noFail_map (xs : List Bytes) : noFail (xs.map Src.item) = true := by
  induction xs with
  | nil => rfl
  | cons x r ih => simpa [noFail] using ih

theorem pureItems_append (a b : List Src) : pureItems (a ++ b) = (pureItems a && pureItems b) := by
  simp [pureItems]

theorem noFail_append (a b : List Src) : noFail (a ++ b) = (noFail a && noFail b) := by
  simp [noFail]

theorem itemsBeforeEnd_pure_append (l : List Src) (xs : List Bytes) (tail : List Src) (h : pureItems l = true) :
    itemsBeforeEnd (l ++ xs.map Src.item ++ tail) = itemsBeforeEnd l ++ xs ++ itemsBeforeEnd tail := by
  induction l with
  | nil =>
    simp only [List.nil_append, itemsBeforeEnd]
    induction xs with
    | nil => simp [itemsBeforeEnd]
    | cons x r ih => simp [itemsBeforeEnd, ih]
  | cons s r ih =>
    cases s with
    | item b =>
      have hr : pureItems r = true := by simpa [pureItems, isItem] using h
      have := ih hr
      simp only [List.cons_append, itemsBeforeEnd, List.append_assoc] at this ⊢
      rw [this]
    | eof => simp [pureItems, isItem] at h
    | fail => simp [pureItems, isItem] at h

/-- one direction on its own: facts preserved by a poll -/
theorem Dir.step_frozen (d : Dir) (h : d.returned = true) : d.step = d := by
  unfold Dir.step; simp [h]

/-- the invariant of the scenario "application stays open, target answers `ans` and closes" -/
structure Inv (ans : List Bytes) (c : Chain) : Prop where
  cu_open : c.client.up.returned = false ∧ c.client.up.sinkClosed = false
  cu_pure : pureItems c.client.up.script = true
  ctd : c.client.tornDown = true → c.client.down.sinkClosed = true
  cd_ret : c.client.down.returned = true → c.client.down.sinkClosed = true
  cd_nofail : noFail c.client.down.script = true
  cd_end : (pureItems c.client.down.script = false ∨ c.client.down.sinkClosed = true) → c.downEnd = true
  dn_end : c.downEnd = true → c.server.down.sinkClosed = true ∧ c.downSent = c.server.down.delivered.length
  up_end : c.upEnd = true → c.client.tornDown = true
  su_nofail : noFail c.server.up.script = true
  su_end : (pureItems c.server.up.script = false ∨ c.server.up.returned = true) → c.upEnd = true
  sd_ret : c.server.down.returned = true → c.server.down.sinkClosed = true
  sd_closed : c.server.down.sinkClosed = true → c.server.down.returned = true
  sd_nofail : noFail c.server.down.script = true
  std : c.server.tornDown = true → c.server.up.returned = true ∨ c.server.down.returned = true
  sd_live : c.server.down.returned = false → c.server.down.delivered ++ itemsBeforeEnd c.server.down.script = ans
  sd_done : c.server.down.sinkClosed = true → c.server.down.delivered = ans
  sd_good : ∃ t, c.server.down.delivered ++ t = ans
  sent_le : c.downSent ≤ c.server.down.delivered.length
  cd_live : c.client.down.returned = false →
    c.client.down.delivered ++ itemsBeforeEnd c.client.down.script = c.server.down.delivered.take c.downSent
  cd_done : c.client.down.sinkClosed = true → c.client.down.delivered = ans
  cd_good : ∃ t, c.client.down.delivered ++ t = ans
  cd_closed : c.client.down.sinkClosed = true → c.client.down.returned = true

theorem Inv.server_torn {ans : List Bytes} {c : Chain} (h : Inv ans c) (ht : c.server.tornDown = true) :
    c.server.down.sinkClosed = true := by
  rcases h.std ht with hu | hd
  · exact (h.dn_end (h.cd_end (Or.inr (h.ctd (h.up_end (h.su_end (Or.inr hu))))))).1
  · exact h.sd_ret hd

end Octo.System

namespace Octo.System
open Octo.Pump

theorem link_inv (ans : List Bytes) (c : Chain) (h : Inv ans c) : Inv ans (link c) := by
  have hst : c.server.tornDown = true → c.server.down.sinkClosed = true := h.server_torn
  have e1 : (link c).client.up = c.client.up := rfl
  have e2 : (link c).client.tornDown = c.client.tornDown := rfl
  have e3 : (link c).server.down = c.server.down := rfl
  have e4 : (link c).server.tornDown = c.server.tornDown := rfl
  have e5 : (link c).server.up.returned = c.server.up.returned := rfl
  have e6 : (link c).client.down.returned = c.client.down.returned := rfl
  have e7 : (link c).client.down.sinkClosed = c.client.down.sinkClosed := rfl
  have e8 : (link c).client.down.delivered = c.client.down.delivered := rfl
  have e9 : (link c).downSent = c.server.down.delivered.length := rfl
  have eU : (link c).upEnd = (c.upEnd || (!c.upEnd && (c.client.up.sinkClosed || c.client.tornDown))) := rfl
  have eD : (link c).downEnd = (c.downEnd || (!c.downEnd && (c.server.down.sinkClosed || c.server.tornDown))) := rfl
  have sU : (link c).server.up.script = c.server.up.script ++ (c.client.up.delivered.drop c.upSent).map Src.item ++
      (if (!c.upEnd && (c.client.up.sinkClosed || c.client.tornDown)) = true then [Src.eof] else []) := rfl
  have sD : (link c).client.down.script = c.client.down.script ++ (c.server.down.delivered.drop c.downSent).map Src.item ++
      (if (!c.downEnd && (c.server.down.sinkClosed || c.server.tornDown)) = true then [Src.eof] else []) := rfl
  have hUend : (link c).upEnd = true → c.client.tornDown = true := by
    rw [eU]; intro hu
    by_cases h1 : c.upEnd = true
    · exact h.up_end h1
    · simp [h1, h.cu_open.2] at hu; exact hu
  have hDend : (link c).downEnd = true → c.server.down.sinkClosed = true := by
    rw [eD]; intro hd
    by_cases h1 : c.downEnd = true
    · exact (h.dn_end h1).1
    · simp only [h1, Bool.false_or, Bool.not_false, Bool.true_and, Bool.or_eq_true] at hd
      rcases hd with hd | hd
      · exact hd
      · exact hst hd
  refine ⟨by rw [e1]; exact h.cu_open, by rw [e1]; exact h.cu_pure, by rw [e2, e7]; exact h.ctd, by rw [e6, e7]; exact h.cd_ret,
    ?cdnf, ?cdend, ?dnend, by rw [e2]; exact hUend, ?sunf, ?suend, by rw [e3]; exact h.sd_ret, by rw [e3]; exact h.sd_closed,
    by rw [e3]; exact h.sd_nofail, by rw [e4, e5, e3]; exact h.std, by rw [e3]; exact h.sd_live, by rw [e3]; exact h.sd_done,
    by rw [e3]; exact h.sd_good, by rw [e9, e3]; exact Nat.le_refl _, ?cdlive, by rw [e7, e8]; exact h.cd_done, by rw [e8]; exact h.cd_good,
    by rw [e7, e6]; exact h.cd_closed⟩
  case cdnf =>
    rw [sD, noFail_append, noFail_append, h.cd_nofail, noFail_map]
    split <;> simp [noFail]
  case sunf =>
    rw [sU, noFail_append, noFail_append, h.su_nofail, noFail_map]
    split <;> simp [noFail]
  case dnend =>
    intro hd
    exact ⟨by rw [e3]; exact hDend hd, by rw [e9, e3]⟩
  case cdend =>
    rw [e7, sD, eD]
    intro hh
    by_cases h1 : c.downEnd = true
    · simp [h1]
    · rcases hh with hh | hh
      · have hp : pureItems c.client.down.script = true := by
          cases hq : pureItems c.client.down.script with
          | true => rfl
          | false => exact absurd (h.cd_end (Or.inl hq)) h1
        rw [pureItems_append, pureItems_append, hp, pureItems_map] at hh
        by_cases h2 : (!c.downEnd && (c.server.down.sinkClosed || c.server.tornDown)) = true
        · simp [h2]
        · simp [h2, pureItems] at hh
      · exact absurd (h.cd_end (Or.inr hh)) h1
  case suend =>
    rw [e5, sU, eU]
    intro hh
    by_cases h1 : c.upEnd = true
    · simp [h1]
    · rcases hh with hh | hh
      · have hp : pureItems c.server.up.script = true := by
          cases hq : pureItems c.server.up.script with
          | true => rfl
          | false => exact absurd (h.su_end (Or.inl hq)) h1
        rw [pureItems_append, pureItems_append, hp, pureItems_map] at hh
        by_cases h2 : (!c.upEnd && (c.client.up.sinkClosed || c.client.tornDown)) = true
        · simp [h2]
        · simp [h2, pureItems] at hh
      · exact absurd (h.su_end (Or.inr hh)) h1
  case cdlive =>
    rw [e6, e8, e9, e3, sD]
    intro hr
    have hold := h.cd_live hr
    by_cases h1 : c.downEnd = true
    · obtain ⟨_, hsent⟩ := h.dn_end h1
      have hnew : List.drop c.downSent c.server.down.delivered = [] := by rw [hsent]; simp
      simp only [hnew, h1, List.map_nil, List.append_nil, Bool.not_true, Bool.false_and, Bool.false_eq_true, if_false]
      rw [hold, hsent]
    · have hp : pureItems c.client.down.script = true := by
        cases hq : pureItems c.client.down.script with
        | true => rfl
        | false => exact absurd (h.cd_end (Or.inl hq)) h1
      rw [itemsBeforeEnd_pure_append _ _ _ hp]
      have htail : itemsBeforeEnd (if (!c.downEnd && (c.server.down.sinkClosed || c.server.tornDown)) = true then [Src.eof] else []) = [] := by
        split <;> simp [itemsBeforeEnd]
      rw [htail, List.append_nil, ← List.append_assoc, hold, List.take_length, List.take_append_drop]

end Octo.System

namespace Octo.System
open Octo.Pump

theorem Flow.step_up_down (f : Flow) : (f.step .up).down = f.down := by
  unfold Flow.step; split
  · rfl
  · simp only []; split <;> rfl

theorem Flow.step_down_up (f : Flow) : (f.step .down).up = f.up := by
  unfold Flow.step; split
  · rfl
  · simp only []; split <;> rfl

theorem Flow.step_up_up (f : Flow) : (f.step .up).up = if f.tornDown = true then f.up else f.up.step := by
  unfold Flow.step; split
  · rfl
  · simp only []; split <;> rfl

theorem Flow.step_down_down (f : Flow) : (f.step .down).down = if f.tornDown = true then f.down else f.down.step := by
  unfold Flow.step; split
  · rfl
  · simp only []; split <;> rfl

theorem Flow.step_up_torn (f : Flow) :
    (f.step .up).tornDown = (f.tornDown || (f.up.step.returned || f.down.returned)) := by
  unfold Flow.step; split
  · rename_i h; simp [h]
  · rename_i h; simp only []; split
    · rename_i h2; simp only [Bool.or_eq_true] at h2 ⊢; cases h2 with
      | inl h2 => simp [h2]
      | inr h2 => simp [h2]
    · rename_i h2; simp only [not_or, Bool.not_eq_true] at h2 h; simp [h, h2.1, h2.2]

theorem Flow.step_down_torn (f : Flow) :
    (f.step .down).tornDown = (f.tornDown || (f.up.returned || f.down.step.returned)) := by
  unfold Flow.step; split
  · rename_i h; simp [h]
  · rename_i h; simp only []; split
    · rename_i h2; simp only [Bool.or_eq_true] at h2 ⊢; cases h2 with
      | inl h2 => simp [h2]
      | inr h2 => simp [h2]
    · rename_i h2; simp only [not_or, Bool.not_eq_true] at h2 h; simp [h, h2.1, h2.2]

/-- a source that only ever yields items: a poll delivers the next item (or nothing) and never ends -/
theorem Dir.step_pure (d : Dir) (hr : d.returned = false) (hc : d.sinkClosed = false) (hp : pureItems d.script = true) :
    d.step.returned = false ∧ d.step.sinkClosed = false ∧ pureItems d.step.script = true := by
  unfold Dir.step
  rw [if_neg (by simp [hr])]
  split
  · exact ⟨hr, hc, hp⟩
  · rename_i b r hs; rw [hs] at hp; exact ⟨hr, hc, by simpa [pureItems, isItem] using hp⟩
  · rename_i r hs; rw [hs] at hp; simp [pureItems, isItem] at hp
  · rename_i r hs; rw [hs] at hp; simp [pureItems, isItem] at hp

theorem cUp_inv (ans : List Bytes) (c : Chain) (h : Inv ans c) : Inv ans (c.act .cUp) := by
  have hs := Dir.step_pure c.client.up h.cu_open.1 h.cu_open.2 h.cu_pure
  have e1 : (c.act .cUp).client.down = c.client.down := Flow.step_up_down _
  have e2 : (c.act .cUp).client.tornDown = (c.client.tornDown || c.client.down.returned) := by
    show (c.client.step .up).tornDown = _
    rw [Flow.step_up_torn, hs.1]; simp
  have e3 : (c.act .cUp).client.up = if c.client.tornDown = true then c.client.up else c.client.up.step := Flow.step_up_up _
  have e4 : (c.act .cUp).server = c.server := rfl
  have e5 : (c.act .cUp).downEnd = c.downEnd := rfl
  have e6 : (c.act .cUp).upEnd = c.upEnd := rfl
  have e7 : (c.act .cUp).downSent = c.downSent := rfl
  refine ⟨?a, ?b, ?c, by rw [e1]; exact h.cd_ret, by rw [e1]; exact h.cd_nofail, by rw [e1, e5]; exact h.cd_end,
    by rw [e4, e5, e7]; exact h.dn_end, ?f, by rw [e4]; exact h.su_nofail, by rw [e4, e6]; exact h.su_end,
    by rw [e4]; exact h.sd_ret, by rw [e4]; exact h.sd_closed, by rw [e4]; exact h.sd_nofail, by rw [e4]; exact h.std,
    by rw [e4]; exact h.sd_live, by rw [e4]; exact h.sd_done, by rw [e4]; exact h.sd_good, by rw [e4, e7]; exact h.sent_le,
    by rw [e1, e4, e7]; exact h.cd_live, by rw [e1]; exact h.cd_done, by rw [e1]; exact h.cd_good, by rw [e1]; exact h.cd_closed⟩
  case a => rw [e3]; split; exact h.cu_open; exact ⟨hs.1, hs.2.1⟩
  case b => rw [e3]; split; exact h.cu_pure; exact hs.2.2
  case c =>
    rw [e2, e1]; intro ht
    simp only [Bool.or_eq_true] at ht
    rcases ht with ht | ht
    · exact h.ctd ht
    · exact h.cd_ret ht
  case f =>
    rw [e6, e2]; intro hu; simp [h.up_end hu]

end Octo.System

namespace Octo.System
open Octo.Pump

theorem Dir.step_src (d : Dir) :
    (d.step.returned = true → d.returned = true ∨ pureItems d.script = false) ∧
    (pureItems d.step.script = false → pureItems d.script = false) ∧
    (noFail d.script = true → noFail d.step.script = true) := by
  unfold Dir.step
  split
  · rename_i h; exact ⟨fun _ => Or.inl h, id, id⟩
  · split
    · exact ⟨fun h => Or.inl h, id, id⟩
    · rename_i b r hs; rw [hs]
      exact ⟨fun h => Or.inl h, fun h => by simpa [pureItems, isItem] using h, fun h => by simpa [noFail] using h⟩
    · rename_i r hs; rw [hs]
      exact ⟨fun _ => Or.inr (by simp [pureItems, isItem]), fun _ => by simp [pureItems, isItem], fun h => by simpa [noFail] using h⟩
    · rename_i r hs; rw [hs]
      exact ⟨fun _ => Or.inr (by simp [pureItems, isItem]), fun _ => by simp [pureItems, isItem], fun h => by simp [noFail] at h⟩

/-- one direction whose source never fails, tracked against what it will have handed over in total -/
structure DirInv (ans : List Bytes) (d : Dir) : Prop where
  nofail : noFail d.script = true
  ret : d.returned = true → d.sinkClosed = true
  closed : d.sinkClosed = true → d.returned = true
  live : d.returned = false → d.delivered ++ itemsBeforeEnd d.script = ans
  done : d.sinkClosed = true → d.delivered = ans
  good : ∃ t, d.delivered ++ t = ans

theorem DirInv.step {ans : List Bytes} {d : Dir} (h : DirInv ans d) :
    DirInv ans d.step ∧ (∃ x, d.step.delivered = d.delivered ++ x) ∧ (d.returned = true → d.step = d) := by
  by_cases hr : d.returned = true
  · have : d.step = d := Dir.step_frozen d hr
    rw [this]; exact ⟨h, ⟨[], by simp⟩, fun _ => rfl⟩
  · have hr' : d.returned = false := by simpa using hr
    have hl := h.live hr'
    refine ⟨?_, ?_, fun h' => absurd h' hr⟩
    · unfold Dir.step
      rw [if_neg hr]
      split
      · exact h
      · rename_i b r hs
        have hnf := h.nofail; rw [hs] at hnf hl
        simp only [itemsBeforeEnd] at hl
        exact ⟨by simpa [noFail] using hnf, h.ret, h.closed, fun _ => by simpa [List.append_assoc] using hl,
          fun hc => by have := h.closed hc; simp [hr'] at this, ⟨itemsBeforeEnd r, by simpa [List.append_assoc] using hl⟩⟩
      · rename_i r hs
        have hnf := h.nofail; rw [hs] at hnf hl
        simp only [itemsBeforeEnd, List.append_nil] at hl
        exact ⟨by simpa [noFail] using hnf, fun _ => rfl, fun _ => rfl, fun h' => by simp at h', fun _ => hl, ⟨[], by simpa using hl⟩⟩
      · rename_i r hs
        have hnf := h.nofail; rw [hs] at hnf; simp [noFail] at hnf
    · unfold Dir.step
      rw [if_neg hr]
      split
      · exact ⟨[], by simp⟩
      · exact ⟨[_], rfl⟩
      · exact ⟨[], by simp⟩
      · exact ⟨[], by simp⟩

theorem sUp_inv (ans : List Bytes) (c : Chain) (h : Inv ans c) : Inv ans (c.act .sUp) := by
  have hs := Dir.step_src c.server.up
  have e1 : (c.act .sUp).server.down = c.server.down := Flow.step_up_down _
  have e2 : (c.act .sUp).server.tornDown = (c.server.tornDown || (c.server.up.step.returned || c.server.down.returned)) := Flow.step_up_torn _
  have e3 : (c.act .sUp).server.up = if c.server.tornDown = true then c.server.up else c.server.up.step := Flow.step_up_up _
  have e4 : (c.act .sUp).client = c.client := rfl
  have e5 : (c.act .sUp).downEnd = c.downEnd := rfl
  have e6 : (c.act .sUp).upEnd = c.upEnd := rfl
  have e7 : (c.act .sUp).downSent = c.downSent := rfl
  refine ⟨by rw [e4]; exact h.cu_open, by rw [e4]; exact h.cu_pure, by rw [e4]; exact h.ctd, by rw [e4]; exact h.cd_ret,
    by rw [e4]; exact h.cd_nofail, by rw [e4, e5]; exact h.cd_end, by rw [e1, e5, e7]; exact h.dn_end, by rw [e4, e6]; exact h.up_end,
    ?sunf, ?suend, by rw [e1]; exact h.sd_ret, by rw [e1]; exact h.sd_closed, by rw [e1]; exact h.sd_nofail, ?std,
    by rw [e1]; exact h.sd_live, by rw [e1]; exact h.sd_done, by rw [e1]; exact h.sd_good, by rw [e1, e7]; exact h.sent_le,
    by rw [e4, e1, e7]; exact h.cd_live, by rw [e4]; exact h.cd_done, by rw [e4]; exact h.cd_good, by rw [e4]; exact h.cd_closed⟩
  case sunf => rw [e3]; split; exact h.su_nofail; exact hs.2.2 h.su_nofail
  case suend =>
    rw [e3, e6]; split
    · exact h.su_end
    · rintro (hp | hr)
      · exact h.su_end (Or.inl (hs.2.1 hp))
      · rcases hs.1 hr with h1 | h1
        · exact h.su_end (Or.inr h1)
        · exact h.su_end (Or.inl h1)
  case std =>
    rw [e2, e3, e1]; intro ht
    by_cases h0 : c.server.tornDown = true
    · simp only [h0, if_true]; exact h.std h0
    · simp only [h0, if_false]
      simp only [Bool.not_eq_true] at h0
      simp only [h0, Bool.false_or, Bool.or_eq_true] at ht
      exact ht

theorem sDown_inv (ans : List Bytes) (c : Chain) (h : Inv ans c) : Inv ans (c.act .sDown) := by
  have hd : DirInv ans c.server.down := ⟨h.sd_nofail, h.sd_ret, h.sd_closed, h.sd_live, h.sd_done, h.sd_good⟩
  obtain ⟨hd', ⟨x, hx⟩, hfro⟩ := hd.step
  have e1 : (c.act .sDown).server.up = c.server.up := Flow.step_down_up _
  have e2 : (c.act .sDown).server.tornDown = (c.server.tornDown || (c.server.up.returned || c.server.down.step.returned)) := Flow.step_down_torn _
  have e3 : (c.act .sDown).server.down = if c.server.tornDown = true then c.server.down else c.server.down.step := Flow.step_down_down _
  have e4 : (c.act .sDown).client = c.client := rfl
  have e5 : (c.act .sDown).downEnd = c.downEnd := rfl
  have e6 : (c.act .sDown).upEnd = c.upEnd := rfl
  have e7 : (c.act .sDown).downSent = c.downSent := rfl
  by_cases h0 : c.server.tornDown = true
  · -- torn down: nothing moves
    have e3' : (c.act .sDown).server.down = c.server.down := by rw [e3, if_pos h0]
    refine ⟨by rw [e4]; exact h.cu_open, by rw [e4]; exact h.cu_pure, by rw [e4]; exact h.ctd, by rw [e4]; exact h.cd_ret,
      by rw [e4]; exact h.cd_nofail, by rw [e4, e5]; exact h.cd_end, by rw [e3', e5, e7]; exact h.dn_end, by rw [e4, e6]; exact h.up_end,
      by rw [e1]; exact h.su_nofail, by rw [e1, e6]; exact h.su_end, by rw [e3']; exact h.sd_ret, by rw [e3']; exact h.sd_closed,
      by rw [e3']; exact h.sd_nofail, ?_, by rw [e3']; exact h.sd_live, by rw [e3']; exact h.sd_done, by rw [e3']; exact h.sd_good,
      by rw [e3', e7]; exact h.sent_le, by rw [e4, e3', e7]; exact h.cd_live, by rw [e4]; exact h.cd_done, by rw [e4]; exact h.cd_good,
      by rw [e4]; exact h.cd_closed⟩
    rw [e1, e3']; intro _; exact h.std h0
  · have e3' : (c.act .sDown).server.down = c.server.down.step := by rw [e3, if_neg h0]
    refine ⟨by rw [e4]; exact h.cu_open, by rw [e4]; exact h.cu_pure, by rw [e4]; exact h.ctd, by rw [e4]; exact h.cd_ret,
      by rw [e4]; exact h.cd_nofail, by rw [e4, e5]; exact h.cd_end, ?dnend, by rw [e4, e6]; exact h.up_end,
      by rw [e1]; exact h.su_nofail, by rw [e1, e6]; exact h.su_end, by rw [e3']; exact hd'.ret, by rw [e3']; exact hd'.closed,
      by rw [e3']; exact hd'.nofail, ?std, by rw [e3']; exact hd'.live, by rw [e3']; exact hd'.done, by rw [e3']; exact hd'.good,
      ?sent, ?cdlive, by rw [e4]; exact h.cd_done, by rw [e4]; exact h.cd_good, by rw [e4]; exact h.cd_closed⟩
    case dnend =>
      rw [e5, e7, e3']; intro hde
      obtain ⟨h1, h2⟩ := h.dn_end hde
      rw [hfro (h.sd_closed h1)]; exact ⟨h1, h2⟩
    case std =>
      rw [e2, e1, e3']; intro ht
      simp only [Bool.not_eq_true] at h0
      simpa [h0] using ht
    case sent =>
      rw [e7, e3', hx]; have := h.sent_le; simp; omega
    case cdlive =>
      rw [e4, e7, e3', hx]; intro hr
      rw [h.cd_live hr, List.take_append_of_le_length h.sent_le]

end Octo.System

namespace Octo.System
open Octo.Pump

theorem cDown_inv (ans : List Bytes) (c : Chain) (h : Inv ans c) : Inv ans (c.act .cDown) := by
  have e1 : (c.act .cDown).client.up = c.client.up := Flow.step_down_up _
  have e2 : (c.act .cDown).client.tornDown = (c.client.tornDown || (c.client.up.returned || c.client.down.step.returned)) := Flow.step_down_torn _
  have e3 : (c.act .cDown).client.down = if c.client.tornDown = true then c.client.down else c.client.down.step := Flow.step_down_down _
  have e4 : (c.act .cDown).server = c.server := rfl
  have e5 : (c.act .cDown).downEnd = c.downEnd := rfl
  have e6 : (c.act .cDown).upEnd = c.upEnd := rfl
  have e7 : (c.act .cDown).downSent = c.downSent := rfl
  -- what one poll of the application-side pump does
  have key : (c.client.down.step.returned = true → c.client.down.step.sinkClosed = true) ∧
      noFail c.client.down.step.script = true ∧
      ((pureItems c.client.down.step.script = false ∨ c.client.down.step.sinkClosed = true) → c.downEnd = true) ∧
      (c.client.down.step.returned = false →
        c.client.down.step.delivered ++ itemsBeforeEnd c.client.down.step.script = c.server.down.delivered.take c.downSent) ∧
      (c.client.down.step.sinkClosed = true → c.client.down.step.delivered = ans) ∧
      (∃ t, c.client.down.step.delivered ++ t = ans) ∧
      (c.client.down.step.sinkClosed = true → c.client.down.step.returned = true) := by
    by_cases hr : c.client.down.returned = true
    · rw [Dir.step_frozen _ hr]
      exact ⟨h.cd_ret, h.cd_nofail, h.cd_end, h.cd_live, h.cd_done, h.cd_good, h.cd_closed⟩
    · have hr' : c.client.down.returned = false := by simpa using hr
      have hl := h.cd_live hr'
      have hnc : c.client.down.sinkClosed = false := by
        cases hq : c.client.down.sinkClosed with
        | false => rfl
        | true => exact absurd (h.cd_closed hq) hr
      have hnf := h.cd_nofail
      obtain ⟨t, ht⟩ := h.sd_good
      unfold Dir.step
      rw [if_neg hr]
      split
      · exact ⟨h.cd_ret, h.cd_nofail, h.cd_end, h.cd_live, h.cd_done, h.cd_good, h.cd_closed⟩
      · rename_i b r hs
        rw [hs] at hl hnf
        simp only [itemsBeforeEnd] at hl
        refine ⟨fun h' => absurd h' hr, by simpa [noFail] using hnf, ?_, fun _ => by simpa [List.append_assoc] using hl,
          fun hc => by simp [hnc] at hc, ?_, fun hc => by simp [hnc] at hc⟩
        · rintro (hp | hc)
          · exact h.cd_end (Or.inl (by rw [hs]; simpa [pureItems, isItem] using hp))
          · simp [hnc] at hc
        · refine ⟨itemsBeforeEnd r ++ (c.server.down.delivered.drop c.downSent ++ t), ?_⟩
          have : c.client.down.delivered ++ [b] ++ (itemsBeforeEnd r ++ (List.drop c.downSent c.server.down.delivered ++ t)) =
              (c.client.down.delivered ++ b :: itemsBeforeEnd r) ++ List.drop c.downSent c.server.down.delivered ++ t := by
            simp [List.append_assoc]
          rw [this, hl, List.take_append_drop, ht]
      · rename_i r hs
        rw [hs] at hl hnf
        simp only [itemsBeforeEnd, List.append_nil] at hl
        have hde : c.downEnd = true := h.cd_end (Or.inl (by rw [hs]; simp [pureItems, isItem]))
        obtain ⟨hsc, hsent⟩ := h.dn_end hde
        have hall : c.client.down.delivered = ans := by
          rw [hl, hsent, List.take_length]; exact h.sd_done hsc
        exact ⟨fun _ => rfl, by simpa [noFail] using hnf, fun _ => hde, fun h' => by simp at h', fun _ => hall, ⟨[], by simpa using hall⟩, fun _ => rfl⟩
      · rename_i r hs
        rw [hs] at hnf; simp [noFail] at hnf
  obtain ⟨k1, k2, k3, k4, k5, k6, k7⟩ := key
  by_cases h0 : c.client.tornDown = true
  · have e3' : (c.act .cDown).client.down = c.client.down := by rw [e3, if_pos h0]
    have e2' : (c.act .cDown).client.tornDown = true := by rw [e2, h0]; rfl
    refine ⟨by rw [e1]; exact h.cu_open, by rw [e1]; exact h.cu_pure, by rw [e3']; exact fun _ => h.ctd h0, by rw [e3']; exact h.cd_ret,
      by rw [e3']; exact h.cd_nofail, by rw [e3', e5]; exact h.cd_end, by rw [e4, e5, e7]; exact h.dn_end, fun _ => e2',
      by rw [e4]; exact h.su_nofail, by rw [e4, e6]; exact h.su_end, by rw [e4]; exact h.sd_ret, by rw [e4]; exact h.sd_closed,
      by rw [e4]; exact h.sd_nofail, by rw [e4]; exact h.std, by rw [e4]; exact h.sd_live, by rw [e4]; exact h.sd_done,
      by rw [e4]; exact h.sd_good, by rw [e4, e7]; exact h.sent_le, by rw [e3', e4, e7]; exact h.cd_live,
      by rw [e3']; exact h.cd_done, by rw [e3']; exact h.cd_good, by rw [e3']; exact h.cd_closed⟩
  · have e3' : (c.act .cDown).client.down = c.client.down.step := by rw [e3, if_neg h0]
    have h0' : c.client.tornDown = false := by simpa using h0
    have e2' : (c.act .cDown).client.tornDown = c.client.down.step.returned := by rw [e2, h0', h.cu_open.1]; simp
    refine ⟨by rw [e1]; exact h.cu_open, by rw [e1]; exact h.cu_pure, by rw [e2', e3']; exact k1, by rw [e3']; exact k1,
      by rw [e3']; exact k2, by rw [e3', e5]; exact k3, by rw [e4, e5, e7]; exact h.dn_end, ?_,
      by rw [e4]; exact h.su_nofail, by rw [e4, e6]; exact h.su_end, by rw [e4]; exact h.sd_ret, by rw [e4]; exact h.sd_closed,
      by rw [e4]; exact h.sd_nofail, by rw [e4]; exact h.std, by rw [e4]; exact h.sd_live, by rw [e4]; exact h.sd_done,
      by rw [e4]; exact h.sd_good, by rw [e4, e7]; exact h.sent_le, by rw [e3', e4, e7]; exact k4,
      by rw [e3']; exact k5, by rw [e3']; exact k6, by rw [e3']; exact k7⟩
    rw [e6]; intro hu; exact absurd (h.up_end hu) h0

end Octo.System

namespace Octo.System
open Octo.Pump

theorem act_inv (ans : List Bytes) (c : Chain) (h : Inv ans c) (a : Act) : Inv ans (c.act a) := by
  cases a with
  | cUp => exact cUp_inv ans c h
  | cDown => exact cDown_inv ans c h
  | sUp => exact sUp_inv ans c h
  | sDown => exact sDown_inv ans c h
  | link => exact link_inv ans c h

theorem runActs_inv (ans : List Bytes) (s : List Act) : ∀ (c : Chain), Inv ans c → Inv ans (c.runActs s) := by
  induction s with
  | nil => intro c h; exact h
  | cons a s ih => intro c h; exact ih _ (act_inv ans c h a)

/-- the scenario: the application writes `us` and keeps its side open; the target answers `ans` and closes -/
def answerScenario (us ans : List Bytes) : Chain :=
  { client := { up := { script := us.map Src.item }, down := { script := [] } },
    server := { up := { script := [] }, down := { script := ans.map Src.item ++ [Src.eof] } } }

theorem answerScenario_inv (us ans : List Bytes) : Inv ans (answerScenario us ans) := by
  have hib : itemsBeforeEnd (ans.map Src.item ++ [Src.eof]) = ans := by
    have := itemsBeforeEnd_pure_append [] ans [Src.eof] rfl
    simpa [itemsBeforeEnd] using this
  refine ⟨⟨rfl, rfl⟩, pureItems_map us, fun h => by simp [answerScenario] at h, fun h => by simp [answerScenario] at h, rfl,
    ?_, fun h => by simp [answerScenario] at h, fun h => by simp [answerScenario] at h, rfl, ?_,
    fun h => by simp [answerScenario] at h, fun h => by simp [answerScenario] at h, ?_, fun h => by simp [answerScenario] at h,
    fun _ => by simpa [answerScenario] using hib, fun h => by simp [answerScenario] at h, ⟨ans, by simp [answerScenario]⟩,
    Nat.zero_le _, fun _ => by simp [answerScenario, itemsBeforeEnd], fun h => by simp [answerScenario] at h,
    ⟨ans, by simp [answerScenario]⟩, fun h => by simp [answerScenario] at h⟩
  · rintro (h | h) <;> simp [answerScenario, pureItems] at h
  · rintro (h | h) <;> simp [answerScenario, pureItems] at h
  · show noFail (ans.map Src.item ++ [Src.eof]) = true
    rw [noFail_append, noFail_map]; rfl

end Octo.System
